#!/usr/bin/env python3
"""Writes MANIFEST.json from the claims table below (run by hand after editing; the result is committed)."""
import json, os
HERE = os.path.dirname(os.path.abspath(__file__))
VERIF = os.path.dirname(HERE)

# id -> (level text, level note, technique, design_ref)
TECH = 'Rocq/Coq proof over a Gallina model + model-vs-crate correspondence replay'
NOTE = 'Trusted: Coq kernel; the hand-written Gallina model (validated on every run by differential replay of crate transcripts on the extracted model, not proved faithful); ExtrOcamlBasic extraction + ocaml/driver.ml; the Rust harness. Print Assumptions is checked per theorem on every run against an allowlist (currently: every theorem closed under the global context).'
CLAIMS = {
 'C01': ('Coq theorems (Props/C01.v) that no filter model reports a false negative: Bloom for every m>=1,k, every hash function and every history tree of insert/union/clear; Cuckoo for every reachable state, every hash function and every 64-bit RNG word stream (class inserted more often than deleted is reported present; union = multiset sum); QuotientFilter by kernel-evaluated finite closure for widths (1,1)..(3,1) lifted to histories of any length incl. failed inserts/unions, and for 2- and 4-slot filters at EVERY remainder width. PARTIAL: the QF part for bits_quotient >= 3 beyond the closure widths is covered only by the correspondence (crate vs model vs abstract-set oracle, widths up to (12,52)); the HashSet compat glue is covered by the oracle only.', NOTE, TECH, '8.1'),
 'C02': ('Coq theorems (Props/C02.v: lower and upper bound, add_n return value, single-key exactness, table = reference table of the flattened stream) for every w,d>=1, every counter bound, every hash function and every history of add_n/merge/clear, proved by induction over histories on the Gallina model of countminsketch.rs; tied to /repo on every run by replaying crate transcripts (same hash values) on the extracted model; exact-count oracles run on the crate itself.', NOTE, TECH, '8.2'),
 'C04': ("PARTIAL. Proved (Props/C04.v, exact rational arithmetic): the greedy merge emits at most 2(f(1)-f(0))+1 centroids for ANY scale function satisfying the abstract limit hypothesis, every fused centroid meets the width constraint, and for K0 every history (any weights >= 0, any backlog size, any reads) holds at most delta+1 <= delta+3 centroids. NOT proved: the delta+3 bound for K1-K3 (needs real analysis of asin/ln; only the oracle n_centroids <= delta+3 on the crate covers it) and the rank-accuracy sentence (an empirical claim about input families). The generic model runs with native binary64 and the crate's own logged scale limits and must agree bit for bit with the crate on every generated history (K0-K3).", NOTE, TECH, '8.4'),
 'C06': ('Coq theorems (Props/C06.v): Bloom/CMS/HLL merge yields the state of a structure fed both streams (state equality), commutative, associative, idempotent where set-like; Cuckoo union Ok gives the multiset sum and adds len; QF union (closure widths) = canonical state of the set union or Full with state unchanged, commutative/associative/idempotent. PARTIAL for QF beyond the closure widths (correspondence + reference-structure oracle only). "B unchanged" is by typing in the model and by the isolation oracle on the crate.', NOTE, TECH, '8.6'),
 'C09': ('Coq theorems (Props/C09.v): n() = adds, add returns true iff untracked, f <= true <= f+delta, completeness (true >= s*n and > eps*n implies reported), soundness, and the harmonic size bound width*(H(ceil(n/width))+1), for every width>=1, every stream, every prefix, every rational threshold, under 1 <= eps*width; correspondence replays crate transcripts (with_width and with_epsilon, adversarial boundary streams, thresholds) on the extracted model; exact-count oracle on the crate at every prefix.', NOTE, TECH, '8.9'),
 'C10': ('Coq theorems (Props/C10.v, incl. the one-statement cmsheap_C10): add never panics while counters cannot overflow, iter() yields exactly min(k, distinct) distinct added elements, a missing x is beaten up to E by all k results (E = largest sketch overestimate, also in computed form), exact top-k for E = 0, index consistency of map and ordered set; every k,w,d>=1, every hash function, every stream. Correspondence: crate (default SipHash sketch, hash values recomputed and logged) vs extracted model, 1x1 to 1024-wide sketches; oracle with exact counts and a shadow sketch at every prefix.', NOTE, TECH, '8.10'),
 'C12': ('Coq theorems (Props/C12.v): a failed cuckoo insert or union returns the IDENTICAL state, for every hash function, every RNG word list and every state with no well-formedness hypothesis (undo-log invariant across kicks and across the whole union loop, free-slot writes included), and every later operation behaves as on the original; QF: every non-Ok(true) insert result and every failed union returns the identical state, all widths. Correspondence replays failing inserts (500-kick chains) and unions failing at every point; snapshot oracle (len, is_empty, query over the universe, remaining delete counts) on the crate before/after each failing call.', NOTE, TECH, '8.12'),
 'C13': ('PARTIAL (general bits_quotient >= 3 at large remainders not proved). Proved (Props/C13.v): fingerprint split = div/mod of the low q+r bits (all widths); kernel-evaluated finite closure for widths (1,1) (1,2) (1,3) (1,4) (2,1) (2,2) (2,3) (3,1) — every set of <= 2^q pairs, every pair — lifted by induction to every history of any length: exact membership, len = number of classes, Ok(true)/Ok(false)/Err(Full) exactly per spec, never stuck, canonical (history-independent) layout; and by remainder renaming to EVERY bits_remainder for bits_quotient in {1,2}. Beyond that: correspondence crate vs model vs abstract set (widths to (12,52)).', NOTE, TECH, '8.13'),
 'C14': ("Coq theorems (Props/C14.v): for every hash function, every 64-bit RNG word stream and every reachable state the cuckoo model is an exact multiset of classes (fingerprint, unordered bucket pair): insert Ok reports true and adds one copy, query iff a copy is stored, delete true iff stored and removes exactly one copy and nothing else, len = inserts - deletes, an insert with a free candidate slot (in particular fewer than bucketsize stored) succeeds without eviction. Correspondence incl. scripted eviction words and 500-kick failures; abstract-multiset oracle using the property's own class definition on the crate.", NOTE, TECH, '8.14'),
 'C15': ('Coq theorems (Props/C15.v, exact rational arithmetic, any scale function, any backlog size, any history of non-negative weights): quantile monotone, within [min,max], = min at 0 and = max at 1; cdf monotone, within [0,1], 0 below min, 1 from max; cdf(quantile q) = q under strict means/tails and >= q always; repeated reads identical; empty digest. The gap to the crate is IEEE rounding, which the property itself allows ("a few ulps"): the same generic model run with native binary64 must agree with the crate BIT FOR BIT on every generated history, and a float oracle checks the shape on the crate with the property\'s allowance.', NOTE, TECH, '8.15'),
 'C16': ("Coq theorems (Props/C16.v, exact rational arithmetic): count = sum of weights, sum/mean = weighted sum/mean, min/max exactly the extreme inserted values, zero weight no-op, is_empty iff no positive weight since creation/clear — every history, backlog size, read placement and scale function. Float accumulation error is the property's own allowance; the generic model with native binary64 agrees bit for bit with the crate on every generated history (weights across 16 orders of magnitude).", NOTE, TECH, '8.16'),
 'C17': ('Coq theorems (Props/C17.v: register index and rank formulas incl. first-set-bit characterisation, registers = max rank per addressed register, permutation and set invariance, add = add_hashed o hash, reconstruction) for all precisions and all 64-bit hash lists, on the Gallina model of hyperloglog/mod.rs; tied to /repo by transcript replay on the extracted model (all 15 precisions, boundary hashes) and a register-formula oracle on the crate.', NOTE, TECH, '8.17'),
 'C19': ('Coq theorems (Props/C19.v): clear s = the freshly constructed state (so every continuation coincides) for Bloom, CMS, HLL, LossyCounter, Cuckoo, QF, CMSHeap (t-digest and reservoir: see C16/C18 files; added as they land), and is_empty characterisations. clone is a value copy in the functional model; that derive(Clone) is deep is CHECKED, not proved: the harness drives original and clone apart and an isolation oracle compares every untouched instance after every op; a second pass replaces each clear() by a fresh constructor call and compares all results.', NOTE, TECH, '8.19'),
}
PENDING = 'check under construction in this round (see DESIGN.md); not yet claimed'
ALL = ['C%02d' % i for i in range(1, 21)]

m = {
 'version': 1,
 'setup_cmd': 'cd /verif && ./setup.sh',
 'hooks': {
  'guard': 'pdatastructs_verif',
  'enable': 'none needed: the harness observes the crate through its public API and its own type parameters (BuildHasher, Rng, ScaleFunction); no source hook exists',
  'baseline_off_cmd': 'cd /repo && cargo test --workspace --no-fail-fast --offline',
  'source_commits': [],
  'add_only': True,
 },
 'engines': [{'name': 'coq-proof+correspondence', 'path': '/verif/check', 'serves_properties': sorted(CLAIMS),
              'kind_free_text': 'Coq 8.16 theorems over Gallina models; models extracted to OCaml and replayed against transcripts of the real crate'}],
 'checks': [],
 'not_applicable': [],
 'notes': 'Every check: ./check <ID> [--tier quick|thorough]; replays under /verif/replays; known findings in /verif/known_findings.txt.',
}
for pid in ALL:
    if pid in CLAIMS:
        text, note, tech, ref = CLAIMS[pid]
        m['checks'].append({
            'property_id': pid,
            'quick_cmd': 'cd /verif && ./check %s --tier quick' % pid,
            'thorough_cmd': 'cd /verif && ./check %s --tier thorough' % pid,
            'evidence_file': '/verif/evidence/%s.json' % pid,
            'replay_cmd_template': 'cd /verif && ./check %s --replay {path}' % pid,
            'engine': 'coq-proof+correspondence',
            'level_claimed': {'category': 'proof', 'text': text, 'design_ref': 'DESIGN.md ' + ref},
            'level_note': note,
            'technique': tech,
        })
    else:
        m['not_applicable'].append({'property_id': pid, 'reason': PENDING})
json.dump(m, open(os.path.join(VERIF, 'MANIFEST.json'), 'w'), indent=1)
print('claimed:', sorted(CLAIMS))
