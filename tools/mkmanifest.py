#!/usr/bin/env python3
"""Writes MANIFEST.json from the claims table below (run by hand after editing; the result is committed)."""
import json, os
HERE = os.path.dirname(os.path.abspath(__file__))
VERIF = os.path.dirname(HERE)

# id -> (level text, level note, technique, design_ref)
CLAIMS = {
 'C02': ('Coq theorems (Props/C02.v: lower and upper bound, add_n return value, single-key exactness, table = reference table of the flattened stream) for every w,d>=1, every counter bound, every hash function and every history of add_n/merge/clear, proved by induction over histories on the Gallina model of countminsketch.rs; the model is tied to /repo on every run by replaying crate transcripts (same hash values) on the extracted model, and exact-count oracles run on the crate itself.',
         'Trusted: Coq kernel; the hand-written model (validated by differential replay, not proved faithful); ExtrOcamlBasic extraction + OCaml driver; Rust harness. Theorems are axiom-free (Print Assumptions checked on every run).',
         'Rocq/Coq proof over a Gallina model + model-vs-crate correspondence replay', '8.2'),
 'C17': ('Coq theorems (Props/C17.v: register index and rank formulas incl. first-set-bit characterisation, registers = max rank per addressed register, permutation and set invariance, add = add_hashed o hash, reconstruction) for all precisions and all 64-bit hash lists, on the Gallina model of hyperloglog/mod.rs; tied to /repo by transcript replay on the extracted model (all 15 precisions, boundary hashes) and a register-formula oracle on the crate.',
         'Trusted: Coq kernel; hand-written model validated by differential replay; extraction + OCaml driver; Rust harness. Axiom-free.',
         'Rocq/Coq proof over a Gallina model + model-vs-crate correspondence replay', '8.17'),
}
PENDING = 'check under construction in this round (see DESIGN.md); not yet claimed'
ALL = ['C%02d' % i for i in range(1, 21)]

m = {
 'version': 1,
 'setup_cmd': 'cd /verif && ./setup.sh',
 'hooks': {
  'guard': 'pdatastructs_verif',
  'enable': 'none needed: the harness observes the crate through its public API and its own type parameters (BuildHasher, Rng, ScaleFunction); no source hook exists',
  'baseline_off_cmd': 'cd /repo && cargo test --workspace --no-fail-fast --offline',
  'source_commits': [],
  'add_only': True,
 },
 'engines': [{'name': 'coq-proof+correspondence', 'path': '/verif/check', 'serves_properties': sorted(CLAIMS),
              'kind_free_text': 'Coq 8.16 theorems over Gallina models; models extracted to OCaml and replayed against transcripts of the real crate'}],
 'checks': [],
 'not_applicable': [],
 'notes': 'Every check: ./check <ID> [--tier quick|thorough]; replays under /verif/replays; known findings in /verif/known_findings.txt.',
}
for pid in ALL:
    if pid in CLAIMS:
        text, note, tech, ref = CLAIMS[pid]
        m['checks'].append({
            'property_id': pid,
            'quick_cmd': 'cd /verif && ./check %s --tier quick' % pid,
            'thorough_cmd': 'cd /verif && ./check %s --tier thorough' % pid,
            'evidence_file': '/verif/evidence/%s.json' % pid,
            'replay_cmd_template': 'cd /verif && ./check %s --replay {path}' % pid,
            'engine': 'coq-proof+correspondence',
            'level_claimed': {'category': 'proof', 'text': text, 'design_ref': 'DESIGN.md ' + ref},
            'level_note': note,
            'technique': tech,
        })
    else:
        m['not_applicable'].append({'property_id': pid, 'reason': PENDING})
json.dump(m, open(os.path.join(VERIF, 'MANIFEST.json'), 'w'), indent=1)
print('claimed:', sorted(CLAIMS))
