"""Correspondence machinery: run the Rust harness on case files, translate the transcript into a
Coq `cases.v`, evaluate the models with vm_compute (sharded over coqc processes) and report every
operation on which model and implementation disagree."""
import os, re, subprocess, sys, json, hashlib, time
from concurrent.futures import ThreadPoolExecutor

VERIF = os.path.dirname(os.path.dirname(os.path.abspath(__file__)))
COQ = os.path.join(VERIF, 'coq')
BUILD = os.path.join(VERIF, 'build')
HARNESS = os.path.join(VERIF, 'harness')

# ---------------------------------------------------------------- transcript

class TCase:
    def __init__(self, cid, st, cfg):
        self.id, self.st, self.cfg = cid, st, cfg
        self.ops = []      # (tokens, result tokens, rng words)
        self.h = []        # (iv|None, val|None, fin)
        self.x = []        # oracle failures: (prop, msg)

def parse_transcript(text):
    cases, cur = [], None
    for line in text.splitlines():
        if not line:
            continue
        if line.startswith('CASE '):
            t = line.split()
            cfg = dict(kv.split('=', 1) for kv in t[3:])
            cur = TCase(t[1], t[2], cfg)
        elif line.startswith('O '):
            body = line[2:]
            left, right = body.split(' => ', 1)
            words = []
            if ' | ' in right:
                right, w = right.split(' | ', 1)
                words = [int(x) for x in w.split()]
            cur.ops.append((left.split(), right.split(), words))
        elif line.startswith('H '):
            t = line.split()
            cur.h.append((None if t[1] == '-' else int(t[1]), None if t[2] == '-' else int(t[2]), int(t[3])))
        elif line.startswith('X '):
            t = line.split(' ', 2)
            cur.x.append((t[1], t[2] if len(t) > 2 else ''))
        elif line.startswith('END'):
            cases.append(cur)
            cur = None
    return cases

# ---------------------------------------------------------------- harness

def build_harness(profile='debug', log=None):
    """(re)build the harness against /repo's current working tree"""
    lock_src = '/repo/Cargo.lock'
    lock_dst = os.path.join(HARNESS, 'Cargo.lock')
    if not os.path.exists(lock_dst):
        subprocess.run(['cp', lock_src, lock_dst], check=True)
    cmd = ['cargo', 'build', '--offline', '--quiet'] + (['--release'] if profile == 'release' else [])
    env = dict(os.environ, CARGO_NET_OFFLINE='true', RUSTFLAGS=os.environ.get('RUSTFLAGS', ''))
    r = subprocess.run(cmd, cwd=HARNESS, env=env, capture_output=True, text=True)
    if r.returncode != 0:
        return None, r.stderr
    return os.path.join(HARNESS, 'target', profile, 'pdsdrive'), ''

def run_harness(binary, casefile, timeout=600):
    r = subprocess.run([binary, casefile], capture_output=True, text=True, timeout=timeout)
    if r.returncode != 0:
        raise RuntimeError('harness failed: ' + r.stderr[-2000:])
    return r.stdout

# ---------------------------------------------------------------- Coq term writers

def N(x):
    return str(int(x))

def lN(xs):
    return '[' + '; '.join(N(x) for x in xs) + ']'

def hlog(case):
    return '[' + '; '.join('(%d, %d, %d)' % (0 if iv is None else iv + 1, 0 if v is None else v + 1, f) for iv, v, f in case.h) + ']'

def res_tokens(res):
    """result tokens -> Coq option (list N); None for 'skipped' lines"""
    if res == ['skipped']:
        return None
    if res == ['panic']:
        return 'None'
    if res == ['unit']:
        return '(Some [])'
    return '(Some ' + lN(res) + ')'

def ol(oc, args, rnd, res):
    return 'OL %d %s %s %s' % (oc, lN(args), lN(rnd), res)

CMAX = {'u8': 2**8 - 1, 'u16': 2**16 - 1, 'u32': 2**32 - 1, 'u64': 2**64 - 1, 'usize': 2**64 - 1}

OPC = {
    'bloom': {'new': 0, 'ins': 2, 'q': 3, 'union': 4, 'clear': 5, 'clone': 6, 'obs': 7, 'empty': 9},
    'cms': {'new': 0, 'add': 2, 'q': 3, 'merge': 4, 'clear': 5, 'clone': 6, 'obs': 7, 'empty': 9},
    'hll': {'new': 0, 'fromregs': 1, 'addh': 2, 'add': 3, 'merge': 4, 'clear': 5, 'clone': 6, 'regs': 7, 'empty': 9},
    'cuckoo': {'new': 0, 'ins': 2, 'q': 3, 'union': 4, 'clear': 5, 'clone': 6, 'obs': 7, 'del': 8, 'dobs': 10},
    'qf': {'new': 0, 'ins': 2, 'q': 3, 'union': 4, 'clear': 5, 'clone': 6, 'obs': 7},
}

def translate_ops(case, aux):
    """-> list of Coq opline strings (ops the discrete model does not cover are rewritten or routed to `aux`)"""
    out = []
    table = OPC[case.st]
    for k, (op, res, words) in enumerate(case.ops):
        r = res_tokens(res)
        if r is None:
            continue
        name, args = op[0], op[1:]
        if name == 'props' and case.st == 'cuckoo' and res != ['panic']:
            aux.append((case, k, op, res))
            out.append(ol(0, [args[0], res[0], res[1], res[2]], [], '(Some [])'))
            continue
        if name == 'props' and case.st in ('bloom', 'cms') and res != ['panic']:
            # sizing is a float computation: checked by the sizing model (aux); the discrete model
            # continues from the parameters the constructor chose
            aux.append((case, k, op, res))
            out.append(ol(0, [args[0], res[0], res[1]], [], '(Some [])'))
            continue
        if name not in table:
            aux.append((case, k, op, res))
            continue
        out.append(ol(table[name], args, words, r))
    return out

def case_term(case, aux):
    ops = '[' + ';\n    '.join(translate_ops(case, aux)) + ']'
    u = int(case.cfg.get('u', 8))
    if case.st in ('bloom', 'cuckoo', 'qf'):
        return '(%s, %d, %s)' % (hlog(case), u, ops)
    if case.st == 'cms':
        return '(%s, %d, %d, %s)' % (hlog(case), u, CMAX[case.cfg.get('ctype', 'usize')], ops)
    if case.st == 'hll':
        return '(%s, %s)' % (hlog(case), ops)
    raise KeyError(case.st)

EXMOD = {'cuckoo': ('ExCuckoo', 'ck_check'), 'qf': ('ExQuotient', 'qf_check'), 'bloom': ('ExBloom', 'bloom_check'), 'cms': ('ExCms', 'cms_check'), 'hll': ('ExHll', 'hll_check')}

def write_cases_v(path, st, cases, aux):
    mod, chk = EXMOD[st]
    with open(path, 'w') as f:
        f.write('From PDS Require Import Exec.%s.\nOpen Scope N_scope.\n' % mod)
        f.write('Definition cases := [\n  ' + ';\n  '.join(case_term(c, aux) for c in cases) + '].\n')
        f.write('Definition result := Eval vm_compute in (%s cases).\nPrint result.\n' % chk)

def run_coqc(path, timeout=900):
    r = subprocess.run(['coqc', '-noglob', '-Q', os.path.join(COQ, 'theories'), 'PDS', path], capture_output=True, text=True, timeout=timeout,
                       cwd=os.path.dirname(path))
    return r.returncode, r.stdout, r.stderr

def parse_result(out):
    """'result = [(k, i, m); ...]' -> list of (case index, op index, model result text)"""
    m = re.search(r'result\s*=\s*(.*?)\s*:\s*list', out, re.S)
    if not m:
        return None
    body = ' '.join(m.group(1).split())
    if body == '[]':
        return []
    fails = []
    # entries look like (k, i, Some [..]) or (k, i, None)
    for e in re.finditer(r'\((\d+), (\d+), (None|Some \[[^\]]*\])\)', body):
        fails.append((int(e.group(1)), int(e.group(2)), e.group(3)))
    return fails if fails else None

def model_check(st, cases, tag, shards=16, per_shard=150):
    """evaluate the model on the transcript cases; returns (disagreements, aux items, errors)
       disagreement: (case, op index within translated ops, model result text)"""
    os.makedirs(BUILD, exist_ok=True)
    chunks = [cases[i:i + per_shard] for i in range(0, len(cases), per_shard)]
    aux, jobs = [], []
    for n, ch in enumerate(chunks):
        path = os.path.join(BUILD, 'cases_%s_%s_%d.v' % (tag, st, n))
        write_cases_v(path, st, ch, aux)
        jobs.append((path, ch))
    disagreements, errors = [], []
    def work(job):
        path, ch = job
        rc, out, err = run_coqc(path)
        return job, rc, out, err
    with ThreadPoolExecutor(max_workers=shards) as ex:
        for (path, ch), rc, out, err in ex.map(work, jobs):
            if rc != 0:
                errors.append('coqc failed on %s: %s' % (path, err[-1500:]))
                continue
            fails = parse_result(out)
            if fails is None:
                errors.append('cannot parse coqc output for %s: %s' % (path, out[-500:]))
                continue
            for k, i, m in fails:
                disagreements.append((ch[k], i, m))
            for ext in ('.vo', '.vok', '.vos', '.glob'):
                try:
                    os.remove(path[:-2] + ext)
                except OSError:
                    pass
    return disagreements, aux, errors
