"""Correspondence machinery: run the Rust harness on case files, translate the transcript into a
Coq `cases.v`, evaluate the models with vm_compute (sharded over coqc processes) and report every
operation on which model and implementation disagree."""
import os, re, subprocess, sys, json, hashlib, time
from concurrent.futures import ThreadPoolExecutor

VERIF = os.path.dirname(os.path.dirname(os.path.abspath(__file__)))
COQ = os.path.join(VERIF, 'coq')
BUILD = os.path.join(VERIF, 'build')
HARNESS = os.path.join(VERIF, 'harness')

# ---------------------------------------------------------------- transcript

class TCase:
    def __init__(self, cid, st, cfg):
        self.id, self.st, self.cfg = cid, st, cfg
        self.ops = []      # (tokens, result tokens, rng words)
        self.h = []        # (iv|None, val|None, fin)
        self.x = []        # oracle failures: (prop, msg)
        self.hang = False
        self.l = []        # t-digest limit table: (n, q0 bits, limit bits)
        self.s = []        # scale function calls: (kind, in bits, n, out bits)

def parse_transcript(text):
    cases, cur = [], None
    for line in text.splitlines():
        if not line:
            continue
        if line.startswith('CASE '):
            t = line.split()
            cfg = dict(kv.split('=', 1) for kv in t[3:])
            cur = TCase(t[1], t[2], cfg)
        elif line.startswith('O '):
            body = line[2:]
            left, right = body.split(' => ', 1)
            words = []
            if ' | ' in right:
                right, w = right.split(' | ', 1)
                words = [int(x) for x in w.split()]
            cur.ops.append((left.split(), right.split(), words))
        elif line.startswith('H '):
            t = line.split()
            cur.h.append((None if t[1] == '-' else int(t[1]), None if t[2] == '-' else int(t[2]), int(t[3])))
        elif line.startswith('L '):
            t = line.split()
            cur.l.append((int(t[1]), int(t[2]), int(t[3])))
        elif line.startswith('S '):
            t = line.split()
            cur.s.append((t[1], int(t[2]), int(t[3]), int(t[4])))
        elif line.startswith('X '):
            t = line.split(' ', 2)
            cur.x.append((t[1], t[2] if len(t) > 2 else ''))
        elif line.startswith('CRASH'):
            cur.x.append(('*', 'the crate aborted the whole process (%s): allocation failure, stack overflow or a fatal signal' % line))
            cur.hang = True
        elif line == 'DIED':
            cur.x.append(('*', 'the crate panicked while the harness observed an instance (outside the guarded operation)'))
            cur.hang = True
        elif line == 'HANG':
            cur.x.append(('*', 'the crate did not return within the time limit (non-termination)'))
            cur.hang = True
        elif line.startswith('END'):
            cases.append(cur)
            cur = None
    return cases

# ---------------------------------------------------------------- harness

def build_harness(profile='debug', log=None):
    """(re)build the harness against /repo's current working tree"""
    lock_src = '/repo/Cargo.lock'
    lock_dst = os.path.join(HARNESS, 'Cargo.lock')
    if not os.path.exists(lock_dst):
        subprocess.run(['cp', lock_src, lock_dst], check=True)
    cmd = ['cargo', 'build', '--offline', '--quiet'] + (['--release'] if profile == 'release' else [])
    env = dict(os.environ, CARGO_NET_OFFLINE='true', RUSTFLAGS=os.environ.get('RUSTFLAGS', ''))
    r = subprocess.run(cmd, cwd=HARNESS, env=env, capture_output=True, text=True)
    if r.returncode != 0:
        return None, r.stderr
    return os.path.join(HARNESS, 'target', profile, 'pdsdrive'), ''

def run_harness(binary, casefile, timeout=1800, case_ms=30000):
    """runs all cases; a case on which the crate does not return (exit status 3 after a HANG record) is
    recorded and the run resumes with the cases after it"""
    out = []
    lines = open(casefile).read().split('\n')
    # split into cases
    cases, cur = [], []
    for ln in lines:
        if ln.startswith('CASE '):
            cur = [ln]
        elif ln == 'END':
            cur.append(ln); cases.append(cur); cur = []
        elif cur:
            cur.append(ln)
    start, path, hangs = 0, casefile, 0
    t0 = time.time()
    while True:
        r = subprocess.run([binary, path], capture_output=True, text=True, timeout=max(30, timeout - (time.time() - t0)),
                           env=dict(os.environ, PDS_CASE_TIMEOUT_MS=str(case_ms)))
        out.append(r.stdout)
        if r.returncode == 0:
            break
        if r.returncode == 3:
            done = r.stdout.count('\nEND') + (1 if r.stdout.startswith('END') else 0)
            hangs += 1
            start += done
            if start >= len(cases) or hangs >= 6:
                break   # enough non-terminating cases seen: the rest of the file is not run
            path = casefile + '.rest'
            with open(path, 'w') as f:
                for c in cases[start:]:
                    f.write('\n'.join(c) + '\n')
            continue
        if r.returncode < 0 or r.returncode in (101, 134, 137, 139):
            # the process died (abort on allocation failure, stack overflow, signal) while running the next case
            done = r.stdout.count('\nEND') + (1 if r.stdout.startswith('END') else 0)
            hangs += 1
            head = cases[start + done][0] if start + done < len(cases) else 'CASE ? ?'
            out.append('%s\nCRASH %d\nEND\n' % (' '.join(head.split()[:3]) + ' ', r.returncode))
            start += done + 1
            if start >= len(cases) or hangs >= 6:
                break
            path = casefile + '.rest'
            with open(path, 'w') as f:
                for c in cases[start:]:
                    f.write('\n'.join(c) + '\n')
            continue
        raise RuntimeError('harness failed (rc=%d): %s' % (r.returncode, r.stderr[-2000:]))
    return ''.join(out)

# ---------------------------------------------------------------- model input (numeric form for ocaml/driver.ml)

CMAX = {'u8': 2**8 - 1, 'u16': 2**16 - 1, 'u32': 2**32 - 1, 'u64': 2**64 - 1, 'usize': 2**64 - 1}

OPC = {
    'bloom': {'new': 0, 'ins': 2, 'q': 3, 'union': 4, 'clear': 5, 'clone': 6, 'obs': 7, 'len': 8, 'empty': 9},
    'mem': {},
    'scale': {},
    'hset': {'new': 0, 'ins': 2, 'q': 3, 'union': 4, 'clear': 5, 'clone': 6, 'obs': 7},
    'sizing': {'bloom': 1, 'cms': 2, 'cuckoo4': 3, 'cuckoo8': 4},
    'cms': {'new': 0, 'add': 2, 'q': 3, 'merge': 4, 'clear': 5, 'clone': 6, 'obs': 7, 'empty': 9},
    'hll': {'new': 0, 'fromregs': 1, 'addh': 2, 'add': 3, 'merge': 4, 'clear': 5, 'clone': 6, 'regs': 7, 'empty': 9},
    'cuckoo': {'new': 0, 'ins': 2, 'q': 3, 'union': 4, 'clear': 5, 'clone': 6, 'obs': 7, 'del': 8, 'dobs': 10},
    'qf': {'new': 0, 'ins': 2, 'q': 3, 'union': 4, 'clear': 5, 'clone': 6, 'obs': 7},
    'res': {'new': 0, 'add': 2, 'clear': 5, 'clone': 6, 'obs': 7},
    'lossy': {'add': 2, 'clear': 5, 'clone': 6, 'obs': 7},
    'heap': {'new': 0, 'add': 2, 'clear': 5, 'clone': 6, 'iter': 7},
    'hllc': {'fromregs': 1, 'count': 8},
    'hser': {'new': 0, 'addh': 2, 'ser': 3, 'regs': 7, 'merge': 9, 'eq': 10},
    'td': {'ins': 2, 'quant': 3, 'cdf': 4, 'clear': 5, 'clone': 6, 'count': 8, 'sum': 9, 'mean': 10, 'min': 11, 'max': 12, 'ncent': 13, 'empty': 14},
}

def f64_dyadic(bits):
    """bits of a non-negative finite f64 -> (m, e) with value = m * 2^-e exactly"""
    bits = int(bits)
    exp, frac = (bits >> 52) & 0x7ff, bits & ((1 << 52) - 1)
    assert bits >> 63 == 0 and exp != 0x7ff
    if exp == 0:
        m, e = frac, 1074
    else:
        m, e = frac | (1 << 52), 1075 - exp
    if e < 0:
        m, e = m << (-e), 0
    while e > 0 and m % 2 == 0 and m:
        m, e = m // 2, e - 1
    return m, e

def res_tokens(res):
    """result tokens -> expectation text; None for 'skipped' lines"""
    if res == ['skipped']:
        return None
    if res == ['panic']:
        return 'P'
    if res == ['unit']:
        return 'S 0'
    return 'S %d %s' % (len(res), ' '.join(str(int(x)) for x in res))

def ol(oc, args, rnd, res):
    a = ' '.join(str(int(x)) for x in args)
    w = ' '.join(str(int(x)) for x in rnd)
    return ('O %d %d %s %d %s %s' % (oc, len(args), a, len(rnd), w, res)).replace('  ', ' ').replace('  ', ' ')

def translate_ops(case, aux):
    """-> list of (model op line, index of the op in case.ops); ops the discrete model does not cover are
    rewritten (sizing constructors: the model continues from the parameters the constructor chose) or
    routed to `aux` (float results: count, relerr, len, sizing), which other models check."""
    out = []
    table = OPC[case.st]
    for k, (op, res, words) in enumerate(case.ops):
        r = res_tokens(res)
        if r is None:
            continue
        name, args = op[0], op[1:]
        if name == 'props' and case.st == 'cuckoo' and res != ['panic']:
            aux.append((case, k, op, res))
            out.append((ol(0, [args[0], res[0], res[1], res[2]], [], 'S 0'), k))
            continue
        if name == 'props' and case.st in ('bloom', 'cms') and res != ['panic']:
            aux.append((case, k, op, res))
            out.append((ol(0, [args[0], res[0], res[1]], [], 'S 0'), k))
            continue
        if case.st == 'lossy' and res != ['panic']:
            if name == 'new':
                m, e = f64_dyadic(res[0])
                out.append((ol(0, [args[0], args[1], m, e], [], 'S 0'), k)); continue
            if name == 'neweps':
                m, e = f64_dyadic(args[1])
                out.append((ol(1, [args[0], m, e, res[0]], [], r), k)); continue
            if name == 'query':
                m, e = f64_dyadic(args[1])
                out.append((ol(3, [args[0], m, e], [], r), k)); continue
        if case.st == 'hser' and name == 'de':
            toks, j = [args[0]], 1
            while j < len(args):
                if args[j] == 'R':
                    cnt = int(args[j + 1]); toks += [1, cnt] + args[j + 2:j + 2 + cnt]; j += 2 + cnt
                elif args[j] == 'B':
                    toks += [2, args[j + 1]]; j += 2
                elif args[j] == 'H':
                    toks += [3, args[j + 1]]; j += 2
                else:
                    toks += [4]; j += 1
            out.append((ol(4, toks, [], r), k)); continue
        if case.st == 'scale':
            out.append((ol(int(args[0]), args[1:], [], r), k)); continue
        if case.st == 'mem':
            kind = args[0]
            if res != ['panic'] and kind in ('bloom', 'cms', 'hll', 'cuckoo', 'qf'):
                oc_, a_ = {'bloom': (1, args[1:3]), 'cms': (2, args[1:3] + [4]), 'hll': (3, args[1:2]), 'cuckoo': (4, args[1:4]), 'qf': (5, args[1:3])}[kind]
                out.append((ol(oc_, a_, [], 'S 1 %d' % int(res[0])), k))
            continue
        if case.st == 'td' and name == 'new' and res != ['panic']:
            out.append((ol(0, [args[0], args[3]], [], 'S 0'), k)); continue
        if case.st == 'td' and name == 'audit':
            continue
        if name not in table:
            aux.append((case, k, op, res))
            continue
        out.append((ol(table[name], args, words, r), k))
    return out

def write_model_input(path, cases, aux):
    """returns, per case, the list mapping model op index -> transcript op index"""
    maps = []
    with open(path, 'w') as f:
        for c in cases:
            u = int(c.cfg.get('u', 8))
            mx = CMAX[c.cfg.get('ctype', 'usize')]
            if c.st == 'td':
                # scale function kind and delta of the case (all instances of a case share them)
                for op, res, w in c.ops:
                    if op[0] == 'new':
                        u = {'K0': 0, 'K1': 1, 'K2': 2, 'K3': 3}[op[2]]; mx = int(op[3])
                        break
            f.write('C %s %d %d\n' % (c.st, u, mx))
            for iv, v, fin in c.h:
                f.write('H %d %d %d\n' % (0 if iv is None else iv + 1, 0 if v is None else v + 1, fin))
            # (the L lines are no longer needed by the t-digest replay: the model computes its own limits; they are
            #  replayed separately on the scale-function model)
            ops = translate_ops(c, aux)
            for line, _ in ops:
                f.write(line + '\n')
            f.write('E\n')
            maps.append([k for _, k in ops])
    return maps

MODELDRV = os.path.join(BUILD, 'ocaml', 'modeldrv')

def model_check(st, cases, tag, shards=16):
    """replay the transcript cases on the extracted model; returns (disagreements, aux items, errors)
       disagreement: (case, transcript op index, model result text)"""
    os.makedirs(BUILD, exist_ok=True)
    cases = [c for c in cases if c.cfg.get('nomodel') != '1']   # known-finding corpus cases where the crate panics: oracle only
    n = max(1, (len(cases) + shards - 1) // shards)
    chunks = [cases[i:i + n] for i in range(0, len(cases), n)]
    aux, jobs = [], []
    for k, ch in enumerate(chunks):
        path = os.path.join(BUILD, 'min_%s_%s_%d.txt' % (tag, st, k))
        maps = write_model_input(path, ch, aux)
        jobs.append((path, ch, maps))
    disagreements, errors = [], []
    def work(job):
        path, ch, maps = job
        r = subprocess.run(['bash', '-c', 'ulimit -s unlimited 2>/dev/null || ulimit -s 1000000; exec "$0" "$1"', MODELDRV, path], capture_output=True, text=True, timeout=1800)
        return job, r.returncode, r.stdout, r.stderr
    with ThreadPoolExecutor(max_workers=shards) as ex:
        for (path, ch, maps), rc, out, err in ex.map(work, jobs):
            lines = out.split('\n')
            if lines and lines[-1] == '':
                lines.pop()
            if rc != 0 or len(lines) != len(ch):
                errors.append('model driver failed on %s (rc=%d, %d/%d results): %s' % (path, rc, len(lines), len(ch), err[-800:]))
                continue
            for c, mp, ln in zip(ch, maps, lines):
                if ln == 'K':
                    continue
                t = ln.split()
                i = int(t[1])
                disagreements.append((c, mp[i] if i < len(mp) else -1, ' '.join(t[2:])))
            try:
                os.remove(path)
            except OSError:
                pass
    return disagreements, aux, errors


def scale_cases(tcs):
    """from t-digest transcripts: one pseudo-case per digest case replaying every logged scale-function call (S lines)
    and every merge limit (L lines) on the scale-function model"""
    out = []
    for tc in tcs:
        kind = delta = None
        for op, res, w in tc.ops:
            if op[0] == 'new' and res != ['panic']:
                kind = {'K0': 0, 'K1': 1, 'K2': 2, 'K3': 3}[op[2]]; delta = int(op[3])
                break
        if kind is None or not (tc.s or tc.l):
            continue
        c = TCase(tc.id, 'scale', dict(tc.cfg))
        for which, inb, n, outb in tc.s[:400]:
            c.ops.append((['scale', '1', str(kind), str(delta), str(inb), str(n), '1' if which == 'i' else '0'], [str(outb)], []))
        for n, q0, lim in tc.l[:400]:
            c.ops.append((['scale', '2', str(kind), str(delta), str(q0), str(n)], [str(lim)], []))
        out.append(c)
    return out
