"""Case generators. Every random choice comes from one random.Random seeded by the caller.
A case is a list of text lines: 'CASE id struct k=v..', op lines, 'END'."""
import random

def case(cid, st, cfg, lines):
    return ['CASE %s %s %s' % (cid, st, ' '.join('%s=%s' % kv for kv in sorted(cfg.items())))] + lines + ['END']

def hasher(rng, adversarial=0.6):
    r = rng.random()
    if r < adversarial:
        return 'script:%d' % rng.randrange(1 << 32)
    if r < adversarial + 0.2:
        return 'seeded:%d' % rng.randrange(1 << 16)
    return 'sip'

# ------------------------------------------------------------------ bloom
def gen_bloom(rng, n, tag='b'):
    out = []
    for c in range(n):
        u = rng.choice([4, 6, 8, 12])
        m = rng.choice([1, 2, 3, 5, 8, 16, 31, 64])
        if rng.random() < 0.06:
            m = rng.choice([300, 70000, 65537])      # bit positions beyond u8/u16
        k = rng.choice([0, 1, 1, 2, 3, 5, 9])
        cfg = {'hasher': hasher(rng), 'u': u}
        L = ['new 0 %d %d' % (m, k), 'new 1 %d %d' % (m, k)]
        live = {0: True, 1: True}
        for _ in range(rng.randrange(3, 25)):
            i = rng.choice([0, 0, 0, 1, 2])
            if i not in live:
                L.append('clone %d %d' % (rng.choice([0, 1]), i)); live[i] = True; L.append('obs %d' % i); continue
            r = rng.random()
            if r < 0.5:
                x = rng.randrange(u) if rng.random() < 0.9 else rng.randrange(1 << 64)
                L.append('ins %d %d' % (i, x)); L.append('obs %d' % i)
            elif r < 0.65:
                j = rng.choice([a for a in live if a != i] or [i])
                L.append('union %d %d' % (i, j)); L.append('obs %d' % i)
            elif r < 0.75:
                L.append('clear %d' % i); L.append('obs %d' % i)
            elif r < 0.82:
                L.append('q %d %d' % (i, rng.randrange(1 << 64)))
            elif r < 0.9:
                L.append('len %d' % i)
            else:
                L.append('empty %d' % i)
        for i in live:
            L.append('obs %d' % i); L.append('len %d' % i)
        out.append(case('%s%d' % (tag, c), 'bloom', cfg, L))
    return out

# ------------------------------------------------------------------ cms
CT = {'u8': 255, 'u16': 65535, 'u32': 2**32 - 1, 'u64': 2**64 - 1, 'usize': 2**64 - 1}
def gen_cms(rng, n, tag='c'):
    out = []
    for c in range(n):
        u = rng.choice([3, 5, 8])
        w = rng.choice([1, 1, 2, 3, 4, 7, 16])
        d = rng.choice([1, 1, 2, 3, 5])
        if rng.random() < 0.06:
            w, d = rng.choice([300, 70000]), rng.choice([1, 2])    # positions beyond u8/u16 (narrowing casts in the address)
        ct = rng.choice(list(CT))
        cfg = {'hasher': hasher(rng), 'u': u, 'ctype': ct}
        L = ['new 0 %d %d' % (w, d), 'new 1 %d %d' % (w, d)]
        live = {0, 1}
        big = rng.random() < 0.3   # walk towards the overflow edge
        for _ in range(rng.randrange(3, 25)):
            i = rng.choice([0, 0, 0, 1, 2])
            if i not in live:
                L.append('clone %d %d' % (rng.choice([0, 1]), i)); live.add(i); L.append('obs %d' % i); continue
            r = rng.random()
            if r < 0.55:
                x = rng.randrange(u) if rng.random() < 0.9 else rng.randrange(1 << 64)
                nn = rng.choice([1, 1, 2, 7, 0, CT[ct] // 3 if big else 3, CT[ct] // 2 if big else 1])
                L.append('add %d %d %d' % (i, x, nn)); L.append('obs %d' % i)
            elif r < 0.7:
                j = rng.choice([a for a in live if a != i] or [i])
                L.append('merge %d %d' % (i, j)); L.append('obs %d' % i)
            elif r < 0.8:
                L.append('clear %d' % i); L.append('obs %d' % i)
            elif r < 0.9:
                L.append('q %d %d' % (i, rng.randrange(1 << 64)))
            else:
                L.append('empty %d' % i)
        out.append(case('%s%d' % (tag, c), 'cms', cfg, L))
    return out

# ------------------------------------------------------------------ hll
def edge_hash(rng, b):
    r = rng.random()
    if r < 0.15: return 0
    if r < 0.3: return (1 << 64) - 1
    if r < 0.5: return 1 << rng.randrange(64)
    if r < 0.6: return (1 << b) - 1
    if r < 0.7: return (1 << b) + rng.choice([-1, 0, 1])
    if r < 0.8: return rng.randrange(1 << b) | (1 << rng.randrange(b, 64))
    return rng.randrange(1 << 64)

def gen_hll(rng, n, tag='h', bmax=18):
    out = []
    for c in range(n):
        b = rng.choice([4, 4, 5, 6, 7, 8, 9, 10, 11, 12, 13, 14, 15, 16, 17, 18])
        b = min(b, bmax)
        cfg = {'hasher': hasher(rng, 0.3), 'u': 4}
        L = ['new 0 %d' % b, 'new 1 %d' % b]
        live = {0, 1}
        nops = rng.randrange(3, 30 if b <= 12 else 12)
        pool = [edge_hash(rng, b) for _ in range(6)]
        for _ in range(nops):
            i = rng.choice([0, 0, 0, 1, 2])
            if i not in live:
                L.append('clone %d %d' % (rng.choice([0, 1]), i)); live.add(i); continue
            r = rng.random()
            if r < 0.45:
                h = rng.choice(pool) if rng.random() < 0.4 else edge_hash(rng, b)
                L.append('addh %d %d' % (i, h))
            elif r < 0.6:
                L.append('add %d %d' % (i, rng.randrange(1 << 20)))
            elif r < 0.72:
                j = rng.choice([a for a in live if a != i] or [i])
                L.append('merge %d %d' % (i, j))
            elif r < 0.8:
                L.append('clear %d' % i)
            elif r < 0.9:
                L.append('regs %d' % i)
            else:
                L.append('empty %d' % i)
        for i in sorted(live):
            L.append('regs %d' % i); L.append('count %d' % i)
        out.append(case('%s%d' % (tag, c), 'hll', cfg, L))
    return out

# ------------------------------------------------------------------ cuckoo
def gen_cuckoo(rng, n, tag='k'):
    out = []
    for c in range(n):
        u = rng.choice([4, 6, 8, 10])
        bs = rng.choice([2, 2, 2, 3, 4])
        nb = rng.choice([2, 2, 4, 4, 8])
        if rng.random() < 0.05:
            nb = 512                                 # bucket indices beyond u8
        l = rng.choice([2, 2, 3, 5, 8, 16, 33, 64])
        cfg = {'hasher': hasher(rng, 0.8), 'u': u, 'rngseed': rng.randrange(1 << 32)}
        L = ['new 0 %d %d %d' % (bs, nb, l), 'new 1 %d %d %d' % (bs, nb, l)]
        if l == 64 and rng.random() < 0.6:
            # fingerprint hashes at the top of the u64 range (the modulus 2^64 - 1 matters only there)
            for x in rng.sample(range(u), 2):
                L.insert(0, 'HSET 0 %d %d' % (x, rng.choice([(1 << 64) - 1, (1 << 64) - 2])))
        live = {0, 1}
        for _ in range(rng.randrange(4, 30)):
            i = rng.choice([0, 0, 0, 1, 2])
            if i not in live:
                L.append('clone %d %d' % (rng.choice([0, 1]), i)); live.add(i); L.append('dobs %d' % i); continue
            r = rng.random()
            if r < 0.55:
                if rng.random() < 0.3:
                    # scripted eviction choices: a bool word and a few slot words
                    L.append('RW ' + ' '.join(str(rng.choice([0, 1 << 31, (1 << 64) - 1, rng.randrange(1 << 64)])) for _ in range(rng.randrange(1, 6))))
                L.append('ins %d %d' % (i, rng.randrange(u))); L.append('dobs %d' % i)
            elif r < 0.75:
                L.append('del %d %d' % (i, rng.randrange(u))); L.append('dobs %d' % i)
            elif r < 0.87:
                j = rng.choice([a for a in live if a != i] or [i])
                L.append('union %d %d' % (i, j)); L.append('dobs %d' % i)
            elif r < 0.93:
                L.append('clear %d' % i); L.append('obs %d' % i)
            else:
                L.append('q %d %d' % (i, rng.randrange(1 << 64)))
        out.append(case('%s%d' % (tag, c), 'cuckoo', cfg, L))
    return out

# ------------------------------------------------------------------ quotient filter
def gen_qf(rng, n, tag='q'):
    out = []
    for c in range(n):
        bq, br = rng.choice([(1, 1), (1, 2), (2, 1), (2, 2), (2, 3), (3, 1), (3, 2), (3, 3), (4, 2), (4, 60), (12, 52), (5, 1), (9, 3)])
        u = rng.choice([6, 10, 16, 24])
        cfg = {'hasher': hasher(rng, 0.7), 'u': u}
        L = ['new 0 %d %d' % (bq, br), 'new 1 %d %d' % (bq, br)]
        live = {0, 1}
        for _ in range(rng.randrange(4, 40)):
            i = rng.choice([0, 0, 0, 1, 2])
            if i not in live:
                L.append('clone %d %d' % (rng.choice([0, 1]), i)); live.add(i); L.append('obs %d' % i); continue
            r = rng.random()
            if r < 0.7:
                L.append('ins %d %d' % (i, rng.randrange(u))); L.append('obs %d' % i)
            elif r < 0.85:
                j = rng.choice([a for a in live if a != i] or [i])
                L.append('union %d %d' % (i, j)); L.append('obs %d' % i)
            elif r < 0.9:
                L.append('clear %d' % i); L.append('obs %d' % i)
            else:
                L.append('q %d %d' % (i, rng.randrange(1 << 64)))
        out.append(case('%s%d' % (tag, c), 'qf', cfg, L))
    return out

GEN = {'bloom': gen_bloom, 'cms': gen_cms, 'hll': gen_hll, 'cuckoo': gen_cuckoo, 'qf': gen_qf}

QUICK = {'bloom': 400, 'cms': 400, 'hll': 300, 'cuckoo': 500, 'qf': 500}
THOROUGH = {'bloom': 20000, 'cms': 20000, 'hll': 4000, 'cuckoo': 20000, 'qf': 20000}
class _Search(dict):
    def __missing__(self, k): return 3000
SEARCH = _Search()

def read_cases(path):
    out, cur = [], None
    for line in open(path):
        line = line.rstrip('\n')
        if not line or line.startswith('#'):
            continue
        if line.startswith('CASE '):
            cur = [line]
        elif line == 'END':
            cur.append(line); out.append(cur); cur = None
        elif cur is not None:
            cur.append(line)
    return out

def write_cases(path, cases):
    with open(path, 'w') as f:
        for c in cases:
            f.write('\n'.join(c) + '\n')

# ------------------------------------------------------------------ reservoir
EXTREME_WORDS = [0, (1 << 64) - 1, 1 << 63, (1 << 63) - 1, 1, 1 << 12, (1 << 12) - 1, 0xFFF, (1 << 64) - (1 << 12)]
def gen_res(rng, n, tag='r'):
    out = []
    for c in range(n):
        k = rng.choice([1, 1, 2, 3, 4, 5, 8, 16, 16, 1 << 60, (1 << 61) + 12345, 1 << 40])
        nmax = rng.choice([k, k + 1, 4 * k, 4 * k + 1, 4 * k + 2, 6 * k, 12 * k, 40 * k]) if k <= 16 else rng.randrange(1, 40)
        cfg = {'rngseed': rng.randrange(1 << 32)}
        L = ['new 0 %d' % k]
        pos = 0
        style = rng.random()
        live = {0}
        for _ in range(nmax + rng.randrange(0, 3)):
            i = 0
            r = rng.random()
            if r < 0.03 and pos > 0:
                L.append('clear 0'); pos = 0; L.append('obs 0'); continue
            if r < 0.05 and 1 not in live:
                L.append('clone 0 1'); live.add(1); L.append('obs 1'); continue
            if style < 0.35:
                # scripted words: extreme values (all zeros / all ones / boundaries of the Lemire zone and of u)
                L.append('RW ' + ' '.join(str(rng.choice(EXTREME_WORDS + [rng.randrange(1 << 64)])) for _ in range(rng.randrange(1, 4))))
            L.append('add 0 %d' % (1000 + pos)); pos += 1
            if k <= 8 or rng.random() < 0.2:
                L.append('obs 0')
        L.append('obs 0')
        if 1 in live:
            L.append('add 1 7'); L.append('obs 1'); L.append('obs 0')
        out.append(case('%s%d' % (tag, c), 'res', cfg, L))
    return out

# ------------------------------------------------------------------ lossy counter
import struct
from fractions import Fraction
def f64bits(x):
    return struct.unpack('<Q', struct.pack('<d', x))[0]
def safe_threshold(rng, eps, n):
    """a threshold whose bound (th - eps) * n is not within 1e-6 of an integer (float ceil = exact ceil)"""
    for _ in range(50):
        th = rng.choice([0.0, 1.0, rng.random(), rng.random() * 0.3, rng.randrange(65) / 64.0])
        v = (Fraction(th) - Fraction(eps)) * n
        if abs(v - round(v)) > Fraction(1, 10 ** 6):
            return th
    return 0.7310585786300049
def gen_lossy(rng, n, tag='l'):
    out = []
    for c in range(n):
        L = []
        if rng.random() < 0.6:
            w = rng.choice([1, 2, 3, 3, 4, 5, 7, 10, 16])
            L.append('new 0 %d' % w); eps = 1.0 / w
        else:
            eps = rng.choice([0.5, 0.25, 0.3, 0.1, 0.07, 0.9, 0.34, rng.uniform(0.02, 0.99), 3e-3, 1e-3, 1e-5, 2.3e-10])
            L.append('neweps 0 %d' % f64bits(eps))
            import math
            w = int(math.ceil(1.0 / eps))
        alpha = rng.choice([2, 3, 4, 6, 12, 40])
        style = rng.random()
        cnt = 0
        for t in range(rng.randrange(3, 60)):
            r = rng.random()
            if r < 0.03:
                L.append('clear 0'); cnt = 0; L.append('obs 0'); continue
            if r < 0.05:
                L.append('clone 0 1'); L.append('obs 1'); continue
            if style < 0.3:
                # adversarial: a key's occurrences placed just after each pruning boundary
                x = 0 if cnt % w == 0 else 1 + rng.randrange(alpha)
            elif style < 0.6:
                x = min(int(rng.paretovariate(1.2)) - 1, alpha)   # skewed
            else:
                x = rng.randrange(alpha)
            L.append('add 0 %d' % x); cnt += 1
            L.append('obs 0')
            if rng.random() < 0.4:
                L.append('query 0 %d' % f64bits(safe_threshold(rng, eps, cnt)))
        out.append(case('%s%d' % (tag, c), 'lossy', {}, L))
    return out

# ------------------------------------------------------------------ CMSHeap
def gen_heap(rng, n, tag='t'):
    out = []
    for c in range(n):
        k = rng.choice([1, 1, 2, 2, 3, 4])
        w = rng.choice([1, 1, 2, 3, 5, 8, 64, 1024])
        d = rng.choice([1, 1, 2, 3, 4])
        alpha = rng.choice([2, 3, 5, 8, 20])
        L = ['new 0 %d %d %d' % (k, w, d)]
        for t in range(rng.randrange(2, 50)):
            r = rng.random()
            if r < 0.03:
                L.append('clear 0'); L.append('iter 0'); continue
            if r < 0.06:
                L.append('clone 0 1'); L.append('iter 1'); continue
            x = min(int(rng.paretovariate(1.1)) - 1, alpha) if rng.random() < 0.5 else rng.randrange(alpha)
            L.append('add 0 %d' % x); L.append('iter 0')
        out.append(case('%s%d' % (tag, c), 'heap', {'hasher': 'sip'}, L))
    return out

GEN.update({'res': gen_res, 'lossy': gen_lossy, 'heap': gen_heap})
QUICK.update({'res': 400, 'lossy': 500, 'heap': 500})
THOROUGH.update({'res': 8000, 'lossy': 20000, 'heap': 20000})

# ------------------------------------------------------------------ t-digest
def td_values(rng, n, shape):
    if shape == 'sorted': return [float(i) for i in range(n)]
    if shape == 'reverse': return [float(n - i) for i in range(n)]
    if shape == 'normal': return [rng.gauss(0.0, 1.0) for _ in range(n)]
    if shape == 'heavy': return [rng.paretovariate(1.1) for _ in range(n)]
    if shape == 'discrete': return [float(rng.randrange(7)) for _ in range(n)]
    if shape == 'dyadic': return [rng.randrange(-64, 64) / 8.0 for _ in range(n)]
    if shape == 'extreme':
        # one value near +f64::MAX and one near -f64::MAX among small ones: max - min overflows, no sum does
        v = [rng.choice([3.0, -2.0, 0.5, 7.25, -0.125, 1.0]) for _ in range(max(n, 3))]
        i, j = rng.sample(range(len(v)), 2)
        v[i] = rng.choice([1e308, 1.6e308, 9.5e307, 1.7976931348623157e308])
        v[j] = -rng.choice([1e308, 1.6e308, 9.5e307, 1.7976931348623157e308])
        return v
    if shape == 'huge': return [rng.uniform(-1, 1) * 10.0 ** rng.randrange(-30, 30) for _ in range(n)]
    return [rng.uniform(-5, 5) for _ in range(n)]
def gen_td(rng, n, tag='d', nmax=300):
    out = []
    for c in range(n):
        K = rng.choice(['K0', 'K1', 'K2', 'K3'])
        delta = rng.choice([1.1, 1.5, 2.0, 3.0, 5.0, 10.0, 20.0, 100.0, 1000.0])
        maxb = rng.choice([0, 0, 1, 2, 7, 20, 100, 5000])
        L = ['new 0 %s %d %d' % (K, f64bits(delta), maxb)]
        shape = rng.choice(['sorted', 'reverse', 'normal', 'heavy', 'discrete', 'dyadic', 'huge', 'uniform', 'extreme'])
        weighted = rng.random() < 0.35 and shape != 'extreme'
        vals = td_values(rng, rng.randrange(1, nmax), shape)
        live = {0}
        for x in vals:
            w = 1.0
            if weighted:
                w = rng.choice([1.0, 2.0, 0.5, 0.0, 3.25, 10.0 ** rng.randrange(-8, 9), rng.uniform(0.1, 5), 2.0 ** -60, 1e-17, 1e-300, 2.0 ** rng.randrange(-80, 21)])
            L.append('ins 0 %d %d' % (f64bits(x), f64bits(w)))
            r = rng.random()
            if r < 0.04:
                L.append(rng.choice(['count 0', 'sum 0', 'mean 0', 'min 0', 'max 0', 'ncent 0', 'empty 0']))
            elif r < 0.07:
                L.append('quant 0 %d' % f64bits(rng.choice([0.0, 1.0, 0.5, rng.random()])))
            elif r < 0.10:
                L.append('cdf 0 %d' % f64bits(rng.choice(vals) + rng.choice([0.0, 0.25, -0.25])))
            elif r < 0.11:
                L.append('clear 0')
            elif r < 0.12 and 1 not in live:
                L.append('clone 0 1'); live.add(1)
            elif r < 0.14:
                L.append('audit 0')
        for i in sorted(live):
            L += ['audit %d' % i, 'ncent %d' % i, 'count %d' % i, 'sum %d' % i, 'mean %d' % i, 'min %d' % i, 'max %d' % i, 'empty %d' % i]
            for q in [0.0, 0.01, 0.25, 0.5, 0.9, 0.999, 1.0, rng.random()]:
                L.append('quant %d %d' % (i, f64bits(q)))
            for x in [min(vals) - 1.0, min(vals), max(vals), max(vals) + 1.0, rng.choice(vals), rng.uniform(min(vals), max(vals) + 1e-9)]:
                L.append('cdf %d %d' % (i, f64bits(x)))
        out.append(case('%s%d' % (tag, c), 'td', {'rank': 0} if shape in ('huge', 'extreme') else {}, L))
    return out
def ulps(x, k):
    """x moved by k units in the last place"""
    b = f64bits(abs(x)) + k
    v = struct.unpack('<d', struct.pack('<Q', max(b, 0)))[0]
    return -v if x < 0 else v
def gen_td_boundary(rng, n, tag='e'):
    """small unfused digests (delta = 1000: every value its own centroid) queried exactly at, and a few ulps around,
    every branch boundary of quantile (q = (j + 1/2)/n, 0, 1) and of cdf (x = each stored value, min, max)"""
    out = []
    for c in range(n):
        K = rng.choice(['K0', 'K1', 'K2', 'K3'])
        nv = rng.randrange(1, 14)
        wts = [1.0] * nv if rng.random() < 0.6 else [rng.choice([1.0, 2.0, 3.0, 0.5, 7.0]) for _ in range(nv)]
        vals = sorted(rng.choice([rng.randrange(-8, 9) * 1.0, rng.uniform(-3, 3), rng.randrange(1, 10) / 10.0]) for _ in range(nv))
        if rng.random() < 0.3:
            vals = [vals[0]] * nv          # all equal: fused means an ulp away from min/max
        maxb = rng.choice([0, 3, 100])
        delta = rng.choice([1000.0, 1000.0, 2.0, 1.5])
        L = ['new 0 %s %d %d' % (K, f64bits(delta), maxb)]
        order = list(range(nv)); rng.shuffle(order)
        for i in order:
            L.append('ins 0 %d %d' % (f64bits(vals[i]), f64bits(wts[i])))
        W = sum(wts)
        cum = 0.0
        qs = [0.0, 1.0]
        for i in range(nv):
            for q in (cum / W, (cum + 0.5 * wts[i]) / W, (cum + wts[i]) / W):
                qs += [min(1.0, max(0.0, ulps(q, k))) for k in (-2, -1, 0, 1, 2)] if 0.0 < q < 1.0 else []
            cum += wts[i]
        for q in qs[:120]:
            L.append('quant 0 %d' % f64bits(q))
        xs = []
        for v in vals + [vals[0] - 1.0, vals[-1] + 1.0]:
            xs += [ulps(v, k) for k in (-1, 0, 1)] if v != 0.0 else [v]
        for x in xs[:80]:
            L.append('cdf 0 %d' % f64bits(x))
        L.append('audit 0')
        out.append(case('%s%d' % (tag, c), 'td', {}, L))
    return out
def gen_td_long(rng, n, tag='g', nmax=5000):
    """long unit-weight streams (many merge rounds over already compressed centroids) for the size and rank-accuracy
    sentences of C04: sorted, reverse, heavy-tailed, discrete, normal, and a density cliff"""
    out = []
    for c in range(n):
        K = rng.choice(['K0', 'K1', 'K2', 'K3'])
        delta = rng.choice([20.0, 50.0, 100.0, 100.0, 300.0])
        maxb = rng.choice([0, 10, 10, 100, 1000])
        nv = rng.choice([nmax // 5, nmax // 2, nmax])
        shape = rng.choice(['sorted', 'reverse', 'normal', 'heavy', 'discrete', 'cliff', 'uniform'])
        if shape == 'cliff':
            vals = [rng.random() if rng.random() < 0.5 else 1000.0 + rng.random() * 0.001 for _ in range(nv)]
        else:
            vals = td_values(rng, nv, shape)
        L = ['new 0 %s %d %d' % (K, f64bits(delta), maxb)]
        for j, x in enumerate(vals):
            L.append('ins 0 %d %d' % (f64bits(x), f64bits(1.0)))
            if j % (nv // 4 + 1) == nv // 8:
                L.append('ncent 0')
        L += ['audit 0', 'ncent 0', 'count 0']
        for q in [0.0, 0.001, 0.25, 0.5, 0.75, 0.999, 1.0]:
            L.append('quant 0 %d' % f64bits(q))
        out.append(case('%s%d' % (tag, c), 'td', {'freshpass': 0, 'iso': 0}, L))
    return out
def gen_td_all(rng, n, tag='d'):
    k = max(1, n // 3)
    nl = min(max(2, n // 15), 80)
    return gen_td(rng, n - k - nl, tag) + gen_td_boundary(rng, k, tag + 'b') + gen_td_long(rng, nl, tag + 'l', 5000 if n < 2000 else 30000)
GEN['td'] = gen_td_all
QUICK['td'] = 300
THOROUGH['td'] = 6000


# ------------------------------------------------------------------ reservoir: every draw sequence (C05)
def lemire_word(j, rng_range):
    """a 64-bit word that rand's gen_range decodes to j for the given range (v = ceil(j * 2^64 / range))"""
    return (j * (1 << 64) + rng_range - 1) // rng_range

def gen_res_exhaustive(configs=((1, 2), (1, 3), (1, 4), (1, 5), (2, 3), (2, 4), (2, 5), (2, 6), (3, 4), (3, 5))):
    """for each (k, n) with k < n <= 4k+1: one case per draw sequence j_i in [0, i], i = k..n-1"""
    import itertools
    out, index = [], {}
    for k, n in configs:
        assert k < n <= 4 * k + 1
        ranges = [range(i + 1) for i in range(k, n)]
        for seq in itertools.product(*ranges):
            cid = 'e%d_%d_%s' % (k, n, '_'.join(map(str, seq)))
            L = ['new 0 %d' % k]
            for pos in range(n):
                if pos >= k:
                    j = seq[pos - k]
                    words = [lemire_word(j, pos + 1)]
                    if pos == 4 * k:
                        words.append(1 << 63)      # the unit draw for the first gap (u = 1/2)
                    L.append('RW ' + ' '.join(map(str, words)))
                L.append('add 0 %d' % pos)
            L.append('obs 0')
            out.append(case(cid, 'res', {'rngseed': 1}, L))
            index[cid] = (k, n, seq)
    return out, index

# ------------------------------------------------------------------ HLL count (C03): register vectors
def hll_regs_from_hashes(b, hashes):
    m = 1 << b
    regs = [0] * m
    for h in hashes:
        j = h & (m - 1)
        w = h >> b
        rank = (64 - b + 1) if w == 0 else (64 - b) - (w.bit_length() - 1)   # 1-based position of the first set bit among 64-b bits
        rank = (64 - w.bit_length()) + 1 - b
        if rank > regs[j]:
            regs[j] = rank
    return regs

def gen_hllc(rng, n, tag='n', bmax=12):
    out = []
    for c in range(n):
        b = rng.choice([4, 4, 5, 6, 7, 8, 9, 9, 10, 11, 12, 13, 14][:max(1, bmax - 1)])
        b = min(b, bmax)
        m = 1 << b
        cfg = {'hasher': 'sip'}
        style = rng.random()
        if style < 0.25:
            # the hand-over from the bias-corrected to the raw estimate: raw estimates around the last table entries and 5m
            b = rng.choice([4, 4, 5, 5, 6, 6, 7, 8, 9, 10, 11])
            m = 1 << b
            nd = int(m * rng.uniform(3.6, 5.6))
            regs = hll_regs_from_hashes(b, [rng.randrange(1 << 64) for _ in range(nd)])
            cfg['distinct'] = nd
        elif style < 0.62:
            # realistic: n distinct random hashes, n on a log grid across all three estimator regimes
            nd = rng.choice([0, 1, 2, 3, 5, 8, int(m * rng.choice([0.05, 0.2, 0.5, 1, 2, 2.5, 3, 5, 8, 20, 50]))])
            nd = min(nd, 40000)
            regs = hll_regs_from_hashes(b, [rng.randrange(1 << 64) for _ in range(nd)])
            cfg['distinct'] = nd
        elif style < 0.7:
            regs = [rng.randrange(256) for _ in range(m)]                      # arbitrary bytes
        elif style < 0.78:
            regs = [rng.choice([0, 255])] * m
        elif style < 0.86:
            regs = [0] * m
            for _ in range(rng.randrange(1, 9)):
                regs[rng.randrange(m)] = rng.randrange(1, 256)
        elif style < 0.93:
            v = rng.randrange(0, 70)
            regs = [v] * m
            for _ in range(rng.randrange(0, 4)):
                regs[rng.randrange(m)] = 0
        else:
            regs = [min(255, int(rng.expovariate(0.5))) for _ in range(m)]
        L = ['fromregs 0 %d %s' % (b, ' '.join(map(str, regs))), 'count 0', 'relerr 0']
        out.append(case('%s%d' % (tag, c), 'hllc', cfg, L))
    return out

# ------------------------------------------------------------------ HLL serde (C20)
def gen_hser(rng, n, tag='s'):
    out = []
    for c in range(n):
        b = rng.choice([4, 4, 4, 5, 6, 8, 4, 5, 7, 9, 10, 11, 12, 13, 14, 15, 16, 17, 18]) if rng.random() < 0.25 else rng.choice([4, 4, 4, 5, 6, 8])
        m = 1 << b
        seed = rng.randrange(1 << 32)
        L = ['new 0 %d %d' % (b, seed)]
        if b > 8:
            for _ in range(rng.randrange(0, 6)):
                L.append('addh 0 %d' % edge_hash(rng, b))
            L.append('ser 0')
            out.append(case('%s%d' % (tag, c), 'hser', {}, L))
            continue
        for _ in range(rng.randrange(0, 12)):
            L.append('addh 0 %d' % edge_hash(rng, b))
        L.append('ser 0')
        regs = hll_regs_from_hashes(b, [rng.randrange(1 << 64) for _ in range(rng.randrange(0, 40))])
        style = rng.random()
        fields = {'R': 'R %d %s' % (m, ' '.join(map(str, regs))), 'B': 'B %d' % b, 'H': 'H %d' % seed}
        order = ['R', 'B', 'H']
        if style < 0.3:
            rng.shuffle(order)                                   # valid, permuted
        elif style < 0.4:
            order.remove(rng.choice(order))                      # a field dropped
        elif style < 0.5:
            order.insert(rng.randrange(4), rng.choice(order))    # a field duplicated
        elif style < 0.58:
            order.insert(rng.randrange(4), 'U'); fields['U'] = 'U'
        elif style < 0.75:
            bb = rng.choice([0, 3, 4, 18, 19, 64, 1 << 63, b + 1, b - 1 if b > 4 else 5])
            fields['B'] = 'B %d' % bb                            # b varied independently of the length
        elif style < 0.9:
            ln = rng.choice([0, m - 1, m + 1, 2 * m, 1, m // 2, 3 * m, 5 * m, 6 * m, 7 * m])
            fields['R'] = 'R %d %s' % (ln, ' '.join(str(rng.randrange(60)) for _ in range(ln)))
        else:
            bad = list(regs); bad[rng.randrange(m)] = rng.choice([256, 1000, (1 << 64) - 1])
            fields['R'] = 'R %d %s' % (m, ' '.join(map(str, bad)))   # entry out of u8
        L.append('de 1 ' + ' '.join(fields[k] for k in order))
        L += ['regs 1', 'addh 1 %d' % edge_hash(rng, 4), 'regs 1', 'eq 1 1'] if rng.random() < 0.8 else []
        if rng.random() < 0.3:
            L += ['merge 0 1', 'regs 0']
        out.append(case('%s%d' % (tag, c), 'hser', {}, L))
    return out
GEN.update({'hllc': gen_hllc, 'hser': gen_hser})
QUICK.update({'hllc': 250, 'hser': 500})
THOROUGH.update({'hllc': 3000, 'hser': 20000})

# ------------------------------------------------------------------ sizing constructors (C07, C08)
def gen_sizing(rng, n, tag='z'):
    out = []
    PS = [0.5, 0.6, 0.9, 0.999, 0.1, 0.01, 0.001, 1e-6, 1e-9, 0.3, 0.25, 0.125, 0.03125, 1e-12, 1e-17, 1e-19, 1e-25, 5e-324, 0.7310585786300049]
    for c in range(n):
        L = []
        for _ in range(rng.randrange(2, 8)):
            r = rng.random()
            pr = rng.choice(PS) if rng.random() < 0.6 else rng.random() ** rng.choice([1, 3, 8])
            if rng.random() < 0.04:
                pr = rng.choice([0.0, 1.0, 1.5])          # rejected by the constructor
            if r < 0.35:
                nn = rng.choice([1, 1, 2, 10, 49, 50, 51, 1000, 5000, 100000, 0 if rng.random() < 0.1 else 7])
                if pr > 0 and nn * 50 * max(1.0, -__import__('math').log(max(pr, 1e-300))) > 2e8:
                    nn = 100
                L.append('bloom %d %d' % (nn, f64bits(pr)))
            elif r < 0.6:
                eps = rng.choice([0.1, 0.01, 0.001, 0.5, 0.9, 2.0, 0.3, 1e-4, rng.uniform(1e-4, 1.5), 2.718281828459045, 1.3591409142295225])
                delta = rng.choice([0.5, 0.1, 0.01, 1e-4, 1e-9, 0.999, 0.9999999999999999, 0.36787944117144233, 0.1353352832366127, rng.random()])
                if rng.random() < 0.05:
                    delta = rng.choice([0.0, 1.0]); 
                if rng.random() < 0.15:
                    # widths beyond u16/u32-ish ranges (a narrowing cast in the constructor saturates silently)
                    eps = rng.choice([4.2e-5, 4.1e-5, 1e-5, 3e-6, 1e-6]); delta = rng.choice([0.5, 0.4, 0.2])
                L.append('cms %d %d' % (f64bits(eps), f64bits(delta)))
            else:
                nn = rng.choice([1, 1, 2, 3, 4, 10, 100, 1000, 3000, 50000, 0 if rng.random() < 0.1 else 8])
                if rng.random() < 0.06:
                    nn = rng.choice([300000, 1000000])       # bucket counts beyond 2^16 (narrowing casts)
                L.append('%s %d %d' % (rng.choice(['cuckoo4', 'cuckoo8']), f64bits(pr), nn))
        out.append(case('%s%d' % (tag, c), 'sizing', {}, L))
    return out
GEN['sizing'] = gen_sizing
QUICK['sizing'] = 300
THOROUGH['sizing'] = 5000


# ------------------------------------------------------------------ memory (C11)
def gen_mem(rng, n, tag='y'):
    out = []
    for c in range(n):
        L = []
        for _ in range(rng.randrange(2, 6)):
            kind = rng.choice(['bloom', 'cms', 'hll', 'cuckoo', 'cuckoo', 'qf', 'qf', 'td', 'tdw', 'res', 'heap', 'heap', 'lossy'])
            nops = rng.choice([200, 1000, 3037])
            if kind == 'bloom':
                L.append('mem bloom %d %d %d' % (rng.choice([1, 31, 32, 33, 1000, 65536, 1000003]), rng.choice([1, 3, 7]), nops))
            elif kind == 'cms':
                L.append('mem cms %d %d %d' % (rng.choice([1, 7, 100, 272]), rng.choice([1, 3, 10]), nops))
            elif kind == 'hll':
                L.append('mem hll %d %d' % (rng.randrange(4, 17), nops))
            elif kind == 'cuckoo':
                l = rng.choice([2, 3, 5, 8, 13, 16, 31, 32, 33, 63, 64])
                L.append('mem cuckoo %d %d %d %d' % (rng.choice([2, 3, 4, 8]), rng.choice([2, 4, 64, 1024]), l, rng.choice([50, 300, 1037])))
            elif kind == 'qf':
                bq = rng.randrange(1, 13)
                L.append('mem qf %d %d %d' % (bq, rng.choice([1, 2, 3, 7, 8, 31, 32, 33, 64 - bq]), rng.choice([50, 300, 1037])))
            elif kind in ('td', 'tdw'):
                L.append('mem ' + kind + ' %d %d %d' % (rng.choice([2, 20, 100, 1000]), rng.choice([0, 10, 1000]), nops))
            elif kind == 'res':
                L.append('mem res %d %d' % (rng.choice([1, 10, 100, 5000]), nops))
            elif kind == 'heap':
                L.append('mem heap %d %d %d %d' % (rng.choice([1, 2, 8, 100]), rng.choice([2, 4, 16, 100]), rng.choice([1, 2, 4]), nops))
            else:
                L.append('mem lossy %d %d' % (rng.choice([1, 10, 100, 1000]), nops))
        out.append(case('%s%d' % (tag, c), 'mem', {}, L))
    return out
GEN['mem'] = gen_mem
QUICK['mem'] = 150
THOROUGH['mem'] = 1500


# ------------------------------------------------------------------ HashSet compat (C01)
def gen_hset(rng, n, tag='w'):
    out = []
    for c in range(n):
        u = rng.choice([4, 8, 16])
        L = ['new 0', 'new 1']
        live = {0, 1}
        for _ in range(rng.randrange(3, 30)):
            i = rng.choice([0, 0, 1, 2])
            if i not in live:
                L.append('clone %d %d' % (rng.choice([0, 1]), i)); live.add(i); L.append('obs %d' % i); continue
            r = rng.random()
            if r < 0.6:
                L.append('ins %d %d' % (i, rng.randrange(u))); L.append('obs %d' % i)
            elif r < 0.8:
                j = rng.choice([a for a in live if a != i] or [i])
                L.append('union %d %d' % (i, j)); L.append('obs %d' % i)
            elif r < 0.9:
                L.append('clear %d' % i); L.append('obs %d' % i)
            else:
                L.append('q %d %d' % (i, rng.randrange(1 << 64)))
        out.append(case('%s%d' % (tag, c), 'hset', {'u': u}, L))
    return out
GEN['hset'] = gen_hset
QUICK['hset'] = 200
THOROUGH['hset'] = 5000

# ------------------------------------------------------------------ exhaustive small histories (thorough tier)
def gen_qf_exhaustive():
    """every insertion sequence up to a length over the complete class universe of tiny widths, with a scripted
    hasher that sends key x to fingerprint x (so keys = classes): (1,1) up to length 6, (2,1) up to 5, (1,2) up to 5;
    the whole universe is observed after every insert"""
    import itertools
    out = []
    for (bq, br, maxlen) in [(1, 1, 6), (2, 1, 5), (1, 2, 5)]:
        u = 1 << (bq + br)
        hset = ['HSET - %d %d' % (x, x) for x in range(u)]
        for ln in range(1, maxlen + 1):
            for seq in itertools.product(range(u), repeat=ln):
                if ln < maxlen and ln > 2:
                    continue        # prefixes are observed inside the longer sequences anyway
                L = list(hset) + ['new 0 %d %d' % (bq, br)]
                for x in seq:
                    L += ['ins 0 %d' % x, 'obs 0']
                out.append(case('xq%d%d_%s' % (bq, br, ''.join(map(str, seq))), 'qf', {'hasher': 'script:1', 'u': u, 'freshpass': 0}, L))
    return out

def gen_cuckoo_exhaustive():
    """every insert/delete sequence of length 5 over 4 keys on a 2-bucket x 2-slot table with 2-bit fingerprints and a
    scripted hasher that forces collisions (two keys share a class, all keys share the bucket pair)"""
    import itertools
    out = []
    # H(0, x) -> fingerprint = 1 + h mod 3 ; H(1, y) -> bucket = h & 1
    fp = {0: 0, 1: 0, 2: 1, 3: 2}        # keys 0 and 1 are indistinguishable
    bucket = {0: 0, 1: 0, 2: 1, 3: 0}
    hset = ['HSET 0 %d %d' % (x, fp[x]) for x in range(4)] + ['HSET 1 %d %d' % (x, bucket[x]) for x in range(4)]
    ops = [('ins', x) for x in range(4)] + [('del', x) for x in range(4)]
    for seq in itertools.product(ops, repeat=5):
        L = list(hset) + ['new 0 2 2 2']
        for o, x in seq:
            L += ['%s 0 %d' % (o, x), 'dobs 0']
        out.append(case('xk' + ''.join('%s%d' % (o[0], x) for o, x in seq), 'cuckoo', {'hasher': 'script:1', 'u': 4, 'rngseed': 7, 'freshpass': 0}, L))
    return out
EXHAUSTIVE = {'qf': gen_qf_exhaustive, 'cuckoo': gen_cuckoo_exhaustive}
