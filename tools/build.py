"""Build steps shared by setup and every check: Coq (.vo through the Makefile, never -vos), the
OCaml model driver (extraction of Exec/*), the Rust harness (against /repo's working tree)."""
import os, subprocess, fcntl, re, time, glob, hashlib

VERIF = os.path.dirname(os.path.dirname(os.path.abspath(__file__)))
COQ = os.path.join(VERIF, 'coq')
BUILD = os.path.join(VERIF, 'build')
HARNESS = os.path.join(VERIF, 'harness')
OCAMLDIR = os.path.join(BUILD, 'ocaml')
MODELDRV = os.path.join(OCAMLDIR, 'modeldrv')

class Lock:
    def __init__(self, name):
        os.makedirs(BUILD, exist_ok=True)
        self.path = os.path.join(BUILD, '.' + name + '.lock')
    def __enter__(self):
        self.f = open(self.path, 'w')
        fcntl.flock(self.f, fcntl.LOCK_EX)
        return self
    def __exit__(self, *a):
        fcntl.flock(self.f, fcntl.LOCK_UN)
        self.f.close()

def run(cmd, cwd=None, timeout=3600, env=None):
    r = subprocess.run(cmd, cwd=cwd, capture_output=True, text=True, timeout=timeout, env=env)
    return r.returncode, r.stdout, r.stderr

# ------------------------------------------------------------------ generated Coq sources
def regenerate():
    """Gen/*.v are regenerated from /repo on every run (HLL tables). Written only when the content
    changed, so make re-checks the table theorems exactly when the source data changed."""
    import hlldata
    out = []
    for path, text in hlldata.generate('/repo/src/hyperloglog/data.rs', '/repo/src/hyperloglog/mod.rs'):
        full = os.path.join(COQ, 'theories', 'Gen', path)
        os.makedirs(os.path.dirname(full), exist_ok=True)
        old = open(full).read() if os.path.exists(full) else None
        if old != text:
            open(full, 'w').write(text)
            out.append(path)
    return out

# ------------------------------------------------------------------ Coq
def coq_make(targets, jobs=16, timeout=7200):
    """full .vo build of the given targets (paths relative to coq/, e.g. theories/Props/C02.vo)"""
    cmds = []
    with Lock('coq'):
        mk = os.path.join(COQ, 'Makefile')
        proj = os.path.join(COQ, '_CoqProject')
        if not os.path.exists(mk) or os.path.getmtime(mk) < os.path.getmtime(proj):
            rc, o, e = run(['coq_makefile', '-f', '_CoqProject', '-o', 'Makefile'], cwd=COQ)
            cmds.append('coq_makefile -f _CoqProject -o Makefile')
            if rc != 0:
                return False, o + e, cmds
        cmd = ['make', '-k', '-j%d' % jobs] + list(targets)   # -k: a failing proof must not keep the Exec layer from being rebuilt
        cmds.append('cd coq && ' + ' '.join(cmd))
        rc, o, e = run(cmd, cwd=COQ, timeout=timeout)
        return rc == 0, o + e, cmds

FORBIDDEN = re.compile(r'\b(Admitted|admit|Axiom|Axioms|Parameter|Parameters|Conjecture|Conjectures|give_up)\b'
                       r'|Admit\s+Obligations|Unset\s+Guard\s+Checking|Unset\s+Positivity\s+Checking|Unset\s+Universe\s+Checking'
                       r'|bypass_check|type-in-type|impredicative-set|Local\s+Unset\s+Guard')

def strip_comments(src):
    out, depth, i = [], 0, 0
    while i < len(src):
        if src.startswith('(*', i):
            depth += 1; i += 2
        elif src.startswith('*)', i) and depth > 0:
            depth -= 1; i += 2
        else:
            if depth == 0:
                out.append(src[i])
            i += 1
    return ''.join(out)

def audit_sources():
    """-> list of 'file: token' for forbidden constructs anywhere in the development"""
    hits = []
    for path in sorted(glob.glob(os.path.join(COQ, 'theories', '**', '*.v'), recursive=True)):
        body = strip_comments(open(path).read())
        for m in FORBIDDEN.finditer(body):
            hits.append('%s: %s' % (os.path.relpath(path, COQ), m.group(0)))
    for line in open(os.path.join(COQ, '_CoqProject')):
        if 'type-in-type' in line or 'impredicative-set' in line or 'bypass' in line:
            hits.append('_CoqProject: ' + line.strip())
    return hits

def theorem_names(prop):
    path = os.path.join(COQ, 'theories', 'Props', prop + '.v')
    if not os.path.exists(path):
        return []
    return re.findall(r'^Theorem\s+(\w+)', open(path).read(), re.M)

def print_assumptions(prop, names):
    """asks the kernel (a fresh coqc over the compiled Props/<prop>.vo) for the axioms of each theorem.
    -> dict name -> list of axiom names ([] = closed under the global context), or None on failure, plus log"""
    os.makedirs(BUILD, exist_ok=True)
    path = os.path.join(BUILD, 'assume_%s.v' % prop)
    with open(path, 'w') as f:
        f.write('From PDS Require Import Props.%s.\n' % prop)
        for n in names:
            f.write('Goal True. idtac "@@ %s". exact I. Qed.\nPrint Assumptions %s.\n' % (n, n))
    rc, o, e = run(['coqc', '-noglob', '-Q', os.path.join(COQ, 'theories'), 'PDS', path], cwd=BUILD, timeout=1800)
    for ext in ('.vo', '.vok', '.vos', '.glob'):
        try: os.remove(path[:-2] + ext)
        except OSError: pass
    if rc != 0:
        return None, o + e
    res, cur = {}, None
    for line in o.splitlines():
        if line.startswith('@@ '):
            cur = line[3:].strip(); res[cur] = None
        elif cur is not None:
            if line.startswith('Closed under the global context'):
                res[cur] = []
            elif line.startswith('Axioms:'):
                res[cur] = []
            elif res[cur] is not None and re.match(r'^[A-Za-z_][\w.\']*\s*:', line):
                res[cur].append(line.split(':')[0].strip())
            elif res[cur] is not None and re.match(r'^[A-Za-z_][\w.\']*$', line.strip()) and not line.startswith(' '):
                res[cur].append(line.strip())
    return res, o + e

# ------------------------------------------------------------------ OCaml model driver
def build_modeldrv(force=False):
    """extract Exec/* with ExtrOcamlBasic and compile ocaml/driver.ml against it (rebuilt when any .vo
    of the Exec/Model layer or driver.ml is newer than the binary)"""
    with Lock('ocaml'):
        os.makedirs(OCAMLDIR, exist_ok=True)
        srcs = glob.glob(os.path.join(COQ, 'theories', 'Exec', '*.vo')) + glob.glob(os.path.join(COQ, 'theories', 'Model', '*.vo')) + \
            glob.glob(os.path.join(COQ, 'theories', 'Base', '*.vo')) + [os.path.join(VERIF, 'ocaml', 'driver.ml'), os.path.join(VERIF, 'ocaml', 'Extract.v')]
        if not force and os.path.exists(MODELDRV) and all(os.path.getmtime(s) <= os.path.getmtime(MODELDRV) for s in srcs):
            return True, 'up to date', []
        cmds = []
        subprocess.run(['cp', os.path.join(VERIF, 'ocaml', 'Extract.v'), os.path.join(VERIF, 'ocaml', 'driver.ml'), OCAMLDIR], check=True)
        c1 = ['coqc', '-noglob', '-Q', os.path.join(COQ, 'theories'), 'PDS', 'Extract.v']
        rc, o, e = run(c1, cwd=OCAMLDIR, timeout=600)
        cmds.append(' '.join(c1))
        if rc != 0:
            return False, o + e, cmds
        c2 = ['ocamlfind', 'ocamlopt', '-w', '-a', 'model.mli', 'model.ml', 'driver.ml', '-o', 'modeldrv.tmp']
        rc, o2, e2 = run(c2, cwd=OCAMLDIR, timeout=600)
        cmds.append(' '.join(c2))
        if rc != 0:
            return False, o2 + e2, cmds
        os.replace(os.path.join(OCAMLDIR, 'modeldrv.tmp'), MODELDRV)
        return True, o + e + o2 + e2, cmds

# ------------------------------------------------------------------ Rust harness
def build_harness(profile='debug'):
    """(re)build the harness against /repo's current working tree; -> (binary path | None, log)"""
    with Lock('cargo-' + profile):
        lock_dst = os.path.join(HARNESS, 'Cargo.lock')
        if not os.path.exists(lock_dst):
            subprocess.run(['cp', '/repo/Cargo.lock', lock_dst], check=True)
        cmd = ['cargo', 'build', '--offline', '--quiet'] + (['--release'] if profile == 'release' else [])
        env = dict(os.environ, CARGO_NET_OFFLINE='true')
        rc, o, e = run(cmd, cwd=HARNESS, env=env, timeout=3600)
        if rc != 0:
            return None, e
        return os.path.join(HARNESS, 'target', profile, 'pdsdrive'), e

def repo_fingerprint():
    h = hashlib.sha256()
    for path in sorted(glob.glob('/repo/src/**/*.rs', recursive=True)) + ['/repo/Cargo.toml']:
        h.update(path.encode()); h.update(open(path, 'rb').read())
    return h.hexdigest()[:16]
