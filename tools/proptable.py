"""Per-property configuration of the check: which stages run, which axioms each theorem may rely on,
and the trusted base / assumptions copied into the evidence file."""

def disc(*sts, profile='debug'):
    def f(prop, tier, seed, bins, tag):
        import checklib
        return [checklib.discrete_stage(st, tier, seed, bins[profile], tag) for st in sts]
    f.__name__ = 'correspondence(' + ','.join(sts) + ')'
    return f

TB_COMMON = [
    'Coq 8.16.1 kernel (coqc; vm_compute used only inside closure/table lemmas where stated); no native_compute',
    'theorems are about hand-written Gallina models (coq/theories/Model/*.v), tied to /repo by the correspondence check of this run',
    'extraction: ExtrOcamlBasic only (bool, option, unit, list, prod, sumbool, sumor -> OCaml types; andb/orb inlined); nat/positive/N/Z/Q stay Coq inductives; no Extract Constant of our own; OCaml 4.13.1 ocamlopt; ocaml/driver.ml (transcript parser)',
    'Rust harness /verif/harness (RecBuild hasher and ScriptRng wrappers injected through the crate\'s own type parameters; no hook in the crate)',
    'modelled, not verified: std Vec/HashMap/BTreeSet, fixedbitset (bit list), succinct IntVector (list of N < 2^bits), num-traits checked_add, rand 0.8.8 samplers (modelled from source), derive(Clone) as value copy',
]
AS_COMMON = [
    'the correspondence is differential testing: it validates the model against the code on the generated cases of this run, it does not prove the model faithful',
    'keys are u64 (Hash for u64 = one write_u64); every theorem quantifies over all hash functions H',
]

def res_exhaustive(prop, tier, seed, bins, tag):
    import checklib
    return checklib.res_exhaustive_stage(prop, tier, seed, bins, tag)

def hll_accuracy(prop, tier, seed, bins, tag):
    import checklib
    return checklib.hll_accuracy_stage(prop, tier, seed, bins, tag)

def c08_measure(prop, tier, seed, bins, tag):
    import checklib
    return checklib.c08_measure_stage(prop, tier, seed, bins, tag)

def c07_rates(prop, tier, seed, bins, tag):
    import checklib
    return checklib.c07_rates_stage(prop, tier, seed, bins, tag)

def td_long_search(prop, tier, seed, bins, tag):
    import checklib
    return checklib.td_long_search_stage(prop, tier, seed, bins, tag)

def P(stages, tb=None, assumptions=None, profiles=None):
    return {'stages': stages, 'trusted_base': TB_COMMON + (tb or []), 'assumptions': AS_COMMON + (assumptions or []),
            'profiles': profiles or ['debug']}

PROPS = {
    'C02': P([disc('cms')]),
    'C17': P([disc('hll')]),
    'C09': P([disc('lossy')], assumptions=['with_width(w): epsilon() = fl(1/w); theorems use the exact rational relation 1 <= eps*width, the oracle uses exact integer arithmetic on width (the one-rounding difference of fl(1/w) is not modelled)', 'query(threshold): the bound ceil((threshold-eps)*n) is a float computation; generated thresholds avoid values whose bound is within 1e-6 of an integer']),
    'C18': P([disc('res')]),
    'C11': P([disc('mem', profile='release')], profiles=['release'], tb=['counting #[global_allocator] in the harness process (live bytes around one structure\'s lifetime; default SipHash hasher and a non-logging RNG so that only the crate\'s allocations are counted)', 'modelled, not verified: Vec growth policy, HashMap/BTreeSet node overhead, fixedbitset (u32 blocks), succinct::IntVector (u64 blocks)'], assumptions=['bounds for Vec/HashMap/BTree based structures allow a factor 2 plus 2 KiB for std\'s growth policy and per-node overhead']),
    'C07': P([c07_rates, disc('sizing', 'bloom', 'cuckoo', 'qf')], profiles=['debug', 'release'], tb=['sizing constructors and BloomFilter::len(): generic model run with OCaml native binary64 and libm log/log2/ceil; Rust next_power_of_two modelled as 2^log2_up'], assumptions=['the MEASURED Bloom rate under double hashing, len() accuracy and "n distinct inserts never report Full" (false for adversarial hashers) are statistical sentences: NOT proved, searched only after a break; the cuckoo and quotient-filter false-positive COUNTING bounds are proved', 'known finding: with_properties_4/_8 panic when the rate needs a fingerprint of more than 64 bits']),
    'C08': P([c08_measure, disc('sizing', 'cms')], profiles=['debug', 'release'], tb=['sizing: generic model run with OCaml native binary64 and libm log/ceil'], assumptions=['the (eps, delta) guarantee is probabilistic over hash seeds: NOT proved; refuted for small delta by the double-hashing floor (known finding, re-measured on every run)']),
    'C03': P([hll_accuracy, disc('hllc', 'hll')], tb=['axioms (standard library, via Reals) of the real-arithmetic theorems of this property: ClassicalDedekindReals.sig_forall_dec, ClassicalDedekindReals.sig_not_dec, FunctionalExtensionality.functional_extensionality_dep, Classical_Prop.classic; all other theorems are closed under the global context', 'translator tools/hlldata.py (regex over decimal literals of data.rs and the constants of am()/count() in mod.rs -> Gen/HllData.v, regenerated every run)', 'count(): generic model run with OCaml native binary64 and libm log (same glibc as the crate); modelled std: slice::binary_search_by as implemented in the installed toolchain'], assumptions=['the sentence about RMS / mean / 3-sigma tail of the relative error over hash seeds is NOT proved (bias rows are empirical); it is searched statistically only after a proof or correspondence break', 'glibc log agrees between OCaml and Rust']),
    'C20': P([disc('hser')], tb=['serde/serde_json are modelled: a document is a list of (field, value); JSON syntax and numeric typing are serde_json\'s']),
    'C05': P([res_exhaustive, disc('res')], assumptions=['rand 0.8.8 gen_range / gen_range(0.0..1.0) are modelled from source; that a PRNG delivers uniform words is an assumption (given uniform words, gen_range is exactly uniform on accepted words: lemma lemire_accept_iff)', 'beyond n = 4k+1 the size of the bias of gap sampling (constant p during a gap) is NOT bounded by a theorem; the gap law itself is proved']),
    'C10': P([disc('heap')]),
    'C16': P([disc('td')], tb=['t-digest: theorems are over the exact-rational (Q) instance of the generic model; the correspondence runs the same generic model with OCaml native binary64 arithmetic (arith record in ocaml/driver.ml) and the scale-function limits f_inv(f(q0,n)+1,n) logged from the crate\'s own ScaleFunction calls; IEEE rounding is the gap between the two instances'], assumptions=['floating-point accumulation error is outside the theorems (the property allows it); the oracle compares with n*4 ulp relative tolerance']),
    'C15': P([disc('td')], tb=['t-digest: theorems over the Q instance; float instance replayed bit-exactly against the crate'], assumptions=['ulp-level effects (a fused mean exceeding max by an ulp) are outside the exact-arithmetic theorems; the oracle allows 16 ulp of the data range scaled by total/smallest weight, as the property does']),
    'C04': P([td_long_search, disc('td')], profiles=['debug', 'release'], tb=['axioms (standard library, via Reals) of the real-arithmetic theorems of this property: ClassicalDedekindReals.sig_forall_dec, ClassicalDedekindReals.sig_not_dec, FunctionalExtensionality.functional_extensionality_dep, Classical_Prop.classic; all other theorems are closed under the global context', 't-digest: theorems over the Q instance; float instance replayed bit-exactly against the crate'], assumptions=['rank accuracy across repeated merges is an empirical claim about input families and is NOT proved; size bound proved for K0 and for any scale function satisfying the abstract limit hypothesis']),
    'C01': P([disc('bloom', 'cuckoo', 'qf', 'hset')]),
    'C06': P([disc('bloom', 'cms', 'hll', 'cuckoo', 'qf')]),
    'C12': P([disc('cuckoo', 'qf')]),
    'C19': P([disc('bloom', 'cms', 'hll', 'cuckoo', 'qf', 'res', 'lossy', 'heap', 'td')]),
    'C13': P([disc('qf')]),
    'C14': P([disc('cuckoo')]),
}

# axioms (as printed by Print Assumptions) each property's theorems may depend on; everything else is rejected
# exact names, or prefixes ending in '*'. All are declared by Coq's standard library (classical real numbers).
REALS = ['ClassicalDedekindReals.sig_forall_dec', 'ClassicalDedekindReals.sig_not_dec',
         'FunctionalExtensionality.functional_extensionality_dep', 'Classical_Prop.classic']
ALLOW_AXIOMS = {
    'C03': REALS,
    'C04': REALS,
}
