"""The check driver: ./check Cxx [--tier quick|thorough] [--replay file]
Stages per property (see DESIGN.md section 5):
  1. Coq: regenerate Gen/*, full .vo build of Props/Cxx.vo, source audit, Print Assumptions per theorem
  2. correspondence: Rust harness (built against /repo's working tree) vs the extracted Gallina model
  3. property oracles on the implementation traces (the failing-input search)
  4. evidence/Cxx.json
Exit 0 = property held on everything explored; exit 1 + 'VIOLATION property=Cxx replay=<path>' otherwise."""
import os, sys, json, time, random, hashlib, re, subprocess, collections

HERE = os.path.dirname(os.path.abspath(__file__))
sys.path.insert(0, HERE)
import build, corr, gen
from proptable import PROPS, ALLOW_AXIOMS

VERIF = build.VERIF
EVID = os.path.join(VERIF, 'evidence')
REPLAYS = os.path.join(VERIF, 'replays')
CORPUS = os.path.join(VERIF, 'corpus')

# ------------------------------------------------------------------ known findings
def load_known():
    known, fixed = [], []
    path = os.path.join(VERIF, 'known_findings.txt')
    if os.path.exists(path):
        for line in open(path):
            line = line.strip()
            m = re.match(r'known:\s+property=(\w+)\s+key=(\S+)\s+(.*)', line)
            if m:
                known.append((m.group(1), m.group(2), m.group(3)))
            m = re.match(r'fixed:\s+property=(\w+)\s+(\S+)\s+(.*)', line)
            if m:
                fixed.append((m.group(1), m.group(2), m.group(3)))
    return known, fixed

# ------------------------------------------------------------------ stage results
class Stage:
    def __init__(self, name):
        self.name = name
        self.cases = 0              # evaluations
        self.nontrivial = set()     # digests of distinct non-trivial cases
        self.samples = []
        self.failures = []          # (prop, message, case lines)   oracle verdicts on the implementation
        self.disagree = []          # (case lines, description)     model vs implementation
        self.errors = []            # infrastructure errors (treated as a broken correspondence)
        self.dist = collections.Counter()
        self.traces = 0             # traces replayed on the model
        self.rule = ''
        self.wall = 0.0

def case_lines(tc, src_cases):
    return src_cases.get(tc.id)

def digest(lines):
    return hashlib.sha1('\n'.join(lines).encode()).hexdigest()[:16]

def nontrivial_events(tc):
    """events that make a discrete-structure case non-trivial: a reported collision/duplicate (insert -> 0),
    a failure (2 / panic), a union/merge, a clear followed by more ops, RNG words consumed (evictions)"""
    ev = set()
    for op, res, words in tc.ops:
        if op[0] in ('ins',) and res == ['0']: ev.add('dup_or_collision')
        if res == ['2']: ev.add('full')
        if res == ['panic']: ev.add('panic')
        if op[0] in ('union', 'merge'): ev.add('merge')
        if op[0] == 'clear': ev.add('clear')
        if op[0] == 'clone': ev.add('clone')
        if words: ev.add('rng')
        if op[0] == 'del' and res == ['1']: ev.add('delete')
    return ev

def discrete_stage(st, tier, seed, binary, tag, ncases=None, extra_cases=None, genfn=None):
    """generate cases for structure st, run them on the crate, replay the transcript on the model"""
    t0 = time.time()
    sg = Stage('correspondence:' + st)
    rng = random.Random((seed * 1000003) ^ hash_str(st))
    n = ncases if ncases is not None else {'quick': gen.QUICK, 'thorough': gen.THOROUGH, 'search': gen.SEARCH}[tier][st]
    cases = []
    corpus_path = os.path.join(CORPUS, st + '.cases')
    if os.path.exists(corpus_path):
        cases += gen.read_cases(corpus_path)
    if extra_cases:
        cases += extra_cases
    if tier == 'thorough' and st in gen.EXHAUSTIVE:
        ex = gen.EXHAUSTIVE[st]()
        cases += ex
        sg.dist['exhaustive_small_histories'] = len(ex)
    cases += (genfn or gen.GEN[st])(rng, n)
    src = {c[0].split()[1]: c for c in cases}
    os.makedirs(build.BUILD, exist_ok=True)
    path = os.path.join(build.BUILD, '%s_%s.cases' % (tag, st))
    gen.write_cases(path, cases)
    try:
        tr = corr.run_harness(binary, path)
    except Exception as e:
        sg.errors.append('harness run failed: %s' % e)
        sg.wall = time.time() - t0
        return sg
    tcs = corr.parse_transcript(tr)
    sg.cases = len(tcs)
    if len(tcs) != len(cases) and not any(t.hang for t in tcs):
        sg.errors.append('harness returned %d transcripts for %d cases' % (len(tcs), len(cases)))
    for tc in tcs:
        ev = nontrivial_events(tc)
        for e in ev: sg.dist['event:' + e] += 1
        sg.dist['ops'] += len(tc.ops)
        sg.dist['hasher:' + tc.cfg.get('hasher', 'sip').split(':')[0]] += 1
        if ev and len(tc.ops) >= 3:
            sg.nontrivial.add(digest(src.get(tc.id, [tc.id])))
        for prop, msg in tc.x:
            sg.failures.append((prop, msg, src.get(tc.id)))
        # a panic of the crate on a call that is valid by construction of the generator is itself a violation
        pm = PANIC_IS_FAILURE.get(st, {})
        for op, res, words in tc.ops:
            if res == ['panic'] and op[0] in pm:
                sg.failures.append((pm[op[0]], '%s: the crate panicked on `%s`' % (st, ' '.join(op[:4])), src.get(tc.id)))
                break
    if st in corr.OPC:
        dis, aux, errs = corr.model_check(st, tcs, tag)
        sg.traces = len(tcs)
        sg.aux = aux
        sg.errors += errs
        for c, k, m in dis:
            op = c.ops[k] if 0 <= k < len(c.ops) else None
            sg.disagree.append((src.get(c.id), 'case %s op#%d %s: implementation=%s model=%s' % (
                c.id, k, ' '.join(op[0]) if op else '?', ' '.join(op[1]) if op else '?', m)))
    if st in ('hllc', 'hll'):
        aux_relerr(sg, tcs, src)
    if st == 'td':
        # the logged ScaleFunction calls and merge limits, replayed on Model/Scale.v
        sc = corr.scale_cases(tcs)
        dis, _, errs = corr.model_check('scale', sc, tag + 'sc')
        sg.errors += errs
        sg.dist['scale_calls_replayed'] = sum(len(c.ops) for c in sc)
        for c, kk, m in dis:
            op = c.ops[kk] if 0 <= kk < len(c.ops) else None
            sg.disagree.append((src.get(c.id), 'case %s scale-function call %s: implementation=%s model=%s' % (c.id, ' '.join(op[0]) if op else '?', ' '.join(op[1]) if op else '?', m)))
    for tc in tcs[:2] + tcs[-1:]:
        sg.samples.append({'structure': st, 'case': tc.id, 'cfg': tc.cfg, 'ops': [' '.join(o[0]) + ' => ' + ' '.join(o[1]) for o in tc.ops[:12]]})
    sg.rule = ('cases from tools/gen.py (one PRNG seeded by VERIF_SEED) plus the corpus; a case is non-trivial when it has >= 3 ops and '
               'at least one of: duplicate/collision result, Full, panic, union/merge, clear, clone, eviction RNG use, successful delete; '
               'distinct = distinct case text')
    sg.wall = time.time() - t0
    return sg

PANIC_IS_FAILURE = {
    'td': {'quant': 'C15', 'cdf': 'C15', 'count': 'C16', 'sum': 'C16', 'mean': 'C16', 'min': 'C16', 'max': 'C16', 'ncent': 'C04', 'empty': 'C16', 'ins': 'C16', 'audit': 'C15', 'clear': 'C19'},
    'res': {'add': 'C18', 'obs': 'C18', 'clear': 'C19'},
    'heap': {'add': 'C10', 'iter': 'C10', 'clear': 'C19'},
    'lossy': {'add': 'C09', 'query': 'C09', 'obs': 'C09', 'clear': 'C19'},
    'hllc': {'count': 'C03'},
    'hll': {'addh': 'C17', 'add': 'C17', 'regs': 'C17', 'count': 'C03', 'merge': 'C06', 'clear': 'C19'},
    'qf': {'ins': 'C13', 'q': 'C13', 'obs': 'C13', 'union': 'C06', 'clear': 'C19'},
    'cuckoo': {'ins': 'C14', 'del': 'C14', 'q': 'C14', 'obs': 'C14', 'dobs': 'C14', 'union': 'C06', 'clear': 'C19'},
}

def axiom_allowed(a, allow):
    return any(a == x or (x.endswith('*') and a.startswith(x[:-1])) for x in allow)

def hash_str(s):
    return int(hashlib.sha1(s.encode()).hexdigest()[:8], 16)

# ------------------------------------------------------------------ Coq stage
def coq_stage(prop, tier):
    t0 = time.time()
    info = {'ok': True, 'log': '', 'cmds': [], 'theorems': {}, 'audit': [], 'problems': []}
    try:
        changed = build.regenerate()
        if changed:
            info['cmds'].append('regenerated Gen/: ' + ', '.join(changed))
    except Exception as e:
        # the previously generated file stays in place; only the properties whose theorems are about the tables are affected
        if prop in ('C03', 'C20'):
            info['ok'] = False
            info['problems'].append('translator (Gen/*.v from /repo) failed: %r' % e)
    names = build.theorem_names(prop)
    if not names:
        info['ok'] = False
        info['problems'].append('no theorems found in Props/%s.v' % prop)
        return info
    import glob as _glob
    exec_targets = sorted('theories/Exec/' + os.path.basename(p)[:-2] + '.vo' for p in _glob.glob(os.path.join(build.COQ, 'theories', 'Exec', '*.v')))
    ok, log, cmds = build.coq_make(['theories/Props/%s.vo' % prop] + exec_targets)
    info['cmds'] += cmds
    if not ok:
        info['ok'] = False
        m = re.search(r'File "([^"]+)", line (\d+).*?\n(Error:.*?)(?:\n\n|\Z)', log, re.S)
        info['problems'].append('Coq build of Props/%s.vo failed: %s' % (prop, (m.group(0)[:600] if m else log[-600:])))
        info['log'] = log[-3000:]
    hits = build.audit_sources()
    info['audit'] = hits
    if hits:
        info['ok'] = False
        info['problems'].append('forbidden constructs in the development: ' + '; '.join(hits[:5]))
    if ok:
        res, alog = build.print_assumptions(prop, names)
        info['cmds'].append('coqc build/assume_%s.v   (Print Assumptions for %d theorems)' % (prop, len(names)))
        if res is None:
            info['ok'] = False
            info['problems'].append('Print Assumptions run failed: ' + alog[-500:])
        else:
            allow = set(ALLOW_AXIOMS.get(prop, []))
            for n in names:
                ax = res.get(n)
                info['theorems'][n] = ax
                if ax is None:
                    info['ok'] = False
                    info['problems'].append('no Print Assumptions result for ' + n)
                else:
                    bad = [a for a in ax if not axiom_allowed(a, allow)]
                    if bad:
                        info['ok'] = False
                        info['problems'].append('theorem %s depends on axioms outside the allowlist: %s' % (n, ', '.join(bad)))
    if tier == 'thorough' and ok:
        rc, o, e = build.run(['coqchk', '-silent', '-o', '-Q', os.path.join(build.COQ, 'theories'), 'PDS', 'PDS.Props.' + prop], cwd=build.COQ, timeout=3600)
        info['cmds'].append('coqchk -silent -o -Q theories PDS PDS.Props.%s' % prop)
        info['coqchk'] = (o + e)[-1500:]
        if rc != 0:
            info['ok'] = False
            info['problems'].append('coqchk failed: ' + (o + e)[-400:])
    info['wall'] = time.time() - t0
    return info

# ------------------------------------------------------------------ replay files / shrinking
def write_replay(prop, kind, payload):
    os.makedirs(REPLAYS, exist_ok=True)
    body = json.dumps(payload, indent=1, sort_keys=True)
    name = '%s-%s-%s.json' % (prop, kind, hashlib.sha1(body.encode()).hexdigest()[:10])
    path = os.path.join(REPLAYS, name)
    open(path, 'w').write(body)
    return path

def shrink_case(lines, still_fails, budget=60):
    """delta debugging over the op lines of one case (header and END kept)"""
    head, ops, tail = lines[0], lines[1:-1], lines[-1]
    n = 2
    while len(ops) >= 2 and budget > 0:
        chunk = max(1, len(ops) // n)
        reduced = False
        for i in range(0, len(ops), chunk):
            cand = ops[:i] + ops[i + chunk:]
            budget -= 1
            if cand and still_fails([head] + cand + [tail]):
                ops = cand; n = max(n - 1, 2); reduced = True
                break
            if budget <= 0:
                break
        if not reduced:
            if chunk == 1:
                break
            n = min(len(ops), n * 2)
    return [head] + ops + [tail]

def run_one_case(binary, lines, tag):
    path = os.path.join(build.BUILD, 'one_%s_%d.cases' % (tag, os.getpid()))
    gen.write_cases(path, [lines])
    try:
        tcs = corr.parse_transcript(corr.run_harness(binary, path, timeout=300, case_ms=6000))
    except Exception:
        return None
    finally:
        try: os.remove(path)
        except OSError: pass
    return tcs[0] if tcs else None

def oracle_fails(binary, lines, prop, tag):
    tc = run_one_case(binary, lines, tag)
    return tc is not None and any(p in (prop, '*') for p, _ in tc.x)

def model_disagrees(binary, lines, st, tag):
    tc = run_one_case(binary, lines, tag)
    if tc is None or st not in corr.OPC:
        return False
    dis, _, errs = corr.model_check(st, [tc], tag + 's', shards=1)
    return bool(dis) or bool(errs)

# ------------------------------------------------------------------ evidence
def write_evidence(prop, tier, seed, coq, stages, violations, known_hits, wall, extra_cov=None):
    os.makedirs(EVID, exist_ok=True)
    spec = PROPS[prop]
    obligations = len(coq['theorems']) if coq['theorems'] else len(build.theorem_names(prop))
    discharged = sum(1 for n, ax in coq['theorems'].items() if ax is not None and all(axiom_allowed(a, ALLOW_AXIOMS.get(prop, [])) for a in ax)) if coq['ok'] or coq['theorems'] else 0
    if not coq['ok'] and any('build of Props' in p for p in coq['problems']):
        discharged = 0
    evaluations = sum(s.cases for s in stages)
    nontrivial = set()
    for s in stages:
        nontrivial |= {s.name + d for d in s.nontrivial}
    samples = []
    for s in stages:
        samples += s.samples[:2]
    samples.append({'theorems': [{'name': n, 'axioms': ax} for n, ax in list(coq['theorems'].items())[:40]]})
    dist = {}
    for s in stages:
        dist[s.name] = dict(s.dist)
    cov = {
        'obligations': max(obligations, 1),
        'discharged': discharged,
        'checker_cmd': ' ; '.join(coq['cmds']) or 'make -C coq theories/Props/%s.vo' % prop,
        'trusted_base': spec['trusted_base'],
        'evaluations': max(evaluations, 1),
        'distinct_nontrivial': len(nontrivial),
        'rule': ' | '.join(sorted({s.rule for s in stages if s.rule})) or 'no generated cases: this property is decided by the theorems alone',
        'samples': samples,
        'traces_validated_against_impl': sum(s.traces for s in stages),
        'model_vs_impl_disagreements': sum(len(s.disagree) for s in stages),
        'oracle_failures': sum(len(s.failures) for s in stages),
        'generator_distribution': dist,
        'theorems': {n: ('closed under the global context' if ax == [] else ax) for n, ax in coq['theorems'].items()},
        'coq_problems': coq['problems'],
        'known_findings_reported': known_hits,
        'stage_wall_s': {s.name: round(s.wall, 2) for s in stages},
        'exhaustive': False,
    }
    if extra_cov:
        cov.update(extra_cov)
    ev = {
        'property_id': prop, 'tier': tier, 'seed': seed, 'level': 'proof', 'coverage': cov,
        'assumptions': spec['assumptions'], 'wall_s': round(wall, 2), 'violations': len(violations),
    }
    open(os.path.join(EVID, prop + '.json'), 'w').write(json.dumps(ev, indent=1))

# ------------------------------------------------------------------ main
def main(argv):
    import argparse
    ap = argparse.ArgumentParser()
    ap.add_argument('prop')
    ap.add_argument('--tier', default=os.environ.get('VERIF_TIER', 'quick'))
    ap.add_argument('--replay')
    a = ap.parse_args(argv)
    prop, tier = a.prop, a.tier
    if tier not in ('quick', 'thorough'):
        tier = 'quick'
    try:
        seed = int(os.environ.get('VERIF_SEED', '1'))
    except ValueError:
        seed = 1
    if prop not in PROPS:
        print('unknown property', prop); return 2
    spec = PROPS[prop]
    t0 = time.time()
    tag = '%s_%s' % (prop, tier[0])
    known, fixed = load_known()

    if a.replay:
        return replay(prop, a.replay)

    # ---- 1. Coq
    coq = coq_stage(prop, tier)
    # ---- 2. builds
    stages, infra = [], []
    model_broken = []
    ok, log, cmds = build.build_modeldrv()
    if not ok:
        model_broken.append('model driver build failed: ' + log[-800:])
    bins = {}
    for profile in spec.get('profiles', ['debug']):
        b, log = build.build_harness(profile)
        if b is None:
            infra.append('harness build (%s) against /repo failed: %s' % (profile, log[-1500:]))
        bins[profile] = b
    # ---- 3. stages
    if not infra:
        for stage_fn in spec['stages']:
            try:
                stages += stage_fn(prop, tier, seed, bins, tag)
            except Exception as e:
                import traceback
                sg = Stage(getattr(stage_fn, '__name__', 'stage'))
                sg.errors.append('stage crashed: %s' % traceback.format_exc()[-1500:])
                stages.append(sg)
    # ---- 4. decide
    violations, known_hits = [], []
    seen_keys = set()
    binary = bins.get('debug') or bins.get('release')
    for s in stages:
        for p, msg, lines in s.failures:
            if p != prop and p != '*':
                continue
            k = next(((kp, key, desc) for kp, key, desc in known if kp == prop and ('kf=' + key) in msg), None)
            if k:
                if k[1] not in seen_keys:
                    seen_keys.add(k[1]); known_hits.append('%s %s' % (k[1], k[2]))
                continue
            if len(violations) >= 3:
                continue
            small = lines
            if lines and binary and s.name.startswith('correspondence:'):
                try:
                    small = shrink_case(lines, lambda L: oracle_fails(binary, L, prop, tag))
                except Exception:
                    small = lines
            if small is not lines and small and binary:
                tc2 = run_one_case(binary, small, tag)
                if tc2 is not None:
                    msg = next((m for p2, m in tc2.x if p2 in (prop, '*')), msg)
            path = write_replay(prop, 'input', {'property': prop, 'kind': 'input', 'stage': s.name, 'oracle_message': msg,
                                                'case': small, 'how_to_replay': './check %s --replay <this file>' % prop})
            violations.append((path, ''))
    broken = []
    if not coq['ok']:
        broken += ['proof: ' + p for p in coq['problems']]
    for s in stages:
        broken += ['%s: %s' % (s.name, d) for _, d in s.disagree[:3]]
        broken += ['%s: %s' % (s.name, e) for e in s.errors[:3]]
    broken += infra + model_broken
    extra_cov = {}
    if broken and not violations:
        # the proof or the correspondence no longer checks: search the implementation for a failing input
        found = None
        if binary and not infra:
            found, searched = wider_search(prop, spec, seed, bins, tag)
            extra_cov['failing_input_search_cases'] = searched
        if found:
            path = write_replay(prop, 'input', dict(found, property=prop, kind='input', broken=broken[:6]))
            violations.append((path, ''))
        else:
            cases = []
            for s in stages:
                for lines, d in s.disagree[:2]:
                    cases.append({'disagreement': d, 'case': lines})
            path = write_replay(prop, 'unproved', {'property': prop, 'kind': 'theorem-or-correspondence', 'no_longer_checks': broken[:10],
                                                   'diverging_cases': cases, 'note': 'no input violating the property was found by the search'})
            violations.append((path, ' no-failing-input-found'))
    wall = time.time() - t0
    write_evidence(prop, tier, seed, coq, stages, violations, known_hits, wall, extra_cov)
    for kh in known_hits:
        print('KNOWN-FINDING: property=%s %s' % (prop, kh))
    for path, suffix in violations:
        print('VIOLATION property=%s replay=%s%s' % (prop, path, suffix))
    if not violations:
        nthm = len(coq['theorems'])
        print('OK property=%s tier=%s theorems=%d cases=%d traces_on_model=%d wall=%.1fs' % (
            prop, tier, nthm, sum(s.cases for s in stages), sum(s.traces for s in stages), wall))
    return 1 if violations else 0

def wider_search(prop, spec, seed, bins, tag):
    """oracle-only search over a larger generated set (no model involved)"""
    searched = 0
    for rnd in range(4):
        for stage_fn in spec['stages']:
            try:
                sts = stage_fn(prop, 'search', seed * 7919 + 101 * (rnd + 1), bins, tag + 'w')
            except Exception:
                continue
            for s in sts:
                searched += s.cases
                for p, msg, lines in s.failures:
                    if p in (prop, '*') and not any(kp == prop and ('kf=' + key) in msg for kp, key, _ in load_known()[0]):
                        binary = bins.get('debug') or bins.get('release')
                        small = lines
                        if lines and s.name.startswith('correspondence:'):
                            try:
                                small = shrink_case(lines, lambda L: oracle_fails(binary, L, prop, tag))
                            except Exception:
                                pass
                        return {'stage': s.name, 'oracle_message': msg, 'case': small}, searched
    return None, searched

def replay(prop, path):
    d = json.load(open(path))
    if d.get('kind') != 'input' or not d.get('case'):
        print('replay file names a theorem/correspondence, not an input:', json.dumps(d.get('no_longer_checks', d), indent=1)[:2000])
        return 1
    b, log = build.build_harness('debug')
    if b is None:
        print('harness build failed', log[-500:]); return 2
    tc = run_one_case(b, d['case'], 'replay')
    if tc is None:
        print('harness could not run the case'); return 2
    for op, res, words in tc.ops:
        print('O', ' '.join(op), '=>', ' '.join(res))
    bad = [m for p, m in tc.x if p in (prop, '*')]
    for m in bad:
        print('X', prop, m)
    if bad:
        print('VIOLATION property=%s replay=%s' % (prop, path)); return 1
    print('replay passes on the current tree'); return 0

# ------------------------------------------------------------------ C05: every draw sequence on the implementation
def res_exhaustive_stage(prop, tier, seed, bins, tag):
    """drives the crate through EVERY draw sequence of Algorithm R for small (k, n) by choosing RNG words that
    decode to each draw, and compares the inclusion counts with the theorem: count(p) * n = k * outcomes"""
    t0 = time.time()
    sg = Stage('exhaustive-draws:res')
    configs = [(1, 2), (1, 3), (1, 4), (1, 5), (2, 3), (2, 4), (2, 5), (2, 6), (3, 4), (3, 5)]
    if tier == 'thorough':
        configs += [(2, 7), (3, 6), (3, 7), (4, 5), (4, 6), (4, 7)]
    if tier == 'search':
        return [res_statistical(seed, bins, tag)]
    cases, index = gen.gen_res_exhaustive(configs)
    src = {c[0].split()[1]: c for c in cases}
    path = os.path.join(build.BUILD, '%s_resx.cases' % tag)
    gen.write_cases(path, cases)
    try:
        tcs = corr.parse_transcript(corr.run_harness(bins['debug'], path))
    except Exception as e:
        sg.errors.append('harness run failed: %s' % e)
        return [sg]
    sg.cases = len(tcs)
    outcomes = collections.defaultdict(list)
    broken_cfg = set()
    for tc in tcs:
        k, n, seq = index[tc.id]
        for p_, msg in tc.x:
            sg.failures.append((p_, msg, src[tc.id]))
        scripted = [l.split()[1:] for l in src[tc.id] if l.startswith('RW ')]
        drawn = [list(map(str, w)) for op, res, w in tc.ops if op[0] == 'add' and w]
        if scripted != drawn:
            # the implementation no longer draws the way the enumeration assumes: the enumeration says nothing;
            # this is a broken correspondence (the statistical search then looks for a failing (k, n, position))
            broken_cfg.add((k, n))
            if not sg.errors:
                sg.errors.append('case %s: add consumed RNG words %s where the draw sequence scripted %s' % (tc.id, drawn[:3], scripted[:3]))
            continue
        last = tc.ops[-1]
        if last[0][0] != 'obs' or last[1] in (['panic'], ['skipped']):
            sg.failures.append(('C05', 'no final reservoir (panic?)', src[tc.id]))
            continue
        outcomes[(k, n)].append(([int(x) for x in last[1][:-2]], tc.id))
        sg.nontrivial.add(tc.id)
    for (k, n), outs in sorted(outcomes.items()):
        if (k, n) in broken_cfg:
            continue   # incomplete enumeration: says nothing
        total = len(outs)
        sg.dist['k=%d,n=%d outcomes' % (k, n)] = total
        for pos in range(n):
            c = sum(1 for r, _ in outs if pos in r)
            if c * n != k * total:
                witness = next((cid for r, cid in outs if (pos in r) == (c * n > k * total)), outs[0][1])
                sg.failures.append(('C05', 'k=%d n=%d: position %d is in %d of %d outcomes over all draw sequences, expected exactly %d (k/n)' % (
                    k, n, pos, c, total, k * total // n), src[witness]))
                break
    dis, aux, errs = corr.model_check('res', tcs, tag + 'x')
    sg.traces = len(tcs)
    sg.errors += errs
    for c, kk, m in dis:
        op = c.ops[kk] if 0 <= kk < len(c.ops) else None
        sg.disagree.append((src.get(c.id), 'case %s op#%d %s: implementation=%s model=%s' % (c.id, kk, ' '.join(op[0]) if op else '?', ' '.join(op[1]) if op else '?', m)))
    sg.samples.append({'structure': 'res', 'case': tcs[-1].id if tcs else None, 'ops': [' '.join(o[0]) + ' => ' + ' '.join(o[1]) for o in (tcs[-1].ops if tcs else [])]})
    sg.rule = 'one case per draw sequence (j_k..j_{n-1}), j_i in [0,i], RNG words chosen to decode to each j_i; complete enumeration for the listed (k,n); every case is non-trivial (at least one replacement decision)'
    sg.exhaustive = True
    sg.wall = time.time() - t0
    return [sg]


def res_statistical(seed, bins, tag, runs=4000):
    """failing-input search for C05 (only after a proof/correspondence break): per-position inclusion frequency over
    many RNG seeds against k/n with a 6-sigma margin"""
    t0 = time.time()
    sg = Stage('statistical-uniformity:res')
    rng = random.Random(seed)
    cases, index = [], {}
    for k, n, warm in [(1, 2, 0), (2, 5, 0), (3, 13, 0), (4, 17, 0), (4, 24, 0), (8, 60, 0), (2, 9, 60), (8, 40, 300)]:
        for r in range(runs):
            cid = 's%d_%d_%d_%d' % (k, n, warm, r)
            pre = (['add 0 %d' % (900000 + p) for p in range(warm)] + ['clear 0']) if warm else []   # a used, then cleared sampler
            L = ['new 0 %d' % k] + pre + ['add 0 %d' % p for p in range(n)] + ['obs 0']
            cases.append(gen.case(cid, 'res', {'rngseed': rng.randrange(1 << 48), 'freshpass': 0}, L))
            index[cid] = (k, n + (1000000 if warm else 0))
    path = os.path.join(build.BUILD, '%s_ress.cases' % tag)
    gen.write_cases(path, cases)
    try:
        tcs = corr.parse_transcript(corr.run_harness(bins['debug'], path))
    except Exception as e:
        sg.errors.append('harness run failed: %s' % e)
        return sg
    sg.cases = len(tcs)
    counts = collections.defaultdict(lambda: collections.Counter())
    totals = collections.Counter()
    for tc in tcs:
        k, n = index[tc.id]
        last = tc.ops[-1]
        if last[1] in (['panic'], ['skipped']):
            continue
        totals[(k, n)] += 1
        for x in last[1][:-2]:
            counts[(k, n)][int(x)] += 1
    for (k, n_), tot in totals.items():
        n = n_ % 1000000
        warmed = n_ >= 1000000
        p = k / n
        sigma = (p * (1 - p) / tot) ** 0.5
        for pos in range(n):
            f = counts[(k, n_)][pos] / tot
            if abs(f - p) > 6 * sigma + 1e-9:
                L = ['new 0 %d' % k] + (['<warm-up adds>', 'clear 0'] if warmed else []) + ['add 0 %d' % q for q in range(n)] + ['obs 0']
                sg.failures.append(('C05', 'k=%d n=%d%s: position %d kept in %.4f of %d seeded runs, expected %.4f (6 sigma = %.4f)' % (k, n, ' (after warm-up and clear)' if warmed else '', pos, f, tot, p, 6 * sigma),
                                    gen.case('stat_k%d_n%d' % (k, n), 'res', {'rngseed': 'any'}, L)))
                break
    sg.wall = time.time() - t0
    return sg


def aux_relerr(sg, tcs, src):
    """relative_error() = sqrt(3 ln 2 - 1) / sqrt(m), compared with a float evaluation to 1e-13 relative"""
    import math, struct
    for tc in tcs:
        b = None
        for op, res, w in tc.ops:
            if op[0] in ('new', 'fromregs') and res != ['panic']:
                b = int(op[2])
            if op[0] == 'relerr' and res not in (['panic'], ['skipped']) and b is not None:
                got = struct.unpack('<d', struct.pack('<Q', int(res[0])))[0]
                want = math.sqrt(3 * math.log(2) - 1) / math.sqrt(2 ** b)
                if not (abs(got - want) <= 1e-13 * want):
                    sg.failures.append(('C03', 'relative_error()=%r for b=%d, expected sqrt(3 ln 2 - 1)/sqrt(m)=%r' % (got, b, want), src.get(tc.id)))
            if op[0] == 'count' and res == ['panic']:
                sg.failures.append(('C03', 'count() panicked (b=%s)' % b, src.get(tc.id)))

def hll_accuracy_stage(prop, tier, seed, bins, tag):
    """failing-input search for the statistical sentence of C03 (runs only after a break): RMS, mean and 3-sigma tail
    of the relative error of count() over seeded hash streams, per (b, n) cell, with generous margins"""
    sg = Stage('statistical-accuracy:hll')
    if tier != 'search':
        return [sg]
    t0 = time.time()
    import math
    rng = random.Random(seed)
    cases, index = [], {}
    for b in (4, 5, 6, 7, 8, 10, 12, 14):
        m = 1 << b
        seeds = 4000 if b <= 7 else (1000 if b <= 8 else (200 if b <= 12 else 60))
        for mult in (0.1, 0.25, 0.4, 0.7, 1.0, 1.5, 2.0, 2.2, 2.4, 2.6, 3.0, 3.5, 4.0, 4.5, 5.0, 6.0, 8.0, 12.0, 20.0, 50.0):
            n = max(1, int(m * mult))
            if n * seeds > 16_000_000:
                continue
            for r in range(seeds):
                cid = 'a%d_%d_%d' % (b, n, r)
                cases.append(gen.case(cid, 'hll', {'hasher': 'sip'}, ['new 0 %d' % b, 'fill 0 %d %d' % (n, rng.randrange(1 << 60)), 'count 0']))
                index[cid] = (b, n, mult)
    path = os.path.join(build.BUILD, '%s_hlla.cases' % tag)
    gen.write_cases(path, cases)
    try:
        tcs = corr.parse_transcript(corr.run_harness(bins.get('release') or bins['debug'], path))
    except Exception as e:
        sg.errors.append('harness run failed: %s' % e)
        return [sg]
    sg.cases = len(tcs)
    cells = collections.defaultdict(list)
    for tc in tcs:
        b, n, mult = index[tc.id]
        res = tc.ops[-1][1]
        if res in (['panic'], ['skipped']):
            sg.failures.append(('C03', 'count() panicked after %d adds (b=%d)' % (n, b), None))
            continue
        cells[(b, n, mult)].append((int(res[0]) - n) / n)
    for (b, n, mult), errs in sorted(cells.items()):
        re_ = math.sqrt(3 * math.log(2) - 1) / math.sqrt(2 ** b)
        rms = math.sqrt(sum(e * e for e in errs) / len(errs))
        mean = sum(errs) / len(errs)
        tail = sum(1 for e in errs if abs(e) > 3 * re_) / len(errs)
        bump = 0.5 <= mult <= 2.0
        lim_rms = (3.0 if bump else 1.6) * re_ + 2.0 / n
        if rms > lim_rms or abs(mean) > (0.25 if bump else 0.12) * re_ + 4 * rms / math.sqrt(len(errs)) + 2.0 / n or tail > 0.15:
            sg.failures.append(('C03', 'b=%d n=%d over %d seeds: rms=%.4f mean=%.4f tail(3x)=%.2f, relative_error()=%.4f' % (b, n, len(errs), rms, mean, tail, re_),
                                gen.case('acc_b%d_n%d' % (b, n), 'hll', {'hasher': 'sip'}, ['new 0 %d' % b, 'fill 0 %d <seed>' % n, 'count 0'])))
    sg.wall = time.time() - t0
    return [sg]

# ------------------------------------------------------------------ C08: (eps, delta) measurement incl. the known finding KF1
def measure_cases(binary, tag, lines, case_ms=120000):
    path = os.path.join(build.BUILD, '%s_meas.cases' % tag)
    gen.write_cases(path, [gen.case('meas', 'sizing', {}, lines)])
    tcs = corr.parse_transcript(corr.run_harness(binary, path, timeout=1200, case_ms=case_ms))
    return tcs[0] if tcs else None

def c08_measure_stage(prop, tier, seed, bins, tag):
    """failing fraction of (seed, probe) pairs whose overestimate exceeds eps*N, for the witness configuration of the
    known finding (double hashing: only w^2 position vectors, so a floor of about H/w^2 that no d removes) and for
    configurations where that floor is far below delta"""
    import math
    t0 = time.time()
    sg = Stage('measurement:cms-eps-delta')
    if tier == 'search':
        return [sg]
    seeds, probes = (60, 2000) if tier == 'quick' else (400, 4000)
    base = 1 + (seed % 1000) * 1000
    cfgs = [(0.01, 1e-4, 95), (0.05, 0.05, 10), (0.1, 0.1, 5), (0.02, 0.2, 20), (0.3, 0.5, 2)]
    lines = ['cmsfail %d %d %d %d %d %d' % (gen.f64bits(e), gen.f64bits(d), h, seeds, probes, base) for e, d, h in cfgs]
    tc = measure_cases(bins.get('release') or bins['debug'], tag, lines)
    if tc is None:
        sg.errors.append('measurement run failed'); return [sg]
    sg.cases = len(cfgs)
    for (eps, delta, heavy), (op, res, w_) in zip(cfgs, tc.ops):
        if res in (['panic'], ['skipped']):
            sg.failures.append(('C08', 'measurement panicked for eps=%g delta=%g' % (eps, delta), None)); continue
        fails, pairs, w, d = map(int, res)
        frac = fails / pairs
        floor = heavy / (w * w)
        sigma = math.sqrt(max(delta + floor, 1e-9) / pairs)
        sg.dist['eps=%g delta=%g H=%d: w=%d d=%d failing=%.2e floor H/w^2=%.2e' % (eps, delta, heavy, w, d, frac, floor)] = fails
        sg.nontrivial.add('%g-%g' % (eps, delta))
        case_lines = gen.case('c08_eps%g_delta%g' % (eps, delta), 'sizing', {}, ['cmsfail %d %d %d %d %d %d' % (gen.f64bits(eps), gen.f64bits(delta), heavy, seeds, probes, base)])
        if frac > delta + floor + 6 * sigma + 3 * floor:
            sg.failures.append(('C08', 'eps=%g delta=%g (w=%d, d=%d), %d heavy hitters: overestimate > eps*N for %.3e of %d (seed, element) pairs; delta + double-hashing floor = %.3e' % (
                eps, delta, w, d, heavy, frac, pairs, delta + floor), case_lines))
        elif frac > delta:
            sg.failures.append(('C08', 'kf=double-hashing-floor eps=%g delta=%g (w=%d, d=%d), %d heavy hitters just above eps*N: overestimate > eps*N for %.2e of %d (seed, element) pairs > delta; predicted floor H/w^2 = %.2e (two keys with equal (h1, h2) mod w collide in every row)' % (
                eps, delta, w, d, heavy, frac, pairs, floor), case_lines))
    sg.samples.append({'measurement': dict(sg.dist)})
    sg.rule = 'one measurement per (eps, delta, heavy hitters) configuration over seeded hashers x never-inserted probe keys; every configuration is non-trivial'
    sg.wall = time.time() - t0
    return [sg]

def c07_rates_stage(prop, tier, seed, bins, tag):
    """failing-input search for the statistical sentences of C07 (runs only after a break): false-positive frequency over
    seeded hashers x disjoint probes against p (cuckoo) / 1.3 p (Bloom, n >= 50), Full within n inserts, len() accuracy"""
    import math
    sg = Stage('statistical-rates:filters')
    if tier != 'search':
        return [sg]
    t0 = time.time()
    base = 1 + (seed % 1000) * 1000
    cfgs = [(k, n, p_) for k in ('bloom', 'cuckoo4', 'cuckoo8') for n in (50, 1000, 5000) for p_ in (0.3, 0.05, 0.01, 0.001)]
    lines = ['fprate %s %d %d %d %d %d' % (k, n, gen.f64bits(p_), 30, 4000, base) for k, n, p_ in cfgs]
    tc = measure_cases(bins.get('release') or bins['debug'], tag, lines)
    if tc is None:
        sg.errors.append('measurement run failed'); return [sg]
    sg.cases = len(cfgs)
    for (k, n, p_), (op, res, w_) in zip(cfgs, tc.ops):
        case_lines = gen.case('c07_%s_%d_%g' % (k, n, p_), 'sizing', {}, ['fprate %s %d %d 30 4000 %d' % (k, n, gen.f64bits(p_), base)])
        if res in (['panic'], ['skipped']):
            sg.failures.append(('C07', '%s with_properties(n=%d, p=%g): panic while inserting n elements / probing' % (k, n, p_), case_lines)); continue
        fp, pairs, full, lenerr = map(int, res)
        lim = (1.3 if k == 'bloom' else 1.0) * p_
        frac = fp / pairs
        if frac > lim + 6 * math.sqrt(lim / pairs):
            sg.failures.append(('C07', '%s with_properties(n=%d, p=%g): false-positive frequency %.4g over %d (seed, probe) pairs exceeds %.4g' % (k, n, p_, frac, pairs, lim), case_lines))
        if full:
            sg.failures.append(('C07', '%s with_properties(n=%d, p=%g): reported Full within n distinct inserts for %d of 30 seeds' % (k, n, p_, full), case_lines))
        if k == 'bloom' and n >= 1000 and lenerr > 150:
            sg.failures.append(('C07', 'bloom len() off by %.1f%% after %d distinct inserts (p=%g)' % (lenerr / 10.0, n, p_), case_lines))
    sg.wall = time.time() - t0
    return [sg]


def td_long_search_stage(prop, tier, seed, bins, tag):
    """the size sentence of C04 on very long unit-weight streams (3e5 values, every scale function: the centroid count of
    K2/K3 depends on ln n), oracle only (no model replay: the compact `insseq` op is not part of the model's alphabet)"""
    sg = Stage('long-streams:td')
    t0 = time.time()
    rng = random.Random(seed)
    cases = []
    for K in ('K0', 'K1', 'K2', 'K3'):
        for delta in (20.0, 100.0):
            L = ['new 0 %s %d 1000' % (K, gen.f64bits(delta))]
            kind, sd = rng.choice([0, 1]), rng.randrange(1 << 32)
            for cnt in (1000, 29000, 70000, 200000):
                L += ['insseq 0 %d %d %d' % (cnt, kind, sd), 'audit 0', 'ncent 0']
            cases.append(gen.case('long_%s_%g' % (K, delta), 'td', {'freshpass': 0, 'iso': 0, 'rank': 0}, L))
    path = os.path.join(build.BUILD, '%s_tdlong.cases' % tag)
    gen.write_cases(path, cases)
    src = {c[0].split()[1]: c for c in cases}
    try:
        tcs = corr.parse_transcript(corr.run_harness(bins.get('release') or bins['debug'], path, case_ms=120000))
    except Exception as e:
        sg.errors.append('harness run failed: %s' % e)
        return [sg]
    sg.cases = len(tcs)
    for tc in tcs:
        for p_, msg in tc.x:
            c = src[tc.id]
            sg.failures.append((p_, msg, c))
    sg.wall = time.time() - t0
    return [sg]
