# property -> list of (theorem name in Props/Cxx.v, proved lemma, what it says)
PRE = 'From Coq Require Import NArith ZArith QArith List Permutation.\nImport ListNotations.\n'
HEADER = {
 'C02': PRE + 'From PDS Require Import Proofs.CmsProofs.\nOpen Scope N_scope.',
 'C17': PRE + 'From PDS Require Import Proofs.HllProofs.\nOpen Scope N_scope.',
 'C09': PRE + 'From PDS Require Import Proofs.LossyProofs.\nOpen Scope N_scope.',
}
TABLE = {
 'C02': [
  ('C02_query_total', 'cms_query_total', 'query_point never panics on a reachable sketch with w,d >= 1'),
  ('C02_lower', 'cms_lower', 'query_point(x) >= true weight of x since the last clear; any hasher, any history with add_n/merge/clear'),
  ('C02_upper', 'cms_upper', 'query_point(x) <= total weight since the last clear'),
  ('C02_add_returns_query', 'cms_add_returns_query', 'the value returned by add_n equals query_point immediately afterwards'),
  ('C02_single_exact', 'cms_single_exact', 'a stream with a single distinct element is counted exactly'),
  ('C02_table_spec', 'cms_table_spec', 'the table is the overflow-free reference table of the flattened stream (any counter bound)'),
 ],
 'C17': [
  ('C17_index', 'hll_index_mod', 'register index = low b bits'),
  ('C17_rank', 'hll_rank_spec', 'rank = 64-b+1 if the upper bits are zero, else 1-based position of the first set bit from the top'),
  ('C17_rank_first_set_bit', 'hll_rank_first_set_bit', 'the rank brackets the upper bits between two powers of two'),
  ('C17_run_total', 'hll_run_total', 'adds never panic for 4<=b<=18'),
  ('C17_registers_spec', 'hll_registers_spec', 'register j = max rank over added hashes addressing j'),
  ('C17_perm', 'hll_perm', 'any permutation of the adds gives the identical state'),
  ('C17_set', 'hll_set', 'the state depends only on the set of distinct hashes'),
  ('C17_add_is_add_hashed', 'hll_add_is_add_hashed', 'add(x) = add_hashed(hash_one(x))'),
  ('C17_reconstruct', 'hll_reconstruct', 'with_registers_and_hash(b, registers) reconstructs an equal sketch'),
 ],
 'C09': [
  ('C09_n', 'lossy_n', 'n() = number of add calls'),
  ('C09_add_returns_new', 'lossy_add_returns_new', 'add returns true exactly when the element was not tracked'),
  ('C09_tracked_bounds', 'lossy_tracked_bounds', 'tracked: f <= true <= f + delta, delta <= bucket-1'),
  ('C09_untracked_bound', 'lossy_untracked_bound', 'untracked: true <= n/width'),
  ('C09_complete', 'lossy_complete', 'every element with true >= s*n and > eps*n is reported'),
  ('C09_sound', 'lossy_sound', 'no reported element has true < (s-eps)*n'),
  ('C09_size', 'lossy_size_plus1', 'tracked entries <= width*(H(ceil(n/width))+1)'),
 ],
}
