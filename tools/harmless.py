#!/usr/bin/env python3
"""Run the checks against a behaviour-preserving refactoring: usage harmless.py <id> <patch.diff> <prop> [<prop>..]
Every check must stay quiet (exit 0). Stores the patch and the outcome under /verif/seeded/harmless/<id>/."""
import sys, os, subprocess, json, shutil, time
def sh(cmd, cwd=None, timeout=3600):
    r = subprocess.run(cmd, shell=True, cwd=cwd, capture_output=True, text=True, timeout=timeout, env=dict(os.environ, CARGO_NET_OFFLINE='true'))
    return r.returncode, r.stdout + r.stderr
sid, patch, props = sys.argv[1], sys.argv[2], sys.argv[3:]
rc, o = sh('git -C /repo status --porcelain')
if o.strip():
    print('/repo is dirty'); sys.exit(2)
rc, o = sh('git -C /repo apply --check %s' % patch)
if rc != 0:
    print('patch does not apply', o[-300:]); sys.exit(2)
res = {}
try:
    sh('git -C /repo apply %s' % patch)
    rc, o = sh('cargo test --offline --lib 2>&1 | grep "test result"', cwd='/repo')
    suite = o.strip()
    for p in props:
        t0 = time.time()
        rc, o = sh('./check %s --tier quick' % p, cwd='/verif')
        lines = [l for l in o.splitlines() if l.startswith(('VIOLATION', 'OK'))]
        res[p] = {'exit': rc, 'output': lines[:3], 'wall_s': round(time.time() - t0, 1)}
        print(sid, p, rc, lines[:1])
finally:
    sh('git -C /repo checkout -- .')
out = os.path.join('/verif/seeded/harmless', sid)
os.makedirs(out, exist_ok=True)
shutil.copy(patch, os.path.join(out, 'patch.diff'))
notes = os.path.join(os.path.dirname(patch), 'notes.md')
if os.path.exists(notes):
    shutil.copy(notes, os.path.join(out, 'notes.md'))
json.dump({'id': sid, 'kind': 'behaviour-preserving refactoring', 'suite_with_patch': suite, 'checks': res,
           'alarms': [p for p, r in res.items() if r['exit'] != 0]}, open(os.path.join(out, 'meta.json'), 'w'), indent=1)
