"""Translator (data only): src/hyperloglog/data.rs and the numeric constants of count()/am() in
src/hyperloglog/mod.rs -> coq/theories/Gen/HllData.v. Every decimal literal becomes an exact decimal
(sign, digits, exponent): value = (-1)^sign * digits / 10^exponent. Run on every check; the table
theorems (Proofs/HllTables.v) are re-checked by the kernel whenever the source data changes."""
import re

def strip_comments(src):
    src = re.sub(r'//[^\n]*', '', src)
    return re.sub(r'/\*.*?\*/', '', src, flags=re.S)

def dec(lit):
    """'12.5' / '10.' / '-0.25' / '7' -> (neg, digits, exp10)"""
    lit = lit.strip().replace('_', '')
    neg = lit.startswith('-')
    if neg:
        lit = lit[1:]
    if 'e' in lit.lower():
        raise ValueError('exponent literal not supported: ' + lit)
    if '.' in lit:
        a, b = lit.split('.')
    else:
        a, b = lit, ''
    digits = int((a + b) or '0')
    return (neg, digits, len(b))

def coq_dec(t):
    neg, d, e = t
    return '(%s, %d, %d)' % ('true' if neg else 'false', d, e)

def parse_rows(body):
    """body of `&[ &[..], &[..] ]` -> list of list of literals"""
    rows = []
    for m in re.finditer(r'&\s*\[(.*?)\]', body, re.S):
        lits = [x for x in re.split(r'[,\s]+', m.group(1)) if x]
        rows.append(lits)
    return rows

def const_body(src, name):
    m = re.search(r'const\s+%s\s*:[^=]*=\s*(&?\s*\[)' % name, src)
    if not m:
        raise ValueError('constant %s not found' % name)
    i = m.end()
    depth, j = 1, i
    while depth:
        c = src[j]
        if c == '[': depth += 1
        elif c == ']': depth -= 1
        j += 1
    return src[i:j - 1]

def generate(data_rs, mod_rs):
    src = strip_comments(open(data_rs).read())
    out = ['(* Gen/HllData.v - GENERATED on every run by tools/hlldata.py from src/hyperloglog/data.rs. Do not edit. *)',
           'From Coq Require Import NArith List. Import ListNotations. Open Scope N_scope.',
           '(* a decimal literal: (negative?, digits, decimal exponent) = (-1)^neg * digits / 10^exponent *)',
           'Definition dlit := (bool * N * N)%type.']
    offs = {}
    for nm in ('THRESHOLD_DATA_OFFSET', 'RAW_ESTIMATE_DATA_OFFSET', 'BIAS_DATA_OFFSET'):
        m = re.search(r'const\s+%s\s*:\s*usize\s*=\s*(\d+)' % nm, src)
        offs[nm] = int(m.group(1))
        out.append('Definition %s : N := %d.' % (nm.lower(), offs[nm]))
    th = [x for x in re.split(r'[,\s]+', const_body(src, 'THRESHOLD_DATA_VEC')) if x]
    out.append('Definition threshold_data : list N := [%s].' % '; '.join(str(int(x.replace('_', ''))) for x in th))
    for nm, coqn in (('RAW_ESTIMATE_DATA_VEC', 'raw_estimate_data'), ('BIAS_DATA_VEC', 'bias_data')):
        rows = parse_rows(const_body(src, nm))
        out.append('Definition %s : list (list dlit) := [' % coqn)
        out.append(';\n'.join('  [' + '; '.join(coq_dec(dec(x)) for x in r) + ']' for r in rows))
        out.append('].')
    p2 = [x for x in re.split(r'[,\s]+', const_body(src, 'POW2MINX')) if x]
    out.append('Definition pow2minx_data : list dlit := [')
    out.append(';\n'.join('  ' + coq_dec(dec(x)) for x in p2))
    out.append('].')
    # numeric constants of the estimator in mod.rs (am(), count(), estimate_bias())
    msrc = strip_comments(open(mod_rs).read())
    def grab(pattern, what):
        m = re.search(pattern, msrc, re.S)
        if not m:
            raise ValueError('cannot find %s in mod.rs' % what)
        return m.groups()
    am = grab(r'fn am\(&self\).*?if m >= (\d+) \{\s*([\d.]+) / \(1\. \+ ([\d.]+) / \(m as f64\)\)\s*\} else if m >= (\d+) \{\s*([\d.]+)\s*\} else if m >= (\d+) \{\s*([\d.]+)\s*\} else \{\s*([\d.]+)\s*\}', 'am()')
    out.append('(* am(): if m >= %s then %s/(1+%s/m) else if m >= %s then %s else if m >= %s then %s else %s *)' % am)
    out.append('Definition am_cut1 : N := %s. Definition am_c1 : dlit := %s. Definition am_c2 : dlit := %s.' % (am[0], coq_dec(dec(am[1])), coq_dec(dec(am[2]))))
    out.append('Definition am_cut2 : N := %s. Definition am_c3 : dlit := %s.' % (am[3], coq_dec(dec(am[4]))))
    out.append('Definition am_cut3 : N := %s. Definition am_c4 : dlit := %s. Definition am_c5 : dlit := %s.' % (am[5], coq_dec(dec(am[6])), coq_dec(dec(am[7]))))
    (k,) = grab(r'const K: usize = (\d+);', 'K')
    out.append('Definition bias_k : N := %s.' % k)
    (five,) = grab(r'if e <= \(([\d.]+) \* m\)', 'the 5m switch')
    out.append('Definition small_range_factor : dlit := %s.' % coq_dec(dec(five)))
    return [('HllData.v', '\n'.join(out) + '\n')]

if __name__ == '__main__':
    for p, t in generate('/repo/src/hyperloglog/data.rs', '/repo/src/hyperloglog/mod.rs'):
        print(p, len(t))
