"""Translator (data only): src/hyperloglog/data.rs -> coq/theories/Gen/HllData.v. Filled in with C03."""
def generate(data_rs, mod_rs):
    return []
