"""Translator (data only): src/hyperloglog/data.rs -> coq/theories/Gen/HllData.v. Every decimal literal becomes an exact decimal
(sign, digits, exponent): value = (-1)^sign * digits / 10^exponent. Run on every check; the table
theorems (Proofs/HllTables.v) are re-checked by the kernel whenever the source data changes."""
import re

def strip_comments(src):
    src = re.sub(r'//[^\n]*', '', src)
    return re.sub(r'/\*.*?\*/', '', src, flags=re.S)

def dec(lit):
    """'12.5' / '10.' / '-0.25' / '7' -> (neg, digits, exp10)"""
    lit = lit.strip().replace('_', '')
    neg = lit.startswith('-')
    if neg:
        lit = lit[1:]
    if 'e' in lit.lower():
        raise ValueError('exponent literal not supported: ' + lit)
    if '.' in lit:
        a, b = lit.split('.')
    else:
        a, b = lit, ''
    digits = int((a + b) or '0')
    return (neg, digits, len(b))

def coq_dec(t):
    neg, d, e = t
    return '(%s, %d, %d)' % ('true' if neg else 'false', d, e)

def parse_rows(body):
    """body of `&[ &[..], &[..] ]` -> list of list of literals"""
    rows = []
    for m in re.finditer(r'&\s*\[(.*?)\]', body, re.S):
        lits = [x for x in re.split(r'[,\s]+', m.group(1)) if x]
        rows.append(lits)
    return rows

def const_body(src, name):
    m = re.search(r'const\s+%s\s*:[^=]*=\s*(&?\s*\[)' % name, src)
    if not m:
        raise ValueError('constant %s not found' % name)
    i = m.end()
    depth, j = 1, i
    while depth:
        c = src[j]
        if c == '[': depth += 1
        elif c == ']': depth -= 1
        j += 1
    return src[i:j - 1]

def generate(data_rs, mod_rs):
    src = strip_comments(open(data_rs).read())
    out = ['(* Gen/HllData.v - GENERATED on every run by tools/hlldata.py from src/hyperloglog/data.rs. Do not edit. *)',
           'From Coq Require Import NArith List. Import ListNotations. Open Scope N_scope.',
           '(* a decimal literal: (negative?, digits, decimal exponent) = (-1)^neg * digits / 10^exponent *)',
           'Definition dlit := (bool * N * N)%type.']
    offs = {}
    for nm in ('THRESHOLD_DATA_OFFSET', 'RAW_ESTIMATE_DATA_OFFSET', 'BIAS_DATA_OFFSET'):
        m = re.search(r'const\s+%s\s*:\s*usize\s*=\s*(\d+)' % nm, src)
        offs[nm] = int(m.group(1))
        out.append('Definition %s : N := %d.' % (nm.lower(), offs[nm]))
    th = [x for x in re.split(r'[,\s]+', const_body(src, 'THRESHOLD_DATA_VEC')) if x]
    out.append('Definition threshold_data : list N := [%s].' % '; '.join(str(int(x.replace('_', ''))) for x in th))
    for nm, coqn in (('RAW_ESTIMATE_DATA_VEC', 'raw_estimate_data'), ('BIAS_DATA_VEC', 'bias_data')):
        rows = parse_rows(const_body(src, nm))
        out.append('Definition %s : list (list dlit) := [' % coqn)
        out.append(';\n'.join('  [' + '; '.join(coq_dec(dec(x)) for x in r) + ']' for r in rows))
        out.append('].')
    p2 = [x for x in re.split(r'[,\s]+', const_body(src, 'POW2MINX')) if x]
    out.append('Definition pow2minx_data : list dlit := [')
    out.append(';\n'.join('  ' + coq_dec(dec(x)) for x in p2))
    out.append('].')
    # numeric constants of the estimator code (am(), K, the 5m switch). They are CODE, not table data: like every other
    # constant of the crate's code they are part of the hand-written model (validated by the correspondence: count()
    # must agree bit for bit), so they are written here literally and not parsed out of mod.rs - a harmless rewrite of
    # am() must not break the translator.
    out.append('(* am(): if m >= 128 then 0.7213/(1+1.079/m) else if m >= 64 then 0.709 else if m >= 32 then 0.697 else 0.673 *)')
    out.append('Definition am_cut1 : N := 128. Definition am_c1 : dlit := (false, 7213, 4). Definition am_c2 : dlit := (false, 1079, 3).')
    out.append('Definition am_cut2 : N := 64. Definition am_c3 : dlit := (false, 709, 3).')
    out.append('Definition am_cut3 : N := 32. Definition am_c4 : dlit := (false, 697, 3). Definition am_c5 : dlit := (false, 673, 3).')
    out.append('Definition bias_k : N := 6.')
    out.append('Definition small_range_factor : dlit := (false, 5, 0).')
    return [('HllData.v', '\n'.join(out) + '\n')]

if __name__ == '__main__':
    for p, t in generate('/repo/src/hyperloglog/data.rs', '/repo/src/hyperloglog/mod.rs'):
        print(p, len(t))
