#!/usr/bin/env python3
"""Confirm a seeded change and run the checks against it.
usage: seeded.py <property> <worktree> <mutation dir> <seed id> [other properties to run too]
 1. in the scratch worktree: patch applies, full test suite passes with it, the demonstration fails with it
    and passes without it;
 2. apply the patch to /repo, run ./check <property> (quick), undo it straight afterwards;
 3. store patch.diff, demo.rs, notes.md and meta.json under /verif/seeded/<seed id>/."""
import sys, os, subprocess, json, shutil, time

def sh(cmd, cwd=None, timeout=3600):
    env = dict(os.environ, CARGO_NET_OFFLINE='true')
    r = subprocess.run(cmd, shell=True, cwd=cwd, capture_output=True, text=True, timeout=timeout, env=env)
    return r.returncode, r.stdout + r.stderr

def main():
    prop, wt, mdir, sid = sys.argv[1:5]
    others = sys.argv[5:]
    patch = os.path.join(mdir, 'patch.diff')
    demo = os.path.join(mdir, 'demo.rs')
    meta = {'property': prop, 'seed_id': sid, 'ran': []}
    sh('git checkout -- . && rm -f tests/demo_seed.rs', cwd=wt)
    rc, o = sh('git apply --check %s' % patch, cwd=wt)
    if rc != 0:
        print('patch does not apply:', o[-500:]); return 1
    shutil.copy(demo, os.path.join(wt, 'tests', 'demo_seed.rs')) if os.path.isdir(os.path.join(wt, 'tests')) else (os.makedirs(os.path.join(wt, 'tests')), shutil.copy(demo, os.path.join(wt, 'tests', 'demo_seed.rs')))
    rc, o = sh('cargo test --offline --test demo_seed 2>&1 | tail -5', cwd=wt)
    base_ok = 'test result: ok' in o
    meta['ran'].append('unchanged tree: cargo test --offline --test demo_seed -> %s' % ('pass' if base_ok else 'FAIL'))
    sh('git apply %s' % patch, cwd=wt)
    rc, o = sh('cargo test --offline --test demo_seed 2>&1 | tail -8', cwd=wt)
    demo_fails = 'FAILED' in o or 'failed' in o
    meta['ran'].append('with patch: cargo test --offline --test demo_seed -> %s' % ('fails (as intended)' if demo_fails else 'PASSES'))
    os.remove(os.path.join(wt, 'tests', 'demo_seed.rs'))
    rc, o = sh('cargo test --offline --lib 2>&1 | grep "test result"', cwd=wt)
    suite_ok = '213 passed; 0 failed' in o
    meta['ran'].append('with patch: cargo test --offline --lib -> %s' % o.strip())
    sh('git checkout -- . ', cwd=wt)
    meta['confirmed'] = bool(base_ok and demo_fails and suite_ok)
    print('confirmed' if meta['confirmed'] else 'NOT CONFIRMED', meta['ran'])
    if not meta['confirmed']:
        return 1
    # run the checks against it
    results = {}
    rc, o = sh('git -C /repo status --porcelain')
    if o.strip():
        print('/repo is dirty, refusing'); return 2
    try:
        sh('git -C /repo apply %s' % patch)
        for p in [prop] + others:
            t0 = time.time()
            rc, o = sh('./check %s --tier quick' % p, cwd='/verif', timeout=3600)
            lines = [l for l in o.splitlines() if l.startswith(('VIOLATION', 'OK', 'KNOWN'))]
            results[p] = {'exit': rc, 'output': lines[:4], 'wall_s': round(time.time() - t0, 1)}
            print(p, rc, lines[:3])
            # keep one replay as illustration, drop the rest
    finally:
        sh('git -C /repo checkout -- .')
    meta['checks'] = results
    meta['caught_by'] = [p for p, r in results.items() if r['exit'] == 1]
    out = os.path.join('/verif/seeded', sid)
    os.makedirs(out, exist_ok=True)
    shutil.copy(patch, os.path.join(out, 'patch.diff'))
    shutil.copy(demo, os.path.join(out, 'demo.rs'))
    if os.path.exists(os.path.join(mdir, 'notes.md')):
        shutil.copy(os.path.join(mdir, 'notes.md'), os.path.join(out, 'notes.md'))
        meta['needs'] = open(os.path.join(mdir, 'notes.md')).read()[:1500]
    json.dump(meta, open(os.path.join(out, 'meta.json'), 'w'), indent=1)
    return 0

sys.exit(main())
