#!/bin/bash
# MANIFEST.setup_cmd: build everything from files on disk, offline.
set -e
cd "$(dirname "$0")"
export CARGO_NET_OFFLINE=true
mkdir -p build evidence replays
python3 - <<'PY'
import sys, os
sys.path.insert(0, 'tools')
import build
build.regenerate()
ok, log, _ = build.coq_make([], jobs=16)
print(log[-2000:] if not ok else 'coq: built')
if not ok: sys.exit(1)
ok, log, _ = build.build_modeldrv()
print('modeldrv:', 'ok' if ok else log[-2000:])
if not ok: sys.exit(1)
for p in ('debug', 'release'):
    b, log = build.build_harness(p)
    print('harness', p, b or log[-2000:])
    if b is None: sys.exit(1)
PY
