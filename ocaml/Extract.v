(* Extract/Extract.v — extraction of the executable models (Exec layer) to OCaml for the
   correspondence check. ExtrOcamlBasic only: bool, option, unit, list, prod, sumbool, sumor map to
   OCaml's own; nat, positive, N, Z, Q stay Coq's inductive types. No Extract Constant of our own. *)
From Coq Require Import ExtrOcamlBasic.
From PDS Require Import Exec.ExBloom Exec.ExCms Exec.ExHll Exec.ExCuckoo Exec.ExQuotient Exec.ExReservoir Exec.ExLossy Exec.ExCmsHeap Exec.ExTDigest Exec.ExHllCount Exec.ExHllSerde Exec.ExSizing Exec.ExMemory Exec.ExSetSpec Exec.ExScale.
Extraction "model.ml" bloom_case cms_case hll_case ck_case qf_case res_case lossy_case heap_case tdx_case hllc_case hser_case sizing_case mem_case hs_case scale_case scale_lim.
