(* driver.ml — replays implementation transcripts (numeric form written by tools/corr.py) on the
   extracted Gallina models (model.ml, extracted from coq/theories/Exec by ExtrOcamlBasic only).
   Input, one case after another:
     C <struct> <u> <mx>          H <ivcode> <valcode> <finish>
     O <opcode> <nargs> a.. <nrnd> w.. (P | S <n> v..)      E
   Output per case: "K" (model and implementation agree on every op) or
     "F <op index> N" (model panics) / "F <op index> S v.." (model result). *)
open Model

let rec pos_of_int64 (x : int64) : positive =
  if Int64.equal x 1L then XH
  else
    let r = pos_of_int64 (Int64.shift_right_logical x 1) in
    if Int64.equal (Int64.logand x 1L) 1L then XI r else XO r

let n_of_small (s : string) : n =
  let x = Int64.of_string ("0u" ^ s) in
  if Int64.equal x 0L then N0 else Npos (pos_of_int64 x)
(* decimals of any length (a logged value + 1 can be 2^64): split into 18-digit limbs *)
let rec n_of_string (s : string) : n =
  let l = String.length s in
  if l <= 18 then n_of_small s
  else N.add (N.mul (n_of_string (String.sub s 0 (l - 18))) (n_of_small "1000000000000000000")) (n_of_small (String.sub s (l - 18) 18))

(* decimal printing of arbitrary-size N through a little-endian digit list *)
let rec pos_bits (p : positive) : bool list = match p with XH -> [true] | XO r -> false :: pos_bits r | XI r -> true :: pos_bits r
let string_of_n (x : n) : string =
  match x with
  | N0 -> "0"
  | Npos p ->
    let bits = List.rev (pos_bits p) in   (* most significant first *)
    let digits = ref [0] in               (* little-endian decimal *)
    List.iter (fun b ->
        let carry = ref (if b then 1 else 0) in
        digits := List.map (fun d -> let v = 2 * d + !carry in carry := v / 10; v mod 10) !digits;
        if !carry > 0 then digits := !digits @ [!carry]) bits;
    String.concat "" (List.rev_map string_of_int !digits)

(* ---- native binary64 instance of the model's arithmetic record (t-digest, HLL count) ---- *)
let rec int64_of_pos (p : positive) : int64 = match p with
  | XH -> 1L | XO r -> Int64.shift_left (int64_of_pos r) 1 | XI r -> Int64.logor (Int64.shift_left (int64_of_pos r) 1) 1L
let int64_of_n (x : n) : int64 = match x with N0 -> 0L | Npos p -> int64_of_pos p
let n_of_int64 (x : int64) : n = if Int64.equal x 0L then N0 else Npos (pos_of_int64 x)
let fl (x : Obj.t) : float = Obj.obj x
let float_of_bits_n (x : n) : Obj.t = Obj.repr (Int64.float_of_bits (int64_of_n x))
(* canonical bit pattern: one NaN, +0 for -0 (the harness prints floats the same way) *)
let bits_n_of_float (x : Obj.t) : n =
  let f = fl x in
  if f <> f then n_of_int64 0x7ff8000000000000L else if f = 0.0 then N0 else n_of_int64 (Int64.bits_of_float f)
let farith : arith = {
  azero = Obj.repr 0.0; aone = Obj.repr 1.0; ahalf = Obj.repr 0.5;
  aadd = (fun a b -> Obj.repr (fl a +. fl b)); asub = (fun a b -> Obj.repr (fl a -. fl b));
  amul = (fun a b -> Obj.repr (fl a *. fl b)); adiv = (fun a b -> Obj.repr (fl a /. fl b));
  aleb = (fun a b -> fl a <= fl b); altb = (fun a b -> fl a < fl b); anan = Obj.repr nan }
let limtbl : (int64 * int64, float) Hashtbl.t = Hashtbl.create 64
let lim_missing = ref 0
let flim (k : n) (q0 : Obj.t) : Obj.t =
  let key = (int64_of_n k, int64_of_n (bits_n_of_float q0)) in
  match Hashtbl.find_opt limtbl key with
  | Some v -> Obj.repr v
  | None -> incr lim_missing; Obj.repr nan

(* usize as f64 (exact below 2^53; round-to-nearest above, as the cast does) *)
let float_of_n (x : n) : Obj.t =
  let rec go (p : positive) : float = match p with XH -> 1.0 | XO r -> 2.0 *. go r | XI r -> 2.0 *. go r +. 1.0 in
  Obj.repr (match x with N0 -> 0.0 | Npos p -> go p)
let fln (x : Obj.t) : Obj.t = Obj.repr (log (fl x))
(* f64 as usize: truncation toward zero, NaN and negatives give 0, saturating at 2^64-1 *)
let ftrunc (x : Obj.t) : n =
  let f = fl x in
  if f <> f || f <= 0.0 then N0
  else if f >= 18446744073709551616.0 then n_of_int64 (-1L)
  else if f >= 9223372036854775808.0 then n_of_int64 (Int64.add (Int64.of_float (f -. 9223372036854775808.0)) Int64.min_int)
  else n_of_int64 (Int64.of_float f)

let take_n toks k = (* returns (first k tokens as N list, rest) *)
  let rec go k acc l = if k = 0 then (List.rev acc, l) else match l with x :: r -> go (k - 1) (n_of_string x :: acc) r | [] -> failwith "short line" in
  go k [] toks

let parse_op toks =
  match toks with
  | oc :: na :: rest ->
    let (args, rest) = take_n rest (int_of_string na) in
    (match rest with
     | nr :: rest ->
       let (rnd, rest) = take_n rest (int_of_string nr) in
       let exp = (match rest with
           | ["P"] -> None
           | "S" :: n :: vs -> let (v, _) = take_n vs (int_of_string n) in Some v
           | _ -> failwith "bad expectation") in
       { oc = n_of_string oc; oargs = args; ornd = rnd; oexp = exp }
     | [] -> failwith "bad op line")
  | _ -> failwith "bad op line"

let () =
  let ic = if Array.length Sys.argv > 1 then open_in Sys.argv.(1) else stdin in
  let st = ref "" and u = ref N0 and mx = ref N0 and hl = ref [] and ops = ref [] in
  (try
     while true do
       let line = input_line ic in
       match String.split_on_char ' ' line with
       | ["C"; s; uu; m] -> st := s; u := n_of_string uu; mx := n_of_string m; hl := []; ops := [];
         Hashtbl.reset limtbl; lim_missing := 0
       | ["L"; k; q0; l] ->
         Hashtbl.replace limtbl (Int64.of_string ("0u" ^ k), Int64.of_string ("0u" ^ q0)) (Int64.float_of_bits (Int64.of_string ("0u" ^ l)))
       | ["H"; a; b; f] -> hl := ((n_of_string a, n_of_string b), n_of_string f) :: !hl
       | "O" :: toks -> ops := parse_op toks :: !ops
       | ["E"] ->
         let h = List.rev !hl and o = List.rev !ops in
         let r = (match !st with
             | "bloom" -> bloom_case farith float_of_n fln ftrunc ((h, !u), o)
             | "cms" -> cms_case (((h, !u), !mx), o)
             | "hll" -> hll_case (h, o)
             | "cuckoo" -> ck_case ((h, !u), o)
             | "qf" -> qf_case ((h, !u), o)
             | "res" -> res_case o
             | "lossy" -> lossy_case o
             | "heap" -> heap_case (h, o)
             | "td" ->
               (* the merge limit is computed by the model itself (Model/Scale.v): kind in the u field, delta bits in mx *)
               let lim = scale_lim farith float_of_n (fun x -> Obj.repr (asin (fl x))) (fun x -> Obj.repr (sin (fl x))) fln
                   (fun x -> Obj.repr (exp (fl x))) (Obj.repr (Int64.float_of_bits 0x400921FB54442D18L))
                   (fun x -> let f = fl x in f = infinity || f = neg_infinity) !u (float_of_bits_n !mx) in
               tdx_case farith float_of_bits_n bits_n_of_float lim o
             | "hllc" -> hllc_case farith float_of_n fln ftrunc o
             | "hser" -> hser_case o
             | "mem" -> mem_case o
             | "scale" -> scale_case farith float_of_n (fun x -> Obj.repr (asin (fl x))) (fun x -> Obj.repr (sin (fl x))) fln
                            (fun x -> Obj.repr (exp (fl x))) (Obj.repr (Int64.float_of_bits 0x400921FB54442D18L))
                            (fun x -> let f = fl x in f = infinity || f = neg_infinity) float_of_bits_n bits_n_of_float o
             | "hset" -> hs_case (!u, o)
             | "sizing" -> sizing_case farith float_of_n fln (fun x -> Obj.repr (Float.log2 (fl x))) (fun x -> Obj.repr (Float.ceil (fl x)))
                             ftrunc (Obj.repr (Int64.float_of_bits 0x4005BF0A8B145769L)) float_of_bits_n o
             | s -> failwith ("unknown structure " ^ s)) in
         (match r with
          | None when !lim_missing > 0 -> Printf.printf "F 0 S 888 %d\n" !lim_missing
          | None -> print_string "K\n"
          | Some (i, None) -> Printf.printf "F %s N\n" (string_of_n i)
          | Some (i, Some l) -> Printf.printf "F %s S %s\n" (string_of_n i) (String.concat " " (List.map string_of_n l)))
       | [""] -> ()
       | _ -> failwith ("bad line: " ^ line)
     done
   with End_of_file -> ());
  flush stdout
