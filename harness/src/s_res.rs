//! ReservoirSampling driver. ops: new i k | add i x | clear i | clone i j | obs i
//! Items are u64; the harness feeds stream positions (or arbitrary tags) and checks C18 directly.
use crate::rec::ScriptRng;
use crate::{p, Ctx, Driver};
use pdatastructs::reservoirsampling::ReservoirSampling;

#[derive(Clone)]
struct Inst {
    f: ReservoirSampling<u64, ScriptRng>,
    ctor: Vec<String>,
    stream: Vec<u64>, // items added since creation / clear
}

#[derive(Default)]
pub struct D {
    v: Vec<Option<Inst>>,
}

fn put<T>(v: &mut Vec<Option<T>>, i: usize, x: T) {
    while v.len() <= i {
        v.push(None);
    }
    v[i] = Some(x);
}

fn obs(f: &ReservoirSampling<u64, ScriptRng>) -> Vec<String> {
    let mut r: Vec<String> = f.reservoir().iter().map(|x| x.to_string()).collect();
    r.push(f.i().to_string());
    r.push((f.is_empty() as u8).to_string());
    r
}

impl D {
    fn check(&mut self, ctx: &mut Ctx, i: usize) {
        let inst = self.v[i].as_ref().unwrap();
        let n = inst.stream.len();
        let k = inst.f.k();
        let r = inst.f.reservoir();
        if r.len() != n.min(k) {
            ctx.fail("C18", format!("reservoir holds {} items after {} adds (k={})", r.len(), n, k));
        }
        if inst.f.i() != n {
            ctx.fail("C18", format!("i()={} after {} adds", inst.f.i(), n));
        }
        if inst.f.is_empty() != (n == 0) {
            ctx.fail("C18", format!("is_empty()={} after {} adds", inst.f.is_empty(), n));
        }
        if n <= k && r[..] != inst.stream[..] {
            ctx.fail("C18", format!("reservoir is not the stream prefix after {} adds (k={})", n, k));
        }
        // items are distinct tags in the generated streams: every item must come from the stream, none twice
        let mut seen = std::collections::HashSet::new();
        for x in r {
            if !inst.stream.contains(x) {
                ctx.fail("C18", format!("reservoir item {} was never added", x));
            }
            if !seen.insert(*x) {
                ctx.fail("C18", format!("stream position {} occurs twice in the reservoir", x));
            }
        }
    }
}

impl Driver for D {
    fn exec(&mut self, ctx: &mut Ctx, op: &[String]) -> Vec<String> {
        let i: usize = p(&op[1]);
        match op[0].as_str() {
            "new" => {
                let f = ReservoirSampling::new(p(&op[2]), ctx.rng(i));
                put(&mut self.v, i, Inst { f, ctor: op.to_vec(), stream: vec![] });
                vec!["unit".into()]
            }
            "add" => {
                let x: u64 = p(&op[2]);
                let inst = self.v[i].as_mut().unwrap();
                inst.stream.push(x);
                inst.f.add(x);
                self.check(ctx, i);
                vec!["unit".into()]
            }
            "clear" => {
                let inst = self.v[i].as_mut().unwrap();
                inst.f.clear();
                inst.stream.clear();
                self.check(ctx, i);
                vec!["unit".into()]
            }
            "clone" => {
                // the clone shares nothing with the original: it gets its own RNG script (slot j), positioned identically
                let j: usize = p(&op[2]);
                let c = self.v[i].as_ref().unwrap().clone();
                put(&mut self.v, j, c);
                vec!["unit".into()]
            }
            "obs" => obs(&self.v[i].as_ref().unwrap().f),
            _ => panic!("res: unknown op {:?}", op),
        }
    }
    fn obs_all(&self, _ctx: &Ctx) -> Vec<Option<Vec<String>>> {
        self.v.iter().map(|o| o.as_ref().map(|i| obs(&i.f))).collect()
    }
    fn touched(&self, op: &[String]) -> Vec<usize> {
        match op[0].as_str() {
            "clone" => vec![p(&op[2])],
            "obs" => vec![],
            _ => vec![p(&op[1])],
        }
    }
    fn ctor(&self, i: usize) -> Option<Vec<String>> {
        self.v.get(i).and_then(|o| o.as_ref()).map(|x| {
            let mut c = x.ctor.clone();
            c[1] = i.to_string();
            c
        })
    }
}
