//! CountMinSketch driver, generic over the counter type (cfg ctype=u8|u16|u32|u64|usize).
//! ops: new i w d | props i epsbits deltabits | add i x n | q i x | merge i j | clear i | clone i j | obs i | empty i
use crate::rec::RecBuild;
use crate::{p, Ctx, Driver};
use pdatastructs::countminsketch::CountMinSketch;
use pdatastructs::num_traits::{CheckedAdd, One, Unsigned, Zero};
use std::collections::HashMap;
use std::fmt::Display;
use std::str::FromStr;

pub trait Cnt: CheckedAdd + Clone + One + Ord + Unsigned + Zero + Display + FromStr + 'static {
    fn to_u128(&self) -> u128;
}
macro_rules! cnt { ($($t:ty),*) => { $(impl Cnt for $t { fn to_u128(&self) -> u128 { *self as u128 } })* } }
cnt!(u8, u16, u32, u64, usize);

#[derive(Clone)]
struct Inst<C: Cnt> {
    f: CountMinSketch<u64, C, RecBuild>,
    ctor: Vec<String>,
    exact: HashMap<u64, u128>,
    total: u128,
}

pub struct D<C: Cnt> {
    v: Vec<Option<Inst<C>>>,
}
impl<C: Cnt> Default for D<C> {
    fn default() -> Self {
        Self { v: vec![] }
    }
}

fn put<T>(v: &mut Vec<Option<T>>, i: usize, x: T) {
    while v.len() <= i {
        v.push(None);
    }
    v[i] = Some(x);
}

fn obs<C: Cnt>(f: &CountMinSketch<u64, C, RecBuild>, uni: &[u64]) -> Vec<String> {
    let mut r: Vec<String> = uni.iter().map(|x| f.query_point(x).to_string()).collect();
    r.push((f.is_empty() as u8).to_string());
    r
}

impl<C: Cnt> D<C> {
    fn check(&mut self, ctx: &mut Ctx, i: usize, what: &str) {
        let inst = self.v[i].as_ref().unwrap();
        if inst.f.d() == 0 || inst.f.w() == 0 {
            return;
        }
        let mut keys: Vec<u64> = ctx.uni.clone();
        keys.extend(inst.exact.keys());
        for x in keys {
            let q = inst.f.query_point(&x).to_u128();
            let t = *inst.exact.get(&x).unwrap_or(&0);
            if q < t || q > inst.total {
                ctx.fail("C02", format!("cms bounds violated after {}: key={} true={} query={} total={}", what, x, t, q, inst.total));
                return;
            }
            if inst.exact.len() == 1 && t > 0 && q != t {
                ctx.fail("C02", format!("cms single distinct element not exact: key={} true={} query={}", x, t, q));
                return;
            }
        }
        if inst.f.is_empty() != (inst.total == 0) {
            ctx.fail("C19", format!("cms is_empty={} but total weight={}", inst.f.is_empty(), inst.total));
        }
    }
}

impl<C: Cnt> Driver for D<C>
where
    <C as FromStr>::Err: std::fmt::Debug,
{
    fn exec(&mut self, ctx: &mut Ctx, op: &[String]) -> Vec<String> {
        let i: usize = p(&op[1]);
        match op[0].as_str() {
            "new" => {
                let f = CountMinSketch::with_params_and_hasher(p(&op[2]), p(&op[3]), ctx.bh.clone());
                put(&mut self.v, i, Inst { f, ctor: op.to_vec(), exact: HashMap::new(), total: 0 });
                vec!["unit".into()]
            }
            "props" => {
                let e = f64::from_bits(p::<u64>(&op[2]));
                let dl = f64::from_bits(p::<u64>(&op[3]));
                let f = CountMinSketch::<u64, C, RecBuild>::with_point_query_properties_and_hasher(e, dl, ctx.bh.clone());
                let r = vec![f.w().to_string(), f.d().to_string()];
                put(&mut self.v, i, Inst { f, ctor: op.to_vec(), exact: HashMap::new(), total: 0 });
                r
            }
            "add" => {
                let x: u64 = p(&op[2]);
                let n: C = p(&op[3]);
                let inst = self.v[i].as_mut().unwrap();
                let r = inst.f.add_n(&x, &n);
                *inst.exact.entry(x).or_insert(0) += n.to_u128();
                inst.total += n.to_u128();
                let q = inst.f.query_point(&x);
                if q != r {
                    ctx.fail("C02", format!("cms add_n returned {} but query_point gives {} (key={})", r, q, x));
                }
                self.check(ctx, i, "add_n");
                vec![r.to_string()]
            }
            "q" => {
                let x: u64 = p(&op[2]);
                vec![self.v[i].as_ref().unwrap().f.query_point(&x).to_string()]
            }
            "merge" => {
                let j: usize = p(&op[2]);
                let other = self.v[j].as_ref().unwrap().clone();
                let inst = self.v[i].as_mut().unwrap();
                inst.f.merge(&other.f);
                for (k, v) in &other.exact {
                    *inst.exact.entry(*k).or_insert(0) += *v;
                }
                inst.total += other.total;
                self.check(ctx, i, "merge");
                // C06: reference fed both streams
                let inst = self.v[i].as_ref().unwrap();
                let mut reference = CountMinSketch::<u64, C, RecBuild>::with_params_and_hasher(inst.f.w(), inst.f.d(), ctx.bh.clone());
                let mut ks: Vec<(&u64, &u128)> = inst.exact.iter().collect();
                ks.sort();
                for (k, v) in ks {
                    if *v > 0 {
                        reference.add_n(k, &p::<C>(&v.to_string()));
                    }
                }
                if obs(&reference, &ctx.uni) != obs(&inst.f, &ctx.uni) {
                    ctx.fail("C06", "cms merge differs from reference fed both streams".into());
                }
                vec!["unit".into()]
            }
            "clear" => {
                let inst = self.v[i].as_mut().unwrap();
                inst.f.clear();
                inst.exact.clear();
                inst.total = 0;
                self.check(ctx, i, "clear");
                vec!["unit".into()]
            }
            "clone" => {
                let j: usize = p(&op[2]);
                let c = self.v[i].as_ref().unwrap().clone();
                put(&mut self.v, j, c);
                vec!["unit".into()]
            }
            "obs" => obs(&self.v[i].as_ref().unwrap().f, &ctx.uni),
            "empty" => vec![(self.v[i].as_ref().unwrap().f.is_empty() as u8).to_string()],
            _ => panic!("cms: unknown op {:?}", op),
        }
    }
    fn obs_all(&self, ctx: &Ctx) -> Vec<Option<Vec<String>>> {
        self.v
            .iter()
            .map(|o| o.as_ref().and_then(|i| if i.f.d() == 0 || i.f.w() == 0 { None } else { Some(obs(&i.f, &ctx.uni)) }))
            .collect()
    }
    fn touched(&self, op: &[String]) -> Vec<usize> {
        match op[0].as_str() {
            "clone" => vec![p(&op[2])],
            "q" | "obs" | "empty" => vec![],
            _ => vec![p(&op[1])],
        }
    }
    fn ctor(&self, i: usize) -> Option<Vec<String>> {
        self.v.get(i).and_then(|o| o.as_ref()).map(|x| {
            let mut c = x.ctor.clone();
            c[1] = i.to_string();
            c
        })
    }
}
