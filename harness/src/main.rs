//! pdsdrive: executes operation sequences ("cases") on the real crate and prints a transcript:
//! every result, every hash value and RNG word the crate consumed, and property-oracle verdicts.
//! usage: pdsdrive <casefile>        (transcript on stdout)
mod rec;
mod s_bloom;
mod s_cms;
mod s_filter;
mod s_heap;
mod s_hser;
mod s_hll;
mod s_lossy;
mod s_mem;
mod s_res;
mod s_sizing;
mod s_td;

use rec::{RecBuild, ScriptRng};
use std::collections::HashMap;
use std::io::{BufRead, Write};
use std::panic::{catch_unwind, AssertUnwindSafe};

/// live heap bytes of the whole harness process (property C11 measures differences around one structure's lifetime)
pub static LIVE: std::sync::atomic::AtomicI64 = std::sync::atomic::AtomicI64::new(0);
thread_local! {
    /// live bytes allocated minus freed BY THIS THREAD (the case worker): unaffected by the printing thread
    pub static TLIVE: std::cell::Cell<i64> = const { std::cell::Cell::new(0) };
}
fn tl_add(d: i64) {
    let _ = TLIVE.try_with(|c| c.set(c.get() + d));
}
struct Counting;
unsafe impl std::alloc::GlobalAlloc for Counting {
    unsafe fn alloc(&self, l: std::alloc::Layout) -> *mut u8 {
        LIVE.fetch_add(l.size() as i64, std::sync::atomic::Ordering::SeqCst);
        tl_add(l.size() as i64);
        std::alloc::System.alloc(l)
    }
    unsafe fn dealloc(&self, p: *mut u8, l: std::alloc::Layout) {
        LIVE.fetch_sub(l.size() as i64, std::sync::atomic::Ordering::SeqCst);
        tl_add(-(l.size() as i64));
        std::alloc::System.dealloc(p, l)
    }
    unsafe fn alloc_zeroed(&self, l: std::alloc::Layout) -> *mut u8 {
        LIVE.fetch_add(l.size() as i64, std::sync::atomic::Ordering::SeqCst);
        tl_add(l.size() as i64);
        std::alloc::System.alloc_zeroed(l)
    }
    unsafe fn realloc(&self, p: *mut u8, l: std::alloc::Layout, n: usize) -> *mut u8 {
        LIVE.fetch_add(n as i64 - l.size() as i64, std::sync::atomic::Ordering::SeqCst);
        tl_add(n as i64 - l.size() as i64);
        std::alloc::System.realloc(p, l, n)
    }
}
#[global_allocator]
static ALLOC: Counting = Counting;

pub struct Case {
    pub id: String,
    pub st: String,
    pub cfg: HashMap<String, String>,
    pub hset: Vec<(Option<u64>, Option<u64>, u64)>,
    pub ops: Vec<Vec<String>>,
}

/// Shared per-case context handed to the structure drivers.
pub struct Ctx {
    pub bh: RecBuild,
    pub uni: Vec<u64>,
    pub rngs: Vec<ScriptRng>,
    pub oracle: Vec<String>,
    pub cfg: HashMap<String, String>,
}

impl Ctx {
    pub fn fail(&mut self, prop: &str, msg: String) {
        self.oracle.push(format!("X {} {}", prop, msg));
    }
    pub fn rng(&mut self, slot: usize) -> ScriptRng {
        while self.rngs.len() <= slot {
            let n = self.rngs.len() as u64;
            let seed: u64 = self.cfg.get("rngseed").map(|s| s.parse().unwrap()).unwrap_or(1);
            self.rngs.push(ScriptRng::new(rec::splitmix(seed ^ (n << 32))));
        }
        self.rngs[slot].clone()
    }
}

/// A structure driver: executes one op (tokens) and returns result tokens. May panic (= crate panic).
pub trait Driver {
    fn exec(&mut self, ctx: &mut Ctx, op: &[String]) -> Vec<String>;
    /// full observable state of every live instance, used for the isolation oracle
    fn obs_all(&self, ctx: &Ctx) -> Vec<Option<Vec<String>>>;
    /// instance indices an op may legitimately change
    fn touched(&self, op: &[String]) -> Vec<usize>;
    /// constructor op text that rebuilds instance `i` from scratch (for the clear-vs-fresh pass)
    fn ctor(&self, i: usize) -> Option<Vec<String>>;
    /// additional transcript lines for the case (scale-function logs etc.)
    fn extra_lines(&self) -> Vec<String> {
        vec![]
    }
}

fn make_driver(st: &str, cfg: &HashMap<String, String>) -> Box<dyn Driver> {
    match st {
        "bloom" => Box::new(s_bloom::D::default()),
        "cms" => match cfg.get("ctype").map(|s| s.as_str()).unwrap_or("usize") {
            "u8" => Box::new(s_cms::D::<u8>::default()),
            "u16" => Box::new(s_cms::D::<u16>::default()),
            "u32" => Box::new(s_cms::D::<u32>::default()),
            "u64" => Box::new(s_cms::D::<u64>::default()),
            _ => Box::new(s_cms::D::<usize>::default()),
        },
        "hll" | "hllc" => Box::new(s_hll::D::default()),
        "hser" => Box::new(s_hser::D::default()),
        "sizing" => Box::new(s_sizing::D::default()),
        "mem" => Box::new(s_mem::D::default()),
        "cuckoo" => Box::new(s_filter::D::<s_filter::Cuckoo>::default()),
        "qf" => Box::new(s_filter::D::<s_filter::Quot>::default()),
        "hset" => Box::new(s_filter::D::<s_filter::HSet>::default()),
        "res" => Box::new(s_res::D::default()),
        "lossy" => Box::new(s_lossy::D::default()),
        "heap" => Box::new(s_heap::D::default()),
        "td" => Box::new(s_td::D::default()),
        _ => panic!("unknown structure {}", st),
    }
}

pub fn p<T: std::str::FromStr>(s: &str) -> T
where
    T::Err: std::fmt::Debug,
{
    s.parse::<T>().unwrap_or_else(|_| panic!("cannot parse {}", s))
}

fn opt(s: &str) -> Option<u64> {
    if s == "-" {
        None
    } else {
        Some(p(s))
    }
}

fn read_cases(path: &str) -> Vec<Case> {
    let f = std::io::BufReader::new(std::fs::File::open(path).expect("open case file"));
    let mut out = vec![];
    let mut cur: Option<Case> = None;
    for line in f.lines() {
        let line = line.unwrap();
        let t: Vec<String> = line.split_whitespace().map(|s| s.to_string()).collect();
        if t.is_empty() || t[0].starts_with('#') {
            continue;
        }
        match t[0].as_str() {
            "CASE" => {
                let mut cfg = HashMap::new();
                for kv in &t[3..] {
                    let (k, v) = kv.split_once('=').expect("k=v");
                    cfg.insert(k.to_string(), v.to_string());
                }
                cur = Some(Case { id: t[1].clone(), st: t[2].clone(), cfg, hset: vec![], ops: vec![] });
            }
            "HSET" => cur.as_mut().unwrap().hset.push((opt(&t[1]), opt(&t[2]), p(&t[3]))),
            "END" => out.push(cur.take().unwrap()),
            _ => cur.as_mut().unwrap().ops.push(t),
        }
    }
    out
}

struct Pass {
    results: Vec<(Vec<String>, Vec<u64>)>, // result tokens, rng words
    extra: Vec<String>,
    oracle: Vec<String>,
    hlog: Vec<(Option<u64>, Option<u64>, u64)>,
}

/// mode_fresh: replace every `clear i` by re-running the constructor of instance i (C19 oracle).
fn run_pass(case: &Case, mode_fresh: bool) -> Pass {
    let bh = RecBuild::parse(case.cfg.get("hasher").map(|s| s.as_str()).unwrap_or("sip"));
    for (iv, v, f) in &case.hset {
        bh.table.borrow_mut().insert((*iv, *v), *f);
    }
    let nu: u64 = case.cfg.get("u").map(|s| p(s)).unwrap_or(8);
    let mut ctx = Ctx { bh, uni: (0..nu).collect(), rngs: vec![], oracle: vec![], cfg: case.cfg.clone() };
    let mut d = make_driver(&case.st, &case.cfg);
    let mut results = vec![];
    let mut pending_words: Vec<u64> = vec![];
    let mut dead = false;
    for (k, op) in case.ops.iter().enumerate() {
        if op[0] == "RW" {
            pending_words.extend(op[1..].iter().map(|s| p::<u64>(s)));
            continue;
        }
        if dead {
            results.push((vec!["skipped".to_string()], vec![]));
            continue;
        }
        let mut op2 = op.clone();
        if mode_fresh && op[0] == "clear" {
            if let Some(c) = d.ctor(p(&op[1])) {
                op2 = c;
            }
        }
        // scripted RNG words go to the slot of the op's first instance argument
        let slot: usize = if op2.len() > 1 { op2[1].parse::<usize>().unwrap_or(0).min(63) } else { 0 };
        let rng = ctx.rng(slot);
        for w in pending_words.drain(..) {
            rng.push(w);
        }
        for r in &ctx.rngs {
            r.log.borrow_mut().clear();
        }
        let iso = case.cfg.get("iso").map(|s| s.as_str()) != Some("0");
        let before = if iso { d.obs_all(&ctx) } else { vec![] };
        let r = catch_unwind(AssertUnwindSafe(|| d.exec(&mut ctx, &op2)));
        let words: Vec<u64> = ctx.rngs.iter().flat_map(|r| r.take_log()).collect();
        match r {
            Ok(mut res) => {
                if mode_fresh && op[0] == "clear" {
                    res = vec!["unit".to_string()];
                }
                // isolation oracle: instances the op does not name must be unchanged (clone independence,
                // "other operand unchanged")
                let after = if iso { d.obs_all(&ctx) } else { vec![] };
                let touched = d.touched(&op2);
                for (i, b) in before.iter().enumerate() {
                    if touched.contains(&i) {
                        continue;
                    }
                    if let (Some(b), Some(Some(a))) = (b, after.get(i)) {
                        if a != b {
                            ctx.fail("C19", format!("isolation: op#{} {:?} changed untouched instance {}", k, op2, i));
                        }
                    }
                }
                results.push((res, words));
            }
            Err(_) => {
                results.push((vec!["panic".to_string()], words));
                dead = true;
            }
        }
    }
    let hlog = ctx.bh.log.borrow().iter().cloned().collect();
    let extra = catch_unwind(AssertUnwindSafe(|| d.extra_lines())).unwrap_or_default();
    Pass { results, extra, oracle: ctx.oracle, hlog }
}

fn render_case(case: &Case) -> String {
    let mut out: Vec<u8> = vec![];
    {
        let a = run_pass(case, false);
        let mut cfgs: Vec<String> = case.cfg.iter().map(|(k, v)| format!("{}={}", k, v)).collect();
        cfgs.sort();
        writeln!(out, "CASE {} {} {}", case.id, case.st, cfgs.join(" ")).unwrap();
        let mut ri = 0;
        for op in &case.ops {
            if op[0] == "RW" {
                continue;
            }
            let (res, words) = &a.results[ri];
            ri += 1;
            let w = if words.is_empty() { String::new() } else { format!(" | {}", words.iter().map(|w| w.to_string()).collect::<Vec<_>>().join(" ")) };
            writeln!(out, "O {} => {}{}", op.join(" "), res.join(" "), w).unwrap();
        }
        for x in &a.oracle {
            writeln!(out, "{}", x).unwrap();
        }
        for x in &a.extra {
            writeln!(out, "{}", x).unwrap();
        }
        // C19 oracle: a second pass in which every clear() is replaced by building a fresh instance
        if case.ops.iter().any(|o| o[0] == "clear") && case.cfg.get("freshpass").map(|s| s.as_str()) != Some("0") {
            let b = run_pass(case, true);
            for (k, (ra, rb)) in a.results.iter().zip(b.results.iter()).enumerate() {
                if ra.0 != rb.0 {
                    writeln!(out, "X C19 clear-vs-fresh: result #{} differs: cleared={:?} fresh={:?}", k, ra.0, rb.0).unwrap();
                    break;
                }
            }
        }
        for (iv, v, f) in &a.hlog {
            let s = |o: &Option<u64>| o.map(|x| x.to_string()).unwrap_or_else(|| "-".to_string());
            writeln!(out, "H {} {} {}", s(iv), s(v), f).unwrap();
        }
        writeln!(out, "END").unwrap();
    }
    String::from_utf8(out).unwrap()
}

/// Cases run on a worker thread; a case that does not finish within the time limit (the crate loops
/// forever) is reported as `HANG` and the process exits with status 3 (the caller resumes after it).
fn main() {
    if std::env::var("PDS_PANIC_VERBOSE").is_err() {
        std::panic::set_hook(Box::new(|_| {}));
    }
    let args: Vec<String> = std::env::args().collect();
    let cases = read_cases(&args[1]);
    let limit: u64 = std::env::var("PDS_CASE_TIMEOUT_MS").ok().and_then(|s| s.parse().ok()).unwrap_or(30000);
    let stdout = std::io::stdout();
    let mut out = std::io::BufWriter::new(stdout.lock());
    let (tx, rx) = std::sync::mpsc::channel::<String>();
    let ids: Vec<(String, String)> = cases.iter().map(|c| (c.id.clone(), c.st.clone())).collect();
    std::thread::Builder::new()
        .stack_size(256 << 20)
        .spawn(move || {
            for case in &cases {
                let text = render_case(case);
                if tx.send(text).is_err() {
                    return;
                }
            }
        })
        .unwrap();
    for (id, st) in ids {
        match rx.recv_timeout(std::time::Duration::from_millis(limit)) {
            Ok(text) => out.write_all(text.as_bytes()).unwrap(),
            Err(std::sync::mpsc::RecvTimeoutError::Disconnected) => {
                // the worker died outside the guarded crate call (a panic while observing): not a hang
                writeln!(out, "CASE {} {} \nDIED\nEND", id, st).unwrap();
                out.flush().unwrap();
                std::process::exit(3);
            }
            Err(_) => {
                writeln!(out, "CASE {} {} \nHANG\nEND", id, st).unwrap();
                out.flush().unwrap();
                std::process::exit(3);
            }
        }
    }
}
