//! TDigest driver. Floats travel as IEEE-754 bit patterns (u64, decimal).
//! ops: new i K deltabits maxb | ins i xbits wbits | quant i qbits | cdf i xbits | count i | sum i | mean i |
//!      min i | max i | ncent i | empty i | clear i | clone i j | audit i
//! The scale function is wrapped (LogScale) so that every f / f_inv call is logged; the pairs
//! f(q0, n) -> k, f_inv(k + 1, n) -> q_limit become the `L n q0 limit` lines the model replays.
use crate::{p, Ctx, Driver};
use pdatastructs::tdigest::{ScaleFunction, TDigest, K0, K1, K2, K3};
use std::cell::RefCell;
use std::rc::Rc;

#[derive(Clone, Debug)]
enum Sf {
    K0(K0),
    K1(K1),
    K2(K2),
    K3(K3),
}

#[derive(Clone, Debug, Default)]
pub struct ScaleLog {
    pub calls: Vec<(bool, f64, usize, f64)>, // (is_inverse, input, n, output)
}

#[derive(Clone, Debug)]
pub struct LogScale {
    inner: Sf,
    log: Rc<RefCell<ScaleLog>>,
}

impl ScaleFunction for LogScale {
    fn delta(&self) -> f64 {
        match &self.inner {
            Sf::K0(s) => s.delta(),
            Sf::K1(s) => s.delta(),
            Sf::K2(s) => s.delta(),
            Sf::K3(s) => s.delta(),
        }
    }
    fn f(&self, q: f64, n: usize) -> f64 {
        let r = match &self.inner {
            Sf::K0(s) => s.f(q, n),
            Sf::K1(s) => s.f(q, n),
            Sf::K2(s) => s.f(q, n),
            Sf::K3(s) => s.f(q, n),
        };
        self.log.borrow_mut().calls.push((false, q, n, r));
        r
    }
    fn f_inv(&self, k: f64, n: usize) -> f64 {
        let r = match &self.inner {
            Sf::K0(s) => s.f_inv(k, n),
            Sf::K1(s) => s.f_inv(k, n),
            Sf::K2(s) => s.f_inv(k, n),
            Sf::K3(s) => s.f_inv(k, n),
        };
        self.log.borrow_mut().calls.push((true, k, n, r));
        r
    }
}

/// canonical bit pattern: one NaN, +0 for -0
pub fn bits(x: f64) -> u64 {
    if x.is_nan() {
        0x7ff8000000000000
    } else if x == 0.0 {
        0
    } else {
        x.to_bits()
    }
}
fn fb(s: &str) -> f64 {
    f64::from_bits(p::<u64>(s))
}

#[derive(Clone)]
struct Inst {
    f: TDigest<LogScale>,
    ctor: Vec<String>,
    items: Vec<(f64, f64)>, // positive-weight inserts since creation / clear
    unit: bool,             // only unit weights so far
    delta: f64,
    kind: String,
    acc: [f64; 4], // running: sum of positive products, sum of negative products, max, min (known finding near-max-overflow)
}

pub struct D {
    v: Vec<Option<Inst>>,
    pub log: Rc<RefCell<ScaleLog>>,
}
impl Default for D {
    fn default() -> Self {
        Self { v: vec![], log: Rc::new(RefCell::new(ScaleLog::default())) }
    }
}

fn put<T>(v: &mut Vec<Option<T>>, i: usize, x: T) {
    while v.len() <= i {
        v.push(None);
    }
    v[i] = Some(x);
}

fn obs(f: &TDigest<LogScale>) -> Vec<String> {
    // reads trigger merges; clone first so that observing does not change when the original merges
    let c = f.clone();
    vec![bits(c.count()).to_string(), bits(c.sum()).to_string(), bits(c.min()).to_string(), bits(c.max()).to_string(), c.n_centroids().to_string(), (c.is_empty() as u8).to_string()]
}

impl Inst {
    /// (the positive or the negative products x*w sum beyond f64::MAX, max - min overflows)
    fn overflow(&self) -> (bool, bool) {
        let [pos, neg, mx, mn] = self.acc;
        (pos.is_infinite() || neg.is_infinite(), !self.items.is_empty() && (mx - mn).is_infinite())
    }
    fn note(&mut self, x: f64, w: f64) {
        if x > 0.0 {
            self.acc[0] += x * w;
        } else if x < 0.0 {
            self.acc[1] += x * w;
        }
        self.acc[2] = self.acc[2].max(x);
        self.acc[3] = self.acc[3].min(x);
    }
}
const ACC0: [f64; 4] = [0.0, 0.0, f64::NEG_INFINITY, f64::INFINITY];

impl D {
    /// property oracles on the implementation alone (C16 aggregates, C15 shape, C04 size)
    fn audit(&self, ctx: &mut Ctx, i: usize) {
        let mut local = Ctx { bh: ctx.bh.clone(), uni: vec![], rngs: vec![], oracle: vec![], cfg: ctx.cfg.clone() };
        self.audit_inner(&mut local, i);
        // known finding: a product x*w in the subnormal range loses precision in the stored centroid sum, so the
        // centroid mean (x*w)/w is no longer x to within an ulp; precision verdicts on such digests carry the key
        let inst = self.v[i].as_ref().unwrap();
        let lossy = inst.items.iter().any(|(x, w)| *x != 0.0 && (x * w).abs() < f64::MIN_POSITIVE);
        // known finding near-max-overflow: (a) when the positive or the negative products x*w sum beyond f64::MAX a fused
        // centroid's sum is +-inf (its mean inf or NaN): every verdict on such a digest carries the key; (b) when only
        // max - min overflows, cdf's difference of adjacent means is inf and cdf returns NaN: cdf verdicts carry the key
        // (quantile does not subtract means, so its verdicts stay unkeyed)
        let (sumover, rangeover) = inst.overflow();
        for line in local.oracle {
            let is_td = line.starts_with("X C15") || line.starts_with("X C16") || line.starts_with("X C04");
            let key = if !is_td {
                None
            } else if sumover || (rangeover && line.contains("cdf")) {
                Some("near-max-overflow")
            } else if lossy {
                Some("subnormal-product")
            } else {
                None
            };
            if let Some(key) = key {
                let mut t = line.splitn(3, ' ');
                let (x, p, rest) = (t.next().unwrap(), t.next().unwrap(), t.next().unwrap_or(""));
                ctx.oracle.push(format!("{} {} kf={} {}", x, p, key, rest));
            } else {
                ctx.oracle.push(line);
            }
        }
    }
    fn audit_inner(&self, ctx: &mut Ctx, i: usize) {
        let inst = self.v[i].as_ref().unwrap();
        let f = inst.f.clone();
        let sw: f64 = inst.items.iter().map(|t| t.1).sum();
        let sxw: f64 = inst.items.iter().map(|t| t.0 * t.1).sum();
        let absxw: f64 = inst.items.iter().map(|t| (t.0 * t.1).abs()).sum();
        let n = inst.items.len() as f64;
        let tol = (n + 4.0) * 4.0 * f64::EPSILON;
        if f.is_empty() != inst.items.is_empty() {
            ctx.fail("C16", format!("is_empty()={} with {} positive-weight inserts", f.is_empty(), inst.items.len()));
        }
        if inst.items.is_empty() {
            if !f.quantile(0.5).is_nan() || f.cdf(0.0) != 0.0 {
                ctx.fail("C15", "empty digest: quantile is not NaN or cdf is not 0".into());
            }
            return;
        }
        if (f.count() - sw).abs() > tol * sw {
            ctx.fail("C16", format!("count()={} but inserted weights sum to {}", f.count(), sw));
        }
        if (f.sum() - sxw).abs() > tol * absxw.max(f64::MIN_POSITIVE) {
            ctx.fail("C16", format!("sum()={} but weighted sum is {}", f.sum(), sxw));
        }
        if (f.mean() - sxw / sw).abs() > 2.0 * tol * (absxw / sw).max(f64::MIN_POSITIVE) {
            ctx.fail("C16", format!("mean()={} but weighted mean is {}", f.mean(), sxw / sw));
        }
        let mn = inst.items.iter().map(|t| t.0).fold(f64::INFINITY, f64::min);
        let mx = inst.items.iter().map(|t| t.0).fold(f64::NEG_INFINITY, f64::max);
        if f.min() != mn || f.max() != mx {
            ctx.fail("C16", format!("min/max = {}/{} but inserted extremes are {}/{}", f.min(), f.max(), mn, mx));
        }
        // every read function as the FIRST read after the inserts (pending backlog) must agree with the value
        // after a forced merge, and repeated reads must be identical
        {
            let probes_q = [0.0, 0.3, 1.0];
            let probes_x = [mn - 1.0, mn, 0.5 * (mn + mx), mx, mx + 1.0];
            let merged = inst.f.clone();
            let _ = merged.n_centroids();
            for q in probes_q {
                let a = inst.f.clone().quantile(q);
                let b = merged.quantile(q);
                if a.to_bits() != b.to_bits() && !(a.is_nan() && b.is_nan()) {
                    ctx.fail("C15", format!("quantile({}) as first read gives {} but {} after a merging read", q, a, b));
                }
            }
            for x in probes_x {
                let a = inst.f.clone().cdf(x);
                let b = merged.cdf(x);
                if a.to_bits() != b.to_bits() {
                    ctx.fail("C15", format!("cdf({}) as first read gives {} but {} after a merging read", x, a, b));
                }
            }
            let (a, b) = (inst.f.clone().count(), merged.count());
            if a.to_bits() != b.to_bits() {
                ctx.fail("C16", format!("count() as first read gives {} but {} after a merging read", a, b));
            }
            let (a, b) = (inst.f.clone().sum(), merged.sum());
            if a.to_bits() != b.to_bits() {
                ctx.fail("C16", format!("sum() as first read gives {} but {} after a merging read", a, b));
            }
            let (a, b) = (inst.f.clone().mean(), merged.mean());
            if a.to_bits() != b.to_bits() {
                ctx.fail("C16", format!("mean() as first read gives {} but {} after a merging read", a, b));
            }
            if inst.f.clone().is_empty() != merged.is_empty() {
                ctx.fail("C16", "is_empty() differs before and after a merging read".into());
            }
        }
        // C04 size bound: unit-weight histories
        if inst.unit && (f.n_centroids() as f64) > inst.delta + 3.0 {
            ctx.fail("C04", format!("{} centroids exceed delta+3 (delta={}, n={})", f.n_centroids(), inst.delta, inst.items.len()));
        }
        // C04 rank accuracy (unit weights): distance from q to the rank interval [#(< v), #(<= v)]/n of the returned value,
        // and of cdf(x) to the empirical CDF interval, at most 3 W + 2/n (W = maximal cluster width of the scale function)
        // (applied to the input families the property names; cfg rank=0 marks the generator's scale-mixture family,
        //  values spanning 60 orders of magnitude with both signs, which is outside them)
        if inst.unit && ctx.cfg.get("rank").map(|s| s.as_str()) != Some("0") {
            let nn = inst.items.len() as f64;
            let d = inst.delta;
            let w = match inst.kind.as_str() {
                "K0" => Some(2.0 / d),
                "K1" => Some(std::f64::consts::PI / d),
                "K2" if nn >= d => Some(((nn / d).ln() + 6.0) / d),
                "K3" if nn >= d => Some((2.0 * (nn / d).ln() + 10.5) / d),
                _ => None,
            };
            if let Some(w) = w {
                let bound = 3.0 * w + 2.0 / nn + 1e-9;
                let mut xs: Vec<f64> = inst.items.iter().map(|t| t.0).collect();
                xs.sort_by(|a, b| a.partial_cmp(b).unwrap());
                let range = (xs[xs.len() - 1] - xs[0]).abs().max(xs[xs.len() - 1].abs()).max(xs[0].abs());
                let ev = 16.0 * f64::EPSILON * range;
                let below = |v: f64| xs.partition_point(|y| *y < v) as f64 / nn;
                let upto = |v: f64| xs.partition_point(|y| *y <= v) as f64 / nn;
                // cdf first, on a clone that has not been read yet
                let g = inst.f.clone();
                for k in 0..=32 {
                    let x = xs[0] + (xs[xs.len() - 1] - xs[0]) * (k as f64) / 32.0;
                    let c = g.cdf(x);
                    let (lo, hi) = (below(x - ev), upto(x + ev));
                    let err = (lo - c).max(c - hi).max(0.0);
                    if err > bound {
                        ctx.fail("C04", format!("cdf({})={} but the empirical CDF is in [{}, {}]: error {} > 3W+2/n = {} ({}, delta={}, n={})", x, c, lo, hi, err, bound, inst.kind, d, nn));
                        break;
                    }
                }
                for k in 0..=64 {
                    let q = k as f64 / 64.0;
                    let v = f.quantile(q);
                    let (lo, hi) = (below(v - ev), upto(v + ev));
                    let err = (lo - q).max(q - hi).max(0.0);
                    if err > bound {
                        ctx.fail("C04", format!("quantile({})={} has rank in [{}, {}]: error {} > 3W+2/n = {} ({}, delta={}, n={})", q, v, lo, hi, err, bound, inst.kind, d, nn));
                        break;
                    }
                }
            }
        }
        // C15 shape on a grid; allowance: a few ulps of the data range, scaled by total/smallest weight
        let wmin = inst.items.iter().map(|t| t.1).fold(f64::INFINITY, f64::min);
        let range = (mx - mn).abs().max(mx.abs()).max(mn.abs()).min(f64::MAX);
        let eps_v = 16.0 * f64::EPSILON * range * (sw / wmin);
        let g = 64;
        let mut last = f64::NEG_INFINITY;
        for k in 0..=g {
            let q = k as f64 / g as f64;
            let v = f.quantile(q);
            if !(v.is_finite() && v >= mn - eps_v && v <= mx + eps_v) {
                ctx.fail("C15", format!("quantile({})={} outside [min,max]=[{},{}]", q, v, mn, mx));
                break;
            }
            if v < last - eps_v {
                ctx.fail("C15", format!("quantile not monotone at q={}: {} after {}", q, v, last));
                break;
            }
            last = last.max(v);
            if f.quantile(q).to_bits() != v.to_bits() {
                ctx.fail("C15", format!("repeated quantile({}) differs", q));
            }
        }
        if (f.quantile(0.0) - mn).abs() > eps_v {
            ctx.fail("C15", format!("quantile(0)={} but min()={}", f.quantile(0.0), mn));
        }
        if (f.quantile(1.0) - mx).abs() > eps_v {
            ctx.fail("C15", format!("quantile(1)={} but max()={}", f.quantile(1.0), mx));
        }
        let eps_c = 16.0 * f64::EPSILON * (sw / wmin);
        let mut lastc = 0.0f64;
        let span = if mx > mn { mx - mn } else { 1.0 };
        for k in -4..=(g + 4) {
            let t = (k as f64) / (g as f64);
            let x = if span.is_finite() { mn + span * t } else { mn * (1.0 - t) + mx * t };
            if x.is_nan() {
                continue;
            }
            let c = f.cdf(x);
            if !(c >= -eps_c && c <= 1.0 + eps_c) {
                ctx.fail("C15", format!("cdf({})={} outside [0,1]", x, c));
                break;
            }
            if c < lastc - eps_c {
                ctx.fail("C15", format!("cdf not monotone at x={}: {} after {}", x, c, lastc));
                break;
            }
            lastc = lastc.max(c);
            if x < mn - eps_v && c != 0.0 {
                ctx.fail("C15", format!("cdf({})={} below min()={}", x, c, mn));
            }
            if x >= mx + eps_v && c != 1.0 {
                ctx.fail("C15", format!("cdf({})={} at/above max()={}", x, c, mx));
            }
        }
        // cdf(quantile(q)) >= q up to the allowance (flat pieces make it larger, never smaller)
        for k in 0..=g {
            let q = k as f64 / g as f64;
            // the returned value is allowed a few ulps: a value an ulp below a tie block would otherwise be
            // charged the whole block
            let v = f.quantile(q);
            if !v.is_finite() {
                continue; // already reported above; cdf rejects a NaN argument
            }
            let c = f.cdf(v).max(f.cdf(v + eps_v));
            if c < q - 64.0 * eps_c - 1e-12 {
                ctx.fail("C15", format!("cdf(quantile({}))={} < q", q, c));
                break;
            }
            // generalised-inverse property, upper side: just below the returned value the cdf must not exceed q
            let mut bx = v - eps_v - (v.abs() * 4.0 * f64::EPSILON);
            if bx >= v {
                bx = if v > 0.0 { f64::from_bits(v.to_bits() - 1) } else if v < 0.0 { f64::from_bits(v.to_bits() + 1) } else { -f64::MIN_POSITIVE };
            }
            let below = f.cdf(bx);
            if below > q + 64.0 * eps_c + 1e-12 {
                ctx.fail("C15", format!("cdf just below quantile({})={} is {} > q", q, v, below));
                break;
            }
        }
    }
}

impl Driver for D {
    fn exec(&mut self, ctx: &mut Ctx, op: &[String]) -> Vec<String> {
        let i: usize = p(&op[1]);
        let sumover = op[0] != "new" && self.v.get(i).and_then(|o| o.as_ref()).map_or(false, |inst| inst.overflow().0);
        if !sumover {
            return self.exec_inner(ctx, op);
        }
        match std::panic::catch_unwind(std::panic::AssertUnwindSafe(|| self.exec_inner(ctx, op))) {
            Ok(r) => r,
            Err(_) => {
                ctx.oracle.push(format!("X C15 kf=near-max-overflow `{}` panics: the products x*w of one sign sum beyond f64::MAX, a fused centroid mean is NaN", op[0]));
                vec!["panic-kf".into()]
            }
        }
    }
    fn obs_all(&self, _ctx: &Ctx) -> Vec<Option<Vec<String>>> {
        // observing clones the digest, and the clone's reads go through the shared scale log: keep the log clean
        let keep = self.log.borrow().calls.len();
        let r = self.v.iter().map(|o| o.as_ref().and_then(|i| std::panic::catch_unwind(std::panic::AssertUnwindSafe(|| obs(&i.f))).ok())).collect();
        self.log.borrow_mut().calls.truncate(keep);
        r
    }
    fn touched(&self, op: &[String]) -> Vec<usize> {
        match op[0].as_str() {
            "clone" => vec![p(&op[2])],
            "ins" | "insseq" | "clear" | "new" => vec![p(&op[1])],
            // reads merge the backlog (interior mutability) but must not change any observable
            _ => vec![],
        }
    }
    fn ctor(&self, i: usize) -> Option<Vec<String>> {
        self.v.get(i).and_then(|o| o.as_ref()).map(|x| {
            let mut c = x.ctor.clone();
            c[1] = i.to_string();
            c
        })
    }
    fn extra_lines(&self) -> Vec<String> {
        // pair up f / f_inv calls into limit-table lines; raw calls for the scale-function validation
        let log = self.log.borrow();
        let mut out = vec![];
        let mut seen = std::collections::BTreeSet::new();
        let mut k = 0;
        while k < log.calls.len() {
            let (inv, a, n, r) = log.calls[k];
            let line = format!("S {} {} {} {}", if inv { "i" } else { "f" }, bits(a), n, bits(r));
            if out.len() < 1200 && seen.insert(line.clone()) {
                out.push(line);
            }
            if !inv && k + 1 < log.calls.len() {
                let (inv2, a2, n2, r2) = log.calls[k + 1];
                if inv2 && n2 == n && (a2 == r + 1.0 || (a2.is_nan() && (r + 1.0).is_nan())) {
                    let l = format!("L {} {} {}", n, bits(a), bits(r2));
                    if out.len() < 1200 && seen.insert(l.clone()) {
                        out.push(l);
                    }
                    k += 2;
                    continue;
                } else {
                    out.push(format!("X C04 scale-call pattern: f({}, {}) not followed by f_inv(f+1, n)", a, n));
                }
            }
            k += 1;
        }
        out
    }
}

impl D {
    fn exec_inner(&mut self, ctx: &mut Ctx, op: &[String]) -> Vec<String> {
        let i: usize = p(&op[1]);
        match op[0].as_str() {
            "new" => {
                let delta = fb(&op[3]);
                let sf = match op[2].as_str() {
                    "K0" => Sf::K0(K0::new(delta)),
                    "K1" => Sf::K1(K1::new(delta)),
                    "K2" => Sf::K2(K2::new(delta)),
                    _ => Sf::K3(K3::new(delta)),
                };
                let f = TDigest::new(LogScale { inner: sf, log: Rc::clone(&self.log) }, p(&op[4]));
                put(&mut self.v, i, Inst { f, ctor: op.to_vec(), items: vec![], unit: true, delta, kind: op[2].clone(), acc: ACC0 });
                vec!["unit".into()]
            }
            "ins" => {
                let (x, w) = (fb(&op[2]), fb(&op[3]));
                let inst = self.v[i].as_mut().unwrap();
                let before = if w == 0.0 { Some(obs(&inst.f)) } else { None };
                inst.f.insert_weighted(x, w);
                if w > 0.0 {
                    inst.items.push((x, w));
                    inst.note(x, w);
                    if w != 1.0 {
                        inst.unit = false;
                    }
                }
                if let Some(b) = before {
                    if obs(&inst.f) != b {
                        ctx.fail("C16", "zero-weight insert changed the digest".into());
                    }
                }
                vec!["unit".into()]
            }
            "insseq" => {
                // oracle-only long streams (no model replay): n unit-weight values, sorted (kind 0) or pseudo-random
                let (n, kind, seed): (u64, u64, u64) = (p(&op[2]), p(&op[3]), p(&op[4]));
                let inst = self.v[i].as_mut().unwrap();
                for j in 0..n {
                    let x = if kind == 0 { (inst.items.len() as f64) + 0.5 } else { (crate::rec::splitmix(seed ^ j) >> 11) as f64 / (1u64 << 53) as f64 };
                    inst.f.insert(x);
                    inst.items.push((x, 1.0));
                    inst.note(x, 1.0);
                }
                vec!["unit".into()]
            }
            "quant" => vec![bits(self.v[i].as_ref().unwrap().f.quantile(fb(&op[2]))).to_string()],
            "cdf" => vec![bits(self.v[i].as_ref().unwrap().f.cdf(fb(&op[2]))).to_string()],
            "count" => vec![bits(self.v[i].as_ref().unwrap().f.count()).to_string()],
            "sum" => vec![bits(self.v[i].as_ref().unwrap().f.sum()).to_string()],
            "mean" => vec![bits(self.v[i].as_ref().unwrap().f.mean()).to_string()],
            "min" => vec![bits(self.v[i].as_ref().unwrap().f.min()).to_string()],
            "max" => vec![bits(self.v[i].as_ref().unwrap().f.max()).to_string()],
            "ncent" => vec![self.v[i].as_ref().unwrap().f.n_centroids().to_string()],
            "empty" => vec![(self.v[i].as_ref().unwrap().f.is_empty() as u8).to_string()],
            "clear" => {
                let inst = self.v[i].as_mut().unwrap();
                inst.f.clear();
                inst.items.clear();
                inst.acc = ACC0;
                inst.unit = true;
                if !inst.f.is_empty() {
                    ctx.fail("C19", "tdigest not empty after clear".into());
                }
                vec!["unit".into()]
            }
            "clone" => {
                let j: usize = p(&op[2]);
                let c = self.v[i].as_ref().unwrap().clone();
                put(&mut self.v, j, c);
                vec!["unit".into()]
            }
            "audit" => {
                self.audit(ctx, i);
                vec!["unit".into()]
            }
            _ => panic!("td: unknown op {:?}", op),
        }
    }
}
