//! Cuckoo and quotient filter drivers (shared code over the Filter trait).
//! ops: new i <cfg..> | props i <which> <pbits> <n> (cuckoo) | ins i x | del i x (cuckoo) | q i x |
//!      union i j | clear i | clone i j | obs i | dobs i (cuckoo: obs + how often each key can be deleted)
use crate::rec::{RecBuild, ScriptRng};
use crate::{p, Ctx, Driver};
use pdatastructs::filters::cuckoofilter::CuckooFilter;
use pdatastructs::filters::quotientfilter::QuotientFilter;
use pdatastructs::filters::Filter;
use std::collections::HashMap;

pub trait Kind: 'static {
    type F: Filter<u64> + Clone;
    const NAME: &'static str;
    const MULTISET: bool;
    fn build(ctx: &mut Ctx, slot: usize, op: &[String]) -> (Self::F, Vec<String>);
    fn delete(_f: &mut Self::F, _x: u64) -> Option<bool> {
        None
    }
    /// capacity in classes (quotient filter) if the structure has a hard one
    fn capacity(_f: &Self::F) -> Option<usize> {
        None
    }
    /// inserts below this many stored elements must succeed (cuckoo: bucketsize)
    fn must_succeed_below(_f: &Self::F) -> usize {
        0
    }
}

pub struct Cuckoo;
impl Kind for Cuckoo {
    type F = CuckooFilter<u64, ScriptRng, RecBuild>;
    const NAME: &'static str = "cuckoo";
    const MULTISET: bool = true;
    fn build(ctx: &mut Ctx, slot: usize, op: &[String]) -> (Self::F, Vec<String>) {
        let rng = ctx.rng(slot);
        if op[0] == "props" {
            let pr = f64::from_bits(p::<u64>(&op[3]));
            let n: usize = p(&op[4]);
            let f = if op[2] == "4" {
                CuckooFilter::with_properties_and_hash_4(pr, n, rng, ctx.bh.clone())
            } else {
                CuckooFilter::with_properties_and_hash_8(pr, n, rng, ctx.bh.clone())
            };
            let r = vec![f.bucketsize().to_string(), f.n_buckets().to_string(), f.l_fingerprint().to_string()];
            (f, r)
        } else {
            (CuckooFilter::with_params_and_hash(rng, p(&op[2]), p(&op[3]), p(&op[4]), ctx.bh.clone()), vec!["unit".into()])
        }
    }
    fn delete(f: &mut Self::F, x: u64) -> Option<bool> {
        Some(f.delete(&x))
    }
    fn must_succeed_below(f: &Self::F) -> usize {
        f.bucketsize()
    }
}

pub struct Quot;
impl Kind for Quot {
    type F = QuotientFilter<u64, RecBuild>;
    const NAME: &'static str = "qf";
    const MULTISET: bool = false;
    fn build(ctx: &mut Ctx, _slot: usize, op: &[String]) -> (Self::F, Vec<String>) {
        (QuotientFilter::with_params_and_hash(p(&op[2]), p(&op[3]), ctx.bh.clone()), vec!["unit".into()])
    }
    fn capacity(f: &Self::F) -> Option<usize> {
        Some(1usize << f.bits_quotient())
    }
}

pub struct HSet;
impl Kind for HSet {
    type F = std::collections::HashSet<u64>;
    const NAME: &'static str = "hset";
    const MULTISET: bool = false;
    fn build(_ctx: &mut Ctx, _slot: usize, _op: &[String]) -> (Self::F, Vec<String>) {
        (std::collections::HashSet::new(), vec!["unit".into()])
    }
}

struct Inst<K: Kind> {
    f: K::F,
    ctor: Vec<String>,
    ms: HashMap<u64, usize>, // abstract content: class representative -> multiplicity
}
impl<K: Kind> Clone for Inst<K> {
    fn clone(&self) -> Self {
        Self { f: self.f.clone(), ctor: self.ctor.clone(), ms: self.ms.clone() }
    }
}

pub struct D<K: Kind> {
    v: Vec<Option<Inst<K>>>,
    reps: HashMap<Vec<String>, HashMap<u64, u64>>, // per constructor: key -> class representative
}
impl<K: Kind> Default for D<K> {
    fn default() -> Self {
        Self { v: vec![], reps: HashMap::new() }
    }
}

fn put<T>(v: &mut Vec<Option<T>>, i: usize, x: T) {
    while v.len() <= i {
        v.push(None);
    }
    v[i] = Some(x);
}

fn obs<K: Kind>(f: &K::F, uni: &[u64]) -> Vec<String> {
    let mut r: Vec<String> = uni.iter().map(|x| (f.query(x) as u8).to_string()).collect();
    r.push(f.len().to_string());
    r.push((f.is_empty() as u8).to_string());
    r
}

/// how many times each universe key can be deleted (on a clone, one key at a time)
fn delcounts<K: Kind>(f: &K::F, uni: &[u64]) -> Vec<String> {
    uni.iter()
        .map(|x| {
            let mut c = f.clone();
            let mut n = 0usize;
            while K::delete(&mut c, *x) == Some(true) {
                n += 1;
                if n > 10_000 {
                    break;
                }
            }
            n.to_string()
        })
        .collect()
}

fn full_obs<K: Kind>(f: &K::F, uni: &[u64]) -> Vec<String> {
    let mut r = obs::<K>(f, uni);
    if K::MULTISET {
        r.extend(delcounts::<K>(f, uni));
    }
    r
}

impl<K: Kind> D<K> {
    /// class representatives by the property's own definition: x ~ y iff a filter holding only y reports x
    fn rep(&mut self, ctx: &mut Ctx, ctor: &[String], x: u64) -> u64 {
        let mut key = ctor.to_vec();
        key[1] = "_".into();
        if !self.reps.contains_key(&key) {
            let mut m = HashMap::new();
            let uni = ctx.uni.clone();
            let mut singles = vec![];
            for &y in &uni {
                let (mut f, _) = K::build(ctx, 63, ctor);
                f.insert(&y).ok();
                singles.push(f);
            }
            for &z in &uni {
                let r = uni.iter().zip(singles.iter()).find(|(_, f)| f.query(&z)).map(|(y, _)| *y).unwrap_or(z);
                m.insert(z, r);
            }
            self.reps.insert(key.clone(), m);
        }
        *self.reps[&key].get(&x).unwrap_or(&x)
    }

    fn check(&mut self, ctx: &mut Ctx, i: usize, what: &str) {
        let ctor = self.v[i].as_ref().unwrap().ctor.clone();
        let uni = ctx.uni.clone();
        let reps: Vec<u64> = uni.iter().map(|x| self.rep(ctx, &ctor, *x)).collect();
        let inst = self.v[i].as_ref().unwrap();
        let total: usize = inst.ms.values().sum();
        let exact = if K::MULTISET { "C14" } else { "C13" };
        if inst.f.len() != total {
            ctx.fail(exact, format!("{} len()={} but abstract content has {} after {}", K::NAME, inst.f.len(), total, what));
            if what == "union" {
                ctx.fail("C06", format!("{} after union: len()={} but the two streams together hold {}", K::NAME, inst.f.len(), total));
            }
        }
        if inst.f.is_empty() != (total == 0) {
            ctx.fail("C19", format!("{} is_empty()={} with {} stored after {}", K::NAME, inst.f.is_empty(), total, what));
        }
        for (x, r) in uni.iter().zip(reps.iter()) {
            let want = inst.ms.get(r).copied().unwrap_or(0) > 0;
            let got = inst.f.query(x);
            if got != want {
                let prop = if want { "C01" } else { exact };
                ctx.fail(prop, format!("{} query({})={} but abstract content says {} after {}", K::NAME, x, got, want, what));
                if want {
                    // a stored class that is not reported is also a failure of exact (multi)set semantics
                    ctx.fail(exact, format!("{} query({}) is false although a copy of its class is stored (after {})", K::NAME, x, what));
                }
                if what == "union" {
                    ctx.fail("C06", format!("{} after union: query({})={} but the two streams together say {}", K::NAME, x, got, want));
                }
                break;
            }
        }
    }
}

impl<K: Kind> Driver for D<K> {
    fn exec(&mut self, ctx: &mut Ctx, op: &[String]) -> Vec<String> {
        let i: usize = p(&op[1]);
        match op[0].as_str() {
            "new" | "props" => {
                let (f, r) = K::build(ctx, i, op);
                put(&mut self.v, i, Inst { f, ctor: op.to_vec(), ms: HashMap::new() });
                r
            }
            "ins" => {
                let x: u64 = p(&op[2]);
                let ctor = self.v[i].as_ref().unwrap().ctor.clone();
                if !ctx.uni.contains(&x) {
                    // keys outside the universe: no abstract tracking possible
                    let inst = self.v[i].as_mut().unwrap();
                    return vec![match inst.f.insert(&x) { Ok(true) => "1", Ok(false) => "0", Err(_) => "2" }.to_string()];
                }
                let r = self.rep(ctx, &ctor, x);
                let inst = self.v[i].as_mut().unwrap();
                let before = full_obs::<K>(&inst.f, &ctx.uni);
                let len_before = inst.f.len();
                let res = inst.f.insert(&x);
                let known = inst.ms.get(&r).copied().unwrap_or(0) > 0;
                let out = match res {
                    Ok(b) => {
                        if K::MULTISET {
                            if !b {
                                ctx.fail("C14", format!("cuckoo insert({}) succeeded but reported Ok(false)", x));
                            }
                            *inst.ms.entry(r).or_insert(0) += 1;
                        } else {
                            if b == known {
                                ctx.fail("C13", format!("qf insert({}) returned Ok({}) but class known={}", x, b, known));
                            }
                            if b && Some(len_before) == K::capacity(&inst.f) {
                                ctx.fail("C13", format!("qf insert({}) accepted a new class at capacity", x));
                            }
                            inst.ms.insert(r, 1);
                        }
                        (b as u8).to_string()
                    }
                    Err(_) => {
                        if full_obs::<K>(&inst.f, &ctx.uni) != before {
                            ctx.fail("C12", format!("{} failed insert({}) changed the observable state", K::NAME, x));
                        }
                        if len_before < K::must_succeed_below(&inst.f) {
                            ctx.fail("C14", format!("cuckoo insert({}) failed with only {} elements stored", x, len_before));
                        }
                        if !K::MULTISET && !(Some(len_before) == K::capacity(&inst.f) && !known) {
                            ctx.fail("C13", format!("qf insert({}) reported Full with len={} known={}", x, len_before, known));
                        }
                        "2".to_string()
                    }
                };
                self.check(ctx, i, "insert");
                vec![out]
            }
            "del" => {
                let x: u64 = p(&op[2]);
                let ctor = self.v[i].as_ref().unwrap().ctor.clone();
                let r = self.rep(ctx, &ctor, x);
                let inst = self.v[i].as_mut().unwrap();
                let res = K::delete(&mut inst.f, x).expect("delete unsupported");
                let have = inst.ms.get(&r).copied().unwrap_or(0);
                if res != (have > 0) {
                    ctx.fail("C14", format!("cuckoo delete({}) returned {} but {} copies stored", x, res, have));
                }
                if res && have > 0 {
                    *inst.ms.get_mut(&r).unwrap() -= 1;
                }
                self.check(ctx, i, "delete");
                vec![(res as u8).to_string()]
            }
            "q" => {
                let x: u64 = p(&op[2]);
                vec![(self.v[i].as_ref().unwrap().f.query(&x) as u8).to_string()]
            }
            "union" => {
                let j: usize = p(&op[2]);
                let other = self.v[j].as_ref().unwrap().clone();
                let inst = self.v[i].as_mut().unwrap();
                let before = full_obs::<K>(&inst.f, &ctx.uni);
                let res = inst.f.union(&other.f);
                let out = match res {
                    Ok(()) => {
                        for (k, c) in &other.ms {
                            if K::MULTISET {
                                *inst.ms.entry(*k).or_insert(0) += *c;
                            } else if *c > 0 {
                                inst.ms.insert(*k, 1);
                            }
                        }
                        if let Some(cap) = K::capacity(&inst.f) {
                            if inst.ms.values().filter(|c| **c > 0).count() > cap {
                                ctx.fail("C06", format!("qf union succeeded beyond capacity {}", cap));
                            }
                        }
                        "1".to_string()
                    }
                    Err(_) => {
                        if full_obs::<K>(&inst.f, &ctx.uni) != before {
                            ctx.fail("C12", format!("{} failed union changed the observable state", K::NAME));
                        }
                        if let Some(cap) = K::capacity(&inst.f) {
                            let mut all: std::collections::HashSet<u64> = inst.ms.iter().filter(|(_, c)| **c > 0).map(|(k, _)| *k).collect();
                            all.extend(other.ms.iter().filter(|(_, c)| **c > 0).map(|(k, _)| *k));
                            if all.len() <= cap {
                                ctx.fail("C06", format!("qf union failed although the union has {} <= {} classes", all.len(), cap));
                            }
                        }
                        "2".to_string()
                    }
                };
                self.check(ctx, i, "union");
                vec![out]
            }
            "clear" => {
                let inst = self.v[i].as_mut().unwrap();
                inst.f.clear();
                inst.ms.clear();
                self.check(ctx, i, "clear");
                vec!["unit".into()]
            }
            "clone" => {
                let j: usize = p(&op[2]);
                let c = self.v[i].as_ref().unwrap().clone();
                put(&mut self.v, j, c);
                vec!["unit".into()]
            }
            "obs" => obs::<K>(&self.v[i].as_ref().unwrap().f, &ctx.uni),
            "dobs" => full_obs::<K>(&self.v[i].as_ref().unwrap().f, &ctx.uni),
            _ => panic!("{}: unknown op {:?}", K::NAME, op),
        }
    }
    fn obs_all(&self, ctx: &Ctx) -> Vec<Option<Vec<String>>> {
        self.v.iter().map(|o| o.as_ref().map(|i| obs::<K>(&i.f, &ctx.uni))).collect()
    }
    fn touched(&self, op: &[String]) -> Vec<usize> {
        match op[0].as_str() {
            "clone" => vec![p(&op[2])],
            "q" | "obs" | "dobs" => vec![],
            _ => vec![p(&op[1])],
        }
    }
    fn ctor(&self, i: usize) -> Option<Vec<String>> {
        self.v.get(i).and_then(|o| o.as_ref()).map(|x| {
            let mut c = x.ctor.clone();
            c[1] = i.to_string();
            c
        })
    }
}
