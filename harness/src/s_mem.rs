//! Memory measurements (property C11) with a counting global allocator (main.rs).
//! ops: mem <structure> <params..> <nops> -> live bytes after construction, after nops operations, after 10*nops
//! operations, after clear(); the oracle compares them with the configuration-only bound.
use std::collections::hash_map::DefaultHasher;
use std::hash::BuildHasherDefault;
type BH = BuildHasherDefault<DefaultHasher>;

/// non-logging RNG (the recording wrappers of rec.rs keep logs, which would be counted)
pub struct PlainRng(u64);
impl rand::RngCore for PlainRng {
    fn next_u32(&mut self) -> u32 {
        self.next_u64() as u32
    }
    fn next_u64(&mut self) -> u64 {
        self.0 = self.0.wrapping_add(0x9E3779B97F4A7C15);
        crate::rec::splitmix(self.0)
    }
    fn fill_bytes(&mut self, dest: &mut [u8]) {
        for c in dest.chunks_mut(8) {
            let w = self.next_u64().to_le_bytes();
            c.copy_from_slice(&w[..c.len()]);
        }
    }
    fn try_fill_bytes(&mut self, dest: &mut [u8]) -> Result<(), rand::Error> {
        self.fill_bytes(dest);
        Ok(())
    }
}
use crate::{p, Ctx, Driver, TLIVE};
use pdatastructs::countminsketch::CountMinSketch;
use pdatastructs::filters::bloomfilter::BloomFilter;
use pdatastructs::filters::cuckoofilter::CuckooFilter;
use pdatastructs::filters::quotientfilter::QuotientFilter;
use pdatastructs::filters::Filter;
use pdatastructs::hyperloglog::HyperLogLog;
use pdatastructs::reservoirsampling::ReservoirSampling;
use pdatastructs::tdigest::{TDigest, K1};
use pdatastructs::topk::cmsheap::CMSHeap;
use pdatastructs::topk::lossycounter::LossyCounter;

#[derive(Default)]
pub struct D {}

fn live() -> i64 {
    TLIVE.with(|c| c.get())
}

/// runs `step(i)` for i in done..upto
fn drive<F: FnMut(u64)>(done: &mut u64, upto: u64, mut step: F) {
    while *done < upto {
        step(*done);
        *done += 1;
    }
}

impl Driver for D {
    fn exec(&mut self, ctx: &mut Ctx, op: &[String]) -> Vec<String> {
        let what = op[1].as_str();
        let a: Vec<u64> = op[2..].iter().map(|s| p::<u64>(s)).collect();
        let nops = *a.last().unwrap();
        let base = live();
        let mut done = 0u64;
        let mut out: Vec<i64> = vec![];
        // bound in bytes as a function of the configuration only (documented size), and the slack factor
        let bound: f64;
        match what {
            "bloom" => {
                let mut f = BloomFilter::<u64, BH>::with_params_and_hash(a[0] as usize, a[1] as usize, BH::default());
                bound = a[0] as f64 / 8.0;
                out.push(live() - base);
                for k in [1, 10] {
                    drive(&mut done, nops * k, |i| { f.insert(&i).unwrap(); });
                    out.push(live() - base);
                }
                f.clear();
                out.push(live() - base);
            }
            "cms" => {
                let mut f = CountMinSketch::<u64, u32, BH>::with_params_and_hasher(a[0] as usize, a[1] as usize, BH::default());
                bound = (a[0] * a[1] * 4) as f64;
                out.push(live() - base);
                for k in [1, 10] {
                    drive(&mut done, nops * k, |i| { f.add(&(i % 100_000)); });
                    out.push(live() - base);
                }
                f.clear();
                out.push(live() - base);
            }
            "hll" => {
                let mut f = HyperLogLog::<u64, BH>::with_hash(a[0] as usize, BH::default());
                bound = (1u64 << a[0]) as f64;
                out.push(live() - base);
                for k in [1, 10] {
                    drive(&mut done, nops * k, |i| f.add_hashed(crate::rec::splitmix(i)));
                    out.push(live() - base);
                }
                f.clear();
                out.push(live() - base);
            }
            "cuckoo" => {
                let mut f = CuckooFilter::<u64, PlainRng, BH>::with_params_and_hash(PlainRng(3), a[0] as usize, a[1] as usize, a[2] as usize, BH::default());
                bound = (a[0] * a[1] * a[2]) as f64 / 8.0;
                out.push(live() - base);
                for k in [1, 10] {
                    // inserts run into Full (failing inserts with 500 evictions and an undo log) for small tables
                    drive(&mut done, nops * k, |i| { let _ = f.insert(&i); });
                    out.push(live() - base);
                }
                f.clear();
                out.push(live() - base);
                for round in 0..60u64 {
                    for i in 0..8u64 {
                        let _ = f.insert(&(round * 8 + i));
                    }
                    f.clear();
                }
                out.push(live() - base);
            }
            "qf" => {
                let mut f = QuotientFilter::<u64, BH>::with_params_and_hash(a[0] as usize, a[1] as usize, BH::default());
                bound = ((1u64 << a[0]) * (a[1] + 3)) as f64 / 8.0;
                out.push(live() - base);
                for k in [1, 10] {
                    drive(&mut done, nops * k, |i| { let _ = f.insert(&i); });
                    out.push(live() - base);
                }
                f.clear();
                out.push(live() - base);
                for round in 0..60u64 {
                    for i in 0..8u64 {
                        let _ = f.insert(&(round * 8 + i));
                    }
                    f.clear();
                }
                out.push(live() - base);
            }
            "td" | "tdw" => {
                let delta = a[0] as f64;
                let mut f = TDigest::new(K1::new(delta), a[1] as usize);
                bound = (delta + 3.0 + a[1] as f64 + 1.0) * 16.0 * 2.0; // centroids + backlog, sorted copy during merge
                out.push(live() - base);
                let weighted = what == "tdw";
                for k in [1, 10] {
                    drive(&mut done, nops * k, |i| {
                        let x = (crate::rec::splitmix(i) % 1_000_003) as f64;
                        if weighted {
                            f.insert_weighted(x, 2.0 + (i % 3) as f64);
                        } else {
                            f.insert(x);
                        }
                    });
                    let _ = f.n_centroids();
                    out.push(live() - base);
                }
                f.clear();
                out.push(live() - base);
            }
            "res" => {
                let mut f = ReservoirSampling::<u64, PlainRng>::new(a[0] as usize, PlainRng(5));
                bound = (a[0] * 8) as f64;
                out.push(live() - base);
                for k in [1, 10] {
                    drive(&mut done, nops * k, |i| f.add(i));
                    out.push(live() - base);
                }
                f.clear();
                out.push(live() - base);
            }
            "heap" => {
                let mut f = CMSHeap::<u64>::new(a[0] as usize, CountMinSketch::with_params(a[1] as usize, a[2] as usize));
                // k items: map entry + tree entry + Rc allocation, generously 160 bytes each, plus the sketch
                bound = (a[0] * 160 + a[1] * a[2] * 8) as f64;
                out.push(live() - base);
                for k in [1, 10] {
                    drive(&mut done, nops * k, |i| f.add((crate::rec::splitmix(i) % 997) * (crate::rec::splitmix(i ^ 0x55) % 13) % 5000));
                    out.push(live() - base);
                }
                f.clear();
                out.push(live() - base);
            }
            "lossy" => {
                // documented O((1/eps) * log(eps*n)) entries: bound = width * (ln(n/width) + 2) entries of <= 64 bytes (hash map slack 2x)
                let mut f = LossyCounter::<u64>::with_width(a[0] as usize);
                out.push(live() - base);
                for k in [1, 10] {
                    drive(&mut done, nops * k + 37, |i| { f.add(crate::rec::splitmix(i) % 1_000_000); });
                    out.push(live() - base);
                }
                let n = (nops * 10) as f64;
                bound = (a[0] as f64) * ((n / a[0] as f64).max(1.0).ln() + 2.0) * 64.0;
                f.clear();
                out.push(live() - base);
            }
            _ => panic!("mem: unknown structure {}", what),
        }
        // everything is measured before any message is allocated
        let after = live() - base;
        let slack = 2.0 * bound + 2048.0;
        for (k, b) in out.iter().enumerate() {
            if (*b as f64) > slack {
                ctx.fail("C11", format!("{} {:?}: {} live bytes at stage {} (0 = new, 1 = n ops, 2 = 10n ops, 3 = cleared) exceed 2*{}+2048 (configuration bound)", what, a, b, k, bound as u64));
                break;
            }
        }
        if out.len() > 4 && out[4] > out[3] + 64 {
            ctx.fail("C11", format!("{} {:?}: live bytes grow with repeated clear(): {} after the first clear, {} after 60 more fill/clear rounds", what, a, out[3], out[4]));
        }
        if after > 64 {
            ctx.fail("C11", format!("{} {:?}: {} bytes still live after the structure was dropped", what, a, after));
        }
        out.iter().map(|x| x.max(&0).to_string()).collect()
    }
    fn obs_all(&self, _ctx: &Ctx) -> Vec<Option<Vec<String>>> {
        vec![]
    }
    fn touched(&self, _op: &[String]) -> Vec<usize> {
        vec![]
    }
    fn ctor(&self, _i: usize) -> Option<Vec<String>> {
        None
    }
}
