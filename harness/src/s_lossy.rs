//! LossyCounter driver. ops: new i w | neweps i epsbits | add i x | query i thbits | clear i | clone i j | obs i
use crate::{p, Ctx, Driver};
use pdatastructs::topk::lossycounter::LossyCounter;
use std::collections::HashMap;

#[derive(Clone)]
struct Inst {
    f: LossyCounter<u64>,
    ctor: Vec<String>,
    exact: HashMap<u64, u64>,
    n: u64,
}

#[derive(Default)]
pub struct D {
    v: Vec<Option<Inst>>,
}

fn put<T>(v: &mut Vec<Option<T>>, i: usize, x: T) {
    while v.len() <= i {
        v.push(None);
    }
    v[i] = Some(x);
}

fn sorted(mut v: Vec<u64>) -> Vec<u64> {
    v.sort_unstable();
    v
}

fn obs(f: &LossyCounter<u64>) -> Vec<String> {
    let mut r: Vec<String> = sorted(f.query(0.0).collect()).iter().map(|x| x.to_string()).collect();
    r.push(f.n().to_string());
    r
}

/// harmonic number H(j) as f64 (only used for the size bound, with a 1e-9 margin)
fn harmonic(j: u64) -> f64 {
    (1..=j).map(|i| 1.0 / i as f64).sum()
}

impl D {
    /// C09 oracle at the current prefix, for one threshold (exact integer arithmetic on width; the
    /// float epsilon() is 1/width up to one rounding, which the comparison ignores by design, see DESIGN 8.9)
    fn check_query(&self, ctx: &mut Ctx, i: usize, th: f64, got: &[u64]) {
        let inst = self.v[i].as_ref().unwrap();
        let n = inst.n as f64;
        let w = inst.f.width() as u64;
        let eps = inst.f.epsilon();
        for (x, c) in &inst.exact {
            // completeness: true >= s*n and true > n/width (exact) => reported
            if (*c as f64) >= th * n * (1.0 + 1e-12) && c * w > inst.n && !got.contains(x) {
                ctx.fail("C09", format!("query({}) misses key {} with true count {} (n={}, width={})", th, x, c, inst.n, w));
                return;
            }
        }
        for x in got {
            let c = *inst.exact.get(x).unwrap_or(&0) as f64;
            if c < (th - eps) * n * (1.0 - 1e-12) - 1e-9 {
                ctx.fail("C09", format!("query({}) reports key {} with true count {} < (s-eps)*n (n={}, eps={})", th, x, c, inst.n, eps));
                return;
            }
            if !inst.exact.contains_key(x) {
                ctx.fail("C09", format!("query({}) reports key {} that was never added", th, x));
                return;
            }
        }
    }
}

impl Driver for D {
    fn exec(&mut self, ctx: &mut Ctx, op: &[String]) -> Vec<String> {
        let i: usize = p(&op[1]);
        match op[0].as_str() {
            "new" => {
                let f = LossyCounter::<u64>::with_width(p(&op[2]));
                let r = vec![f.epsilon().to_bits().to_string()];
                put(&mut self.v, i, Inst { f, ctor: op.to_vec(), exact: HashMap::new(), n: 0 });
                r
            }
            "neweps" => {
                let e = f64::from_bits(p::<u64>(&op[2]));
                let f = LossyCounter::<u64>::with_epsilon(e);
                let r = vec![f.width().to_string()];
                put(&mut self.v, i, Inst { f, ctor: op.to_vec(), exact: HashMap::new(), n: 0 });
                r
            }
            "add" => {
                let x: u64 = p(&op[2]);
                let inst = self.v[i].as_mut().unwrap();
                let tracked_before = inst.f.query(0.0).any(|y| y == x);
                let r = inst.f.add(x);
                *inst.exact.entry(x).or_insert(0) += 1;
                inst.n += 1;
                if r == tracked_before {
                    ctx.fail("C09", format!("add({}) returned {} but tracked-before={}", x, r, tracked_before));
                }
                if inst.f.n() as u64 != inst.n {
                    ctx.fail("C09", format!("n()={} after {} adds", inst.f.n(), inst.n));
                }
                // size bound: |query(0)| <= width*(H(ceil(n/width))+1)
                let w = inst.f.width() as u64;
                let size = inst.f.query(0.0).count() as f64;
                let bound = (w as f64) * (harmonic((inst.n + w - 1) / w) + 1.0);
                if size > bound * (1.0 + 1e-9) {
                    ctx.fail("C09", format!("{} tracked entries exceed width*(H+1)={} at n={}", size, bound, inst.n));
                }
                // completeness/soundness at this prefix for a few thresholds
                for th in [0.0, 0.05, 0.2, 0.5, 1.0] {
                    let got: Vec<u64> = self.v[i].as_ref().unwrap().f.query(th).collect();
                    self.check_query(ctx, i, th, &got);
                }
                vec![(r as u8).to_string()]
            }
            "query" => {
                let th = f64::from_bits(p::<u64>(&op[2]));
                let got = sorted(self.v[i].as_ref().unwrap().f.query(th).collect());
                self.check_query(ctx, i, th, &got);
                got.iter().map(|x| x.to_string()).collect()
            }
            "clear" => {
                let inst = self.v[i].as_mut().unwrap();
                inst.f.clear();
                inst.exact.clear();
                inst.n = 0;
                if inst.f.n() != 0 || inst.f.query(0.0).count() != 0 {
                    ctx.fail("C19", "lossy counter not empty after clear".into());
                }
                vec!["unit".into()]
            }
            "clone" => {
                let j: usize = p(&op[2]);
                let c = self.v[i].as_ref().unwrap().clone();
                put(&mut self.v, j, c);
                vec!["unit".into()]
            }
            "obs" => obs(&self.v[i].as_ref().unwrap().f),
            _ => panic!("lossy: unknown op {:?}", op),
        }
    }
    fn obs_all(&self, _ctx: &Ctx) -> Vec<Option<Vec<String>>> {
        self.v.iter().map(|o| o.as_ref().map(|i| obs(&i.f))).collect()
    }
    fn touched(&self, op: &[String]) -> Vec<usize> {
        match op[0].as_str() {
            "clone" => vec![p(&op[2])],
            "obs" | "query" => vec![],
            _ => vec![p(&op[1])],
        }
    }
    fn ctor(&self, i: usize) -> Option<Vec<String>> {
        self.v.get(i).and_then(|o| o.as_ref()).map(|x| {
            let mut c = x.ctor.clone();
            c[1] = i.to_string();
            c
        })
    }
}
