//! BloomFilter driver. ops: new i m k | props i n pbits | ins i x | q i x | union i j | clear i |
//! clone i j | obs i | len i | empty i
use crate::rec::RecBuild;
use crate::{p, Ctx, Driver};
use pdatastructs::filters::bloomfilter::BloomFilter;
use pdatastructs::filters::Filter;

#[derive(Clone)]
struct Inst {
    f: BloomFilter<u64, RecBuild>,
    ctor: Vec<String>,
    live: Vec<u64>, // keys inserted since the last clear (incl. via union), in order
}

#[derive(Default)]
pub struct D {
    v: Vec<Option<Inst>>,
}

fn put(v: &mut Vec<Option<Inst>>, i: usize, x: Inst) {
    while v.len() <= i {
        v.push(None);
    }
    v[i] = Some(x);
}

fn obs(f: &BloomFilter<u64, RecBuild>, uni: &[u64]) -> Vec<String> {
    let mut r: Vec<String> = uni.iter().map(|x| (f.query(x) as u8).to_string()).collect();
    r.push((f.is_empty() as u8).to_string());
    r
}

impl D {
    fn check(&mut self, ctx: &mut Ctx, i: usize, what: &str) {
        let inst = self.v[i].as_ref().unwrap();
        // C01: no false negatives
        for x in &inst.live {
            if !inst.f.query(x) {
                ctx.fail("C01", format!("bloom false negative key={} after {}", x, what));
                break;
            }
        }
    }
}

impl Driver for D {
    fn exec(&mut self, ctx: &mut Ctx, op: &[String]) -> Vec<String> {
        let i: usize = p(&op[1]);
        match op[0].as_str() {
            "new" => {
                let f = BloomFilter::with_params_and_hash(p(&op[2]), p(&op[3]), ctx.bh.clone());
                put(&mut self.v, i, Inst { f, ctor: op.to_vec(), live: vec![] });
                vec!["unit".into()]
            }
            "props" => {
                let pr = f64::from_bits(p::<u64>(&op[3]));
                let f = BloomFilter::<u64, RecBuild>::with_properties_and_hash(p(&op[2]), pr, ctx.bh.clone());
                let r = vec![f.m().to_string(), f.k().to_string()];
                if f.k() < 1 || f.m() < 1 {
                    ctx.fail("C07", format!("bloom with_properties({}, {}) unusable: m={} k={}", op[2], pr, f.m(), f.k()));
                }
                put(&mut self.v, i, Inst { f, ctor: op.to_vec(), live: vec![] });
                r
            }
            "ins" => {
                let x: u64 = p(&op[2]);
                let inst = self.v[i].as_mut().unwrap();
                let r = inst.f.insert(&x).unwrap();
                inst.live.push(x);
                if inst.f.is_empty() {
                    if inst.f.k() == 0 {
                        ctx.fail("C19", format!("kf=bloom-k0 bloom with_params({}, 0): is_empty() stays true after an insert", inst.f.m()));
                    } else {
                        ctx.fail("C19", "bloom is_empty() true after an insert".into());
                    }
                }
                self.check(ctx, i, "insert");
                vec![(r as u8).to_string()]
            }
            "q" => {
                let x: u64 = p(&op[2]);
                vec![(self.v[i].as_ref().unwrap().f.query(&x) as u8).to_string()]
            }
            "union" => {
                let j: usize = p(&op[2]);
                let other = self.v[j].as_ref().unwrap().clone();
                let inst = self.v[i].as_mut().unwrap();
                inst.f.union(&other.f).unwrap();
                inst.live.extend(other.live.iter());
                self.check(ctx, i, "union");
                // C06: equivalent to a fresh structure that received both streams
                let inst = self.v[i].as_ref().unwrap();
                let mut reference = BloomFilter::with_params_and_hash(inst.f.m(), inst.f.k(), ctx.bh.clone());
                for x in &inst.live {
                    reference.insert(x).unwrap();
                }
                if obs(&reference, &ctx.uni) != obs(&inst.f, &ctx.uni) || reference.len() != inst.f.len() {
                    ctx.fail("C06", format!("bloom union differs from reference fed both streams ({} keys)", inst.live.len()));
                }
                vec!["unit".into()]
            }
            "clear" => {
                let inst = self.v[i].as_mut().unwrap();
                inst.f.clear();
                inst.live.clear();
                if !inst.f.is_empty() {
                    ctx.fail("C19", "bloom not empty after clear".into());
                }
                vec!["unit".into()]
            }
            "clone" => {
                let j: usize = p(&op[2]);
                let c = self.v[i].as_ref().unwrap().clone();
                put(&mut self.v, j, c);
                vec!["unit".into()]
            }
            "obs" => obs(&self.v[i].as_ref().unwrap().f, &ctx.uni),
            "len" => {
                let f = &self.v[i].as_ref().unwrap().f;
                vec![f.len().to_string()]
            }
            "empty" => vec![(self.v[i].as_ref().unwrap().f.is_empty() as u8).to_string()],
            _ => panic!("bloom: unknown op {:?}", op),
        }
    }
    fn obs_all(&self, ctx: &Ctx) -> Vec<Option<Vec<String>>> {
        self.v.iter().map(|o| o.as_ref().map(|i| obs(&i.f, &ctx.uni))).collect()
    }
    fn touched(&self, op: &[String]) -> Vec<usize> {
        match op[0].as_str() {
            "clone" => vec![p(&op[2])],
            "q" | "obs" | "len" | "empty" => vec![],
            _ => vec![p(&op[1])],
        }
    }
    fn ctor(&self, i: usize) -> Option<Vec<String>> {
        self.v.get(i).and_then(|o| o.as_ref()).map(|x| {
            let mut c = x.ctor.clone();
            c[1] = i.to_string();
            c
        })
    }
}
