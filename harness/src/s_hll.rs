//! HyperLogLog driver. ops: new i b | fromregs i b r.. | addh i h | add i x | merge i j | clear i |
//! clone i j | regs i | count i | empty i | relerr i | ser i | de i <json-without-spaces>
use crate::rec::RecBuild;
use crate::{p, Ctx, Driver};
use pdatastructs::hyperloglog::HyperLogLog;

#[derive(Clone)]
struct Inst {
    f: HyperLogLog<u64, RecBuild>,
    ctor: Vec<String>,
    hashes: Option<Vec<u64>>, // all hashes added since the last clear (None: built from raw registers)
}

#[derive(Default)]
pub struct D {
    v: Vec<Option<Inst>>,
}

fn put<T>(v: &mut Vec<Option<T>>, i: usize, x: T) {
    while v.len() <= i {
        v.push(None);
    }
    v[i] = Some(x);
}

/// sparse register dump: idx val idx val ... (non-zero registers only), then m
pub fn regs_tokens(r: &[u8]) -> Vec<String> {
    let mut out = vec![];
    for (i, &x) in r.iter().enumerate() {
        if x != 0 {
            out.push(i.to_string());
            out.push(x.to_string());
        }
    }
    out.push(r.len().to_string());
    out
}

fn spec_regs(b: usize, hs: &[u64]) -> Vec<u8> {
    // C17: register j = max over hashes with low b bits = j of the 1-based position of the first
    // set bit among the remaining 64-b bits (64-b+1 if there is none)
    let mut r = vec![0u8; 1 << b];
    for &h in hs {
        let j = (h & ((1u64 << b) - 1)) as usize;
        let w = h >> b;
        let mut rank = (64 - b + 1) as u8;
        for t in 0..(64 - b) {
            if (w >> (64 - b - 1 - t)) & 1 == 1 {
                rank = (t + 1) as u8;
                break;
            }
        }
        if rank > r[j] {
            r[j] = rank;
        }
    }
    r
}

impl D {
    fn check(&mut self, ctx: &mut Ctx, i: usize, what: &str) {
        let inst = self.v[i].as_ref().unwrap();
        if let Some(hs) = &inst.hashes {
            let want = spec_regs(inst.f.b(), hs);
            if want != inst.f.registers() {
                ctx.fail("C17", format!("hll registers differ from spec after {} ({} hashes, b={})", what, hs.len(), inst.f.b()));
            }
            if inst.f.is_empty() != hs.is_empty() {
                ctx.fail("C19", format!("hll is_empty={} with {} hashes", inst.f.is_empty(), hs.len()));
            }
        }
    }
}

impl Driver for D {
    fn exec(&mut self, ctx: &mut Ctx, op: &[String]) -> Vec<String> {
        let i: usize = p(&op[1]);
        match op[0].as_str() {
            "new" => {
                let f = HyperLogLog::with_hash(p(&op[2]), ctx.bh.clone());
                put(&mut self.v, i, Inst { f, ctor: op.to_vec(), hashes: Some(vec![]) });
                vec!["unit".into()]
            }
            "fromregs" => {
                let regs: Vec<u8> = op[3..].iter().map(|s| p::<u8>(s)).collect();
                let f = HyperLogLog::with_registers_and_hash(p(&op[2]), regs, ctx.bh.clone());
                put(&mut self.v, i, Inst { f, ctor: op.to_vec(), hashes: None });
                vec!["unit".into()]
            }
            "addh" => {
                let h: u64 = p(&op[2]);
                let inst = self.v[i].as_mut().unwrap();
                inst.f.add_hashed(h);
                if let Some(hs) = inst.hashes.as_mut() {
                    hs.push(h);
                }
                self.check(ctx, i, "add_hashed");
                vec!["unit".into()]
            }
            "add" => {
                let x: u64 = p(&op[2]);
                let h = ctx.bh.eval(None, Some(x));
                let inst = self.v[i].as_mut().unwrap();
                // C17: add(x) = add_hashed(hash_one(x))
                let mut twin = inst.f.clone();
                twin.add_hashed(h);
                inst.f.add(&x);
                if twin.registers() != inst.f.registers() {
                    ctx.fail("C17", format!("hll add({}) differs from add_hashed(hash_one)", x));
                }
                if let Some(hs) = inst.hashes.as_mut() {
                    hs.push(h);
                }
                self.check(ctx, i, "add");
                vec!["unit".into()]
            }
            "fill" => {
                // n pseudo-random 64-bit hashes from a splitmix stream (statistical accuracy search)
                let n: u64 = p(&op[2]);
                let mut z: u64 = p(&op[3]);
                let inst = self.v[i].as_mut().unwrap();
                for _ in 0..n {
                    z = z.wrapping_add(0x9E3779B97F4A7C15);
                    inst.f.add_hashed(crate::rec::splitmix(z));
                }
                inst.hashes = None;
                vec!["unit".into()]
            }
            "merge" => {
                let j: usize = p(&op[2]);
                let other = self.v[j].as_ref().unwrap().clone();
                let inst = self.v[i].as_mut().unwrap();
                inst.f.merge(&other.f);
                match (inst.hashes.as_mut(), &other.hashes) {
                    (Some(a), Some(b)) => a.extend(b.iter()),
                    _ => inst.hashes = None,
                }
                self.check(ctx, i, "merge");
                let inst = self.v[i].as_ref().unwrap();
                if let Some(hs) = &inst.hashes {
                    // C06: reference fed both streams
                    let mut reference = HyperLogLog::<u64, RecBuild>::with_hash(inst.f.b(), ctx.bh.clone());
                    for h in hs {
                        reference.add_hashed(*h);
                    }
                    if reference.registers() != inst.f.registers() || reference.count() != inst.f.count() || reference != inst.f {
                        ctx.fail("C06", "hll merge differs from reference fed both streams".into());
                    }
                }
                vec!["unit".into()]
            }
            "clear" => {
                let inst = self.v[i].as_mut().unwrap();
                inst.f.clear();
                inst.hashes = Some(vec![]);
                self.check(ctx, i, "clear");
                vec!["unit".into()]
            }
            "clone" => {
                let j: usize = p(&op[2]);
                let c = self.v[i].as_ref().unwrap().clone();
                put(&mut self.v, j, c);
                vec!["unit".into()]
            }
            "regs" => regs_tokens(self.v[i].as_ref().unwrap().f.registers()),
            "count" => {
                let inst = self.v[i].as_ref().unwrap();
                let c = inst.f.count();
                if inst.f.registers().iter().all(|r| *r == 0) && c != 0 {
                    ctx.fail("C03", format!("empty sketch counts {} (b={})", c, inst.f.b()));
                }
                if let Some(d) = ctx.cfg.get("distinct") {
                    let d: i64 = p(d);
                    if inst.f.b() >= 9 && d <= 8 && (c as i64 - d).abs() > 2 {
                        ctx.fail("C03", format!("{} distinct elements counted as {} (b={})", d, c, inst.f.b()));
                    }
                }
                vec![c.to_string()]
            }
            "empty" => vec![(self.v[i].as_ref().unwrap().f.is_empty() as u8).to_string()],
            "relerr" => vec![self.v[i].as_ref().unwrap().f.relative_error().to_bits().to_string()],
            _ => panic!("hll: unknown op {:?}", op),
        }
    }
    fn obs_all(&self, _ctx: &Ctx) -> Vec<Option<Vec<String>>> {
        self.v.iter().map(|o| o.as_ref().map(|i| regs_tokens(i.f.registers()))).collect()
    }
    fn touched(&self, op: &[String]) -> Vec<usize> {
        match op[0].as_str() {
            "clone" => vec![p(&op[2])],
            "regs" | "count" | "empty" | "relerr" => vec![],
            _ => vec![p(&op[1])],
        }
    }
    fn ctor(&self, i: usize) -> Option<Vec<String>> {
        self.v.get(i).and_then(|o| o.as_ref()).and_then(|x| {
            if x.ctor[0] == "fromregs" {
                return Some(vec!["new".to_string(), i.to_string(), x.f.b().to_string()]);
            }
            let mut c = x.ctor.clone();
            c[1] = i.to_string();
            Some(c)
        })
    }
}
