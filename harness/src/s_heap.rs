//! CMSHeap driver. ops: new i k w d | add i x | iter i | clear i | clone i j
//! CMSHeap fixes the sketch's hasher type (BuildHasherDefault<DefaultHasher>), so the hash values the
//! model needs are recomputed here the way HashIterBuilder computes them and emitted into the hash log.
use crate::rec::{Kind, RecBuild};
use crate::{p, Ctx, Driver};
use pdatastructs::countminsketch::CountMinSketch;
use pdatastructs::topk::cmsheap::CMSHeap;
use std::collections::HashMap;

#[derive(Clone)]
struct Inst {
    f: CMSHeap<u64>,
    shadow: CountMinSketch<u64>, // same parameters and hasher: supplies E, the largest overestimate
    ctor: Vec<String>,
    exact: HashMap<u64, usize>,
    k: usize,
}

#[derive(Default)]
pub struct D {
    v: Vec<Option<Inst>>,
}

fn put<T>(v: &mut Vec<Option<T>>, i: usize, x: T) {
    while v.len() <= i {
        v.push(None);
    }
    v[i] = Some(x);
}

fn obs(f: &CMSHeap<u64>) -> Vec<String> {
    let mut r: Vec<String> = f.iter().map(|x| x.to_string()).collect();
    r.push((f.is_empty() as u8).to_string());
    r
}

impl D {
    fn check(&self, ctx: &mut Ctx, i: usize) {
        let inst = self.v[i].as_ref().unwrap();
        let res: Vec<u64> = inst.f.iter().collect();
        let distinct = inst.exact.len();
        if res.len() != inst.k.min(distinct) {
            ctx.fail("C10", format!("iter() yields {} elements, expected min(k={}, distinct={})", res.len(), inst.k, distinct));
        }
        let mut s = std::collections::HashSet::new();
        for x in &res {
            if !inst.exact.contains_key(x) {
                ctx.fail("C10", format!("iter() yields {} which was never added", x));
            }
            if !s.insert(*x) {
                ctx.fail("C10", format!("iter() yields {} twice", x));
            }
        }
        if inst.f.is_empty() != inst.exact.is_empty() {
            ctx.fail("C19", format!("cmsheap is_empty()={} with {} distinct elements", inst.f.is_empty(), distinct));
        }
        // E = largest overestimate of the sketch on this stream
        let e = inst.exact.iter().map(|(x, c)| inst.shadow.query_point(x).saturating_sub(*c)).max().unwrap_or(0);
        for (x, c) in &inst.exact {
            if res.contains(x) {
                continue;
            }
            let better = res.iter().filter(|z| inst.exact[*z] + e >= *c).count();
            if better < inst.k {
                ctx.fail("C10", format!("key {} (true count {}) missing although only {} result elements have count >= {}-E (E={}, k={})", x, c, better, c, e, inst.k));
                return;
            }
        }
    }
}

impl Driver for D {
    fn exec(&mut self, ctx: &mut Ctx, op: &[String]) -> Vec<String> {
        let i: usize = p(&op[1]);
        match op[0].as_str() {
            "new" => {
                let (k, w, d): (usize, usize, usize) = (p(&op[2]), p(&op[3]), p(&op[4]));
                let f = CMSHeap::new(k, CountMinSketch::with_params(w, d));
                let shadow = CountMinSketch::with_params(w, d);
                // hash values for the model: shifts f_i = H(i+2, -)
                let sip = RecBuild::new(Kind::Sip);
                for r in 0..d {
                    let h = sip.eval(Some(r as u64 + 2), None);
                    ctx.bh.log.borrow_mut().insert((Some(r as u64 + 2), None, h));
                }
                put(&mut self.v, i, Inst { f, shadow, ctor: op.to_vec(), exact: HashMap::new(), k });
                vec!["unit".into()]
            }
            "add" => {
                let x: u64 = p(&op[2]);
                let sip = RecBuild::new(Kind::Sip);
                for iv in 0..2u64 {
                    let h = sip.eval(Some(iv), Some(x));
                    ctx.bh.log.borrow_mut().insert((Some(iv), Some(x), h));
                }
                let inst = self.v[i].as_mut().unwrap();
                inst.f.add(x);
                inst.shadow.add(&x);
                *inst.exact.entry(x).or_insert(0) += 1;
                self.check(ctx, i);
                vec!["unit".into()]
            }
            "iter" => obs(&self.v[i].as_ref().unwrap().f),
            "clear" => {
                let inst = self.v[i].as_mut().unwrap();
                inst.f.clear();
                inst.shadow.clear();
                inst.exact.clear();
                self.check(ctx, i);
                vec!["unit".into()]
            }
            "clone" => {
                let j: usize = p(&op[2]);
                let c = self.v[i].as_ref().unwrap().clone();
                put(&mut self.v, j, c);
                vec!["unit".into()]
            }
            _ => panic!("heap: unknown op {:?}", op),
        }
    }
    fn obs_all(&self, _ctx: &Ctx) -> Vec<Option<Vec<String>>> {
        self.v.iter().map(|o| o.as_ref().map(|i| obs(&i.f))).collect()
    }
    fn touched(&self, op: &[String]) -> Vec<usize> {
        match op[0].as_str() {
            "clone" => vec![p(&op[2])],
            "iter" => vec![],
            _ => vec![p(&op[1])],
        }
    }
    fn ctor(&self, i: usize) -> Option<Vec<String>> {
        self.v.get(i).and_then(|o| o.as_ref()).map(|x| {
            let mut c = x.ctor.clone();
            c[1] = i.to_string();
            c
        })
    }
}
