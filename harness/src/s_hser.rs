//! HyperLogLog serde driver (property C20). ops:
//!   new i b seed | addh i h | ser i | de i <fields..> | regs i | count i | merge i j | eq i j
//! `de` fields, in the order given: `R n v1..vn` (registers), `B v`, `H seed` (buildhasher), `U` (an unknown field).
//! Results: ser -> `b seed <sparse registers> m`; de -> `2` (rejected) or `1 b seed <sparse registers> m`.
use crate::s_hll::regs_tokens;
use crate::{p, Ctx, Driver};
use pdatastructs::hyperloglog::HyperLogLog;
use serde::{Deserialize, Serialize};
use std::hash::{BuildHasher, Hasher};
use std::panic::{catch_unwind, AssertUnwindSafe};

#[derive(Clone, Debug, Serialize, Deserialize, Eq, PartialEq)]
pub struct SerHasher {
    seed: u64,
}
pub struct SerH(u64);
impl Hasher for SerH {
    fn finish(&self) -> u64 {
        crate::rec::splitmix(self.0)
    }
    fn write(&mut self, bytes: &[u8]) {
        for b in bytes {
            self.0 = self.0.rotate_left(8) ^ (*b as u64);
        }
    }
}
impl BuildHasher for SerHasher {
    type Hasher = SerH;
    fn build_hasher(&self) -> SerH {
        SerH(self.seed)
    }
}

type Hll = HyperLogLog<u64, SerHasher>;

#[derive(Default)]
pub struct D {
    v: Vec<Option<Hll>>,
}

fn put<T>(v: &mut Vec<Option<T>>, i: usize, x: T) {
    while v.len() <= i {
        v.push(None);
    }
    v[i] = Some(x);
}

fn dump(f: &Hll) -> Vec<String> {
    let mut r = vec![f.b().to_string(), f.buildhasher().seed.to_string()];
    r.extend(regs_tokens(f.registers()));
    r
}

const PROBES: [u64; 6] = [0, u64::MAX, 1 << 40, 0x1234_5678_9abc_def0, 17, 1 << 63];

impl Driver for D {
    fn exec(&mut self, ctx: &mut Ctx, op: &[String]) -> Vec<String> {
        let i: usize = p(&op[1]);
        match op[0].as_str() {
            "new" => {
                put(&mut self.v, i, Hll::with_hash(p(&op[2]), SerHasher { seed: p(&op[3]) }));
                vec!["unit".into()]
            }
            "addh" => {
                self.v[i].as_mut().unwrap().add_hashed(p(&op[2]));
                vec!["unit".into()]
            }
            "ser" => {
                let f = self.v[i].as_ref().unwrap();
                let json = serde_json::to_string(f).expect("serialise");
                // C20 round trip on the crate itself
                match serde_json::from_str::<Hll>(&json) {
                    Ok(mut g) => {
                        let mut h = f.clone();
                        if &g != f || g.b() != f.b() || g.registers() != f.registers() || g.count() != f.count() {
                            ctx.fail("C20", format!("round trip changed the sketch (b={})", f.b()));
                        }
                        for x in PROBES {
                            g.add_hashed(x);
                            h.add_hashed(x);
                            g.add(&x);
                            h.add(&x);
                        }
                        if g != h || g.registers() != h.registers() {
                            ctx.fail("C20", "deserialised sketch reacts differently to further adds".into());
                        }
                        g.merge(f);
                        h.merge(f);
                        if g != h {
                            ctx.fail("C20", "deserialised sketch reacts differently to merge".into());
                        }
                    }
                    Err(e) => ctx.fail("C20", format!("own serialisation rejected: {}", e)),
                }
                // every order of the three fields must be accepted and give the same sketch
                {
                    let doc: serde_json::Value = serde_json::from_str(&json).unwrap();
                    let obj = doc.as_object().unwrap();
                    let parts: Vec<String> = ["registers", "b", "buildhasher"].iter().map(|k| format!("\"{}\":{}", k, obj[*k])).collect();
                    for perm in [[0, 1, 2], [0, 2, 1], [1, 0, 2], [1, 2, 0], [2, 0, 1], [2, 1, 0]] {
                        let txt = format!("{{{},{},{}}}", parts[perm[0]], parts[perm[1]], parts[perm[2]]);
                        match serde_json::from_str::<Hll>(&txt) {
                            Ok(g) => {
                                if &g != f {
                                    ctx.fail("C20", format!("field order {:?} deserialises to a different sketch", perm));
                                }
                            }
                            Err(e) => ctx.fail("C20", format!("field order {:?} of the own serialisation rejected: {}", perm, e)),
                        }
                    }
                    // a duplicated field must be rejected whatever its position
                    for dup in 0..3 {
                        for pos in 0..4 {
                            let mut v: Vec<String> = parts.clone();
                            v.insert(pos, parts[dup].clone());
                            let txt = format!("{{{}}}", v.join(","));
                            if serde_json::from_str::<Hll>(&txt).is_ok() {
                                ctx.fail("C20", format!("document with field {} duplicated at position {} accepted", dup, pos));
                            }
                        }
                    }
                }
                // report the document as parsed generically (field order, values)
                let doc: serde_json::Value = serde_json::from_str(&json).unwrap();
                let obj = doc.as_object().expect("object");
                let mut r = vec![];
                r.push(obj["b"].as_u64().unwrap().to_string());
                r.push(obj["buildhasher"]["seed"].as_u64().unwrap().to_string());
                let regs: Vec<u8> = obj["registers"].as_array().unwrap().iter().map(|x| x.as_u64().unwrap() as u8).collect();
                r.extend(regs_tokens(&regs));
                if obj.len() != 3 {
                    ctx.fail("C20", format!("serialised document has {} fields", obj.len()));
                }
                r
            }
            "de" => {
                let mut parts = vec![];
                let mut k = 2;
                while k < op.len() {
                    match op[k].as_str() {
                        "R" => {
                            let n: usize = p(&op[k + 1]);
                            let vals: Vec<String> = op[k + 2..k + 2 + n].to_vec();
                            parts.push(format!("\"registers\":[{}]", vals.join(",")));
                            k += 2 + n;
                        }
                        "B" => {
                            parts.push(format!("\"b\":{}", op[k + 1]));
                            k += 2;
                        }
                        "H" => {
                            parts.push(format!("\"buildhasher\":{{\"seed\":{}}}", op[k + 1]));
                            k += 2;
                        }
                        "U" => {
                            parts.push("\"bogus\":1".to_string());
                            k += 1;
                        }
                        other => panic!("de: bad field token {}", other),
                    }
                }
                let json = format!("{{{}}}", parts.join(","));
                match serde_json::from_str::<Hll>(&json) {
                    Err(_) => vec!["2".into()],
                    Ok(f) => {
                        // accepted documents must satisfy the constructor invariants and be usable
                        if !(4..=18).contains(&f.b()) || f.registers().len() != (1usize << f.b().min(40)) {
                            ctx.fail("C20", format!("accepted document violates invariants: b={} len={}", f.b(), f.registers().len()));
                        }
                        let usable = catch_unwind(AssertUnwindSafe(|| {
                            let mut g = f.clone();
                            for x in PROBES {
                                g.add_hashed(x);
                                g.add(&x);
                            }
                            let _ = g.count();
                            let _ = f.count();
                            let mut h = f.clone();
                            h.merge(&g);
                            h.count()
                        }));
                        if usable.is_err() {
                            ctx.fail("C20", format!("add/count/merge panics on an accepted document (b={}, len={})", f.b(), f.registers().len()));
                        }
                        let mut r = vec!["1".to_string()];
                        r.extend(dump(&f));
                        put(&mut self.v, i, f);
                        r
                    }
                }
            }
            "regs" => regs_tokens(self.v[i].as_ref().unwrap().registers()),
            "count" => vec![self.v[i].as_ref().unwrap().count().to_string()],
            "merge" => {
                let j: usize = p(&op[2]);
                let other = self.v[j].as_ref().unwrap().clone();
                self.v[i].as_mut().unwrap().merge(&other);
                vec!["unit".into()]
            }
            "eq" => {
                let j: usize = p(&op[2]);
                vec![((self.v[i].as_ref().unwrap() == self.v[j].as_ref().unwrap()) as u8).to_string()]
            }
            _ => panic!("hser: unknown op {:?}", op),
        }
    }
    fn obs_all(&self, _ctx: &Ctx) -> Vec<Option<Vec<String>>> {
        self.v.iter().map(|o| o.as_ref().map(|f| dump(f))).collect()
    }
    fn touched(&self, op: &[String]) -> Vec<usize> {
        match op[0].as_str() {
            "new" | "addh" | "de" | "merge" => vec![p(&op[1])],
            _ => vec![],
        }
    }
    fn ctor(&self, _i: usize) -> Option<Vec<String>> {
        None
    }
}
