//! Recording hasher / RNG wrappers: everything the harness controls is injected through the
//! crate's own type parameters (BuildHasher, Rng, ScaleFunction) - no hook in the crate.
use std::cell::RefCell;
use std::collections::hash_map::DefaultHasher;
use std::collections::{BTreeSet, HashMap, VecDeque};
use std::hash::{BuildHasher, Hasher};
use std::rc::Rc;

pub type HKey = (Option<u64>, Option<u64>);
pub type HLog = Rc<RefCell<BTreeSet<(Option<u64>, Option<u64>, u64)>>>;

#[derive(Clone, Debug, PartialEq, Eq)]
pub enum Kind {
    Sip,
    Seeded(usize),
    Script(u64),
}

pub fn splitmix(mut z: u64) -> u64 {
    z = z.wrapping_add(0x9E3779B97F4A7C15);
    z = (z ^ (z >> 30)).wrapping_mul(0xBF58476D1CE4E5B9);
    z = (z ^ (z >> 27)).wrapping_mul(0x94D049BB133111EB);
    z ^ (z >> 31)
}

/// BuildHasher that logs every (iv, value) -> finish it computes.
#[derive(Clone, Debug)]
pub struct RecBuild {
    pub kind: Kind,
    pub table: Rc<RefCell<HashMap<HKey, u64>>>,
    pub log: HLog,
}

impl PartialEq for RecBuild {
    fn eq(&self, o: &Self) -> bool {
        self.kind == o.kind && Rc::ptr_eq(&self.table, &o.table)
    }
}
impl Eq for RecBuild {}

impl RecBuild {
    pub fn new(kind: Kind) -> Self {
        Self { kind, table: Rc::new(RefCell::new(HashMap::new())), log: Rc::new(RefCell::new(BTreeSet::new())) }
    }
    pub fn parse(s: &str) -> Self {
        if s == "sip" {
            Self::new(Kind::Sip)
        } else if let Some(r) = s.strip_prefix("seeded:") {
            Self::new(Kind::Seeded(r.parse().unwrap()))
        } else if let Some(r) = s.strip_prefix("script:") {
            Self::new(Kind::Script(r.parse().unwrap()))
        } else {
            panic!("bad hasher {}", s)
        }
    }
    /// evaluate the hash function directly (same path as the crate takes)
    pub fn eval(&self, iv: Option<u64>, val: Option<u64>) -> u64 {
        let mut h = self.build_hasher();
        if let Some(i) = iv {
            h.write_usize(i as usize);
        }
        if let Some(v) = val {
            h.write_u64(v);
        }
        h.finish()
    }
}

pub struct RecHasher {
    inner: DefaultHasher,
    kind: Kind,
    iv: Option<u64>,
    val: Option<u64>,
    n: usize,
    odd: bool,
    table: Rc<RefCell<HashMap<HKey, u64>>>,
    log: HLog,
}

impl BuildHasher for RecBuild {
    type Hasher = RecHasher;
    fn build_hasher(&self) -> RecHasher {
        let mut inner = DefaultHasher::default();
        if let Kind::Seeded(s) = self.kind {
            inner.write_usize(s);
        }
        RecHasher { inner, kind: self.kind.clone(), iv: None, val: None, n: 0, odd: false, table: Rc::clone(&self.table), log: Rc::clone(&self.log) }
    }
}

impl Hasher for RecHasher {
    fn write(&mut self, bytes: &[u8]) {
        // only u64 keys are used through this hasher; anything else is flagged
        self.odd = true;
        self.inner.write(bytes);
        self.n += 1;
    }
    fn write_usize(&mut self, i: usize) {
        if self.n == 0 {
            self.iv = Some(i as u64);
        } else {
            self.odd = true;
        }
        self.inner.write_usize(i);
        self.n += 1;
    }
    fn write_u64(&mut self, v: u64) {
        if self.val.is_none() && self.n <= 1 {
            self.val = Some(v);
        } else {
            self.odd = true;
        }
        self.inner.write_u64(v);
        self.n += 1;
    }
    fn finish(&self) -> u64 {
        assert!(!self.odd, "RecHasher: unexpected write pattern");
        let fin = match self.kind {
            Kind::Sip | Kind::Seeded(_) => self.inner.finish(),
            Kind::Script(seed) => {
                if let Some(v) = self.table.borrow().get(&(self.iv, self.val)) {
                    *v
                } else {
                    let a = self.iv.map(|x| x.wrapping_add(1)).unwrap_or(0);
                    let b = self.val.map(|x| splitmix(x ^ 0x5555)).unwrap_or(7);
                    splitmix(seed ^ splitmix(a) ^ b.rotate_left(17))
                }
            }
        };
        self.log.borrow_mut().insert((self.iv, self.val, fin));
        fin
    }
}

/// RNG driven by scripted words (then splitmix), logging every word drawn.
#[derive(Clone, Debug)]
pub struct ScriptRng {
    pub q: Rc<RefCell<VecDeque<u64>>>,
    pub state: Rc<RefCell<u64>>,
    pub log: Rc<RefCell<Vec<u64>>>,
}

impl ScriptRng {
    pub fn new(seed: u64) -> Self {
        Self { q: Rc::new(RefCell::new(VecDeque::new())), state: Rc::new(RefCell::new(seed)), log: Rc::new(RefCell::new(vec![])) }
    }
    pub fn push(&self, w: u64) {
        self.q.borrow_mut().push_back(w);
    }
    pub fn take_log(&self) -> Vec<u64> {
        self.q.borrow_mut().clear();
        std::mem::take(&mut *self.log.borrow_mut())
    }
}

impl rand::RngCore for ScriptRng {
    fn next_u32(&mut self) -> u32 {
        self.next_u64() as u32
    }
    fn next_u64(&mut self) -> u64 {
        let w = match self.q.borrow_mut().pop_front() {
            Some(w) => w,
            None => {
                let mut s = self.state.borrow_mut();
                *s = s.wrapping_add(0x9E3779B97F4A7C15);
                splitmix(*s)
            }
        };
        self.log.borrow_mut().push(w);
        w
    }
    fn fill_bytes(&mut self, dest: &mut [u8]) {
        for chunk in dest.chunks_mut(8) {
            let w = self.next_u64().to_le_bytes();
            chunk.copy_from_slice(&w[..chunk.len()]);
        }
    }
    fn try_fill_bytes(&mut self, dest: &mut [u8]) -> Result<(), rand::Error> {
        self.fill_bytes(dest);
        Ok(())
    }
}
