//! Sizing constructors (properties C07, C08). ops (stateless; the leading index is a dummy):
//!   bloom n pbits -> m k | cms epsbits deltabits -> w d | cuckoo4 pbits n -> bs nb l | cuckoo8 pbits n -> bs nb l
//! Each constructor result is also exercised: it must be usable (no panic on insert/query).
use crate::rec::{Kind, RecBuild, ScriptRng};
use crate::{p, Ctx, Driver};
use pdatastructs::countminsketch::CountMinSketch;
use pdatastructs::filters::bloomfilter::BloomFilter;
use pdatastructs::filters::cuckoofilter::CuckooFilter;
use pdatastructs::filters::Filter;
use std::panic::{catch_unwind, AssertUnwindSafe};

#[derive(Default)]
pub struct D {}

fn fb(s: &str) -> f64 {
    f64::from_bits(p::<u64>(s))
}

impl Driver for D {
    fn exec(&mut self, ctx: &mut Ctx, op: &[String]) -> Vec<String> {
        match op[0].as_str() {
            "bloom" => {
                let (n, pr): (usize, f64) = (p(&op[1]), fb(&op[2]));
                let mut f = BloomFilter::<u64, RecBuild>::with_properties_and_hash(n, pr, RecBuild::new(Kind::Sip));
                let r = vec![f.m().to_string(), f.k().to_string()];
                if f.k() < 1 || f.m() < 1 {
                    ctx.fail("C07", format!("bloom with_properties({}, {}) unusable: m={} k={}", n, pr, f.m(), f.k()));
                }
                let used = catch_unwind(AssertUnwindSafe(|| {
                    for x in 0..n.min(2000) as u64 {
                        f.insert(&x).unwrap();
                    }
                    (0..n.min(2000) as u64).all(|x| f.query(&x))
                }));
                match used {
                    Ok(true) => {}
                    Ok(false) => ctx.fail("C07", format!("bloom with_properties({}, {}): an inserted key is reported absent", n, pr)),
                    Err(_) => ctx.fail("C07", format!("bloom with_properties({}, {}) panics on use (m={}, k={})", n, pr, r[0], r[1])),
                }
                r
            }
            "cms" => {
                let (eps, delta) = (fb(&op[1]), fb(&op[2]));
                let mut f = CountMinSketch::<u64, u64, RecBuild>::with_point_query_properties_and_hasher(eps, delta, RecBuild::new(Kind::Sip));
                let r = vec![f.w().to_string(), f.d().to_string()];
                if (f.w() as f64) * eps < std::f64::consts::E * (1.0 - 1e-12) || (f.d() as f64) < (1.0 / delta).ln() * (1.0 - 1e-12) {
                    ctx.fail("C08", format!("cms with_point_query_properties({}, {}): w={} d={} but the guarantee needs w >= e/eps and d >= ln(1/delta)", eps, delta, f.w(), f.d()));
                }
                if f.w() < 1 || f.d() < 1 {
                    ctx.fail("C08", format!("cms with_point_query_properties({}, {}) unusable: w={} d={}", eps, delta, f.w(), f.d()));
                } else if f.w() * f.d() <= 4_000_000 {
                    let used = catch_unwind(AssertUnwindSafe(|| {
                        f.add(&1);
                        f.query_point(&1)
                    }));
                    if used.is_err() || used.unwrap() < 1 {
                        ctx.fail("C08", format!("cms with_point_query_properties({}, {}) panics or underestimates on use", eps, delta));
                    }
                }
                r
            }
            "cuckoo4" | "cuckoo8" => {
                let (pr, n): (f64, usize) = (fb(&op[1]), p(&op[2]));
                let rng = ScriptRng::new(7);
                let bh = RecBuild::new(Kind::Sip);
                let four = op[0] == "cuckoo4";
                let built = catch_unwind(AssertUnwindSafe(|| {
                    if four {
                        CuckooFilter::<u64, ScriptRng, RecBuild>::with_properties_and_hash_4(pr, n, rng, bh)
                    } else {
                        CuckooFilter::<u64, ScriptRng, RecBuild>::with_properties_and_hash_8(pr, n, rng, bh)
                    }
                }));
                let mut f = match built {
                    Ok(f) => f,
                    Err(e) => {
                        if n >= 1 && pr > 0.0 && pr < 1.0 {
                            // a fingerprint longer than 64 bits would be needed: 2*bucketsize/p > 2^64
                            let bs = if four { 4.0 } else { 8.0 };
                            if 2.0 * bs / pr > 18446744073709551616.0 * 0.5 {
                                ctx.fail("C07", format!("kf=cuckoo-tiny-p cuckoo with_properties({}, {}) panics: the rate needs a fingerprint of more than 64 bits", pr, n));
                            } else {
                                ctx.fail("C07", format!("cuckoo with_properties({}, {}) panics for valid arguments", pr, n));
                            }
                        }
                        std::panic::resume_unwind(e);
                    }
                };
                let r = vec![f.bucketsize().to_string(), f.n_buckets().to_string(), f.l_fingerprint().to_string()];
                if n <= 3000 {
                    // accepts n distinct inserts without reporting Full (real hasher)
                    for x in 0..n as u64 {
                        if f.insert(&x).is_err() {
                            ctx.fail("C07", format!("cuckoo with_properties({}, {}) reported Full at insert {} of {}", pr, n, x, n));
                            break;
                        }
                    }
                }
                r
            }
            "cmsfail" => {
                // C08 measurement: `heavy` heavy hitters sized just above eps*N; probes are never-inserted keys.
                // counts (seed, probe) pairs whose overestimate exceeds eps*N. -> failures pairs w d
                let (eps, delta) = (fb(&op[1]), fb(&op[2]));
                let (heavy, seeds, probes): (u64, usize, u64) = (p(&op[3]), p(&op[4]), p(&op[5]));
                let base: usize = p(&op[6]);
                let mut fails = 0u64;
                let (mut w, mut d) = (0, 0);
                for s in 0..seeds {
                    let mut f = CountMinSketch::<u64, u64, RecBuild>::with_point_query_properties_and_hasher(eps, delta, RecBuild::new(Kind::Seeded(base + s)));
                    w = f.w();
                    d = f.d();
                    // every heavy hitter gets weight 1000; N = heavy*1000 + filler so that eps*N is just below 1000
                    let n_total = (999.0 / eps) as u64;
                    let mut used = 0u64;
                    for h in 0..heavy {
                        if used + 1000 > n_total {
                            break;
                        }
                        f.add_n(&(1_000_000 + h), &1000);
                        used += 1000;
                    }
                    // the rest of the stream: light elements of weight 1
                    let mut x = 2_000_000u64;
                    while used < n_total {
                        f.add(&x);
                        x += 1;
                        used += 1;
                        if x > 2_000_000 + 200_000 {
                            break;
                        }
                    }
                    let bound = eps * (used as f64);
                    for q in 0..probes {
                        let est = f.query_point(&(5_000_000_000 + q));
                        if (est as f64) > bound {
                            fails += 1;
                        }
                    }
                }
                vec![fails.to_string(), (seeds as u64 * probes).to_string(), w.to_string(), d.to_string()]
            }
            "fprate" => {
                // C07 measurement: fprate kind n pbits seeds probes base -> false positives, pairs, len() error permille (bloom)
                let kind = op[1].as_str();
                let (n, pr): (usize, f64) = (p(&op[2]), fb(&op[3]));
                let (seeds, probes, base): (usize, u64, usize) = (p(&op[4]), p(&op[5]), p(&op[6]));
                let mut fp = 0u64;
                let mut full = 0u64;
                let mut lenerr = 0f64;
                for s in 0..seeds {
                    let bh = RecBuild::new(Kind::Seeded(base + s));
                    match kind {
                        "bloom" => {
                            let mut f = BloomFilter::<u64, RecBuild>::with_properties_and_hash(n, pr, bh);
                            for x in 0..n as u64 {
                                f.insert(&x).unwrap();
                            }
                            fp += (0..probes).filter(|q| f.query(&(7_000_000_000 + q))).count() as u64;
                            lenerr = lenerr.max(((f.len() as f64) - (n as f64)).abs() / (n as f64));
                        }
                        _ => {
                            let rng = ScriptRng::new(base as u64 + s as u64);
                            let mut f = if kind == "cuckoo4" {
                                CuckooFilter::<u64, ScriptRng, RecBuild>::with_properties_and_hash_4(pr, n, rng, bh)
                            } else {
                                CuckooFilter::<u64, ScriptRng, RecBuild>::with_properties_and_hash_8(pr, n, rng, bh)
                            };
                            for x in 0..n as u64 {
                                if f.insert(&x).is_err() {
                                    full += 1;
                                    break;
                                }
                            }
                            fp += (0..probes).filter(|q| f.query(&(7_000_000_000 + q))).count() as u64;
                        }
                    }
                }
                vec![fp.to_string(), (seeds as u64 * probes).to_string(), full.to_string(), ((lenerr * 1000.0) as u64).to_string()]
            }
            _ => panic!("sizing: unknown op {:?}", op),
        }
    }
    fn obs_all(&self, _ctx: &Ctx) -> Vec<Option<Vec<String>>> {
        vec![]
    }
    fn touched(&self, _op: &[String]) -> Vec<usize> {
        vec![]
    }
    fn ctor(&self, _i: usize) -> Option<Vec<String>> {
        None
    }
}
