(* Base/Util.v — shared list/number helpers used by every model.
   Only definitions and small lemmas; stdlib only. *)
From Coq Require Export List NArith ZArith Bool Lia.
Export ListNotations.
Open Scope N_scope.

(* ---------- indexed access; [None] = Rust index-out-of-bounds panic ---------- *)
Definition getN {A} (l : list A) (i : N) : option A := nth_error l (N.to_nat i).

Fixpoint upd {A} (l : list A) (i : nat) (v : A) : list A :=
  match l, i with
  | [], _ => []
  | _ :: t, O => v :: t
  | x :: t, S j => x :: upd t j v
  end.

Definition setN {A} (l : list A) (i : N) (v : A) : option (list A) :=
  if (N.to_nat i <? length l)%nat then Some (upd l (N.to_nat i) v) else None.

(* total variants with a default, for places where the bound is established
   by a separate lemma (never used to hide an error branch in a theorem) *)
Definition getD {A} (d : A) (l : list A) (i : N) : A := nth (N.to_nat i) l d.

Definition lenN {A} (l : list A) : N := N.of_nat (length l).

Definition u64 (x : N) : N := x mod 2 ^ 64.
Definition two64 : N := 2 ^ 64.

(* option monad *)
Definition obind {A B} (o : option A) (f : A -> option B) : option B :=
  match o with Some a => f a | None => None end.
Notation "'do' x <- o ; k" := (obind o (fun x => k)) (at level 200, x name, o at level 100, k at level 200, right associativity).
Notation "'do2' ( a , b ) <- o ; k" := (obind o (fun ab => let '(a, b) := ab in k)) (at level 200, a name, b name, o at level 100, k at level 200, right associativity).

Fixpoint Nseq (start : N) (len : nat) : list N :=
  match len with O => [] | S n => start :: Nseq (start + 1) n end.

(* ---------- lemmas ---------- *)
Lemma upd_length {A} (l : list A) i v : length (upd l i v) = length l.
Proof. revert i; induction l as [|x t IH]; intros [|i]; simpl; auto. Qed.

Lemma nth_error_upd_same {A} (l : list A) i v : (i < length l)%nat -> nth_error (upd l i v) i = Some v.
Proof. revert i; induction l as [|x t IH]; intros [|i] H; simpl in *; try lia; auto. apply IH; lia. Qed.

Lemma nth_error_upd_other {A} (l : list A) i j v : i <> j -> nth_error (upd l i v) j = nth_error l j.
Proof. revert i j; induction l as [|x t IH]; intros [|i] [|j] H; simpl; auto; try congruence. Qed.

Lemma nth_upd_same {A} (l : list A) i v d : (i < length l)%nat -> nth i (upd l i v) d = v.
Proof. revert i; induction l as [|x t IH]; intros [|i] H; simpl in *; try lia; auto. apply IH; lia. Qed.

Lemma nth_upd_other {A} (l : list A) i j v d : i <> j -> nth j (upd l i v) d = nth j l d.
Proof. revert i j; induction l as [|x t IH]; intros [|i] [|j] H; simpl; auto; try congruence. Qed.

Lemma upd_nth_id {A} (l : list A) i d : (i < length l)%nat -> upd l i (nth i l d) = l.
Proof. revert i; induction l as [|x t IH]; intros [|i] H; simpl in *; try lia; auto. f_equal; apply IH; lia. Qed.

Lemma upd_upd_same {A} (l : list A) i v w : upd (upd l i v) i w = upd l i w.
Proof. revert i; induction l as [|x t IH]; intros [|i]; simpl; auto. f_equal; apply IH. Qed.

Lemma upd_out {A} (l : list A) i v : (length l <= i)%nat -> upd l i v = l.
Proof. revert i; induction l as [|x t IH]; intros [|i] H; simpl in *; try lia; auto. f_equal; apply IH; lia. Qed.

Lemma getN_Some_lt {A} (l : list A) i x : getN l i = Some x -> (N.to_nat i < length l)%nat.
Proof. unfold getN; intros H. apply nth_error_Some. congruence. Qed.

Lemma setN_Some {A} (l : list A) i v l' : setN l i v = Some l' -> l' = upd l (N.to_nat i) v /\ (N.to_nat i < length l)%nat.
Proof. unfold setN. destruct (Nat.ltb_spec (N.to_nat i) (length l)); intros E; inversion E; auto. Qed.

Lemma Nseq_length s n : length (Nseq s n) = n.
Proof. revert s; induction n; simpl; auto. Qed.

Lemma Nseq_In s n x : In x (Nseq s n) <-> s <= x < s + N.of_nat n.
Proof. revert s; induction n as [|n IH]; intros s; simpl.
  - lia.
  - rewrite IH. lia. Qed.

Lemma Nseq_nth s n i : (i < n)%nat -> nth i (Nseq s n) 0 = s + N.of_nat i.
Proof. revert s i; induction n as [|n IH]; intros s [|i] Hi; simpl; try lia.
  rewrite IH by lia. lia. Qed.

Lemma u64_lt x : u64 x < 2 ^ 64.
Proof. unfold u64. apply N.mod_lt. discriminate. Qed.

Lemma u64_small x : x < 2 ^ 64 -> u64 x = x.
Proof. unfold u64. apply N.mod_small. Qed.
