From PDS Require Export Exec.Run Model.Lossy.
(* opcodes: 0 new i w em ee (with_width; eps observed = em * 2^-ee) | 1 neweps i m e wobs (with_epsilon(m * 2^-e), observed width)
   | 2 add i x | 3 query i thm the (threshold thm * 2^-the) -> sorted keys | 5 clear i | 6 clone i j | 7 obs i (sorted query(0) keys, n)
   The float computations of the constructors (1/width, ceil(1/eps)) are validated to within 2^-50 relative. *)
Record linst := { li : lossy; leps : Q }.
Definition dyq (m e : N) : Q := Qmake (Z.of_N m) (match e with 0 => 1%positive | Npos p => Pos.pow 2 p end).
Fixpoint sins (x : N) (l : list N) : list N := match l with [] => [x] | y :: r => if x <=? y then x :: l else y :: sins x r end.
Definition sortN (l : list N) : list N := fold_right sins [] l.
Definition tol : Q := Qmake 1 (Pos.pow 2 50).
Definition near_one (q : Q) : bool := Qle_bool (1 - tol) q && Qle_bool q (1 + tol).
Definition lossy_step (t : insts linst) (o : opline) : option (insts linst * list N) :=
  let a := oargs o in let i := arg a 0 in
  match oc o with
  | 0 => do s <- lossy_new (arg a 1);
         let eps := dyq (arg a 2) (arg a 3) in
         if near_one (eps * inject_Z (Z.of_N (arg a 1))) then Some (iset t i {| li := s; leps := eps |}, []) else Some (t, [888])
  | 1 => let eps := dyq (arg a 1) (arg a 2) in let w := arg a 3 in
         (* width = ceil(1/eps): (w-1)*eps < 1 <= w*eps up to rounding of the quotient *)
         if Qle_bool (inject_Z (Z.of_N w - 1) * eps) (1 + tol) && Qle_bool (1 - tol) (inject_Z (Z.of_N w) * eps) then
           do s <- lossy_new w; Some (iset t i {| li := s; leps := eps |}, [w])
         else Some (t, [888])
  | 2 => do s <- iget t i; let '(b, s') := lossy_add (li s) (arg a 1) in Some (iset t i {| li := s'; leps := leps s |}, [b2n b])
  | 3 => do s <- iget t i; Some (t, sortN (lossy_query (li s) (leps s) (dyq (arg a 1) (arg a 2))))
  | 5 => do s <- iget t i; Some (iset t i {| li := lossy_clear (li s); leps := leps s |}, [])
  | 6 => do s <- iget t i; Some (iset t (arg a 1) s, [])
  | 7 => do s <- iget t i; Some (t, sortN (lossy_query_bound (li s) 0) ++ [ln (li s)])
  | _ => None
  end.
Definition lossy_case (ops : list opline) : option (N * option (list N)) := run_ops lossy_step [] ops 0.
