From PDS Require Export Exec.Run Model.Hll.
(* opcodes: 0 new i b | 1 fromregs i b r.. | 2 addh i h | 3 add i x | 4 merge i j | 5 clear i | 6 clone i j |
   7 regs i (sparse: idx val ... m) | 9 empty i *)
Section Ex.
Variable H : hashfn.
Fixpoint sparse (l : list N) (k : N) : list N :=
  match l with [] => [] | x :: r => if x =? 0 then sparse r (k + 1) else k :: x :: sparse r (k + 1) end.
Definition hll_step (t : insts hll) (o : opline) : option (insts hll * list N) :=
  let a := oargs o in let i := arg a 0 in
  match oc o with
  | 0 => do s <- hll_new (arg a 1); Some (iset t i s, [])
  | 1 => do s <- hll_of_registers (arg a 1) (tl (tl a)); Some (iset t i s, [])
  | 2 => do s <- iget t i; do s' <- hll_add_hashed s (arg a 1); Some (iset t i s', [])
  | 3 => do s <- iget t i; do s' <- hll_add H s (arg a 1); Some (iset t i s', [])
  | 4 => do s <- iget t i; do s2 <- iget t (arg a 1); do s' <- hll_merge s s2; Some (iset t i s', [])
  | 5 => do s <- iget t i; Some (iset t i (hll_clear s), [])
  | 6 => do s <- iget t i; Some (iset t (arg a 1) s, [])
  | 7 => do s <- iget t i; Some (t, sparse (hregs s) 0 ++ [lenN (hregs s)])
  | 9 => do s <- iget t i; Some (t, [b2n (hll_is_empty s)])
  | _ => None
  end.
End Ex.
Definition hll_case (c : list (N * N * N) * list opline) : option (N * option (list N)) :=
  let '(hl, ops) := c in run_ops (hll_step (mkH hl)) [] ops 0.
Definition hll_check (cs : list (list (N * N * N) * list opline)) := collect hll_case cs 0.
