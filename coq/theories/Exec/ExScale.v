From PDS Require Export Exec.Run Model.Scale.
(* Replay of the logged ScaleFunction calls (harness LogScale wrapper, `S` lines):
   opcode 1: kind deltabits inbits n isinv -> [outbits]   (kind 0..3 = K0..K3; isinv 0 = f, 1 = f_inv)
   opcode 2: kind deltabits q0bits n -> [limbits]          (the merge limit f_inv(f(q0, n) + 1, n)) *)
Section Ex.
Variable A : arith.
Variable ofN : N -> aT A.
Variables asin sin ln exp : aT A -> aT A.
Variable pi : aT A.
Variable isinf : aT A -> bool.
Variable ofbits : N -> aT A.
Variable tobits : aT A -> N.
Definition scale_step (t : unit) (o : opline) : option (unit * list N) :=
  let a := oargs o in
  match oc o with
  | 1 => let r := if arg a 4 =? 0 then scale_f A ofN asin ln pi (arg a 0) (ofbits (arg a 1)) (ofbits (arg a 2)) (arg a 3)
                  else scale_finv A ofN sin ln exp pi isinf (arg a 0) (ofbits (arg a 1)) (ofbits (arg a 2)) (arg a 3) in
         Some (t, [tobits r])
  | 2 => Some (t, [tobits (scale_lim A ofN asin sin ln exp pi isinf (arg a 0) (ofbits (arg a 1)) (arg a 3) (ofbits (arg a 2)))])
  | _ => None
  end.
Definition scale_case (ops : list opline) : option (N * option (list N)) := run_ops scale_step tt ops 0.
End Ex.
