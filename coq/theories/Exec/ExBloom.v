From PDS Require Export Exec.Run Model.Bloom Model.Sizing.
(* opcodes: 0 new i m k | 2 ins i x | 3 q i x | 4 union i j | 5 clear i | 6 clone i j | 7 obs i | 8 len i | 9 empty i
   len() is a float computation (Model/Sizing.v bloom_len) over the number of set bits: the arithmetic instance, ofN, ln
   and the truncating cast are supplied by the driver as for HllCount *)
Section Ex.
Variable A : arith.
Variable ofN : N -> aT A.
Variable ln : aT A -> aT A.
Variable trunc : aT A -> N.
Variable H : hashfn.
Variable u : N.
Definition bloom_obs (s : bloom) : option (list N) :=
  let qs := map (fun x => bloom_query H s x) (Nseq 0 (N.to_nat u)) in
  if forallb (fun o => match o with Some _ => true | None => false end) qs then
    Some (map (fun o => match o with Some b => b2n b | None => 0 end) qs ++ [b2n (bloom_is_empty s)])
  else None.
Definition bloom_step (t : insts bloom) (o : opline) : option (insts bloom * list N) :=
  let a := oargs o in let i := arg a 0 in
  match oc o with
  | 0 => (* HashIterBuilder::new computes hash % m for each of the k shifts: panics for m = 0 < k *)
         if (arg a 1 =? 0) && negb (arg a 2 =? 0) then None else Some (iset t i (bloom_new (arg a 1) (arg a 2)), [])
  | 2 => do s <- iget t i; do2 (r, s') <- bloom_insert H s (arg a 1); Some (iset t i s', [b2n r])
  | 3 => do s <- iget t i; do r <- bloom_query H s (arg a 1); Some (t, [b2n r])
  | 4 => do s <- iget t i; do s2 <- iget t (arg a 1); do s' <- bloom_union s s2; Some (iset t i s', [])
  | 5 => do s <- iget t i; Some (iset t i (bloom_clear s), [])
  | 6 => do s <- iget t i; Some (iset t (arg a 1) s, [])
  | 7 => do s <- iget t i; do r <- bloom_obs s; Some (t, r)
  | 8 => do s <- iget t i; Some (t, [bloom_len A ofN ln trunc (bm s) (bk s) (bloom_ones s)])
  | 9 => do s <- iget t i; Some (t, [b2n (bloom_is_empty s)])
  | _ => None
  end.
End Ex.
Definition bloom_case A ofN ln trunc (c : list (N * N * N) * N * list opline) : option (N * option (list N)) :=
  let '(hl, u, ops) := c in run_ops (bloom_step A ofN ln trunc (mkH hl) u) [] ops 0.

