From PDS Require Export Exec.Run Model.Cuckoo.
(* opcodes: 0 new i bs nb l | 2 ins i x | 3 q i x | 4 union i j | 5 clear i | 6 clone i j | 7 obs i | 8 del i x | 10 dobs i
   results: insert Ok(true)=[1] Ok(false)=[0] Err=[2]; union Ok=[1] Err=[2]. The model must consume exactly the RNG
   words the implementation drew during the op (left-over words => result [777]). *)
Section Ex.
Variable H : hashfn.
Variable u : N.
Definition ck_obs (s : cuckoo) : list N :=
  map (fun x => b2n (cuckoo_query H s x)) (Nseq 0 (N.to_nat u)) ++ [cuckoo_len s; b2n (cuckoo_is_empty s)].
Fixpoint delcount (s : cuckoo) (x : N) (fuel : nat) : N :=
  match fuel with O => 0 | S f => let '(r, s') := cuckoo_delete H s x in if r then 1 + delcount s' x f else 0 end.
Definition ck_dobs (s : cuckoo) : list N :=
  ck_obs s ++ map (fun x => delcount s x (S (length (ktbl s)))) (Nseq 0 (N.to_nat u)).
Definition done (ws : list N) (r : list N) : list N := match ws with [] => r | _ => [777] end.
Definition ck_step (t : insts cuckoo) (o : opline) : option (insts cuckoo * list N) :=
  let a := oargs o in let i := arg a 0 in
  match oc o with
  | 0 => do s <- cuckoo_new (arg a 1) (arg a 2) (arg a 3); Some (iset t i s, [])
  | 2 => do s <- iget t i;
         match cuckoo_insert H s (arg a 1) (ornd o) with
         | Some (IOk b, s', ws) => Some (iset t i s', done ws [b2n b])
         | Some (IFull, s', ws) => Some (iset t i s', done ws [2])
         | None => None
         end
  | 3 => do s <- iget t i; Some (t, [b2n (cuckoo_query H s (arg a 1))])
  | 4 => do s <- iget t i; do s2 <- iget t (arg a 1);
         match cuckoo_union H s s2 (ornd o) with
         | Some (true, s', ws) => Some (iset t i s', done ws [1])
         | Some (false, s', ws) => Some (iset t i s', done ws [2])
         | None => None
         end
  | 5 => do s <- iget t i; Some (iset t i (cuckoo_clear s), [])
  | 6 => do s <- iget t i; Some (iset t (arg a 1) s, [])
  | 7 => do s <- iget t i; Some (t, ck_obs s)
  | 8 => do s <- iget t i; let '(r, s') := cuckoo_delete H s (arg a 1) in Some (iset t i s', [b2n r])
  | 10 => do s <- iget t i; Some (t, ck_dobs s)
  | _ => None
  end.
End Ex.
Definition ck_case (c : list (N * N * N) * N * list opline) : option (N * option (list N)) :=
  let '(hl, u, ops) := c in run_ops (ck_step (mkH hl) u) [] ops 0.
Definition ck_check (cs : list (list (N * N * N) * N * list opline)) := collect ck_case cs 0.
