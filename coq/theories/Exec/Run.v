(* Exec/Run.v — generic machinery that replays an implementation transcript on a model
   (correspondence check). Evaluated with vm_compute from generated cases.v files. *)
From PDS Require Export Base.Util Model.Hashing.
From Coq Require Import FMapPositive.

(* one transcript line: opcode, arguments, RNG words the implementation drew during the op,
   and the implementation's result ([None] = the crate panicked) *)
Record opline := OL { oc : N; oargs : list N; ornd : list N; oexp : option (list N) }.

(* hash log -> hash function. Keys: iv code (0 = no iv, else iv+1), value code (0 = none, else v+1). *)
Definition hkey (ivc valc : N) : positive := N.succ_pos (ivc * 2 ^ 66 + valc).
Definition codeo (o : option N) : N := match o with None => 0 | Some x => x + 1 end.
Definition mkH (log : list (N * N * N)) : hashfn :=
  let m := fold_left (fun m e => let '(a, b, f) := e in PositiveMap.add (hkey a b) f m) log (PositiveMap.empty N) in
  fun iv v => match PositiveMap.find (hkey (codeo iv) (codeo v)) m with Some f => f | None => 0 end.

Definition eq_lN (a b : list N) : bool := if list_eq_dec N.eq_dec a b then true else false.
Definition eq_res (a : option (list N)) (b : list N) : bool := match a with Some x => eq_lN x b | None => false end.

(* returns None when the whole op list agrees, else (index, model result) of the first disagreement;
   model result None = model panics *)
Fixpoint run_ops {S} (step : S -> opline -> option (S * list N)) (s : S) (ops : list opline) (k : N)
  : option (N * option (list N)) :=
  match ops with
  | [] => None
  | o :: r =>
      match step s o with
      | None => match oexp o with None => None | Some _ => Some (k, None) end
      | Some (s', res) => if eq_res (oexp o) res then run_ops step s' r (k + 1) else Some (k, Some res)
      end
  end.

(* instance table *)
Definition insts (A : Type) := list (option A).
Definition iget {A} (t : insts A) (i : N) : option A := match nth_error t (N.to_nat i) with Some (Some x) => Some x | _ => None end.
Fixpoint iset_nat {A} (t : insts A) (i : nat) (x : A) : insts A :=
  match i, t with
  | O, [] => [Some x]
  | O, _ :: r => Some x :: r
  | S j, [] => None :: iset_nat [] j x
  | S j, y :: r => y :: iset_nat r j x
  end.
Definition iset {A} (t : insts A) (i : N) (x : A) : insts A := iset_nat t (N.to_nat i) x.

Definition b2n (b : bool) : N := if b then 1 else 0.
Definition arg (l : list N) (i : nat) : N := nth i l 0.

(* collect failures over a list of cases *)
Fixpoint collect {C} (chk : C -> option (N * option (list N))) (cs : list C) (k : N) : list (N * N * option (list N)) :=
  match cs with
  | [] => []
  | c :: r => match chk c with None => collect chk r (k + 1) | Some (i, m) => (k, i, m) :: collect chk r (k + 1) end
  end.
