From PDS Require Export Exec.Run Model.Reservoir.
(* opcodes: 0 new i k | 2 add i x | 5 clear i | 6 clone i j | 7 obs i (reservoir items, then i(), is_empty())
   add consumes exactly the RNG words the implementation drew (left-over words => [777]); an ambiguous gap => [999] *)
Definition res_step (t : insts reservoir) (o : opline) : option (insts reservoir * list N) :=
  let a := oargs o in let i := arg a 0 in
  match oc o with
  | 0 => do s <- res_new (arg a 1); Some (iset t i s, [])
  | 2 => do s <- iget t i;
         match res_add s (arg a 1) (ornd o) with
         | Some (s', [], false) => Some (iset t i s', [])
         | Some (s', [], true) => Some (iset t i s', [999])
         | Some (s', _ :: _, _) => Some (iset t i s', [777])
         | None => None
         end
  | 5 => do s <- iget t i; Some (iset t i (res_clear s), [])
  | 6 => do s <- iget t i; Some (iset t (arg a 1) s, [])
  | 7 => do s <- iget t i; Some (t, rres s ++ [ri s; b2n (res_is_empty s)])
  | _ => None
  end.
Definition res_case (ops : list opline) : option (N * option (list N)) := run_ops res_step [] ops 0.
