From PDS Require Export Exec.Run Model.SetSpec.
(* opcodes: 0 new i | 2 ins i x | 3 q i x | 4 union i j | 5 clear i | 6 clone i j | 7 obs i ; insert Ok(b) = [b], union = [1] *)
Section Ex.
Variable u : N.
Definition hs_obs (s : hset) : list N := map (fun x => b2n (hs_query s x)) (Nseq 0 (N.to_nat u)) ++ [hs_len s; b2n (hs_is_empty s)].
Definition hs_step (t : insts hset) (o : opline) : option (insts hset * list N) :=
  let a := oargs o in let i := arg a 0 in
  match oc o with
  | 0 => Some (iset t i [], [])
  | 2 => do s <- iget t i; let '(b, s') := hs_insert s (arg a 1) in Some (iset t i s', [b2n b])
  | 3 => do s <- iget t i; Some (t, [b2n (hs_query s (arg a 1))])
  | 4 => do s <- iget t i; do s2 <- iget t (arg a 1); Some (iset t i (hs_union s s2), [1])
  | 5 => do s <- iget t i; Some (iset t i (hs_clear s), [])
  | 6 => do s <- iget t i; Some (iset t (arg a 1) s, [])
  | 7 => do s <- iget t i; Some (t, hs_obs s)
  | _ => None
  end.
End Ex.
Definition hs_case (c : N * list opline) : option (N * option (list N)) := let '(u, ops) := c in run_ops (hs_step u) [] ops 0.
