From PDS Require Export Exec.Run Model.Memory.
(* opcodes (all answer the bytes live right after construction):
   1 bloom m k | 2 cms w d csize | 3 hll b | 4 cuckoo bs nb l | 5 qf bq br *)
Definition mem_step (t : unit) (o : opline) : option (unit * list N) :=
  let a := oargs o in
  match oc o with
  | 1 => Some (t, [bloom_bytes (arg a 0) (arg a 1)])
  | 2 => Some (t, [cms_bytes (arg a 0) (arg a 1) (arg a 2)])
  | 3 => Some (t, [hll_bytes (arg a 0)])
  | 4 => Some (t, [cuckoo_bytes (arg a 0) (arg a 1) (arg a 2)])
  | 5 => Some (t, [qf_bytes (arg a 0) (arg a 1)])
  | _ => None
  end.
Definition mem_case (ops : list opline) : option (N * option (list N)) := run_ops mem_step tt ops 0.
