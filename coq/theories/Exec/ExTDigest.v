From PDS Require Export Exec.Run Model.TDigest.
(* Replay of t-digest transcripts on the generic model (Model/TDigest.v). The arithmetic instance [A],
   the conversions between IEEE bit patterns and [aT A], and the scale-function limit table [lim] are
   supplied by the driver (OCaml native binary64 arithmetic; limits as logged from the crate's own
   ScaleFunction calls) - exactly the parameters the theorems abstract over.
   opcodes: 0 new i maxb | 2 ins i xbits wbits | 3 quant i qbits | 4 cdf i xbits | 5 clear i | 6 clone i j |
            8 count i | 9 sum i | 10 mean i | 11 min i | 12 max i | 13 ncent i | 14 empty i *)
Section Ex.
Variable A : arith.
Variable ofbits : N -> aT A.
Variable tobits : aT A -> N.
Variable lim : N -> aT A -> aT A.
Definition INF : N := 9218868437227405312.     (* 0x7ff0000000000000 *)
Definition NINF : N := 18442240474082181120.   (* 0xfff0000000000000 *)
Definition tdx_step (t : insts (td A)) (o : opline) : option (insts (td A) * list N) :=
  let a := oargs o in let i := arg a 0 in
  match oc o with
  | 0 => Some (iset t i (td_new A (arg a 1)), [])
  | 2 => do s <- iget t i; Some (iset t i (td_insert_weighted A lim s (ofbits (arg a 1)) (ofbits (arg a 2))), [])
  | 3 => do s <- iget t i; let '(s', r) := td_quantile A lim s (ofbits (arg a 1)) in Some (iset t i s', [tobits r])
  | 4 => do s <- iget t i; let '(s', r) := td_cdf A lim s (ofbits (arg a 1)) in Some (iset t i s', [tobits r])
  | 5 => do s <- iget t i; Some (iset t i (td_clear A s), [])
  | 6 => do s <- iget t i; Some (iset t (arg a 1) s, [])
  | 8 => do s <- iget t i; let '(s', r) := td_count_pub A lim s in Some (iset t i s', [tobits r])
  | 9 => do s <- iget t i; let '(s', r) := td_sum_pub A lim s in Some (iset t i s', [tobits r])
  | 10 => do s <- iget t i; let '(s', r) := td_mean_pub A lim s in Some (iset t i s', [tobits r])
  | 11 => do s <- iget t i; Some (t, [match tmn A s with Some m => tobits m | None => INF end])
  | 12 => do s <- iget t i; Some (t, [match tmx A s with Some m => tobits m | None => NINF end])
  | 13 => do s <- iget t i; let '(s', r) := td_ncentroids A lim s in Some (iset t i s', [r])
  | 14 => do s <- iget t i; Some (t, [b2n (td_is_empty A s)])
  | _ => None
  end.
Definition tdx_case (ops : list opline) : option (N * option (list N)) := run_ops tdx_step [] ops 0.
End Ex.
