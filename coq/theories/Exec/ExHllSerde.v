From PDS Require Export Exec.Run Model.Hll Model.HllSerde.
(* Replay of the serde transcripts (harness/src/s_hser.rs) on Model/HllSerde.v.
   opcodes: 0 new i b seed | 2 addh i h | 3 ser i -> b seed <sparse regs> m
            | 4 de i <fields> -> [2] (rejected) or 1 b seed <sparse regs> m
            | 7 regs i | 9 merge i j | 10 eq i j
   document fields inside oargs (after i): 1 n v1..vn = registers | 2 v = b | 3 v = buildhasher | 4 = unknown field *)
Record sinst := { sh : hll; sseed : N }.
Fixpoint sparse2 (l : list N) (k : N) : list N :=
  match l with [] => [] | x :: r => if x =? 0 then sparse2 r (k + 1) else k :: x :: sparse2 r (k + 1) end.
Definition dump (s : hll) (seed : N) : list N := [hb s; seed] ++ sparse2 (hregs s) 0 ++ [lenN (hregs s)].
Fixpoint take {A} (n : nat) (l : list A) : list A := match n, l with S k, x :: r => x :: take k r | _, _ => [] end.
Fixpoint drop {A} (n : nat) (l : list A) : list A := match n, l with S k, _ :: r => drop k r | _, _ => l end.
(* fuel = length of the token list *)
Fixpoint parse_doc (toks : list N) (fuel : nat) : option doc :=
  match fuel with O => match toks with [] => Some [] | _ => None end | S f =>
  match toks with
  | [] => Some []
  | 1 :: n :: r => let k := N.to_nat n in
                   do d <- parse_doc (drop k r) f; Some ((FRegisters, VRegs (take k r)) :: d)
  | 2 :: v :: r => do d <- parse_doc r f; Some ((FB, VNum v) :: d)
  | 3 :: v :: r => do d <- parse_doc r f; Some ((FBuildhasher, VHasher v) :: d)
  | 4 :: r => do d <- parse_doc r f; Some ((FUnknown, VNum 1) :: d)
  | _ => None
  end end.
Definition hll_eqb (a b : hll) : bool := (hb a =? hb b) && eq_lN (hregs a) (hregs b).
Definition hser_step (t : insts sinst) (o : opline) : option (insts sinst * list N) :=
  let a := oargs o in let i := arg a 0 in
  match oc o with
  | 0 => do s <- hll_new (arg a 1); Some (iset t i {| sh := s; sseed := arg a 2 |}, [])
  | 2 => do s <- iget t i; do s' <- hll_add_hashed (sh s) (arg a 1); Some (iset t i {| sh := s'; sseed := sseed s |}, [])
  | 3 => do s <- iget t i;
         (* the serialised document, read back field by field: must be exactly [ser] *)
         match ser (sh s) (sseed s) with
         | [(FRegisters, VRegs r); (FB, VNum b); (FBuildhasher, VHasher h)] => Some (t, [b; h] ++ sparse2 r 0 ++ [lenN r])
         | _ => None
         end
  | 4 => do d <- parse_doc (tl a) (length a);
         match deser d with
         | None => Some (t, [2])
         | Some (s, h) => Some (iset t i {| sh := s; sseed := h |}, 1 :: dump s h)
         end
  | 7 => do s <- iget t i; Some (t, sparse2 (hregs (sh s)) 0 ++ [lenN (hregs (sh s))])
  | 9 => do s <- iget t i; do s2 <- iget t (arg a 1);
         if sseed s =? sseed s2 then do s' <- hll_merge (sh s) (sh s2); Some (iset t i {| sh := s'; sseed := sseed s |}, []) else None
  | 10 => do s <- iget t i; do s2 <- iget t (arg a 1); Some (t, [b2n (hll_eqb (sh s) (sh s2) && (sseed s =? sseed s2))])
  | _ => None
  end.
Definition hser_case (ops : list opline) : option (N * option (list N)) := run_ops hser_step [] ops 0.
