From PDS Require Export Exec.Run Model.Cms.
(* opcodes: 0 new i w d | 2 add i x n | 3 q i x | 4 merge i j | 5 clear i | 6 clone i j | 7 obs i | 9 empty i *)
Section Ex.
Variable H : hashfn.
Variable u : N.
Variable mx : N.
Fixpoint all_some {A} (l : list (option A)) : option (list A) :=
  match l with [] => Some [] | Some x :: r => match all_some r with Some t => Some (x :: t) | None => None end | None :: _ => None end.
Definition cms_obs (s : cms) : option (list N) :=
  do qs <- all_some (map (cms_query H s) (Nseq 0 (N.to_nat u))); Some (qs ++ [b2n (cms_is_empty s)]).
Definition cms_step (t : insts cms) (o : opline) : option (insts cms * list N) :=
  let a := oargs o in let i := arg a 0 in
  match oc o with
  | 0 => (* w.checked_mul(d) overflow and HashIterBuilder::new (hash % w for each of the d rows) *)
         if (arg a 1 =? 0) && negb (arg a 2 =? 0) then None else
         if 2 ^ 64 <=? arg a 1 * arg a 2 then None else Some (iset t i (cms_new (arg a 1) (arg a 2) mx), [])
  | 2 => do s <- iget t i; do2 (r, s') <- cms_add_n H s (arg a 1) (arg a 2); Some (iset t i s', [r])
  | 3 => do s <- iget t i; do r <- cms_query H s (arg a 1); Some (t, [r])
  | 4 => do s <- iget t i; do s2 <- iget t (arg a 1); do s' <- cms_merge s s2; Some (iset t i s', [])
  | 5 => do s <- iget t i; Some (iset t i (cms_clear s), [])
  | 6 => do s <- iget t i; Some (iset t (arg a 1) s, [])
  | 7 => do s <- iget t i; do r <- cms_obs s; Some (t, r)
  | 9 => do s <- iget t i; Some (t, [b2n (cms_is_empty s)])
  | _ => None
  end.
End Ex.
Definition cms_case (c : list (N * N * N) * N * N * list opline) : option (N * option (list N)) :=
  let '(hl, u, mx, ops) := c in run_ops (cms_step (mkH hl) u mx) [] ops 0.
Definition cms_check (cs : list (list (N * N * N) * N * N * list opline)) := collect cms_case cs 0.
