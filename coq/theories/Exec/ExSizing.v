From PDS Require Export Exec.Run Model.Sizing.
(* Replay of the sizing constructors (Model/Sizing.v) against the crate.  The arithmetic instance [A]
   (native binary64 in the driver), the conversion [ofN] (usize as f64), [ln], [log2], [ceil], the
   truncating cast [trunc] (f64 as usize), the constant [E] (f64::consts::E) and [ofbits] (IEEE-754
   binary64 bit pattern -> number) are supplied by the driver - exactly the parameters the
   definitions of Model/Sizing.v and the theorems of Proofs/SizingProofs.v abstract over.
   The ops are stateless (every line constructs a fresh structure and reads its dimensions).
   opcodes (float arguments are passed as bit patterns):
     1 bloom    n pbits          -> [m; k]        BloomFilter::with_properties_and_hash(n, p, ..)
     2 cms      epsbits deltabits-> [w; d]        CountMinSketch::with_point_query_properties_and_hasher
     3 cuckoo4  pbits n          -> [bs; nb; l]   CuckooFilter::with_properties_and_hash_4(p, n, ..)
     4 cuckoo8  pbits n          -> [bs; nb; l]   CuckooFilter::with_properties_and_hash_8(p, n, ..)
     5 bloomlen m k x            -> [len]         BloomFilter::len() of a filter with m bits, k hashes,
                                                  x bits set
   A model [None] = the constructor panics.  The cuckoo opcodes use [cuckoo_sizing_chk_4/8], which is
   equal to [cuckoo_sizing_4/8] (Proofs/SizingProofs.v : cuckoo_sizing_chk_eq) but does not build the table. *)
Section Ex.
Variable A : arith.
Variable ofN : N -> aT A.
Variables ln log2 ceil : aT A -> aT A.
Variable trunc : aT A -> N.
Variable E : aT A.
Variable ofbits : N -> aT A.
Definition sizing_step (t : unit) (o : opline) : option (unit * list N) :=
  let a := oargs o in
  match oc o with
  | 1 => do2 (m, k) <- bloom_sizing A ofN ln log2 trunc (arg a 0) (ofbits (arg a 1)); Some (t, [m; k])
  | 2 => do2 (w, d) <- cms_sizing A ln ceil trunc E (ofbits (arg a 0)) (ofbits (arg a 1)); Some (t, [w; d])
  | 3 => do r <- cuckoo_sizing_chk_4 A ofN log2 ceil trunc (ofbits (arg a 0)) (arg a 1);
         let '(bs, nb, l) := r in Some (t, [bs; nb; l])
  | 4 => do r <- cuckoo_sizing_chk_8 A ofN log2 ceil trunc (ofbits (arg a 0)) (arg a 1);
         let '(bs, nb, l) := r in Some (t, [bs; nb; l])
  | 5 => Some (t, [bloom_len A ofN ln trunc (arg a 0) (arg a 1) (arg a 2)])
  | _ => None
  end.
Definition sizing_case (ops : list opline) : option (N * option (list N)) := run_ops sizing_step tt ops 0.
End Ex.
