From PDS Require Export Exec.Run Model.CmsHeap.
(* opcodes: 0 new i k w d | 2 add i x | 5 clear i | 6 clone i j | 7 iter i (keys in tree order, then is_empty) *)
Section Ex.
Variable H : hashfn.
Definition heap_step (t : insts cmsheap) (o : opline) : option (insts cmsheap * list N) :=
  let a := oargs o in let i := arg a 0 in
  match oc o with
  | 0 => if (arg a 2 =? 0) && negb (arg a 3 =? 0) then None else
         do s <- heap_new (arg a 1) (cms_new (arg a 2) (arg a 3) (2 ^ 64 - 1)); Some (iset t i s, [])
  | 2 => do s <- iget t i; do s' <- heap_add H s (arg a 1); Some (iset t i s', [])
  | 5 => do s <- iget t i; Some (iset t i (heap_clear s), [])
  | 6 => do s <- iget t i; Some (iset t (arg a 1) s, [])
  | 7 => do s <- iget t i; Some (t, heap_iter s ++ [b2n (heap_is_empty s)])
  | _ => None
  end.
End Ex.
Definition heap_case (c : list (N * N * N) * list opline) : option (N * option (list N)) :=
  let '(hl, ops) := c in run_ops (heap_step (mkH hl)) [] ops 0.
