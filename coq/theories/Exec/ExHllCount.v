From PDS Require Export Exec.Run Model.Hll Model.HllCount.
(* Replay of HyperLogLog::count() transcripts on the generic model (Model/HllCount.v). The arithmetic
   instance [A] (native binary64 in the driver), the conversion [ofN] (usize as f64), the natural
   logarithm [ln] and the truncating cast [trunc] (f64 as usize) are supplied by the driver - exactly the
   parameters the theorems of Proofs/HllCountProofs.v abstract over.
   opcodes: 1 fromregs i b r0 r1 ... (registers passed densely) | 8 count i -> [n] *)
Section Ex.
Variable A : arith.
Variable ofN : N -> aT A.
Variable ln : aT A -> aT A.
Variable trunc : aT A -> N.
Definition hllc_step (t : insts hll) (o : opline) : option (insts hll * list N) :=
  let a := oargs o in let i := arg a 0 in
  match oc o with
  | 1 => do s <- hll_of_registers (arg a 1) (tl (tl a)); Some (iset t i s, [])
  | 8 => do s <- iget t i; do n <- h_count A ofN ln trunc (hb s) (hregs s); Some (t, [n])
  | _ => None
  end.
Definition hllc_case (ops : list opline) : option (N * option (list N)) := run_ops hllc_step [] ops 0.
End Ex.
