From PDS Require Export Exec.Run Model.Quotient.
(* opcodes: 0 new i bq br | 2 ins i x | 3 q i x | 4 union i j | 5 clear i | 6 clone i j | 7 obs i
   results: insert Ok(true)=[1] Ok(false)=[0] Err(Full)=[2]; union Ok=[1] Err=[2]; a model-side Stuck (= crate panic) is None *)
Section Ex.
Variable H : hashfn.
Variable u : N.
Definition qf_obs (s : qf) : list N :=
  map (fun x => b2n (qf_query H s x)) (Nseq 0 (N.to_nat u)) ++ [qf_len s; b2n (qf_is_empty s)].
Definition qf_step (t : insts qf) (o : opline) : option (insts qf * list N) :=
  let a := oargs o in let i := arg a 0 in
  match oc o with
  | 0 => do s <- qf_new (arg a 1) (arg a 2); Some (iset t i s, [])
  | 2 => do s <- iget t i;
         match qf_insert H s (arg a 1) with
         | (QOkT, s') => Some (iset t i s', [1])
         | (QOkF, s') => Some (iset t i s', [0])
         | (QFull, s') => Some (iset t i s', [2])
         | (QStuck, _) => None
         end
  | 3 => do s <- iget t i; Some (t, [b2n (qf_query H s (arg a 1))])
  | 4 => do s <- iget t i; do s2 <- iget t (arg a 1);
         match qf_union s s2 with
         | Some (QFull, s') => Some (iset t i s', [2])
         | Some (QStuck, _) => None
         | Some (_, s') => Some (iset t i s', [1])
         | None => None
         end
  | 5 => do s <- iget t i; Some (iset t i (qf_clear s), [])
  | 6 => do s <- iget t i; Some (iset t (arg a 1) s, [])
  | 7 => do s <- iget t i; Some (t, qf_obs s)
  | _ => None
  end.
End Ex.
Definition qf_case (c : list (N * N * N) * N * list opline) : option (N * option (list N)) :=
  let '(hl, u, ops) := c in run_ops (qf_step (mkH hl) u) [] ops 0.
Definition qf_check (cs : list (list (N * N * N) * N * list opline)) := collect qf_case cs 0.
