(* Proofs/SetSpecProofs.v — the HashSet reference implementation of Filter (property C01, C06, C19). *)
From PDS Require Import Model.SetSpec.
Open Scope N_scope.

Lemma hs_mem_In s x : hs_mem s x = true <-> In x s.
Proof.
  unfold hs_mem. rewrite existsb_exists. split.
  - intros [y [Hy E]]. apply N.eqb_eq in E. subst. exact Hy.
  - intros H. exists x. split; [exact H|apply N.eqb_refl].
Qed.

Lemma hs_insert_In s x y : In y (snd (hs_insert s x)) <-> y = x \/ In y s.
Proof.
  unfold hs_insert. destruct (hs_mem s x) eqn:E; cbn [snd].
  - apply hs_mem_In in E. split; [auto|]. intros [->|H]; assumption.
  - rewrite in_app_iff. cbn [In]. split; [intros [H|[H|[]]]; auto|intros [->|H]; auto].
Qed.

Theorem hs_insert_then_query s x : hs_query (snd (hs_insert s x)) x = true.
Proof. apply hs_mem_In, hs_insert_In. left. reflexivity. Qed.

Theorem hs_insert_result s x : fst (hs_insert s x) = negb (hs_query s x).
Proof. unfold hs_insert, hs_query. destruct (hs_mem s x); reflexivity. Qed.

Theorem hs_query_mono_insert s x y : hs_query s y = true -> hs_query (snd (hs_insert s x)) y = true.
Proof. unfold hs_query. rewrite !hs_mem_In, hs_insert_In. auto. Qed.

Lemma hs_union_In a b y : In y (hs_union a b) <-> In y a \/ In y b.
Proof.
  unfold hs_union. revert a. induction b as [|x b IH]; intros a; cbn [fold_left].
  - cbn [In]. tauto.
  - rewrite IH, hs_insert_In. cbn [In]. split.
    + intros [[->|H]|H]; auto.
    + intros [H|[<-|H]]; auto.
Qed.

(* after a union every element present in a or in b is reported present; B is an argument: unchanged by typing *)
Theorem hs_union_query a b y : hs_query (hs_union a b) y = hs_query a y || hs_query b y.
Proof.
  unfold hs_query. apply Bool.eq_iff_eq_true. rewrite Bool.orb_true_iff, !hs_mem_In. apply hs_union_In.
Qed.

(* no false negatives over any history of inserts and unions *)
Inductive hs_grow : hset -> hset -> Prop :=
| hg_refl s : hs_grow s s
| hg_ins s s' x : hs_grow s s' -> hs_grow s (snd (hs_insert s' x))
| hg_union s s' b : hs_grow s s' -> hs_grow s (hs_union s' b).
Theorem hs_no_false_negatives s s' x : hs_grow s s' -> hs_query s x = true -> hs_query s' x = true.
Proof.
  induction 1 as [s|s s' y _ IH|s s' b _ IH]; intros Hq; [exact Hq| |].
  - apply hs_query_mono_insert, IH, Hq.
  - rewrite hs_union_query, (IH Hq). reflexivity.
Qed.

Theorem hs_clear_fresh s : hs_clear s = [] /\ hs_is_empty (hs_clear s) = true /\ hs_len (hs_clear s) = 0.
Proof. repeat split. Qed.

Print Assumptions hs_no_false_negatives.
Print Assumptions hs_union_query.
