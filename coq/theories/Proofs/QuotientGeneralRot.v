(* Proofs/QuotientGeneralRot.v — C13 for ALL widths, part 4: change of origin.
   If offset [k] of a line is empty, the same state is represented, from the origin just after [k],
   by the rotated line [rotc]; its last offset is empty.  Together with a pigeonhole argument
   (a line with fewer than [n] elements has an empty offset) this lets every insertion into a
   non-full filter be analysed without wrap-around. *)
From PDS Require Import Model.Quotient Proofs.QuotientProofs Proofs.QuotientGeneralBase.
From Coq Require Import Lia ZifyN ZifyBool.
Open Scope N_scope.

Arguments N.add : simpl never.
Arguments N.mul : simpl never.
Arguments N.sub : simpl never.
Arguments N.ltb : simpl never.
Arguments N.leb : simpl never.
Arguments N.eqb : simpl never.

Definition rotc (n d : N) (c : cellT) : cellT :=
  fun u' => if u' <? n then match c (sl n d u') with Some (v, r) => Some (unw n d v, r) | None => None end else None.
Definition roto (n d : N) (oc : N -> bool) : N -> bool := fun v' => (v' <? n) && oc (sl n d v').

Lemma sl_sl n o d u : o < n -> d < n -> u < n -> sl n (sl n o d) u = sl n o (sl n d u).
Proof.
  intros Ho Hd Hu. unfold sl.
  repeat match goal with |- context [?a <? ?b] => destruct (N.ltb_spec a b) end; lia.
Qed.

Section Rot.
Variable n : N.
Hypothesis n_pos : 0 < n.
Variables (c : cellT) (oc : N -> bool).
Hypothesis HL : Line n c oc.
Variable d : N.
Hypothesis d_pos : 0 < d.
Hypothesis d_lt : d < n.
Hypothesis Hcut : shfb c d = false.     (* no element is pushed across the new origin *)

Notation c' := (rotc n d c).
Notation oc' := (roto n d oc).

Lemma half u v r : c u = Some (v, r) -> d <= u -> d <= v.
Proof.
  intros Hc Hu. destruct (N.le_gt_cases d v) as [H|H]; [exact H|exfalso].
  destruct (no_gap n c oc HL u v r d Hc) as (v' & r' & Ha & Hv'); [lia|].
  unfold shfb in Hcut. rewrite Ha in Hcut. apply N.ltb_ge in Hcut. lia.
Qed.

Lemma rotc_inv u' v' r : c' u' = Some (v', r) ->
  u' < n /\ exists v, c (sl n d u') = Some (v, r) /\ v' = unw n d v /\ v < n /\ v <= sl n d u' /\ (d <= sl n d u' -> d <= v).
Proof.
  unfold rotc. destruct (N.ltb_spec u' n) as [Hu|Hu]; [|discriminate].
  destruct (c (sl n d u')) as [[v x]|] eqn:E; [|discriminate]. intros H. inversion H; subst.
  split; [exact Hu|]. exists v. split; [reflexivity|]. split; [reflexivity|].
  pose proof (L_le _ _ _ HL _ _ _ E). pose proof (L_dom _ _ _ HL _ _ _ E).
  split; [lia|]. split; [lia|]. apply (half _ _ _ E).
Qed.
Lemma rotc_intro u v r : c u = Some (v, r) -> c' (unw n d u) = Some (unw n d v, r).
Proof.
  intros E. pose proof (L_dom _ _ _ HL _ _ _ E) as Hu. unfold rotc.
  pose proof (unw_lt n n_pos d d_lt u Hu). destruct (N.ltb_spec (unw n d u) n); [|lia].
  rewrite sl_unw by auto. rewrite E. reflexivity.
Qed.

Lemma rot_line : Line n c' oc'.
Proof.
  split.
  - intros u' v' r H. apply rotc_inv in H. tauto.
  - intros u' v' r H. apply rotc_inv in H as (Hu & v & E & -> & Hv & Hle & Hh).
    revert Hle Hh. unfold sl, unw. destruct (N.ltb_spec (d + u') n), (N.leb_spec d v); lia.
  - intros u' v' r H Hlt. apply rotc_inv in H as (Hu & v & E & -> & Hv & Hle & Hh).
    assert (Hu0 : sl n d u' <> 0).
    { intros E0. rewrite E0 in *. assert (v = 0) by lia. subst v.
      revert Hlt E0. unfold sl, unw. destruct (N.ltb_spec (d + u') n), (N.leb_spec d 0); lia. }
    assert (Hvu : v < sl n d u').
    { revert Hlt Hle Hh. unfold sl, unw. destruct (N.ltb_spec (d + u') n), (N.leb_spec d v); lia. }
    destruct (L_prev _ _ _ HL _ _ _ E Hvu) as (v1 & r1 & E1 & Hl).
    assert (Hs1 : sl n d (u' - 1) = sl n d u' - 1).
    { revert Hu0. unfold sl. destruct (N.ltb_spec (d + u') n), (N.ltb_spec (d + (u' - 1)) n); lia. }
    exists (unw n d v1), r1. split.
    + unfold rotc. destruct (N.ltb_spec (u' - 1) n); [|lia]. rewrite Hs1, E1. reflexivity.
    + pose proof (L_le _ _ _ HL _ _ _ E1) as Hle1. pose proof (half _ _ _ E1) as Hh1.
      assert (Hud : sl n d u' <> d).
      { intros Ed. rewrite Ed in *. lia. }
      revert Hl. unfold lexlt, unw. cbn [fst snd]. destruct (N.leb_spec d v1), (N.leb_spec d v); lia.
  - intros v'. unfold roto. destruct (N.ltb_spec v' n) as [Hv|Hv]; cbn [andb].
    + rewrite (L_occ _ _ _ HL). split.
      * intros (u & r & E). exists (unw n d u), r. apply rotc_intro in E. rewrite unw_sl in E by auto. exact E.
      * intros (u' & r & E). apply rotc_inv in E as (Hu & v & E & Ev & Hvn & _).
        exists (sl n d u'), r. rewrite Ev, sl_unw by auto. exact E.
    + split; [discriminate|]. intros (u' & r & E). apply rotc_inv in E as (Hu & v & E & -> & Hvn & _).
      pose proof (unw_lt n n_pos d d_lt v Hvn). lia.
Qed.

Lemma rot_last : c (d - 1) = None -> c' (n - 1) = None.
Proof.
  intros Hk. unfold rotc. destruct (N.ltb_spec (n - 1) n); [|reflexivity].
  replace (sl n d (n - 1)) with (d - 1); [rewrite Hk; reflexivity|].
  unfold sl. destruct (N.ltb_spec (d + (n - 1)) n); lia.
Qed.

Lemma rot_mem v r : v < n -> ((exists u', c' u' = Some (unw n d v, r)) <-> exists u, c u = Some (v, r)).
Proof.
  intros Hv. split.
  - intros (u' & E). apply rotc_inv in E as (Hu & v0 & E & Ev & Hvn & _).
    assert (v0 = v).
    { rewrite <- (sl_unw n n_pos d d_lt v0 Hvn), <- Ev, sl_unw by auto. reflexivity. }
    subst v0. eauto.
  - intros (u & E). exists (unw n d u). apply rotc_intro. exact E.
Qed.

Lemma rot_shfb u' : u' < n -> shfb c' u' = shfb c (sl n d u').
Proof.
  intros Hu. unfold shfb. destruct (c' u') as [[v' r]|] eqn:E.
  - apply rotc_inv in E as (_ & v & E & -> & Hv & Hle & Hh). rewrite E.
    revert Hle Hh. unfold sl, unw.
    destruct (N.ltb_spec (d + u') n), (N.leb_spec d v);
      repeat match goal with |- context [?a <? ?b] => destruct (N.ltb_spec a b) end; try reflexivity; lia.
  - unfold rotc in E. destruct (N.ltb_spec u' n); [|lia].
    destruct (c (sl n d u')) as [[v x]|]; [discriminate|reflexivity].
Qed.
Lemma rot_remf u' : u' < n -> remf c' u' = remf c (sl n d u').
Proof.
  intros Hu. unfold remf, rotc. destruct (N.ltb_spec u' n); [|lia].
  destruct (c (sl n d u')) as [[v x]|]; reflexivity.
Qed.
Lemma rot_contb u' : u' < n -> contb c' u' = contb c (sl n d u').
Proof.
  intros Hu. destruct (N.eq_dec u' 0) as [E0|E0].
  { subst u'. replace (sl n d 0) with d by (unfold sl; destruct (N.ltb_spec (d + 0) n); lia).
    rewrite contb_0. symmetry. destruct (contb c d) eqn:E; [|reflexivity].
    apply (contb_imp_shfb n c oc HL) in E. congruence. }
  destruct (N.eq_dec (sl n d u') 0) as [E1|E1].
  { rewrite E1. rewrite contb_0. unfold contb. destruct (N.ltb_spec 0 u'); [|lia]. cbn [andb].
    destruct (c' u') as [[v' r]|] eqn:Ea; [|reflexivity].
    destruct (c' (u' - 1)) as [[v1' r1]|] eqn:Eb; [|reflexivity].
    apply rotc_inv in Ea as (_ & v & Ea & -> & Hv & Hle & Hh).
    apply rotc_inv in Eb as (_ & v1 & Eb & -> & Hv1 & Hle1 & Hh1).
    apply N.eqb_neq. revert E1 Hle Hle1 Hh1. unfold sl, unw.
    destruct (N.ltb_spec (d + u') n), (N.ltb_spec (d + (u' - 1)) n), (N.leb_spec d v), (N.leb_spec d v1); lia. }
  assert (Hs1 : sl n d (u' - 1) = sl n d u' - 1).
  { revert E1. unfold sl. destruct (N.ltb_spec (d + u') n), (N.ltb_spec (d + (u' - 1)) n); lia. }
  unfold contb. destruct (N.ltb_spec 0 u'); [|lia]. destruct (N.ltb_spec 0 (sl n d u')); [|lia]. cbn [andb].
  unfold rotc. destruct (N.ltb_spec u' n); [|lia]. destruct (N.ltb_spec (u' - 1) n); [|lia].
  rewrite Hs1. destruct (c (sl n d u')) as [[v x]|] eqn:Ea; [|reflexivity].
  destruct (c (sl n d u' - 1)) as [[v1 x1]|] eqn:Eb; [|reflexivity].
  pose proof (L_dom _ _ _ HL _ _ _ Ea). pose proof (L_le _ _ _ HL _ _ _ Ea).
  pose proof (L_dom _ _ _ HL _ _ _ Eb). pose proof (L_le _ _ _ HL _ _ _ Eb).
  unfold unw. destruct (N.leb_spec d v), (N.leb_spec d v1);
    repeat match goal with |- context [?a =? ?b] => destruct (N.eqb_spec a b) end; try reflexivity; lia.
Qed.

Lemma rot_rep s o : o < n -> Rep n s o c oc -> Rep n s (sl n o d) c' oc'.
Proof.
  intros Ho (Io & Ic & Is & Ir). unfold Rep, ImgB, ImgN in *.
  destruct Io as [Lo Io], Ic as [Lc Ic], Is as [Ls Is], Ir as [Lr Ir].
  assert (Hsl : forall u, u < n -> sl n d u < n) by (intros u Hu; apply sl_lt; lia).
  repeat split; auto; intros u Hu; rewrite sl_sl by auto.
  - rewrite Io by auto. unfold roto. destruct (N.ltb_spec u n); [reflexivity|lia].
  - rewrite Ic by auto. symmetry. apply rot_contb. exact Hu.
  - rewrite Is by auto. symmetry. apply rot_shfb. exact Hu.
  - rewrite Ir by auto. symmetry. apply rot_remf. exact Hu.
Qed.
End Rot.

Print Assumptions rot_line.
Print Assumptions rot_rep.
Print Assumptions rot_mem.
