(* Proofs/SizingProofs.v — what the sizing constructors (Model/Sizing.v) guarantee in EXACT arithmetic
   (N, Q, lists; exact arithmetic only, axiom-free), and exact counting statements behind the advertised
   false-positive rates.

   1. bloom_sizing_usable, cms_sizing_spec (any arithmetic instance); cms_sizing_w, cms_sizing_d (Q instance,
      abstract [ceil]/[trunc] with explicit hypotheses)
   2. npow2_ge / npow2_is_pow2 / npow2_minimal; cuckoo_params_ok_new, cuckoo_sizing_chk_eq; cuckoo_sizing_wf
   3. cuckoo_positive_pairs_bound (+ _enum, _fraction): at most 2 * (stored fingerprints) of the
      (fingerprint, primary bucket) pairs are answered "present"
   4. qf_positive_count, qf_positive_exact (+ reachable-state and key versions, qf_hit_count_exact)
   5. pos_full_collision, cms_full_collision, cms_query_full_collision, cms_add_full_collision,
      bloom_full_collision, full_collision_exists (pigeonhole), cms_eps_delta_refuted (finding C08) *)
From PDS Require Import Model.Sizing Model.TDigestQ Model.Cms Model.Bloom Model.Quotient Exec.ExSizing.
From PDS Require Import Proofs.CuckooBase Proofs.CuckooMultiset.
From PDS Require Import Proofs.QuotientProofs Proofs.QuotientRename Proofs.QuotientLift
  Proofs.QuotientGeneralBase Proofs.QuotientGeneral Proofs.QuotientGeneralCanon Proofs.QuotientGeneralUnion.
From Coq Require Import Lia Lqa ZifyN ZifyBool QArith Qround Permutation.

Local Open Scope N_scope.
Ltac Zify.zify_post_hook ::= Z.div_mod_to_equations.

Arguments N.add : simpl never.
Arguments N.sub : simpl never.
Arguments N.mul : simpl never.
Arguments N.div : simpl never.
Arguments N.modulo : simpl never.
Arguments N.pow : simpl never.
Arguments N.leb : simpl never.
Arguments N.ltb : simpl never.
Arguments N.eqb : simpl never.
Arguments N.land : simpl never.
Arguments N.lxor : simpl never.
Arguments N.min : simpl never.
Arguments N.max : simpl never.
Arguments N.log2_up : simpl never.

(* ====================================================================== *)
(** * 1. Bloom / CMS sizing, any arithmetic instance *)

Section AnyInstance.
Variable A : arith.
Variable ofN : N -> aT A.
Variables ln log2 ceil : aT A -> aT A.
Variable trunc : aT A -> N.
Variable E : aT A.

(* whatever the float functions do, the [max 1] makes the dimensions usable (m = 0 would make every
   insert/query panic with a remainder by zero, see Model/Bloom.v) *)
Theorem bloom_sizing_usable n p m k :
  bloom_sizing A ofN ln log2 trunc n p = Some (m, k) -> 1 <= k /\ 1 <= m.
Proof.
  unfold bloom_sizing.
  destruct ((0 <? n) && altb A (azero A) p && altb A p (aone A)); [|discriminate].
  intros Eq. injection Eq as <- <-. split; apply N.le_max_r.
Qed.

Theorem bloom_sizing_spec n p m k :
  bloom_sizing A ofN ln log2 trunc n p = Some (m, k) ->
  0 < n /\ altb A (azero A) p = true /\ altb A p (aone A) = true /\
  k = N.max (trunc (fneg A (log2 p))) 1 /\
  m = N.max (trunc (adiv A (fneg A (amul A (ofN n) (ln p))) (amul A (ln (ofN 2)) (ln (ofN 2))))) 1.
Proof.
  unfold bloom_sizing.
  destruct (N.ltb_spec 0 n) as [Hn|]; [|discriminate].
  destruct (altb A (azero A) p); [|discriminate].
  destruct (altb A p (aone A)); [|discriminate]. cbn [andb].
  intros Eq. injection Eq as <- <-. repeat split; auto.
Qed.

Theorem bloom_sizing_panics n p :
  n = 0 \/ altb A (azero A) p = false \/ altb A p (aone A) = false ->
  bloom_sizing A ofN ln log2 trunc n p = None.
Proof.
  unfold bloom_sizing. intros [->|[->| ->]]; [reflexivity| |]; rewrite ?andb_false_r; reflexivity.
Qed.

(* the CMS constructor returns exactly the two casts, and the table size fits a usize *)
Theorem cms_sizing_spec eps delta w d :
  cms_sizing A ln ceil trunc E eps delta = Some (w, d) ->
  altb A (azero A) eps = true /\ altb A (azero A) delta = true /\ altb A delta (aone A) = true /\
  w = trunc (ceil (adiv A E eps)) /\ d = trunc (ceil (ln (adiv A (aone A) delta))) /\
  w * d < 2 ^ 64 /\ length (ctbl (cms_new w d 0)) = N.to_nat (w * d).
Proof.
  unfold cms_sizing.
  destruct (altb A (azero A) eps); [|discriminate].
  destruct (altb A (azero A) delta); [|discriminate].
  destruct (altb A delta (aone A)); [|discriminate]. cbn [andb].
  destruct (N.ltb_spec (trunc (ceil (adiv A E eps)) * trunc (ceil (ln (adiv A (aone A) delta)))) (2 ^ 64)) as [Hlt|];
    [|discriminate].
  intros Eq. injection Eq as <- <-. repeat split; auto.
  unfold cms_new. cbn [ctbl]. apply repeat_length.
Qed.

Theorem cms_sizing_panics eps delta :
  altb A (azero A) eps = false \/ altb A (azero A) delta = false \/ altb A delta (aone A) = false ->
  cms_sizing A ln ceil trunc E eps delta = None.
Proof.
  unfold cms_sizing. intros [->|[->| ->]]; [reflexivity| |]; rewrite ?andb_false_r; reflexivity.
Qed.
End AnyInstance.

(* ====================================================================== *)
(** * 1b. CMS sizing over Q: w * eps >= e and d >= ln (1/delta) *)

Definition N2Q (n : N) : Q := inject_Z (Z.of_N n).

Section CmsQ.
Variables ln ceil : Q -> Q.
Variable trunc : Q -> N.
Variable E : Q.
(* [ceil] rounds up; the cast [as usize] is exact on the (integral) values [ceil] produces as long as
   they are non-negative and below the saturation point 2^64 *)
Hypothesis ceil_ge : forall x, (x <= ceil x)%Q.
Hypothesis trunc_ceil : forall x, (0 <= x)%Q -> (ceil x < N2Q (2 ^ 64))%Q -> (N2Q (trunc (ceil x)) == ceil x)%Q.
Hypothesis E_pos : (0 < E)%Q.

Lemma Qltb_lt a b : Qltb a b = true -> (a < b)%Q.
Proof.
  unfold Qltb. intros Hb. apply negb_true_iff in Hb.
  destruct (Qlt_le_dec a b) as [L|G]; [exact L|]. apply Qle_bool_iff in G. congruence.
Qed.

(* the width: w columns with w * eps >= e, i.e. e / w <= eps, unless the cast saturated *)
Theorem cms_sizing_w eps delta w d :
  cms_sizing QNum ln ceil trunc E eps delta = Some (w, d) ->
  (ceil (E / eps) < N2Q (2 ^ 64))%Q ->
  (E <= N2Q w * eps)%Q.
Proof.
  intros Hs Hsat. apply (cms_sizing_spec QNum) in Hs. destruct Hs as (He & _ & _ & Hw & _).
  cbn [altb azero QNum adiv] in He, Hw. apply Qltb_lt in He.
  assert (Hq : (0 <= E / eps)%Q).
  { apply Qle_shift_div_l; [exact He|]. lra. }
  pose proof (trunc_ceil _ Hq Hsat) as Ht. rewrite <- Hw in Ht.
  pose proof (ceil_ge (E / eps)) as Hc.
  assert (Hd : (E / eps <= N2Q w)%Q) by (rewrite Ht; exact Hc).
  setoid_replace E with (E / eps * eps)%Q by (field; lra).
  apply Qmult_le_compat_r; [exact Hd|lra].
Qed.

(* the depth: d rows with d >= ln (1/delta), given that ln is non-negative on [1, oo) *)
Theorem cms_sizing_d eps delta w d :
  (forall x, (1 <= x)%Q -> (0 <= ln x)%Q) ->
  cms_sizing QNum ln ceil trunc E eps delta = Some (w, d) ->
  (ceil (ln (1 / delta)) < N2Q (2 ^ 64))%Q ->
  (ln (1 / delta) <= N2Q d)%Q.
Proof.
  intros Hln Hs Hsat. apply (cms_sizing_spec QNum) in Hs. destruct Hs as (_ & Hd0 & Hd1 & _ & Hd & _).
  cbn [altb azero aone QNum adiv] in Hd0, Hd1, Hd. apply Qltb_lt in Hd0, Hd1.
  assert (H1 : (1 <= 1 / delta)%Q).
  { apply Qle_shift_div_l; [exact Hd0|]. lra. }
  pose proof (trunc_ceil _ (Hln _ H1) Hsat) as Ht. rewrite <- Hd in Ht.
  rewrite Ht. apply ceil_ge.
Qed.
End CmsQ.

(* ====================================================================== *)
(** * 2. next_power_of_two and the cuckoo constructor *)

Lemma is_pow2_pow2 k : is_pow2 (2 ^ k) = true.
Proof.
  unfold is_pow2. assert (Hp : 0 < 2 ^ k) by (apply N.neq_0_lt_0, N.pow_nonzero; discriminate).
  apply andb_true_iff. split; [apply N.ltb_lt; exact Hp|]. apply N.eqb_eq.
  apply N.bits_inj. intros m. rewrite N.land_spec, N.bits_0, N.pow2_bits_eqb.
  replace (2 ^ k - 1) with (N.ones k) by (rewrite N.ones_equiv; lia).
  destruct (N.eqb_spec k m) as [->|Hne]; [|reflexivity].
  rewrite N.ones_spec_high by lia. reflexivity.
Qed.

Theorem npow2_ge x : x <= npow2 x.
Proof.
  unfold npow2. destruct (N.le_gt_cases x 1) as [Hx|Hx].
  - rewrite N.log2_up_eqn0 by exact Hx. change (2 ^ 0) with 1. exact Hx.
  - apply N.log2_up_spec. exact Hx.
Qed.

Theorem npow2_is_pow2 x : is_pow2 (npow2 x) = true.
Proof. apply is_pow2_pow2. Qed.

Theorem npow2_pos x : 1 <= npow2 x.
Proof. unfold npow2. assert (2 ^ N.log2_up x <> 0) by (apply N.pow_nonzero; discriminate). lia. Qed.

(* minimal among the powers of two above x *)
Theorem npow2_minimal x y : is_pow2 y = true -> x <= y -> npow2 x <= y.
Proof.
  intros Hy Hxy. rewrite (is_pow2_spec _ Hy) in Hxy |- *. unfold npow2.
  apply N.pow_le_mono_r; [discriminate|].
  destruct (N.eq_0_gt_0_cases x) as [->|Hx]; [rewrite N.log2_up_eqn0 by lia; lia|].
  apply N.log2_up_le_pow2; assumption.
Qed.

(* usize::next_power_of_two, as computed by core: 1 for x <= 1, else 2^(1 + floor(log2 (x - 1))) *)
Theorem npow2_core x : npow2 x = if x <=? 1 then 1 else 2 ^ (N.succ (N.log2 (x - 1))).
Proof.
  unfold npow2. destruct (N.leb_spec x 1) as [Hx|Hx].
  - rewrite N.log2_up_eqn0 by exact Hx. reflexivity.
  - rewrite N.log2_up_eqn by exact Hx. rewrite N.sub_1_r. reflexivity.
Qed.

Theorem npow2_fix x : is_pow2 x = true -> npow2 x = x.
Proof.
  intros Hx. apply N.le_antisymm; [apply npow2_minimal; [exact Hx|lia]|apply npow2_ge].
Qed.

Example npow2_values : map npow2 [0; 1; 2; 3; 4; 5; 1000; 2 ^ 63; 2 ^ 63 + 1] = [1; 1; 2; 4; 4; 8; 1024; 2 ^ 63; 2 ^ 64].
Proof. vm_compute. reflexivity. Qed.

(* the boolean used by the replay is the condition tested by cuckoo_new *)
Theorem cuckoo_params_ok_new bs nb l :
  cuckoo_params_ok bs nb l = true <-> exists s, cuckoo_new bs nb l = Some s.
Proof.
  unfold cuckoo_params_ok, cuckoo_new.
  destruct ((2 <=? bs) && is_pow2 nb && (2 <=? nb) && (1 <? l) && (l <=? 64) && (nb * bs <? 2 ^ 64) &&
            (l * (nb * bs) <? 2 ^ 64)).
  - split; [intros _; eexists; reflexivity|reflexivity].
  - split; [discriminate|intros [s Hs]; discriminate].
Qed.

Section CuckooSizing.
Variable A : arith.
Variable ofN : N -> aT A.
Variables log2 ceil : aT A -> aT A.
Variable trunc : aT A -> N.

Theorem cuckoo_sizing_chk_eq bs load p n :
  cuckoo_sizing_chk A ofN log2 ceil trunc bs load p n = cuckoo_sizing A ofN log2 ceil trunc bs load p n.
Proof.
  unfold cuckoo_sizing_chk, cuckoo_sizing.
  destruct ((1 <=? n) && altb A (azero A) p && altb A p (aone A)); [|reflexivity].
  destruct (cuckoo_dims A ofN log2 ceil trunc bs load p n) as [nb l].
  pose proof (cuckoo_params_ok_new bs nb l) as Hiff.
  destruct (cuckoo_params_ok bs nb l), (cuckoo_new bs nb l) as [s|]; try reflexivity.
  - destruct Hiff as [Hx _]. destruct (Hx eq_refl) as [s Hs]. discriminate.
  - destruct Hiff as [_ Hx]. discriminate Hx. eexists; reflexivity.
Qed.

Corollary cuckoo_sizing_chk_4_eq p n :
  cuckoo_sizing_chk_4 A ofN log2 ceil trunc p n = cuckoo_sizing_4 A ofN log2 ceil trunc p n.
Proof. apply cuckoo_sizing_chk_eq. Qed.
Corollary cuckoo_sizing_chk_8_eq p n :
  cuckoo_sizing_chk_8 A ofN log2 ceil trunc p n = cuckoo_sizing_8 A ofN log2 ceil trunc p n.
Proof. apply cuckoo_sizing_chk_eq. Qed.

(* whatever the float functions do: a constructor that returns has dimensions accepted by
   with_params_and_hash, the bucket count is the next power of two of the computed value, and the fresh
   filter [cuckoo_new] is well formed (so all theorems of CuckooMultiset.v apply to it) *)
Theorem cuckoo_sizing_wf bs0 load p n bs nb l :
  cuckoo_sizing A ofN log2 ceil trunc bs0 load p n = Some (bs, nb, l) ->
  bs = bs0 /\ 2 <= bs /\ is_pow2 nb = true /\ 2 <= nb /\ 1 < l <= 64 /\
  nb * bs < 2 ^ 64 /\ l * (nb * bs) < 2 ^ 64 /\
  1 <= n /\ altb A (azero A) p = true /\ altb A p (aone A) = true /\
  (nb, l) = cuckoo_dims A ofN log2 ceil trunc bs0 load p n /\
  exists s, cuckoo_new bs nb l = Some s /\ wfc s /\ kn s = 0 /\ kbs s = bs /\ knb s = nb /\ kl s = l.
Proof.
  unfold cuckoo_sizing.
  destruct (N.leb_spec 1 n) as [Hn|]; [|discriminate].
  destruct (altb A (azero A) p); [|discriminate].
  destruct (altb A p (aone A)); [|discriminate]. cbn [andb].
  destruct (cuckoo_dims A ofN log2 ceil trunc bs0 load p n) as [nb' l'].
  destruct (cuckoo_new bs0 nb' l') as [s|] eqn:En; [|discriminate].
  intros Eq. injection Eq as <- <- <-.
  pose proof (cuckoo_new_wfc _ _ _ _ En) as (Hwf & Hk & Hbs & Hnb & Hl & _).
  pose proof Hwf as ((H1 & H2 & H3 & H4) & H5 & _). rewrite Hbs, Hnb in *. rewrite Hl in H5.
  assert (Hsz : nb' * bs0 < 2 ^ 64 /\ l' * (nb' * bs0) < 2 ^ 64).
  { revert En. unfold cuckoo_new.
    destruct (N.ltb_spec (nb' * bs0) (2 ^ 64)); [|rewrite !andb_false_r, ?andb_false_l; cbn [andb]; discriminate].
    destruct (N.ltb_spec (l' * (nb' * bs0)) (2 ^ 64)); [|rewrite !andb_false_r; discriminate]. auto. }
  destruct Hsz as [Hs1 Hs2].
  repeat split; auto; try lia.
  exists s. split; [exact En|]. split; [exact Hwf|]. auto.
Qed.

Corollary cuckoo_sizing_nb_pow2 bs0 load p n bs nb l :
  cuckoo_sizing A ofN log2 ceil trunc bs0 load p n = Some (bs, nb, l) ->
  exists x, nb = npow2 x /\ x <= nb /\ forall y, is_pow2 y = true -> x <= y -> nb <= y.
Proof.
  intros Hs. apply cuckoo_sizing_wf in Hs. destruct Hs as (_&_&_&_&_&_&_&_&_&_&Hd&_).
  unfold cuckoo_dims in Hd. injection Hd as Hnb _. eexists. split; [exact Hnb|]. rewrite Hnb.
  split; [apply npow2_ge|intros y Hy Hxy; apply npow2_minimal; assumption].
Qed.
End CuckooSizing.

(* ====================================================================== *)
(** * 3. Cuckoo filter: how many (fingerprint, bucket) pairs are answered "present" *)

Lemma Nseq_NoDup' k : forall a, NoDup (Nseq a k).
Proof.
  induction k as [|k IH]; intros a; cbn [Nseq]; constructor; [|apply IH].
  rewrite Nseq_In. lia.
Qed.

Lemma NoDup_app_intro {X} (l1 l2 : list X) :
  NoDup l1 -> NoDup l2 -> (forall x, In x l1 -> In x l2 -> False) -> NoDup (l1 ++ l2).
Proof.
  intros H1 H2 Hd. induction H1 as [|x l Hx H1 IH]; cbn [app]; [exact H2|].
  constructor.
  - rewrite in_app_iff. intros [Hin|Hin]; [exact (Hx Hin)|]. apply (Hd x); [left; reflexivity|exact Hin].
  - apply IH. intros y Hy1 Hy2. apply (Hd y); [right; exact Hy1|exact Hy2].
Qed.

Lemma NoDup_list_prod {X Y} (l : list X) (l' : list Y) : NoDup l -> NoDup l' -> NoDup (list_prod l l').
Proof.
  intros Hl Hl'. induction Hl as [|x l Hx Hl IH]; cbn [list_prod]; [constructor|].
  apply NoDup_app_intro.
  - apply FinFun.Injective_map_NoDup; [|exact Hl']. intros a b Hab. congruence.
  - exact IH.
  - intros [a b] H1 H2. apply in_map_iff in H1 as (y & Ey & _). apply in_prod_iff in H2 as [H2 _]. congruence.
Qed.

Section CuckooCount.
Variable H : hashfn.

(* a lookup of fingerprint f with primary bucket i1 (Filter::query after the hashing step) *)
Definition lookup (s : cuckoo) (p : N * N) : bool :=
  let '(f, i1) := p in
  has_in_bucket (kbs s) (ktbl s) i1 f || has_in_bucket (kbs s) (ktbl s) (N.lxor i1 (hb H (knb s) f)) f.

Lemma cuckoo_query_lookup s x : cuckoo_query H s x = lookup s (fpr H (kl s) x, hb H (knb s) x).
Proof. unfold cuckoo_query, lookup. rewrite start_eq. reflexivity. Qed.

(* the candidates: every occupied slot (fingerprint g in bucket j) answers exactly the two lookups
   (g, j) and (g, j xor hb g) *)
Fixpoint cands (bs nb : N) (t : list N) (idx : N) : list (N * N) :=
  match t with
  | [] => []
  | f :: r => (if f =? 0 then [] else [(f, idx / bs); (f, N.lxor (idx / bs) (hb H nb f))]) ++ cands bs nb r (idx + 1)
  end.

Lemma cands_length bs nb t : forall idx, length (cands bs nb t idx) = (2 * length (absl H bs nb t idx))%nat.
Proof.
  induction t as [|f r IH]; intros idx; cbn [cands absl]; [reflexivity|].
  rewrite !app_length, IH. unfold cl1. destruct (f =? 0); cbn [length]; lia.
Qed.

Lemma cands_complete bs nb t f i : f <> 0 ->
  forall idx, In (cls H nb f i) (absl H bs nb t idx) -> In (f, i) (cands bs nb t idx).
Proof.
  intros Hf. induction t as [|g r IH]; intros idx; cbn [cands absl]; [intros []|].
  rewrite !in_app_iff. intros [Hin|Hin]; [left|right; apply IH; exact Hin].
  unfold cl1 in Hin. destruct (N.eqb_spec g 0) as [|Hg]; [destruct Hin|].
  destruct Hin as [Hc|[]]. symmetry in Hc. apply cls_eq_inv in Hc. destruct Hc as [-> [-> | ->]].
  - left. reflexivity.
  - right. left. reflexivity.
Qed.

Lemma lookup_cands s f i : wfc s -> f <> 0 -> lookup s (f, i) = true ->
  In (f, i) (cands (kbs s) (knb s) (ktbl s) 0).
Proof.
  intros [Hp _] Hf Hl. apply cands_complete; [exact Hf|].
  apply In_cls_iff; [destruct Hp; lia|exact Hf|]. unfold lookup in Hl. apply orb_true_iff in Hl. exact Hl.
Qed.

(* MAIN: any duplicate-free list of successful (fingerprint, primary bucket) lookups has at most
   2 * (number of stored fingerprints) elements.  Fingerprint 0 is excluded: it is the free-slot
   marker and never produced by [fpr] ([fpr_nz]). *)
Theorem cuckoo_positive_pairs_bound s (L : list (N * N)) : wfc s -> NoDup L ->
  (forall p, In p L -> fst p <> 0 /\ lookup s p = true) ->
  (length L <= 2 * length (abs H s))%nat.
Proof.
  intros Hwf Hnd HL. unfold abs. rewrite <- cands_length.
  apply NoDup_incl_length; [exact Hnd|]. intros [f i] Hin. destruct (HL _ Hin) as [Hf Hl]. cbn [fst] in Hf.
  apply lookup_cands; assumption.
Qed.

(* in states reachable from a fresh filter, |abs s| = len() *)
Corollary cuckoo_positive_pairs_bound_len s (L : list (N * N)) : CuckooMultiset.Inv H s -> NoDup L ->
  (forall p, In p L -> fst p <> 0 /\ lookup s p = true) ->
  N.of_nat (length L) <= 2 * cuckoo_len s.
Proof.
  intros [Hwf Hn] Hnd HL. pose proof (cuckoo_positive_pairs_bound s L Hwf Hnd HL). unfold cuckoo_len. lia.
Qed.

(* the same with the explicit enumeration: F any duplicate-free set of non-zero fingerprints (e.g. all
   of them, [fingerprints l] below), all buckets *)
Theorem cuckoo_positive_pairs_enum s (F : list N) : wfc s -> NoDup F -> ~ In 0 F ->
  (length (filter (lookup s) (list_prod F (Nseq 0 (N.to_nat (knb s))))) <= 2 * length (abs H s))%nat.
Proof.
  intros Hwf Hnd H0. apply cuckoo_positive_pairs_bound; [exact Hwf| |].
  - apply NoDup_filter, NoDup_list_prod; [exact Hnd|apply Nseq_NoDup'].
  - intros [f i] Hin. apply filter_In in Hin as [Hin Hl]. apply in_prod_iff in Hin as [Hf _].
    cbn [fst]. split; [intros ->; exact (H0 Hf)|exact Hl].
Qed.

(* the fingerprint range of [fpr]: 1 .. 2^l - 1 (for l = 64 the Rust code reduces modulo u64::MAX = 2^64 - 1,
   which is the same formula) *)
Definition fingerprints (l : N) : list N := Nseq 1 (N.to_nat (2 ^ l - 1)).

Lemma fingerprints_spec l f : In f (fingerprints l) <-> 1 <= f < 2 ^ l.
Proof.
  unfold fingerprints. rewrite Nseq_In.
  assert (2 ^ l <> 0) by (apply N.pow_nonzero; discriminate). lia.
Qed.

Lemma fingerprints_length l : length (fingerprints l) = N.to_nat (2 ^ l - 1).
Proof. apply Nseq_length. Qed.

Lemma fpr_range l x : 1 < l -> In (fpr H l x) (fingerprints l).
Proof.
  intros Hl. apply fingerprints_spec. unfold fpr.
  assert (Hp : 2 ^ 2 <= 2 ^ l) by (apply N.pow_le_mono_r; [discriminate|lia]). change (2 ^ 2) with 4 in Hp.
  destruct (N.eqb_spec l 64) as [->|_].
  - pose proof (N.mod_lt (H (Some 0) (Some x)) (2 ^ 64 - 1)). lia.
  - pose proof (N.mod_lt (H (Some 0) (Some x)) (2 ^ l - 1)). lia.
Qed.

Lemma list_prod_length {X Y} (l : list X) (l' : list Y) : length (list_prod l l') = (length l * length l')%nat.
Proof. apply prod_length. Qed.

(* of the (2^l - 1) * nb possible (fingerprint, bucket) pairs at most 2 * len() are answered "present" *)
Theorem cuckoo_positive_pairs_all s : CuckooMultiset.Inv H s ->
  let U := list_prod (fingerprints (kl s)) (Nseq 0 (N.to_nat (knb s))) in
  length U = N.to_nat ((2 ^ kl s - 1) * knb s) /\
  N.of_nat (length (filter (lookup s) U)) <= 2 * cuckoo_len s.
Proof.
  intros [Hwf Hn] U. split.
  - unfold U. rewrite prod_length, fingerprints_length, Nseq_length. lia.
  - assert (Hb : (length (filter (lookup s) U) <= 2 * length (abs H s))%nat).
    { apply cuckoo_positive_pairs_enum; [exact Hwf|apply Nseq_NoDup'|]. rewrite fingerprints_spec. lia. }
    unfold cuckoo_len. lia.
Qed.

(* as a fraction: with at most n stored elements, the positive pairs are at most
   2 n / ((2^l - 1) nb) of all pairs.  (If the key hashes (fpr x, hb x) are uniform over the pairs, this
   is the probability that a query answers "present"; for a key that was never inserted it bounds the
   false-positive probability.) *)
Theorem cuckoo_positive_fraction s n : CuckooMultiset.Inv H s -> cuckoo_len s <= n ->
  let U := list_prod (fingerprints (kl s)) (Nseq 0 (N.to_nat (knb s))) in
  (N2Q (N.of_nat (length (filter (lookup s) U))) / N2Q (N.of_nat (length U))
   <= N2Q (2 * n) / N2Q ((2 ^ kl s - 1) * knb s))%Q.
Proof.
  intros Hinv Hn U. destruct (cuckoo_positive_pairs_all s Hinv) as [HU Hc]. fold U in HU, Hc.
  rewrite HU, N2Nat.id.
  pose proof Hinv as [((_ & _ & Hnb & _) & Hl & _) _].
  assert (Hp : 2 ^ 2 <= 2 ^ kl s) by (apply N.pow_le_mono_r; [discriminate|lia]). change (2 ^ 2) with 4 in Hp.
  assert (Hpos : 0 < (2 ^ kl s - 1) * knb s) by nia.
  assert (HposQ : (0 < N2Q ((2 ^ kl s - 1) * knb s))%Q).
  { unfold N2Q. change 0%Q with (inject_Z 0). rewrite <- Zlt_Qlt. lia. }
  apply Qle_shift_div_l; [exact HposQ|].
  unfold Qdiv. rewrite <- Qmult_assoc, (Qmult_comm (/ _)), Qmult_inv_r, Qmult_1_r by lra.
  unfold N2Q. rewrite <- Zle_Qle. lia.
Qed.
Lemma N2Q_mul a b : (N2Q (a * b) == N2Q a * N2Q b)%Q.
Proof. unfold N2Q. rewrite N2Z.inj_mul, inject_Z_mult. reflexivity. Qed.
Lemma N2Q_le a b : a <= b -> (N2Q a <= N2Q b)%Q.
Proof. unfold N2Q. rewrite <- Zle_Qle. lia. Qed.

(* the target is met when the dimensions are what the formulas of with_properties_and_hash_n ask for in
   EXACT arithmetic: l = ceil (log2 (2 bs / p)) gives 2 bs / p <= 2^l, and
   nb = next_power_of_two (ceil (n / load)) with load <= 1 gives n <= nb.  Then at most a fraction p of
   all (fingerprint, bucket) pairs is answered "present" while at most n elements are stored. *)
Theorem cuckoo_fraction_meets_target s n (p : Q) : CuckooMultiset.Inv H s -> cuckoo_len s <= n -> n <= knb s ->
  (0 < p)%Q -> (p < 1)%Q -> (2 * N2Q (kbs s) / p <= N2Q (2 ^ kl s))%Q ->
  let U := list_prod (fingerprints (kl s)) (Nseq 0 (N.to_nat (knb s))) in
  (N2Q (N.of_nat (length (filter (lookup s) U))) / N2Q (N.of_nat (length U)) <= p)%Q.
Proof.
  intros Hinv Hlen Hnb Hp0 Hp1 Hl U.
  eapply Qle_trans; [apply (cuckoo_positive_fraction s n Hinv Hlen)|].
  pose proof Hinv as [((Hbs & _ & Hnb2 & _) & Hkl & _) _].
  assert (Hpw : 2 ^ 2 <= 2 ^ kl s) by (apply N.pow_le_mono_r; [discriminate|lia]). change (2 ^ 2) with 4 in Hpw.
  assert (Ea : (N2Q (2 ^ kl s - 1) == N2Q (2 ^ kl s) - 1)%Q).
  { unfold N2Q. rewrite N2Z.inj_sub by lia. unfold Z.sub, Qminus. rewrite inject_Z_plus, inject_Z_opp. reflexivity. }
  assert (Hb2 : (2 <= N2Q (kbs s))%Q) by (apply (N2Q_le 2); exact Hbs).
  assert (HpA : (2 * N2Q (kbs s) <= N2Q (2 ^ kl s) * p)%Q).
  { setoid_replace (2 * N2Q (kbs s))%Q with (2 * N2Q (kbs s) / p * p)%Q by (field; lra).
    apply Qmult_le_compat_r; [exact Hl|lra]. }
  assert (Hnn : (N2Q n <= N2Q (knb s))%Q) by (apply N2Q_le; exact Hnb).
  assert (H0n : (0 <= N2Q n)%Q) by (apply (N2Q_le 0); lia).
  assert (Hpos : (0 < N2Q ((2 ^ kl s - 1) * knb s))%Q).
  { unfold N2Q. change 0%Q with (inject_Z 0). rewrite <- Zlt_Qlt. nia. }
  apply Qle_shift_div_r; [exact Hpos|].
  rewrite !N2Q_mul, Ea. change (N2Q 2) with 2%Q.
  set (a := N2Q (2 ^ kl s)) in *. set (b := N2Q (knb s)) in *. set (c := N2Q n) in *. set (k := N2Q (kbs s)) in *.
  assert (H3 : (2 <= p * (a - 1))%Q) by nra.
  nra.
Qed.
End CuckooCount.

(* the tight example: in the reachable state exU (3 stored fingerprints, CuckooMultiset.Examples) exactly
   6 = 2 * 3 of the 255 * 4 (fingerprint, bucket) pairs are answered "present" *)
Example cuckoo_positive_pairs_tight :
  let s := CuckooMultiset.Examples.exU in
  let Hx := CuckooMultiset.Examples.Hex in
  CuckooMultiset.Inv Hx s /\ cuckoo_len s = 3 /\
  filter (lookup Hx s) (list_prod (fingerprints (kl s)) (Nseq 0 (N.to_nat (knb s)))) =
    [(8, 0); (8, 1); (15, 1); (15, 3); (22, 1); (22, 2)].
Proof.
  split; [|vm_compute; auto].
  apply (reach_Inv _ _ _ _ CuckooMultiset.Examples.ex0_Hnew CuckooMultiset.Examples.ex_union_reach).
Qed.

(* ====================================================================== *)
(** * 4. Quotient filter: exactly the stored (quotient, remainder) pairs are reported *)

Section QfCount.
Variable bq : N.
Notation n := (cn bq).

(* exactly the stored set is reported *)
Theorem qf_positive_exact s A p : Inv bq s A -> qok bq p -> (qry bq s p = true <-> In p A).
Proof.
  intros HI Hp. destruct (step bq s A p HI Hp) as (Hq & _). rewrite Hq. apply lmem_In.
Qed.

(* any duplicate-free list of pairs reported present has at most len() elements *)
Theorem qf_positive_count s A (L : list (N * N)) : Inv bq s A -> NoDup L ->
  (forall p, In p L -> qok bq p /\ qry bq s p = true) ->
  N.of_nat (length L) <= qcnt s.
Proof.
  intros HI Hnd HL. pose proof HI as (_ & _ & _ & Hcnt & _). rewrite Hcnt.
  assert (Hle : (length L <= length A)%nat); [|lia].
  apply NoDup_incl_length; [exact Hnd|]. intros p Hp. destruct (HL p Hp) as [Hq Hr].
  apply (qf_positive_exact s A p HI Hq). exact Hr.
Qed.

(* over any duplicate-free universe U of well-formed pairs that contains the stored ones, the number of
   pairs reported present is EXACTLY len() *)
Theorem qf_positive_count_exact s A (U : list (N * N)) : Inv bq s A -> NoDup U ->
  Forall (qok bq) U -> incl A U ->
  N.of_nat (length (filter (qry bq s) U)) = qcnt s.
Proof.
  intros HI Hnd HU Hin. pose proof HI as (HndA & _ & _ & Hcnt & _). rewrite Hcnt. f_equal.
  rewrite Forall_forall in HU.
  apply Nat.le_antisymm; apply NoDup_incl_length.
  - apply NoDup_filter. exact Hnd.
  - intros p Hp. apply filter_In in Hp as [Hp Hr]. apply (qf_positive_exact s A p HI (HU p Hp)). exact Hr.
  - exact HndA.
  - intros p Hp. apply filter_In. split; [apply Hin; exact Hp|].
    apply (qf_positive_exact s A p HI (HU p (Hin p Hp))). exact Hp.
Qed.
End QfCount.

Section QfReachCount.
Variables bq br : N.
Variable H : hashfn.
Hypothesis Hw : widths_ok bq br.
Hypothesis Hh : hash64 H.
Notation n := (cn bq).
Notation kp := (key_pair bq br H).

(* every reachable state stores pairs of the universe [0, 2^bq) x [0, 2^br) *)
Theorem qf_reach_universe s : qf_reach H bq br s ->
  exists A, Inv bq s A /\ Forall (inU bq br) A /\ qbq s = bq /\ qbr s = br.
Proof.
  intros Hr. induction Hr as [s1 E1|s x Hr IH|a b res a' Ha IHa Hb IHb Eu|s Hr IH].
  - rewrite (qf_new_empty_g bq br Hw) in E1. inversion E1; subst. exists []. split; [apply Inv_empty|].
    split; [constructor|split; reflexivity].
  - destruct IH as (A & HI & HU & Eq & Er).
    rewrite (qf_insert_shape_int bq br H s x Eq Er).
    pose proof (kp_qok bq br H Hw Hh x) as Hx.
    destruct (step bq s A (kp x) HI Hx) as (_ & _ & HI').
    exists (snd (lstep bq A (kp x))). split; [exact HI'|]. split.
    + unfold lstep. destruct (lmem (kp x) A); cbn [snd]; [exact HU|].
      destruct (N.of_nat (length A) =? n); cbn [snd]; [exact HU|].
      apply Forall_app. split; [exact HU|]. constructor; [|constructor].
      apply (key_pair_inU bq br H x Hw Hh).
    + pose proof (qf_insert_internal_shape n (cfuel bq) s (fst (kp x)) (snd (kp x))) as (_&_&_&_&Hq1&Hr1).
      fold (ins bq s (kp x)) in Hq1, Hr1. split; congruence.
  - destruct IHa as (A & HIa & HUa & Eqa & Era). destruct IHb as (B & HIb & HUb & Eqb & Erb).
    pose proof (qf_union_shape a b res a' Eu) as (_&_&_&_&Hq1&Hr1).
    destruct (qf_union_general bq a b A B HIa HIb Eqa Eqb ltac:(congruence)) as [U1 U2].
    assert (Hdec : fits bq A B \/ ~ fits bq A B) by (unfold fits; lia).
    destruct Hdec as [Hf|Hf].
    + destruct (U1 Hf) as (s' & A' & E & HI' & Hmem). rewrite E in Eu. inversion Eu; subst. exists A'.
      split; [exact HI'|]. split; [|split; congruence].
      rewrite Forall_forall in *. intros p Hp. apply Hmem in Hp. destruct Hp; auto.
    + rewrite (U2 Hf) in Eu. inversion Eu; subst. exists A. auto.
  - exists []. rewrite (qf_clear_init H bq br _ s (qf_new_empty_g bq br Hw) Hr). split; [apply Inv_empty|].
    split; [constructor|split; reflexivity].
Qed.

(* reachable states: duplicate-free lists of reported pairs have at most len() elements *)
Theorem qf_reach_positive_count s (L : list (N * N)) : qf_reach H bq br s -> NoDup L ->
  (forall p, In p L -> qok bq p /\ qry bq s p = true) ->
  N.of_nat (length L) <= qf_len s.
Proof.
  intros Hr Hnd HL. destruct (qf_reach_universe s Hr) as (A & HI & _).
  exact (qf_positive_count bq s A L HI Hnd HL).
Qed.

(* the same for keys through the public query: keys with pairwise different (quotient, remainder) *)
Theorem qf_reach_keys_count s (ks : list N) : qf_reach H bq br s -> NoDup (map kp ks) ->
  (forall x, In x ks -> qf_query H s x = true) ->
  N.of_nat (length ks) <= qf_len s.
Proof.
  intros Hr Hnd Hq. destruct (qf_reach_universe s Hr) as (A & HI & _ & Eq & Er).
  rewrite <- (map_length kp ks). apply (qf_positive_count bq s A (map kp ks) HI Hnd).
  intros p Hp. apply in_map_iff in Hp as (x & <- & Hx). split; [apply (kp_qok bq br H Hw Hh)|].
  rewrite <- (qf_query_shape_int bq br H s x Eq Er). apply Hq, Hx.
Qed.

(* EXACT hit count: of the 2^(bq+br) (quotient, remainder) pairs exactly len() are reported present; so a
   hash whose (quotient, remainder) is uniform hits the filter with frequency exactly len() * 2^-(bq+br) *)
Definition qf_universe : list (N * N) := list_prod (Nseq 0 (N.to_nat (2 ^ bq))) (Nseq 0 (N.to_nat (2 ^ br))).

Theorem qf_hit_count_exact s : qf_reach H bq br s ->
  length qf_universe = N.to_nat (2 ^ (bq + br)) /\
  N.of_nat (length (filter (qry bq s) qf_universe)) = qf_len s.
Proof.
  intros Hr. split.
  - unfold qf_universe. rewrite prod_length, !Nseq_length, N.pow_add_r. lia.
  - destruct (qf_reach_universe s Hr) as (A & HI & HU & _).
    apply (qf_positive_count_exact bq s A qf_universe HI).
    + apply NoDup_list_prod; apply Nseq_NoDup'.
    + apply Forall_forall. intros [q r] Hp. apply in_prod_iff in Hp as [Hq _]. apply Nseq_In in Hq.
      unfold qok, cn. cbn [fst]. lia.
    + intros [q r] Hp. rewrite Forall_forall in HU. destruct (HU _ Hp) as [Hq Hr']. cbn [fst snd] in Hq, Hr'.
      unfold cn in Hq. unfold cR in Hr'. apply in_prod_iff. rewrite !Nseq_In. lia.
Qed.

Corollary qf_hit_fraction s : qf_reach H bq br s ->
  (N2Q (N.of_nat (length (filter (qry bq s) qf_universe))) / N2Q (N.of_nat (length qf_universe))
   == N2Q (qf_len s) / N2Q (2 ^ (bq + br)))%Q.
Proof.
  intros Hr. destruct (qf_hit_count_exact s Hr) as [-> ->]. rewrite N2Nat.id. reflexivity.
Qed.
End QfReachCount.

(* a small reachable quotient filter (bq = 3, br = 2, identity hash): keys 5, 6, 29, 5 -> 3 stored pairs,
   and exactly these 3 of the 32 pairs are reported *)
Example qf_hit_count_example :
  let s := snd (qf_insert idH (snd (qf_insert idH (snd (qf_insert idH (snd (qf_insert idH (qf_empty 3 2) 5)) 6)) 29)) 5) in
  qf_reach idH 3 2 s /\ qf_len s = 3 /\
  filter (qry 3 s) (qf_universe 3 2) = [(1, 1); (1, 2); (7, 1)].
Proof.
  split; [|vm_compute; auto].
  apply reach_insert, reach_insert, reach_insert, reach_insert, reach_new. reflexivity.
Qed.

(* ====================================================================== *)
(** * 5. Enhanced double hashing collapses: keys with equal (h1, h2) collide in EVERY position *)

Section Collapse.
Variable H : hashfn.

(* hash_utils.rs:177-186: the i-th position depends on the key only through (h1 mod m, h2 mod m) *)
Theorem pos_full_collision m x y : h1 H m x = h1 H m y -> h2 H m x = h2 H m y ->
  forall i, pos H m x i = pos H m y i.
Proof. intros E1 E2 i. unfold pos. rewrite E1, E2. reflexivity. Qed.

Corollary positions_full_collision m k x y : h1 H m x = h1 H m y -> h2 H m x = h2 H m y ->
  positions H m k x = positions H m k y.
Proof. intros E1 E2. unfold positions. apply map_ext. intros i. apply pos_full_collision; assumption. Qed.

(* Count-Min sketch: such keys share every cell, in all d rows *)
Theorem cms_full_collision s x y :
  h1 H (cw s) x = h1 H (cw s) y -> h2 H (cw s) x = h2 H (cw s) y ->
  forall i, cell H s x i = cell H s y i.
Proof. intros E1 E2 i. unfold cell. rewrite (pos_full_collision _ _ _ E1 E2). reflexivity. Qed.

(* hence they are indistinguishable to the sketch: same estimate in EVERY sketch state ... *)
Theorem cms_query_full_collision s x y :
  h1 H (cw s) x = h1 H (cw s) y -> h2 H (cw s) x = h2 H (cw s) y ->
  cms_query H s x = cms_query H s y.
Proof.
  intros E1 E2. unfold cms_query.
  rewrite (map_ext (cell H s x) (cell H s y) (cms_full_collision s x y E1 E2)). reflexivity.
Qed.

Lemma add_rows_ext s x y n : (forall i, cell H s x i = cell H s y i) ->
  forall rows tbl res, add_rows H s x n rows tbl res = add_rows H s y n rows tbl res.
Proof.
  intros Hc. induction rows as [|i r IH]; intros tbl res; cbn [add_rows]; [reflexivity|].
  rewrite (Hc i). destruct (getN tbl (cell H s y i)) as [cur|]; [|reflexivity].
  destruct (checked_add (cmax s) cur n); [apply IH|reflexivity].
Qed.

(* ... and adding one is adding the other: same result, same new state *)
Theorem cms_add_full_collision s x y n :
  h1 H (cw s) x = h1 H (cw s) y -> h2 H (cw s) x = h2 H (cw s) y ->
  cms_add_n H s x n = cms_add_n H s y n.
Proof.
  intros E1 E2. unfold cms_add_n.
  rewrite (add_rows_ext s x y n (cms_full_collision s x y E1 E2)). reflexivity.
Qed.

(* Bloom filter: such keys set and test the same k bits *)
Theorem bloom_full_collision s x y :
  h1 H (bm s) x = h1 H (bm s) y -> h2 H (bm s) x = h2 H (bm s) y ->
  bloom_query H s x = bloom_query H s y /\ bloom_insert H s x = bloom_insert H s y.
Proof.
  intros E1 E2. unfold bloom_query, bloom_insert.
  rewrite (positions_full_collision (bm s) (bk s) x y E1 E2). split; reflexivity.
Qed.

(* pigeonhole: the collapse does not depend on d (or k): among ANY m*m + 1 distinct keys two collide in
   every row.  So the per-pair probability of a complete collision is about 1/m^2 for uniform hashes,
   whatever the number of rows - it does not decrease like (1/m)^d. *)
Lemma dup_or_NoDup_map {B} (dec : forall a b : B, {a = b} + {a <> b}) (g : N -> B) (l : list N) :
  NoDup l -> (exists x y, In x l /\ In y l /\ x <> y /\ g x = g y) \/ NoDup (map g l).
Proof.
  intros Hnd. induction Hnd as [|x l Hx Hnd IH]; [right; constructor|].
  destruct IH as [(a & b & Ha & Hb & Hne & Hg)|IH].
  - left. exists a, b. cbn [In]. auto.
  - destruct (in_dec dec (g x) (map g l)) as [Hin|Hnin].
    + left. apply in_map_iff in Hin as (y & Hy & Hyl). exists x, y. cbn [In]. repeat split; auto.
      intros ->. exact (Hx Hyl).
    + right. cbn [map]. constructor; assumption.
Qed.

Theorem full_collision_exists m (keys : list N) : 0 < m -> NoDup keys ->
  (N.to_nat (m * m) < length keys)%nat ->
  exists x y, In x keys /\ In y keys /\ x <> y /\ forall i, pos H m x i = pos H m y i.
Proof.
  intros Hm Hnd Hlen.
  destruct (dup_or_NoDup_map pair_dec (fun x => (h1 H m x, h2 H m x)) keys Hnd)
    as [(x & y & Hx & Hy & Hne & Hg)|Hnd'].
  - exists x, y. repeat split; auto. injection Hg as E1 E2. apply pos_full_collision; assumption.
  - exfalso.
    assert (Hincl : incl (map (fun x => (h1 H m x, h2 H m x)) keys)
                         (list_prod (Nseq 0 (N.to_nat m)) (Nseq 0 (N.to_nat m)))).
    { intros p Hp. apply in_map_iff in Hp as (x & <- & _). apply in_prod_iff. rewrite !Nseq_In.
      unfold h1, h2. pose proof (N.mod_lt (H (Some 0) (Some x)) m). pose proof (N.mod_lt (H (Some 1) (Some x)) m). lia. }
    pose proof (NoDup_incl_length Hnd' Hincl) as Hle.
    rewrite map_length, prod_length, !Nseq_length in Hle. lia.
Qed.
End Collapse.

(* ---------- the concrete refutation witness for the (eps, delta) guarantee (finding C08) ---------- *)
(* a fixed 64-bit mixing function (multiply / xor-shift), as a stand-in for the seeded hasher *)
Definition Hmix : hashfn := fun iv v =>
  let c := fun o : option N => match o with None => 0 | Some x => x + 1 end in
  let z := ((c iv * 11400714819323198485 + c v * 14029467366897019727 + 1609587929392839161)
            * 18397679294719823053) mod 2 ^ 64 in
  N.lxor z (z / 2 ^ 33).

Fixpoint cms_add_stream (H : hashfn) (s : cms) (l : list (N * N)) : option cms :=
  match l with
  | [] => Some s
  | (x, c) :: r => match cms_add_n H s x c with Some (_, s') => cms_add_stream H s' r | None => None end
  end.

(* w = 28 is what eps = 1/10 asks for (ceil (e / 0.1) = 28, see [cms_sizing_example] below), d = 20 rows
   corresponds to delta = e^-20 ~ 2e-9.  The stream holds key 16 a thousand times and ten other keys
   once (total weight N = 1010).  Key 33 never occurs, yet its estimate is 1000: the error is about
   ten times eps * N = 101, although the sketch has 20 rows.  Keys 16 and 33 agree on (h1, h2) mod 28. *)
Theorem cms_eps_delta_refuted :
  let w := 28 in let d := 20 in
  let stream := (16, 1000) :: map (fun x => (x, 1)) [1; 2; 3; 4; 5; 6; 7; 8; 9; 10] in
  let total := fold_right (fun e a => snd e + a) 0 stream in
  exists s, cms_add_stream Hmix (cms_new w d (2 ^ 64 - 1)) stream = Some s /\
            ~ In 33 (map fst stream) /\
            h1 Hmix w 16 = h1 Hmix w 33 /\ h2 Hmix w 16 = h2 Hmix w 33 /\
            cms_query Hmix s 33 = Some 1000 /\ cms_query Hmix s 16 = Some 1000 /\
            total = 1010 /\ (* error of key 33 = 1000 > eps * total with eps = 1/10 *) 10 * 1000 > total.
Proof.
  eexists. split; [vm_compute; reflexivity|].
  split; [vm_compute; intuition discriminate|].
  repeat split; vm_compute; reflexivity.
Qed.

(* ====================================================================== *)
(** * Examples for Model/Sizing.v and Exec/ExSizing.v: the definitions compute (Q instance, TOY ln/log2) *)

Module Toy.
(* exact ceil and cast on Q; they satisfy the hypotheses of [cms_sizing_w] / [cms_sizing_d] *)
Definition Qceil (x : Q) : Q := inject_Z (Qceiling x).
Definition Qtrunc (x : Q) : N := N.min (Z.to_N (Qfloor x)) (2 ^ 64 - 1).
Definition QofN (n : N) : Q := N2Q n.
(* TOY logarithms, only to run the definitions: integer part of log2, and ln x := 0.69 * that *)
Definition Qlog2 (x : Q) : Q :=
  if Qle_bool 1 x then inject_Z (Z.log2 (Qfloor x)) else - inject_Z (Z.log2_up (Qceiling (/ x))).
Definition Qln (x : Q) : Q := Qlog2 x * (69 # 100).
Definition QE : Q := 2718281828 # 1000000000.
(* exact value of a finite IEEE-754 binary64 bit pattern *)
Definition Qpow2 (e : Z) : Q := if (0 <=? e)%Z then inject_Z (2 ^ e) else 1 # Z.to_pos (2 ^ (- e)).
Definition q_of_bits (b : N) : Q :=
  let sgn := b / 2 ^ 63 in let e := (b / 2 ^ 52) mod 2 ^ 11 in let m := b mod 2 ^ 52 in
  let mag := (if e =? 0 then N2Q m * Qpow2 (-1074) else N2Q (2 ^ 52 + m) * Qpow2 (Z.of_N e - 1075))%Q in
  if sgn =? 0 then mag else (- mag)%Q.

Lemma Qceil_ge x : (x <= Qceil x)%Q.
Proof. apply Qle_ceiling. Qed.

Lemma Qtrunc_ceil x : (0 <= x)%Q -> (Qceil x < N2Q (2 ^ 64))%Q -> (N2Q (Qtrunc (Qceil x)) == Qceil x)%Q.
Proof.
  unfold Qceil, Qtrunc, N2Q. intros H0 Hlt. rewrite Qfloor_Z. rewrite <- Zlt_Qlt in Hlt.
  assert (Hz : (0 <= Qceiling x)%Z).
  { rewrite Zle_Qle. eapply Qle_trans; [exact H0|apply Qle_ceiling]. }
  replace (Z.of_N (N.min (Z.to_N (Qceiling x)) (2 ^ 64 - 1))) with (Qceiling x); [reflexivity|].
  change (Z.of_N (2 ^ 64)) with (2 ^ 64)%Z in Hlt.
  assert (Z.to_N (Qceiling x) <= 2 ^ 64 - 1)%N by (change (2 ^ 64 - 1)%N with (Z.to_N (2 ^ 64 - 1)); lia).
  rewrite N.min_l by assumption. lia.
Qed.

Lemma Qln_nonneg x : (1 <= x)%Q -> (0 <= Qln x)%Q.
Proof.
  intros Hx. unfold Qln, Qlog2. apply Qle_bool_iff in Hx. rewrite Hx.
  apply Qmult_le_0_compat; [|discriminate]. change 0%Q with (inject_Z 0). rewrite <- Zle_Qle. apply Z.log2_nonneg.
Qed.

Example q_of_bits_values :
  map (fun b => Qred (q_of_bits b)) [4602678819172646912; 4598175219545276416; 4607182418800017408; 13826050856027422720; 0] =
  [1 # 2; 1 # 4; 1; - (1 # 2); 0]%Q.
Proof. vm_compute. reflexivity. Qed.

(* bits of the binary64 nearest to 0.01 : 0x3F847AE147AE147B *)
Example q_of_bits_001 : (q_of_bits 4576918229304087675 == 5764607523034235 # 576460752303423488)%Q.
Proof. vm_compute. reflexivity. Qed.

Example bloom_sizing_example :
  bloom_sizing QNum QofN Qln Qlog2 Qtrunc 1000 (1 # 100) = Some (10144, 7) /\
  bloom_sizing QNum QofN Qln Qlog2 Qtrunc 0 (1 # 100) = None /\
  bloom_sizing QNum QofN Qln Qlog2 Qtrunc 1000 1%Q = None /\
  bloom_sizing QNum QofN Qln Qlog2 Qtrunc 1000 0%Q = None /\
  bloom_len QNum QofN Qln Qtrunc 1024 4 512 = 176 /\
  bloom_len QNum QofN Qln Qtrunc 1024 4 0 = 0.
Proof. vm_compute. repeat split; reflexivity. Qed.

Example cms_sizing_example :
  cms_sizing QNum Qln Qceil Qtrunc QE (1 # 10) (1 # 1000) = Some (28, 7) /\
  cms_sizing QNum Qln Qceil Qtrunc QE 0%Q (1 # 1000) = None /\
  cms_sizing QNum Qln Qceil Qtrunc QE (1 # 10) 1%Q = None /\
  (* w * d overflows a usize: checked_mul().unwrap() panics *)
  cms_sizing QNum Qln Qceil Qtrunc QE (1 # 10 ^ 19) (1 # 1000) = None.
Proof. vm_compute. repeat split; reflexivity. Qed.

(* the guarantees of [cms_sizing_w] / [cms_sizing_d] on that instance *)
Example cms_sizing_w_example : (QE <= N2Q 28 * (1 # 10))%Q /\ (Qln (1 / (1 # 1000)) <= N2Q 7)%Q.
Proof.
  split.
  - apply (cms_sizing_w Qln Qceil Qtrunc QE Qceil_ge Qtrunc_ceil ltac:(reflexivity) (1 # 10) (1 # 1000) 28 7);
      vm_compute; reflexivity.
  - apply (cms_sizing_d Qln Qceil Qtrunc QE Qceil_ge Qtrunc_ceil (1 # 10) (1 # 1000) 28 7 Qln_nonneg);
      vm_compute; reflexivity.
Qed.

Example cuckoo_sizing_example :
  cuckoo_sizing_4 QNum QofN Qlog2 Qceil Qtrunc (1 # 100) 1000 = Some (4, 2048, 9) /\
  cuckoo_sizing_8 QNum QofN Qlog2 Qceil Qtrunc (1 # 100) 1000 = Some (8, 1024, 10) /\
  cuckoo_sizing_chk_4 QNum QofN Qlog2 Qceil Qtrunc (1 # 100) 1000 = Some (4, 2048, 9) /\
  cuckoo_sizing_4 QNum QofN Qlog2 Qceil Qtrunc (1 # 100) 0 = None /\
  cuckoo_sizing_4 QNum QofN Qlog2 Qceil Qtrunc 2%Q 1000 = None /\
  (* p close to 1: l_fingerprint = 3 is fine; p tiny: l_fingerprint > 64 is rejected *)
  cuckoo_sizing_4 QNum QofN Qlog2 Qceil Qtrunc (99 # 100) 10 = Some (4, 16, 3) /\
  cuckoo_sizing_chk_4 QNum QofN Qlog2 Qceil Qtrunc (1 # 2 ^ 70) 10 = None.
Proof. vm_compute. repeat split; reflexivity. Qed.

Example cuckoo_sizing_wf_example :
  exists s, cuckoo_new 4 2048 9 = Some s /\ wfc s.
Proof.
  destruct (cuckoo_sizing_wf QNum QofN Qlog2 Qceil Qtrunc 4 (load4 QNum QofN) (1 # 100) 1000 4 2048 9)
    as (_&_&_&_&_&_&_&_&_&_&_& s & Hs & Hwf & _); [vm_compute; reflexivity|].
  exists s. split; assumption.
Qed.

(* Exec/ExSizing.v on a transcript: float arguments as bit patterns (0.5 = 0x3FE0.., 0.25 = 0x3FD0..);
   every line agrees => None; a wrong expectation is reported with the model's answer *)
Definition toy_case := sizing_case QNum QofN Qln Qlog2 Qceil Qtrunc QE q_of_bits.
Example sizing_case_example :
  toy_case [ OL 1 [1000; 4598175219545276416] [] (Some [2898; 2]);
             OL 1 [0; 4598175219545276416] [] None;
             OL 2 [4602678819172646912; 4598175219545276416] [] (Some [6; 2]);
             OL 3 [4598175219545276416; 100] [] (Some [4; 128; 5]);
             OL 4 [4598175219545276416; 100] [] (Some [8; 128; 6]);
             OL 3 [4607182418800017408; 100] [] None;
             OL 5 [1024; 4; 512] [] (Some [176]) ] = None /\
  toy_case [ OL 1 [1000; 4598175219545276416] [] (Some [2898; 3]) ] = Some (0, Some [2898; 2]) /\
  toy_case [ OL 3 [4598175219545276416; 100] [] None ] = Some (0, Some [4; 128; 5]) /\
  toy_case [ OL 2 [0; 4598175219545276416] [] (Some [1; 1]) ] = Some (0, None).
Proof. vm_compute. repeat split; reflexivity. Qed.
End Toy.

(* ====================================================================== *)
Print Assumptions bloom_sizing_usable.
Print Assumptions bloom_sizing_spec.
Print Assumptions cms_sizing_spec.
Print Assumptions cms_sizing_w.
Print Assumptions cms_sizing_d.
Print Assumptions npow2_ge.
Print Assumptions npow2_is_pow2.
Print Assumptions npow2_minimal.
Print Assumptions npow2_core.
Print Assumptions cuckoo_params_ok_new.
Print Assumptions cuckoo_sizing_chk_eq.
Print Assumptions cuckoo_sizing_wf.
Print Assumptions cuckoo_sizing_nb_pow2.
Print Assumptions cuckoo_query_lookup.
Print Assumptions cuckoo_positive_pairs_bound.
Print Assumptions cuckoo_positive_pairs_bound_len.
Print Assumptions cuckoo_positive_pairs_enum.
Print Assumptions cuckoo_positive_pairs_all.
Print Assumptions cuckoo_positive_fraction.
Print Assumptions cuckoo_fraction_meets_target.
Print Assumptions cuckoo_positive_pairs_tight.
Print Assumptions qf_positive_exact.
Print Assumptions qf_positive_count.
Print Assumptions qf_positive_count_exact.
Print Assumptions qf_reach_universe.
Print Assumptions qf_reach_positive_count.
Print Assumptions qf_reach_keys_count.
Print Assumptions qf_hit_count_exact.
Print Assumptions qf_hit_fraction.
Print Assumptions pos_full_collision.
Print Assumptions cms_full_collision.
Print Assumptions cms_query_full_collision.
Print Assumptions cms_add_full_collision.
Print Assumptions bloom_full_collision.
Print Assumptions full_collision_exists.
Print Assumptions cms_eps_delta_refuted.
Print Assumptions Toy.cms_sizing_w_example.
Print Assumptions Toy.sizing_case_example.
