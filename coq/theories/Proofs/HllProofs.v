(* Proofs/HllProofs.v — functional correctness of the HyperLogLog register model (Model/Hll.v):
   index/rank arithmetic, totality, closed form of every register after an arbitrary stream,
   order/duplicate insensitivity, merge = run on the concatenated stream, merge algebra,
   reconstruction from registers, clear, is_empty. *)
From PDS Require Import Model.Hll.
From Coq Require Import Permutation.
Import ListNotations.
Open Scope N_scope.

Definition hll_run (b : N) (hs : list N) : option hll :=
  fold_left (fun o h => match o with Some s => hll_add_hashed s h | None => None end)
            hs (hll_new b).

Definition reg_spec (b : N) (hs : list N) (j : N) : N :=
  fold_left N.max (map (hll_rank b) (filter (fun h => hll_index b h =? j) hs)) 0.

(* ------------------------------------------------------------------------- *)
(* Generic list lemmas                                                        *)
(* ------------------------------------------------------------------------- *)

Lemma list_ext_nth {A} (d : A) (l l' : list A) :
  length l = length l' ->
  (forall i, (i < length l)%nat -> nth i l d = nth i l' d) ->
  l = l'.
Proof.
  revert l'; induction l as [|x t IH]; intros [|y t'] Hlen Hn; cbn [length] in *;
    try discriminate; auto.
  f_equal.
  - apply (Hn 0%nat); lia.
  - apply IH; [lia|]. intros i Hi. apply (Hn (S i)); lia.
Qed.

(* maximum of a list of naturals *)
Definition lmax (l : list N) : N := fold_left N.max l 0.

Lemma fold_max_acc l a : fold_left N.max l a = N.max a (lmax l).
Proof.
  unfold lmax. revert a; induction l as [|x l IH]; intros a; cbn [fold_left].
  - rewrite N.max_0_r. reflexivity.
  - rewrite (IH (N.max a x)), (IH (N.max 0 x)), N.max_0_l, N.max_assoc. reflexivity.
Qed.

Lemma lmax_nil : lmax [] = 0.
Proof. reflexivity. Qed.

Lemma lmax_cons x l : lmax (x :: l) = N.max x (lmax l).
Proof. unfold lmax at 1. cbn [fold_left]. rewrite fold_max_acc, N.max_0_l. reflexivity. Qed.

Lemma lmax_app l1 l2 : lmax (l1 ++ l2) = N.max (lmax l1) (lmax l2).
Proof. unfold lmax at 1. rewrite fold_left_app. apply fold_max_acc. Qed.

Lemma lmax_le_iff l n : lmax l <= n <-> (forall x, In x l -> x <= n).
Proof.
  induction l as [|y l IH].
  - rewrite lmax_nil. split; [intros _ x []|intros _; apply N.le_0_l].
  - rewrite lmax_cons, N.max_lub_iff, IH. cbn [In]. split.
    + intros [Hy Hl] x [<-|Hx]; auto.
    + intros Hall. split; [apply Hall; auto|intros x Hx; apply Hall; auto].
Qed.

Lemma lmax_ge l x : In x l -> x <= lmax l.
Proof. intros Hx. apply (proj1 (lmax_le_iff l (lmax l)) (N.le_refl _)); auto. Qed.

Lemma lmax_incl l l' : (forall x, In x l -> In x l') -> lmax l <= lmax l'.
Proof. intros Hin. apply lmax_le_iff. intros x Hx. apply lmax_ge; auto. Qed.

(* ------------------------------------------------------------------------- *)
(* maxl                                                                       *)
(* ------------------------------------------------------------------------- *)

Lemma maxl_length a b : length (maxl a b) = Nat.min (length a) (length b).
Proof. revert b; induction a as [|x a IH]; intros [|y b]; cbn [maxl length Nat.min]; auto. Qed.

Lemma maxl_nth a b i :
  (i < length a)%nat -> (i < length b)%nat ->
  nth i (maxl a b) 0 = N.max (nth i a 0) (nth i b 0).
Proof.
  revert b i; induction a as [|x a IH]; intros [|y b] [|i] Ha Hb; cbn [maxl nth length] in *;
    try lia; auto.
  apply IH; lia.
Qed.

Lemma maxl_comm a b : maxl a b = maxl b a.
Proof.
  revert b; induction a as [|x a IH]; intros [|y b]; cbn [maxl]; auto.
  rewrite N.max_comm, IH; auto.
Qed.

Lemma maxl_assoc a b c : maxl (maxl a b) c = maxl a (maxl b c).
Proof.
  revert b c; induction a as [|x a IH]; intros [|y b] [|z c]; cbn [maxl]; auto.
  rewrite N.max_assoc, IH; auto.
Qed.

Lemma maxl_idem a : maxl a a = a.
Proof. induction a as [|x a IH]; cbn [maxl]; auto. rewrite N.max_id, IH; auto. Qed.

(* ------------------------------------------------------------------------- *)
(* Theorem 1: index and rank arithmetic                                       *)
(* ------------------------------------------------------------------------- *)

Lemma pow2_nz b : 2 ^ b <> 0.
Proof. apply N.pow_nonzero. discriminate. Qed.

Theorem hll_index_mod b h : hll_index b h = h mod 2 ^ b.
Proof.
  unfold hll_index. rewrite N.shiftl_mul_pow2, N.shiftr_div_pow2.
  rewrite N.mod_eq by apply pow2_nz. rewrite N.mul_comm. reflexivity.
Qed.

Theorem hll_index_lt b h : hll_index b h < 2 ^ b.
Proof. rewrite hll_index_mod. apply N.mod_lt, pow2_nz. Qed.

Theorem hll_rank_zero b h : b <= 64 -> h / 2 ^ b = 0 -> hll_rank b h = 64 - b + 1.
Proof.
  intros Hb E. unfold hll_rank. rewrite N.shiftr_div_pow2, E.
  change (N.size 0) with 0. lia.
Qed.

Theorem hll_rank_nonzero b h :
  1 <= b -> h / 2 ^ b <> 0 -> hll_rank b h = 64 - b - N.log2 (h / 2 ^ b).
Proof.
  intros Hb E. unfold hll_rank. rewrite N.shiftr_div_pow2.
  rewrite N.size_log2 by exact E.
  set (s := N.log2 (h / 2 ^ b)). lia.
Qed.

(* combined statement *)
Theorem hll_rank_spec b h :
  1 <= b <= 64 ->
  (h / 2 ^ b = 0 -> hll_rank b h = 64 - b + 1) /\
  (h / 2 ^ b <> 0 -> hll_rank b h = 64 - b - N.log2 (h / 2 ^ b)).
Proof.
  intros Hb. split; intros E.
  - apply hll_rank_zero; [lia|auto].
  - apply hll_rank_nonzero; [lia|auto].
Qed.

Lemma upper_lt b h : b <= 64 -> h < 2 ^ 64 -> h / 2 ^ b < 2 ^ (64 - b).
Proof.
  intros Hb Hh.
  assert (E : 2 ^ 64 = 2 ^ b * 2 ^ (64 - b)).
  { rewrite <- N.pow_add_r. f_equal. lia. }
  apply N.div_lt_upper_bound; [apply pow2_nz|]. rewrite <- E. exact Hh.
Qed.

Lemma upper_log2_lt b h :
  b <= 64 -> h < 2 ^ 64 -> h / 2 ^ b <> 0 -> N.log2 (h / 2 ^ b) < 64 - b.
Proof.
  intros Hb Hh E. apply N.log2_lt_pow2; [apply N.neq_0_lt_0; exact E|]. apply upper_lt; auto.
Qed.

Theorem hll_rank_bounds b h :
  1 <= b <= 63 -> h < 2 ^ 64 -> 1 <= hll_rank b h <= 64 - b + 1.
Proof.
  intros Hb Hh. destruct (N.eq_dec (h / 2 ^ b) 0) as [E|E].
  - rewrite hll_rank_zero by (auto; lia). lia.
  - rewrite hll_rank_nonzero by (auto; lia).
    pose proof (upper_log2_lt b h ltac:(lia) Hh E) as L.
    set (s := N.log2 (h / 2 ^ b)) in *. lia.
Qed.

(* rank = 1-based position of the first set bit, counted from the most significant end of
   the upper (64 - b)-bit word w = h / 2^b :  2^(64-b-rank) <= w < 2^(64-b-rank+1) *)
Theorem hll_rank_first_set_bit b h :
  1 <= b <= 63 -> h < 2 ^ 64 -> h / 2 ^ b <> 0 ->
  2 ^ (64 - b - hll_rank b h) <= h / 2 ^ b < 2 ^ (64 - b - hll_rank b h + 1).
Proof.
  intros Hb Hh E. rewrite hll_rank_nonzero by (auto; lia).
  pose proof (upper_log2_lt b h ltac:(lia) Hh E) as L.
  set (w := h / 2 ^ b) in *.
  replace (64 - b - (64 - b - N.log2 w)) with (N.log2 w) by lia.
  rewrite N.add_1_r. apply N.log2_spec. lia.
Qed.

(* ------------------------------------------------------------------------- *)
(* Constructor                                                                *)
(* ------------------------------------------------------------------------- *)

Lemma hll_of_registers_Some b r :
  4 <= b <= 18 -> lenN r = 2 ^ b -> hll_of_registers b r = Some {| hb := b; hregs := r |}.
Proof.
  intros Hb Hl. unfold hll_of_registers. rewrite Hl, N.eqb_refl.
  destruct (N.leb_spec 4 b); [|lia]. destruct (N.leb_spec b 18); [|lia]. reflexivity.
Qed.

Theorem hll_of_registers_valid b r s :
  hll_of_registers b r = Some s -> 4 <= b <= 18 /\ lenN r = 2 ^ b /\ s = {| hb := b; hregs := r |}.
Proof.
  unfold hll_of_registers.
  destruct (N.leb_spec 4 b); [|discriminate].
  destruct (N.leb_spec b 18); [|discriminate].
  destruct (N.eqb_spec (lenN r) (2 ^ b)); [|discriminate].
  cbn [andb]. intros E; inversion E. repeat split; auto.
Qed.

Lemma hll_of_registers_None b r : ~ (4 <= b <= 18) -> hll_of_registers b r = None.
Proof.
  intros Hb. unfold hll_of_registers.
  destruct (N.leb_spec 4 b); destruct (N.leb_spec b 18); try reflexivity. lia.
Qed.

Lemma hll_new_Some b :
  4 <= b <= 18 -> hll_new b = Some {| hb := b; hregs := repeat 0 (N.to_nat (2 ^ b)) |}.
Proof.
  intros Hb. unfold hll_new. apply hll_of_registers_Some; auto.
  unfold lenN. rewrite repeat_length, N2Nat.id. reflexivity.
Qed.

(* ------------------------------------------------------------------------- *)
(* reg_spec algebra                                                           *)
(* ------------------------------------------------------------------------- *)

Lemma reg_spec_lmax b hs j :
  reg_spec b hs j = lmax (map (hll_rank b) (filter (fun h => hll_index b h =? j) hs)).
Proof. reflexivity. Qed.

Lemma reg_spec_nil b j : reg_spec b [] j = 0.
Proof. reflexivity. Qed.

Lemma reg_spec_app b hs1 hs2 j :
  reg_spec b (hs1 ++ hs2) j = N.max (reg_spec b hs1 j) (reg_spec b hs2 j).
Proof. rewrite !reg_spec_lmax, filter_app, map_app. apply lmax_app. Qed.

Lemma reg_spec_single b h j :
  reg_spec b [h] j = if hll_index b h =? j then hll_rank b h else 0.
Proof.
  rewrite reg_spec_lmax. cbn [filter]. destruct (hll_index b h =? j); cbn [map].
  - rewrite lmax_cons, lmax_nil, N.max_0_r. reflexivity.
  - reflexivity.
Qed.

Lemma reg_spec_snoc b hs h j :
  reg_spec b (hs ++ [h]) j =
  if hll_index b h =? j then N.max (reg_spec b hs j) (hll_rank b h) else reg_spec b hs j.
Proof.
  rewrite reg_spec_app, reg_spec_single. destruct (hll_index b h =? j); auto.
  apply N.max_0_r.
Qed.

Lemma reg_spec_incl b hs hs' j :
  (forall h, In h hs -> In h hs') -> reg_spec b hs j <= reg_spec b hs' j.
Proof.
  intros Hin. rewrite !reg_spec_lmax. apply lmax_incl.
  intros x Hx. apply in_map_iff in Hx as (h & E & Hh). apply filter_In in Hh as (Hh & Hj).
  apply in_map_iff. exists h; split; auto. apply filter_In; auto.
Qed.

Lemma reg_spec_set b hs hs' j :
  (forall h, In h hs <-> In h hs') -> reg_spec b hs j = reg_spec b hs' j.
Proof.
  intros Hin. apply N.le_antisymm; apply reg_spec_incl; intros h; apply Hin.
Qed.

Lemma reg_spec_ge b hs h : In h hs -> hll_rank b h <= reg_spec b hs (hll_index b h).
Proof.
  intros Hh. rewrite reg_spec_lmax. apply lmax_ge. apply in_map. apply filter_In.
  split; auto. apply N.eqb_refl.
Qed.

(* ------------------------------------------------------------------------- *)
(* Theorems 2, 3: totality and the closed form of the registers               *)
(* ------------------------------------------------------------------------- *)

Definition hstep (o : option hll) (h : N) : option hll :=
  match o with Some s => hll_add_hashed s h | None => None end.

Lemma hll_run_fold b hs : hll_run b hs = fold_left hstep hs (hll_new b).
Proof. reflexivity. Qed.

Lemma hll_run_nil b : hll_run b [] = hll_new b.
Proof. reflexivity. Qed.

Lemma hll_run_snoc b hs h : hll_run b (hs ++ [h]) = hstep (hll_run b hs) h.
Proof. rewrite !hll_run_fold, fold_left_app. reflexivity. Qed.

Lemma fold_hstep_None hs : fold_left hstep hs None = None.
Proof. induction hs as [|h hs IH]; cbn [fold_left hstep]; auto. Qed.

Lemma hll_run_None b hs : ~ (4 <= b <= 18) -> hll_run b hs = None.
Proof.
  intros Hb. rewrite hll_run_fold. unfold hll_new. rewrite hll_of_registers_None by auto.
  apply fold_hstep_None.
Qed.

(* the invariant; note that NO bound on the hashes is needed for totality *)
Lemma hll_run_inv b hs :
  4 <= b <= 18 ->
  exists s, hll_run b hs = Some s /\ hb s = b /\ length (hregs s) = N.to_nat (2 ^ b) /\
            forall j, j < 2 ^ b -> nth (N.to_nat j) (hregs s) 0 = reg_spec b hs j.
Proof.
  intros Hb. induction hs as [|h hs IH] using rev_ind.
  - rewrite hll_run_nil, hll_new_Some by auto. eexists; split; [reflexivity|].
    cbn [hb hregs]. rewrite repeat_length. repeat split; auto.
    intros j _. rewrite nth_repeat. reflexivity.
  - destruct IH as (s & R & Es & Hl & Hn).
    rewrite hll_run_snoc, R. cbn [hstep]. unfold hll_add_hashed. rewrite Es.
    pose proof (hll_index_lt b h) as Hj.
    set (j := hll_index b h) in *. set (P := 2 ^ b) in *.
    assert (Hjl : (N.to_nat j < length (hregs s))%nat) by lia.
    unfold getN. rewrite (nth_error_nth' _ 0 Hjl).
    eexists; split; [reflexivity|]. cbn [hb hregs]. rewrite upd_length.
    repeat split; auto.
    intros j' Hj'. rewrite reg_spec_snoc. fold j.
    destruct (N.eqb_spec j j') as [E|E].
    + subst j'. rewrite nth_upd_same by auto. rewrite Hn by auto. reflexivity.
    + rewrite nth_upd_other by lia. apply Hn; auto.
Qed.

Lemma hll_run_Some_range b hs s : hll_run b hs = Some s -> 4 <= b <= 18.
Proof.
  intros R. destruct (N.leb_spec 4 b); destruct (N.leb_spec b 18); try lia;
    rewrite hll_run_None in R by lia; discriminate.
Qed.

Theorem hll_run_total b hs :
  4 <= b <= 18 -> Forall (fun h => h < 2 ^ 64) hs ->
  exists s, hll_run b hs = Some s /\ hb s = b /\ length (hregs s) = N.to_nat (2 ^ b).
Proof.
  intros Hb _. destruct (hll_run_inv b hs Hb) as (s & R & Es & Hl & _). eauto.
Qed.

Lemma hll_run_shape b hs s :
  hll_run b hs = Some s -> hb s = b /\ length (hregs s) = N.to_nat (2 ^ b).
Proof.
  intros R. pose proof (hll_run_Some_range _ _ _ R) as Hb.
  destruct (hll_run_inv b hs Hb) as (s' & R' & Es & Hl & _).
  rewrite R in R'. inversion R'; subst s'. auto.
Qed.

Theorem hll_registers_spec b hs s j :
  hll_run b hs = Some s -> j < 2 ^ b -> nth (N.to_nat j) (hregs s) 0 = reg_spec b hs j.
Proof.
  intros R Hj. pose proof (hll_run_Some_range _ _ _ R) as Hb.
  destruct (hll_run_inv b hs Hb) as (s' & R' & _ & _ & Hn).
  rewrite R in R'. inversion R'; subst s'. auto.
Qed.

Lemma hll_registers_spec_nat b hs s i :
  hll_run b hs = Some s -> (i < length (hregs s))%nat ->
  nth i (hregs s) 0 = reg_spec b hs (N.of_nat i).
Proof.
  intros R Hi. destruct (hll_run_shape _ _ _ R) as (_ & Hl).
  rewrite <- (Nat2N.id i) at 1. apply hll_registers_spec; auto. lia.
Qed.

(* closed form of the whole state *)
Lemma hll_eq_intro (s t : hll) : hb s = hb t -> hregs s = hregs t -> s = t.
Proof. destruct s, t; cbn; intros; subst; reflexivity. Qed.

Lemma nth_map_Nseq {A} (f : N -> A) n i d :
  (i < n)%nat -> nth i (map f (Nseq 0 n)) d = f (N.of_nat i).
Proof.
  intros Hi. rewrite (nth_indep _ d (f 0)) by (rewrite map_length, Nseq_length; auto).
  rewrite map_nth, Nseq_nth by auto. f_equal.
Qed.

Theorem hll_run_closed_form b hs s :
  hll_run b hs = Some s ->
  s = {| hb := b; hregs := map (reg_spec b hs) (Nseq 0 (N.to_nat (2 ^ b))) |}.
Proof.
  intros R. destruct (hll_run_shape _ _ _ R) as (Es & Hl).
  apply hll_eq_intro; cbn [hb hregs]; auto.
  apply (list_ext_nth 0).
  - rewrite map_length, Nseq_length. auto.
  - intros i Hi. rewrite (hll_registers_spec_nat b hs s i R Hi).
    rewrite nth_map_Nseq by lia. reflexivity.
Qed.

(* ------------------------------------------------------------------------- *)
(* Theorem 4: the state depends only on the SET of hashes                     *)
(* ------------------------------------------------------------------------- *)

Lemma hll_run_ext b hs hs' :
  (forall j, j < 2 ^ b -> reg_spec b hs j = reg_spec b hs' j) -> hll_run b hs = hll_run b hs'.
Proof.
  intros E.
  destruct (hll_run b hs) as [s|] eqn:R.
  - pose proof (hll_run_Some_range _ _ _ R) as Hb.
    destruct (hll_run_inv b hs' Hb) as (s' & R' & Es' & Hl' & _).
    destruct (hll_run_shape _ _ _ R) as (Es & Hl).
    rewrite R'. f_equal. apply hll_eq_intro; [congruence|].
    apply (list_ext_nth 0); [congruence|].
    intros i Hi.
    rewrite (hll_registers_spec_nat b hs s i R Hi).
    rewrite (hll_registers_spec_nat b hs' s' i R') by congruence.
    apply E. lia.
  - destruct (N.leb_spec 4 b); destruct (N.leb_spec b 18);
      try (symmetry; apply hll_run_None; lia).
    destruct (hll_run_inv b hs ltac:(lia)) as (s & R' & _). congruence.
Qed.

Theorem hll_set b hs hs' :
  (forall h, In h hs <-> In h hs') -> hll_run b hs = hll_run b hs'.
Proof. intros Hin. apply hll_run_ext. intros j _. apply reg_spec_set; auto. Qed.

Theorem hll_perm b hs hs' : Permutation hs hs' -> hll_run b hs = hll_run b hs'.
Proof.
  intros P. apply hll_set. intros h; split; intros Hh.
  - eapply Permutation_in; eauto.
  - eapply Permutation_in; [apply Permutation_sym|]; eauto.
Qed.

Corollary hll_dup b hs h : In h hs -> hll_run b (hs ++ [h]) = hll_run b hs.
Proof.
  intros Hh. apply hll_set. intros x. rewrite in_app_iff. cbn [In].
  split; [intros [Hx|[<-|[]]]; auto|auto].
Qed.

(* ------------------------------------------------------------------------- *)
(* Theorem 5: merge                                                           *)
(* ------------------------------------------------------------------------- *)

Theorem hll_merge_run b hs1 hs2 s1 s2 :
  hll_run b hs1 = Some s1 -> hll_run b hs2 = Some s2 ->
  hll_merge s1 s2 = hll_run b (hs1 ++ hs2).
Proof.
  intros R1 R2. pose proof (hll_run_Some_range _ _ _ R1) as Hb.
  destruct (hll_run_shape _ _ _ R1) as (E1 & L1).
  destruct (hll_run_shape _ _ _ R2) as (E2 & L2).
  destruct (hll_run_inv b (hs1 ++ hs2) Hb) as (s & R & Es & Hl & _).
  rewrite R. unfold hll_merge. rewrite E1, E2, N.eqb_refl. f_equal.
  apply hll_eq_intro; cbn [hb hregs]; [congruence|].
  apply (list_ext_nth 0).
  - rewrite maxl_length. lia.
  - intros i Hi. rewrite maxl_length in Hi.
    rewrite maxl_nth by lia.
    rewrite (hll_registers_spec_nat b hs1 s1 i R1) by lia.
    rewrite (hll_registers_spec_nat b hs2 s2 i R2) by lia.
    rewrite (hll_registers_spec_nat b _ s i R) by lia.
    rewrite reg_spec_app. reflexivity.
Qed.

(* The algebraic laws hold for ALL states, reachable or not. *)
Theorem hll_merge_comm a b : hll_merge a b = hll_merge b a.
Proof.
  unfold hll_merge.
  destruct (N.eqb_spec (hb a) (hb b)) as [E|E]; destruct (N.eqb_spec (hb b) (hb a)) as [E'|E'];
    try congruence.
  rewrite E, maxl_comm. reflexivity.
Qed.

Theorem hll_merge_assoc a b c :
  (do ab <- hll_merge a b; hll_merge ab c) = (do bc <- hll_merge b c; hll_merge a bc).
Proof.
  unfold hll_merge, obind.
  destruct (N.eqb_spec (hb a) (hb b)) as [E1|E1]; destruct (N.eqb_spec (hb b) (hb c)) as [E2|E2];
    cbn [hb hregs]; auto.
  - destruct (N.eqb_spec (hb a) (hb c)); [|congruence].
    destruct (N.eqb_spec (hb a) (hb b)); [|congruence].
    rewrite maxl_assoc. reflexivity.
  - destruct (N.eqb_spec (hb a) (hb c)); [congruence|reflexivity].
  - destruct (N.eqb_spec (hb a) (hb b)); [congruence|reflexivity].
Qed.

Theorem hll_merge_idem s : hll_merge s s = Some s.
Proof. unfold hll_merge. rewrite N.eqb_refl, maxl_idem. destruct s; reflexivity. Qed.

(* merge of reachable states with equal b never fails *)
Corollary hll_merge_total b hs1 hs2 s1 s2 :
  hll_run b hs1 = Some s1 -> hll_run b hs2 = Some s2 -> exists s, hll_merge s1 s2 = Some s.
Proof.
  intros R1 R2. rewrite (hll_merge_run b hs1 hs2) by auto.
  destruct (hll_run_inv b (hs1 ++ hs2) (hll_run_Some_range _ _ _ R1)) as (s & R & _). eauto.
Qed.

(* ------------------------------------------------------------------------- *)
(* Theorem 6: reconstruction, clear, is_empty                                 *)
(* ------------------------------------------------------------------------- *)

Theorem hll_reconstruct b hs s : hll_run b hs = Some s -> hll_of_registers b (hregs s) = Some s.
Proof.
  intros R. pose proof (hll_run_Some_range _ _ _ R) as Hb.
  destruct (hll_run_shape _ _ _ R) as (Es & Hl).
  rewrite hll_of_registers_Some; auto.
  - f_equal. apply hll_eq_intro; auto.
  - unfold lenN. rewrite Hl, N2Nat.id. reflexivity.
Qed.

Theorem hll_clear_init b hs s : hll_run b hs = Some s -> Some (hll_clear s) = hll_new b.
Proof.
  intros R. pose proof (hll_run_Some_range _ _ _ R) as Hb.
  destruct (hll_run_shape _ _ _ R) as (Es & Hl).
  rewrite hll_new_Some by auto. unfold hll_clear. rewrite Es, Hl. reflexivity.
Qed.

Lemma forallb_eqb0_repeat n : forallb (N.eqb 0) (repeat 0 n) = true.
Proof. induction n as [|n IH]; cbn [repeat forallb]; auto. Qed.

(* needs rank >= 1, i.e. genuine 64-bit hashes *)
Theorem hll_is_empty_iff b hs s :
  Forall (fun h => h < 2 ^ 64) hs ->
  hll_run b hs = Some s -> (hll_is_empty s = true <-> hs = []).
Proof.
  intros HF R. pose proof (hll_run_Some_range _ _ _ R) as Hb.
  destruct (hll_run_shape _ _ _ R) as (Es & Hl).
  unfold hll_is_empty. split.
  - intros E. destruct hs as [|h t]; auto. exfalso.
    inversion HF as [|h' t' Hh Ht]; subst h' t'.
    pose proof (hll_index_lt b h) as Hj.
    pose proof (hll_registers_spec b (h :: t) s _ R Hj) as Hn.
    pose proof (reg_spec_ge b (h :: t) h (or_introl eq_refl)) as Hge.
    pose proof (hll_rank_bounds b h ltac:(lia) Hh) as Hr.
    rewrite forallb_forall in E.
    assert (Hin : In (nth (N.to_nat (hll_index b h)) (hregs s) 0) (hregs s)).
    { apply nth_In. set (P := 2 ^ b) in *. lia. }
    apply E in Hin. apply N.eqb_eq in Hin.
    set (M := 2 ^ 64) in *. lia.
  - intros ->. rewrite hll_run_nil, hll_new_Some in R by auto.
    inversion R; subst s. cbn [hregs]. apply forallb_eqb0_repeat.
Qed.

(* the bound on the hashes cannot be dropped: an out-of-range "hash" has rank 0 *)
Example hll_is_empty_needs_u64 :
  exists s, hll_run 4 [2 ^ 70] = Some s /\ hll_is_empty s = true.
Proof. eexists. vm_compute. split; reflexivity. Qed.

(* ------------------------------------------------------------------------- *)
(* Theorem 7: add = add_hashed o hash                                         *)
(* ------------------------------------------------------------------------- *)

Theorem hll_add_is_add_hashed (H : hashfn) s x : hll_add H s x = hll_add_hashed s (H None (Some x)).
Proof. reflexivity. Qed.

(* adding objects = running on their hashes *)
Corollary hll_add_stream (H : hashfn) b xs :
  fold_left (fun o x => match o with Some s => hll_add H s x | None => None end) xs (hll_new b)
  = hll_run b (map (fun x => H None (Some x)) xs).
Proof.
  unfold hll_run. generalize (hll_new b) as o.
  induction xs as [|x xs IH]; intros o; cbn [fold_left map]; auto.
Qed.

(* ------------------------------------------------------------------------- *)
(* Non-vacuity                                                                *)
(* ------------------------------------------------------------------------- *)

Definition ex_hs : list N := [0; 2 ^ 64 - 1; 16; 5].

Example ex_all_u64 : Forall (fun h => h < 2 ^ 64) ex_hs.
Proof. repeat constructor. Qed.

Example ex_index_rank :
  map (hll_index 4) ex_hs = [0; 15; 0; 5] /\ map (hll_rank 4) ex_hs = [61; 1; 60; 61].
Proof. vm_compute. split; reflexivity. Qed.

Example ex_run :
  hll_run 4 ex_hs = Some {| hb := 4; hregs := [61; 0; 0; 0; 0; 61; 0; 0; 0; 0; 0; 0; 0; 0; 0; 1] |}.
Proof. vm_compute. reflexivity. Qed.

Example ex_reg_spec :
  map (reg_spec 4 ex_hs) (Nseq 0 16) = [61; 0; 0; 0; 0; 61; 0; 0; 0; 0; 0; 0; 0; 0; 0; 1].
Proof. vm_compute. reflexivity. Qed.

Example ex_perm_dup :
  hll_run 4 [5; 16; 16; 2 ^ 64 - 1; 0; 5] = hll_run 4 ex_hs.
Proof. vm_compute. reflexivity. Qed.

Example ex_merge :
  exists s1 s2, hll_run 4 [0; 2 ^ 64 - 1] = Some s1 /\ hll_run 4 [16; 5] = Some s2 /\
                hll_merge s1 s2 = hll_run 4 ex_hs /\ hll_merge s2 s1 = hll_run 4 ex_hs /\
                hll_is_empty s1 = false.
Proof. do 2 eexists. vm_compute. repeat split; reflexivity. Qed.

Example ex_clear_empty :
  exists s, hll_run 4 ex_hs = Some s /\ Some (hll_clear s) = hll_new 4 /\
            hll_is_empty (hll_clear s) = true /\ hll_of_registers 4 (hregs s) = Some s.
Proof. eexists. vm_compute. repeat split; reflexivity. Qed.

Example ex_bad_b : hll_run 3 ex_hs = None /\ hll_run 19 [] = None.
Proof. vm_compute. split; reflexivity. Qed.

(* the largest admissible b: 2^18 registers *)
Example ex_b18 :
  option_map (fun s => (lenN (hregs s), nth (N.to_nat (2 ^ 18 - 1)) (hregs s) 0, nth 0 (hregs s) 0))
             (hll_run 18 [2 ^ 64 - 1; 2 ^ 18]) = Some (2 ^ 18, 1, 46).
Proof. vm_compute. reflexivity. Qed.

Print Assumptions hll_index_mod.
Print Assumptions hll_index_lt.
Print Assumptions hll_rank_spec.
Print Assumptions hll_rank_bounds.
Print Assumptions hll_rank_first_set_bit.
Print Assumptions hll_run_total.
Print Assumptions hll_registers_spec.
Print Assumptions hll_run_closed_form.
Print Assumptions hll_perm.
Print Assumptions hll_set.
Print Assumptions hll_merge_run.
Print Assumptions hll_merge_comm.
Print Assumptions hll_merge_assoc.
Print Assumptions hll_merge_idem.
Print Assumptions hll_reconstruct.
Print Assumptions hll_of_registers_valid.
Print Assumptions hll_clear_init.
Print Assumptions hll_is_empty_iff.
Print Assumptions hll_add_is_add_hashed.
