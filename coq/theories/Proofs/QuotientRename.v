(* Proofs/QuotientRename.v — remainder renaming for Model/Quotient.v (stretch item F).
   The quotient filter looks at remainders only through [=?] and [<?]; hence every renaming [phi]
   of remainders that is strictly monotone on the remainders actually present (a predicate [P]
   containing 0, the content of never-written slots, with phi 0 = 0) commutes with
   scan / insert / query / decode / union.  All widths, all states.
   [Section RenameTotal] specialises to renamings that are strictly monotone on all of N. *)
From PDS Require Import Model.Quotient Proofs.QuotientProofs.
From Coq Require Import Lia ZifyN ZifyBool.
Open Scope N_scope.

Arguments N.add : simpl never.
Arguments N.mul : simpl never.
Arguments N.sub : simpl never.
Arguments N.ltb : simpl never.
Arguments N.eqb : simpl never.

Section Rename.
Variable phi : N -> N.
Variable P : N -> Prop.
Hypothesis P_0 : P 0.
Hypothesis phi_0 : phi 0 = 0.
Hypothesis phi_mono : forall a b, P a -> P b -> a < b -> phi a < phi b.
Variable br' : N.   (* the new bits_remainder; the model never reads [qbr] inside insert_internal/scan *)

Definition ren (s : qf) : qf :=
  {| qocc := qocc s; qcont := qcont s; qshf := qshf s; qrem := map phi (qrem s); qcnt := qcnt s;
     qbq := qbq s; qbr := br' |}.
Definition ren_pair (p : N * N) : N * N := (fst p, phi (snd p)).
(* all remainders stored in the state are in the domain where phi is monotone *)
Definition okP (s : qf) : Prop := Forall P (qrem s).
Definition okP_pair (p : N * N) : Prop := P (snd p).

Lemma phi_eqb a b : P a -> P b -> (phi a =? phi b) = (a =? b).
Proof.
  intros Pa Pb. destruct (N.eqb_spec a b) as [E|E]; [subst; apply N.eqb_refl|].
  apply N.eqb_neq. destruct (N.lt_total a b) as [L|[L|L]]; [|contradiction|].
  - pose proof (phi_mono a b Pa Pb L). lia.
  - pose proof (phi_mono b a Pb Pa L). lia.
Qed.
Lemma phi_ltb a b : P a -> P b -> (phi a <? phi b) = (a <? b).
Proof.
  intros Pa Pb. destruct (N.ltb_spec a b) as [L|L]; [apply N.ltb_lt, phi_mono; auto|].
  apply N.ltb_ge. destruct (N.eq_dec a b) as [E|E]; [subst; lia|].
  assert (L' : b < a) by lia. pose proof (phi_mono b a Pb Pa L'). lia.
Qed.
Lemma phi_inj a b : P a -> P b -> phi a = phi b -> a = b.
Proof. intros Pa Pb E. apply N.eqb_eq. rewrite <- phi_eqb by auto. apply N.eqb_eq, E. Qed.
Lemma getn_map l : forall i, getn (map phi l) i = phi (getn l i).
Proof.
  induction l as [|x t IH]; intros i; cbn [map getn]; [symmetry; exact phi_0|].
  destruct (i =? 0); auto.
Qed.
Lemma setl_map l : forall i v, setl (map phi l) i (phi v) = map phi (setl l i v).
Proof.
  induction l as [|x t IH]; intros i v; cbn [map setl]; [reflexivity|].
  destruct (i =? 0); cbn [map]; [reflexivity|]. rewrite IH. reflexivity.
Qed.
Lemma getn_P l : Forall P l -> forall i, P (getn l i).
Proof.
  induction 1 as [|x t Hx Ht IH]; intros i; cbn [getn]; [exact P_0|]. destruct (i =? 0); auto.
Qed.
Lemma setl_P l : Forall P l -> forall i v, P v -> Forall P (setl l i v).
Proof.
  induction 1 as [|x t Hx Ht IH]; intros i v Hv; cbn [setl]; [constructor|].
  destruct (i =? 0); constructor; auto.
Qed.

Lemma ren_occ s : qocc (ren s) = qocc s. Proof. reflexivity. Qed.
Lemma ren_cont s : qcont (ren s) = qcont s. Proof. reflexivity. Qed.
Lemma ren_shf s : qshf (ren s) = qshf s. Proof. reflexivity. Qed.
Lemma ren_rem s : qrem (ren s) = map phi (qrem s). Proof. reflexivity. Qed.
Lemma ren_cnt s : qcnt (ren s) = qcnt s. Proof. reflexivity. Qed.
Lemma upd_ren s o c sh rm k : upd_qf (ren s) o c sh (map phi rm) k = ren (upd_qf s o c sh rm k).
Proof. reflexivity. Qed.

Section Loops.
Variable n : N.
Variable fuel0 : nat.

Lemma walk_back_ren f : forall s b, walk_back n (ren s) b f = walk_back n s b f.
Proof. induction f as [|f IH]; intros s b; cbn [walk_back]; [reflexivity|]. rewrite ren_shf, IH. reflexivity. Qed.
Lemma skip_run_ren f : forall s p, skip_run n (ren s) p f = skip_run n s p f.
Proof. induction f as [|f IH]; intros s p; cbn [skip_run]; [reflexivity|]. cbv zeta. rewrite ren_cont, IH. reflexivity. Qed.
Lemma next_occ_ren f : forall s b q oi, next_occ n (ren s) b q oi f = next_occ n s b q oi f.
Proof. induction f as [|f IH]; intros s b q oi; cbn [next_occ]; [reflexivity|]. cbv zeta. rewrite ren_occ, IH. reflexivity. Qed.
Lemma walk_fwd_ren f : forall s b sp q oi, walk_fwd n fuel0 (ren s) b sp q oi f = walk_fwd n fuel0 s b sp q oi f.
Proof.
  induction f as [|f IH]; intros s b sp q oi; cbn [walk_fwd]; [reflexivity|].
  rewrite skip_run_ren, next_occ_ren.
  destruct (b =? q); [reflexivity|]. destruct (skip_run n s sp fuel0); [|reflexivity].
  destruct (next_occ n s b q oi fuel0); [|reflexivity]. apply IH.
Qed.
Lemma in_run_ren f : forall s p r, okP s -> P r -> in_run n (ren s) p (phi r) f = in_run n s p r f.
Proof.
  induction f as [|f IH]; intros s p r Hs Hr; cbn [in_run]; [reflexivity|]. cbv zeta.
  pose proof (getn_P (qrem s) Hs p) as Hg.
  rewrite ren_rem, ren_cont, getn_map, phi_eqb, phi_ltb, IH by auto. reflexivity.
Qed.
Lemma scan_ren s q r oi : okP s -> P r -> scan n fuel0 (ren s) q (phi r) oi = scan n fuel0 s q r oi.
Proof.
  intros Hs Hr. unfold scan. rewrite ren_occ, walk_back_ren.
  destruct (negb (getb (qocc s) q) && negb oi); [reflexivity|].
  destruct (walk_back n s q fuel0) as [b|]; [|reflexivity].
  rewrite walk_fwd_ren. destruct (walk_fwd n fuel0 s b b q oi fuel0) as [sp|]; [|reflexivity].
  rewrite in_run_ren by auto. reflexivity.
Qed.
Lemma chain_ren f : forall s start pos cc cr cu, okP s -> P cr ->
  chain n (ren s) start pos cc (phi cr) cu f = option_map ren (chain n s start pos cc cr cu f).
Proof.
  induction f as [|f IH]; intros s start pos cc cr cu Hs Hr; cbn [chain]; [reflexivity|].
  destruct (negb cu); [reflexivity|]. cbv zeta.
  destruct (qincr n pos =? start); [reflexivity|].
  rewrite ren_occ, ren_cont, ren_shf, ren_rem, ren_cnt, getn_map, setl_map, upd_ren.
  apply IH; [apply setl_P; auto|apply getn_P; auto].
Qed.
Lemma chain_okP f : forall s start pos cc cr cu s', okP s -> P cr ->
  chain n s start pos cc cr cu f = Some s' -> okP s'.
Proof.
  induction f as [|f IH]; intros s start pos cc cr cu s' Hs Hr; cbn [chain]; [discriminate|].
  destruct (negb cu); [intros E; inversion E; subst; exact Hs|]. cbv zeta.
  destruct (qincr n pos =? start); [discriminate|].
  apply IH; [apply setl_P; auto|apply getn_P; auto].
Qed.

Theorem qf_insert_internal_ren s q r : okP s -> P r ->
  qf_insert_internal n fuel0 (ren s) q (phi r) =
  (fst (qf_insert_internal n fuel0 s q r), ren (snd (qf_insert_internal n fuel0 s q r))).
Proof.
  intros Hs Hr. unfold qf_insert_internal. rewrite scan_ren by auto.
  destruct (scan n fuel0 s q r true) as [[[pr pos] sor]|]; [|reflexivity].
  destruct pr; [reflexivity|]. rewrite ren_cnt. destruct (qcnt s =? n); [reflexivity|]. cbv zeta.
  rewrite ?ren_occ, ?ren_cont, ?ren_shf, ?ren_rem, ?ren_cnt, getn_map, setl_map, upd_ren.
  rewrite chain_ren; [|apply setl_P; auto|apply getn_P; auto].
  match goal with |- context [chain ?a ?b ?c ?d ?e ?g ?h ?i] => destruct (chain a b c d e g h i) as [s2|] end;
    reflexivity.
Qed.
Lemma qf_insert_internal_okP s q r : okP s -> P r -> okP (snd (qf_insert_internal n fuel0 s q r)).
Proof.
  intros Hs Hr. unfold qf_insert_internal.
  destruct (scan n fuel0 s q r true) as [[[pr pos] sor]|]; [|exact Hs].
  destruct pr; [exact Hs|]. destruct (qcnt s =? n); [exact Hs|]. cbv zeta.
  match goal with |- context [chain ?a ?b ?c ?d ?e ?g ?h ?i] => destruct (chain a b c d e g h i) as [s2|] eqn:Ec end;
    [|exact Hs].
  apply chain_okP in Ec; [exact Ec|apply setl_P; auto|apply getn_P; auto].
Qed.
Theorem qf_query_internal_ren s q r : okP s -> P r ->
  qf_query_internal n fuel0 (ren s) q (phi r) = qf_query_internal n fuel0 s q r.
Proof. intros Hs Hr. unfold qf_query_internal. rewrite scan_ren by auto. reflexivity. Qed.

(* decode does not compare remainders at all *)
Lemma decode_cluster_ren f : forall b i j q queue,
  decode_cluster n (ren b) i j q queue f = option_map (map ren_pair) (decode_cluster n b i j q queue f).
Proof.
  induction f as [|f IH]; intros b i j q queue; cbn [decode_cluster]; [reflexivity|].
  rewrite !ren_shf, !ren_occ, !ren_cont, ren_rem, getn_map.
  destruct (negb (j =? i) && getb (qshf b) j); [|reflexivity]. cbv zeta.
  match goal with |- context [match ?X with Some _ => _ | None => None end] =>
    destruct X as [[q' queue2]|] end; [|reflexivity].
  rewrite IH. destruct (decode_cluster n b i (qincr n j) q' queue2 f); reflexivity.
Qed.
Lemma decode_from_ren b : forall is,
  decode_from n fuel0 (ren b) is = option_map (map ren_pair) (decode_from n fuel0 b is).
Proof.
  induction is as [|i t IH]; cbn [decode_from]; [reflexivity|].
  rewrite ren_occ, ren_shf, ren_rem, getn_map, decode_cluster_ren, IH.
  destruct (getb (qocc b) i && negb (getb (qshf b) i)); [|reflexivity].
  destruct (decode_cluster n b i (qincr n i) i [] fuel0) as [c|]; [|reflexivity].
  destruct (decode_from n fuel0 b t) as [rest|]; [|reflexivity].
  cbn [option_map map]. rewrite map_app. reflexivity.
Qed.
Theorem decode_ren b : decode n fuel0 (ren b) = option_map (map ren_pair) (decode n fuel0 b).
Proof. apply decode_from_ren. Qed.
Lemma decode_cluster_okP f : forall b i j q queue l, okP b ->
  decode_cluster n b i j q queue f = Some l -> Forall okP_pair l.
Proof.
  induction f as [|f IH]; intros b i j q queue l Hb; cbn [decode_cluster]; [discriminate|].
  destruct (negb (j =? i) && getb (qshf b) j); [|intros E; inversion E; constructor]. cbv zeta.
  match goal with |- context [match ?X with Some _ => _ | None => None end] =>
    destruct X as [[q' queue2]|] end; [|discriminate].
  destruct (decode_cluster n b i (qincr n j) q' queue2 f) as [rest|] eqn:Er; [|discriminate].
  intros E; inversion E; subst. constructor; [apply getn_P; exact Hb|]. eapply IH; eauto.
Qed.
Lemma decode_from_okP b : okP b -> forall is l, decode_from n fuel0 b is = Some l -> Forall okP_pair l.
Proof.
  intros Hb. induction is as [|i t IH]; intros l; cbn [decode_from]; [intros E; inversion E; constructor|].
  destruct (getb (qocc b) i && negb (getb (qshf b) i)); [|apply IH].
  destruct (decode_cluster n b i (qincr n i) i [] fuel0) as [c|] eqn:Ec; [|discriminate].
  destruct (decode_from n fuel0 b t) as [rest|]; [|discriminate].
  intros E; inversion E; subst. constructor; [apply getn_P; exact Hb|].
  apply Forall_app. split; [eapply decode_cluster_okP; eauto|apply IH; reflexivity].
Qed.
Lemma decode_okP b l : okP b -> decode n fuel0 b = Some l -> Forall okP_pair l.
Proof. intros Hb. apply decode_from_okP. exact Hb. Qed.

Lemma insert_all_ren l : forall s, okP s -> Forall okP_pair l ->
  insert_all n fuel0 (ren s) (map ren_pair l) =
  (fst (insert_all n fuel0 s l), ren (snd (insert_all n fuel0 s l))).
Proof.
  induction l as [|[q r] t IH]; intros s Hs Hl; cbn [map insert_all ren_pair fst snd]; [reflexivity|].
  inversion Hl as [|? ? Hp Ht]; subst. unfold okP_pair in Hp; cbn [snd] in Hp.
  rewrite qf_insert_internal_ren by auto.
  pose proof (qf_insert_internal_okP s q r Hs Hp) as Hs1.
  destruct (qf_insert_internal n fuel0 s q r) as [[| | |] s1]; cbn [fst snd] in *; try reflexivity; apply IH; auto.
Qed.
End Loops.

(* union commutes with renaming both arguments *)
Theorem qf_union_ren a b : okP a -> okP b -> qbr a = qbr b ->
  qf_union (ren a) (ren b) = option_map (fun rs => (fst rs, ren (snd rs))) (qf_union a b).
Proof.
  intros Ha HbP Hb. unfold qf_union.
  change (qbq (ren a)) with (qbq a). change (qbq (ren b)) with (qbq b).
  change (qbr (ren a)) with br'. change (qbr (ren b)) with br'.
  change (qf_n (ren a)) with (qf_n a). change (qf_n (ren b)) with (qf_n b).
  change (qf_fuel (ren a)) with (qf_fuel a). change (qf_fuel (ren b)) with (qf_fuel b).
  rewrite Hb, !N.eqb_refl, !andb_true_r.
  destruct (qbq a =? qbq b); [|reflexivity].
  rewrite decode_ren. destruct (decode (qf_n b) (qf_fuel b) b) as [l|] eqn:Ed; cbn [option_map]; [|reflexivity].
  rewrite insert_all_ren; [|exact Ha|eapply decode_okP; eauto].
  destruct (insert_all (qf_n a) (qf_fuel a) a l) as [[| | |] s1]; reflexivity.
Qed.

(* a run of inserts commutes with renaming: same results, renamed final state *)
Fixpoint run_int (n : N) (f : nat) (s : qf) (xs : list (N * N)) : list qres * qf :=
  match xs with
  | [] => ([], s)
  | (q, r) :: t => let '(res, s') := qf_insert_internal n f s q r in
                   let '(rs, s'') := run_int n f s' t in (res :: rs, s'')
  end.
Theorem run_int_ren n f xs : forall s, okP s -> Forall okP_pair xs ->
  run_int n f (ren s) (map ren_pair xs) = (fst (run_int n f s xs), ren (snd (run_int n f s xs))).
Proof.
  induction xs as [|[q r] t IH]; intros s Hs Hxs; cbn [map run_int ren_pair fst snd]; [reflexivity|].
  inversion Hxs as [|? ? Hp Ht]; subst. unfold okP_pair in Hp; cbn [snd] in Hp.
  rewrite qf_insert_internal_ren by auto.
  pose proof (qf_insert_internal_okP n f s q r Hs Hp) as Hs1.
  destruct (qf_insert_internal n f s q r) as [res s1]. cbn [fst snd] in *. rewrite IH by auto.
  destruct (run_int n f s1 t) as [rs s2]. reflexivity.
Qed.
Lemma run_int_okP n f xs : forall s, okP s -> Forall okP_pair xs -> okP (snd (run_int n f s xs)).
Proof.
  induction xs as [|[q r] t IH]; intros s Hs Hxs; cbn [run_int snd]; [exact Hs|].
  inversion Hxs as [|? ? Hp Ht]; subst. unfold okP_pair in Hp; cbn [snd] in Hp.
  pose proof (qf_insert_internal_okP n f s q r Hs Hp) as Hs1.
  destruct (qf_insert_internal n f s q r) as [res s1]. cbn [snd] in Hs1.
  specialize (IH s1 Hs1 Ht). destruct (run_int n f s1 t) as [rs s2]. exact IH.
Qed.
End Rename.

(** ** renamings that are strictly monotone everywhere *)
Section RenameTotal.
Variable phi : N -> N.
Hypothesis phi_0 : phi 0 = 0.
Hypothesis phi_mono : forall a b, a < b -> phi a < phi b.
Variable br' : N.
Let PT := fun _ : N => True.
Let mono' : forall a b, PT a -> PT b -> a < b -> phi a < phi b := fun a b _ _ L => phi_mono a b L.
Lemma okP_total s : okP PT s.
Proof. unfold okP. apply Forall_forall. intros; exact I. Qed.
Lemma okP_pair_total l : Forall (okP_pair PT) l.
Proof. apply Forall_forall. intros; exact I. Qed.

Theorem qf_insert_internal_ren_total n f s q r :
  qf_insert_internal n f (ren phi br' s) q (phi r) =
  (fst (qf_insert_internal n f s q r), ren phi br' (snd (qf_insert_internal n f s q r))).
Proof. apply (qf_insert_internal_ren phi PT I phi_0 mono'); [apply okP_total|exact I]. Qed.
Theorem qf_query_internal_ren_total n f s q r :
  qf_query_internal n f (ren phi br' s) q (phi r) = qf_query_internal n f s q r.
Proof. apply (qf_query_internal_ren phi PT I phi_0 mono'); [apply okP_total|exact I]. Qed.
Theorem qf_union_ren_total a b : qbr a = qbr b ->
  qf_union (ren phi br' a) (ren phi br' b) =
  option_map (fun rs => (fst rs, ren phi br' (snd rs))) (qf_union a b).
Proof. apply (qf_union_ren phi PT I phi_0 mono'); apply okP_total. Qed.
Theorem run_int_ren_total n f xs s :
  run_int n f (ren phi br' s) (map (ren_pair phi) xs) =
  (fst (run_int n f s xs), ren phi br' (snd (run_int n f s xs))).
Proof. apply (run_int_ren phi PT I phi_0 mono'); [apply okP_total|apply okP_pair_total]. Qed.
End RenameTotal.

(* non-vacuity: doubling the remainders maps the width-(2,2) filter into the width-(2,3) filter *)
Example ren_demo :
  let phi := fun r => 2 * r in
  let xs := [(0, 1); (3, 2); (0, 0); (3, 1); (0, 1); (1, 3)] in
  ren phi 3 (snd (run_int 4 6 (qf_empty 2 2) xs)) = snd (run_int 4 6 (qf_empty 2 3) (map (ren_pair phi) xs))
  /\ fst (run_int 4 6 (qf_empty 2 2) xs) = [QOkT; QOkT; QOkT; QOkT; QOkF; QFull].
Proof. vm_compute. split; reflexivity. Qed.
Lemma double_mono : forall a b : N, a < b -> 2 * a < 2 * b.
Proof. intros; lia. Qed.

Print Assumptions qf_insert_internal_ren.
Print Assumptions qf_query_internal_ren.
Print Assumptions decode_ren.
Print Assumptions qf_union_ren.
Print Assumptions run_int_ren.
Print Assumptions qf_insert_internal_ren_total.
Print Assumptions qf_query_internal_ren_total.
Print Assumptions qf_union_ren_total.
Print Assumptions run_int_ren_total.
