(* Proofs/HllTables.v — theorems about the COMPLETE generated tables of Gen/HllData.v
   (= src/hyperloglog/data.rs).  Every theorem is a finite check: a boolean function evaluated by
   [vm_compute], lifted to a readable [forall] statement.  All arithmetic on the decimal literals is exact
   rational arithmetic ([Q]); a literal (neg, d, e) denotes (-1)^neg * d / 10^e ([dlitQ]). *)
From PDS Require Import Model.HllCount.
From Coq Require Import QArith Qabs Qround Lia.

Local Open Scope N_scope.

(* ------------------------------------------------------------------ *)
(* generic lifting helpers                                            *)
(* ------------------------------------------------------------------ *)
Lemma forallb_nth {X} (f : X -> bool) l i x : forallb f l = true -> nth_error l i = Some x -> f x = true.
Proof. intros H E. rewrite forallb_forall in H. apply H. eapply nth_error_In; eauto. Qed.

Lemma nth_error_combine {X Y} (l1 : list X) (l2 : list Y) i a b :
  nth_error l1 i = Some a -> nth_error l2 i = Some b -> nth_error (combine l1 l2) i = Some (a, b).
Proof.
  revert l2 i; induction l1 as [|x l1 IH]; intros [|y l2] [|i]; simpl; try discriminate.
  - intros E1 E2; inversion E1; inversion E2; reflexivity.
  - apply IH.
Qed.

Lemma nth_error_tl {X} (l : list X) i : nth_error (tl l) i = nth_error l (S i).
Proof. destruct l; simpl; auto. destruct i; auto. Qed.

Lemma nth_error_Nseq s n i : (i < n)%nat -> nth_error (Nseq s n) i = Some (s + N.of_nat i).
Proof.
  revert s i; induction n as [|n IH]; intros s [|i] Hi; simpl; try lia.
  - f_equal; lia.
  - rewrite IH by lia. f_equal; lia.
Qed.

Definition Qltb (a b : Q) : bool := negb (Qle_bool b a).
Lemma Qltb_lt a b : Qltb a b = true -> (a < b)%Q.
Proof.
  unfold Qltb. intros H. apply Qnot_le_lt. intros L. apply Qle_bool_iff in L. rewrite L in H. discriminate.
Qed.

(* the value of a literal *)
Definition dlitQ (l : dlit) : Q :=
  let '(neg, d, e) := l in
  let q := (inject_Z (Z.of_N d) / inject_Z (10 ^ Z.of_N e))%Q in
  if neg then (- q)%Q else q.

(* ------------------------------------------------------------------ *)
(* (a) shape                                                           *)
(* ------------------------------------------------------------------ *)
Definition shape_check : bool :=
  (length threshold_data =? 15)%nat && forallb (fun t => 0 <? t) threshold_data &&
  (length raw_estimate_data =? 15)%nat && (length bias_data =? 15)%nat &&
  forallb (fun p => (length (fst p) =? length (snd p))%nat && (N.to_nat bias_k <=? length (fst p))%nat)
          (combine raw_estimate_data bias_data) &&
  (threshold_data_offset =? 4) && (raw_estimate_data_offset =? 4) && (bias_data_offset =? 4) && (bias_k =? 6).

Lemma shape_check_true : shape_check = true.
Proof. vm_compute. reflexivity. Qed.

Theorem table_shape :
  length threshold_data = 15%nat /\
  (forall t, In t threshold_data -> 0 < t) /\
  length raw_estimate_data = 15%nat /\
  length bias_data = 15%nat /\
  (forall i row brow, nth_error raw_estimate_data i = Some row -> nth_error bias_data i = Some brow ->
     length row = length brow /\ (N.to_nat bias_k <= length row)%nat) /\
  threshold_data_offset = 4 /\ raw_estimate_data_offset = 4 /\ bias_data_offset = 4 /\ bias_k = 6.
Proof.
  pose proof shape_check_true as H. unfold shape_check in H.
  apply andb_prop in H; destruct H as [H C9]. apply andb_prop in H; destruct H as [H C8].
  apply andb_prop in H; destruct H as [H C7]. apply andb_prop in H; destruct H as [H C6].
  apply andb_prop in H; destruct H as [H C5]. apply andb_prop in H; destruct H as [H C4].
  apply andb_prop in H; destruct H as [H C3]. apply andb_prop in H; destruct H as [C1 C2].
  apply Nat.eqb_eq in C1, C3, C4. apply N.eqb_eq in C6, C7, C8, C9.
  split; [exact C1|]. split.
  { intros t Ht. rewrite forallb_forall in C2. apply N.ltb_lt. auto. }
  split; [exact C3|]. split; [exact C4|]. split; [|auto].
  intros i row brow E1 E2.
  pose proof (forallb_nth _ _ _ _ C5 (nth_error_combine _ _ _ _ _ E1 E2)) as E. cbn [fst snd] in E.
  apply andb_prop in E. destruct E as [Ea Eb]. apply Nat.eqb_eq in Ea. apply Nat.leb_le in Eb. auto.
Qed.

(* the form used by the totality proof: for every legal b all three tables have row b - 4 *)
Theorem table_rows b :
  4 <= b <= 18 ->
  exists row brow thr,
    row_of raw_estimate_data raw_estimate_data_offset b = Some row /\
    row_of bias_data bias_data_offset b = Some brow /\
    row_of threshold_data threshold_data_offset b = Some thr /\
    length row = length brow /\ (6 <= length row)%nat /\ 0 < thr.
Proof.
  intros Hb.
  destruct table_shape as (Lt & Pt & Lr & Lb & Hrow & Ot & Or & Ob & Hk).
  unfold row_of. rewrite Ot, Or, Ob.
  destruct (N.ltb_spec b 4) as [|_]; [lia|].
  unfold getN.
  destruct (nth_error raw_estimate_data (N.to_nat (b - 4))) as [row|] eqn:E1;
    [|apply nth_error_None in E1; lia].
  destruct (nth_error bias_data (N.to_nat (b - 4))) as [brow|] eqn:E2;
    [|apply nth_error_None in E2; lia].
  destruct (nth_error threshold_data (N.to_nat (b - 4))) as [thr|] eqn:E3;
    [|apply nth_error_None in E3; lia].
  exists row, brow, thr. destruct (Hrow _ _ _ E1 E2) as [Hl Hk6]. rewrite Hk in Hk6.
  repeat split; auto. apply Pt. eapply nth_error_In; eauto.
Qed.

(* ------------------------------------------------------------------ *)
(* (b) POW2MINX literals round to exactly 2^-x                        *)
(* ------------------------------------------------------------------ *)
(* 2^-x is a power of two: the binary64 spacing is 2^-(x+53) just below it and 2^-(x+52) just above it.
   A real number t rounds (to nearest) to exactly 2^-x when  -2^-(x+54) < t - 2^-x < 2^-(x+53),
   i.e.  -1 < (t - 2^-x) * 2^(x+54) < 2.
   NOTE: the symmetric bound |lit_x - 2^-x| * 2^(x+54) < 1 is FALSE for 42 entries (x = 24, 31, 44, ...,
   250: 16/17-digit literals rounded UP by between 1.04 and 1.66 units of 2^-(x+54)); [pow2minx_sym_fails]
   below records this.  All of them are above 2^-x, where the admissible margin is 2 units. *)
Definition pow_err (x : N) (l : dlit) : Q := ((dlitQ l - 2 ^ (- Z.of_N x)) * 2 ^ (Z.of_N x + 54))%Q.
Definition pow_ok (x : N) (l : dlit) : bool := Qltb (-(1)) (pow_err x l) && Qltb (pow_err x l) 2.

Definition pow2minx_check : bool :=
  (length pow2minx_data =? 256)%nat &&
  forallb (fun p => pow_ok (fst p) (snd p)) (combine (Nseq 0 256) pow2minx_data).

Lemma pow2minx_check_true : pow2minx_check = true.
Proof. vm_compute. reflexivity. Qed.

Theorem pow2minx_table :
  length pow2minx_data = 256%nat /\
  forall x l, nth_error pow2minx_data (N.to_nat x) = Some l ->
    (-(1) < (dlitQ l - 2 ^ (- Z.of_N x)) * 2 ^ (Z.of_N x + 54) < 2)%Q.
Proof.
  pose proof pow2minx_check_true as H. unfold pow2minx_check in H.
  apply andb_prop in H. destruct H as [HL H]. apply Nat.eqb_eq in HL. split; [exact HL|].
  intros x l E.
  assert (Hx : (N.to_nat x < 256)%nat). { rewrite <- HL. apply nth_error_Some. congruence. }
  pose proof (nth_error_Nseq 0 256 _ Hx) as E0.
  pose proof (forallb_nth _ _ _ _ H (nth_error_combine _ _ _ _ _ E0 E)) as P. cbn [fst snd] in P.
  rewrite N.add_0_l, N2Nat.id in P. unfold pow_ok, pow_err in P.
  apply andb_prop in P. destruct P as [P1 P2]. apply Qltb_lt in P1, P2. split; assumption.
Qed.

(* the entries that violate the symmetric half-ulp-below bound (all on the upper side) *)
Definition pow2minx_sym_fails : list N :=
  map fst (filter (fun p => negb (Qltb (Qabs (pow_err (fst p) (snd p))) 1)) (combine (Nseq 0 256) pow2minx_data)).
Lemma pow2minx_sym_fails_eq :
  pow2minx_sym_fails =
  [24; 31; 44; 45; 61; 62; 71; 72; 77; 78; 94; 95; 96; 97; 111; 112; 113; 114; 115; 127; 128; 134; 140; 141;
   142; 143; 144; 151; 157; 174; 175; 176; 177; 178; 179; 180; 194; 227; 247; 248; 249; 250].
Proof. vm_compute. reflexivity. Qed.

(* ------------------------------------------------------------------ *)
(* (c) convertibility of the literals by one float division            *)
(* ------------------------------------------------------------------ *)
Lemma lits_convertible_true : lits_convertible = true.
Proof. vm_compute. reflexivity. Qed.

Definition convertible (l : dlit) : Prop := let '(_, d, e) := l in d < 2 ^ 53 /\ e <= 22.

Lemma dlit_convertible_spec l : dlit_convertible l = true -> convertible l.
Proof.
  destruct l as [[neg d] e]. unfold dlit_convertible, convertible. intros H.
  apply andb_prop in H. destruct H as [H1 H2]. apply N.ltb_lt in H1. apply N.leb_le in H2. auto.
Qed.

Theorem literals_convertible :
  (forall row l, In row raw_estimate_data -> In l row -> convertible l) /\
  (forall row l, In row bias_data -> In l row -> convertible l) /\
  (forall l, In l [am_c1; am_c2; am_c3; am_c4; am_c5; small_range_factor] -> convertible l).
Proof.
  pose proof lits_convertible_true as H. unfold lits_convertible in H.
  apply andb_prop in H. destruct H as [H H3]. apply andb_prop in H. destruct H as [H1 H2].
  rewrite forallb_forall in H1, H2, H3.
  repeat split.
  - intros row l Hr Hl. specialize (H1 _ Hr). rewrite forallb_forall in H1. apply dlit_convertible_spec; auto.
  - intros row l Hr Hl. specialize (H2 _ Hr). rewrite forallb_forall in H2. apply dlit_convertible_spec; auto.
  - intros l Hl. apply dlit_convertible_spec; auto.
Qed.

(* ------------------------------------------------------------------ *)
(* (d) the cardinality structure hidden in raw - bias                  *)
(* ------------------------------------------------------------------ *)
(* raw[j] - bias[j] rounded to the nearest integer: the true cardinality n_j at which the mean raw
   estimate raw[j] was measured (bias[j] = raw[j] - n_j up to binary64 printing noise) *)
Definition card_of (r bi : dlit) : Z := Qfloor (dlitQ r - dlitQ bi + (1 # 2)).
Definition cards (row brow : list dlit) : list Z := map (fun p => card_of (fst p) (snd p)) (combine row brow).

Definition near_ok (p : dlit * dlit) : bool :=
  Qltb (Qabs (dlitQ (fst p) - dlitQ (snd p) - inject_Z (card_of (fst p) (snd p)))) (1 # 10 ^ 9).

(* allowed increments n_{j+1} - n_j for precision b : 1 when 2^b/40 < 1, else floor or ceil of 2^b/40 *)
Definition step_ok (b : N) (d : Z) : bool :=
  if b <=? 5 then (d =? 1)%Z
  else ((d =? 2 ^ Z.of_N b / 40) || (d =? 2 ^ Z.of_N b / 40 + 1))%Z.

(* position of n_j : exactly j + 1 for b <= 5 ; within 3.4 of j * 2^b / 40 for b >= 6 *)
Definition pos_ok (b j : N) (n : Z) : bool :=
  if b <=? 5 then (n =? Z.of_N j + 1)%Z
  else (Z.abs (40 * n - Z.of_N j * 2 ^ Z.of_N b) <=? 136)%Z.

Definition card_row_ok (p : N * (list dlit * list dlit)) : bool :=
  let '(b, (row, brow)) := p in
  let ns := cards row brow in
  forallb near_ok (combine row brow) &&
  (match ns with n0 :: _ => (n0 =? 1)%Z | [] => false end) &&
  forallb (fun q => step_ok b (snd q - fst q)) (combine ns (tl ns)) &&
  forallb (fun n => (n <=? 5 * 2 ^ Z.of_N b)%Z) ns &&
  forallb (fun q => pos_ok b (fst q) (snd q)) (combine (Nseq 0 (length ns)) ns).

Definition card_check : bool :=
  forallb card_row_ok (combine (Nseq 4 15) (combine raw_estimate_data bias_data)).

Lemma card_check_true : card_check = true.
Proof. vm_compute. reflexivity. Qed.

Definition step_spec (b : N) (d : Z) : Prop :=
  (b <= 5 -> d = 1%Z) /\ (6 <= b -> d = (2 ^ Z.of_N b / 40)%Z \/ d = (2 ^ Z.of_N b / 40 + 1)%Z).
Definition pos_spec (b : N) (j : nat) (n : Z) : Prop :=
  (b <= 5 -> n = (Z.of_nat j + 1)%Z) /\
  (6 <= b -> (Z.abs (40 * n - Z.of_nat j * 2 ^ Z.of_N b) <= 136)%Z).

Lemma step_ok_spec b d : step_ok b d = true -> step_spec b d.
Proof.
  unfold step_ok, step_spec. destruct (N.leb_spec b 5) as [L|L]; intros H.
  - apply Z.eqb_eq in H. split; [auto|lia].
  - split; [lia|]. intros _. apply orb_prop in H. destruct H as [H|H]; apply Z.eqb_eq in H; auto.
Qed.

Lemma pos_ok_spec b j n : pos_ok b (N.of_nat j) n = true -> pos_spec b j n.
Proof.
  unfold pos_ok, pos_spec. rewrite nat_N_Z. destruct (N.leb_spec b 5) as [L|L]; intros H.
  - apply Z.eqb_eq in H. split; [auto|lia].
  - split; [lia|]. intros _. apply Z.leb_le in H. exact H.
Qed.

(* For every precision row b = 4 + i (m = 2^b registers):
   1. raw[j] - bias[j] is within 10^-9 of an integer n_j ([card_of]);
   2. n_0 = 1;
   3. n_{j+1} - n_j = 1 for b <= 5, and is floor(m/40) or floor(m/40) + 1 for b >= 6;
   4. n_j <= 5 m  (the table covers exactly the range e <= 5 m in which count() consults it);
   5. n_j = j + 1 for b <= 5, and |n_j - j m / 40| <= 3.4 for b >= 6.
   (n_j is NOT ceil(j m/40) nor round(1 + j m/40): e.g. b = 6, j = 42 has n = 67 while 42*1.6 = 67.2.) *)
Theorem card_structure i row brow :
  nth_error raw_estimate_data i = Some row -> nth_error bias_data i = Some brow ->
  let b := 4 + N.of_nat i in
  let ns := cards row brow in
  (forall j r bi, nth_error row j = Some r -> nth_error brow j = Some bi ->
     (Qabs (dlitQ r - dlitQ bi - inject_Z (card_of r bi)) < 1 # 10 ^ 9)%Q /\
     nth_error ns j = Some (card_of r bi)) /\
  nth_error ns 0 = Some 1%Z /\
  (forall j a c, nth_error ns j = Some a -> nth_error ns (S j) = Some c -> step_spec b (c - a)) /\
  (forall j n, nth_error ns j = Some n -> (n <= 5 * 2 ^ Z.of_N b)%Z /\ pos_spec b j n).
Proof.
  intros E1 E2 b ns.
  assert (Hi : (i < 15)%nat).
  { destruct table_shape as (_ & _ & L & _). rewrite <- L. apply nth_error_Some. congruence. }
  pose proof (nth_error_Nseq 4 15 i Hi) as E0.
  pose proof (forallb_nth _ _ _ _ card_check_true
                (nth_error_combine _ _ _ _ _ E0 (nth_error_combine _ _ _ _ _ E1 E2))) as C.
  unfold card_row_ok in C. fold b in C. fold ns in C.
  apply andb_prop in C; destruct C as [C C5]. apply andb_prop in C; destruct C as [C C4].
  apply andb_prop in C; destruct C as [C C3]. apply andb_prop in C; destruct C as [C1 C2].
  split; [|split; [|split]].
  - intros j r bi Er Eb. pose proof (nth_error_combine _ _ _ _ _ Er Eb) as Ec. split.
    + pose proof (forallb_nth _ _ _ _ C1 Ec) as P. unfold near_ok in P. cbn [fst snd] in P.
      apply Qltb_lt in P. exact P.
    + unfold ns, cards. rewrite nth_error_map, Ec. reflexivity.
  - destruct ns as [|n0 r]; [discriminate|]. apply Z.eqb_eq in C2. subst n0. reflexivity.
  - intros j a c Ea Ec. rewrite <- nth_error_tl in Ec.
    pose proof (forallb_nth _ _ _ _ C3 (nth_error_combine _ _ _ _ _ Ea Ec)) as P. cbn [fst snd] in P.
    apply step_ok_spec. exact P.
  - intros j n En. split.
    + pose proof (forallb_nth _ _ _ _ C4 En) as P. apply Z.leb_le in P. exact P.
    + assert (Hj : (j < length ns)%nat) by (apply nth_error_Some; congruence).
      pose proof (nth_error_Nseq 0 (length ns) j Hj) as Ej.
      pose proof (forallb_nth _ _ _ _ C5 (nth_error_combine _ _ _ _ _ Ej En)) as P. cbn [fst snd] in P.
      rewrite N.add_0_l in P. apply pos_ok_spec. exact P.
Qed.

(* the first and last cardinalities of each row, for the report *)
Definition card_summary : list (Z * nat * option Z * Z) :=
  map (fun p => let '(b, (row, brow)) := p in
                let ns := cards row brow in (Z.of_N b, length ns, hd_error ns, last ns 0%Z))
      (combine (Nseq 4 15) (combine raw_estimate_data bias_data)).
Lemma card_summary_eq :
  card_summary =
  [(4, 79%nat, Some 1, 79); (5, 159%nat, Some 1, 159); (6, 200%nat, Some 1, 318); (7, 200%nat, Some 1, 636);
   (8, 200%nat, Some 1, 1273); (9, 201%nat, Some 1, 2560); (10, 200%nat, Some 1, 5094);
   (11, 201%nat, Some 1, 10240); (12, 201%nat, Some 1, 20479); (13, 200%nat, Some 1, 40755);
   (14, 201%nat, Some 1, 81919); (15, 201%nat, Some 1, 163839); (16, 200%nat, Some 1, 326041);
   (17, 201%nat, Some 1, 655359); (18, 200%nat, Some 1, 1304169)]%Z.
Proof. vm_compute. reflexivity. Qed.

(* the raw-estimate rows are NOT all sorted (binary search precondition): rows b = 5 and b = 6 contain
   descents.  Irrelevant for totality, recorded as a finding. *)
Definition unsorted_rows : list N :=
  map fst (filter (fun p => negb (forallb (fun q => Qltb (dlitQ (fst q)) (dlitQ (snd q)))
                                          (combine (snd p) (tl (snd p)))))
                  (combine (Nseq 4 15) raw_estimate_data)).
Lemma unsorted_rows_eq : unsorted_rows = [5; 6].
Proof. vm_compute. reflexivity. Qed.

Example table_rows_ex : exists row brow thr,
  row_of raw_estimate_data raw_estimate_data_offset 4 = Some row /\
  row_of bias_data bias_data_offset 4 = Some brow /\
  row_of threshold_data threshold_data_offset 4 = Some thr /\
  length row = 79%nat /\ length brow = 79%nat /\ thr = 10.
Proof. eexists _, _, _. vm_compute. repeat split; reflexivity. Qed.

Example pow2minx_ex : nth_error pow2minx_data 3 = Some (false, 125, 3) /\ (dlitQ (false, 125%N, 3%N) == 2 ^ (-3))%Q.
Proof. split; reflexivity. Qed.

Example card_ex : cards [(false, 11, 0); (false, 11717, 3)] [(false, 10, 0); (false, 9717, 3)] = [1; 2]%Z.
Proof. vm_compute. reflexivity. Qed.

Print Assumptions table_shape.
Print Assumptions table_rows.
Print Assumptions pow2minx_table.
Print Assumptions literals_convertible.
Print Assumptions card_structure.
