(* Proofs/QuotientLift.v — from one closure check to ALL bits_remainder (stretch item F, continued).
   If the closure check of QuotientProofs.v holds for the width (bq, br0) and 2^bq + 2 <= 2^br0,
   then property C13 (exact set semantics, len, result of insert, never Stuck) holds for the internal
   operations at EVERY remainder width — indeed for arbitrary remainders in N — and, through
   [qf_split], for the public operations at every width (bq, br) accepted by [qf_new].
   Idea: a state holds at most 2^bq pairs; together with the pair being inserted/queried these are at
   most 2^bq + 1 non-zero remainders, which the rank function maps, strictly monotonically, below
   2^br0; QuotientRename.v transports the step to the small width, where the closure check applies. *)
From PDS Require Import Model.Quotient Proofs.QuotientProofs Proofs.QuotientRename.
From Coq Require Import Lia ZifyN ZifyBool.
Open Scope N_scope.

Arguments N.add : simpl never.
Arguments N.mul : simpl never.
Arguments N.sub : simpl never.
Arguments N.pow : simpl never.
Arguments N.ltb : simpl never.
Arguments N.leb : simpl never.
Arguments N.eqb : simpl never.

(** ** the rank function *)
Definition cntle (R : list N) (r : N) : nat := length (filter (fun y => y <=? r) R).
Definition rank (R : list N) (r : N) : N := N.of_nat (cntle R r).

Lemma cntle_le R r : (cntle R r <= length R)%nat.
Proof. unfold cntle. induction R as [|y t IH]; cbn [filter length]; [lia|]. destruct (y <=? r); cbn [length]; lia. Qed.
Lemma cntle_mono R a b : a <= b -> (cntle R a <= cntle R b)%nat.
Proof.
  intros L. unfold cntle. induction R as [|y t IH]; cbn [filter length]; [lia|].
  destruct (N.leb_spec y a), (N.leb_spec y b); cbn [length]; lia.
Qed.
Lemma cntle_strict R a b : In b R -> a < b -> (cntle R a < cntle R b)%nat.
Proof.
  intros Hin L. induction R as [|y t IH]; [destruct Hin|].
  pose proof (cntle_mono t a b ltac:(lia)) as Hm. unfold cntle in *. cbn [filter length].
  destruct Hin as [->|Hin].
  - destruct (N.leb_spec b a), (N.leb_spec b b); cbn [length]; lia.
  - specialize (IH Hin). destruct (N.leb_spec y a), (N.leb_spec y b); cbn [length]; lia.
Qed.
Lemma cntle_0 R : Forall (fun y => 0 < y) R -> cntle R 0 = O.
Proof.
  unfold cntle. induction 1 as [|y t Hy Ht IH]; cbn [filter length]; [reflexivity|].
  destruct (N.leb_spec y 0); [lia|exact IH].
Qed.

(** ** small list facts *)
Lemma map_repeat' {A B} (f : A -> B) x n : map f (repeat x n) = repeat (f x) n.
Proof. induction n; cbn [repeat map]; [reflexivity|]. rewrite IHn. reflexivity. Qed.
Lemma filter_length_le' {A} (f : A -> bool) l : (length (filter f l) <= length l)%nat.
Proof. induction l as [|y t IH]; cbn [filter length]; [lia|]. destruct (f y); cbn [length]; lia. Qed.
Lemma NoDup_snoc {A} (l : list A) x : NoDup l -> ~ In x l -> NoDup (l ++ [x]).
Proof.
  induction 1 as [|y t Hy Ht IH]; intros Hx; cbn [app]; [constructor; [intros []|constructor]|].
  constructor.
  - rewrite in_app_iff. cbn [In]. intros [Hin|[E|[]]]; [auto|]. subst. apply Hx. left. reflexivity.
  - apply IH. intros Hin. apply Hx. right. exact Hin.
Qed.
Lemma NoDup_map_on {A B} (f : A -> B) (l : list A) :
  (forall a b, In a l -> In b l -> f a = f b -> a = b) -> NoDup l -> NoDup (map f l).
Proof.
  intros Hinj Hnd. induction Hnd as [|y t Hy Ht IH]; cbn [map]; constructor.
  - rewrite in_map_iff. intros (z & E & Hz). apply Hinj in E; [|right; exact Hz|left; reflexivity].
    subst. contradiction.
  - apply IH. intros a b Ha Hb. apply Hinj; right; assumption.
Qed.

Definition pair_eqb (p p' : N * N) : bool := (fst p =? fst p') && (snd p =? snd p').
Lemma pair_eqb_eq p p' : pair_eqb p p' = true <-> p = p'.
Proof.
  destruct p as [a b], p' as [a' b']. unfold pair_eqb; cbn [fst snd].
  rewrite andb_true_iff, !N.eqb_eq. split; [intros [-> ->]; reflexivity|intros E; inversion E; auto].
Qed.
Definition lmem (x : N * N) (A : list (N * N)) : bool := existsb (pair_eqb x) A.
Lemma lmem_In x A : lmem x A = true <-> In x A.
Proof.
  unfold lmem. rewrite existsb_exists. split.
  - intros (y & Hy & E). apply pair_eqb_eq in E. subst. exact Hy.
  - intros Hin. exists x. split; [exact Hin|apply pair_eqb_eq; reflexivity].
Qed.

Section AllBr.
Variables bq br0 : N.
Hypothesis Hck : check_all bq br0 = true.
Hypothesis Hcap : cn bq + 2 <= cR br0.
Variable br : N.                       (* the target remainder width: arbitrary *)

Notation e := (qf_empty bq br).
Notation e0 := (qf_empty bq br0).
Definition qok (p : N * N) : Prop := fst p < cn bq.

(** ** the specification, on duplicate-free lists in order of acceptance *)
Definition lstep (A : list (N * N)) (x : N * N) : qres * list (N * N) :=
  if lmem x A then (QOkF, A) else if N.of_nat (length A) =? cn bq then (QFull, A) else (QOkT, A ++ [x]).
Fixpoint lrun (A : list (N * N)) (xs : list (N * N)) : list qres * list (N * N) :=
  match xs with
  | [] => ([], A)
  | p :: t => let '(r, A') := lstep A p in let '(rs, A'') := lrun A' t in (r :: rs, A'')
  end.

Lemma run_int_qf_run xs : forall s, run_int (cn bq) (cfuel bq) s xs = qf_run bq s xs.
Proof.
  induction xs as [|[q r] t IH]; intros s; cbn [run_int qf_run]; [reflexivity|].
  unfold ins; cbn [fst snd]. destruct (qf_insert_internal (cn bq) (cfuel bq) s q r) as [res s1].
  rewrite IH. reflexivity.
Qed.
Lemma qf_run_snoc xs : forall s x, snd (qf_run bq s (xs ++ [x])) = snd (ins bq (snd (qf_run bq s xs)) x).
Proof.
  induction xs as [|p t IH]; intros s x; cbn [app qf_run snd].
  - destruct (ins bq s x) as [r s1]. reflexivity.
  - destruct (ins bq s p) as [r s1]. specialize (IH s1 x).
    destruct (qf_run bq s1 (t ++ [x])) as [rs s2]. destruct (qf_run bq s1 t) as [rs' s2']. exact IH.
Qed.

(** ** one step at the large width, through the rank renaming *)
Lemma large_step A x : NoDup A -> (length A <= N.to_nat (cn bq))%nat -> Forall qok A -> qok x ->
  let s := snd (qf_run bq e A) in
  qry bq s x = lmem x A /\
  qcnt s = N.of_nat (length A) /\
  fst (ins bq s x) = fst (lstep A x) /\
  snd (ins bq s x) = snd (qf_run bq e (snd (lstep A x))).
Proof.
  intros Hnd Hlen HqA Hqx s.
  set (R := filter (fun y => negb (y =? 0)) (map snd (x :: A))).
  set (phi := rank R).
  set (P := fun r : N => r = 0 \/ In r R).
  assert (HRpos : Forall (fun y => 0 < y) R).
  { apply Forall_forall. intros y Hy. apply filter_In in Hy as [_ Hy].
    destruct (N.eqb_spec y 0); [discriminate|lia]. }
  assert (HP0 : P 0) by (left; reflexivity).
  assert (Hphi0 : phi 0 = 0) by (unfold phi, rank; rewrite cntle_0; auto).
  assert (Hmono : forall a b, P a -> P b -> a < b -> phi a < phi b).
  { intros a b _ [->|Hb] L; [lia|]. unfold phi, rank. pose proof (cntle_strict R a b Hb L). lia. }
  assert (HPall : Forall (okP_pair P) (x :: A)).
  { apply Forall_forall. intros p Hp. unfold okP_pair, P.
    destruct (N.eqb_spec (snd p) 0) as [E|E]; [left; exact E|right].
    apply filter_In. split; [apply in_map; exact Hp|]. destruct (N.eqb_spec (snd p) 0); [contradiction|reflexivity]. }
  inversion HPall as [|? ? HPx HPA]; subst.
  assert (Hbound : forall r, phi r < cR br0).
  { intros r. unfold phi, rank. pose proof (cntle_le R r) as H1.
    assert (H2 : (length R <= S (length A))%nat).
    { unfold R. etransitivity; [apply filter_length_le'|]. rewrite map_length. cbn [length]. lia. }
    lia. }
  set (A0 := map (ren_pair phi) A). set (x0 := ren_pair phi x).
  assert (HinU0 : Forall (inU bq br0) A0).
  { apply Forall_forall. intros p Hp. apply in_map_iff in Hp as (p' & <- & Hp').
    rewrite Forall_forall in HqA. split; [exact (HqA p' Hp')|apply Hbound]. }
  assert (HinUx : inU bq br0 x0) by (split; [exact Hqx|apply Hbound]).
  assert (Hinj : forall a b, okP_pair P a -> okP_pair P b -> ren_pair phi a = ren_pair phi b -> a = b).
  { intros [a1 a2] [b1 b2] Ha Hb E. unfold ren_pair in E. unfold okP_pair in Ha, Hb. cbn [fst snd] in E, Ha, Hb.
    inversion E as [[E1 E2]]. f_equal. apply (phi_inj phi P Hphi0 Hmono); assumption. }
  assert (Hnd0 : NoDup A0).
  { apply NoDup_map_on; [|exact Hnd]. rewrite Forall_forall in HPA. intros a b Ha Hb. apply Hinj; auto. }
  assert (Hmem0 : In x0 A0 <-> In x A).
  { unfold A0, x0. rewrite in_map_iff. split.
    - intros (p & E & Hp). rewrite Forall_forall in HPA. apply Hinj in E; auto. subst. exact Hp.
    - intros Hin. exists x. auto. }
  (* the renamed state is the canonical small state of the renamed set *)
  assert (HokPe : okP P e).
  { unfold okP, qf_empty; cbn [qrem]. apply Forall_forall. intros y Hy. apply repeat_spec in Hy. subst. exact HP0. }
  assert (HokPs : okP P s).
  { subst s. rewrite <- run_int_qf_run. apply (run_int_okP P HP0); auto. }
  assert (Hren_e : ren phi br0 e = e0).
  { unfold ren, qf_empty; cbn [qocc qcont qshf qrem qcnt qbq]. rewrite map_repeat', Hphi0. reflexivity. }
  assert (Hs0 : ren phi br0 s = snd (qf_run bq e0 A0)).
  { subst s. rewrite <- !run_int_qf_run. unfold A0.
    rewrite <- Hren_e. rewrite (run_int_ren phi P HP0 Hphi0 Hmono br0) by auto. reflexivity. }
  assert (Hcount : mcount (mset bq br0 A0) = length A).
  { rewrite (mcount_mset bq br0 A0 HinU0), (nodup_fixed_point pair_dec Hnd0). unfold A0. apply map_length. }
  assert (HV : valid bq br0 (mset bq br0 A0)).
  { split; [apply mset_length|]. rewrite Hcount. exact Hlen. }
  assert (Hfinal : ren phi br0 s = state_of bq br0 (mset bq br0 A0)).
  { rewrite Hs0. apply (qf_run_final bq br0 Hck A0 HinU0). rewrite Hcount. exact Hlen. }
  destruct (closure_step bq br0 Hck _ x0 HV HinUx) as [Hq Hi].
  rewrite <- Hfinal in Hq, Hi.
  assert (Hqr : qry bq (ren phi br0 s) x0 = qry bq s x).
  { unfold qry, x0, ren_pair; cbn [fst snd]. apply (qf_query_internal_ren phi P HP0 Hphi0 Hmono); auto. }
  assert (Hir : ins bq (ren phi br0 s) x0 = (fst (ins bq s x), ren phi br0 (snd (ins bq s x)))).
  { unfold ins, x0, ren_pair; cbn [fst snd]. apply (qf_insert_internal_ren phi P HP0 Hphi0 Hmono); auto. }
  assert (Hmm : mmem br0 (mset bq br0 A0) x0 = lmem x A).
  { pose proof (mmem_mset bq br0 A0 x0 HinU0 HinUx) as H1. pose proof (lmem_In x A) as H2.
    destruct (mmem br0 (mset bq br0 A0) x0), (lmem x A); auto.
    - symmetry. apply H2, Hmem0, H1. reflexivity.
    - apply H1, Hmem0, H2. reflexivity. }
  assert (Hres : fst (ins bq s x) = fst (lstep A x)).
  { rewrite Hir in Hi. apply (f_equal fst) in Hi. cbn [fst] in Hi. rewrite Hi. unfold spec_step, lstep.
    rewrite Hmm, Hcount. destruct (lmem x A); [reflexivity|].
    destruct (N.of_nat (length A) =? cn bq); reflexivity. }
  split; [rewrite <- Hqr, Hq; exact Hmm|]. split.
  { change (qcnt s) with (qcnt (ren phi br0 s)). rewrite Hfinal, (closure_cnt bq br0 Hck _ HV), Hcount. reflexivity. }
  split; [exact Hres|].
  unfold lstep in *. destruct (lmem x A).
  - cbn [fst snd] in *. destruct (ins bq s x) as [r s1] eqn:Ei. cbn [fst snd] in *. subst r.
    unfold ins in Ei. apply qf_insert_internal_err_id in Ei; [exact Ei|discriminate].
  - destruct (N.of_nat (length A) =? cn bq); cbn [fst snd] in *.
    + destruct (ins bq s x) as [r s1] eqn:Ei. cbn [fst snd] in *. subst r.
      unfold ins in Ei. apply qf_insert_internal_err_id in Ei; [exact Ei|discriminate].
    + rewrite qf_run_snoc. reflexivity.
Qed.

Definition linv (A : list (N * N)) : Prop :=
  NoDup A /\ (length A <= N.to_nat (cn bq))%nat /\ Forall qok A.

Lemma lstep_inv A x : linv A -> qok x -> linv (snd (lstep A x)).
Proof.
  intros (Hnd & Hlen & HqA) Hqx. unfold lstep. destruct (lmem x A) eqn:Em; [repeat split; auto|].
  destruct (N.eqb_spec (N.of_nat (length A)) (cn bq)) as [E|E]; [repeat split; auto|]. cbn [snd].
  split; [|split].
  - apply NoDup_snoc; [exact Hnd|]. intros Hin. apply lmem_In in Hin. congruence.
  - rewrite app_length. cbn [length]. lia.
  - apply Forall_app. split; [exact HqA|constructor; [exact Hqx|constructor]].
Qed.

Lemma lrun_sim xs : forall A, linv A -> Forall qok xs ->
  qf_run bq (snd (qf_run bq e A)) xs = (fst (lrun A xs), snd (qf_run bq e (snd (lrun A xs)))) /\
  linv (snd (lrun A xs)).
Proof.
  induction xs as [|x t IH]; intros A HA Hxs; cbn [qf_run lrun]; [split; [reflexivity|exact HA]|].
  inversion Hxs as [|? ? Hqx Ht]; subst.
  destruct HA as (Hnd & Hlen & HqA).
  destruct (large_step A x Hnd Hlen HqA Hqx) as (_ & _ & Hres & Hst). cbv zeta in *.
  pose proof (lstep_inv A x (conj Hnd (conj Hlen HqA)) Hqx) as Hinv.
  destruct (ins bq (snd (qf_run bq e A)) x) as [r s1]. cbn [fst snd] in *. subst r s1.
  destruct (lstep A x) as [r A']. cbn [fst snd] in *.
  destruct (IH A' Hinv Ht) as [IH1 IH2]. rewrite IH1.
  destruct (lrun A' t) as [rs A'']. cbn [fst snd] in *. split; [reflexivity|exact IH2].
Qed.

Lemma lstep_not_stuck A x : fst (lstep A x) <> QStuck.
Proof. unfold lstep. destruct (lmem x A); [discriminate|]. destruct (_ =? _); discriminate. Qed.
Lemma lrun_not_stuck xs : forall A, ~ In QStuck (fst (lrun A xs)).
Proof.
  induction xs as [|x t IH]; intros A; cbn [lrun]; [intros []|].
  pose proof (lstep_not_stuck A x) as Hs. destruct (lstep A x) as [r A']. specialize (IH A').
  destruct (lrun A' t) as [rs A'']. cbn [fst] in *. intros [E|Hin]; auto.
Qed.

(* C13 for quotient width bq and ARBITRARY remainders (hence every bits_remainder) *)
Theorem qf_exact_allbr (xs : list (N * N)) : Forall qok xs ->
  let A := snd (lrun [] xs) in
  let s := snd (qf_run bq e xs) in
  fst (qf_run bq e xs) = fst (lrun [] xs) /\
  ~ In QStuck (fst (qf_run bq e xs)) /\
  s = snd (qf_run bq e A) /\
  NoDup A /\ (length A <= N.to_nat (cn bq))%nat /\
  qcnt s = N.of_nat (length A) /\
  (forall p, qok p -> qry bq s p = lmem p A) /\
  (forall p, qok p -> fst (ins bq s p) = fst (lstep A p) /\
                      snd (ins bq s p) = snd (qf_run bq e (snd (lstep A p)))).
Proof.
  intros Hxs A s. subst A s.
  assert (Hinv0 : linv []) by (repeat split; [constructor|cbn; lia|constructor]).
  destruct (lrun_sim xs [] Hinv0 Hxs) as [Hr (Hnd & Hlen & HqA)]. cbn [qf_run snd] in Hr.
  rewrite Hr. cbn [fst snd].
  split; [reflexivity|]. split; [apply lrun_not_stuck|]. split; [reflexivity|].
  split; [exact Hnd|]. split; [exact Hlen|].
  split; [apply (large_step _ (0, 0) Hnd Hlen HqA); unfold qok, cn; cbn [fst]; pose proof (pow2_nz bq); lia|].
  split; intros p Hp; destruct (large_step _ p Hnd Hlen HqA Hp) as (H1 & H2 & H3 & H4); auto.
Qed.

(** ** the accepted list versus the history *)
Lemma lrun_incl xs : forall A p, In p (snd (lrun A xs)) -> In p A \/ In p xs.
Proof.
  induction xs as [|x t IH]; intros A p; cbn [lrun snd]; [auto|].
  unfold lstep. destruct (lmem x A).
  - specialize (IH A p). destruct (lrun A t) as [rs A'']. cbn [snd] in *. intros Hin.
    destruct (IH Hin); [left|right; right]; auto.
  - destruct (N.of_nat (length A) =? cn bq).
    + specialize (IH A p). destruct (lrun A t) as [rs A'']. cbn [snd] in *. intros Hin.
      destruct (IH Hin); [left|right; right]; auto.
    + specialize (IH (A ++ [x]) p). destruct (lrun (A ++ [x]) t) as [rs A'']. cbn [snd] in *. intros Hin.
      destruct (IH Hin) as [Hin'|Hin']; [|right; right; exact Hin'].
      apply in_app_iff in Hin' as [Hin'|[<-|[]]]; [left; exact Hin'|right; left; reflexivity].
Qed.
Lemma lrun_no_full_In xs : forall A, ~ In QFull (fst (lrun A xs)) ->
  forall p, In p A \/ In p xs -> In p (snd (lrun A xs)).
Proof.
  induction xs as [|x t IH]; intros A Hnf p; cbn [lrun fst snd] in *; [intros [H|[]]; exact H|].
  unfold lstep in *. destruct (lmem x A) eqn:Em.
  - specialize (IH A). destruct (lrun A t) as [rs A'']. cbn [fst snd] in *.
    assert (Hnf' : ~ In QFull rs) by (intros Hin; apply Hnf; right; exact Hin).
    intros [Hin|[<-|Hin]]; apply (IH Hnf');
      [left; exact Hin|left; apply lmem_In; exact Em|right; exact Hin].
  - destruct (N.of_nat (length A) =? cn bq).
    + exfalso. destruct (lrun A t) as [rs A'']. apply Hnf. left. reflexivity.
    + specialize (IH (A ++ [x])). destruct (lrun (A ++ [x]) t) as [rs A'']. cbn [fst snd] in *.
      assert (Hnf' : ~ In QFull rs) by (intros Hin; apply Hnf; right; exact Hin).
      intros [Hin|[<-|Hin]]; apply (IH Hnf');
        [left; apply in_app_iff; left; exact Hin|left; apply in_app_iff; right; left; reflexivity|right; exact Hin].
Qed.
Lemma lrun_full_witness xs : forall A, NoDup A -> In QFull (fst (lrun A xs)) ->
  exists B, NoDup B /\ length B = S (N.to_nat (cn bq)) /\ incl B (A ++ xs).
Proof.
  induction xs as [|x t IH]; intros A Hnd; cbn [lrun fst]; [intros []|].
  unfold lstep. destruct (lmem x A) eqn:Em.
  - specialize (IH A Hnd). destruct (lrun A t) as [rs A'']. cbn [fst] in *.
    intros [E|Hin]; [discriminate|]. destruct (IH Hin) as (B & HB & HL & Hi). exists B. repeat split; auto.
    intros p Hp. apply Hi in Hp. rewrite in_app_iff in *. cbn [In]. tauto.
  - assert (Hnx : ~ In x A) by (intros Hin; apply lmem_In in Hin; congruence).
    destruct (N.eqb_spec (N.of_nat (length A)) (cn bq)) as [E|E].
    + intros _. exists (A ++ [x]). split; [apply NoDup_snoc; auto|]. split.
      * rewrite app_length. cbn [length]. lia.
      * intros p Hp. rewrite in_app_iff in *. cbn [In] in *. tauto.
    + specialize (IH (A ++ [x]) (NoDup_snoc A x Hnd Hnx)). destruct (lrun (A ++ [x]) t) as [rs A'']. cbn [fst] in *.
      intros [E'|Hin]; [discriminate|]. destruct (IH Hin) as (B & HB & HL & Hi). exists B. repeat split; auto.
      intros p Hp. apply Hi in Hp. rewrite !in_app_iff in *. cbn [In] in *. tauto.
Qed.

(* headline: while at most 2^bq distinct pairs were offered the filter is exactly their set *)
Theorem qf_exact_set_allbr (xs : list (N * N)) : Forall qok xs ->
  (length (nodup pair_dec xs) <= N.to_nat (cn bq))%nat ->
  let s := snd (qf_run bq e xs) in
  (forall p, qok p -> (qry bq s p = true <-> In p xs)) /\
  qcnt s = N.of_nat (length (nodup pair_dec xs)) /\
  (forall r, In r (fst (qf_run bq e xs)) -> r = QOkT \/ r = QOkF).
Proof.
  intros Hxs Hlen s. subst s.
  destruct (qf_exact_allbr xs Hxs) as (Hres & Hns & _ & Hnd & _ & Hc & Hq & _). cbv zeta in *.
  assert (Hnf : ~ In QFull (fst (lrun [] xs))).
  { intros Hin. destruct (lrun_full_witness xs [] (NoDup_nil _) Hin) as (B & HB & HL & Hi). cbn [app] in Hi.
    assert (Hi' : incl B (nodup pair_dec xs)) by (intros p Hp; apply nodup_In, Hi, Hp).
    pose proof (NoDup_incl_length HB Hi'). lia. }
  assert (Hiff : forall p, In p (snd (lrun [] xs)) <-> In p xs).
  { intros p. split.
    - intros Hin. apply lrun_incl in Hin as [[]|Hin]. exact Hin.
    - intros Hin. apply lrun_no_full_In; auto. }
  split; [|split].
  - intros p Hp. rewrite Hq by auto. rewrite lmem_In. apply Hiff.
  - rewrite Hc. f_equal. apply Nat.le_antisymm; apply NoDup_incl_length.
    + exact Hnd.
    + intros p Hp. apply nodup_In, Hiff, Hp.
    + apply NoDup_nodup.
    + intros p Hp. apply Hiff. apply nodup_In in Hp. exact Hp.
  - intros r Hr. rewrite Hres in Hr. rewrite Hres in Hns.
    destruct r; auto; contradiction.
Qed.

(** ** public operations at width (bq, br) *)
Section Keys.
Variable H : hashfn.
Hypothesis Hw : widths_ok bq br.
Hypothesis Hh : hash64 H.
Notation kp := (key_pair bq br H).

Lemma kp_qok x : qok (kp x).
Proof. apply (key_pair_inU bq br H x Hw Hh). Qed.
Lemma qf_insert_shape_int s x : qbq s = bq -> qbr s = br -> qf_insert H s x = ins bq s (kp x).
Proof.
  intros Hq Hr. unfold qf_insert, qf_calc, key_pair, ins, qf_fuel, qf_n, cfuel, cn. rewrite Hq, Hr.
  destruct (qf_split bq br (H None (Some x))) as [q r]. reflexivity.
Qed.
Lemma qf_query_shape_int s x : qbq s = bq -> qbr s = br -> qf_query H s x = qry bq s (kp x).
Proof.
  intros Hq Hr. unfold qf_query, qf_calc, key_pair, qry, qf_fuel, qf_n, cfuel, cn. rewrite Hq, Hr.
  destruct (qf_split bq br (H None (Some x))) as [q r]. reflexivity.
Qed.
Lemma qf_run_shape xs : forall s, same_shape s (snd (qf_run bq s xs)).
Proof.
  induction xs as [|p t IH]; intros s; cbn [qf_run]; [apply same_shape_refl|].
  pose proof (qf_insert_internal_shape (cn bq) (cfuel bq) s (fst p) (snd p)) as Hs. fold (ins bq s p) in Hs.
  destruct (ins bq s p) as [r s1]. specialize (IH s1). destruct (qf_run bq s1 t) as [rs s2]. cbn [snd] in *.
  eapply same_shape_trans; eauto.
Qed.
Lemma qf_run_keys_int ks : forall s, qbq s = bq -> qbr s = br ->
  qf_run_keys H s ks = qf_run bq s (map kp ks).
Proof.
  induction ks as [|x t IH]; intros s Hq Hr; cbn [qf_run_keys qf_run map]; [reflexivity|].
  rewrite (qf_insert_shape_int s x Hq Hr).
  pose proof (qf_insert_internal_shape (cn bq) (cfuel bq) s (fst (kp x)) (snd (kp x))) as (_&_&_&_&Hq1&Hr1).
  fold (ins bq s (kp x)) in Hq1, Hr1.
  destruct (ins bq s (kp x)) as [r s1]. cbn [snd] in *. rewrite IH by congruence. reflexivity.
Qed.

Theorem qf_exact_keys_allbr (ks : list N) :
  let ps := map kp ks in
  let A := snd (lrun [] ps) in
  let s := snd (qf_run_keys H e ks) in
  fst (qf_run_keys H e ks) = fst (lrun [] ps) /\
  ~ In QStuck (fst (qf_run_keys H e ks)) /\
  NoDup A /\ (length A <= N.to_nat (cn bq))%nat /\
  qf_len s = N.of_nat (length A) /\
  (forall x, qf_query H s x = lmem (kp x) A) /\
  (forall x, fst (qf_insert H s x) = fst (lstep A (kp x))).
Proof.
  intros ps A s. subst A s.
  assert (Hps : Forall qok ps).
  { apply Forall_forall. intros p Hp. apply in_map_iff in Hp as (x & <- & _). apply kp_qok. }
  rewrite (qf_run_keys_int ks e eq_refl eq_refl). fold ps.
  destruct (qf_exact_allbr ps Hps) as (H1 & H2 & _ & H4 & H5 & H6 & H7 & H8). cbv zeta in *.
  pose proof (qf_run_shape ps e) as (_&_&_&_&Hq&Hr). cbn [qbq qbr qf_empty] in Hq, Hr.
  split; [exact H1|]. split; [exact H2|]. split; [exact H4|]. split; [exact H5|]. split; [exact H6|].
  split; intros x.
  - rewrite (qf_query_shape_int _ x Hq Hr). apply H7, kp_qok.
  - rewrite (qf_insert_shape_int _ x Hq Hr). apply H8, kp_qok.
Qed.

Theorem qf_exact_keys_set_allbr (ks : list N) :
  let ps := map kp ks in
  (length (nodup pair_dec ps) <= N.to_nat (cn bq))%nat ->
  let s := snd (qf_run_keys H e ks) in
  (forall x, qf_query H s x = true <-> In (kp x) ps) /\
  qf_len s = N.of_nat (length (nodup pair_dec ps)) /\
  (forall r, In r (fst (qf_run_keys H e ks)) -> r = QOkT \/ r = QOkF).
Proof.
  intros ps Hlen s. subst s.
  assert (Hps : Forall qok ps).
  { apply Forall_forall. intros p Hp. apply in_map_iff in Hp as (x & <- & _). apply kp_qok. }
  rewrite (qf_run_keys_int ks e eq_refl eq_refl). fold ps.
  destruct (qf_exact_set_allbr ps Hps Hlen) as (H1 & H2 & H3). cbv zeta in *.
  pose proof (qf_run_shape ps e) as (_&_&_&_&Hq&Hr). cbn [qbq qbr qf_empty] in Hq, Hr.
  split; [|split; [exact H2|exact H3]].
  intros x. rewrite (qf_query_shape_int _ x Hq Hr). apply H1, kp_qok.
Qed.
End Keys.
End AllBr.

Print Assumptions qf_exact_allbr.
Print Assumptions qf_exact_set_allbr.
Print Assumptions qf_exact_keys_allbr.
Print Assumptions qf_exact_keys_set_allbr.
