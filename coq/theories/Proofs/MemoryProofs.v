(* Proofs/MemoryProofs.v — property C11: allocation arithmetic. The packed tables hold the documented
   payload and less than one extra block; state-size invariants of the other structures are proved in
   their own files and collected in Props/C11.v. *)
From PDS Require Import Model.Memory.
From Coq Require Import ZifyN ZifyBool Lia.
Ltac Zify.zify_post_hook ::= Z.div_mod_to_equations.
Open Scope N_scope.

Lemma alloc_blocks_tight bits len :
  bits * len <= 64 * alloc_blocks bits len /\ 64 * alloc_blocks bits len < bits * len + 64.
Proof.
  unfold alloc_blocks. destruct (N.eqb_spec ((bits * len) mod 64) 0) as [E|E]; lia.
Qed.

Lemma alloc_blocks_exact bits len : (bits * len) mod 64 = 0 -> 64 * alloc_blocks bits len = bits * len.
Proof. unfold alloc_blocks. intros E. rewrite E. cbn [N.eqb]. lia. Qed.

(* the F3 defect allocated ceil(64*len/bits) blocks; the repaired count is minimal *)
Lemma alloc_blocks_minimal bits len k : bits * len <= 64 * k -> alloc_blocks bits len <= k.
Proof. intros H. destruct (alloc_blocks_tight bits len). lia. Qed.

Theorem intvector_bytes_tight bits len :
  bits * len <= 8 * intvector_bytes bits len /\ 8 * intvector_bytes bits len < bits * len + 64.
Proof. unfold intvector_bytes. destruct (alloc_blocks_tight bits len). lia. Qed.

Theorem cuckoo_bytes_tight bs nb l :
  cuckoo_payload_bits bs nb l <= 8 * cuckoo_bytes bs nb l /\ 8 * cuckoo_bytes bs nb l < cuckoo_payload_bits bs nb l + 64.
Proof.
  unfold cuckoo_bytes, cuckoo_payload_bits. destruct (intvector_bytes_tight l (nb * bs)). lia.
Qed.

Lemma bitset_bytes_tight bits : bits <= 8 * bitset_bytes bits /\ 8 * bitset_bytes bits < bits + 128.
Proof. unfold bitset_bytes, cdiv. lia. Qed.

Theorem qf_bytes_tight bq br :
  qf_payload_bits bq br <= 8 * qf_bytes bq br /\ 8 * qf_bytes bq br < qf_payload_bits bq br + 448.
Proof.
  unfold qf_bytes, qf_payload_bits.
  generalize (2 ^ bq). intros X.
  destruct (bitset_bytes_tight X). destruct (intvector_bytes_tight br X).
  rewrite N.mul_add_distr_l, (N.mul_comm X br). set (P := br * X) in *. lia.
Qed.

Theorem bloom_bytes_tight m k : m <= 8 * (bloom_bytes m k - 8 * k) /\ 8 * (bloom_bytes m k - 8 * k) < m + 128.
Proof. unfold bloom_bytes. destruct (bitset_bytes_tight m). lia. Qed.

Lemma slots_arith l S B Q : 0 < l -> l * S <= 64 * B -> 64 * B < l * S + 64 -> l * Q <= 64 * B -> 64 * B < l * N.succ Q ->
  S <= Q /\ Q * l < l * S + 64 + l.
Proof. intros. split.
- apply N.lt_succ_r. apply (N.mul_lt_mono_pos_l l); lia.
- rewrite (N.mul_comm Q l). lia.
Qed.

(* the table allocated by cuckoo_new has room for every slot and less than one block of slack *)
Theorem cuckoo_table_slots bs nb l s :
  cuckoo_new bs nb l = Some s ->
  nb * bs <= N.of_nat (length (ktbl s)) /\ N.of_nat (length (ktbl s)) * l < l * (nb * bs) + 64 + l.
Proof.
  unfold cuckoo_new. destruct (_ && _) eqn:E; [|discriminate]. intros [= <-]. cbn [ktbl].
  rewrite repeat_length, N2Nat.id.
  repeat (apply andb_prop in E; destruct E as [E ?]).
  destruct (alloc_blocks_tight l (nb * bs)).
  assert (0 < l) by lia.
  set (B := alloc_blocks l (nb * bs)) in *. set (S := nb * bs) in *.
  assert (Hl : l <> 0) by lia.
  assert (D1 := N.mul_div_le (64 * B) l Hl).
  assert (D2 := N.mul_succ_div_gt (64 * B) l Hl).
  apply (slots_arith l S B (64 * B / l)); assumption.
Qed.

Example alloc_blocks_values :
  (alloc_blocks 8 1, alloc_blocks 8 4096, alloc_blocks 33 128, alloc_blocks 2 1024, alloc_blocks 64 3) = (1, 512, 66, 32, 3).
Proof. reflexivity. Qed.
Example bytes_values : (cuckoo_bytes 4 1024 8, cuckoo_bytes 2 64 33, qf_bytes 10 2, qf_bytes 8 40, bloom_bytes 1000 3) = (4096, 528, 640, 1376, 152).
Proof. vm_compute. reflexivity. Qed.

Print Assumptions alloc_blocks_tight.
Print Assumptions cuckoo_bytes_tight.
Print Assumptions qf_bytes_tight.
Print Assumptions cuckoo_table_slots.
