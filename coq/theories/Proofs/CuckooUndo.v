(* Proofs/CuckooUndo.v — property C12: a failed insert or a failed union leaves the cuckoo
   filter exactly as it was (Model/Cuckoo.v; src/filters/cuckoofilter.rs after repairs F1, F2).

   Key invariant ([ext]): every table write made by [write_bucket] / [kick] is pushed on the
   undo log together with the slot's previous content, newest first.  Hence the log returned
   by [insert_internal] is [nw ++ lg] for some new part [nw] with [restore t' nw = t]: undoing
   the new entries (newest first; positions may repeat) gives back the table we started from.
   No well-formedness assumption on the filter is needed: [setN] fails on out-of-range slots,
   so every logged slot is in range.

   All statements hold for every hash function [H], every RNG word list and every state. *)
From PDS Require Import Model.Cuckoo.

(* ------------------------------------------------------------------------------------------ *)
(* restore: basic facts                                                                        *)

Lemma restore_nil t : restore t [] = t.
Proof. reflexivity. Qed.

Lemma restore_cons t s v lg : restore t ((s, v) :: lg) = restore (upd t (N.to_nat s) v) lg.
Proof. reflexivity. Qed.

Lemma restore_app t l1 l2 : restore t (l1 ++ l2) = restore (restore t l1) l2.
Proof. unfold restore. apply fold_left_app. Qed.

Lemma restore_length t lg : length (restore t lg) = length t.
Proof.
  revert t; induction lg as [|[s v] lg IH]; intros t.
  - reflexivity.
  - rewrite restore_cons, IH. apply upd_length.
Qed.

(* one logged write is undone by its log entry *)
Lemma restore_single t s f t' :
  setN t s f = Some t' -> restore t' [(s, getD 0 t s)] = t.
Proof.
  intros E. apply setN_Some in E. destruct E as [-> Hlt].
  rewrite restore_cons, restore_nil, upd_upd_same. unfold getD. apply upd_nth_id. exact Hlt.
Qed.

(* ------------------------------------------------------------------------------------------ *)
(* the log-extension invariant                                                                 *)

(* (t', lg') is reachable from (t, lg) by logged writes *)
Definition ext (t t' : list N) (lg lg' : ulog) : Prop :=
  exists nw, lg' = nw ++ lg /\ restore t' nw = t /\ length t' = length t.

Lemma ext_refl t lg : ext t t lg lg.
Proof. exists []. repeat split. Qed.

Lemma ext_trans t t1 t2 lg lg1 lg2 :
  ext t t1 lg lg1 -> ext t1 t2 lg1 lg2 -> ext t t2 lg lg2.
Proof.
  intros (n1 & -> & R1 & L1) (n2 & -> & R2 & L2).
  exists (n2 ++ n1). split; [apply app_assoc|]. split.
  - rewrite restore_app, R2. exact R1.
  - congruence.
Qed.

Lemma ext_write t s f t' lg :
  setN t s f = Some t' -> ext t t' lg ((s, getD 0 t s) :: lg).
Proof.
  intros E. exists [(s, getD 0 t s)]. split; [reflexivity|]. split.
  - apply restore_single with (f := f). exact E.
  - apply setN_Some in E. destruct E as [-> _]. apply upd_length.
Qed.

Lemma ext_restore t t' lg lg' : ext t t' lg lg' -> restore t' lg' = restore t lg.
Proof. intros (nw & -> & R & _). rewrite restore_app, R. reflexivity. Qed.

Lemma ext_length t t' lg lg' : ext t t' lg lg' -> length t' = length t.
Proof. intros (nw & _ & _ & L). exact L. Qed.

Lemma ext_nil t t' lg' : ext t t' [] lg' -> restore t' lg' = t.
Proof. intros E. apply ext_restore in E. exact E. Qed.

(* ------------------------------------------------------------------------------------------ *)
(* find_slot / write_bucket / kick / insert_internal                                          *)

Lemma find_slot_val t off cnt v s : find_slot t off cnt v = Some s -> getD 0 t s = v.
Proof.
  revert off; induction cnt as [|c IH]; intros off E; cbn [find_slot] in E.
  - discriminate.
  - destruct (N.eqb_spec (getD 0 t off) v) as [Heq|Hne].
    + inversion E; subst s. exact Heq.
    + apply IH in E. exact E.
Qed.

Lemma write_bucket_ext bs t i f lg t' lg' :
  write_bucket bs t i f lg = Some (t', lg') -> ext t t' lg lg'.
Proof.
  unfold write_bucket. intros E.
  destruct (find_slot t (i * bs) (N.to_nat bs) 0) as [s|] eqn:Ef; [|discriminate].
  destruct (setN t s f) as [t1|] eqn:Es; [|discriminate].
  inversion E; subst t' lg'.
  apply find_slot_val in Ef. rewrite <- Ef. apply ext_write with (f := f). exact Es.
Qed.

Section WithParams.
Variable H : hashfn.
Variables bs nb : N.

Lemma kick_ext fuel : forall t f i lg ws,
  match kick H bs nb t f i lg ws fuel with
  | KOk t' lg' _ | KFull t' lg' _ => ext t t' lg lg'
  | KStuck => True
  end.
Proof.
  induction fuel as [|fu IH]; intros t f i lg ws; cbn [kick].
  - apply ext_refl.
  - destruct (gen_range 0 bs ws) as [[e ws1]|]; [|exact I].
    destruct (setN t (i * bs + e) f) as [t1|] eqn:Es; [|exact I].
    pose proof (ext_write t _ f t1 lg Es) as E1.
    destruct (write_bucket bs t1 (N.lxor i (hb H nb (getD 0 t (i * bs + e)))) (getD 0 t (i * bs + e))
                ((i * bs + e, getD 0 t (i * bs + e)) :: lg)) as [[t2 lg2]|] eqn:Ew.
    + apply write_bucket_ext in Ew. eapply ext_trans; eassumption.
    + specialize (IH t1 (getD 0 t (i * bs + e)) (N.lxor i (hb H nb (getD 0 t (i * bs + e))))
                     ((i * bs + e, getD 0 t (i * bs + e)) :: lg) ws1).
      destruct (kick H bs nb t1 _ _ _ ws1 fu) as [t2 lg2 ws2|t2 lg2 ws2|]; try exact I;
        eapply ext_trans; eassumption.
Qed.

Lemma insert_internal_ext t f i1 i2 lg ws :
  match insert_internal H bs nb t f i1 i2 lg ws with
  | KOk t' lg' _ | KFull t' lg' _ => ext t t' lg lg'
  | KStuck => True
  end.
Proof.
  unfold insert_internal.
  destruct (write_bucket bs t i1 f lg) as [[t1 lg1]|] eqn:E1.
  { apply write_bucket_ext in E1. exact E1. }
  destruct (write_bucket bs t i2 f lg) as [[t2 lg2]|] eqn:E2.
  { apply write_bucket_ext in E2. exact E2. }
  destruct (gen_bool ws) as [[b ws1]|]; [|exact I].
  apply kick_ext.
Qed.

(* Main lemma 1: undoing the log after insert_internal = undoing the log before it. *)
Theorem restore_kick t f i lg ws fuel t' lg' ws' :
  kick H bs nb t f i lg ws fuel = KOk t' lg' ws' \/ kick H bs nb t f i lg ws fuel = KFull t' lg' ws' ->
  restore t' lg' = restore t lg.
Proof.
  intros E. pose proof (kick_ext fuel t f i lg ws) as K.
  destruct E as [E|E]; rewrite E in K; apply ext_restore; exact K.
Qed.

Theorem restore_insert_internal t f i1 i2 lg ws t' lg' ws' :
  insert_internal H bs nb t f i1 i2 lg ws = KOk t' lg' ws' \/
  insert_internal H bs nb t f i1 i2 lg ws = KFull t' lg' ws' ->
  restore t' lg' = restore t lg.
Proof.
  intros E. pose proof (insert_internal_ext t f i1 i2 lg ws) as K.
  destruct E as [E|E]; rewrite E in K; apply ext_restore; exact K.
Qed.

(* the explicit form: the new log is the old one with new entries in front, and undoing just
   the new entries gives back the old table *)
Theorem insert_internal_log t f i1 i2 lg ws t' lg' ws' :
  insert_internal H bs nb t f i1 i2 lg ws = KOk t' lg' ws' \/
  insert_internal H bs nb t f i1 i2 lg ws = KFull t' lg' ws' ->
  exists nw, lg' = nw ++ lg /\ restore t' nw = t.
Proof.
  intros E. pose proof (insert_internal_ext t f i1 i2 lg ws) as K.
  destruct E as [E|E]; rewrite E in K; destruct K as (nw & E1 & E2 & _); exists nw; auto.
Qed.

(* Main lemma 6: lengths *)
Theorem insert_internal_length t f i1 i2 lg ws t' lg' ws' :
  insert_internal H bs nb t f i1 i2 lg ws = KOk t' lg' ws' \/
  insert_internal H bs nb t f i1 i2 lg ws = KFull t' lg' ws' ->
  length t' = length t.
Proof.
  intros E. pose proof (insert_internal_ext t f i1 i2 lg ws) as K.
  destruct E as [E|E]; rewrite E in K; eapply ext_length; exact K.
Qed.

(* the union loop threads one shared log through many insert_internal calls *)
Lemma union_loop_ext slots : forall t n lg ws idx b t' n' lg' ws',
  union_loop H bs nb t n lg ws slots idx = Some (b, t', n', lg', ws') -> ext t t' lg lg'.
Proof.
  induction slots as [|f r IH]; intros t n lg ws idx b t' n' lg' ws' E; cbn [union_loop] in E.
  - inversion E; subst. apply ext_refl.
  - destruct (f =? 0).
    + eapply IH; exact E.
    + pose proof (insert_internal_ext t f (idx / bs) (N.lxor (idx / bs) (hb H nb f)) lg ws) as K.
      destruct (insert_internal H bs nb t f (idx / bs) (N.lxor (idx / bs) (hb H nb f)) lg ws)
        as [t1 lg1 ws1|t1 lg1 ws1|]; [| |discriminate].
      * apply IH in E. eapply ext_trans; eassumption.
      * inversion E; subst. exact K.
Qed.

Theorem union_loop_restore slots t n lg ws idx b t' n' lg' ws' :
  union_loop H bs nb t n lg ws slots idx = Some (b, t', n', lg', ws') ->
  restore t' lg' = restore t lg /\ length t' = length t.
Proof.
  intros E. apply union_loop_ext in E. split; [apply ext_restore|eapply ext_length]; exact E.
Qed.

End WithParams.

(* ------------------------------------------------------------------------------------------ *)
(* Main theorems on the public operations                                                     *)

Lemma mk_id s : mk s (ktbl s) (kn s) = s.
Proof. destruct s; reflexivity. Qed.

(* Main theorem 2: a failed insert leaves the filter exactly as it was. *)
Theorem cuckoo_insert_full_id : forall H s x ws s' ws',
  cuckoo_insert H s x ws = Some (IFull, s', ws') -> s' = s.
Proof.
  intros H s x ws s' ws' E. unfold cuckoo_insert, start in E. cbv beta iota zeta in E.
  match type of E with context [insert_internal ?h ?b ?n ?t ?f ?i1 ?i2 ?lg ?w] =>
    pose proof (insert_internal_ext h b n t f i1 i2 lg w) as K;
    destruct (insert_internal h b n t f i1 i2 lg w) as [t1 lg1 ws1|t1 lg1 ws1|] end;
    [discriminate| |discriminate].
  inversion E; subst s' ws'. apply ext_nil in K. rewrite K. apply mk_id.
Qed.

(* Main theorem 3: a failed union leaves the receiving filter exactly as it was. *)
Theorem cuckoo_union_err_id : forall H a b ws a' ws',
  cuckoo_union H a b ws = Some (false, a', ws') -> a' = a.
Proof.
  intros H a b ws a' ws' E. unfold cuckoo_union in E.
  destruct ((kbs a =? kbs b) && (knb a =? knb b) && (kl a =? kl b)); [|discriminate].
  destruct (union_loop H (kbs a) (knb a) (ktbl a) (kn a) [] ws (ktbl b) 0)
    as [[[[[ok t1] n1] lg1] ws1]|] eqn:EU; [|discriminate].
  destruct ok; [discriminate|].
  inversion E; subst a' ws'. apply union_loop_ext in EU. apply ext_nil in EU. rewrite EU. apply mk_id.
Qed.

(* 4. cuckoo_union_other_unchanged: [cuckoo_union H a b ws] takes [b] as an argument and returns
   only the new [a]; the other filter [b] is unchanged by typing (Rust: [other: &Self]). *)

(* in the failed cases the table length and the three size fields are, a fortiori, unchanged;
   the same holds for the successful insert: *)
Theorem cuckoo_insert_length : forall H s x ws r s' ws',
  cuckoo_insert H s x ws = Some (r, s', ws') ->
  length (ktbl s') = length (ktbl s) /\ kbs s' = kbs s /\ knb s' = knb s /\ kl s' = kl s.
Proof.
  intros H s x ws r s' ws' E. unfold cuckoo_insert, start in E. cbv beta iota zeta in E.
  match type of E with context [insert_internal ?h ?b ?n ?t ?f ?i1 ?i2 ?lg ?w] =>
    pose proof (insert_internal_ext h b n t f i1 i2 lg w) as K;
    destruct (insert_internal h b n t f i1 i2 lg w) as [t1 lg1 ws1|t1 lg1 ws1|] end;
    [| |discriminate]; inversion E; subst r s' ws'; cbn [mk ktbl kbs knb kl].
  - apply ext_length in K. auto.
  - rewrite restore_length. apply ext_length in K. auto.
Qed.

(* Main theorem 5: determinism corollaries — after a failed insert (resp. union) every later
   operation behaves exactly as it would have on the original filter. *)
Theorem cuckoo_insert_full_then : forall H s x ws s' ws',
  cuckoo_insert H s x ws = Some (IFull, s', ws') ->
  (forall y w, cuckoo_insert H s' y w = cuckoo_insert H s y w) /\
  (forall y, cuckoo_delete H s' y = cuckoo_delete H s y) /\
  (forall y, cuckoo_query H s' y = cuckoo_query H s y) /\
  (forall b w, cuckoo_union H s' b w = cuckoo_union H s b w) /\
  (forall a w, cuckoo_union H a s' w = cuckoo_union H a s w) /\
  cuckoo_len s' = cuckoo_len s /\ cuckoo_clear s' = cuckoo_clear s.
Proof.
  intros H s x ws s' ws' E. apply cuckoo_insert_full_id in E. subst s'. repeat split.
Qed.

Theorem cuckoo_union_err_then : forall H a b ws a' ws',
  cuckoo_union H a b ws = Some (false, a', ws') ->
  (forall y w, cuckoo_insert H a' y w = cuckoo_insert H a y w) /\
  (forall y, cuckoo_delete H a' y = cuckoo_delete H a y) /\
  (forall y, cuckoo_query H a' y = cuckoo_query H a y) /\
  (forall c w, cuckoo_union H a' c w = cuckoo_union H a c w) /\
  (forall c w, cuckoo_union H c a' w = cuckoo_union H c a w) /\
  cuckoo_len a' = cuckoo_len a /\ cuckoo_clear a' = cuckoo_clear a.
Proof.
  intros H a b ws a' ws' E. apply cuckoo_union_err_id in E. subst a'. repeat split.
Qed.

(* ------------------------------------------------------------------------------------------ *)
(* Non-vacuity: concrete failing insert and concrete failing union                            *)

Module Examples.

(* everything hashes to bucket 0 (hb = 0, so i1 = i2 = 0 for keys; for the union i2 = i1);
   fingerprint of x is 1 + x mod 255 *)
Definition H0 : hashfn := fun iv v =>
  match iv with Some 0 => (match v with Some x => x | None => 0 end) | _ => 0 end.

(* a hash where the alternate bucket depends on the fingerprint: hb y = y land 1,
   fingerprint of x is 1 + x mod 255 *)
Definition H1 : hashfn := fun iv v => match v with Some x => x | None => 0 end.

(* 600 RNG words 0, 2^63, 0, 2^63, ... : gen_range 0 2 yields 0 on the word 0 and 1 on 2^63, so
   the kicks alternate between the two slots of a bucket *)
Definition words : list N := flat_map (fun _ => [0; 2 ^ 63]) (seq 0 300).
Definition words_left : list N := 2 ^ 63 :: flat_map (fun _ => [0; 2 ^ 63]) (seq 0 49).

Definition ins (H : hashfn) (o : option cuckoo) (x : N) : option cuckoo :=
  match o with
  | Some s => match cuckoo_insert H s x words with Some (IOk true, s', _) => Some s' | _ => None end
  | None => None
  end.

Definition neqb (a b : list N) : bool := if list_eq_dec N.eq_dec a b then false else true.

(* 2 buckets of 2 slots, 8-bit fingerprints; the allocated table has 8 slots *)
Definition e0 : option cuckoo := cuckoo_new 2 2 8.
Definition full0 : option cuckoo := ins H0 (ins H0 e0 1) 2.        (* bucket 0 = [2; 3] *)
Definition half0 : option cuckoo := ins H0 e0 5.                    (* bucket 0 = [6; 0] *)

Example full0_val :
  full0 = Some {| kbs := 2; knb := 2; kl := 8; ktbl := [2; 3; 0; 0; 0; 0; 0; 0]; kn := 2 |}.
Proof. vm_compute. reflexivity. Qed.

Example half0_val :
  half0 = Some {| kbs := 2; knb := 2; kl := 8; ktbl := [6; 0; 0; 0; 0; 0; 0; 0]; kn := 1 |}.
Proof. vm_compute. reflexivity. Qed.

(* a failing insert: 1 word for gen_bool + 500 words for the 500 kicks are consumed,
   and the result is the original filter *)
Example insert_full_nonvacuous :
  exists s, full0 = Some s /\ length words_left = 99%nat /\
            cuckoo_insert H0 s 3 words = Some (IFull, s, words_left).
Proof. eexists. split; [vm_compute; reflexivity|]. split; [vm_compute; reflexivity|]. vm_compute; reflexivity. Qed.

(* the table really is scribbled over before being restored: the raw result of insert_internal
   differs from the original table ([3; 4; ...] instead of [2; 3; ...]) and carries a 500-entry
   log in which the slots 0 and 1 repeat 250 times each *)
Example insert_full_really_kicks :
  match insert_internal H0 2 2 [2; 3; 0; 0; 0; 0; 0; 0] 4 0 0 [] words with
  | KFull t lg _ => t = [3; 4; 0; 0; 0; 0; 0; 0] /\ length lg = 500%nat /\
                    firstn 4 lg = [(0, 2); (1, 3); (0, 4); (1, 2)] /\
                    restore t lg = [2; 3; 0; 0; 0; 0; 0; 0]
  | _ => False
  end.
Proof. vm_compute. repeat split. Qed.

(* a union failing midway: a = half0 (one free slot in bucket 0), b = full0 (two fingerprints
   in bucket 0).  The first fingerprint of b is written into a's free slot (logged), the second
   one triggers 500 kicks and fails; everything is rolled back. *)
Example union_err_nonvacuous :
  exists a b, half0 = Some a /\ full0 = Some b /\
              cuckoo_union H0 a b words = Some (false, a, words_left).
Proof. do 2 eexists. split; [vm_compute; reflexivity|]. split; [vm_compute; reflexivity|]. vm_compute; reflexivity. Qed.

(* the loop state at the point of failure: a fingerprint of b had been added to a free slot
   (the oldest log entry is (1,0)) and counted (n = 2), 501 log entries in total, the table
   differs from the original, and restore gives the original back *)
Example union_err_really_writes :
  match union_loop H0 2 2 [6; 0; 0; 0; 0; 0; 0; 0] 1 [] words [2; 3; 0; 0; 0; 0; 0; 0] 0 with
  | Some (false, t, n, lg, _) =>
      length lg = 501%nat /\ last lg (9, 9) = (1, 0) /\ n = 2 /\
      neqb t [6; 0; 0; 0; 0; 0; 0; 0] = true /\
      restore t lg = [6; 0; 0; 0; 0; 0; 0; 0]
  | _ => False
  end.
Proof. vm_compute. repeat split. Qed.

(* same with the hash H1, where kicked fingerprints move between the two buckets *)
Definition full1 : option cuckoo := ins H1 (ins H1 (ins H1 (ins H1 e0 1) 2) 3) 4.
Definition half1 : option cuckoo := ins H1 (ins H1 (ins H1 e0 10) 20) 30.

Example full1_val :
  full1 = Some {| kbs := 2; knb := 2; kl := 8; ktbl := [3; 5; 2; 4; 0; 0; 0; 0]; kn := 4 |}.
Proof. vm_compute. reflexivity. Qed.

Example half1_val :
  half1 = Some {| kbs := 2; knb := 2; kl := 8; ktbl := [11; 21; 31; 0; 0; 0; 0; 0]; kn := 3 |}.
Proof. vm_compute. reflexivity. Qed.

Example insert_full_nonvacuous_H1 :
  exists s, full1 = Some s /\
            cuckoo_insert H1 s 8 words = Some (IFull, s, words_left).
Proof. eexists. split; [vm_compute; reflexivity|]. vm_compute; reflexivity. Qed.

Example insert_full_really_kicks_H1 :
  match insert_internal H1 2 2 [3; 5; 2; 4; 0; 0; 0; 0] 9 0 1 [] words with
  | KFull t lg _ => t = [9; 5; 4; 2; 0; 0; 0; 0] /\ length lg = 500%nat /\
                    firstn 4 lg = [(0, 3); (3, 9); (2, 2); (3, 4)] /\
                    restore t lg = [3; 5; 2; 4; 0; 0; 0; 0]
  | _ => False
  end.
Proof. vm_compute. repeat split. Qed.

Example union_err_nonvacuous_H1 :
  exists a b, half1 = Some a /\ full1 = Some b /\
              cuckoo_union H1 a b words = Some (false, a, words_left).
Proof. do 2 eexists. split; [vm_compute; reflexivity|]. split; [vm_compute; reflexivity|]. vm_compute; reflexivity. Qed.

(* at the point of failure the table is [3; 21; 31; 5]: fingerprint 11 of a is gone (it is the
   one "in hand" when the kick budget ran out) — restore brings it back *)
Example union_err_really_writes_H1 :
  match union_loop H1 2 2 [11; 21; 31; 0; 0; 0; 0; 0] 3 [] words [3; 5; 2; 4; 0; 0; 0; 0] 0 with
  | Some (false, t, n, lg, _) =>
      t = [3; 21; 31; 5; 0; 0; 0; 0] /\ length lg = 501%nat /\ last lg (9, 9) = (3, 0) /\ n = 4 /\
      restore t lg = [11; 21; 31; 0; 0; 0; 0; 0]
  | _ => False
  end.
Proof. vm_compute. repeat split. Qed.

End Examples.

Print Assumptions restore_length.
Print Assumptions restore_kick.
Print Assumptions restore_insert_internal.
Print Assumptions insert_internal_log.
Print Assumptions insert_internal_length.
Print Assumptions union_loop_restore.
Print Assumptions cuckoo_insert_full_id.
Print Assumptions cuckoo_union_err_id.
Print Assumptions cuckoo_insert_length.
Print Assumptions cuckoo_insert_full_then.
Print Assumptions cuckoo_union_err_then.
Print Assumptions Examples.insert_full_nonvacuous.
Print Assumptions Examples.union_err_nonvacuous.
