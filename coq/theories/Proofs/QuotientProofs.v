(* Proofs/QuotientProofs.v — Model/Quotient.v (src/filters/quotientfilter.rs).

   A. qf_split_spec / qf_split_bounds / qf_split_eq_iff   calc_quotient_remainder = div/mod of the low q+r bits
   B. qf_insert_{full,stuck,okf}_id, qf_union_{full,stuck}_id, qf_union_err_id
                                                          error paths return the state unchanged (C12), ALL widths
   E. setl_length, chain_shape, qf_insert_internal_shape, qf_union_shape, qf_reach_shape,
      qf_clear_init, qf_is_empty_iff                      shape preservation, clear = fresh filter, ALL widths
   C. check_all (a closed boolean: for EVERY set of at most 2^bq pairs, represented canonically as a bit
      mask over the universe, and EVERY pair: query, result of insert, the new state = the canonical state
      of the enlarged set, qcnt, decode) and the LIFTING theorems, parametric in (bq, br):
         check_all bq br = true ->  qf_exact_small, qf_exact_set, qf_history_independent,
                                    qf_reach_canonical, qf_reach_exact, qf_exact_keys, qf_exact_keys_set
   D.    check_all bq br = true ->  insert_all_small, qf_union_small, qf_union_comm / _idem / _assoc /
                                    _reach_total, qf_insert_result, and C01: qf_insert_then_query,
                                    qf_query_mono_insert, qf_query_mono_union, qf_no_false_negatives
   The evaluations of check_all (vm_compute) and the unconditional instances are in QuotientClosure.v;
   the remainder-renaming lemma (F) is in QuotientRename.v and its use to reach every bits_remainder
   for bits_quotient <= 2 in QuotientLift.v.
   All theorems are closed under the global context (Print Assumptions at the end of each file). *)
From PDS Require Import Model.Quotient.
From Coq Require Import Lia ZifyN ZifyBool FinFun Sorted.
Open Scope N_scope.

Arguments N.add : simpl never.
Arguments N.mul : simpl never.
Arguments N.sub : simpl never.
Arguments N.div : simpl never.
Arguments N.modulo : simpl never.
Arguments N.pow : simpl never.
Arguments N.ltb : simpl never.
Arguments N.leb : simpl never.
Arguments N.eqb : simpl never.
Arguments N.shiftl : simpl never.
Arguments N.shiftr : simpl never.

(* ========================================================================= *)
(** * A. calc_quotient_remainder = div/mod of the low q+r bits               *)
(* ========================================================================= *)

Lemma pow2_nz k : 2 ^ k <> 0.
Proof. apply N.pow_nonzero. discriminate. Qed.

Lemma mod_pow2_mod_pow2 a bq br : (a mod 2 ^ (bq + br)) mod 2 ^ br = a mod 2 ^ br.
Proof.
  rewrite (N.add_comm bq br), N.pow_add_r.
  rewrite (N.mod_mul_r a (2 ^ br) (2 ^ bq)) by apply pow2_nz.
  rewrite (N.mul_comm (2 ^ br)), N.mod_add by apply pow2_nz.
  apply N.mod_mod, pow2_nz.
Qed.

Lemma sub_div_mul_mod a b : b <> 0 -> a - a / b * b = a mod b.
Proof. intros Hb. rewrite (N.mod_eq a b Hb), (N.mul_comm b). reflexivity. Qed.

Theorem qf_split_spec bq br fp :
  0 < br -> 0 < bq -> bq + br <= 64 -> fp < 2 ^ 64 ->
  qf_split bq br fp = ((fp mod 2 ^ (bq + br)) / 2 ^ br, fp mod 2 ^ br).
Proof.
  intros Hbr Hbq Hsum Hfp. unfold qf_split.
  assert (Hclean : fp - (if 0 <? 64 - br - bq
                         then N.shiftl (N.shiftr fp (64 - (64 - br - bq))) (64 - (64 - br - bq))
                         else 0) = fp mod 2 ^ (bq + br)).
  { destruct (N.ltb_spec 0 (64 - br - bq)) as [Ht|Ht].
    - replace (64 - (64 - br - bq)) with (bq + br) by lia.
      rewrite N.shiftr_div_pow2, N.shiftl_mul_pow2.
      apply sub_div_mul_mod, pow2_nz.
    - assert (E : bq + br = 64) by lia. rewrite N.sub_0_r, E.
      symmetry. apply N.mod_small. exact Hfp. }
  cbv zeta. rewrite Hclean.
  rewrite N.shiftr_div_pow2, N.shiftl_mul_pow2.
  rewrite sub_div_mul_mod by apply pow2_nz.
  rewrite mod_pow2_mod_pow2. reflexivity.
Qed.

Corollary qf_split_bounds bq br fp :
  0 < br -> 0 < bq -> bq + br <= 64 -> fp < 2 ^ 64 ->
  fst (qf_split bq br fp) < 2 ^ bq /\ snd (qf_split bq br fp) < 2 ^ br.
Proof.
  intros Hbr Hbq Hsum Hfp. rewrite qf_split_spec by assumption. cbn [fst snd]. split.
  - apply N.div_lt_upper_bound; [apply pow2_nz|].
    rewrite <- N.pow_add_r, (N.add_comm br bq). apply N.mod_lt, pow2_nz.
  - apply N.mod_lt, pow2_nz.
Qed.

(* two fingerprints fall in the same (quotient, remainder) class iff they agree on the low q+r bits *)
Corollary qf_split_eq_iff bq br fp1 fp2 :
  0 < br -> 0 < bq -> bq + br <= 64 -> fp1 < 2 ^ 64 -> fp2 < 2 ^ 64 ->
  (qf_split bq br fp1 = qf_split bq br fp2 <-> fp1 mod 2 ^ (bq + br) = fp2 mod 2 ^ (bq + br)).
Proof.
  intros Hbr Hbq Hsum H1 H2. rewrite !qf_split_spec by assumption.
  rewrite <- (mod_pow2_mod_pow2 fp1 bq br), <- (mod_pow2_mod_pow2 fp2 bq br).
  split.
  - intros E. injection E as Eq Er.
    rewrite (N.div_mod (fp1 mod 2 ^ (bq + br)) (2 ^ br)) by apply pow2_nz.
    rewrite (N.div_mod (fp2 mod 2 ^ (bq + br)) (2 ^ br)) by apply pow2_nz.
    rewrite Eq, Er. reflexivity.
  - intros E. rewrite E. reflexivity.
Qed.

(* ========================================================================= *)
(** * B. error paths leave the state unchanged (C12), all widths            *)
(* ========================================================================= *)

Lemma qf_insert_internal_err_id n f s q r res s' :
  qf_insert_internal n f s q r = (res, s') -> res <> QOkT -> s' = s.
Proof.
  unfold qf_insert_internal.
  destruct (scan n f s q r true) as [[[pr pos] sor]|]; [|intros E; inversion E; auto].
  destruct pr; [intros E; inversion E; auto|].
  destruct (qcnt s =? n); [intros E; inversion E; auto|].
  cbv zeta.
  match goal with |- context [chain ?a ?b ?c ?d ?e ?g ?h ?i] => destruct (chain a b c d e g h i) end;
    intros E; inversion E; subst; congruence.
Qed.

Section ErrId.
Variable H : hashfn.
Lemma qf_insert_err_id s x res s' : qf_insert H s x = (res, s') -> res <> QOkT -> s' = s.
Proof. unfold qf_insert. destruct (qf_calc H s x) as [q r]. apply qf_insert_internal_err_id. Qed.
Theorem qf_insert_full_id s x s' : qf_insert H s x = (QFull, s') -> s' = s.
Proof. intros E. eapply qf_insert_err_id; [exact E|discriminate]. Qed.
Theorem qf_insert_stuck_id s x s' : qf_insert H s x = (QStuck, s') -> s' = s.
Proof. intros E. eapply qf_insert_err_id; [exact E|discriminate]. Qed.
Theorem qf_insert_okf_id s x s' : qf_insert H s x = (QOkF, s') -> s' = s.
Proof. intros E. eapply qf_insert_err_id; [exact E|discriminate]. Qed.
End ErrId.

Lemma qf_union_res a b res a' : qf_union a b = Some (res, a') -> res = QOkT \/ (res <> QOkT /\ a' = a).
Proof.
  unfold qf_union. destruct ((qbq a =? qbq b) && (qbr a =? qbr b)); [|discriminate].
  destruct (decode (qf_n b) (qf_fuel b) b) as [l|].
  - destruct (insert_all (qf_n a) (qf_fuel a) a l) as [[| | |] s1]; intros E; inversion E; subst; auto;
      right; split; auto; discriminate.
  - intros E; inversion E; subst. right; split; auto; discriminate.
Qed.
Theorem qf_union_err_id a b res a' : qf_union a b = Some (res, a') -> res <> QOkT -> a' = a.
Proof. intros E Hr. destruct (qf_union_res _ _ _ _ E) as [->|[_ ->]]; congruence. Qed.
Theorem qf_union_full_id a b a' : qf_union a b = Some (QFull, a') -> a' = a.
Proof. intros E. eapply qf_union_err_id; [exact E|discriminate]. Qed.
Theorem qf_union_stuck_id a b a' : qf_union a b = Some (QStuck, a') -> a' = a.
Proof. intros E. eapply qf_union_err_id; [exact E|discriminate]. Qed.
(* union never reports Ok(false) *)
Lemma qf_union_not_okf a b a' : qf_union a b <> Some (QOkF, a').
Proof.
  unfold qf_union. destruct ((qbq a =? qbq b) && (qbr a =? qbr b)); [|discriminate].
  destruct (decode (qf_n b) (qf_fuel b) b) as [l|]; [|discriminate].
  destruct (insert_all (qf_n a) (qf_fuel a) a l) as [[| | |] s1]; discriminate.
Qed.

(* ========================================================================= *)
(** * E. shape preservation; clear = fresh filter; is_empty                  *)
(* ========================================================================= *)

Lemma setl_length {A} (l : list A) i v : length (setl l i v) = length l.
Proof. revert i; induction l as [|x t IH]; intros i; cbn [setl]; auto.
  destruct (i =? 0); cbn [length]; auto. Qed.

Definition same_shape (s s' : qf) : Prop :=
  length (qocc s') = length (qocc s) /\ length (qcont s') = length (qcont s) /\
  length (qshf s') = length (qshf s) /\ length (qrem s') = length (qrem s) /\
  qbq s' = qbq s /\ qbr s' = qbr s.

Lemma same_shape_refl s : same_shape s s.
Proof. repeat split. Qed.
Lemma same_shape_trans a b c : same_shape a b -> same_shape b c -> same_shape a c.
Proof. unfold same_shape. intros (?&?&?&?&?&?) (?&?&?&?&?&?). repeat split; congruence. Qed.

Lemma chain_shape n fuel : forall s start pos cc cr cu s',
  chain n s start pos cc cr cu fuel = Some s' -> same_shape s s'.
Proof.
  induction fuel as [|f IH]; intros s start pos cc cr cu s'; cbn [chain]; [discriminate|].
  destruct (negb cu); [intros E; inversion E; apply same_shape_refl|].
  cbv zeta. destruct (qincr n pos =? start); [discriminate|].
  intros E. apply IH in E. eapply same_shape_trans; [|exact E].
  unfold same_shape, upd_qf; cbn [qocc qcont qshf qrem qbq qbr]. rewrite !setl_length. repeat split.
Qed.

Lemma qf_insert_internal_shape n f s q r : same_shape s (snd (qf_insert_internal n f s q r)).
Proof.
  unfold qf_insert_internal.
  destruct (scan n f s q r true) as [[[pr pos] sor]|]; [|apply same_shape_refl].
  destruct pr; [apply same_shape_refl|].
  destruct (qcnt s =? n); [apply same_shape_refl|].
  cbv zeta.
  match goal with |- context [chain ?a ?b ?c ?d ?e ?g ?h ?i] => destruct (chain a b c d e g h i) as [s2|] eqn:Ec end;
    [|apply same_shape_refl].
  apply chain_shape in Ec. cbn [snd].
  eapply same_shape_trans; [|eapply same_shape_trans; [exact Ec|]].
  - unfold same_shape, upd_qf; cbn [qocc qcont qshf qrem qbq qbr].
    repeat match goal with |- context [if ?b then _ else _] => destruct b end;
      rewrite ?setl_length; repeat split.
  - unfold same_shape, upd_qf; cbn [qocc qcont qshf qrem qbq qbr]. rewrite !setl_length. repeat split.
Qed.

Lemma insert_all_shape n f l : forall s, same_shape s (snd (insert_all n f s l)).
Proof.
  induction l as [|[q r] t IH]; intros s; cbn [insert_all snd]; [apply same_shape_refl|].
  pose proof (qf_insert_internal_shape n f s q r) as Hs.
  destruct (qf_insert_internal n f s q r) as [[| | |] s1]; cbn [snd] in *;
    try apply same_shape_refl; (eapply same_shape_trans; [exact Hs|apply IH]).
Qed.

Lemma qf_union_shape a b res a' : qf_union a b = Some (res, a') -> same_shape a a'.
Proof.
  unfold qf_union. destruct ((qbq a =? qbq b) && (qbr a =? qbr b)); [|discriminate].
  destruct (decode (qf_n b) (qf_fuel b) b) as [l|]; [|intros E; inversion E; apply same_shape_refl].
  pose proof (insert_all_shape (qf_n a) (qf_fuel a) l a) as Hs.
  destruct (insert_all (qf_n a) (qf_fuel a) a l) as [[| | |] s1]; cbn [snd] in Hs;
    intros E; inversion E; subst; auto using same_shape_refl.
Qed.

Lemma qf_insert_shape H s x : same_shape s (snd (qf_insert H s x)).
Proof. unfold qf_insert. destruct (qf_calc H s x) as [q r]. apply qf_insert_internal_shape. Qed.

Lemma qf_clear_of_shape bq br s0 s : qf_new bq br = Some s0 -> same_shape s0 s -> qf_clear s = s0.
Proof.
  intros E0 (Ho&_&_&Hm&Hq&Hb).
  unfold qf_new in E0.
  destruct ((0 <? br) && (br <=? 64) && (0 <? bq) && (br + bq <=? 64)); [|discriminate].
  inversion E0; subst s0; clear E0. cbn [qocc qrem qbq qbr] in *.
  rewrite repeat_length in Ho, Hm. unfold qf_clear. rewrite Ho, Hm, Hq, Hb. reflexivity.
Qed.

(* the states a program can build from [qf_new bq br] (one hash function, one width) *)
Inductive qf_reach (H : hashfn) (bq br : N) : qf -> Prop :=
| reach_new s0 : qf_new bq br = Some s0 -> qf_reach H bq br s0
| reach_insert s x : qf_reach H bq br s -> qf_reach H bq br (snd (qf_insert H s x))
| reach_union a b res a' : qf_reach H bq br a -> qf_reach H bq br b -> qf_union a b = Some (res, a') -> qf_reach H bq br a'
| reach_clear s : qf_reach H bq br s -> qf_reach H bq br (qf_clear s).

Lemma qf_reach_shape H bq br s0 s : qf_new bq br = Some s0 -> qf_reach H bq br s -> same_shape s0 s.
Proof.
  intros E0 Hr. induction Hr as [s1 E1|s x Hr IH|a b res a' Ha IHa Hb IHb Eu|s Hr IH].
  - rewrite E0 in E1. inversion E1. apply same_shape_refl.
  - eapply same_shape_trans; [exact IH|apply qf_insert_shape].
  - eapply same_shape_trans; [exact IHa|eapply qf_union_shape; exact Eu].
  - rewrite (qf_clear_of_shape bq br s0 s E0 IH). apply same_shape_refl.
Qed.

Theorem qf_clear_init H bq br s0 s : qf_new bq br = Some s0 -> qf_reach H bq br s -> qf_clear s = s0.
Proof. intros E0 Hr. eapply qf_clear_of_shape; [exact E0|eapply qf_reach_shape; eassumption]. Qed.

Theorem qf_is_empty_iff s : qf_is_empty s = true <-> qcnt s = 0.
Proof. unfold qf_is_empty. apply N.eqb_eq. Qed.
Theorem qf_is_empty_len s : qf_is_empty s = true <-> qf_len s = 0.
Proof. apply qf_is_empty_iff. Qed.

(* ========================================================================= *)
(** * C. finite closure check and its lifting to all histories               *)
(* ========================================================================= *)

(** ** boolean equality on states *)
Fixpoint lb_eqb (a b : list bool) : bool :=
  match a, b with [], [] => true | x :: a', y :: b' => Bool.eqb x y && lb_eqb a' b' | _, _ => false end.
Fixpoint ln_eqb (a b : list N) : bool :=
  match a, b with [], [] => true | x :: a', y :: b' => (x =? y) && ln_eqb a' b' | _, _ => false end.
Definition qf_eqb (a b : qf) : bool :=
  lb_eqb (qocc a) (qocc b) && lb_eqb (qcont a) (qcont b) && lb_eqb (qshf a) (qshf b) &&
  ln_eqb (qrem a) (qrem b) && (qcnt a =? qcnt b) && (qbq a =? qbq b) && (qbr a =? qbr b).
Definition res_eqb (a b : qres) : bool :=
  match a, b with QOkT, QOkT | QOkF, QOkF | QFull, QFull | QStuck, QStuck => true | _, _ => false end.

Lemma lb_eqb_eq a : forall b, lb_eqb a b = true <-> a = b.
Proof.
  induction a as [|x a IH]; intros [|y b]; cbn [lb_eqb]; split; try discriminate; auto.
  - intros E. apply andb_true_iff in E as [E1 E2]. apply eqb_prop in E1. apply IH in E2. congruence.
  - intros E. inversion E; subst. rewrite eqb_reflx. apply IH. reflexivity.
Qed.
Lemma ln_eqb_eq a : forall b, ln_eqb a b = true <-> a = b.
Proof.
  induction a as [|x a IH]; intros [|y b]; cbn [ln_eqb]; split; try discriminate; auto.
  - intros E. apply andb_true_iff in E as [E1 E2]. apply N.eqb_eq in E1. apply IH in E2. congruence.
  - intros E. inversion E; subst. rewrite N.eqb_refl. apply IH. reflexivity.
Qed.
Lemma qf_eqb_eq a b : qf_eqb a b = true <-> a = b.
Proof.
  split.
  - unfold qf_eqb. rewrite !andb_true_iff. intros [[[[[[E1 E2] E3] E4] E5] E6] E7].
    destruct a as [o1 c1 h1 r1 k1 q1 b1], b as [o2 c2 h2 r2 k2 q2 b2]; cbn [qocc qcont qshf qrem qcnt qbq qbr] in *.
    apply lb_eqb_eq in E1, E2, E3. apply ln_eqb_eq in E4. apply N.eqb_eq in E5, E6, E7. subst. reflexivity.
  - intros <-. unfold qf_eqb. rewrite !andb_true_iff. repeat split;
      try (apply lb_eqb_eq; reflexivity); try (apply ln_eqb_eq; reflexivity); apply N.eqb_refl.
Qed.
Lemma res_eqb_eq a b : res_eqb a b = true <-> a = b.
Proof. destruct a, b; cbn; split; congruence. Qed.

(** ** finite sets of fingerprint classes as bit masks over the universe *)
Fixpoint mcount (M : list bool) : nat :=
  match M with [] => O | b :: t => ((if b then 1 else 0) + mcount t)%nat end.
Fixpoint elems_from (i : N) (M : list bool) : list N :=
  match M with [] => [] | b :: t => if b then i :: elems_from (i + 1) t else elems_from (i + 1) t end.
(* all masks of length [len] with at most [k] bits set *)
Fixpoint masks (len k : nat) : list (list bool) :=
  match len with
  | O => [[]]
  | S l => map (cons false) (masks l k) ++ match k with O => [] | S k' => map (cons true) (masks l k') end
  end.
Fixpoint mor (A B : list bool) : list bool :=
  match A, B with a :: A', b :: B' => (a || b) :: mor A' B' | _, _ => [] end.

Lemma masks_In len : forall k M, length M = len -> (mcount M <= k)%nat -> In M (masks len k).
Proof.
  induction len as [|l IH]; intros k [|b M] HL HC; cbn [length] in HL; try discriminate.
  - left; reflexivity.
  - cbn [masks]. apply in_or_app. injection HL as HL. destruct b; cbn [mcount] in HC.
    + right. destruct k as [|k']; [lia|]. apply in_map. apply IH; [auto|lia].
    + left. apply in_map. apply IH; [auto|lia].
Qed.

Lemma getb_setl_same M : forall i v, (N.to_nat i < length M)%nat -> getb (setl M i v) i = v.
Proof.
  induction M as [|x t IH]; intros i v Hi; cbn [length] in Hi; [lia|]. cbn [setl].
  destruct (N.eqb_spec i 0) as [E|E]; cbn [getb].
  - subst. reflexivity.
  - destruct (N.eqb_spec i 0); [contradiction|]. apply IH. lia.
Qed.
Lemma getb_setl_other M : forall i j v, i <> j -> getb (setl M i v) j = getb M j.
Proof.
  induction M as [|x t IH]; intros i j v Hij; cbn [setl]; [reflexivity|].
  destruct (N.eqb_spec i 0) as [Ei|Ei]; cbn [getb]; destruct (N.eqb_spec j 0) as [Ej|Ej]; try reflexivity.
  - lia.
  - apply IH. lia.
Qed.
Lemma setl_getb_id M : forall i, setl M i (getb M i) = M.
Proof.
  induction M as [|x t IH]; intros i; cbn [setl getb]; [reflexivity|].
  destruct (N.eqb_spec i 0); [reflexivity|]. f_equal. apply IH.
Qed.
Lemma mcount_setl_new M : forall i, getb M i = false -> (N.to_nat i < length M)%nat ->
  mcount (setl M i true) = S (mcount M).
Proof.
  induction M as [|x t IH]; intros i Hg Hi; cbn [length] in Hi; [lia|]. cbn [setl getb] in *.
  destruct (N.eqb_spec i 0) as [E|E]; cbn [mcount].
  - subst x. reflexivity.
  - rewrite IH; [lia|auto|lia].
Qed.
Lemma mcount_setl_le M : forall i, (mcount M <= mcount (setl M i true))%nat.
Proof.
  induction M as [|x t IH]; intros i; cbn [setl]; [lia|].
  destruct (N.eqb_spec i 0) as [E|E]; cbn [mcount].
  - destruct x; lia.
  - specialize (IH (N.pred i)). lia.
Qed.
Lemma mcount_repeat_false m : mcount (repeat false m) = O.
Proof. induction m; cbn [repeat mcount]; auto. Qed.
Lemma elems_from_repeat_false m : forall i, elems_from i (repeat false m) = [].
Proof. induction m; intros i; cbn [repeat elems_from]; auto. Qed.

Lemma setl_mor A : forall B i, setl (mor A B) i true = mor A (setl B i true).
Proof.
  induction A as [|a A IH]; intros [|b B] i; cbn [mor setl]; try reflexivity.
  destruct (i =? 0); cbn [mor]; [rewrite orb_true_r; reflexivity|]. f_equal. apply IH.
Qed.
Lemma mor_repeat_false A : mor A (repeat false (length A)) = A.
Proof. induction A as [|a A IH]; cbn [length repeat mor]; [reflexivity|]. rewrite orb_false_r, IH. reflexivity. Qed.
Lemma mor_comm A : forall B, mor A B = mor B A.
Proof. induction A as [|a A IH]; intros [|b B]; cbn [mor]; try reflexivity. rewrite orb_comm, IH. reflexivity. Qed.
Lemma mor_assoc A : forall B C, mor (mor A B) C = mor A (mor B C).
Proof. induction A as [|a A IH]; intros [|b B] [|c C]; cbn [mor]; try reflexivity. rewrite orb_assoc, IH. reflexivity. Qed.
Lemma mor_idem A : mor A A = A.
Proof. induction A as [|a A IH]; cbn [mor]; [reflexivity|]. rewrite orb_diag, IH. reflexivity. Qed.
Lemma mor_length A : forall B, length A = length B -> length (mor A B) = length A.
Proof. induction A as [|a A IH]; intros [|b B] E; cbn [mor length] in *; try lia. rewrite IH; lia. Qed.
Lemma getb_mor A : forall B i, length A = length B -> getb (mor A B) i = getb A i || getb B i.
Proof.
  induction A as [|a A IH]; intros [|b B] i E; cbn [mor length getb] in *; try lia; try reflexivity.
  destruct (i =? 0); [reflexivity|]. apply IH. lia.
Qed.
Lemma mcount_mor_le A : forall B, length A = length B -> (mcount A <= mcount (mor A B))%nat.
Proof.
  induction A as [|a A IH]; intros [|b B] E; cbn [mor length mcount] in *; try lia.
  specialize (IH B). destruct a, b; cbn [orb]; lia.
Qed.

Lemma getb_true_lt M : forall i, getb M i = true -> (N.to_nat i < length M)%nat.
Proof.
  induction M as [|x t IH]; intros i; cbn [getb length]; [discriminate|].
  destruct (N.eqb_spec i 0); intros E; [lia|]. apply IH in E. lia.
Qed.
Lemma getb_repeat_false m : forall i, getb (repeat false m) i = false.
Proof. induction m; intros i; cbn [repeat getb]; [reflexivity|]. destruct (i =? 0); auto. Qed.
Lemma elems_from_In M : forall k i, In i (elems_from k M) <-> k <= i /\ getb M (i - k) = true.
Proof.
  induction M as [|b t IH]; intros k i; cbn [elems_from getb].
  - split; [intros []|intros [_ E]; discriminate].
  - assert (Ht : In i (elems_from (k + 1) t) <-> k + 1 <= i /\ getb t (N.pred (i - k)) = true).
    { rewrite IH. replace (i - (k + 1)) with (N.pred (i - k)) by lia. tauto. }
    destruct (N.eqb_spec (i - k) 0) as [E|E]; destruct b; cbn [In]; rewrite ?Ht;
      (split; [intros Hx|intros Hx]); try (split; [lia|]); try reflexivity; try tauto; try lia.
Qed.
Lemma elems_from_NoDup M : forall k, NoDup (elems_from k M).
Proof.
  induction M as [|b t IH]; intros k; cbn [elems_from]; [constructor|].
  destruct b; [|apply IH]. constructor; [|apply IH].
  rewrite elems_from_In. lia.
Qed.
Lemma elems_from_length M : forall k, length (elems_from k M) = mcount M.
Proof.
  induction M as [|b t IH]; intros k; cbn [elems_from mcount]; [reflexivity|].
  destruct b; cbn [length]; rewrite IH; reflexivity.
Qed.

Lemma getb_out M i : (length M <= N.to_nat i)%nat -> getb M i = false.
Proof. intros HL. destruct (getb M i) eqn:E; [|reflexivity]. apply getb_true_lt in E. lia. Qed.
Lemma mask_ext A : forall B, length A = length B -> (forall i, getb A i = getb B i) -> A = B.
Proof.
  induction A as [|a A IH]; intros [|b B] HL Hg; cbn [length] in HL; try discriminate; [reflexivity|].
  f_equal.
  - specialize (Hg 0). cbn [getb] in Hg. rewrite N.eqb_refl in Hg. exact Hg.
  - apply IH; [lia|]. intros i. specialize (Hg (i + 1)). cbn [getb] in Hg.
    destruct (N.eqb_spec (i + 1) 0); [lia|]. replace (N.pred (i + 1)) with i in Hg by lia. exact Hg.
Qed.
Lemma elems_from_sorted M : forall k, StronglySorted N.lt (elems_from k M).
Proof.
  induction M as [|b t IH]; intros k; cbn [elems_from]; [constructor|].
  destruct b; [|apply IH]. constructor; [apply IH|].
  apply Forall_forall. intros i Hi. apply elems_from_In in Hi. lia.
Qed.

Definition pair_dec (x y : N * N) : {x = y} + {x <> y}.
Proof. decide equality; apply N.eq_dec. Defined.

Section Closure.
Variables bq br : N.
Definition cn : N := 2 ^ bq.                       (* slots = capacity *)
Definition cR : N := 2 ^ br.                       (* remainders *)
Definition cU : N := cn * cR.                      (* size of the universe of (quotient, remainder) pairs *)
Definition cfuel : nat := S (S (N.to_nat cn)).     (* = qf_fuel *)
Definition qf_empty : qf :=
  let n := N.to_nat cn in
  {| qocc := repeat false n; qcont := repeat false n; qshf := repeat false n; qrem := repeat 0 n;
     qcnt := 0; qbq := bq; qbr := br |}.
(* pairs <-> positions in the mask *)
Definition dec (i : N) : N * N := (i / cR, i mod cR).
Definition enc (p : N * N) : N := fst p * cR + snd p.
Definition inUb (p : N * N) : bool := (fst p <? cn) && (snd p <? cR).
Definition inU (p : N * N) : Prop := fst p < cn /\ snd p < cR.
Definition ins (s : qf) (p : N * N) : qres * qf := qf_insert_internal cn cfuel s (fst p) (snd p).
Definition qry (s : qf) (p : N * N) : bool := qf_query_internal cn cfuel s (fst p) (snd p).
Definition madd (M : list bool) (p : N * N) : list bool := setl M (enc p) true.
Definition mmem (M : list bool) (p : N * N) : bool := getb M (enc p).
Definition mempty : list bool := repeat false (N.to_nat cU).
(* the members of a mask, in ascending (quotient, remainder) order *)
Definition elems (M : list bool) : list (N * N) := map dec (elems_from 0 M).
(* the canonical state of a set: insert its members in ascending order into the empty filter *)
Definition state_of (M : list bool) : qf := fold_left (fun s p => snd (ins s p)) (elems M) qf_empty.
Definition valid (M : list bool) : Prop := length M = N.to_nat cU /\ (mcount M <= N.to_nat cn)%nat.

(** ** the closure check (a closed boolean, evaluated by [vm_compute] in QuotientClosure.v) *)
Definition check_decode (M : list bool) (s : qf) : bool :=
  match decode cn cfuel s with
  | Some l => forallb inUb l && lb_eqb (fold_left madd l mempty) M
  | None => false
  end.
Definition check_elem (M : list bool) (s : qf) (i : N) : bool :=
  let p := dec i in
  let '(r, s') := ins s p in
  Bool.eqb (qry s p) (getb M i) &&
  (if getb M i then res_eqb r QOkF && qf_eqb s' s
   else if N.of_nat (mcount M) =? cn then res_eqb r QFull && qf_eqb s' s
   else res_eqb r QOkT && qf_eqb s' (state_of (setl M i true))).
Definition check_mask (M : list bool) : bool :=
  let s := state_of M in
  (qcnt s =? N.of_nat (mcount M)) && check_decode M s && forallb (check_elem M s) (Nseq 0 (N.to_nat cU)).
Definition check_all : bool := forallb check_mask (masks (N.to_nat cU) (N.to_nat cn)).

(** ** the specification: a set with capacity [cn] *)
Definition spec_step (M : list bool) (p : N * N) : qres * list bool :=
  if mmem M p then (QOkF, M) else if N.of_nat (mcount M) =? cn then (QFull, M) else (QOkT, madd M p).
Fixpoint spec_run (M : list bool) (xs : list (N * N)) : list qres * list bool :=
  match xs with
  | [] => ([], M)
  | p :: t => let '(r, M') := spec_step M p in let '(rs, M'') := spec_run M' t in (r :: rs, M'')
  end.
(* the filter run on the same history, Err(Full)/Stuck leaving the state as returned by the model *)
Fixpoint qf_run (s : qf) (xs : list (N * N)) : list qres * qf :=
  match xs with
  | [] => ([], s)
  | p :: t => let '(r, s') := ins s p in let '(rs, s'') := qf_run s' t in (r :: rs, s'')
  end.

(** ** arithmetic of the encoding *)
Lemma cR_nz : cR <> 0. Proof. apply pow2_nz. Qed.
Lemma cn_nz : cn <> 0. Proof. apply pow2_nz. Qed.
Lemma inUb_iff p : inUb p = true <-> inU p.
Proof. unfold inUb, inU. rewrite andb_true_iff, !N.ltb_lt. tauto. Qed.
Lemma enc_lt p : inU p -> enc p < cU.
Proof. unfold inU, enc, cU. intros [Hq Hr]. nia. Qed.
Lemma dec_enc p : inU p -> dec (enc p) = p.
Proof.
  unfold inU, enc, dec. destruct p as [q r]; cbn [fst snd]. intros [Hq Hr]. pose proof cR_nz as HR.
  rewrite N.div_add_l, N.div_small, N.add_0_r by assumption.
  rewrite N.add_comm, N.mod_add, N.mod_small by assumption. reflexivity.
Qed.
Lemma enc_dec i : enc (dec i) = i.
Proof. unfold enc, dec; cbn [fst snd]. pose proof cR_nz as HR. rewrite (N.div_mod i cR HR) at 3. lia. Qed.
Lemma dec_inU i : i < cU -> inU (dec i).
Proof.
  unfold inU, dec, cU; cbn [fst snd]. intros Hi. pose proof cR_nz as HR. split.
  - apply N.div_lt_upper_bound; [assumption|]. lia.
  - apply N.mod_lt. assumption.
Qed.
Lemma enc_inj p p' : inU p -> inU p' -> enc p = enc p' -> p = p'.
Proof. intros Hp Hp' E. rewrite <- (dec_enc p Hp), <- (dec_enc p' Hp'), E. reflexivity. Qed.

(** ** masks *)
Lemma valid_mempty : valid mempty.
Proof. unfold valid, mempty. rewrite repeat_length, mcount_repeat_false. split; lia. Qed.
Lemma state_of_mempty : state_of mempty = qf_empty.
Proof. unfold state_of, elems, mempty. rewrite elems_from_repeat_false. reflexivity. Qed.
Lemma mmem_madd_same M p : length M = N.to_nat cU -> inU p -> mmem (madd M p) p = true.
Proof. intros HL Hp. unfold mmem, madd. apply getb_setl_same. pose proof (enc_lt p Hp). lia. Qed.
Lemma mmem_madd_other M p p' : inU p -> inU p' -> p <> p' -> mmem (madd M p) p' = mmem M p'.
Proof. intros Hp Hp' Hne. unfold mmem, madd. apply getb_setl_other. intros E. apply Hne, enc_inj; auto. Qed.
Lemma mmem_madd M p p' : length M = N.to_nat cU -> inU p -> inU p' ->
  mmem (madd M p) p' = true <-> p = p' \/ mmem M p' = true.
Proof.
  intros HM Hp Hp'. destruct (N.eq_dec (enc p) (enc p')) as [E|E].
  - apply enc_inj in E; auto. subst p'. rewrite mmem_madd_same by auto. tauto.
  - rewrite mmem_madd_other; auto; [|congruence]. split; auto. intros [->|]; congruence.
Qed.
Lemma madd_mem_id M p : mmem M p = true -> madd M p = M.
Proof. unfold mmem, madd. intros E. rewrite <- E at 1. apply setl_getb_id. Qed.
Lemma madd_length M p : length (madd M p) = length M.
Proof. apply setl_length. Qed.
Lemma mcount_madd_new M p : valid M -> inU p -> mmem M p = false -> mcount (madd M p) = S (mcount M).
Proof. intros [HL _] Hp E. apply mcount_setl_new; auto. pose proof (enc_lt p Hp). lia. Qed.
Lemma fold_madd_mono l : forall M, (mcount M <= mcount (fold_left madd l M))%nat.
Proof.
  induction l as [|p t IH]; intros M; cbn [fold_left]; [lia|].
  specialize (IH (madd M p)). pose proof (mcount_setl_le M (enc p)). unfold madd in *. lia.
Qed.
Lemma fold_madd_length l : forall M, length (fold_left madd l M) = length M.
Proof. induction l as [|p t IH]; intros M; cbn [fold_left]; [reflexivity|]. rewrite IH. apply madd_length. Qed.
Lemma fold_madd_mor l : forall A B, fold_left madd l (mor A B) = mor A (fold_left madd l B).
Proof.
  induction l as [|p t IH]; intros A B; cbn [fold_left]; [reflexivity|].
  unfold madd at 2. rewrite setl_mor. apply IH.
Qed.
Lemma fold_madd_union l A : length A = N.to_nat cU ->
  fold_left madd l A = mor A (fold_left madd l mempty).
Proof. intros HL. rewrite <- fold_madd_mor. unfold mempty. rewrite <- HL, mor_repeat_false. reflexivity. Qed.

Lemma spec_step_valid M p : valid M -> inU p -> valid (snd (spec_step M p)).
Proof.
  intros HM Hp. unfold spec_step. destruct (mmem M p) eqn:Em; [exact HM|].
  destruct (N.eqb_spec (N.of_nat (mcount M)) cn) as [E|E]; [exact HM|]. cbn [snd].
  destruct HM as [HL HC]. split; [rewrite madd_length; exact HL|].
  rewrite mcount_madd_new by (auto; split; auto). lia.
Qed.
Lemma spec_run_valid xs : forall M, valid M -> Forall inU xs -> valid (snd (spec_run M xs)).
Proof.
  induction xs as [|p t IH]; intros M HM Hxs; cbn [spec_run]; [exact HM|].
  inversion Hxs as [|? ? Hp Ht]; subst.
  pose proof (spec_step_valid M p HM Hp) as HV.
  destruct (spec_step M p) as [r M']; cbn [snd] in HV.
  specialize (IH M' HV Ht). destruct (spec_run M' t) as [rs M'']. exact IH.
Qed.
Lemma spec_step_not_stuck M p : fst (spec_step M p) <> QStuck.
Proof. unfold spec_step. destruct (mmem M p); [discriminate|]. destruct (_ =? _); discriminate. Qed.
Lemma spec_run_not_stuck xs : forall M, ~ In QStuck (fst (spec_run M xs)).
Proof.
  induction xs as [|p t IH]; intros M; cbn [spec_run]; [intros []|].
  pose proof (spec_step_not_stuck M p) as Hs.
  destruct (spec_step M p) as [r M']; cbn [fst] in Hs. specialize (IH M').
  destruct (spec_run M' t) as [rs M'']. cbn [fst] in *. intros [E|Hin]; auto.
Qed.

(** ** the list view of a mask; histories that never overflow *)
Lemma dec_inj i j : dec i = dec j -> i = j.
Proof. intros E. rewrite <- (enc_dec i), <- (enc_dec j), E. reflexivity. Qed.
Lemma elems_NoDup M : NoDup (elems M).
Proof.
  unfold elems. apply FinFun.Injective_map_NoDup; [intros i j; apply dec_inj|apply elems_from_NoDup].
Qed.
Lemma elems_length M : length (elems M) = mcount M.
Proof. unfold elems. rewrite map_length. apply elems_from_length. Qed.
Lemma elems_In M p : length M = N.to_nat cU -> (In p (elems M) <-> inU p /\ mmem M p = true).
Proof.
  intros HL. unfold elems, mmem. rewrite in_map_iff. split.
  - intros (i & <- & Hi). apply elems_from_In in Hi as [_ Hg]. rewrite N.sub_0_r in Hg.
    pose proof (getb_true_lt M i Hg). rewrite enc_dec. split; auto. apply dec_inU. lia.
  - intros [Hp Hg]. exists (enc p). split; [apply dec_enc; auto|].
    apply elems_from_In. rewrite N.sub_0_r. split; [lia|auto].
Qed.
Lemma mmem_mempty p : mmem mempty p = false.
Proof. apply getb_repeat_false. Qed.

(* the set of all pairs of a history *)
Definition mset (xs : list (N * N)) : list bool := fold_left madd xs mempty.
Lemma mmem_fold_madd xs : forall M p, length M = N.to_nat cU -> Forall inU xs -> inU p ->
  (mmem (fold_left madd xs M) p = true <-> In p xs \/ mmem M p = true).
Proof.
  induction xs as [|a t IH]; intros M p HL Hxs Hp; cbn [fold_left In]; [tauto|].
  inversion Hxs as [|? ? Ha Ht]; subst.
  rewrite IH by (rewrite ?madd_length; auto). rewrite mmem_madd by auto. tauto.
Qed.
Lemma mmem_mset xs p : Forall inU xs -> inU p -> (mmem (mset xs) p = true <-> In p xs).
Proof.
  intros Hxs Hp. unfold mset. rewrite mmem_fold_madd; auto; [|apply valid_mempty].
  rewrite mmem_mempty. intuition discriminate.
Qed.
Lemma mset_length xs : length (mset xs) = N.to_nat cU.
Proof. unfold mset. rewrite fold_madd_length. apply valid_mempty. Qed.
Lemma mcount_mset xs : Forall inU xs -> mcount (mset xs) = length (nodup pair_dec xs).
Proof.
  intros Hxs. rewrite <- elems_length.
  assert (Hiff : forall p, In p (elems (mset xs)) <-> In p (nodup pair_dec xs)).
  { intros p. rewrite elems_In by apply mset_length. rewrite nodup_In. split.
    - intros [Hp Hm]. apply mmem_mset in Hm; auto.
    - intros Hin. assert (Hp : inU p) by (rewrite Forall_forall in Hxs; auto).
      split; auto. apply mmem_mset; auto. }
  apply Nat.le_antisymm; apply NoDup_incl_length.
  - apply elems_NoDup.
  - intros p. apply Hiff.
  - apply NoDup_nodup.
  - intros p. apply Hiff.
Qed.

(* [elems M] is the strictly ascending (lexicographic in (quotient, remainder)) list of the members *)
Lemma elems_sorted M : StronglySorted (fun p p' => enc p < enc p') (elems M).
Proof.
  unfold elems. generalize (elems_from_sorted M 0). generalize (elems_from 0 M) as l.
  induction 1 as [|i l HS IH HF]; cbn [map]; constructor; auto.
  apply Forall_map. eapply Forall_impl; [|exact HF]. intros j Hj. rewrite !enc_dec. exact Hj.
Qed.
Lemma mset_ext xs ys : Forall inU xs -> Forall inU ys -> (forall p, In p xs <-> In p ys) -> mset xs = mset ys.
Proof.
  intros Hx Hy Hiff. apply mask_ext; [rewrite !mset_length; reflexivity|]. intros i.
  destruct (N.ltb_spec i cU) as [Hi|Hi].
  - pose proof (dec_inU i Hi) as Hp. rewrite <- (enc_dec i).
    change (mmem (mset xs) (dec i) = mmem (mset ys) (dec i)).
    pose proof (mmem_mset xs _ Hx Hp) as H1. pose proof (mmem_mset ys _ Hy Hp) as H2.
    specialize (Hiff (dec i)).
    destruct (mmem (mset xs) (dec i)), (mmem (mset ys) (dec i)); auto.
    + symmetry. apply H2, Hiff, H1. reflexivity.
    + apply H1, Hiff, H2. reflexivity.
  - rewrite !getb_out; [reflexivity| |]; rewrite mset_length; lia.
Qed.

Lemma spec_run_no_full xs : forall M, valid M -> Forall inU xs ->
  (mcount (fold_left madd xs M) <= N.to_nat cn)%nat ->
  snd (spec_run M xs) = fold_left madd xs M /\
  (forall r, In r (fst (spec_run M xs)) -> r = QOkT \/ r = QOkF).
Proof.
  induction xs as [|p t IH]; intros M HM Hxs Hc; cbn [spec_run fold_left] in *.
  - split; [reflexivity|intros r []].
  - inversion Hxs as [|? ? Hp Ht]; subst.
    pose proof (spec_step_valid M p HM Hp) as HV. unfold spec_step in *.
    destruct (mmem M p) eqn:Em; cbn [snd] in HV.
    + rewrite (madd_mem_id M p Em) in *. specialize (IH M HM Ht Hc).
      destruct (spec_run M t) as [rs M'']. cbn [fst snd] in *. destruct IH as [IH1 IH2].
      split; [exact IH1|]. intros r [<-|Hr]; auto.
    + destruct (N.eqb_spec (N.of_nat (mcount M)) cn) as [E|E]; cbn [snd] in HV.
      * pose proof (fold_madd_mono t (madd M p)) as Hm.
        rewrite (mcount_madd_new M p HM Hp Em) in Hm. lia.
      * specialize (IH (madd M p) HV Ht Hc).
        destruct (spec_run (madd M p) t) as [rs M'']. cbn [fst snd] in *. destruct IH as [IH1 IH2].
        split; [exact IH1|]. intros r [<-|Hr]; auto.
Qed.

(** ** lifting: one successful evaluation of [check_all] covers every history *)
Section Lift.
Hypothesis Hck : check_all = true.

Lemma check_mask_valid M : valid M -> check_mask M = true.
Proof.
  intros [HL HC]. unfold check_all in Hck. rewrite forallb_forall in Hck. apply Hck, masks_In; auto.
Qed.

Lemma closure_cnt M : valid M -> qcnt (state_of M) = N.of_nat (mcount M).
Proof.
  intros HM. pose proof (check_mask_valid M HM) as Hc. unfold check_mask in Hc.
  cbv zeta in Hc. rewrite !andb_true_iff in Hc. destruct Hc as [[Hc _] _]. apply N.eqb_eq. exact Hc.
Qed.

Lemma closure_decode M : valid M ->
  exists l, decode cn cfuel (state_of M) = Some l /\ Forall inU l /\ fold_left madd l mempty = M.
Proof.
  intros HM. pose proof (check_mask_valid M HM) as Hc. unfold check_mask in Hc.
  cbv zeta in Hc. rewrite !andb_true_iff in Hc. destruct Hc as [[_ Hc] _]. unfold check_decode in Hc.
  destruct (decode cn cfuel (state_of M)) as [l|]; [|discriminate]. exists l.
  apply andb_true_iff in Hc as [H1 H2]. split; [reflexivity|]. split.
  - apply Forall_forall. intros p Hp. rewrite forallb_forall in H1. apply inUb_iff, H1, Hp.
  - apply lb_eqb_eq. exact H2.
Qed.

Lemma closure_step M p : valid M -> inU p ->
  qry (state_of M) p = mmem M p /\
  ins (state_of M) p = (fst (spec_step M p), state_of (snd (spec_step M p))).
Proof.
  intros HM Hp. pose proof (check_mask_valid M HM) as Hc. unfold check_mask in Hc.
  cbv zeta in Hc. rewrite !andb_true_iff in Hc. destruct Hc as [_ Hc].
  rewrite forallb_forall in Hc. specialize (Hc (enc p)).
  assert (Hin : In (enc p) (Nseq 0 (N.to_nat cU))).
  { apply Nseq_In. pose proof (enc_lt p Hp). lia. }
  specialize (Hc Hin). unfold check_elem in Hc. rewrite (dec_enc p Hp) in Hc. cbv zeta in Hc.
  unfold spec_step, mmem.
  destruct (ins (state_of M) p) as [r s'].
  apply andb_true_iff in Hc as [Hq Hc]. apply eqb_prop in Hq. split; [exact Hq|].
  destruct (getb M (enc p)).
  - apply andb_true_iff in Hc as [H1 H2]. apply res_eqb_eq in H1. apply qf_eqb_eq in H2. subst. reflexivity.
  - destruct (N.of_nat (mcount M) =? cn);
      apply andb_true_iff in Hc as [H1 H2]; apply res_eqb_eq in H1; apply qf_eqb_eq in H2; subst; reflexivity.
Qed.

Lemma qf_run_spec xs : forall M, valid M -> Forall inU xs ->
  qf_run (state_of M) xs = (fst (spec_run M xs), state_of (snd (spec_run M xs))).
Proof.
  induction xs as [|p t IH]; intros M HM Hxs; cbn [qf_run spec_run]; [reflexivity|].
  inversion Hxs as [|? ? Hp Ht]; subst.
  destruct (closure_step M p HM Hp) as [_ Hi]. rewrite Hi.
  pose proof (spec_step_valid M p HM Hp) as HV.
  destruct (spec_step M p) as [r M']; cbn [fst snd] in *.
  rewrite (IH M' HV Ht). destruct (spec_run M' t) as [rs M'']. reflexivity.
Qed.

(* C13 for the width (bq, br): exact set semantics after EVERY insertion history *)
Theorem qf_exact_small (xs : list (N * N)) : Forall inU xs ->
  let M := snd (spec_run mempty xs) in
  let s := snd (qf_run qf_empty xs) in
  fst (qf_run qf_empty xs) = fst (spec_run mempty xs) /\
  ~ In QStuck (fst (qf_run qf_empty xs)) /\
  s = state_of M /\ valid M /\
  qcnt s = N.of_nat (mcount M) /\
  (forall p, inU p -> qry s p = mmem M p) /\
  (forall p, inU p -> ins s p = (fst (spec_step M p), state_of (snd (spec_step M p)))).
Proof.
  intros Hxs M s. subst M s.
  pose proof (qf_run_spec xs mempty valid_mempty Hxs) as Hr. rewrite state_of_mempty in Hr.
  pose proof (spec_run_valid xs mempty valid_mempty Hxs) as HV.
  rewrite Hr. cbn [fst snd].
  split; [reflexivity|]. split; [apply spec_run_not_stuck|]. split; [reflexivity|]. split; [exact HV|].
  split; [apply closure_cnt; exact HV|]. split; intros p Hp; apply closure_step; auto.
Qed.

(** * D. union *)
Lemma insert_all_spec l : forall M, valid M -> Forall inU l ->
  ((mcount (fold_left madd l M) <= N.to_nat cn)%nat ->
     insert_all cn cfuel (state_of M) l = (QOkT, state_of (fold_left madd l M))) /\
  ((N.to_nat cn < mcount (fold_left madd l M))%nat ->
     fst (insert_all cn cfuel (state_of M) l) = QFull).
Proof.
  induction l as [|[q r] t IH]; intros M HM Hl; cbn [insert_all fold_left].
  - split; [reflexivity|]. destruct HM as [_ HC]. lia.
  - inversion Hl as [|? ? Hp Ht]; subst.
    destruct (closure_step M (q, r) HM Hp) as [_ Hi]. unfold ins in Hi; cbn [fst snd] in Hi. rewrite Hi.
    pose proof (spec_step_valid M (q, r) HM Hp) as HV.
    unfold spec_step in *. destruct (mmem M (q, r)) eqn:Em; cbn [fst snd] in *.
    + rewrite (madd_mem_id M (q, r) Em). apply IH; auto.
    + destruct (N.eqb_spec (N.of_nat (mcount M)) cn) as [E|E]; cbn [fst snd] in *.
      * pose proof (fold_madd_mono t (madd M (q, r))) as Hm.
        rewrite (mcount_madd_new M (q, r) HM Hp Em) in Hm. split; [lia|reflexivity].
      * apply IH; auto.
Qed.

Theorem insert_all_small M l : valid M -> Forall inU l ->
  let M' := fold_left madd l M in
  if (mcount M' <=? N.to_nat cn)%nat
  then insert_all cn cfuel (state_of M) l = (QOkT, state_of M')
  else fst (insert_all cn cfuel (state_of M) l) = QFull.
Proof.
  intros HM Hl M'. destruct (insert_all_spec l M HM Hl) as [H1 H2].
  destruct (Nat.leb_spec (mcount M') (N.to_nat cn)); auto.
Qed.

Lemma fold_ins_shape l : forall s, same_shape s (fold_left (fun s p => snd (ins s p)) l s).
Proof.
  induction l as [|p t IH]; intros s; cbn [fold_left]; [apply same_shape_refl|].
  eapply same_shape_trans; [|apply IH]. apply qf_insert_internal_shape.
Qed.
Lemma state_of_shape M : same_shape qf_empty (state_of M).
Proof. apply fold_ins_shape. Qed.
Lemma state_of_bq M : qbq (state_of M) = bq.
Proof. pose proof (state_of_shape M) as (_&_&_&_&Hq&_). exact Hq. Qed.
Lemma state_of_br M : qbr (state_of M) = br.
Proof. pose proof (state_of_shape M) as (_&_&_&_&_&Hr). exact Hr. Qed.
Lemma state_of_n M : qf_n (state_of M) = cn.
Proof. unfold qf_n. rewrite state_of_bq. reflexivity. Qed.
Lemma state_of_fuel M : qf_fuel (state_of M) = cfuel.
Proof. unfold qf_fuel. rewrite state_of_n. reflexivity. Qed.

Theorem qf_union_small A B : valid A -> valid B ->
  qf_union (state_of A) (state_of B) =
  Some (if (mcount (mor A B) <=? N.to_nat cn)%nat then (QOkT, state_of (mor A B)) else (QFull, state_of A)).
Proof.
  intros HA HB. unfold qf_union.
  rewrite !state_of_bq, !state_of_br, !N.eqb_refl, !state_of_n, !state_of_fuel. cbn [andb].
  destruct (closure_decode B HB) as (l & Hd & Hl & Hf). rewrite Hd.
  pose proof (insert_all_small A l HA Hl) as Hi. cbv zeta in Hi.
  rewrite (fold_madd_union l A (proj1 HA)), Hf in Hi.
  destruct (Nat.leb_spec (mcount (mor A B)) (N.to_nat cn)).
  - rewrite Hi. reflexivity.
  - destruct (insert_all cn cfuel (state_of A) l) as [r s1]. cbn [fst] in Hi. subst r. reflexivity.
Qed.

(* headline form of C13: as long as at most 2^bq distinct pairs were offered, the filter IS the set *)
Theorem qf_exact_set (xs : list (N * N)) :
  Forall inU xs -> (length (nodup pair_dec xs) <= N.to_nat cn)%nat ->
  let rs := fst (qf_run qf_empty xs) in
  let s := snd (qf_run qf_empty xs) in
  (forall p, inU p -> (qry s p = true <-> In p xs)) /\
  qcnt s = N.of_nat (length (nodup pair_dec xs)) /\
  (forall r, In r rs -> r = QOkT \/ r = QOkF).
Proof.
  intros Hxs Hlen rs s. subst rs s.
  destruct (qf_exact_small xs Hxs) as (Hres & _ & Hs & HV & Hc & Hq & _). cbv zeta in *.
  rewrite <- (mcount_mset xs Hxs) in *.
  destruct (spec_run_no_full xs mempty valid_mempty Hxs Hlen) as [HM Hok]. fold (mset xs) in HM.
  rewrite HM in *. split; [|split].
  - intros p Hp. rewrite Hq by auto. apply mmem_mset; auto.
  - exact Hc.
  - rewrite Hres. exact Hok.
Qed.

(* history independence: the final state depends only on the SET of pairs inserted *)
Lemma qf_run_final xs : Forall inU xs -> (mcount (mset xs) <= N.to_nat cn)%nat ->
  snd (qf_run qf_empty xs) = state_of (mset xs).
Proof.
  intros Hxs Hc. destruct (qf_exact_small xs Hxs) as (_ & _ & Hs & _). cbv zeta in Hs. rewrite Hs.
  destruct (spec_run_no_full xs mempty valid_mempty Hxs Hc) as [-> _]. reflexivity.
Qed.
Theorem qf_history_independent xs ys : Forall inU xs -> Forall inU ys ->
  (forall p, In p xs <-> In p ys) -> (length (nodup pair_dec xs) <= N.to_nat cn)%nat ->
  snd (qf_run qf_empty xs) = snd (qf_run qf_empty ys).
Proof.
  intros Hx Hy Hiff Hlen. rewrite <- (mcount_mset xs Hx) in Hlen.
  pose proof (mset_ext xs ys Hx Hy Hiff) as E.
  rewrite (qf_run_final xs Hx Hlen). rewrite E in Hlen. rewrite (qf_run_final ys Hy Hlen), E. reflexivity.
Qed.

(** ** the same at the level of the public operations (hashing + calc_quotient_remainder) *)
Definition widths_ok : Prop := 0 < br /\ 0 < bq /\ bq + br <= 64.
Definition hash64 (H : hashfn) : Prop := forall a b, H a b < 2 ^ 64.
Definition key_pair (H : hashfn) (x : N) : N * N := qf_split bq br (H None (Some x)).

Lemma key_pair_inU H x : widths_ok -> hash64 H -> inU (key_pair H x).
Proof. intros (Hr & Hq & Hs) Hh. apply qf_split_bounds; auto. Qed.
Lemma qf_new_empty : widths_ok -> qf_new bq br = Some qf_empty.
Proof.
  intros (Hr & Hq & Hs). unfold qf_new.
  destruct (N.ltb_spec 0 br); [|lia]. destruct (N.leb_spec br 64); [|lia].
  destruct (N.ltb_spec 0 bq); [|lia]. destruct (N.leb_spec (br + bq) 64); [|lia]. reflexivity.
Qed.
Lemma qf_insert_state_of H M x : qf_insert H (state_of M) x = ins (state_of M) (key_pair H x).
Proof.
  unfold qf_insert, qf_calc, key_pair, ins.
  rewrite state_of_bq, state_of_br, state_of_n, state_of_fuel.
  destruct (qf_split bq br (H None (Some x))) as [q r]. reflexivity.
Qed.
Lemma qf_query_state_of H M x : qf_query H (state_of M) x = qry (state_of M) (key_pair H x).
Proof.
  unfold qf_query, qf_calc, key_pair, qry.
  rewrite state_of_bq, state_of_br, state_of_n, state_of_fuel.
  destruct (qf_split bq br (H None (Some x))) as [q r]. reflexivity.
Qed.

(* every state a program can reach is the canonical state of a set of at most 2^bq pairs *)
Theorem qf_reach_canonical H s : widths_ok -> hash64 H -> qf_reach H bq br s ->
  exists M, valid M /\ s = state_of M.
Proof.
  intros Hw Hh Hr. induction Hr as [s1 E1|s x Hr IH|a b res a' Ha IHa Hb IHb Eu|s Hr IH].
  - exists mempty. split; [apply valid_mempty|]. rewrite state_of_mempty.
    rewrite (qf_new_empty Hw) in E1. congruence.
  - destruct IH as (M & HM & ->). exists (snd (spec_step M (key_pair H x))).
    pose proof (key_pair_inU H x Hw Hh) as Hp. split; [apply spec_step_valid; auto|].
    rewrite qf_insert_state_of. destruct (closure_step M _ HM Hp) as [_ ->]. reflexivity.
  - destruct IHa as (A & HA & ->), IHb as (B & HB & ->).
    rewrite (qf_union_small A B HA HB) in Eu.
    destruct (Nat.leb_spec (mcount (mor A B)) (N.to_nat cn)); inversion Eu; subst.
    + exists (mor A B). split; [|reflexivity]. split; [|assumption].
      rewrite mor_length; destruct HA, HB; congruence.
    + exists A. auto.
  - exists mempty. split; [apply valid_mempty|]. rewrite state_of_mempty.
    eapply qf_clear_init; [apply qf_new_empty; auto|exact Hr].
Qed.

(* C13 on reachable states: the abstract set M determines query, len and the result of insert *)
Theorem qf_reach_exact H s : widths_ok -> hash64 H -> qf_reach H bq br s ->
  exists M, valid M /\ s = state_of M /\
    qf_len s = N.of_nat (mcount M) /\
    (forall x, qf_query H s x = mmem M (key_pair H x)) /\
    (forall x, qf_insert H s x =
               (fst (spec_step M (key_pair H x)), state_of (snd (spec_step M (key_pair H x))))) /\
    (forall x, fst (qf_insert H s x) <> QStuck).
Proof.
  intros Hw Hh Hr. destruct (qf_reach_canonical H s Hw Hh Hr) as (M & HM & ->).
  exists M. split; [exact HM|]. split; [reflexivity|]. split; [apply closure_cnt; exact HM|].
  assert (Hi : forall x, qf_insert H (state_of M) x =
               (fst (spec_step M (key_pair H x)), state_of (snd (spec_step M (key_pair H x))))).
  { intros x. rewrite qf_insert_state_of. apply closure_step; auto using key_pair_inU. }
  split; [|split].
  - intros x. rewrite qf_query_state_of. apply closure_step; auto using key_pair_inU.
  - exact Hi.
  - intros x. rewrite Hi. cbn [fst]. apply spec_step_not_stuck.
Qed.

(* insertion histories of keys *)
Fixpoint qf_run_keys (H : hashfn) (s : qf) (ks : list N) : list qres * qf :=
  match ks with
  | [] => ([], s)
  | x :: t => let '(r, s') := qf_insert H s x in let '(rs, s'') := qf_run_keys H s' t in (r :: rs, s'')
  end.
Lemma qf_run_keys_spec H ks : widths_ok -> hash64 H -> forall M, valid M ->
  qf_run_keys H (state_of M) ks = qf_run (state_of M) (map (key_pair H) ks).
Proof.
  intros Hw Hh. induction ks as [|x t IH]; intros M HM; cbn [qf_run_keys qf_run map]; [reflexivity|].
  rewrite qf_insert_state_of.
  pose proof (key_pair_inU H x Hw Hh) as Hp.
  destruct (closure_step M _ HM Hp) as [_ ->].
  rewrite (IH _ (spec_step_valid M _ HM Hp)). reflexivity.
Qed.
Theorem qf_exact_keys H (ks : list N) : widths_ok -> hash64 H ->
  let ps := map (key_pair H) ks in
  qf_run_keys H qf_empty ks = (fst (spec_run mempty ps), state_of (snd (spec_run mempty ps))).
Proof.
  intros Hw Hh ps. rewrite <- state_of_mempty, (qf_run_keys_spec H ks Hw Hh mempty valid_mempty).
  apply qf_run_spec; [apply valid_mempty|].
  apply Forall_forall. intros p Hp. apply in_map_iff in Hp as (x & <- & _). apply key_pair_inU; auto.
Qed.

(* the same in terms of keys: query = "some inserted key has the same (quotient, remainder)" *)
Theorem qf_exact_keys_set H (ks : list N) : widths_ok -> hash64 H ->
  let ps := map (key_pair H) ks in
  (length (nodup pair_dec ps) <= N.to_nat cn)%nat ->
  let s := snd (qf_run_keys H qf_empty ks) in
  (forall x, qf_query H s x = true <-> In (key_pair H x) ps) /\
  qf_len s = N.of_nat (length (nodup pair_dec ps)) /\
  (forall r, In r (fst (qf_run_keys H qf_empty ks)) -> r = QOkT \/ r = QOkF).
Proof.
  intros Hw Hh ps Hlen s. subst s.
  assert (Hps : Forall inU ps).
  { apply Forall_forall. intros p Hp. apply in_map_iff in Hp as (x & <- & _). apply key_pair_inU; auto. }
  destruct (qf_exact_set ps Hps Hlen) as (Hq & Hc & Hr).
  destruct (qf_exact_small ps Hps) as (_ & _ & Hs & _). cbv zeta in *.
  assert (Hk : qf_run_keys H qf_empty ks = qf_run qf_empty ps).
  { rewrite <- state_of_mempty. apply (qf_run_keys_spec H ks Hw Hh mempty valid_mempty). }
  rewrite Hk. split; [|split; [exact Hc|exact Hr]].
  intros x. rewrite Hs, qf_query_state_of, <- Hs. apply Hq. apply key_pair_inU; auto.
Qed.

(** ** D (continued): algebra of union on reachable states *)
Lemma qf_union_ok_inv A B s : valid A -> valid B ->
  qf_union (state_of A) (state_of B) = Some (QOkT, s) ->
  (mcount (mor A B) <= N.to_nat cn)%nat /\ s = state_of (mor A B).
Proof.
  intros HA HB. rewrite (qf_union_small A B HA HB).
  destruct (Nat.leb_spec (mcount (mor A B)) (N.to_nat cn)); intros E; inversion E; auto.
Qed.
Lemma qf_union_ok_intro A B : valid A -> valid B -> (mcount (mor A B) <= N.to_nat cn)%nat ->
  qf_union (state_of A) (state_of B) = Some (QOkT, state_of (mor A B)).
Proof.
  intros HA HB Hc. rewrite (qf_union_small A B HA HB).
  destruct (Nat.leb_spec (mcount (mor A B)) (N.to_nat cn)); [reflexivity|lia].
Qed.
Lemma valid_mor A B : valid A -> valid B -> (mcount (mor A B) <= N.to_nat cn)%nat -> valid (mor A B).
Proof. intros [HA _] [HB _] Hc. split; [|exact Hc]. rewrite mor_length; congruence. Qed.

Section ReachUnion.
Variable H : hashfn.
Hypothesis Hw : widths_ok.
Hypothesis Hh : hash64 H.

Theorem qf_union_comm a b s : qf_reach H bq br a -> qf_reach H bq br b ->
  qf_union a b = Some (QOkT, s) -> qf_union b a = Some (QOkT, s).
Proof.
  intros Ra Rb E.
  destruct (qf_reach_canonical H a Hw Hh Ra) as (A & HA & ->).
  destruct (qf_reach_canonical H b Hw Hh Rb) as (B & HB & ->).
  apply qf_union_ok_inv in E as [Hc ->]; auto.
  rewrite (mor_comm A B) in *. apply qf_union_ok_intro; auto.
Qed.
Theorem qf_union_idem a : qf_reach H bq br a -> qf_union a a = Some (QOkT, a).
Proof.
  intros Ra. destruct (qf_reach_canonical H a Hw Hh Ra) as (A & HA & ->).
  rewrite <- (mor_idem A) at 3. apply qf_union_ok_intro; auto. rewrite mor_idem. apply HA.
Qed.
Theorem qf_union_assoc a b c ab bc s :
  qf_reach H bq br a -> qf_reach H bq br b -> qf_reach H bq br c ->
  qf_union a b = Some (QOkT, ab) -> qf_union b c = Some (QOkT, bc) ->
  (qf_union ab c = Some (QOkT, s) <-> qf_union a bc = Some (QOkT, s)).
Proof.
  intros Ra Rb Rc Eab Ebc.
  destruct (qf_reach_canonical H a Hw Hh Ra) as (A & HA & ->).
  destruct (qf_reach_canonical H b Hw Hh Rb) as (B & HB & ->).
  destruct (qf_reach_canonical H c Hw Hh Rc) as (C & HC & ->).
  apply qf_union_ok_inv in Eab as [Hab ->]; auto.
  apply qf_union_ok_inv in Ebc as [Hbc ->]; auto.
  pose proof (valid_mor A B HA HB Hab) as HAB. pose proof (valid_mor B C HB HC Hbc) as HBC.
  split; intros E; apply qf_union_ok_inv in E as [Hc ->]; auto.
  - rewrite mor_assoc in *. apply qf_union_ok_intro; auto.
  - rewrite <- mor_assoc in *. apply qf_union_ok_intro; auto.
Qed.
(* union fails exactly when the union of the two sets does not fit; never Stuck *)
Theorem qf_union_reach_total a b : qf_reach H bq br a -> qf_reach H bq br b ->
  exists s, qf_union a b = Some (QOkT, s) \/ (qf_union a b = Some (QFull, a)).
Proof.
  intros Ra Rb.
  destruct (qf_reach_canonical H a Hw Hh Ra) as (A & HA & ->).
  destruct (qf_reach_canonical H b Hw Hh Rb) as (B & HB & ->).
  rewrite (qf_union_small A B HA HB). exists (state_of (mor A B)).
  destruct (Nat.leb_spec (mcount (mor A B)) (N.to_nat cn)); auto.
Qed.

(* the result of insert, spelled out: Ok(false) iff known; Err(Full) iff new and len = 2^bq; else Ok(true) *)
Theorem qf_insert_result s x : qf_reach H bq br s ->
  fst (qf_insert H s x) = (if qf_query H s x then QOkF else if qf_len s =? cn then QFull else QOkT) /\
  qf_len s <= cn.
Proof.
  intros Rs. destruct (qf_reach_exact H s Hw Hh Rs) as (M & HM & -> & Hl & Hq & Hi & _).
  rewrite Hi, Hq, Hl. cbn [fst]. unfold spec_step. split.
  - destruct (mmem M (key_pair H x)); [reflexivity|].
    destruct (N.of_nat (mcount M) =? cn); reflexivity.
  - destruct HM as [_ HC]. lia.
Qed.

(** ** C01: no false negatives, forever (until clear) *)
Theorem qf_insert_then_query s x : qf_reach H bq br s ->
  fst (qf_insert H s x) = QOkT \/ fst (qf_insert H s x) = QOkF ->
  qf_query H (snd (qf_insert H s x)) x = true.
Proof.
  intros Rs Hres. destruct (qf_reach_exact H s Hw Hh Rs) as (M & HM & -> & _ & _ & Hi & _).
  rewrite Hi in *. cbn [fst snd] in *. pose proof (key_pair_inU H x Hw Hh) as Hp.
  rewrite qf_query_state_of.
  destruct (closure_step _ (key_pair H x) (spec_step_valid M _ HM Hp) Hp) as [-> _].
  unfold spec_step in *. destruct (mmem M (key_pair H x)) eqn:Em; cbn [fst snd] in *; [exact Em|].
  destruct (N.of_nat (mcount M) =? cn); cbn [fst snd] in *; [destruct Hres; discriminate|].
  apply mmem_madd_same; [apply HM|exact Hp].
Qed.
Theorem qf_query_mono_insert s x y : qf_reach H bq br s ->
  qf_query H s x = true -> qf_query H (snd (qf_insert H s y)) x = true.
Proof.
  intros Rs. destruct (qf_reach_exact H s Hw Hh Rs) as (M & HM & -> & _ & _ & Hi & _).
  rewrite Hi. cbn [snd]. pose proof (key_pair_inU H x Hw Hh) as Hx. pose proof (key_pair_inU H y Hw Hh) as Hy.
  rewrite !qf_query_state_of.
  destruct (closure_step M _ HM Hx) as [-> _].
  destruct (closure_step _ (key_pair H x) (spec_step_valid M _ HM Hy) Hx) as [-> _].
  unfold spec_step. destruct (mmem M (key_pair H y)); cbn [snd]; auto.
  destruct (N.of_nat (mcount M) =? cn); cbn [snd]; auto.
  intros Em. apply mmem_madd; auto. apply HM.
Qed.
Theorem qf_query_mono_union a b res a' x : qf_reach H bq br a -> qf_reach H bq br b ->
  qf_union a b = Some (res, a') ->
  (qf_query H a x = true -> qf_query H a' x = true) /\
  (res = QOkT -> qf_query H b x = true -> qf_query H a' x = true).
Proof.
  intros Ra Rb.
  destruct (qf_reach_canonical H a Hw Hh Ra) as (A & HA & ->).
  destruct (qf_reach_canonical H b Hw Hh Rb) as (B & HB & ->).
  rewrite (qf_union_small A B HA HB). pose proof (key_pair_inU H x Hw Hh) as Hx.
  destruct (Nat.leb_spec (mcount (mor A B)) (N.to_nat cn)) as [Hc|Hc]; intros E; inversion E; subst.
  - rewrite !qf_query_state_of.
    destruct (closure_step A _ HA Hx) as [-> _]. destruct (closure_step B _ HB Hx) as [-> _].
    destruct (closure_step _ _ (valid_mor A B HA HB Hc) Hx) as [-> _].
    unfold mmem. rewrite getb_mor by (destruct HA, HB; congruence).
    split; [intros ->; reflexivity|intros _ ->; apply orb_true_r].
  - split; [auto|discriminate].
Qed.

(* everything obtainable from [s] by further inserts and unions (successful or not) *)
Inductive qf_grow : qf -> qf -> Prop :=
| grow_refl s : qf_grow s s
| grow_insert s s' y : qf_grow s s' -> qf_grow s (snd (qf_insert H s' y))
| grow_union s s' b res s'' : qf_grow s s' -> qf_reach H bq br b -> qf_union s' b = Some (res, s'') -> qf_grow s s''.

Lemma qf_grow_reach s s' : qf_reach H bq br s -> qf_grow s s' -> qf_reach H bq br s'.
Proof.
  intros Rs Hg. induction Hg as [s|s s' y Hg IH|s s' b res s'' Hg IH Rb Eu]; auto.
  - apply reach_insert. auto.
  - eapply reach_union; [apply IH; auto|exact Rb|exact Eu].
Qed.
Theorem qf_no_false_negatives s s' x : qf_reach H bq br s -> qf_grow s s' ->
  qf_query H s x = true -> qf_query H s' x = true.
Proof.
  intros Rs Hg Hq. induction Hg as [s|s s' y Hg IH|s s' b res s'' Hg IH Rb Eu]; auto.
  - apply qf_query_mono_insert; [eapply qf_grow_reach; eauto|auto].
  - destruct (qf_query_mono_union s' b res s'' x (qf_grow_reach s s' Rs Hg) Rb Eu) as [Hm _]. auto.
Qed.
End ReachUnion.
End Lift.
End Closure.

(* ========================================================================= *)
(** * Non-vacuity and assumptions                                            *)
(* ========================================================================= *)
Definition idH : hashfn := fun _ v => match v with Some x => x mod 2 ^ 64 | None => 0 end.
Lemma idH_hash64 : hash64 idH.
Proof. intros a [x|]; cbn; [apply N.mod_lt; discriminate|reflexivity]. Qed.

Example qf_split_example : qf_split 5 7 16045690984503098046 = (21, 62).
Proof. vm_compute. reflexivity. Qed.
Example qf_split_example_spec :
  ((16045690984503098046 mod 2 ^ (5 + 7)) / 2 ^ 7, 16045690984503098046 mod 2 ^ 7) = (21, 62).
Proof. vm_compute. reflexivity. Qed.
(* bits_trash = 0 *)
Example qf_split_example_64 : qf_split 32 32 16045690984503098046 = (3735928559, 3405691582).
Proof. vm_compute. reflexivity. Qed.

(* a full width-(1,1) filter: the third distinct fingerprint class is refused and the state is kept *)
Definition full_1_1 : qf := snd (qf_insert idH (snd (qf_insert idH (qf_empty 1 1) 0)) 1).
Example full_1_1_reach : qf_reach idH 1 1 full_1_1.
Proof. apply reach_insert, reach_insert, reach_new. reflexivity. Qed.
Example full_1_1_full : qf_insert idH full_1_1 2 = (QFull, full_1_1).
Proof. vm_compute. reflexivity. Qed.
Example full_1_1_okf : qf_insert idH full_1_1 5 = (QOkF, full_1_1).   (* 5 mod 4 = 1: same class as key 1 *)
Proof. vm_compute. reflexivity. Qed.
Example full_1_1_union_full : qf_union (snd (qf_insert idH (qf_empty 1 1) 0)) (snd (qf_insert idH full_1_1 2))
                              = Some (QOkT, full_1_1).
Proof. vm_compute. reflexivity. Qed.
Example union_full_example :
  qf_union full_1_1 (snd (qf_insert idH (qf_empty 1 1) 2)) = Some (QFull, full_1_1).
Proof. vm_compute. reflexivity. Qed.
Example clear_example : qf_clear full_1_1 = qf_empty 1 1.
Proof. vm_compute. reflexivity. Qed.
Example valid_example : valid 2 2 (madd 2 (madd 2 (mempty 2 2) (3, 1)) (0, 2)) /\
  elems 2 (madd 2 (madd 2 (mempty 2 2) (3, 1)) (0, 2)) = [(0, 2); (3, 1)].
Proof. split; [split; vm_compute; [reflexivity|lia]|vm_compute; reflexivity]. Qed.

Print Assumptions qf_split_spec.
Print Assumptions qf_split_bounds.
Print Assumptions qf_split_eq_iff.
Print Assumptions qf_insert_full_id.
Print Assumptions qf_insert_stuck_id.
Print Assumptions qf_insert_okf_id.
Print Assumptions qf_union_full_id.
Print Assumptions qf_union_stuck_id.
Print Assumptions qf_clear_init.
Print Assumptions qf_is_empty_iff.
Print Assumptions qf_exact_small.
Print Assumptions qf_exact_set.
Print Assumptions qf_history_independent.
Print Assumptions qf_reach_canonical.
Print Assumptions qf_reach_exact.
Print Assumptions qf_exact_keys.
Print Assumptions qf_exact_keys_set.
Print Assumptions insert_all_small.
Print Assumptions qf_union_small.
Print Assumptions qf_union_comm.
Print Assumptions qf_union_idem.
Print Assumptions qf_union_assoc.
Print Assumptions qf_union_reach_total.
Print Assumptions qf_insert_result.
Print Assumptions qf_insert_then_query.
Print Assumptions qf_query_mono_insert.
Print Assumptions qf_query_mono_union.
Print Assumptions qf_no_false_negatives.
