(* Proofs/TDigestAgg.v — aggregate guarantees (property C16) for the exact-rational instance of
   Model/TDigest.v (src/tdigest.rs), for an ARBITRARY scale-function limit [lim : N -> Q -> Q]
   and an arbitrary max_backlog_size.

   Histories: [TIns x w] (insert / insert_weighted), [TRead] (any public read = td_merge), [TClear].
   [live ops] = the (x, w) pairs with 0 < w inserted after the last clear.

   Main results (d0 = td_new QNum maxb, valid = all weights >= 0):
     ssort_perm, ssort_sorted                 stable sort is a sorted permutation
     greedy_total, greedy_totalsum            the greedy pass preserves count and sum
     td_merge_total, td_merge_totalsum        hence so does td_merge
     td_count_spec, td_sum_spec, td_mean_spec count = sum w ; sum = sum x*w ; mean = their quotient
     td_min_spec, td_max_spec                 min/max are exactly the extreme live values
     td_zero_weight_id                        zero-weight inserts are the identity
     td_is_empty_iff                          is_empty <-> no live insert
     td_read_idempotent                       td_merge (td_merge d) = td_merge d
     td_clear_init, trun_tmaxb, td_clear_run  clear = fresh digest
     td_merge_wf, td_merge_wf_ends            merged digest: positive counts, sorted means within [min,max]
     td_backlog_bound                         |backlog| <= max_backlog_size at every point of every history
   All theorems are closed under the global context (Print Assumptions at the end). *)
From PDS Require Import Model.TDigestQ.
From Coq Require Import Lia Lqa QArith Permutation Sorted Morphisms Setoid.
Open Scope Q_scope.

Arguments N.add : simpl never.
Arguments N.ltb : simpl never.
Arguments N.of_nat : simpl never.
Arguments tcent {_} _. Arguments tn {_} _. Arguments tmn {_} _. Arguments tmx {_} _.
Arguments tback {_} _. Arguments tmaxb {_} _.

(* ------------------------------------------------------------------------- *)
(** * Rational helpers                                                        *)
(* ------------------------------------------------------------------------- *)

Lemma Qltb_iff a b : Qltb a b = true <-> a < b.
Proof.
  unfold Qltb. rewrite negb_true_iff. split.
  - intros H. apply Qnot_le_lt. intros Hle. apply Qle_bool_iff in Hle. congruence.
  - intros H. destruct (Qle_bool b a) eqn:E; [|reflexivity].
    apply Qle_bool_iff in E. exfalso. apply (Qlt_not_le _ _ H E).
Qed.
Lemma Qltb_false_iff a b : Qltb a b = false <-> b <= a.
Proof.
  unfold Qltb. rewrite negb_false_iff. apply Qle_bool_iff.
Qed.

Ltac qtypes := change (centroid QNum) with (Q * Q)%type in *; change (aT QNum) with Q in *.
Ltac case_if E := match goal with |- context [if ?b then _ else _] => destruct b eqn:E end.

(* generic sums by fold_left, as in the model *)
Definition qsum {A} (f : A -> Q) (l : list A) : Q := fold_left (fun a c => a + f c) l 0.

Lemma qsum_acc {A} (f : A -> Q) l : forall a, fold_left (fun a c => a + f c) l a == a + qsum f l.
Proof.
  unfold qsum. induction l as [|c l IH]; intros a; cbn [fold_left].
  - lra.
  - rewrite IH, (IH (0 + f c)). lra.
Qed.
Lemma qsum_nil {A} (f : A -> Q) : qsum f [] == 0.
Proof. reflexivity. Qed.
Lemma qsum_cons {A} (f : A -> Q) c l : qsum f (c :: l) == f c + qsum f l.
Proof. unfold qsum at 1. cbn [fold_left]. rewrite qsum_acc. lra. Qed.
Lemma qsum_app {A} (f : A -> Q) l1 l2 : qsum f (l1 ++ l2) == qsum f l1 + qsum f l2.
Proof.
  induction l1 as [|c l1 IH]; cbn [app].
  - rewrite qsum_nil. lra.
  - rewrite !qsum_cons, IH. lra.
Qed.
Lemma qsum_perm {A} (f : A -> Q) l1 l2 : Permutation l1 l2 -> qsum f l1 == qsum f l2.
Proof.
  induction 1 as [|x l l' _ IH|x y l|l l' l'' _ IH1 _ IH2].
  - reflexivity.
  - rewrite !qsum_cons, IH. reflexivity.
  - rewrite !qsum_cons. lra.
  - rewrite IH1. exact IH2.
Qed.
Lemma qsum_nonneg {A} (f : A -> Q) l : Forall (fun c => 0 <= f c) l -> 0 <= qsum f l.
Proof.
  induction 1 as [|c l Hc _ IH]; [rewrite qsum_nil; lra|]. rewrite qsum_cons. lra.
Qed.
Lemma qsum_pos {A} (f : A -> Q) l : l <> [] -> Forall (fun c => 0 < f c) l -> 0 < qsum f l.
Proof.
  intros Hne H. destruct H as [|c l Hc Hl]; [congruence|].
  rewrite qsum_cons. assert (0 <= qsum f l).
  { apply qsum_nonneg. eapply Forall_impl; [|exact Hl]. cbv beta. intros; lra. }
  lra.
Qed.

(* ------------------------------------------------------------------------- *)
(** * Centroids over Q                                                        *)
(* ------------------------------------------------------------------------- *)

Notation cent := (Q * Q)%type.
Definition qcount (c : cent) : Q := snd c.
Definition qcsum (c : cent) : Q := fst c.
Definition qmean (c : cent) : Q := fst c / snd c.

Lemma ccount_eq c : ccount QNum c = qcount c. Proof. reflexivity. Qed.
Lemma csum_eq c : csum QNum c = qcsum c. Proof. reflexivity. Qed.
Lemma cmean_eq c : cmean QNum c = qmean c. Proof. reflexivity. Qed.
Lemma total_eq l : total QNum l = qsum qcount l. Proof. reflexivity. Qed.
Lemma totalsum_eq l : totalsum QNum l = qsum qcsum l. Proof. reflexivity. Qed.
Lemma fuse_eq (a b : cent) : fuse QNum a b = (fst a + fst b, snd a + snd b). Proof. reflexivity. Qed.

Lemma mean_ge lo (c : cent) : 0 < qcount c -> (lo <= qmean c <-> lo * qcount c <= qcsum c).
Proof.
  destruct c as [s n]. unfold qcount, qmean, qcsum. cbn [fst snd]. intros Hn. split.
  - intros H. assert (E : s == (s / n) * n) by (field; lra). rewrite E.
    apply Qmult_le_compat_r; lra.
  - intros H. apply Qle_shift_div_l; assumption.
Qed.
Lemma mean_le hi (c : cent) : 0 < qcount c -> (qmean c <= hi <-> qcsum c <= hi * qcount c).
Proof.
  destruct c as [s n]. unfold qcount, qmean, qcsum. cbn [fst snd]. intros Hn. split.
  - intros H. assert (E : s == (s / n) * n) by (field; lra). rewrite E at 1.
    apply Qmult_le_compat_r; lra.
  - intros H. apply Qle_shift_div_r; assumption.
Qed.

Lemma fuse_count_pos (a b : cent) : 0 < qcount a -> 0 < qcount b -> 0 < qcount (fuse QNum a b).
Proof. rewrite fuse_eq. unfold qcount. cbn [snd]. lra. Qed.
(* any common lower (upper) bound of the two means bounds the fused mean *)
Lemma fuse_mean_ge lo (a b : cent) : 0 < qcount a -> 0 < qcount b ->
  lo <= qmean a -> lo <= qmean b -> lo <= qmean (fuse QNum a b).
Proof.
  intros Ha Hb H1 H2. apply mean_ge in H1; [|assumption]. apply mean_ge in H2; [|assumption].
  apply mean_ge; [apply fuse_count_pos; assumption|].
  rewrite fuse_eq. unfold qcount, qcsum in *. cbn [fst snd]. lra.
Qed.
Lemma fuse_mean_le hi (a b : cent) : 0 < qcount a -> 0 < qcount b ->
  qmean a <= hi -> qmean b <= hi -> qmean (fuse QNum a b) <= hi.
Proof.
  intros Ha Hb H1 H2. apply mean_le in H1; [|assumption]. apply mean_le in H2; [|assumption].
  apply mean_le; [apply fuse_count_pos; assumption|].
  rewrite fuse_eq. unfold qcount, qcsum in *. cbn [fst snd]. lra.
Qed.
(* mediant inequality *)
Lemma fuse_mean_between (a b : cent) : 0 < qcount a -> 0 < qcount b -> qmean a <= qmean b ->
  qmean a <= qmean (fuse QNum a b) /\ qmean (fuse QNum a b) <= qmean b.
Proof.
  intros Ha Hb H. split; [apply fuse_mean_ge|apply fuse_mean_le]; try assumption; lra.
Qed.

(* ------------------------------------------------------------------------- *)
(** * 1. The stable sort                                                      *)
(* ------------------------------------------------------------------------- *)

Definition fle (a b : Q * cent) : Prop := fst a <= fst b.

Lemma sinsert_perm e l : Permutation (sinsert QNum e l) (e :: l).
Proof.
  induction l as [|y r IH]; cbn [sinsert]; [reflexivity|].
  case_if E; [reflexivity|].
  rewrite IH. apply perm_swap.
Qed.
Lemma ssort_acc_perm l : forall acc,
  Permutation (fold_left (fun acc e => sinsert QNum e acc) l acc) (acc ++ l).
Proof.
  induction l as [|x l IH]; intros acc; cbn [fold_left].
  - rewrite app_nil_r. reflexivity.
  - rewrite IH, sinsert_perm. apply Permutation_middle.
Qed.
Theorem ssort_perm l : Permutation (ssort QNum l) l.
Proof. unfold ssort. rewrite ssort_acc_perm. reflexivity. Qed.

Lemma sinsert_hdrel y e r : HdRel fle y r -> fle y e -> HdRel fle y (sinsert QNum e r).
Proof.
  intros H Hye. destruct r as [|z r]; cbn [sinsert]; [constructor; assumption|].
  case_if E; constructor; [assumption|].
  inversion H; assumption.
Qed.
Lemma sinsert_sorted e l : Sorted fle l -> Sorted fle (sinsert QNum e l).
Proof.
  induction 1 as [|y r Hr IH Hy]; cbn [sinsert]; [repeat constructor|].
  case_if E; change (altb QNum) with Qltb in E.
  - constructor; [constructor; assumption|]. constructor. apply Qltb_iff in E. apply Qlt_le_weak. exact E.
  - constructor; [assumption|]. apply sinsert_hdrel; [assumption|].
    apply Qltb_false_iff in E. exact E.
Qed.
Lemma ssort_acc_sorted l : forall acc, Sorted fle acc ->
  Sorted fle (fold_left (fun acc e => sinsert QNum e acc) l acc).
Proof.
  induction l as [|x l IH]; intros acc H; cbn [fold_left]; [assumption|].
  apply IH, sinsert_sorted, H.
Qed.
Theorem ssort_sorted l : Sorted fle (ssort QNum l).
Proof. apply ssort_acc_sorted. constructor. Qed.

(* the list handed to the greedy pass *)
Definition mle (a b : cent) : Prop := qmean a <= qmean b.
Definition sorted_cents (l : list cent) : list cent :=
  map snd (ssort QNum (map (fun c => (cmean QNum c, c)) l)).

Lemma mle_trans : Relations_1.Transitive mle.
Proof. intros a b c. unfold mle. lra. Qed.

Lemma sorted_cents_perm l : Permutation (sorted_cents l) l.
Proof.
  unfold sorted_cents. rewrite ssort_perm, map_map. cbn [snd]. rewrite map_id. reflexivity.
Qed.
Lemma sorted_cents_sorted l : StronglySorted mle (sorted_cents l).
Proof.
  apply Sorted_StronglySorted; [exact mle_trans|]. unfold sorted_cents.
  set (pl := map (fun c => (cmean QNum c, c)) l).
  assert (HF : Forall (fun p : Q * cent => fst p = qmean (snd p)) (ssort QNum pl)).
  { eapply Permutation_Forall; [symmetry; apply ssort_perm|].
    unfold pl. apply Forall_forall. intros p Hp. apply in_map_iff in Hp.
    destruct Hp as [c [<- _]]. reflexivity. }
  pose proof (ssort_sorted pl) as HS. induction HS as [|p r Hr IH Hp]; cbn [map]; [constructor|].
  inversion HF as [|? ? Hp1 Hr1]; subst. constructor; [apply IH; assumption|].
  destruct Hp as [|q r' Hpq]; cbn [map]; constructor.
  inversion Hr1 as [|? ? Hq1 _]; subst. unfold mle, fle in *. qtypes. rewrite <- Hp1, <- Hq1. exact Hpq.
Qed.

(* ------------------------------------------------------------------------- *)
(** * 1. The greedy pass                                                      *)
(* ------------------------------------------------------------------------- *)
Section WithLim.
Variable lim : N -> Q -> Q.

Lemma greedy_qsum (f : cent -> Q) (n : N) (s : Q) :
  (forall a b, f (fuse QNum a b) == f a + f b) ->
  forall rest cur q0 ql, qsum f (greedy QNum lim n s q0 ql cur rest) == qsum f (cur :: rest).
Proof.
  intros Hf. induction rest as [|nx r IH]; intros cur q0 ql; cbn [greedy]; [reflexivity|].
  case_if E.
  - rewrite IH, !qsum_cons, Hf. lra.
  - rewrite qsum_cons, IH, !qsum_cons. reflexivity.
Qed.
Theorem greedy_total n s q0 ql cur rest :
  total QNum (greedy QNum lim n s q0 ql cur rest) == total QNum (cur :: rest).
Proof. rewrite !total_eq. apply greedy_qsum. intros a b. reflexivity. Qed.
Theorem greedy_totalsum n s q0 ql cur rest :
  totalsum QNum (greedy QNum lim n s q0 ql cur rest) == totalsum QNum (cur :: rest).
Proof. rewrite !totalsum_eq. apply greedy_qsum. intros a b. reflexivity. Qed.

Lemma greedy_nonempty n s q0 ql cur rest : greedy QNum lim n s q0 ql cur rest <> [].
Proof.
  revert cur q0 ql. induction rest as [|nx r IH]; intros cur q0 ql; cbn [greedy]; [discriminate|].
  case_if E; [apply IH|discriminate].
Qed.

Definition cbounded (lo hi : Q) (c : cent) : Prop := 0 < qcount c /\ lo <= qmean c /\ qmean c <= hi.

Lemma greedy_wf n s : forall rest cur q0 ql lo hi,
  0 < qcount cur -> Forall (fun c => 0 < qcount c) rest ->
  StronglySorted mle (cur :: rest) -> lo <= qmean cur ->
  Forall (fun c => qmean c <= hi) (cur :: rest) ->
  StronglySorted mle (greedy QNum lim n s q0 ql cur rest) /\
  Forall (cbounded lo hi) (greedy QNum lim n s q0 ql cur rest).
Proof.
  induction rest as [|nx r IH]; intros cur q0 ql lo hi Hc Hr HS Hlo Hhi; cbn [greedy].
  - split; [repeat constructor|]. constructor; [|constructor].
    inversion Hhi; subst. repeat split; assumption.
  - inversion Hr as [|? ? Hnx Hr']; subst. inversion HS as [|? ? HS1 Hcur]; subst.
    inversion Hcur as [|? ? Hcn Hcr]; subst. inversion HS1 as [|? ? HSr Hnr]; subst.
    inversion Hhi as [|? ? Hh1 Hh2]; subst. inversion Hh2 as [|? ? Hh3 Hh4]; subst.
    unfold mle in Hcn.
    destruct (fuse_mean_between cur nx Hc Hnx Hcn) as [Hf1 Hf2].
    case_if E.
    + apply IH.
      * apply fuse_count_pos; assumption.
      * assumption.
      * constructor; [assumption|]. eapply Forall_impl; [|exact Hnr].
        cbv beta. unfold mle. intros c Hc'. lra.
      * lra.
      * constructor; [|assumption]. lra.
    + destruct (IH nx (aadd QNum q0 (adiv QNum (ccount QNum cur) s))
                  (lim n (aadd QNum q0 (adiv QNum (ccount QNum cur) s))) (qmean cur) hi)
        as [I1 I2]; try assumption.
      split.
      * constructor; [assumption|]. eapply Forall_impl; [|exact I2].
        cbv beta. unfold cbounded, mle. intros c Hc'. tauto.
      * constructor; [repeat split; assumption|]. eapply Forall_impl; [|exact I2].
        cbv beta. unfold cbounded. intros c [H1 [H2 H3]]. repeat split; try assumption. lra.
Qed.

(* ------------------------------------------------------------------------- *)
(** * 1. td_merge                                                             *)
(* ------------------------------------------------------------------------- *)
Notation merge := (td_merge QNum lim).

Lemma td_merge_cases (d : qtd) :
  (tback d = [] /\ merge d = d) \/
  (tback d <> [] /\ exists c0 r,
     sorted_cents (tcent d ++ tback d) = c0 :: r /\
     merge d = {| tcent := greedy QNum lim (tn d) (total QNum (c0 :: r)) 0 (lim (tn d) 0) c0 r;
                  tn := tn d; tmn := tmn d; tmx := tmx d; tback := []; tmaxb := tmaxb d |}).
Proof.
  unfold td_merge. fold (sorted_cents (tcent d ++ tback d)).
  destruct (tback d) as [|b bl] eqn:Eb; [left; split; reflexivity|right].
  split; [discriminate|].
  destruct (sorted_cents (tcent d ++ b :: bl)) as [|c0 r] eqn:Es.
  - exfalso. pose proof (sorted_cents_perm (tcent d ++ b :: bl)) as HP. rewrite Es in HP.
    apply Permutation_nil in HP. destruct (tcent d); discriminate.
  - exists c0, r. split; reflexivity.
Qed.

Lemma td_merge_tback d : tback (merge d) = [].
Proof.
  destruct (td_merge_cases d) as [[H ->]|[_ [c0 [r [_ ->]]]]]; [assumption|reflexivity].
Qed.
Lemma td_merge_tmaxb d : tmaxb (merge d) = tmaxb d.
Proof. destruct (td_merge_cases d) as [[H ->]|[_ [c0 [r [_ ->]]]]]; reflexivity. Qed.
Lemma td_merge_tmn d : tmn (merge d) = tmn d.
Proof. destruct (td_merge_cases d) as [[H ->]|[_ [c0 [r [_ ->]]]]]; reflexivity. Qed.
Lemma td_merge_tmx d : tmx (merge d) = tmx d.
Proof. destruct (td_merge_cases d) as [[H ->]|[_ [c0 [r [_ ->]]]]]; reflexivity. Qed.
Lemma td_merge_tn d : tn (merge d) = tn d.
Proof. destruct (td_merge_cases d) as [[H ->]|[_ [c0 [r [_ ->]]]]]; reflexivity. Qed.

Lemma td_merge_qsum (f : cent -> Q) d : (forall a b, f (fuse QNum a b) == f a + f b) ->
  qsum f (tcent (merge d) ++ tback (merge d)) == qsum f (tcent d ++ tback d).
Proof.
  intros Hf. destruct (td_merge_cases d) as [[H ->]|[_ [c0 [r [Es ->]]]]]; [reflexivity|].
  cbn [tcent tback]. rewrite app_nil_r, greedy_qsum by assumption. qtypes. rewrite <- Es.
  apply qsum_perm, sorted_cents_perm.
Qed.
Theorem td_merge_total d :
  total QNum (tcent (merge d) ++ tback (merge d)) == total QNum (tcent d ++ tback d).
Proof. rewrite !total_eq. apply td_merge_qsum. intros a b. reflexivity. Qed.
Theorem td_merge_totalsum d :
  totalsum QNum (tcent (merge d) ++ tback (merge d)) == totalsum QNum (tcent d ++ tback d).
Proof. rewrite !totalsum_eq. apply td_merge_qsum. intros a b. reflexivity. Qed.

(* 6. reads are idempotent *)
Theorem td_read_idempotent d : merge (merge d) = merge d.
Proof.
  destruct (td_merge_cases (merge d)) as [[_ H]|[H _]]; [assumption|].
  exfalso. apply H, td_merge_tback.
Qed.


(* ------------------------------------------------------------------------- *)
(** * Histories                                                               *)
(* ------------------------------------------------------------------------- *)
End WithLim.

Inductive top := TIns (x w : Q) | TRead | TClear.

(* the live inserts: pairs (x, w) with 0 < w, since the last clear *)
Definition lstep (acc : list (Q * Q)) (o : top) : list (Q * Q) :=
  match o with
  | TIns x w => if Qltb 0 w then acc ++ [(x, w)] else acc
  | TRead => acc
  | TClear => []
  end.
Definition live_from (acc : list (Q * Q)) (ops : list top) : list (Q * Q) := fold_left lstep ops acc.
Definition live (ops : list top) : list (Q * Q) := live_from [] ops.

Definition valid_op (o : top) : Prop := match o with TIns _ w => 0 <= w | _ => True end.
Definition valid (ops : list top) : Prop := Forall valid_op ops.

Definition sumw (lv : list (Q * Q)) : Q := qsum snd lv.
Definition sumxw (lv : list (Q * Q)) : Q := qsum (fun p => fst p * snd p) lv.

(* [live] really is "positive-weight inserts after the last clear" *)
Definition pos_ins (ops : list top) : list (Q * Q) :=
  flat_map (fun o => match o with TIns x w => if Qltb 0 w then [(x, w)] else [] | _ => [] end) ops.
Lemma live_from_noclear ops : forall acc, ~ In TClear ops -> live_from acc ops = acc ++ pos_ins ops.
Proof.
  induction ops as [|o ops IH]; intros acc H; cbn [live_from fold_left pos_ins flat_map].
  - rewrite app_nil_r. reflexivity.
  - fold (live_from (lstep acc o) ops). fold (pos_ins ops). rewrite IH by (intros HI; apply H; right; exact HI).
    destruct o as [x w| |]; cbn [lstep].
    + destruct (Qltb 0 w); [rewrite <- app_assoc|]; reflexivity.
    + reflexivity.
    + exfalso. apply H. left. reflexivity.
Qed.
Lemma live_noclear ops : ~ In TClear ops -> live ops = pos_ins ops.
Proof. intros H. unfold live. rewrite live_from_noclear by assumption. reflexivity. Qed.
Lemma live_app_clear a b : live (a ++ TClear :: b) = live b.
Proof. unfold live, live_from. rewrite fold_left_app. reflexivity. Qed.

Section Hist.
Variable lim : N -> Q -> Q.
Notation merge := (td_merge QNum lim).

Definition tstep (d : qtd) (o : top) : qtd :=
  match o with
  | TIns x w => td_insert_weighted QNum lim d x w
  | TRead => merge d
  | TClear => td_clear QNum d
  end.
Definition trun (d : qtd) (ops : list top) : qtd := fold_left tstep ops d.

Lemma trun_app d a b : trun d (a ++ b) = trun (trun d a) b.
Proof. apply fold_left_app. Qed.

(* the state after pushing onto the backlog, before the overflow test *)
Definition td_push (d : qtd) (x w : Q) : qtd :=
  {| tcent := tcent d; tn := (tn d + 1)%N;
     tmn := Some (match tmn d with Some m => tmin QNum m x | None => x end);
     tmx := Some (match tmx d with Some m => tmax QNum m x | None => x end);
     tback := tback d ++ [(x * w, w)]; tmaxb := tmaxb d |}.
Lemma td_insert_inner_eq d x w :
  td_insert_inner QNum lim d x w =
  if (tmaxb d <? lenN (tback (td_push d x w)))%N then merge (td_push d x w) else td_push d x w.
Proof. reflexivity. Qed.

Lemma td_insert_weighted_valid d x w : 0 <= w ->
  td_insert_weighted QNum lim d x w = if Qltb 0 w then td_insert_inner QNum lim d x w else d.
Proof.
  intros Hw. unfold td_insert_weighted. change (aleb QNum) with Qle_bool. change (azero QNum) with 0.
  apply Qle_bool_iff in Hw. rewrite Hw, andb_true_r. unfold Qltb. destruct (Qle_bool w 0); reflexivity.
Qed.

(* 4. zero-weight inserts change nothing *)
Theorem td_zero_weight_id d x w : w == 0 -> td_insert_weighted QNum lim d x w = d.
Proof.
  intros Hw. unfold td_insert_weighted. change (aleb QNum) with Qle_bool. change (azero QNum) with 0.
  assert (H1 : Qle_bool w 0 = true) by (apply Qle_bool_iff; rewrite Hw; apply Qle_refl).
  assert (H2 : Qle_bool 0 w = true) by (apply Qle_bool_iff; rewrite Hw; apply Qle_refl).
  rewrite H1, H2. reflexivity.
Qed.

(* invariant principles *)
Lemma trun_inv_inner (P : qtd -> list (Q * Q) -> Prop) :
  (forall d lv, P d lv -> P (merge d) lv) ->
  (forall d lv x w, P d lv -> 0 < w -> P (td_insert_inner QNum lim d x w) (lv ++ [(x, w)])) ->
  (forall d lv, P d lv -> P (td_new QNum (tmaxb d)) []) ->
  forall ops d lv, valid ops -> P d lv -> P (trun d ops) (live_from lv ops).
Proof.
  intros Hm Hi Hn. induction ops as [|o ops IH]; intros d lv Hv HP; [exact HP|].
  inversion Hv as [|? ? Ho Hv']; subst. cbn [trun live_from fold_left].
  apply IH; [assumption|]. destruct o as [x w| |]; cbn [tstep lstep valid_op] in *.
  - rewrite td_insert_weighted_valid by assumption. destruct (Qltb 0 w) eqn:E; [|assumption].
    apply Hi; [assumption|]. apply Qltb_iff. exact E.
  - apply Hm. assumption.
  - apply (Hn d lv). assumption.
Qed.
Lemma trun_inv (P : qtd -> list (Q * Q) -> Prop) :
  (forall d lv, P d lv -> P (merge d) lv) ->
  (forall d lv x w, P d lv -> 0 < w -> P (td_push d x w) (lv ++ [(x, w)])) ->
  (forall maxb, P (td_new QNum maxb) []) ->
  forall maxb ops, valid ops -> P (trun (td_new QNum maxb) ops) (live ops).
Proof.
  intros Hm Hp Hn maxb ops Hv. unfold live. apply trun_inv_inner; try assumption.
  - intros d lv x w HP Hw. rewrite td_insert_inner_eq. case_if E; [apply Hm|]; apply Hp; assumption.
  - intros d lv _. apply Hn.
  - apply Hn.
Qed.

(* ------------------------------------------------------------------------- *)
(** * 2. count / sum / mean                                                   *)
(* ------------------------------------------------------------------------- *)
Definition Pagg (d : qtd) (lv : list (Q * Q)) : Prop :=
  qsum qcount (tcent d ++ tback d) == sumw lv /\ qsum qcsum (tcent d ++ tback d) == sumxw lv.

Lemma Pagg_run maxb ops : valid ops -> Pagg (trun (td_new QNum maxb) ops) (live ops).
Proof.
  apply trun_inv; unfold Pagg.
  - intros d lv [H1 H2]. split.
    + rewrite <- H1. apply (td_merge_qsum lim qcount). intros a b. reflexivity.
    + rewrite <- H2. apply (td_merge_qsum lim qcsum). intros a b. reflexivity.
  - intros d lv x w [H1 H2] _. cbn [tcent tback td_push]. unfold sumw, sumxw in *. qtypes.
    rewrite !app_assoc, !(qsum_app _ (tcent d ++ tback d)), !(qsum_app _ lv), H1, H2, !qsum_cons, !qsum_nil.
    unfold qcount, qcsum. cbn [fst snd]. split; reflexivity.
  - intros mb. split; reflexivity.
Qed.

Theorem td_count_spec maxb ops : valid ops ->
  td_count QNum (merge (trun (td_new QNum maxb) ops)) == sumw (live ops).
Proof.
  intros Hv. destruct (Pagg_run maxb ops Hv) as [H _]. rewrite <- H.
  unfold td_count. rewrite total_eq. rewrite <- (td_merge_qsum lim qcount) by (intros a b; reflexivity).
  rewrite td_merge_tback, app_nil_r. reflexivity.
Qed.
Theorem td_sum_spec maxb ops : valid ops ->
  td_sum QNum (merge (trun (td_new QNum maxb) ops)) == sumxw (live ops).
Proof.
  intros Hv. destruct (Pagg_run maxb ops Hv) as [_ H]. rewrite <- H.
  unfold td_sum. rewrite totalsum_eq. rewrite <- (td_merge_qsum lim qcsum) by (intros a b; reflexivity).
  rewrite td_merge_tback, app_nil_r. reflexivity.
Qed.
(* the premise [0 < sumw] is not needed for the equation in Q (where x/0 = 0); it marks the
   case in which the float mean is meaningful (otherwise the crate returns NaN = 0/0) *)
Theorem td_mean_spec maxb ops : valid ops -> 0 < sumw (live ops) ->
  snd (td_mean_pub QNum lim (trun (td_new QNum maxb) ops)) == sumxw (live ops) / sumw (live ops).
Proof.
  intros Hv _. unfold td_mean_pub. cbn [snd]. change (adiv QNum) with Qdiv.
  rewrite td_count_spec, td_sum_spec by assumption. reflexivity.
Qed.
Corollary td_count_pub_spec maxb ops : valid ops ->
  snd (td_count_pub QNum lim (trun (td_new QNum maxb) ops)) == sumw (live ops).
Proof. apply td_count_spec. Qed.
Corollary td_sum_pub_spec maxb ops : valid ops ->
  snd (td_sum_pub QNum lim (trun (td_new QNum maxb) ops)) == sumxw (live ops).
Proof. apply td_sum_spec. Qed.

(* ------------------------------------------------------------------------- *)
(** * 3. min / max                                                            *)
(* ------------------------------------------------------------------------- *)
Definition is_min (lv : list (Q * Q)) (m : Q) : Prop :=
  (exists x w, In (x, w) lv /\ m == x) /\ (forall x w, In (x, w) lv -> m <= x).
Definition is_max (lv : list (Q * Q)) (m : Q) : Prop :=
  (exists x w, In (x, w) lv /\ m == x) /\ (forall x w, In (x, w) lv -> x <= m).

Lemma tmin_cases (m x : Q) : (x < m /\ tmin QNum m x = x) \/ (m <= x /\ tmin QNum m x = m).
Proof.
  unfold tmin. change (altb QNum) with Qltb. destruct (Qltb x m) eqn:E.
  - left. split; [apply Qltb_iff; exact E|reflexivity].
  - right. split; [apply Qltb_false_iff; exact E|reflexivity].
Qed.
Lemma tmax_cases (m x : Q) : (m < x /\ tmax QNum m x = x) \/ (x <= m /\ tmax QNum m x = m).
Proof.
  unfold tmax. change (altb QNum) with Qltb. destruct (Qltb m x) eqn:E.
  - left. split; [apply Qltb_iff; exact E|reflexivity].
  - right. split; [apply Qltb_false_iff; exact E|reflexivity].
Qed.

Definition Pmin (d : qtd) (lv : list (Q * Q)) : Prop :=
  match tmn d with None => lv = [] | Some m => is_min lv m end.
Definition Pmax (d : qtd) (lv : list (Q * Q)) : Prop :=
  match tmx d with None => lv = [] | Some m => is_max lv m end.

Lemma Pmin_run maxb ops : valid ops -> Pmin (trun (td_new QNum maxb) ops) (live ops).
Proof.
  apply trun_inv; unfold Pmin.
  - intros d lv H. rewrite td_merge_tmn. exact H.
  - intros d lv x w H _. cbn [tmn td_push]. destruct (tmn d) as [m|].
    + destruct H as [[x0 [w0 [Hin Heq]]] Hall].
      destruct (tmin_cases m x) as [[Hlt ->]|[Hle ->]]; split.
      * exists x, w. split; [apply in_or_app; right; left; reflexivity|reflexivity].
      * intros x' w' Hin'. apply in_app_or in Hin'. destruct Hin' as [Hin'|[Heq'|[]]].
        -- apply Hall in Hin'. lra.
        -- inversion Heq'; subst. apply Qle_refl.
      * exists x0, w0. split; [apply in_or_app; left; assumption|assumption].
      * intros x' w' Hin'. apply in_app_or in Hin'. destruct Hin' as [Hin'|[Heq'|[]]].
        -- apply Hall in Hin'. assumption.
        -- inversion Heq'; subst. assumption.
    + subst lv. cbn [app]. split.
      * exists x, w. split; [left; reflexivity|reflexivity].
      * intros x' w' [Heq'|[]]. inversion Heq'; subst. apply Qle_refl.
  - intros mb. reflexivity.
Qed.
Lemma Pmax_run maxb ops : valid ops -> Pmax (trun (td_new QNum maxb) ops) (live ops).
Proof.
  apply trun_inv; unfold Pmax.
  - intros d lv H. rewrite td_merge_tmx. exact H.
  - intros d lv x w H _. cbn [tmx td_push]. destruct (tmx d) as [m|].
    + destruct H as [[x0 [w0 [Hin Heq]]] Hall].
      destruct (tmax_cases m x) as [[Hlt ->]|[Hle ->]]; split.
      * exists x, w. split; [apply in_or_app; right; left; reflexivity|reflexivity].
      * intros x' w' Hin'. apply in_app_or in Hin'. destruct Hin' as [Hin'|[Heq'|[]]].
        -- apply Hall in Hin'. lra.
        -- inversion Heq'; subst. apply Qle_refl.
      * exists x0, w0. split; [apply in_or_app; left; assumption|assumption].
      * intros x' w' Hin'. apply in_app_or in Hin'. destruct Hin' as [Hin'|[Heq'|[]]].
        -- apply Hall in Hin'. assumption.
        -- inversion Heq'; subst. assumption.
    + subst lv. cbn [app]. split.
      * exists x, w. split; [left; reflexivity|reflexivity].
      * intros x' w' [Heq'|[]]. inversion Heq'; subst. apply Qle_refl.
  - intros mb. reflexivity.
Qed.

Theorem td_min_spec maxb ops : valid ops ->
  match tmn (trun (td_new QNum maxb) ops) with
  | Some m => (exists x w, In (x, w) (live ops) /\ m == x) /\ (forall x w, In (x, w) (live ops) -> m <= x)
  | None => live ops = []
  end.
Proof. apply Pmin_run. Qed.
Theorem td_max_spec maxb ops : valid ops ->
  match tmx (trun (td_new QNum maxb) ops) with
  | Some m => (exists x w, In (x, w) (live ops) /\ m == x) /\ (forall x w, In (x, w) (live ops) -> x <= m)
  | None => live ops = []
  end.
Proof. apply Pmax_run. Qed.
Corollary td_min_none_iff maxb ops : valid ops ->
  (tmn (trun (td_new QNum maxb) ops) = None <-> live ops = []).
Proof.
  intros Hv. pose proof (td_min_spec maxb ops Hv) as H.
  destruct (tmn (trun (td_new QNum maxb) ops)) as [m|]; split; intros E; try assumption; try reflexivity;
    try discriminate.
  destruct H as [[x [w [Hin _]]] _]. rewrite E in Hin. destruct Hin.
Qed.
Corollary td_max_none_iff maxb ops : valid ops ->
  (tmx (trun (td_new QNum maxb) ops) = None <-> live ops = []).
Proof.
  intros Hv. pose proof (td_max_spec maxb ops Hv) as H.
  destruct (tmx (trun (td_new QNum maxb) ops)) as [m|]; split; intros E; try assumption; try reflexivity;
    try discriminate.
  destruct H as [[x [w [Hin _]]] _]. rewrite E in Hin. destruct Hin.
Qed.
(* the reads leave min/max alone *)
Corollary td_min_read d : tmn (merge d) = tmn d. Proof. apply td_merge_tmn. Qed.
Corollary td_max_read d : tmx (merge d) = tmx d. Proof. apply td_merge_tmx. Qed.

(* ------------------------------------------------------------------------- *)
(** * 5. is_empty                                                             *)
(* ------------------------------------------------------------------------- *)
Lemma td_is_empty_true (d : qtd) : td_is_empty QNum d = true <-> tcent d = [] /\ tback d = [].
Proof.
  unfold td_is_empty. destruct (tcent d), (tback d); split; intros H; try discriminate; try (split; reflexivity);
    destruct H; discriminate.
Qed.
Definition Pempty (d : qtd) (lv : list (Q * Q)) : Prop := lv = [] <-> tcent d = [] /\ tback d = [].
Lemma Pempty_run maxb ops : valid ops -> Pempty (trun (td_new QNum maxb) ops) (live ops).
Proof.
  apply trun_inv; unfold Pempty.
  - intros d lv H. rewrite H.
    destruct (td_merge_cases lim d) as [[Hb ->]|[Hb [c0 [r [_ ->]]]]]; [reflexivity|].
    cbn [tcent tback]. split; intros [H1 H2]; [contradiction|]. exfalso. eapply greedy_nonempty, H1.
  - intros d lv x w _ _. cbn [tcent tback td_push]. split.
    + intros H. destruct lv; discriminate.
    + intros [_ H]. destruct (tback d); discriminate.
  - intros mb. split; intros _; [split|]; reflexivity.
Qed.
Theorem td_is_empty_iff maxb ops : valid ops ->
  (td_is_empty QNum (trun (td_new QNum maxb) ops) = true <-> live ops = []).
Proof. intros Hv. rewrite td_is_empty_true. symmetry. apply Pempty_run. assumption. Qed.

(* ------------------------------------------------------------------------- *)
(** * 7. clear                                                                *)
(* ------------------------------------------------------------------------- *)
Theorem td_clear_init (d : qtd) : td_clear QNum d = td_new QNum (tmaxb d).
Proof. reflexivity. Qed.

Lemma td_insert_inner_tmaxb d x w : tmaxb (td_insert_inner QNum lim d x w) = tmaxb d.
Proof. rewrite td_insert_inner_eq. case_if E; [rewrite td_merge_tmaxb|]; reflexivity. Qed.
Lemma tstep_tmaxb d o : tmaxb (tstep d o) = tmaxb d.
Proof.
  destruct o as [x w| |]; cbn [tstep].
  - unfold td_insert_weighted. case_if E; [reflexivity|apply td_insert_inner_tmaxb].
  - apply td_merge_tmaxb.
  - reflexivity.
Qed.
(* no validity assumption needed *)
Theorem trun_tmaxb ops : forall d, tmaxb (trun d ops) = tmaxb d.
Proof.
  induction ops as [|o ops IH]; intros d; [reflexivity|]. cbn [trun fold_left].
  fold (trun (tstep d o) ops). rewrite IH. apply tstep_tmaxb.
Qed.
Theorem td_clear_run maxb ops0 ops :
  trun (td_clear QNum (trun (td_new QNum maxb) ops0)) ops = trun (td_new QNum maxb) ops.
Proof. rewrite td_clear_init, trun_tmaxb. reflexivity. Qed.

(* ------------------------------------------------------------------------- *)
(** * 9. backlog bound                                                        *)
(* ------------------------------------------------------------------------- *)
Lemma tstep_backlog d o : (lenN (tback d) <= tmaxb d)%N -> (lenN (tback (tstep d o)) <= tmaxb (tstep d o))%N.
Proof.
  intros H. rewrite tstep_tmaxb. destruct o as [x w| |]; cbn [tstep].
  - unfold td_insert_weighted. case_if E; [assumption|]. rewrite td_insert_inner_eq.
    destruct (N.ltb_spec (tmaxb d) (lenN (tback (td_push d x w)))) as [Hlt|Hle].
    + rewrite td_merge_tback. unfold lenN. cbn [length]. lia.
    + exact Hle.
  - rewrite td_merge_tback. unfold lenN. cbn [length]. lia.
  - unfold lenN. cbn. lia.
Qed.
(* at every point of every history (no validity assumption needed) *)
Theorem td_backlog_bound maxb ops :
  (N.of_nat (length (tback (trun (td_new QNum maxb) ops))) <= maxb)%N.
Proof.
  assert (G : forall ops d, (lenN (tback d) <= tmaxb d)%N -> (lenN (tback (trun d ops)) <= tmaxb d)%N).
  { clear. induction ops as [|o ops IH]; intros d H; [exact H|]. cbn [trun fold_left].
    fold (trun (tstep d o) ops). rewrite <- (tstep_tmaxb d o). apply IH, tstep_backlog, H. }
  apply (G ops (td_new QNum maxb)). unfold lenN. cbn. lia.
Qed.

(* ------------------------------------------------------------------------- *)
(** * 8. well-formedness established by merge                                 *)
(* ------------------------------------------------------------------------- *)
Definition wfcent (l : list (centroid QNum)) : Prop :=
  Forall (fun c => 0 < ccount QNum c) l /\
  Sorted (fun a b => cmean QNum a <= cmean QNum b) l.

Lemma wfcent_strong l : wfcent l ->
  Forall (fun c => 0 < ccount QNum c) l /\ StronglySorted (fun a b => cmean QNum a <= cmean QNum b) l.
Proof.
  intros [H1 H2]. split; [assumption|]. apply Sorted_StronglySorted; [|assumption].
  intros a b c. apply Qle_trans.
Qed.

Lemma tmin_le (m x : Q) : tmin QNum m x <= m /\ tmin QNum m x <= x.
Proof. destruct (tmin_cases m x) as [[H ->]|[H ->]]; split; lra. Qed.
Lemma tmax_ge (m x : Q) : m <= tmax QNum m x /\ x <= tmax QNum m x.
Proof. destruct (tmax_cases m x) as [[H ->]|[H ->]]; split; lra. Qed.
Lemma cbounded_new lo hi x w : 0 < w -> lo <= x -> x <= hi -> cbounded lo hi (x * w, w).
Proof.
  intros Hw H1 H2. unfold cbounded, qcount, qmean. cbn [fst snd].
  assert (E : x * w / w == x) by (field; lra). rewrite E. repeat split; assumption.
Qed.
Lemma cbounded_weaken lo hi lo' hi' c : lo' <= lo -> hi <= hi' -> cbounded lo hi c -> cbounded lo' hi' c.
Proof. unfold cbounded. intros H1 H2 [H3 [H4 H5]]. repeat split; lra. Qed.

(* every centroid (merged or backlog) has positive count and mean in [min, max];
   the merged centroids are sorted by mean *)
Definition Pwf (d : qtd) (lv : list (Q * Q)) : Prop :=
  StronglySorted mle (tcent d) /\
  match tmn d, tmx d with
  | Some mn, Some mx => Forall (cbounded mn mx) (tcent d ++ tback d)
  | None, None => tcent d = [] /\ tback d = []
  | _, _ => False
  end.

Lemma Pwf_merge d lv : Pwf d lv -> Pwf (merge d) lv.
Proof.
  intros [HS HB]. destruct (td_merge_cases lim d) as [[Hb ->]|[Hb [c0 [r [Es ->]]]]]; [split; assumption|].
  unfold Pwf. cbn [tcent tback tmn tmx]. rewrite app_nil_r.
  destruct (tmn d) as [mn|], (tmx d) as [mx|]; try contradiction; [|destruct HB; contradiction].
  assert (HF : Forall (cbounded mn mx) (c0 :: r)).
  { qtypes. rewrite <- Es. eapply Permutation_Forall; [symmetry; apply sorted_cents_perm|exact HB]. }
  assert (HSS : StronglySorted mle (c0 :: r)).
  { qtypes. rewrite <- Es. apply sorted_cents_sorted. }
  inversion HF as [|? ? [Hc0 [Hlo Hhi]] HFr]; subst.
  apply greedy_wf; try assumption.
  - eapply Forall_impl; [|exact HFr]. unfold cbounded. intros c Hc. tauto.
  - eapply Forall_impl; [|exact HF]. unfold cbounded. intros c Hc. tauto.
Qed.

Lemma Pwf_run maxb ops : valid ops -> Pwf (trun (td_new QNum maxb) ops) (live ops).
Proof.
  apply trun_inv.
  - apply Pwf_merge.
  - intros d lv x w [HS HB] Hw. unfold Pwf. cbn [td_push tcent tback tmn tmx]. split; [assumption|].
    destruct (tmn d) as [mn|], (tmx d) as [mx|]; try contradiction.
    + destruct (tmin_le mn x) as [M1 M2]. destruct (tmax_ge mx x) as [M3 M4].
      rewrite app_assoc. apply Forall_app. split.
      * eapply Forall_impl; [|exact HB]. intros c. apply cbounded_weaken; assumption.
      * constructor; [|constructor]. apply cbounded_new; assumption.
    + destruct HB as [-> ->]. cbn [app]. constructor; [|constructor].
      apply cbounded_new; [assumption|apply Qle_refl|apply Qle_refl].
  - intros mb. split; [constructor|]. split; reflexivity.
Qed.

Lemma trun_read d ops : trun d (ops ++ [TRead]) = merge (trun d ops).
Proof. rewrite trun_app. reflexivity. Qed.
Lemma live_read ops : live (ops ++ [TRead]) = live ops.
Proof. unfold live, live_from. rewrite fold_left_app. reflexivity. Qed.
Lemma valid_read ops : valid ops -> valid (ops ++ [TRead]).
Proof. intros H. apply Forall_app. split; [assumption|]. constructor; [exact I|constructor]. Qed.

Theorem td_merge_wf maxb ops : valid ops ->
  let d' := merge (trun (td_new QNum maxb) ops) in
  wfcent (tcent d') /\ tback d' = [] /\
  match tcent d' with
  | [] => live ops = []
  | _ :: _ => exists mn mx, tmn d' = Some mn /\ tmx d' = Some mx /\
                Forall (fun c => mn <= cmean QNum c /\ cmean QNum c <= mx) (tcent d')
  end.
Proof.
  intros Hv d'. pose proof (Pwf_run maxb _ (valid_read ops Hv)) as [HS HB].
  pose proof (Pempty_run maxb _ (valid_read ops Hv)) as HE.
  rewrite trun_read in HS, HB, HE. rewrite live_read in HE. fold d' in HS, HB, HE.
  assert (Hb : tback d' = []) by apply td_merge_tback. rewrite Hb, app_nil_r in HB.
  assert (HP : Forall (fun c => 0 < ccount QNum c) (tcent d')).
  { destruct (tmn d') as [mn|], (tmx d') as [mx|]; try contradiction.
    - eapply Forall_impl; [|exact HB]. unfold cbounded. intros c Hc. apply Hc.
    - destruct HB as [-> _]. constructor. }
  split; [split; [exact HP|exact (StronglySorted_Sorted HS)]|]. split; [exact Hb|].
  destruct (tcent d') as [|c0 r] eqn:Ec.
  - apply HE. split; assumption.
  - destruct (tmn d') as [mn|], (tmx d') as [mx|]; try contradiction; [|destruct HB; discriminate].
    exists mn, mx. split; [reflexivity|]. split; [reflexivity|].
    eapply Forall_impl; [|exact HB]. unfold cbounded. intros c Hc. split; apply Hc.
Qed.

Lemma last_in {A} (r : list A) : forall c0, In (last r c0) (c0 :: r).
Proof.
  induction r as [|a r IH]; intros c0; [left; reflexivity|].
  destruct r as [|b r']; [right; left; reflexivity|].
  change (last (a :: b :: r') c0) with (last (b :: r') c0).
  destruct (IH c0) as [H|H]; [left; exact H|right; right; exact H].
Qed.

(* the form used by the quantile/cdf shape theorems *)
Theorem td_merge_wf_ends maxb ops c0 r : valid ops ->
  let d' := merge (trun (td_new QNum maxb) ops) in
  tcent d' = c0 :: r ->
  exists mn mx, tmn d' = Some mn /\ tmx d' = Some mx /\
    mn <= cmean QNum c0 /\ cmean QNum (last r c0) <= mx /\ mn <= mx.
Proof.
  intros Hv d' Ec. destruct (td_merge_wf maxb ops Hv) as [_ [_ H]]. fold d' in H. rewrite Ec in H.
  destruct H as [mn [mx [H1 [H2 HF]]]]. exists mn, mx. split; [assumption|]. split; [assumption|].
  rewrite Forall_forall in HF.
  destruct (HF c0 (or_introl eq_refl)) as [A1 A2]. destruct (HF _ (last_in r c0)) as [B1 B2].
  repeat split; try assumption. eapply Qle_trans; eassumption.
Qed.

Corollary td_merge_count_pos maxb ops : valid ops -> live ops <> [] ->
  0 < td_count QNum (merge (trun (td_new QNum maxb) ops)).
Proof.
  intros Hv Hl. destruct (td_merge_wf maxb ops Hv) as [[HP _] [_ H]]. unfold td_count. rewrite total_eq.
  apply qsum_pos; [|exact HP]. intros E. rewrite E in H. contradiction.
Qed.

End Hist.

(* ------------------------------------------------------------------------- *)
(** * Concrete, non-vacuous instances (K0 scale function, delta = 5, max_backlog_size = 2) *)
(* ------------------------------------------------------------------------- *)
Definition ex_lim := k0_lim (5 # 1).
Definition ex_ops : list top :=
  [TIns 3 1; TIns 1 2; TIns 5 (1 # 2); TRead; TIns 8 0; TIns 2 1; TClear;
   TIns 7 1; TIns 4 3; TRead; TIns 6 2; TIns 9 (3 # 2); TIns 10 0].
Definition ex_d := trun ex_lim (td_new QNum 2) ex_ops.
Definition ex_m := td_merge QNum ex_lim ex_d.

Example ex_valid : valid ex_ops.
Proof. unfold valid, ex_ops. repeat (constructor; [cbn; try exact I; try (cbv; discriminate)|]). constructor. Qed.
Example ex_live : live ex_ops = [(7, 1); (4, 3); (6, 2); (9, 3 # 2)].
Proof. vm_compute. reflexivity. Qed.
Example ex_count : td_count QNum ex_m == 15 # 2.
Proof. vm_compute. reflexivity. Qed.
Example ex_count_spec : sumw (live ex_ops) == 15 # 2.
Proof. vm_compute. reflexivity. Qed.
Example ex_sum : td_sum QNum ex_m == 89 # 2 /\ sumxw (live ex_ops) == 89 # 2.
Proof. split; vm_compute; reflexivity. Qed.
Example ex_mean : snd (td_mean_pub QNum ex_lim ex_d) == 89 # 15 /\ 0 < sumw (live ex_ops).
Proof. split; vm_compute; reflexivity. Qed.
Example ex_min_max : tmn ex_d = Some 4 /\ tmx ex_d = Some 9.
Proof. split; vm_compute; reflexivity. Qed.
Example ex_zero_weight : td_insert_weighted QNum ex_lim ex_d 8 0 = ex_d.
Proof. apply td_zero_weight_id. reflexivity. Qed.
Example ex_is_empty :
  td_is_empty QNum ex_d = false /\
  td_is_empty QNum (trun ex_lim (td_new QNum 2) [TIns 3 1; TClear; TIns 4 0; TRead]) = true /\
  live [TIns 3 1; TClear; TIns 4 0; TRead] = [].
Proof. repeat split; vm_compute; reflexivity. Qed.
Example ex_read_idem : td_merge QNum ex_lim ex_m = ex_m /\ tback ex_d <> [].
Proof. split; [apply td_read_idempotent|vm_compute; discriminate]. Qed.
Example ex_clear : td_clear QNum ex_d = td_new QNum 2.
Proof. vm_compute. reflexivity. Qed.
(* the merged digest really has several centroids, and fusion really happened (4 live inserts) *)
Example ex_wf : length (tcent ex_m) = 3%nat /\ tback ex_m = [] /\ wfcent (tcent ex_m).
Proof.
  split; [vm_compute; reflexivity|]. split; [vm_compute; reflexivity|].
  destruct (td_merge_wf ex_lim 2 ex_ops ex_valid) as [H _]. exact H.
Qed.
(* the backlog bound is attained *)
Example ex_backlog : N.of_nat (length (tback (trun ex_lim (td_new QNum 2) [TIns 3 1; TIns 1 2]))) = 2%N.
Proof. vm_compute. reflexivity. Qed.

Print Assumptions ssort_perm.
Print Assumptions ssort_sorted.
Print Assumptions greedy_total.
Print Assumptions greedy_totalsum.
Print Assumptions td_merge_total.
Print Assumptions td_merge_totalsum.
Print Assumptions td_count_spec.
Print Assumptions td_sum_spec.
Print Assumptions td_mean_spec.
Print Assumptions td_min_spec.
Print Assumptions td_max_spec.
Print Assumptions td_min_none_iff.
Print Assumptions td_max_none_iff.
Print Assumptions td_zero_weight_id.
Print Assumptions td_is_empty_iff.
Print Assumptions td_read_idempotent.
Print Assumptions td_clear_init.
Print Assumptions trun_tmaxb.
Print Assumptions td_clear_run.
Print Assumptions td_merge_wf.
Print Assumptions td_merge_wf_ends.
Print Assumptions td_merge_count_pos.
Print Assumptions td_backlog_bound.
Print Assumptions ex_wf.
