(* Proofs/HllSerdeProofs.v — serde round trip, validation on deserialisation, and "a validated value
   never panics" for the HyperLogLog (Model/HllSerde.v, Model/Hll.v, Model/HllCount.v). *)
From PDS Require Import Model.HllSerde Model.HllCount Model.TDigestQ Proofs.HllProofs Proofs.HllCountProofs.
From Coq Require Import Permutation Lia.

Local Open Scope N_scope.

(* ------------------------------------------------------------------ *)
(* small helpers                                                       *)
(* ------------------------------------------------------------------ *)
Definition all_u8 (l : list N) : bool := forallb (fun r => r <? 256) l.

Lemma all_u8_Forall l : all_u8 l = true <-> Forall (fun r => r < 256) l.
Proof.
  unfold all_u8. rewrite forallb_forall, Forall_forall. split; intros H x Hx.
  - apply N.ltb_lt. auto.
  - apply N.ltb_lt. auto.
Qed.

Lemma hll_eta s : {| hb := hb s; hregs := hregs s |} = s.
Proof. destruct s; reflexivity. Qed.

(* which of the three Option locals is already filled *)
Definition fset (st : dstate) (k : field) : bool :=
  match k with
  | FRegisters => is_some (d_regs st)
  | FB => is_some (d_b st)
  | FBuildhasher => is_some (d_bh st)
  | FUnknown => false
  end.

(* the value kinds accepted for each key *)
Definition kind_ok (k : field) (v : value) : bool :=
  match k, v with
  | FRegisters, VRegs l => all_u8 l
  | FB, VNum _ => true
  | FBuildhasher, VHasher _ => true
  | _, _ => false
  end.

Lemma dloop_app st d1 d2 : dloop st (d1 ++ d2) = (do st' <- dloop st d1; dloop st' d2).
Proof.
  revert st; induction d1 as [|kv d1 IH]; intros st; simpl; auto.
  destruct (dstep st kv); simpl; auto.
Qed.

(* a successful step fills exactly the slot of its key, which was empty, with an accepted value,
   and leaves the other slots alone *)
Lemma dstep_Some st k v st' :
  dstep st (k, v) = Some st' ->
  fset st k = false /\ fset st' k = true /\ kind_ok k v = true /\
  (forall k', k' <> k -> fset st' k' = fset st k') /\
  (k <> FRegisters -> d_regs st' = d_regs st) /\ (k <> FB -> d_b st' = d_b st) /\
  (k <> FBuildhasher -> d_bh st' = d_bh st) /\
  (k = FRegisters -> exists l, v = VRegs l /\ d_regs st' = Some l) /\
  (k = FB -> exists n, v = VNum n /\ d_b st' = Some n) /\
  (k = FBuildhasher -> exists h, v = VHasher h /\ d_bh st' = Some h).
Proof.
  destruct st as [r b h]. unfold dstep, fset, kind_ok, as_vec_u8, as_usize, as_hasher, all_u8.
  destruct k; cbn [d_regs d_b d_bh]; try discriminate.
  - destruct r; cbn [is_some]; try discriminate. destruct v; cbn [obind]; try discriminate.
    destruct (forallb (fun r => r <? 256) l) eqn:F; cbn [obind]; try discriminate.
    intros E; inversion E; subst; cbn.
    repeat split; try congruence; eauto. intros k' Hk; destruct k'; congruence.
  - destruct b; cbn [is_some]; try discriminate. destruct v; cbn [obind]; try discriminate.
    intros E; inversion E; subst; cbn.
    repeat split; try congruence; eauto. intros k' Hk; destruct k'; congruence.
  - destruct h; cbn [is_some]; try discriminate. destruct v; cbn [obind]; try discriminate.
    intros E; inversion E; subst; cbn.
    repeat split; try congruence; eauto. intros k' Hk; destruct k'; congruence.
Qed.

Lemma field_eq_dec (a b : field) : {a = b} + {a <> b}.
Proof. decide equality. Qed.

Lemma dstep_mono st kv st' k : dstep st kv = Some st' -> fset st k = true -> fset st' k = true.
Proof.
  destruct kv as [k0 v]. intros E H. destruct (dstep_Some _ _ _ _ E) as (H0 & H1 & _ & Ho & _).
  destruct (field_eq_dec k k0) as [->|N]; auto. rewrite Ho; auto.
Qed.

Lemma dloop_mono st d st' k : dloop st d = Some st' -> fset st k = true -> fset st' k = true.
Proof.
  revert st; induction d as [|kv d IH]; intros st; cbn [dloop].
  - intros E; inversion E; auto.
  - destruct (dstep st kv) as [st1|] eqn:E1; cbn [obind]; [|discriminate].
    intros E H. eapply IH; eauto. eapply dstep_mono; eauto.
Qed.

(* once filled, a slot keeps its value *)
Lemma dloop_keep st d st' :
  dloop st d = Some st' ->
  (forall x, d_regs st = Some x -> d_regs st' = Some x) /\
  (forall x, d_b st = Some x -> d_b st' = Some x) /\
  (forall x, d_bh st = Some x -> d_bh st' = Some x).
Proof.
  revert st; induction d as [|[k v] d IH]; intros st; cbn [dloop].
  - intros E; inversion E; auto.
  - destruct (dstep st (k, v)) as [st1|] eqn:E1; cbn [obind]; [|discriminate].
    intros E. destruct (IH _ E) as (I1 & I2 & I3).
    destruct (dstep_Some _ _ _ _ E1) as (F0 & _ & _ & _ & K1 & K2 & K3 & _).
    repeat split; intros x Hx.
    + apply I1. rewrite K1; auto. intros ->. unfold fset in F0. rewrite Hx in F0. discriminate.
    + apply I2. rewrite K2; auto. intros ->. unfold fset in F0. rewrite Hx in F0. discriminate.
    + apply I3. rewrite K3; auto. intros ->. unfold fset in F0. rewrite Hx in F0. discriminate.
Qed.

(* every pair of a successfully consumed document is reflected in the final state *)
Lemma dloop_In st d st' k v :
  dloop st d = Some st' -> In (k, v) d ->
  kind_ok k v = true /\ fset st' k = true /\
  (forall l, v = VRegs l -> k = FRegisters -> d_regs st' = Some l) /\
  (forall n, v = VNum n -> k = FB -> d_b st' = Some n) /\
  (forall h, v = VHasher h -> k = FBuildhasher -> d_bh st' = Some h).
Proof.
  revert st; induction d as [|[k0 v0] d IH]; intros st; cbn [dloop In]; [tauto|].
  destruct (dstep st (k0, v0)) as [st1|] eqn:E1; cbn [obind]; [|discriminate].
  intros E [HIn|HIn]; [|eapply IH; eauto].
  inversion HIn; subst k0 v0.
  destruct (dstep_Some _ _ _ _ E1) as (_ & F1 & KO & _ & _ & _ & _ & S1 & S2 & S3).
  destruct (dloop_keep _ _ _ E) as (I1 & I2 & I3).
  split; [exact KO|]. split; [eapply dloop_mono; eauto|].
  repeat split.
  - intros l -> ->. destruct (S1 eq_refl) as (l' & El & Hl). inversion El; subst. auto.
  - intros n -> ->. destruct (S2 eq_refl) as (n' & En & Hn). inversion En; subst. auto.
  - intros h -> ->. destruct (S3 eq_refl) as (h' & Eh & Hh). inversion Eh; subst. auto.
Qed.

Lemma dloop_regs_u8 st d st' :
  dloop st d = Some st' ->
  (forall l, d_regs st = Some l -> all_u8 l = true) -> forall l, d_regs st' = Some l -> all_u8 l = true.
Proof.
  revert st; induction d as [|[k v] d IH]; intros st; cbn [dloop].
  - intros E; inversion E; auto.
  - destruct (dstep st (k, v)) as [st1|] eqn:E1; cbn [obind]; [|discriminate].
    intros E H. eapply IH; eauto. intros l Hl.
    destruct (dstep_Some _ _ _ _ E1) as (_ & _ & KO & _ & K1 & _ & _ & S1 & _).
    destruct (field_eq_dec k FRegisters) as [->|N].
    + destruct (S1 eq_refl) as (l' & -> & Hl'). rewrite Hl' in Hl. inversion Hl; subst. exact KO.
    + apply H. rewrite <- K1; auto.
Qed.

Lemma dfinish_Some st s h :
  dfinish st = Some (s, h) ->
  d_regs st = Some (hregs s) /\ d_b st = Some (hb s) /\ d_bh st = Some h /\
  4 <= hb s <= 18 /\ lenN (hregs s) = 2 ^ hb s.
Proof.
  unfold dfinish. destruct (d_regs st) as [r|]; cbn [obind]; [|discriminate].
  destruct (d_b st) as [b|]; cbn [obind]; [|discriminate].
  destruct (d_bh st) as [bh|]; cbn [obind]; [|discriminate].
  destruct (N.leb_spec 4 b); cbn [andb negb]; [|discriminate].
  destruct (N.leb_spec b 18); cbn [andb negb]; [|discriminate].
  destruct (N.eqb_spec (lenN r) (2 ^ b)); cbn [negb]; [|discriminate].
  intros E; inversion E; subst; cbn. repeat split; auto.
Qed.

(* ------------------------------------------------------------------ *)
(* round trip                                                          *)
(* ------------------------------------------------------------------ *)
Theorem serde_roundtrip s h : wf s -> deser (ser s h) = Some (s, h).
Proof.
  intros (Hb & Hl & Hr). apply all_u8_Forall in Hr. unfold all_u8 in Hr.
  unfold deser, ser, dloop, dstep, dstate0, as_vec_u8, as_usize, as_hasher.
  cbn [d_regs d_b d_bh is_some obind]. rewrite Hr. cbn [d_regs d_b d_bh is_some obind].
  unfold dfinish. cbn [d_regs d_b d_bh obind].
  destruct (N.leb_spec 4 (hb s)); [|lia]. destruct (N.leb_spec (hb s) 18); [|lia]. cbn [andb negb].
  rewrite Hl, N.eqb_refl. cbn [negb]. rewrite hll_eta. reflexivity.
Qed.

(* ------------------------------------------------------------------ *)
(* whatever deserialises is well formed                                *)
(* ------------------------------------------------------------------ *)
Theorem deser_wf d s h : deser d = Some (s, h) -> wf s.
Proof.
  unfold deser. destruct (dloop dstate0 d) as [st|] eqn:E; cbn [obind]; [|discriminate].
  intros F. destruct (dfinish_Some _ _ _ F) as (Er & _ & _ & Hb & Hl).
  split; [exact Hb|]. split; [exact Hl|].
  apply all_u8_Forall. eapply dloop_regs_u8; eauto. simpl. discriminate.
Qed.

(* ------------------------------------------------------------------ *)
(* error cases                                                         *)
(* ------------------------------------------------------------------ *)
Lemma dloop_unknown st d v : In (FUnknown, v) d -> dloop st d = None.
Proof.
  revert st; induction d as [|kv d IH]; intros st; cbn [dloop In]; [tauto|].
  intros [->|H]; [reflexivity|]. destruct (dstep st kv); simpl; auto.
Qed.

Theorem deser_unknown_field d v : In (FUnknown, v) d -> deser d = None.
Proof. intros H. unfold deser. rewrite (dloop_unknown _ _ _ H). reflexivity. Qed.

Theorem deser_duplicate_field d1 d2 d3 k v v' : deser (d1 ++ (k, v) :: d2 ++ (k, v') :: d3) = None.
Proof.
  unfold deser. rewrite dloop_app. destruct (dloop dstate0 d1) as [st1|]; cbn [obind]; [|reflexivity].
  cbn [dloop]. destruct (dstep st1 (k, v)) as [st2|] eqn:E2; cbn [obind]; [|reflexivity].
  rewrite dloop_app. destruct (dloop st2 d2) as [st3|] eqn:E3; cbn [obind]; [|reflexivity].
  cbn [dloop].
  destruct (dstep_Some _ _ _ _ E2) as (_ & F2 & _).
  pose proof (dloop_mono _ _ _ k E3 F2) as F3.
  destruct (dstep st3 (k, v')) as [st4|] eqn:E4; cbn [obind]; [|reflexivity].
  destruct (dstep_Some _ _ _ _ E4) as (F & _). congruence.
Qed.

Lemma dloop_missing st d st' k :
  dloop st d = Some st' -> fset st k = false -> (forall v, ~ In (k, v) d) -> fset st' k = false.
Proof.
  revert st; induction d as [|[k0 v0] d IH]; intros st; cbn [dloop].
  - intros E; inversion E; auto.
  - destruct (dstep st (k0, v0)) as [st1|] eqn:E1; cbn [obind]; [|discriminate].
    intros E H HN. eapply IH; eauto.
    + destruct (dstep_Some _ _ _ _ E1) as (_ & _ & _ & Ho & _). rewrite Ho; auto.
      intros ->. apply (HN v0). left. reflexivity.
    + intros v Hv. apply (HN v). right. exact Hv.
Qed.

Theorem deser_missing_field d k : k <> FUnknown -> (forall v, ~ In (k, v) d) -> deser d = None.
Proof.
  intros Hk HN. unfold deser. destruct (dloop dstate0 d) as [st|] eqn:E; cbn [obind]; [|reflexivity].
  assert (F : fset st k = false). { eapply dloop_missing; eauto. destruct k; reflexivity. }
  unfold dfinish. destruct k; cbn [fset] in F; try congruence.
  - destruct (d_regs st); [discriminate|reflexivity].
  - destruct (d_regs st); cbn [obind]; auto. destruct (d_b st); [discriminate|reflexivity].
  - destruct (d_regs st); cbn [obind]; auto. destruct (d_b st); cbn [obind]; auto.
    destruct (d_bh st); [discriminate|reflexivity].
Qed.

(* a value of the wrong kind for its key (incl. a register that does not fit u8) *)
Theorem deser_wrong_kind d k v : In (k, v) d -> kind_ok k v = false -> deser d = None.
Proof.
  intros HIn HK. unfold deser. destruct (dloop dstate0 d) as [st|] eqn:E; cbn [obind]; [|reflexivity].
  destruct (dloop_In _ _ _ _ _ E HIn) as (KO & _). congruence.
Qed.

Theorem deser_b_out_of_range d b : In (FB, VNum b) d -> ~ (4 <= b <= 18) -> deser d = None.
Proof.
  intros HIn Hb. destruct (deser d) as [[s h]|] eqn:E; [|reflexivity]. exfalso.
  unfold deser in E. destruct (dloop dstate0 d) as [st|] eqn:EL; cbn [obind] in E; [|discriminate].
  destruct (dloop_In _ _ _ _ _ EL HIn) as (_ & _ & _ & Sb & _).
  destruct (dfinish_Some _ _ _ E) as (_ & Eb & _ & Hr & _).
  rewrite (Sb b eq_refl eq_refl) in Eb. inversion Eb. lia.
Qed.

Theorem deser_length_mismatch d b l :
  In (FB, VNum b) d -> In (FRegisters, VRegs l) d -> lenN l <> 2 ^ b -> deser d = None.
Proof.
  intros HIb HIr Hl. destruct (deser d) as [[s h]|] eqn:E; [|reflexivity]. exfalso.
  unfold deser in E. destruct (dloop dstate0 d) as [st|] eqn:EL; cbn [obind] in E; [|discriminate].
  destruct (dloop_In _ _ _ _ _ EL HIb) as (_ & _ & _ & Sb & _).
  destruct (dloop_In _ _ _ _ _ EL HIr) as (_ & _ & Sr & _).
  destruct (dfinish_Some _ _ _ E) as (Er & Eb & _ & _ & Hlen).
  rewrite (Sb b eq_refl eq_refl) in Eb. rewrite (Sr l eq_refl eq_refl) in Er.
  inversion Eb. inversion Er. congruence.
Qed.

(* ------------------------------------------------------------------ *)
(* field order is irrelevant; complete characterisation of success     *)
(* ------------------------------------------------------------------ *)
(* the number of filled slots grows by one per consumed pair *)
Definition nset (st : dstate) : nat :=
  (if is_some (d_regs st) then 1 else 0) + (if is_some (d_b st) then 1 else 0) + (if is_some (d_bh st) then 1 else 0).

Lemma dstep_nset st kv st' : dstep st kv = Some st' -> nset st' = S (nset st).
Proof.
  destruct kv as [k v]. intros E.
  destruct (dstep_Some _ _ _ _ E) as (F0 & F1 & _ & Ho & _).
  pose proof (Ho FRegisters) as O1. pose proof (Ho FB) as O2. pose proof (Ho FBuildhasher) as O3.
  unfold nset. cbn [fset] in *.
  destruct k; cbn [fset] in F0, F1; try discriminate.
  - rewrite F0, F1, O2, O3 by discriminate. reflexivity.
  - rewrite F0, F1, O1, O3 by discriminate. destruct (is_some (d_regs st)); reflexivity.
  - rewrite F0, F1, O1, O2 by discriminate.
    destruct (is_some (d_regs st)), (is_some (d_b st)); reflexivity.
Qed.

Lemma dloop_nset st d st' : dloop st d = Some st' -> nset st' = (nset st + length d)%nat.
Proof.
  revert st; induction d as [|kv d IH]; intros st; cbn [dloop].
  - intros E; inversion E; simpl; lia.
  - destruct (dstep st kv) as [st1|] eqn:E1; cbn [obind]; [|discriminate].
    intros E. rewrite (IH _ E), (dstep_nset _ _ _ E1). simpl. lia.
Qed.

Lemma nset_le3 st : (nset st <= 3)%nat.
Proof. unfold nset. destruct (is_some _), (is_some _), (is_some _); simpl; lia. Qed.

Ltac perm3 :=
  first [ apply Permutation_refl
        | apply perm_swap
        | apply perm_skip; apply perm_swap
        | eapply perm_trans; [apply perm_swap|]; apply perm_skip; apply perm_swap
        | eapply perm_trans; [apply perm_skip; apply perm_swap|]; apply perm_swap
        | eapply perm_trans; [apply perm_swap|]; eapply perm_trans; [apply perm_skip; apply perm_swap|];
          apply perm_swap ].

(* deserialisation succeeds exactly on the documents that carry the three fields of a well-formed value,
   once each, in any order *)
Theorem deser_spec d s h : deser d = Some (s, h) <-> Permutation d (ser s h) /\ wf s.
Proof.
  split.
  - intros E. split; [|eapply deser_wf; eauto].
    unfold deser in E. destruct (dloop dstate0 d) as [st|] eqn:EL; cbn [obind] in E; [|discriminate].
    destruct (dfinish_Some _ _ _ E) as (Er & Eb & Eh & _).
    pose proof (dloop_nset _ _ _ EL) as Hn.
    assert (N3 : nset st = 3%nat). { unfold nset. rewrite Er, Eb, Eh. reflexivity. }
    change (nset dstate0) with 0%nat in Hn. rewrite N3 in Hn.
    destruct d as [|[k1 v1] [|[k2 v2] [|[k3 v3] [|? ?]]]]; simpl in Hn; try lia.
    assert (I1 := dloop_In _ _ _ k1 v1 EL (or_introl eq_refl)).
    assert (I2 := dloop_In _ _ _ k2 v2 EL (or_intror (or_introl eq_refl))).
    assert (I3 := dloop_In _ _ _ k3 v3 EL (or_intror (or_intror (or_introl eq_refl)))).
    destruct I1 as (K1 & _ & R1 & B1 & H1). destruct I2 as (K2 & _ & R2 & B2 & H2).
    destruct I3 as (K3 & _ & R3 & B3 & H3).
    (* the three keys are pairwise distinct, else the loop fails with duplicate_field *)
    assert (D12 : k1 <> k2).
    { intros ->. pose proof (deser_duplicate_field [] [] [(k3, v3)] k2 v1 v2) as X.
      unfold deser in X. simpl app in X. rewrite EL in X. cbn [obind] in X. congruence. }
    assert (D13 : k1 <> k3).
    { intros ->. pose proof (deser_duplicate_field [] [(k2, v2)] [] k3 v1 v3) as X.
      unfold deser in X. simpl app in X. rewrite EL in X. cbn [obind] in X. congruence. }
    assert (D23 : k2 <> k3).
    { intros ->. pose proof (deser_duplicate_field [(k1, v1)] [] [] k3 v2 v3) as X.
      unfold deser in X. simpl app in X. rewrite EL in X. cbn [obind] in X. congruence. }
    unfold ser.
    destruct k1, v1; try discriminate K1; destruct k2, v2; try discriminate K2; try congruence;
      destruct k3, v3; try discriminate K3; try congruence;
      repeat match goal with
             | H : forall l, VRegs ?x = VRegs l -> FRegisters = FRegisters -> _ |- _ =>
                 pose proof (H x eq_refl eq_refl); clear H
             | H : forall n, VNum ?x = VNum n -> FB = FB -> _ |- _ =>
                 pose proof (H x eq_refl eq_refl); clear H
             | H : forall n, VHasher ?x = VHasher n -> FBuildhasher = FBuildhasher -> _ |- _ =>
                 pose proof (H x eq_refl eq_refl); clear H
             end;
      repeat match goal with
             | H1 : ?a = Some ?x, H2 : ?a = Some ?y |- _ =>
                 assert (x = y) by congruence; subst; clear H1
             end;
      perm3.
  - intros [P W]. destruct W as (Hb & Hl & Hr). apply all_u8_Forall in Hr. unfold all_u8 in Hr.
    assert (L : length d = 3%nat) by (apply Permutation_length in P; exact P).
    destruct d as [|x [|y [|z [|? ?]]]]; try discriminate L.
    assert (Hx : In x (ser s h)) by (eapply Permutation_in; [exact P|simpl; auto]).
    assert (Hy : In y (ser s h)) by (eapply Permutation_in; [exact P|simpl; auto]).
    assert (Hz : In z (ser s h)) by (eapply Permutation_in; [exact P|simpl; auto]).
    assert (ND : NoDup [x; y; z]).
    { eapply Permutation_NoDup; [apply Permutation_sym; exact P|].
      unfold ser. repeat constructor; simpl; intuition discriminate. }
    inversion ND as [|? ? Nx ND']; subst. inversion ND' as [|? ? Ny _]; subst.
    unfold ser in Hx, Hy, Hz. simpl in Hx, Hy, Hz, Nx, Ny.
    destruct Hx as [<-|[<-|[<-|[]]]]; destruct Hy as [<-|[<-|[<-|[]]]]; try (exfalso; tauto);
      destruct Hz as [<-|[<-|[<-|[]]]]; try (exfalso; tauto);
      unfold deser, dloop, dstep, dstate0, as_vec_u8, as_usize, as_hasher;
      cbn [d_regs d_b d_bh is_some obind]; rewrite Hr; cbn [d_regs d_b d_bh is_some obind];
      unfold dfinish; cbn [d_regs d_b d_bh obind];
      (destruct (N.leb_spec 4 (hb s)); [|lia]); (destruct (N.leb_spec (hb s) 18); [|lia]); cbn [andb negb];
      rewrite Hl, N.eqb_refl; cbn [negb]; rewrite hll_eta; reflexivity.
Qed.

Theorem deser_field_order s h d : wf s -> Permutation d (ser s h) -> deser d = deser (ser s h).
Proof.
  intros W P. rewrite (serde_roundtrip s h W). apply deser_spec. auto.
Qed.

(* without well-formedness both sides fail together *)
Theorem deser_field_order_gen s h d : Permutation d (ser s h) -> deser d = deser (ser s h).
Proof.
  intros P. destruct (deser d) as [[s1 h1]|] eqn:E1.
  - apply deser_spec in E1. destruct E1 as [P1 W1].
    assert (P2 : Permutation (ser s h) (ser s1 h1)).
    { eapply perm_trans; [apply Permutation_sym; exact P|exact P1]. }
    symmetry. apply deser_spec. auto.
  - destruct (deser (ser s h)) as [[s2 h2]|] eqn:E2; [|reflexivity].
    apply deser_spec in E2. destruct E2 as [P2 W2].
    assert (X : deser d = Some (s2, h2)).
    { apply deser_spec. split; [|exact W2]. eapply perm_trans; eauto. }
    congruence.
Qed.

(* ------------------------------------------------------------------ *)
(* a validated value never panics                                      *)
(* ------------------------------------------------------------------ *)
Lemma Forall_upd {X} (P : X -> Prop) l i v : Forall P l -> P v -> Forall P (upd l i v).
Proof.
  intros H Hv. revert i. induction H as [|x l Hx Hl IH]; intros [|i]; simpl; constructor; auto.
Qed.

Lemma Forall_maxl (a b : list N) n :
  Forall (fun r => r < n) a -> Forall (fun r => r < n) b -> Forall (fun r => r < n) (maxl a b).
Proof.
  intros Ha. revert b. induction Ha as [|x a Hx _ IH]; intros b Hb; simpl; [constructor|].
  destruct Hb as [|y b Hy Hb]; constructor; [lia|]. apply IH. exact Hb.
Qed.

Theorem add_hashed_total s hash : wf s -> exists s', hll_add_hashed s hash = Some s'.
Proof.
  intros (Hb & Hl & _). unfold hll_add_hashed.
  pose proof (hll_index_lt (hb s) hash) as Hi.
  unfold getN. destruct (nth_error (hregs s) (N.to_nat (hll_index (hb s) hash))) as [old|] eqn:E.
  - eauto.
  - apply nth_error_None in E. unfold lenN in Hl. lia.
Qed.

Theorem add_hashed_wf s hash s' : wf s -> hash < 2 ^ 64 -> hll_add_hashed s hash = Some s' -> wf s'.
Proof.
  intros (Hb & Hl & Hr) Hh. unfold hll_add_hashed.
  destruct (getN (hregs s) (hll_index (hb s) hash)) as [old|] eqn:E; [|discriminate].
  intros X; inversion X; subst; clear X. unfold wf; cbn [hb hregs].
  split; [exact Hb|]. split.
  - unfold lenN in *. rewrite upd_length. exact Hl.
  - apply Forall_upd; [exact Hr|].
    assert (Ho : old < 256).
    { rewrite Forall_forall in Hr. apply Hr. unfold getN in E. eapply nth_error_In; eauto. }
    pose proof (hll_rank_bounds (hb s) hash ltac:(lia) Hh) as Hk. lia.
Qed.

Theorem merge_total s s' : hb s = hb s' -> exists r, hll_merge s s' = Some r.
Proof. intros E. unfold hll_merge. rewrite E, N.eqb_refl. eauto. Qed.

Theorem merge_wf s s' r : wf s -> wf s' -> hll_merge s s' = Some r -> wf r.
Proof.
  intros (Hb & Hl & Hr) (Hb' & Hl' & Hr'). unfold hll_merge.
  destruct (N.eqb_spec (hb s) (hb s')) as [E|]; [|discriminate].
  intros X; inversion X; subst; clear X. unfold wf; cbn [hb hregs].
  split; [exact Hb|]. split.
  - unfold lenN in *. rewrite maxl_length. rewrite <- E in Hl'. lia.
  - apply Forall_maxl; auto.
Qed.

(* everything a deserialised (or otherwise well-formed) sketch can be asked to do returns normally;
   count() with the comparability proviso of Proofs/HllCountProofs.v (here: a totally ordered carrier) *)
Theorem wf_no_panic (A : arith) ofN ln trunc s :
  wf s -> leb_total A ->
  (forall hash, hll_add_hashed s hash <> None) /\
  (forall s', hb s = hb s' -> hll_merge s s' <> None) /\
  h_count A ofN ln trunc (hb s) (hregs s) <> None.
Proof.
  intros W Ht. repeat split.
  - intros hash. destruct (add_hashed_total s hash W) as [s' E]. congruence.
  - intros s' E. destruct (merge_total s s' E) as [r Er]. congruence.
  - destruct W as (Hb & Hl & Hr).
    destruct (count_total A ofN ln trunc (hb s) (hregs s) Ht Hb Hl Hr) as [c Ec]. congruence.
Qed.

Corollary deser_no_panic (A : arith) ofN ln trunc d s h :
  deser d = Some (s, h) -> leb_total A ->
  (forall hash, hll_add_hashed s hash <> None) /\
  (forall s', hb s = hb s' -> hll_merge s s' <> None) /\
  h_count A ofN ln trunc (hb s) (hregs s) <> None.
Proof. intros E. apply wf_no_panic. eapply deser_wf; eauto. Qed.

(* ------------------------------------------------------------------ *)
(* examples                                                            *)
(* ------------------------------------------------------------------ *)
Definition ex_s : hll := {| hb := 4; hregs := [1; 0; 3; 0; 0; 2; 0; 0; 0; 0; 7; 0; 0; 0; 0; 1] |}.
Example ex_wf : wf ex_s.
Proof. unfold wf, ex_s; cbn [hb hregs]. split; [lia|]. split; [reflexivity|]. repeat constructor. Qed.
Example ex_roundtrip : deser (ser ex_s 99) = Some (ex_s, 99).
Proof. vm_compute. reflexivity. Qed.
Example ex_order :
  deser [(FBuildhasher, VHasher 99); (FRegisters, VRegs (hregs ex_s)); (FB, VNum 4)] = Some (ex_s, 99).
Proof. vm_compute. reflexivity. Qed.
Example ex_dup : deser [(FB, VNum 4); (FRegisters, VRegs (hregs ex_s)); (FB, VNum 4); (FBuildhasher, VHasher 99)] = None.
Proof. vm_compute. reflexivity. Qed.
Example ex_missing : deser [(FRegisters, VRegs (hregs ex_s)); (FB, VNum 4)] = None.
Proof. vm_compute. reflexivity. Qed.
Example ex_unknown : deser (ser ex_s 99 ++ [(FUnknown, VNum 0)]) = None.
Proof. vm_compute. reflexivity. Qed.
Example ex_b_range : deser [(FRegisters, VRegs [0; 0; 0; 0; 0; 0; 0; 0]); (FB, VNum 3); (FBuildhasher, VHasher 99)] = None.
Proof. vm_compute. reflexivity. Qed.
Example ex_len : deser [(FRegisters, VRegs [0; 0; 0]); (FB, VNum 4); (FBuildhasher, VHasher 99)] = None.
Proof. vm_compute. reflexivity. Qed.
Example ex_u8 : deser [(FRegisters, VRegs (256 :: tl (hregs ex_s))); (FB, VNum 4); (FBuildhasher, VHasher 99)] = None.
Proof. vm_compute. reflexivity. Qed.
Example ex_kind : deser [(FRegisters, VNum 5); (FB, VNum 4); (FBuildhasher, VHasher 99)] = None.
Proof. vm_compute. reflexivity. Qed.
Example ex_no_panic : h_count QNum QofN ln_stub Qtrunc (hb ex_s) (hregs ex_s) <> None.
Proof. apply (wf_no_panic QNum QofN ln_stub Qtrunc ex_s ex_wf QNum_leb_total). Qed.

Print Assumptions serde_roundtrip.
Print Assumptions deser_wf.
Print Assumptions deser_spec.
Print Assumptions deser_field_order.
Print Assumptions deser_field_order_gen.
Print Assumptions deser_unknown_field.
Print Assumptions deser_duplicate_field.
Print Assumptions deser_missing_field.
Print Assumptions deser_wrong_kind.
Print Assumptions deser_b_out_of_range.
Print Assumptions deser_length_mismatch.
Print Assumptions add_hashed_wf.
Print Assumptions merge_wf.
Print Assumptions wf_no_panic.
Print Assumptions deser_no_panic.
