(* Proofs/TDigestSizeR.v — property C04 (size part) for the t-digest model over the REAL numbers:
   the greedy merge pass [greedy] / [td_merge] of Model/TDigest.v at the instance [RNum] of
   Proofs/HllCountReal.v, and the crate's default scale function K1 (arcsine).

   Contents
     0. helpers
     1. elementary facts about [greedy] at RNum
     2. abstract scale function (f, lim) over R: [greedy_pairs], [greedy_length], [merge_width]
     3. lift to [td_merge], [td_insert_weighted] and whole histories ([td_steps_size], ...)
     4. K1 over R: [k1_f], [k1_finv], [k1_lim]; [k1_f_0], [k1_f_1], [k1_mono], [k1_lim_exceed];
        [k1_size], [k1_merge_size], [k1_history_size], [k1_history_merge_size], [k1_history_ncentroids], [C04_size_k1]
     5. K0 over R (same conclusions)
     6. examples (symbolic; reals do not compute)

   This is the port of Proofs/TDigestSize.v (exact rationals, axiom-free) to R.  EXCEPTION to AGENT_GUIDE
   (granted for this file): [Reals] is imported, hence every theorem depends on the standard library's
   classical-reals assumptions (see the [Print Assumptions] at the end); no Interval, no Coquelicot. *)
From PDS Require Import Model.TDigest Proofs.HllCountReal.
From Coq Require Import Reals Lra Lia List Permutation.
Import ListNotations.
Local Open Scope R_scope.

(* ------------------------------------------------------------------------------------------ *)
(** * 0. Small helpers *)

Arguments tcent {_} _. Arguments tback {_} _. Arguments tn {_} _. Arguments tmn {_} _. Arguments tmx {_} _. Arguments tmaxb {_} _.

Definition rtd := td RNum.
Definition rc := (R * R)%type.            (* = centroid RNum, (sum, count) *)
Definition posc (c : rc) : Prop := 0 < snd c.
Fixpoint wsum (l : list rc) : R := match l with [] => 0 | c :: t => snd c + wsum t end.

Lemma total_wsum_gen (l : list rc) (a : R) :
  fold_left (fun (a : R) (c : rc) => a + snd c) l a = a + wsum l.
Proof. revert a. induction l as [|c t IH]; intros a; simpl.
  - lra.
  - rewrite IH. lra. Qed.

Lemma total_wsum (l : list rc) : total RNum l = wsum l.
Proof. unfold total. change (fold_left (fun (a : R) (c : rc) => a + snd c) l 0 = wsum l).
  rewrite total_wsum_gen. lra. Qed.

Lemma wsum_nonneg l : Forall posc l -> 0 <= wsum l.
Proof. induction 1 as [|c t Hc Ht IH]; simpl; [lra|]. unfold posc in Hc. lra. Qed.

Lemma wsum_pos c l : Forall posc (c :: l) -> 0 < wsum (c :: l).
Proof. intros H. inversion H as [|? ? Hc Ht]; subst. apply wsum_nonneg in Ht. unfold posc in Hc. simpl. lra. Qed.

Lemma wsum_app l1 l2 : wsum (l1 ++ l2) = wsum l1 + wsum l2.
Proof. induction l1 as [|c t IH]; simpl; [lra|]. rewrite IH. lra. Qed.

(* unfolding equation of [greedy] at the R instance, in plain R operations *)
Lemma greedy_cons lim n (s q0 qlim : R) (cur nx : rc) (r : list rc) :
  greedy RNum lim n s q0 qlim cur (nx :: r) =
  if Rle_dec (q0 + (snd cur + snd nx) / s) qlim
  then greedy RNum lim n s q0 qlim (fst cur + fst nx, snd cur + snd nx) r
  else cur :: greedy RNum lim n s (q0 + snd cur / s) (lim n (q0 + snd cur / s)) nx r.
Proof.
  change (greedy RNum lim n s q0 qlim cur (nx :: r)) with
    (if (if Rle_dec (q0 + (snd cur + snd nx) / s) qlim then true else false)
     then greedy RNum lim n s q0 qlim (fst cur + fst nx, snd cur + snd nx) r
     else cur :: greedy RNum lim n s (q0 + snd cur / s) (lim n (q0 + snd cur / s)) nx r).
  destruct (Rle_dec _ _); reflexivity. Qed.

Lemma greedy_nil lim n (s q0 qlim : R) (cur : rc) : greedy RNum lim n s q0 qlim cur [] = [cur].
Proof. reflexivity. Qed.

(* ------------------------------------------------------------------------------------------ *)
(** * 1. Facts about [greedy] that hold for every [lim] *)

Section GreedyBasic.
Variable lim : N -> R -> R.

(* weight conservation *)
Lemma greedy_wsum n (s : R) (rest : list rc) : forall (q0 qlim : R) (cur : rc),
  wsum (greedy RNum lim n s q0 qlim cur rest) = snd cur + wsum rest.
Proof. induction rest as [|nx r IH]; intros q0 qlim cur.
  - rewrite greedy_nil. simpl. lra.
  - rewrite greedy_cons. destruct (Rle_dec _ _).
    + rewrite IH. simpl. lra.
    + simpl. rewrite IH. lra. Qed.

(* sum conservation (not needed for the size bound; recorded because it is free) *)
Fixpoint ssum (l : list rc) : R := match l with [] => 0 | c :: t => fst c + ssum t end.
Lemma greedy_ssum n (s : R) (rest : list rc) : forall (q0 qlim : R) (cur : rc),
  ssum (greedy RNum lim n s q0 qlim cur rest) = fst cur + ssum rest.
Proof. induction rest as [|nx r IH]; intros q0 qlim cur.
  - rewrite greedy_nil. simpl. lra.
  - rewrite greedy_cons. destruct (Rle_dec _ _).
    + rewrite IH. simpl. lra.
    + simpl. rewrite IH. lra. Qed.

(* counts stay positive *)
Lemma greedy_pos n (s : R) (rest : list rc) : forall (q0 qlim : R) (cur : rc),
  posc cur -> Forall posc rest -> Forall posc (greedy RNum lim n s q0 qlim cur rest).
Proof. induction rest as [|nx r IH]; intros q0 qlim cur Hc Hr.
  - rewrite greedy_nil. constructor; [assumption|constructor].
  - inversion Hr as [|? ? Hnx Hr']; subst. rewrite greedy_cons. destruct (Rle_dec _ _).
    + apply IH; [|assumption]. unfold posc in *. simpl. lra.
    + constructor; [assumption|]. apply IH; assumption. Qed.

(* the output is never empty, and its first centroid weighs at least [cur] *)
Lemma greedy_hd n (s : R) (rest : list rc) : forall (q0 qlim : R) (cur : rc), Forall posc rest ->
  exists (c : rc) (t : list rc), greedy RNum lim n s q0 qlim cur rest = c :: t /\ snd cur <= snd c.
Proof. induction rest as [|nx r IH]; intros q0 qlim cur Hr.
  - rewrite greedy_nil. exists cur, []. split; [reflexivity|lra].
  - inversion Hr as [|? ? Hnx Hr']; subst. rewrite greedy_cons. destruct (Rle_dec _ _).
    + destruct (IH q0 qlim (fst cur + fst nx, snd cur + snd nx) Hr') as (c & t & E & Hle).
      exists c, t. split; [assumption|]. unfold posc in Hnx. simpl in Hle. lra.
    + eexists _, _. split; [reflexivity|lra]. Qed.

(* the output is no longer than the input *)
Lemma greedy_length_le n (s : R) (rest : list rc) : forall (q0 qlim : R) (cur : rc),
  (length (greedy RNum lim n s q0 qlim cur rest) <= S (length rest))%nat.
Proof. induction rest as [|nx r IH]; intros q0 qlim cur.
  - rewrite greedy_nil. simpl. lia.
  - rewrite greedy_cons. destruct (Rle_dec _ _); simpl.
    + specialize (IH q0 qlim (fst cur + fst nx, snd cur + snd nx)). lia.
    + specialize (IH (q0 + snd cur / s) (lim n (q0 + snd cur / s)) nx). lia. Qed.
End GreedyBasic.

(* ------------------------------------------------------------------------------------------ *)
(** * 2. Abstract scale function *)

Section Abstract.
Variable f : R -> R.
Variable lim : N -> R -> R.
(* f is non-decreasing on [0,1] *)
Hypothesis Hmono : forall a b, 0 <= a -> a <= b -> b <= 1 -> f a <= f b.
(* exceeding the limit computed at q0 means the k-scale advanced by more than 1 *)
Hypothesis Hlim : forall n q0 q, 0 <= q0 -> q0 <= q -> q <= 1 -> lim n q0 < q -> f q0 + 1 < f q.

Section FixedS.
Variable s : R.
Hypothesis Hs : 0 < s.

Lemma div_add a b : (a + b) / s = a / s + b / s.
Proof. field. lra. Qed.
Lemma div_pos a : 0 < a -> 0 < a / s.
Proof. intros H. apply Rdiv_lt_0_compat; assumption. Qed.
Lemma div_nonneg a : 0 <= a -> 0 <= a / s.
Proof. intros H. unfold Rdiv. apply Rmult_le_pos; [assumption|]. apply Rlt_le, Rinv_0_lt_compat, Hs. Qed.
Lemma div_le a b : a <= b -> a / s <= b / s.
Proof. intros H. unfold Rdiv. apply Rmult_le_compat_r; [|assumption]. apply Rlt_le, Rinv_0_lt_compat, Hs. Qed.
Lemma div_self : s / s = 1.
Proof. field. lra. Qed.

(* the quantile edges of an emitted list that starts at quantile q0:
   [edges q0 [C_0;...;C_m] = [Q_0; Q_1; ...; Q_{m+1}]], Q_0 = q0, Q_{i+1} = Q_i + count C_i / s *)
Fixpoint edges (q0 : R) (out : list rc) : list R :=
  match out with [] => [q0] | c :: t => q0 :: edges (q0 + snd c / s) t end.

Lemma edges_length q0 out : length (edges q0 out) = S (length out).
Proof. revert q0. induction out as [|c t IH]; intros q0; simpl; [reflexivity|]. rewrite IH. reflexivity. Qed.

Lemma edges_hd q0 out : exists t, edges q0 out = q0 :: t.
Proof. destruct out; simpl; eexists; reflexivity. Qed.

Lemma edges_bounds out : forall q0, Forall posc out ->
  Forall (fun x => q0 <= x /\ x <= q0 + wsum out / s) (edges q0 out).
Proof. induction out as [|c t IH]; intros q0 Hp; simpl.
  - constructor; [|constructor]. assert (H := div_nonneg 0). lra.
  - inversion Hp as [|? ? Hc Ht]; subst. unfold posc in Hc.
    assert (Hw := wsum_nonneg _ Ht). assert (H1 := div_pos _ Hc). assert (H2 := div_nonneg _ Hw).
    assert (H3 := div_add (snd c) (wsum t)).
    constructor; [lra|]. specialize (IH (q0 + snd c / s) Ht).
    eapply Forall_impl; [|exact IH]. cbv beta. intros x [Hx1 Hx2]. lra. Qed.

(* every left edge Q_i and the edge two places further satisfy f(Q_i) + 1 < f(Q_{i+2}) *)
Fixpoint pairs_ok (E : list R) : Prop :=
  match E with
  | [] => True
  | a :: t => match t with _ :: c :: _ => f a + 1 < f c | _ => True end /\ pairs_ok t
  end.

Lemma pairs_ok_nth E : pairs_ok E -> forall i, (S (S i) < length E)%nat -> f (nth i E 0) + 1 < f (nth (S (S i)) E 0).
Proof. clear Hmono Hlim Hs. induction E as [|a t IH]; intros HP i Hi; simpl in Hi; [lia|].
  destruct HP as [H0 HP]. destruct i as [|i].
  - destruct t as [|b [|c t']]; simpl in Hi; try lia. exact H0.
  - change (f (nth i t 0) + 1 < f (nth (S (S i)) t 0)). apply IH; [assumption|lia]. Qed.

(** [greedy_pairs], general state: the pass is at left edge q0 with the invariant qlim = lim n q0. *)
Lemma greedy_pairs_gen n (rest : list rc) : forall (q0 : R) (cur : rc),
  0 <= q0 -> posc cur -> Forall posc rest -> q0 + (snd cur + wsum rest) / s <= 1 ->
  pairs_ok (edges q0 (greedy RNum lim n s q0 (lim n q0) cur rest)).
Proof. induction rest as [|nx r IH]; intros q0 cur Hq0 Hc Hr Hle.
  - rewrite greedy_nil. simpl. auto.
  - inversion Hr as [|? ? Hnx Hr']; subst. unfold posc in Hc, Hnx. simpl in Hle.
    rewrite greedy_cons. destruct (Rle_dec _ _) as [E|Hex].
    + apply IH; try assumption.
      * unfold posc. simpl. lra.
      * simpl. assert (H := div_add (snd cur + snd nx) (wsum r)). assert (H' := div_add (snd cur) (snd nx + wsum r)).
        assert (H'' := div_add (snd cur) (snd nx)). assert (H3 := div_add (snd nx) (wsum r)). lra.
    + set (q1 := q0 + snd cur / s).
      assert (Hcs := div_pos _ Hc). assert (Hq1 : 0 <= q1) by (unfold q1; lra).
      assert (Hle1 : q1 + (snd nx + wsum r) / s <= 1).
      { unfold q1. assert (H' := div_add (snd cur) (snd nx + wsum r)). lra. }
      assert (IH' := IH q1 nx Hq1 Hnx Hr' Hle1).
      destruct (greedy_hd lim n s r q1 (lim n q1) nx Hr') as (c1 & t1 & EG & Hc1).
      assert (HposG := greedy_pos lim n s r q1 (lim n q1) nx Hnx Hr').
      assert (HwG := greedy_wsum lim n s r q1 (lim n q1) nx).
      rewrite EG in *. simpl. split; [|exact IH'].
      destruct (edges_hd (q0 + snd cur / s + snd c1 / s) t1) as [t' Et]. rewrite Et.
      inversion HposG as [|? ? Hpc1 Hpt1]; subst. assert (Hwt := wsum_nonneg _ Hpt1). simpl in HwG.
      assert (D1 := div_add (snd cur) (snd nx)). assert (D2 := div_le _ _ Hc1).
      assert (D3 : snd c1 / s <= (snd nx + wsum r) / s) by (apply div_le; lra).
      unfold posc in Hpc1. assert (D4 := div_pos _ Hpc1).
      apply (Hlim n); unfold q1 in *; lra. Qed.

(** [greedy_pairs]: run from q0 = 0 on a list of total weight s with positive counts.
    With [E = edges 0 out = [Q_0; ...; Q_{m+1}]]: f(Q_i) + 1 < f(Q_{i+2}) whenever i+2 <= m+1. *)
Theorem greedy_pairs n (cur : rc) (rest : list rc) :
  Forall posc (cur :: rest) -> s = wsum (cur :: rest) ->
  let E := edges 0 (greedy RNum lim n s 0 (lim n 0) cur rest) in
  forall i, (S (S i) < length E)%nat -> f (nth i E 0) + 1 < f (nth (S (S i)) E 0).
Proof. intros Hp Hsum E. apply pairs_ok_nth. unfold E. inversion Hp as [|c' l' Hc Hr]; subst c' l'.
  apply greedy_pairs_gen; try assumption; [lra|]. simpl in Hsum. rewrite <- Hsum.
  assert (H := div_self). lra. Qed.

(* from the pair property to the length bound: a potential argument *)
Lemma pairs_len E : forall a b, pairs_ok (a :: b :: E) -> Forall (fun x => f x <= f 1) (a :: b :: E) ->
  INR (length (a :: b :: E)) <= 2 * f 1 - f a - f b + 2.
Proof. induction E as [|c E' IH]; intros a b HP HF.
  - inversion HF as [|? ? Ha HF']; subst. inversion HF' as [|? ? Hb _]; subst.
    change (INR (length [a; b])) with (1 + 1). lra.
  - destruct HP as [Hac HP]. inversion HF as [|? ? Ha HF']; subst.
    specialize (IH b c HP HF').
    change (length (a :: b :: c :: E')) with (S (length (b :: c :: E'))). rewrite S_INR. lra. Qed.

(** Length of the output of one greedy pass started at quantile 0: at most 2*(f 1 - f 0) + 1. *)
Theorem greedy_length n (cur : rc) (rest : list rc) :
  Forall posc (cur :: rest) -> s = wsum (cur :: rest) ->
  INR (length (greedy RNum lim n s 0 (lim n 0) cur rest)) <= 2 * (f 1 - f 0) + 1.
Proof. intros Hp Hsum. inversion Hp as [|c' l' Hc Hr]; subst c' l'. simpl in Hsum.
  assert (Hss := div_self).
  assert (HP : pairs_ok (edges 0 (greedy RNum lim n s 0 (lim n 0) cur rest))).
  { apply greedy_pairs_gen; try assumption; [lra|]. rewrite <- Hsum. lra. }
  assert (HposG := greedy_pos lim n s rest 0 (lim n 0) cur Hc Hr).
  assert (HwG := greedy_wsum lim n s rest 0 (lim n 0) cur).
  assert (HB := edges_bounds _ 0 HposG).
  assert (HF : Forall (fun x => f x <= f 1) (edges 0 (greedy RNum lim n s 0 (lim n 0) cur rest))).
  { eapply Forall_impl; [|exact HB]. cbv beta. intros x [Hx1 Hx2]. apply Hmono; try lra.
    rewrite HwG, <- Hsum in Hx2. lra. }
  assert (HL := edges_length 0 (greedy RNum lim n s 0 (lim n 0) cur rest)).
  destruct (greedy_hd lim n s rest 0 (lim n 0) cur Hr) as (c1 & t1 & EG & Hc1).
  rewrite EG in *. simpl in HP, HF, HL, HB, HwG.
  destruct (edges_hd (0 + snd c1 / s) t1) as [t' Et]. rewrite Et in *.
  assert (HPL := pairs_len t' 0 (0 + snd c1 / s) HP HF).
  cbn [length] in HPL, HL |- *. injection HL as HL.
  assert (HL' : @length (centroid RNum) t1 = length t') by (symmetry; exact HL). rewrite HL'.
  rewrite (S_INR (S (length t'))) in HPL.
  assert (f 0 <= f (0 + snd c1 / s)).
  { inversion HB as [|? ? _ HB']; subst. inversion HB' as [|? ? [Hb1 Hb2] _]; subst.
    apply Hmono; try lra. rewrite HwG, <- Hsum in Hb2. lra. }
  revert HPL. generalize (INR (S (length t'))). intros L HPL. lra. Qed.

(** Width: every output centroid either is one of the input centroids (emitted as is) or satisfies
    the width constraint at its left edge, Q_i + count C_i / s <= lim n Q_i. *)
Fixpoint width_ok (n : N) (inputs : list rc) (q0 : R) (out : list rc) : Prop :=
  match out with
  | [] => True
  | c :: t => (In c inputs \/ q0 + snd c / s <= lim n q0) /\ width_ok n inputs (q0 + snd c / s) t
  end.

Lemma greedy_width_gen n (inputs rest : list rc) : forall (q0 : R) (cur : rc),
  incl rest inputs -> (In cur inputs \/ q0 + snd cur / s <= lim n q0) ->
  width_ok n inputs q0 (greedy RNum lim n s q0 (lim n q0) cur rest).
Proof. induction rest as [|nx r IH]; intros q0 cur Hin Hcur.
  - rewrite greedy_nil. simpl. auto.
  - assert (Hnx : In nx inputs) by (apply Hin; left; reflexivity).
    assert (Hin' : incl r inputs) by (intros x Hx; apply Hin; right; assumption).
    rewrite greedy_cons. destruct (Rle_dec _ _) as [E|E].
    + apply IH; [assumption|]. right. exact E.
    + simpl. split; [assumption|]. apply IH; [assumption|]. left. assumption. Qed.

Theorem greedy_width n (cur : rc) (rest : list rc) :
  width_ok n (cur :: rest) 0 (greedy RNum lim n s 0 (lim n 0) cur rest).
Proof. apply greedy_width_gen; [apply incl_tl, incl_refl | left; left; reflexivity]. Qed.

Lemma width_ok_nth n inputs (out : list rc) : forall (q0 : R), width_ok n inputs q0 out ->
  forall i (c : rc), nth_error out i = Some c ->
  In c inputs \/ nth i (edges q0 out) 0 + snd c / s <= lim n (nth i (edges q0 out) 0).
Proof. induction out as [|c0 t IH]; intros q0 HW i c Hi.
  - destruct i; discriminate.
  - destruct HW as [H0 HW]. destruct i as [|i]; simpl in Hi.
    + inversion Hi; subst. simpl. exact H0.
    + simpl. apply IH; assumption. Qed.

(** index form: the i-th output centroid C_i with left edge Q_i *)
Theorem merge_width n (cur : rc) (rest : list rc) i (c : rc) :
  let out := greedy RNum lim n s 0 (lim n 0) cur rest in
  nth_error out i = Some c ->
  In c (cur :: rest) \/ nth i (edges 0 out) 0 + snd c / s <= lim n (nth i (edges 0 out) 0).
Proof. intros out Hi. eapply width_ok_nth; [apply greedy_width|exact Hi]. Qed.

End FixedS.

(* ------------------------------------------------------------------------------------------ *)
(** * 3. Lift to [td_merge], inserts and histories *)

Definition Bnd : R := 2 * (f 1 - f 0) + 1.

Lemma Bnd_ge1 : 1 <= Bnd.
Proof. unfold Bnd. assert (f 0 <= f 1) by (apply Hmono; lra). lra. Qed.

(* the stable sort only permutes *)
Lemma sinsert_perm (e : R * rc) (l : list (R * rc)) : Permutation (sinsert RNum e l) (e :: l).
Proof. induction l as [|y r IH]; simpl; [reflexivity|].
  match goal with |- context [Rlt_dec ?a ?b] => destruct (Rlt_dec a b) end; [reflexivity|].
  rewrite IH. apply perm_swap. Qed.

Lemma ssort_perm_gen (l : list (R * rc)) : forall acc : list (R * rc),
  Permutation (fold_left (fun acc e => sinsert RNum e acc) l acc) (l ++ acc).
Proof. induction l as [|e t IH]; intros acc; simpl; [reflexivity|].
  rewrite IH. rewrite sinsert_perm. symmetry. apply Permutation_middle. Qed.

Lemma ssort_perm (l : list (R * rc)) : Permutation (ssort RNum l) l.
Proof. unfold ssort. rewrite ssort_perm_gen. rewrite app_nil_r. reflexivity. Qed.

Definition sorted_input (d : rtd) : list rc :=
  map snd (ssort RNum (map (fun c : rc => (cmean RNum c, c)) (tcent d ++ tback d))).

Lemma sorted_input_perm (d : rtd) : Permutation (sorted_input d) (tcent d ++ tback d).
Proof. unfold sorted_input. rewrite ssort_perm. rewrite map_map. simpl. rewrite map_id. reflexivity. Qed.

Lemma td_merge_eq (d : rtd) :
  td_merge RNum lim d =
  match tback d with
  | [] => d
  | _ => match sorted_input d with
         | [] => d
         | c0 :: r => {| tcent := greedy RNum lim (tn d) (total RNum (sorted_input d)) 0 (lim (tn d) 0) c0 r;
                         tn := tn d; tmn := tmn d; tmx := tmx d; tback := []; tmaxb := tmaxb d |}
         end
  end.
Proof. reflexivity. Qed.

(* the invariant carried through a history *)
Definition size_inv (d : rtd) : Prop :=
  Forall posc (tcent d) /\ Forall posc (tback d) /\ INR (length (tcent d)) <= Bnd.

Lemma size_inv_new maxb : size_inv (td_new RNum maxb).
Proof. unfold size_inv; simpl. repeat split; try constructor. assert (H := Bnd_ge1). lra. Qed.

(** one merge: whatever the state (positive counts), the merged digest has <= Bnd centroids *)
Theorem td_merge_size (d : rtd) : Forall posc (tcent d) -> Forall posc (tback d) -> tback d <> [] ->
  INR (length (tcent (td_merge RNum lim d))) <= Bnd.
Proof. intros Hc Hb Hne. rewrite td_merge_eq. destruct (tback d) as [|b0 bt] eqn:Eb; [congruence|].
  assert (HP : Forall posc (sorted_input d)).
  { eapply Permutation_Forall; [symmetry; apply sorted_input_perm|]. rewrite Eb. apply Forall_app; split; assumption. }
  destruct (sorted_input d) as [|c0 r] eqn:Es.
  - exfalso. assert (H := sorted_input_perm d). rewrite Es, Eb in H. apply Permutation_nil in H.
    destruct (tcent d); discriminate.
  - simpl tcent. unfold Bnd. apply greedy_length.
    + rewrite total_wsum. apply wsum_pos. assumption.
    + assumption.
    + apply total_wsum. Qed.

Lemma td_merge_inv (d : rtd) : size_inv d -> size_inv (td_merge RNum lim d).
Proof. intros (Hc & Hb & Hl). destruct (tback d) as [|b0 bt] eqn:Eb.
  - rewrite td_merge_eq, Eb. repeat split; try assumption. rewrite Eb. constructor.
  - rewrite <- Eb in Hb. assert (Hne : tback d <> []) by congruence. assert (HS := td_merge_size d Hc Hb Hne).
    revert HS. rewrite td_merge_eq, Eb.
    assert (HP : Forall posc (sorted_input d)).
    { eapply Permutation_Forall; [symmetry; apply sorted_input_perm|]. apply Forall_app; split; assumption. }
    destruct (sorted_input d) as [|c0 r] eqn:Es; intros HS.
    + repeat split; assumption.
    + inversion HP; subst. repeat split; simpl; [apply greedy_pos; assumption | constructor | exact HS]. Qed.

Lemma td_insert_inner_inv (d : rtd) (x w : R) : size_inv d -> 0 < w -> size_inv (td_insert_inner RNum lim d x w).
Proof. intros (Hc & Hb & Hl) Hw. unfold td_insert_inner.
  match goal with |- size_inv (if _ then td_merge _ _ ?d1 else _) => assert (H1 : size_inv d1) end.
  { repeat split; simpl; try assumption. apply Forall_app; split; [assumption|]. constructor; [exact Hw|constructor]. }
  destruct (_ <? _)%N; [apply td_merge_inv|]; exact H1. Qed.

Lemma td_insert_weighted_inv (d : rtd) (x w : R) : size_inv d -> 0 <= w -> size_inv (td_insert_weighted RNum lim d x w).
Proof. intros Hd Hw. unfold td_insert_weighted.
  change (aleb RNum w (azero RNum)) with (if Rle_dec w 0 then true else false).
  change (aleb RNum (azero RNum) w) with (if Rle_dec 0 w then true else false).
  destruct (Rle_dec w 0) as [E1|E1]; simpl.
  - destruct (Rle_dec 0 w) as [E2|E2]; [exact Hd|contradiction].
  - apply td_insert_inner_inv; [exact Hd|]. lra. Qed.

(* histories: inserts, explicit merges (every public read merges first) and clear *)
Inductive rop := OpInsert (x w : R) | OpMerge | OpClear.
Definition op_ok (o : rop) : Prop := match o with OpInsert _ w => 0 <= w | _ => True end.
Definition apply_op (d : rtd) (o : rop) : rtd :=
  match o with
  | OpInsert x w => td_insert_weighted RNum lim d x w
  | OpMerge => td_merge RNum lim d
  | OpClear => td_clear RNum d
  end.
Definition td_steps (maxb : N) (h : list rop) : rtd := fold_left apply_op h (td_new RNum maxb).

Lemma apply_op_inv d o : size_inv d -> op_ok o -> size_inv (apply_op d o).
Proof. intros Hd Ho. destruct o as [x w| |]; simpl.
  - apply td_insert_weighted_inv; assumption.
  - apply td_merge_inv; assumption.
  - apply size_inv_new. Qed.

Lemma td_steps_inv maxb h : Forall op_ok h -> size_inv (td_steps maxb h).
Proof. unfold td_steps. generalize (size_inv_new maxb). generalize (td_new RNum maxb).
  induction h as [|o t IH]; intros d Hd Hh; simpl; [exact Hd|].
  inversion Hh; subst. apply IH; [apply apply_op_inv|]; assumption. Qed.

(** at any time of any history (non-negative weights, any maxb) the digest holds <= Bnd centroids,
    and positive counts only *)
Theorem td_steps_size maxb h : Forall op_ok h ->
  INR (length (tcent (td_steps maxb h))) <= Bnd.
Proof. intros Hh. apply (td_steps_inv maxb h Hh). Qed.

Theorem td_steps_merge_size maxb h : Forall op_ok h ->
  INR (length (tcent (td_merge RNum lim (td_steps maxb h)))) <= Bnd.
Proof. intros Hh. apply (td_merge_inv _ (td_steps_inv maxb h Hh)). Qed.

Theorem td_steps_ncentroids maxb h : Forall op_ok h ->
  IZR (Z.of_N (snd (td_ncentroids RNum lim (td_steps maxb h)))) <= Bnd.
Proof. intros Hh. unfold td_ncentroids, lenN. simpl snd. rewrite nat_N_Z, <- INR_IZR_INZ.
  apply td_steps_merge_size, Hh. Qed.

Theorem td_steps_pos maxb h : Forall op_ok h ->
  Forall posc (tcent (td_steps maxb h)) /\ Forall posc (tback (td_steps maxb h)).
Proof. intros Hh. destruct (td_steps_inv maxb h Hh) as (H1 & H2 & _). split; assumption. Qed.

End Abstract.

(* ------------------------------------------------------------------------------------------ *)
(** * 4. The K1 scale function (the crate's default), tdigest.rs K1::f / K1::f_inv, over R

<<
   fn f(&self, q, _n)     { let q = q.min(1.).max(0.); self.delta / (2. * PI) * (2. * q - 1.).asin() }
   fn f_inv(&self, k, _n) { let range = 0.25 * self.delta; let k = k.min(range).max(-range);
                            ((k * 2. * PI / self.delta).sin() + 1.) / 2. }
   q_limit = f_inv(f(q_0, n) + 1., n)
>> *)

Definition k1_f (delta q : R) : R := delta / (2 * PI) * asin (2 * Rmax 0 (Rmin q 1) - 1).
Definition k1_finv (delta k : R) : R := (sin (Rmax (- (delta / 4)) (Rmin k (delta / 4)) * 2 * PI / delta) + 1) / 2.
Definition k1_lim (delta : R) (n : N) (q0 : R) : R := k1_finv delta (k1_f delta q0 + 1).

(* asin is non-decreasing on [-1,1], and the Galois-style inequality with sin *)
Lemma asin_le a b : -1 <= a -> a <= b -> b <= 1 -> asin a <= asin b.
Proof. intros Ha Hab Hb. destruct (Rle_dec (asin a) (asin b)) as [L|L]; [exact L|exfalso].
  assert (Hlt : asin b < asin a) by lra.
  destruct (asin_bound a) as [A1 A2]. destruct (asin_bound b) as [B1 B2].
  assert (S := sin_increasing_1 (asin b) (asin a) B1 B2 A1 A2 Hlt).
  rewrite !sin_asin in S by lra. lra. Qed.

Lemma sin_lt_asin x t : - (PI / 2) <= x -> x <= PI / 2 -> -1 <= t -> t <= 1 -> sin x < t -> x < asin t.
Proof. intros X1 X2 T1 T2 Hlt. destruct (Rlt_dec x (asin t)) as [L|L]; [exact L|exfalso].
  assert (Hle : asin t <= x) by lra.
  destruct (asin_bound t) as [A1 A2].
  assert (S := sin_incr_1 (asin t) x A1 A2 X1 X2 Hle).
  rewrite sin_asin in S by lra. lra. Qed.

Lemma asin_m1 : asin (-1) = - (PI / 2).
Proof. replace (-1) with (Ropp 1) by lra. rewrite asin_opp, asin_1. reflexivity. Qed.

Lemma clamp01_in q : 0 <= q -> q <= 1 -> Rmax 0 (Rmin q 1) = q.
Proof. intros H0 H1. rewrite Rmin_left by assumption. rewrite Rmax_right by assumption. reflexivity. Qed.

Lemma k1_f_in delta q : 0 <= q -> q <= 1 -> k1_f delta q = delta / (2 * PI) * asin (2 * q - 1).
Proof. intros H0 H1. unfold k1_f. rewrite clamp01_in by assumption. reflexivity. Qed.

Lemma k1_coef_pos delta : 0 < delta -> 0 < delta / (2 * PI).
Proof. intros Hd. assert (HP := PI_RGT_0). apply Rdiv_lt_0_compat; lra. Qed.

Lemma k1_f_0 delta : k1_f delta 0 = - delta / 4.
Proof. rewrite k1_f_in by lra. replace (2 * 0 - 1) with (-1) by lra. rewrite asin_m1.
  assert (HP := PI_RGT_0). field. lra. Qed.

Lemma k1_f_1 delta : k1_f delta 1 = delta / 4.
Proof. rewrite k1_f_in by lra. replace (2 * 1 - 1) with 1 by lra. rewrite asin_1.
  assert (HP := PI_RGT_0). field. lra. Qed.

Lemma k1_f_range delta : k1_f delta 1 - k1_f delta 0 = delta / 2.
Proof. rewrite k1_f_0, k1_f_1. lra. Qed.

(* the scale value always lies in [-delta/4, delta/4] *)
Lemma k1_f_bound delta q : 0 < delta -> - (delta / 4) <= k1_f delta q <= delta / 4.
Proof. intros Hd. unfold k1_f. set (t := 2 * Rmax 0 (Rmin q 1) - 1).
  destruct (asin_bound t) as [A1 A2]. assert (HC := k1_coef_pos delta Hd). assert (HP := PI_RGT_0).
  assert (E1 : delta / (2 * PI) * (PI / 2) = delta / 4) by (field; lra).
  assert (E2 : delta / (2 * PI) * (- (PI / 2)) = - (delta / 4)) by (field; lra).
  split; [rewrite <- E2 | rewrite <- E1]; apply Rmult_le_compat_l; lra. Qed.

Lemma k1_mono delta : 0 < delta -> forall a b, 0 <= a -> a <= b -> b <= 1 -> k1_f delta a <= k1_f delta b.
Proof. intros Hd a b Ha Hab Hb. rewrite !k1_f_in by lra.
  apply Rmult_le_compat_l; [apply Rlt_le, k1_coef_pos, Hd|]. apply asin_le; lra. Qed.

Lemma k1_lim_def delta n q0 : k1_lim delta n q0 = k1_finv delta (k1_f delta q0 + 1).
Proof. reflexivity. Qed.

(* the clamp at the top of the scale: from k >= delta/4 on, f_inv returns 1 *)
Lemma k1_finv_top delta k : 0 < delta -> delta / 4 <= k -> k1_finv delta k = 1.
Proof. intros Hd Hk. unfold k1_finv. rewrite Rmin_right by assumption. rewrite Rmax_right by lra.
  assert (HP := PI_RGT_0).
  replace (delta / 4 * 2 * PI / delta) with (PI / 2) by (field; lra). rewrite sin_PI2. lra. Qed.

(* inside the range the clamp is the identity *)
Lemma k1_finv_in delta k : 0 < delta -> - (delta / 4) <= k -> k <= delta / 4 ->
  k1_finv delta k = (sin (k * 2 * PI / delta) + 1) / 2.
Proof. intros Hd H1 H2. unfold k1_finv. rewrite Rmin_left by assumption. rewrite Rmax_right by assumption. reflexivity. Qed.

(** the hypothesis [Hlim] of the abstract theorem for K1 *)
Lemma k1_lim_exceed delta : 0 < delta -> forall n q0 q,
  0 <= q0 -> q0 <= q -> q <= 1 -> k1_lim delta n q0 < q -> k1_f delta q0 + 1 < k1_f delta q.
Proof. intros Hd n q0 q H0 H01 H1 Hex. unfold k1_lim in Hex.
  set (y := k1_f delta q0 + 1) in *.
  destruct (k1_f_bound delta q0 Hd) as [B1 B2]. assert (HP := PI_RGT_0).
  destruct (Rle_dec (delta / 4) y) as [Htop|Hin].
  - rewrite k1_finv_top in Hex by assumption. lra.
  - assert (Hy1 : - (delta / 4) <= y) by (unfold y; lra). assert (Hy2 : y < delta / 4) by lra.
    rewrite k1_finv_in in Hex by lra.
    set (x := y * 2 * PI / delta) in *.
    assert (Ex : delta / (2 * PI) * x = y) by (unfold x; field; lra).
    assert (HC := k1_coef_pos delta Hd).
    assert (X1 : - (PI / 2) <= x).
    { replace (- (PI / 2)) with (- (delta / 4) * (2 * PI / delta)) by (field; lra).
      replace x with (y * (2 * PI / delta)) by (unfold x; field; lra).
      apply Rmult_le_compat_r; [|exact Hy1]. apply Rlt_le, Rdiv_lt_0_compat; lra. }
    assert (X2 : x <= PI / 2).
    { replace (PI / 2) with (delta / 4 * (2 * PI / delta)) by (field; lra).
      replace x with (y * (2 * PI / delta)) by (unfold x; field; lra).
      apply Rmult_le_compat_r; [|lra]. apply Rlt_le, Rdiv_lt_0_compat; lra. }
    assert (Hs : sin x < 2 * q - 1) by lra.
    assert (HA := sin_lt_asin x (2 * q - 1) X1 X2 ltac:(lra) ltac:(lra) Hs).
    rewrite (k1_f_in delta q) by lra. rewrite <- Ex.
    apply Rmult_lt_compat_l; assumption. Qed.

Lemma k1_Bnd delta : Bnd (k1_f delta) = delta + 1.
Proof. unfold Bnd. rewrite k1_f_range. lra. Qed.

(** one greedy pass with K1: at most delta + 1 centroids *)
Theorem k1_size delta n (c0 : rc) (rest : list rc) : 0 < delta -> Forall posc (c0 :: rest) ->
  INR (length (greedy RNum (k1_lim delta) n (total RNum (c0 :: rest)) 0 (k1_lim delta n 0) c0 rest)) <= delta + 1.
Proof. intros Hd Hp. rewrite <- (k1_Bnd delta). unfold Bnd.
  apply (greedy_length (k1_f delta) (k1_lim delta) (k1_mono delta Hd) (k1_lim_exceed delta Hd)).
  - rewrite total_wsum. apply wsum_pos, Hp.
  - exact Hp.
  - apply total_wsum. Qed.

(** one merge with K1 *)
Theorem k1_merge_size delta (d : rtd) : 0 < delta ->
  Forall posc (tcent d) -> Forall posc (tback d) -> tback d <> [] ->
  INR (length (tcent (td_merge RNum (k1_lim delta) d))) <= delta + 1.
Proof. intros Hd Hc Hb Hne. rewrite <- (k1_Bnd delta).
  apply (td_merge_size (k1_f delta) (k1_lim delta) (k1_mono delta Hd) (k1_lim_exceed delta Hd)); assumption. Qed.

(** whole histories with K1: at every moment at most delta + 1 (hence <= delta + 3) centroids *)
Theorem k1_history_size delta maxb (h : list rop) : 0 < delta -> Forall op_ok h ->
  INR (length (tcent (td_steps (k1_lim delta) maxb h))) <= delta + 1.
Proof. intros Hd Hh. rewrite <- (k1_Bnd delta).
  apply (td_steps_size (k1_f delta) (k1_lim delta) (k1_mono delta Hd) (k1_lim_exceed delta Hd)); assumption. Qed.

Theorem k1_history_merge_size delta maxb (h : list rop) : 0 < delta -> Forall op_ok h ->
  INR (length (tcent (td_merge RNum (k1_lim delta) (td_steps (k1_lim delta) maxb h)))) <= delta + 1.
Proof. intros Hd Hh. rewrite <- (k1_Bnd delta).
  apply (td_steps_merge_size (k1_f delta) (k1_lim delta) (k1_mono delta Hd) (k1_lim_exceed delta Hd)); assumption. Qed.

Theorem k1_history_ncentroids delta maxb (h : list rop) : 0 < delta -> Forall op_ok h ->
  IZR (Z.of_N (snd (td_ncentroids RNum (k1_lim delta) (td_steps (k1_lim delta) maxb h)))) <= delta + 1.
Proof. intros Hd Hh. rewrite <- (k1_Bnd delta).
  apply (td_steps_ncentroids (k1_f delta) (k1_lim delta) (k1_mono delta Hd) (k1_lim_exceed delta Hd)); assumption. Qed.

(** property C04 (size part) in the form of the design document, for K1 in exact real arithmetic:
    bound delta + 3, before and after a merge *)
Corollary C04_size_k1 delta maxb (h : list rop) : 0 < delta -> Forall op_ok h ->
  INR (length (tcent (td_steps (k1_lim delta) maxb h))) <= delta + 3 /\
  INR (length (tcent (td_merge RNum (k1_lim delta) (td_steps (k1_lim delta) maxb h)))) <= delta + 3.
Proof. intros Hd Hh.
  assert (H1 := k1_history_size delta maxb h Hd Hh). assert (H2 := k1_history_merge_size delta maxb h Hd Hh).
  split; lra. Qed.

(** K1 pair property in k-space: the scale advances by more than one unit over any two consecutive
    output centroids *)
Theorem k1_pairs delta n (c0 : rc) (rest : list rc) : 0 < delta -> Forall posc (c0 :: rest) ->
  let s := total RNum (c0 :: rest) in
  let E := edges s 0 (greedy RNum (k1_lim delta) n s 0 (k1_lim delta n 0) c0 rest) in
  forall i, (S (S i) < length E)%nat -> k1_f delta (nth i E 0) + 1 < k1_f delta (nth (S (S i)) E 0).
Proof. intros Hd Hp s E i Hi.
  assert (Hs : 0 < s) by (unfold s; rewrite total_wsum; apply wsum_pos, Hp).
  exact (greedy_pairs (k1_f delta) (k1_lim delta) (k1_lim_exceed delta Hd) s Hs n c0 rest Hp (total_wsum _) i Hi). Qed.

(* ------------------------------------------------------------------------------------------ *)
(** * 5. The K0 scale function over R (mirror of Model/TDigestQ.v [k0_f], [k0_finv], [k0_lim]) *)

Definition k0R_f (delta q : R) : R := (delta / 2) * Rmax 0 (Rmin q 1).
Definition k0R_finv (delta k : R) : R := Rmax 0 (Rmin k (delta / 2)) * 2 / delta.
Definition k0R_lim (delta : R) (n : N) (q0 : R) : R := k0R_finv delta (k0R_f delta q0 + 1).

Lemma k0R_f_in delta q : 0 <= q -> q <= 1 -> k0R_f delta q = delta / 2 * q.
Proof. intros H0 H1. unfold k0R_f. rewrite clamp01_in by assumption. reflexivity. Qed.

Lemma k0R_f_0 delta : k0R_f delta 0 = 0.
Proof. rewrite k0R_f_in by lra. lra. Qed.
Lemma k0R_f_1 delta : k0R_f delta 1 = delta / 2.
Proof. rewrite k0R_f_in by lra. lra. Qed.

Lemma k0R_mono delta : 0 < delta -> forall a b, 0 <= a -> a <= b -> b <= 1 -> k0R_f delta a <= k0R_f delta b.
Proof. intros Hd a b Ha Hab Hb. rewrite !k0R_f_in by lra. apply Rmult_le_compat_l; lra. Qed.

(* closed form of the limit on [0,1]: one k-unit is 2/delta in q-space *)
Lemma k0R_lim_in delta n q0 : 0 < delta -> 0 <= q0 -> q0 <= 1 -> k0R_lim delta n q0 = Rmin (q0 + 2 / delta) 1.
Proof. intros Hd H0 H1. unfold k0R_lim, k0R_finv. rewrite k0R_f_in by assumption.
  assert (Hk : 0 <= delta / 2 * q0) by (apply Rmult_le_pos; lra).
  assert (E2 : q0 + 2 / delta = (delta / 2 * q0 + 1) * (2 / delta)) by (field; lra).
  assert (E3 : 1 = delta / 2 * (2 / delta)) by (field; lra).
  assert (Hinv : 0 < 2 / delta) by (apply Rdiv_lt_0_compat; lra).
  destruct (Rle_dec (delta / 2 * q0 + 1) (delta / 2)) as [Hle|Hgt].
  - rewrite (Rmin_left (delta / 2 * q0 + 1)) by assumption. rewrite Rmax_right by lra.
    rewrite Rmin_left.
    + field. lra.
    + rewrite E2. rewrite E3 at 2. apply Rmult_le_compat_r; lra.
  - rewrite (Rmin_right (delta / 2 * q0 + 1)) by lra. rewrite Rmax_right by lra.
    rewrite Rmin_right.
    + field. lra.
    + rewrite E2. rewrite E3 at 1. apply Rmult_le_compat_r; lra. Qed.

Lemma k0R_lim_exceed delta : 0 < delta -> forall n q0 q,
  0 <= q0 -> q0 <= q -> q <= 1 -> k0R_lim delta n q0 < q -> k0R_f delta q0 + 1 < k0R_f delta q.
Proof. intros Hd n q0 q H0 H01 H1 Hex. rewrite k0R_lim_in in Hex by lra. rewrite !k0R_f_in by lra.
  destruct (Rle_dec (q0 + 2 / delta) 1) as [Hle|Hgt].
  - rewrite Rmin_left in Hex by assumption.
    replace (delta / 2 * q0 + 1) with (delta / 2 * (q0 + 2 / delta)) by (field; lra).
    apply Rmult_lt_compat_l; lra.
  - rewrite Rmin_right in Hex by lra. lra. Qed.

Lemma k0R_Bnd delta : Bnd (k0R_f delta) = delta + 1.
Proof. unfold Bnd. rewrite k0R_f_0, k0R_f_1. lra. Qed.

Theorem k0R_size delta n (c0 : rc) (rest : list rc) : 0 < delta -> Forall posc (c0 :: rest) ->
  INR (length (greedy RNum (k0R_lim delta) n (total RNum (c0 :: rest)) 0 (k0R_lim delta n 0) c0 rest)) <= delta + 1.
Proof. intros Hd Hp. rewrite <- (k0R_Bnd delta). unfold Bnd.
  apply (greedy_length (k0R_f delta) (k0R_lim delta) (k0R_mono delta Hd) (k0R_lim_exceed delta Hd)).
  - rewrite total_wsum. apply wsum_pos, Hp.
  - exact Hp.
  - apply total_wsum. Qed.

Theorem k0R_merge_size delta (d : rtd) : 0 < delta ->
  Forall posc (tcent d) -> Forall posc (tback d) -> tback d <> [] ->
  INR (length (tcent (td_merge RNum (k0R_lim delta) d))) <= delta + 1.
Proof. intros Hd Hc Hb Hne. rewrite <- (k0R_Bnd delta).
  apply (td_merge_size (k0R_f delta) (k0R_lim delta) (k0R_mono delta Hd) (k0R_lim_exceed delta Hd)); assumption. Qed.

Theorem k0R_history_size delta maxb (h : list rop) : 0 < delta -> Forall op_ok h ->
  INR (length (tcent (td_steps (k0R_lim delta) maxb h))) <= delta + 1.
Proof. intros Hd Hh. rewrite <- (k0R_Bnd delta).
  apply (td_steps_size (k0R_f delta) (k0R_lim delta) (k0R_mono delta Hd) (k0R_lim_exceed delta Hd)); assumption. Qed.

Theorem k0R_history_merge_size delta maxb (h : list rop) : 0 < delta -> Forall op_ok h ->
  INR (length (tcent (td_merge RNum (k0R_lim delta) (td_steps (k0R_lim delta) maxb h)))) <= delta + 1.
Proof. intros Hd Hh. rewrite <- (k0R_Bnd delta).
  apply (td_steps_merge_size (k0R_f delta) (k0R_lim delta) (k0R_mono delta Hd) (k0R_lim_exceed delta Hd)); assumption. Qed.

Theorem k0R_history_ncentroids delta maxb (h : list rop) : 0 < delta -> Forall op_ok h ->
  IZR (Z.of_N (snd (td_ncentroids RNum (k0R_lim delta) (td_steps (k0R_lim delta) maxb h)))) <= delta + 1.
Proof. intros Hd Hh. rewrite <- (k0R_Bnd delta).
  apply (td_steps_ncentroids (k0R_f delta) (k0R_lim delta) (k0R_mono delta Hd) (k0R_lim_exceed delta Hd)); assumption. Qed.

(* ------------------------------------------------------------------------------------------ *)
(** * 6. Examples (symbolic: reals do not compute) *)

(* a three-step history: two unit-weight inserts and a read *)
Definition hist3 : list rop := [OpInsert 1 1; OpInsert 2 1; OpMerge].
Example ex_hist3_ok : Forall op_ok hist3.
Proof. unfold hist3. repeat constructor; simpl; lra. Qed.

(* delta = 10, any max_backlog_size: at most 11 centroids before and after the read *)
Example ex_k1_history maxb :
  INR (length (tcent (td_steps (k1_lim 10) maxb hist3))) <= 11 /\
  INR (length (tcent (td_merge RNum (k1_lim 10) (td_steps (k1_lim 10) maxb hist3)))) <= 11.
Proof. assert (Hd : 0 < 10) by lra.
  assert (H1 := k1_history_size 10 maxb hist3 Hd ex_hist3_ok).
  assert (H2 := k1_history_merge_size 10 maxb hist3 Hd ex_hist3_ok). split; lra. Qed.

(* the hypotheses of [k1_size] / [k1_merge_size] are satisfiable: three positive centroids *)
Example ex_k1_pos : Forall posc [(1, 1); (4, 2); (9, 3)].
Proof. repeat constructor; unfold posc; simpl; lra. Qed.
Example ex_k1_size n :
  INR (length (greedy RNum (k1_lim 10) n (total RNum [(1, 1); (4, 2); (9, 3)]) 0 (k1_lim 10 n 0) (1, 1) [(4, 2); (9, 3)])) <= 11.
Proof. eapply Rle_trans; [apply (k1_size 10 n (1, 1) [(4, 2); (9, 3)]); [lra|exact ex_k1_pos] | lra]. Qed.

(* the K1 limit is not degenerate: at q0 = 0 and delta = 10 it equals (sin (2 PI / 10 - PI / 2) + 1) / 2,
   and at the top of the scale it saturates at 1 *)
Example ex_k1_lim_0 n : k1_lim 10 n 0 = (sin ((- (10 / 4) + 1) * 2 * PI / 10) + 1) / 2.
Proof. unfold k1_lim. rewrite k1_f_0. rewrite k1_finv_in by lra. f_equal. f_equal. f_equal. lra. Qed.
Example ex_k1_lim_1 n : k1_lim 10 n 1 = 1.
Proof. unfold k1_lim. rewrite k1_f_1. apply k1_finv_top; lra. Qed.

Example ex_k0R_history maxb :
  INR (length (tcent (td_steps (k0R_lim 10) maxb hist3))) <= 11.
Proof. assert (H1 := k0R_history_size 10 maxb hist3 ltac:(lra) ex_hist3_ok). lra. Qed.

Print Assumptions greedy_pairs.
Print Assumptions greedy_length.
Print Assumptions merge_width.
Print Assumptions td_merge_size.
Print Assumptions td_steps_size.
Print Assumptions td_steps_merge_size.
Print Assumptions td_steps_ncentroids.
Print Assumptions td_steps_pos.
Print Assumptions k1_f_0.
Print Assumptions k1_f_1.
Print Assumptions k1_mono.
Print Assumptions k1_lim_exceed.
Print Assumptions k1_size.
Print Assumptions k1_merge_size.
Print Assumptions k1_history_size.
Print Assumptions k1_history_merge_size.
Print Assumptions k1_history_ncentroids.
Print Assumptions C04_size_k1.
Print Assumptions k1_pairs.
Print Assumptions k0R_history_size.
Print Assumptions k0R_history_merge_size.
Print Assumptions k0R_history_ncentroids.
