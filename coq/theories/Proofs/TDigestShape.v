(* Proofs/TDigestShape.v — shape of the t-digest read-out functions (property C15) for the exact
   rational instance QNum of Model/TDigest.v (src/tdigest.rs: quantile 422-458, cdf 460-493).

   Hypothesis  wfd d mn mx  : a well-formed merged digest: centroids c0 :: r non-empty, every count > 0,
   means non-decreasing along the list, tmn d = Some mn, tmx d = Some mx, mn <= mean c0, mean last <= mx.
   (swfd: the same with all these inequalities strict.)

   Main results (all closed under the global context, see Print Assumptions at the end):
     quantile_range   wfd -> 0 <= q <= 1 -> mn <= quantile q <= mx
     quantile_0       wfd -> quantile 0 == mn
     quantile_1       wfd -> quantile 1 == mx
     quantile_mono    wfd -> 0 <= q1 <= q2 -> quantile q1 <= quantile q2     (q2 <= 1 not needed)
     quantile_above_1 wfd -> 1 <= q -> quantile q == mx                       (clamp of the right tail)
     cdf_range        wfd -> 0 <= cdf x <= 1
     cdf_below_min    wfd -> x < mn -> cdf x == 0
     cdf_from_max     wfd -> mx <= x -> cdf x == 1
     cdf_mono         wfd -> x1 <= x2 -> cdf x1 <= cdf x2
     cdf_quantile     swfd -> 0 <= q <= 1 -> cdf (quantile q) == q            (exact, both tails, all knots)
     cdf_quantile_ge  wfd  -> 0 <= q <= 1 -> q <= cdf (quantile q)            (ties allowed; equality fails, see ex2)
     empty_reads      tcent d = [] -> quantile q = anan QNum /\ cdf x == 0
   The read-out functions do not mention the scale function [lim] at all (they are not even
   parameterised by it after the Section closes).

   Knots.  With W_i the weight before centroid i and M_i = W_i + count_i/2, quantile is evaluation at
   limit = s*q of the piecewise-linear map through (0,mn),(M_0,mean_0),...,(M_last,mean_last),(s,mx),
   and cdf is evaluation of the piecewise-linear map through the transposed knots, divided by s.
   The loops are analysed directly by induction on the remaining centroid list (qloop_ge/le/mono,
   cloop_ge/le/mono), generalising the carried state (prev, cum) resp. (cum, last_mean, last_cum). *)
From PDS Require Import Model.TDigestQ.
From Coq Require Import QArith Lqa Lia List.
Import ListNotations.
Open Scope Q_scope.

(* ------------------------------------------------------------------------- *)
(** * Notation and small arithmetic facts                                     *)
(* ------------------------------------------------------------------------- *)

Notation cnt := (ccount QNum).
Notation mean := (cmean QNum).
Notation quantile := (td_quantile_inner QNum).
Notation cdf := (td_cdf_inner QNum).
Notation itp := (interp QNum).

Ltac qn := cbn [aT azero aone ahalf aadd asub amul adiv aleb altb anan QNum] in *.

Lemma qleb_true a b : Qle_bool a b = true <-> a <= b.
Proof. apply Qle_bool_iff. Qed.
Lemma qleb_false a b : Qle_bool a b = false <-> b < a.
Proof. split; intros H.
  - apply Qnot_le_lt. intros L. apply Qle_bool_iff in L. congruence.
  - destruct (Qle_bool a b) eqn:E; [|reflexivity]. apply Qle_bool_iff in E. lra. Qed.
Lemma qltb_true a b : Qltb a b = true <-> a < b.
Proof. unfold Qltb. rewrite Bool.negb_true_iff. apply qleb_false. Qed.
Lemma qltb_false a b : Qltb a b = false <-> b <= a.
Proof. unfold Qltb. rewrite Bool.negb_false_iff. apply qleb_true. Qed.

(* case split on a boolean comparison, leaving the order fact as hypothesis [H] *)
Ltac case_leb a b H := destruct (Qle_bool a b) eqn:H; [apply qleb_true in H | apply qleb_false in H].
Ltac case_ltb a b H := destruct (Qltb a b) eqn:H; [apply qltb_true in H | apply qltb_false in H].

Lemma itp_eq a b t : itp a b t = t * b + (1 - t) * a.
Proof. reflexivity. Qed.
Lemma itp_range a b t : a <= b -> 0 <= t -> t <= 1 -> a <= itp a b t /\ itp a b t <= b.
Proof. intros. rewrite itp_eq. split; nra. Qed.
Lemma itp_mono a b t1 t2 : a <= b -> t1 <= t2 -> itp a b t1 <= itp a b t2.
Proof. intros. rewrite !itp_eq. nra. Qed.
Lemma itp_0 a b t : t == 0 -> itp a b t == a.
Proof. intros H. rewrite itp_eq, H. ring. Qed.
Lemma itp_1 a b t : t == 1 -> itp a b t == b.
Proof. intros H. rewrite itp_eq, H. ring. Qed.

Lemma div_nonneg a d : 0 < d -> 0 <= a -> 0 <= a / d.
Proof. intros Hd Ha. apply Qle_shift_div_l; lra. Qed.
Lemma div_le_1 a d : 0 < d -> a <= d -> a / d <= 1.
Proof. intros Hd Ha. apply Qle_shift_div_r; lra. Qed.
Lemma div_lt_1 a d : 0 < d -> a < d -> a / d < 1.
Proof. intros Hd Ha. apply Qlt_shift_div_r; lra. Qed.
Lemma div_pos a d : 0 < d -> 0 < a -> 0 < a / d.
Proof. intros Hd Ha. apply Qlt_shift_div_l; lra. Qed.
Lemma div_le_compat a b d : 0 < d -> a <= b -> a / d <= b / d.
Proof. intros Hd H. unfold Qdiv. apply Qmult_le_compat_r; [assumption|].
  apply Qlt_le_weak, Qinv_lt_0_compat; assumption. Qed.
Lemma div_same a d : 0 < d -> a == d -> a / d == 1.
Proof. intros Hd H. rewrite H. field. lra. Qed.

(* ------------------------------------------------------------------------- *)
(** * Well-formed digests                                                     *)
(* ------------------------------------------------------------------------- *)

Definition allpos (l : list (centroid QNum)) : Prop := Forall (fun c => 0 < cnt c) l.
(* means non-decreasing along the list (adjacent pairs) *)
Fixpoint means_sorted (l : list (centroid QNum)) : Prop :=
  match l with
  | a :: (b :: _) as t => mean a <= mean b /\ means_sorted t
  | _ => True
  end.
Fixpoint means_ssorted (l : list (centroid QNum)) : Prop :=
  match l with
  | a :: (b :: _) as t => mean a < mean b /\ means_ssorted t
  | _ => True
  end.

Definition wfd (d : qtd) (mn mx : Q) : Prop :=
  exists c0 r, tcent QNum d = c0 :: r /\ tmn QNum d = Some mn /\ tmx QNum d = Some mx /\
    allpos (c0 :: r) /\ means_sorted (c0 :: r) /\ mn <= mean c0 /\ mean (last r c0) <= mx.
(* strict variant: strictly increasing means, mn < mean c0, mean last < mx *)
Definition swfd (d : qtd) (mn mx : Q) : Prop :=
  exists c0 r, tcent QNum d = c0 :: r /\ tmn QNum d = Some mn /\ tmx QNum d = Some mx /\
    allpos (c0 :: r) /\ means_ssorted (c0 :: r) /\ mn < mean c0 /\ mean (last r c0) < mx.

(* the same as one chain  lo <= mean c1 <= ... <= mean ck <= hi, convenient for induction *)
Fixpoint chain (lo : Q) (l : list (centroid QNum)) (hi : Q) : Prop :=
  match l with [] => lo <= hi | c :: r => lo <= mean c /\ chain (mean c) r hi end.
Fixpoint schain (lo : Q) (l : list (centroid QNum)) (hi : Q) : Prop :=
  match l with [] => lo < hi | c :: r => lo < mean c /\ schain (mean c) r hi end.

Lemma last_cons_default {X} (l : list X) (c a b : X) : last (c :: l) a = last (c :: l) b.
Proof. revert c. induction l as [|y l IH]; intros c; [reflexivity|]. exact (IH y). Qed.
Lemma last_cons_self {X} (l : list X) (c a : X) : last (c :: l) a = last l c.
Proof. destruct l as [|y l]; [reflexivity|].
  change (last (c :: y :: l) a) with (last (y :: l) a). apply last_cons_default. Qed.
Lemma chain_of_sorted c0 r hi : means_sorted (c0 :: r) -> mean (last r c0) <= hi -> chain (mean c0) r hi.
Proof. revert c0. induction r as [|c r IH]; intros c0 Hs Hl.
  - exact Hl.
  - destruct Hs as [H1 H2]. split; [exact H1|]. apply IH; [exact H2|].
    rewrite <- (last_cons_self r c c0). exact Hl. Qed.
Lemma schain_of_ssorted c0 r hi : means_ssorted (c0 :: r) -> mean (last r c0) < hi -> schain (mean c0) r hi.
Proof. revert c0. induction r as [|c r IH]; intros c0 Hs Hl.
  - exact Hl.
  - destruct Hs as [H1 H2]. split; [exact H1|]. apply IH; [exact H2|].
    rewrite <- (last_cons_self r c c0). exact Hl. Qed.
Lemma chain_le lo l hi : chain lo l hi -> lo <= hi.
Proof. revert lo. induction l as [|c r IH]; intros lo H; simpl in H; [exact H|].
  destruct H as [H1 H2]. apply IH in H2. lra. Qed.
Lemma schain_chain lo l hi : schain lo l hi -> chain lo l hi.
Proof. revert lo. induction l as [|c r IH]; intros lo H; simpl in *; [lra|].
  destruct H as [H1 H2]. split; [lra|auto]. Qed.
Lemma schain_lt lo l hi : schain lo l hi -> lo < hi.
Proof. revert lo. induction l as [|c r IH]; intros lo H; simpl in H; [exact H|].
  destruct H as [H1 H2]. apply IH in H2. lra. Qed.

Lemma swfd_wfd d mn mx : swfd d mn mx -> wfd d mn mx.
Proof. intros (c0 & r & E & Hmn & Hmx & Hp & Hs & H0 & Hl). exists c0, r.
  repeat split; try assumption; try lra.
  clear -Hs. revert c0 Hs. induction r as [|c r IH]; intros c0 Hs; [exact I|].
  destruct Hs as [H1 H2]. split; [lra|auto]. Qed.

(* total weight *)
Notation tot := (total QNum).
Lemma total_acc (l : list (centroid QNum)) (a : Q) :
  fold_left (fun a c => aadd QNum a (cnt c)) l a == a + tot l.
Proof. unfold total. qn. revert a. induction l as [|c r IH]; intros a; simpl.
  - lra.
  - rewrite (IH (a + cnt c)), (IH (0 + cnt c)). lra. Qed.
Lemma total_nil : tot [] == 0.
Proof. reflexivity. Qed.
Lemma total_cons c r : tot (c :: r) == cnt c + tot r.
Proof. unfold total at 1. simpl. rewrite total_acc. qn. lra. Qed.
Lemma total_nonneg l : allpos l -> 0 <= tot l.
Proof. induction 1 as [|c r Hc Hr IH]; [rewrite total_nil; lra|]. rewrite total_cons. lra. Qed.
Lemma total_pos c r : allpos (c :: r) -> 0 < tot (c :: r).
Proof. intros H. inversion H as [|? ? Hc Hr]; subst. rewrite total_cons. pose proof (total_nonneg r Hr). lra. Qed.

(* ------------------------------------------------------------------------- *)
(** * quantile: the loop                                                      *)
(* ------------------------------------------------------------------------- *)

Section QLoop.
(* [s] is carried by qloop but never used; [mx] is the right end *)
Variables (s mx : Q).

Lemma qloop_nil limit prev cum :
  qloop QNum limit prev cum [] s mx =
  itp (mean prev) mx (let t0 := (limit - (cum - (1#2) * cnt prev)) / ((1#2) * cnt prev) in if Qltb 1 t0 then 1 else t0).
Proof. reflexivity. Qed.
Lemma qloop_cons limit prev cum c r :
  qloop QNum limit prev cum (c :: r) s mx =
  if Qle_bool limit (cum + cnt c * (1#2))
  then itp (mean prev) (mean c) ((limit - (cum - (1#2) * cnt prev)) / ((1#2) * (cnt prev + cnt c)))
  else qloop QNum limit c (cum + cnt c) r s mx.
Proof. reflexivity. Qed.

(* value >= mean prev once limit >= M_prev = cum - count_prev/2 *)
Lemma qloop_ge rest : forall prev cum limit,
  0 < cnt prev -> allpos rest -> chain (mean prev) rest mx -> cum - (1#2) * cnt prev <= limit ->
  mean prev <= qloop QNum limit prev cum rest s mx.
Proof. induction rest as [|c r IH]; intros prev cum limit Hp Hr Hc Hl.
  - rewrite qloop_nil. cbv zeta. cbn [chain] in Hc.
    set (t0 := (limit - (cum - (1#2) * cnt prev)) / ((1#2) * cnt prev)).
    assert (T0 : 0 <= t0) by (apply div_nonneg; lra).
    case_ltb 1 t0 E; apply itp_range; lra.
  - rewrite qloop_cons. inversion Hr as [|? ? Hcc Hrr]; subst. destruct Hc as [Hc1 Hc2].
    case_leb limit (cum + cnt c * (1#2)) E.
    + apply itp_range; [lra | apply div_nonneg; lra | apply div_le_1; lra].
    + specialize (IH c (cum + cnt c) limit Hcc Hrr Hc2). lra. Qed.

Lemma qloop_le rest : forall prev cum limit,
  0 < cnt prev -> allpos rest -> chain (mean prev) rest mx -> cum - (1#2) * cnt prev <= limit ->
  qloop QNum limit prev cum rest s mx <= mx.
Proof. induction rest as [|c r IH]; intros prev cum limit Hp Hr Hc Hl.
  - rewrite qloop_nil. cbv zeta. cbn [chain] in Hc.
    set (t0 := (limit - (cum - (1#2) * cnt prev)) / ((1#2) * cnt prev)).
    assert (T0 : 0 <= t0) by (apply div_nonneg; lra).
    case_ltb 1 t0 E; apply itp_range; lra.
  - rewrite qloop_cons. inversion Hr as [|? ? Hcc Hrr]; subst. destruct Hc as [Hc1 Hc2].
    pose proof (chain_le _ _ _ Hc2) as Hcm.
    case_leb limit (cum + cnt c * (1#2)) E.
    + assert (itp (mean prev) (mean c) ((limit - (cum - (1 # 2) * cnt prev)) / ((1 # 2) * (cnt prev + cnt c))) <= mean c);
        [|lra]. apply itp_range; [lra | apply div_nonneg; lra | apply div_le_1; lra].
    + apply IH; try assumption. lra. Qed.

Lemma qloop_mono rest : forall prev cum l1 l2,
  0 < cnt prev -> allpos rest -> chain (mean prev) rest mx -> cum - (1#2) * cnt prev <= l1 -> l1 <= l2 ->
  qloop QNum l1 prev cum rest s mx <= qloop QNum l2 prev cum rest s mx.
Proof. induction rest as [|c r IH]; intros prev cum l1 l2 Hp Hr Hc Hl H12.
  - rewrite !qloop_nil. cbv zeta. cbn [chain] in Hc.
    set (t1 := (l1 - (cum - (1#2) * cnt prev)) / ((1#2) * cnt prev)).
    set (t2 := (l2 - (cum - (1#2) * cnt prev)) / ((1#2) * cnt prev)).
    assert (T12 : t1 <= t2) by (apply div_le_compat; lra).
    apply itp_mono; [lra|]. case_ltb 1 t1 E1; case_ltb 1 t2 E2; lra.
  - rewrite !qloop_cons. inversion Hr as [|? ? Hcc Hrr]; subst. destruct Hc as [Hc1 Hc2].
    case_leb l1 (cum + cnt c * (1#2)) E1; case_leb l2 (cum + cnt c * (1#2)) E2.
    + apply itp_mono; [lra|]. apply div_le_compat; lra.
    + assert (A : itp (mean prev) (mean c) ((l1 - (cum - (1 # 2) * cnt prev)) / ((1 # 2) * (cnt prev + cnt c))) <= mean c)
        by (apply itp_range; [lra | apply div_nonneg; lra | apply div_le_1; lra]).
      assert (B : mean c <= qloop QNum l2 c (cum + cnt c) r s mx) by (apply qloop_ge; try assumption; lra).
      lra.
    + lra.
    + apply IH; try assumption; lra. Qed.

(* at and beyond the total weight the loop returns mx *)
Lemma qloop_top rest : forall prev cum limit,
  0 < cnt prev -> allpos rest -> cum + tot rest <= limit ->
  qloop QNum limit prev cum rest s mx == mx.
Proof. induction rest as [|c r IH]; intros prev cum limit Hp Hr Hl.
  - rewrite qloop_nil. cbv zeta. rewrite total_nil in Hl.
    set (t0 := (limit - (cum - (1#2) * cnt prev)) / ((1#2) * cnt prev)).
    case_ltb 1 t0 E.
    + apply itp_1. reflexivity.
    + apply itp_1. assert (1 <= t0); [|lra]. unfold t0. apply Qle_shift_div_l; lra.
  - rewrite qloop_cons. inversion Hr as [|? ? Hcc Hrr]; subst. rewrite total_cons in Hl.
    pose proof (total_nonneg r Hrr).
    case_leb limit (cum + cnt c * (1#2)) E; [lra|].
    apply IH; try assumption. lra. Qed.
End QLoop.

(* ------------------------------------------------------------------------- *)
(** * quantile: theorems                                                      *)
(* ------------------------------------------------------------------------- *)

Lemma quantile_unfold d c0 r mn mx q :
  tcent QNum d = c0 :: r -> tmn QNum d = Some mn -> tmx QNum d = Some mx ->
  quantile d q =
  if Qle_bool (tot (c0 :: r) * q) (cnt c0 * (1#2))
  then itp mn (mean c0) ((tot (c0 :: r) * q) / ((1#2) * cnt c0))
  else qloop QNum (tot (c0 :: r) * q) c0 (0 + cnt c0) r (tot (c0 :: r)) mx.
Proof. intros E Hmn Hmx. unfold td_quantile_inner, td_count. rewrite E, Hmn, Hmx. reflexivity. Qed.

Theorem quantile_range d mn mx q : wfd d mn mx -> 0 <= q <= 1 ->
  mn <= quantile d q <= mx.
Proof. intros (c0 & r & E & Hmn & Hmx & Hp & Hs & H0 & Hl) [Hq0 Hq1].
  rewrite (quantile_unfold d c0 r mn mx q E Hmn Hmx).
  pose proof (total_pos c0 r Hp) as Hs0. set (s := tot (c0 :: r)) in *.
  inversion Hp as [|? ? Hc0 Hr]; subst.
  pose proof (chain_of_sorted c0 r mx Hs Hl) as Hc. pose proof (chain_le _ _ _ Hc) as Hc0mx.
  assert (L0 : 0 <= s * q) by nra.
  case_leb (s * q) (cnt c0 * (1#2)) B.
  - assert (A : mn <= itp mn (mean c0) (s * q / ((1#2) * cnt c0)) /\ itp mn (mean c0) (s * q / ((1#2) * cnt c0)) <= mean c0)
      by (apply itp_range; [lra | apply div_nonneg; lra | apply div_le_1; lra]).
    lra.
  - split.
    + assert (mean c0 <= qloop QNum (s * q) c0 (0 + cnt c0) r s mx) by (apply qloop_ge; try assumption; lra). lra.
    + apply qloop_le; try assumption; lra. Qed.

Theorem quantile_0 d mn mx : wfd d mn mx -> quantile d 0 == mn.
Proof. intros (c0 & r & E & Hmn & Hmx & Hp & Hs & H0 & Hl).
  rewrite (quantile_unfold d c0 r mn mx 0 E Hmn Hmx).
  inversion Hp as [|? ? Hc0 Hr]; subst. set (s := tot (c0 :: r)).
  case_leb (s * 0) (cnt c0 * (1#2)) B; [|lra].
  apply itp_0. field. lra. Qed.

Theorem quantile_above_1 d mn mx q : wfd d mn mx -> 1 <= q -> quantile d q == mx.
Proof. intros (c0 & r & E & Hmn & Hmx & Hp & Hs & H0 & Hl) Hq.
  rewrite (quantile_unfold d c0 r mn mx q E Hmn Hmx).
  pose proof (total_pos c0 r Hp) as Hs0. pose proof (total_cons c0 r) as Ht. set (s := tot (c0 :: r)) in *.
  inversion Hp as [|? ? Hc0 Hr]; subst. pose proof (total_nonneg r Hr).
  assert (s <= s * q) by nra.
  case_leb (s * q) (cnt c0 * (1#2)) B; [lra|].
  apply qloop_top; try assumption. lra. Qed.

Theorem quantile_1 d mn mx : wfd d mn mx -> quantile d 1 == mx.
Proof. intros H. apply (quantile_above_1 d mn mx 1 H). lra. Qed.

Theorem quantile_mono d mn mx q1 q2 : wfd d mn mx -> 0 <= q1 <= q2 ->
  quantile d q1 <= quantile d q2.
Proof. intros (c0 & r & E & Hmn & Hmx & Hp & Hs & H0 & Hl) [Hq0 Hq12].
  rewrite (quantile_unfold d c0 r mn mx q1 E Hmn Hmx), (quantile_unfold d c0 r mn mx q2 E Hmn Hmx).
  pose proof (total_pos c0 r Hp) as Hs0. set (s := tot (c0 :: r)) in *.
  inversion Hp as [|? ? Hc0 Hr]; subst.
  pose proof (chain_of_sorted c0 r mx Hs Hl) as Hc.
  assert (L0 : 0 <= s * q1) by nra. assert (L12 : s * q1 <= s * q2) by nra.
  case_leb (s * q1) (cnt c0 * (1#2)) B1; case_leb (s * q2) (cnt c0 * (1#2)) B2.
  - apply itp_mono; [lra|]. unfold Qdiv. apply Qmult_le_compat_r; [lra|].
    apply Qlt_le_weak, Qinv_lt_0_compat. lra.
  - assert (A : itp mn (mean c0) (s * q1 / ((1#2) * cnt c0)) <= mean c0)
      by (apply itp_range; [lra | apply div_nonneg; lra | apply div_le_1; lra]).
    assert (mean c0 <= qloop QNum (s * q2) c0 (0 + cnt c0) r s mx) by (apply qloop_ge; try assumption; lra). lra.
  - lra.
  - apply qloop_mono; try assumption; lra. Qed.

(* ------------------------------------------------------------------------- *)
(** * cdf: the loop                                                           *)
(* ------------------------------------------------------------------------- *)

Section CLoop.
Variables (s mx : Q).
Hypothesis Hs0 : 0 < s.

Lemma cloop_nil x cum lm lc :
  cloop QNum x s cum lm lc [] mx = if Qltb x mx then itp lc s ((x - lm) / (mx - lm)) / s else 1.
Proof. reflexivity. Qed.
Lemma cloop_cons x cum lm lc c r :
  cloop QNum x s cum lm lc (c :: r) mx =
  if Qltb x (mean c) then itp lc (cum + (1#2) * cnt c) ((x - lm) / (mean c - lm)) / s
  else cloop QNum x s (cum + cnt c) (mean c) (cum + (1#2) * cnt c) r mx.
Proof. reflexivity. Qed.

(* one segment: last_mean <= x < m, knots lc <= cur <= s *)
Lemma seg_bounds x lm m lc cur : lm <= x -> x < m -> 0 <= lc -> lc <= cur -> cur <= s ->
  lc / s <= itp lc cur ((x - lm) / (m - lm)) / s /\ itp lc cur ((x - lm) / (m - lm)) / s <= cur / s.
Proof. intros H1 H2 H3 H4 H5.
  assert (A : lc <= itp lc cur ((x - lm) / (m - lm)) /\ itp lc cur ((x - lm) / (m - lm)) <= cur)
    by (apply itp_range; [lra | apply div_nonneg; lra | apply div_le_1; lra]).
  split; apply div_le_compat; lra. Qed.

Lemma cloop_bounds rest : forall x cum lm lc,
  allpos rest -> chain lm rest mx -> s == cum + tot rest -> 0 <= lc -> lc <= cum -> lm <= x ->
  lc / s <= cloop QNum x s cum lm lc rest mx /\ cloop QNum x s cum lm lc rest mx <= 1.
Proof. induction rest as [|c r IH]; intros x cum lm lc Hr Hc Hs Hlc0 Hlc Hx.
  - rewrite cloop_nil. rewrite total_nil in Hs. cbn [chain] in Hc.
    case_ltb x mx E.
    + destruct (seg_bounds x lm mx lc s) as [A B]; try lra.
      assert (s / s <= 1) by (apply div_le_1; lra). lra.
    + split; [apply div_le_1; lra | lra].
  - rewrite cloop_cons. rewrite total_cons in Hs. inversion Hr as [|? ? Hcc Hrr]; subst.
    destruct Hc as [Hc1 Hc2]. pose proof (total_nonneg r Hrr) as Htr.
    case_ltb x (mean c) E.
    + destruct (seg_bounds x lm (mean c) lc (cum + (1#2) * cnt c)) as [A B]; try lra.
      assert ((cum + (1#2) * cnt c) / s <= 1) by (apply div_le_1; lra). lra.
    + destruct (IH x (cum + cnt c) (mean c) (cum + (1#2) * cnt c)) as [A B]; try assumption; try lra.
      assert (lc / s <= (cum + (1#2) * cnt c) / s) by (apply div_le_compat; lra). lra. Qed.

Lemma cloop_mono rest : forall x1 x2 cum lm lc,
  allpos rest -> chain lm rest mx -> s == cum + tot rest -> 0 <= lc -> lc <= cum -> lm <= x1 -> x1 <= x2 ->
  cloop QNum x1 s cum lm lc rest mx <= cloop QNum x2 s cum lm lc rest mx.
Proof. induction rest as [|c r IH]; intros x1 x2 cum lm lc Hr Hc Hs Hlc0 Hlc Hx H12.
  - rewrite !cloop_nil. rewrite total_nil in Hs. cbn [chain] in Hc.
    case_ltb x1 mx E1; case_ltb x2 mx E2; try lra.
    + apply div_le_compat; [lra|]. apply itp_mono; [lra|]. apply div_le_compat; lra.
    + destruct (seg_bounds x1 lm mx lc s) as [A B]; try lra.
      assert (s / s <= 1) by (apply div_le_1; lra). lra.
  - rewrite !cloop_cons. rewrite total_cons in Hs. inversion Hr as [|? ? Hcc Hrr]; subst.
    destruct Hc as [Hc1 Hc2]. pose proof (total_nonneg r Hrr) as Htr.
    case_ltb x1 (mean c) E1; case_ltb x2 (mean c) E2; try lra.
    + apply div_le_compat; [lra|]. apply itp_mono; [lra|]. apply div_le_compat; lra.
    + destruct (seg_bounds x1 lm (mean c) lc (cum + (1#2) * cnt c)) as [A B]; try lra.
      destruct (cloop_bounds r x2 (cum + cnt c) (mean c) (cum + (1#2) * cnt c)) as [A' B']; try assumption; lra.
    + apply IH; try assumption; lra. Qed.

(* from mx upward the loop returns exactly 1 *)
Lemma cloop_top rest : forall x cum lm lc, chain lm rest mx -> mx <= x ->
  cloop QNum x s cum lm lc rest mx = 1.
Proof. induction rest as [|c r IH]; intros x cum lm lc Hc Hx.
  - rewrite cloop_nil. case_ltb x mx E; [lra|reflexivity].
  - rewrite cloop_cons. destruct Hc as [Hc1 Hc2]. pose proof (chain_le _ _ _ Hc2).
    case_ltb x (mean c) E; [lra|]. apply IH; assumption. Qed.
End CLoop.

(* ------------------------------------------------------------------------- *)
(** * cdf: theorems                                                           *)
(* ------------------------------------------------------------------------- *)

Lemma cdf_unfold d c0 r mn mx x :
  tcent QNum d = c0 :: r -> tmn QNum d = Some mn -> tmx QNum d = Some mx ->
  cdf d x = if Qltb x mn then 0 else cloop QNum x (tot (c0 :: r)) 0 mn 0 (c0 :: r) mx.
Proof. intros E Hmn Hmx. unfold td_cdf_inner, td_count. rewrite E, Hmn, Hmx. reflexivity. Qed.

Lemma wfd_chain c0 r mn mx : means_sorted (c0 :: r) -> mn <= mean c0 -> mean (last r c0) <= mx ->
  chain mn (c0 :: r) mx.
Proof. intros Hs H0 Hl. split; [exact H0|]. apply chain_of_sorted; assumption. Qed.

Theorem cdf_range d mn mx x : wfd d mn mx -> 0 <= cdf d x <= 1.
Proof. intros (c0 & r & E & Hmn & Hmx & Hp & Hs & H0 & Hl).
  rewrite (cdf_unfold d c0 r mn mx x E Hmn Hmx).
  pose proof (total_pos c0 r Hp) as Hs0. pose proof (wfd_chain c0 r mn mx Hs H0 Hl) as Hc.
  case_ltb x mn B; [lra|].
  destruct (cloop_bounds (tot (c0 :: r)) mx Hs0 (c0 :: r) x 0 mn 0) as [A1 A2]; try assumption; try lra.
  assert (0 / tot (c0 :: r) == 0) by (field; lra). lra. Qed.

Theorem cdf_below_min d mn mx x : wfd d mn mx -> x < mn -> cdf d x == 0.
Proof. intros (c0 & r & E & Hmn & Hmx & _) Hx.
  rewrite (cdf_unfold d c0 r mn mx x E Hmn Hmx).
  case_ltb x mn B; [reflexivity|lra]. Qed.

Theorem cdf_from_max d mn mx x : wfd d mn mx -> mx <= x -> cdf d x == 1.
Proof. intros (c0 & r & E & Hmn & Hmx & Hp & Hs & H0 & Hl) Hx.
  rewrite (cdf_unfold d c0 r mn mx x E Hmn Hmx).
  pose proof (wfd_chain c0 r mn mx Hs H0 Hl) as Hc. pose proof (chain_le _ _ _ Hc).
  case_ltb x mn B; [lra|].
  rewrite (cloop_top (tot (c0 :: r)) mx (c0 :: r) x 0 mn 0 Hc Hx). reflexivity. Qed.

Theorem cdf_mono d mn mx x1 x2 : wfd d mn mx -> x1 <= x2 -> cdf d x1 <= cdf d x2.
Proof. intros W H12. pose proof (cdf_range d mn mx x2 W) as R2.
  destruct W as (c0 & r & E & Hmn & Hmx & Hp & Hs & H0 & Hl).
  rewrite (cdf_unfold d c0 r mn mx x1 E Hmn Hmx) in *. rewrite (cdf_unfold d c0 r mn mx x2 E Hmn Hmx) in *.
  pose proof (total_pos c0 r Hp) as Hs0. pose proof (wfd_chain c0 r mn mx Hs H0 Hl) as Hc.
  case_ltb x1 mn B1; [lra|]. case_ltb x2 mn B2; [lra|].
  apply cloop_mono; try assumption; lra. Qed.

(* ------------------------------------------------------------------------- *)
(** * cdf (quantile q) == q  on digests with strictly increasing knots         *)
(* ------------------------------------------------------------------------- *)

Global Instance itp_proper : Proper (Qeq ==> Qeq ==> Qeq ==> Qeq) (interp QNum).
Proof. intros a a' Ha b b' Hb t t' Ht. rewrite !itp_eq, Ha, Hb, Ht. reflexivity. Qed.

Lemma itp_lt a b t : a < b -> t < 1 -> itp a b t < b.
Proof. intros. rewrite itp_eq. nra. Qed.
(* the two maps of one segment are mutually inverse *)
Lemma itp_inv m0 m1 t : m0 < m1 -> (itp m0 m1 t - m0) / (m1 - m0) == t.
Proof. intros H. rewrite itp_eq. field. lra. Qed.
Lemma itp_knots lc cur a d t l : lc == a -> cur == a + d -> t * d == l - a -> itp lc cur t == l.
Proof. intros H1 H2 H3. rewrite itp_eq, H1, H2. transitivity (a + t * d); [ring | lra]. Qed.
Lemma div_mul_cancel a d : 0 < d -> a / d * d == a.
Proof. intros H. field. lra. Qed.

Section Inverse.
Variables (s mx : Q).
Hypothesis Hs0 : 0 < s.

(* exactly at a knot (x == last_mean, next knot strictly to the right) the loop returns last_cum / s *)
Lemma cloop_at_knot rest x cum lm lc : schain lm rest mx -> x == lm ->
  cloop QNum x s cum lm lc rest mx == lc / s.
Proof. intros Hc Hx. destruct rest as [|c r].
  - rewrite cloop_nil. cbn [schain] in Hc. case_ltb x mx E; [|lra].
    rewrite (itp_0 lc s); [reflexivity|]. rewrite Hx. field. lra.
  - rewrite cloop_cons. destruct Hc as [Hc1 Hc2]. case_ltb x (mean c) E; [|lra].
    rewrite (itp_0 lc); [reflexivity|]. rewrite Hx. field. lra. Qed.

Lemma inv_loop s' rest : forall prev cum lc limit,
  0 < cnt prev -> allpos rest -> schain (mean prev) rest mx ->
  lc == cum - (1#2) * cnt prev -> lc < limit -> limit <= cum + tot rest -> s == cum + tot rest ->
  cloop QNum (qloop QNum limit prev cum rest s' mx) s cum (mean prev) lc rest mx == limit / s.
Proof. induction rest as [|c r IH]; intros prev cum lc limit Hp Hr Hc Hlc Hl Hlt Hs.
  - rewrite qloop_nil, cloop_nil. cbv zeta. rewrite total_nil in Hlt, Hs. cbn [schain] in Hc.
    set (t0 := (limit - (cum - (1#2) * cnt prev)) / ((1#2) * cnt prev)).
    assert (T1 : t0 <= 1) by (apply div_le_1; lra).
    case_ltb 1 t0 E0; [lra|].
    destruct (Qlt_le_dec limit cum) as [L|L].
    + assert (T1' : t0 < 1) by (apply div_lt_1; lra).
      pose proof (itp_lt (mean prev) mx t0 Hc T1') as X.
      case_ltb (itp (mean prev) mx t0) mx E; [|lra].
      rewrite (itp_inv (mean prev) mx t0 Hc).
      rewrite (itp_knots lc s (cum - (1#2) * cnt prev) ((1#2) * cnt prev) t0 limit); [reflexivity | exact Hlc | lra |].
      apply div_mul_cancel. lra.
    + assert (T1' : t0 == 1) by (apply div_same; lra).
      pose proof (itp_1 (mean prev) mx t0 T1') as X.
      case_ltb (itp (mean prev) mx t0) mx E; [lra|].
      symmetry. apply div_same; lra.
  - rewrite qloop_cons. inversion Hr as [|? ? Hcc Hrr]; subst. destruct Hc as [Hc1 Hc2].
    rewrite total_cons in Hlt, Hs. pose proof (total_nonneg r Hrr) as Htr.
    case_leb limit (cum + cnt c * (1#2)) B.
    + rewrite cloop_cons.
      set (t := (limit - (cum - (1#2) * cnt prev)) / ((1#2) * (cnt prev + cnt c))).
      destruct (Qlt_le_dec limit (cum + cnt c * (1#2))) as [L|L].
      * assert (T1' : t < 1) by (apply div_lt_1; lra).
        pose proof (itp_lt (mean prev) (mean c) t Hc1 T1') as X.
        case_ltb (itp (mean prev) (mean c) t) (mean c) E; [|lra].
        rewrite (itp_inv (mean prev) (mean c) t Hc1).
        rewrite (itp_knots lc (cum + (1#2) * cnt c) (cum - (1#2) * cnt prev) ((1#2) * (cnt prev + cnt c)) t limit);
          [reflexivity | exact Hlc | lra |].
        apply div_mul_cancel. lra.
      * assert (T1' : t == 1) by (apply div_same; lra).
        pose proof (itp_1 (mean prev) (mean c) t T1') as X.
        case_ltb (itp (mean prev) (mean c) t) (mean c) E; [lra|].
        rewrite (cloop_at_knot r _ (cum + cnt c) (mean c) (cum + (1#2) * cnt c) Hc2 X).
        apply Qdiv_comp; lra.
    + rewrite cloop_cons.
      assert (G : mean c <= qloop QNum limit c (cum + cnt c) r s' mx)
        by (apply qloop_ge; [assumption | assumption | apply schain_chain; assumption | lra]).
      case_ltb (qloop QNum limit c (cum + cnt c) r s' mx) (mean c) E; [lra|].
      apply IH; try assumption; lra. Qed.
End Inverse.

Theorem cdf_quantile d mn mx q : swfd d mn mx -> 0 <= q <= 1 -> cdf d (quantile d q) == q.
Proof. intros (c0 & r & E & Hmn & Hmx & Hp & Hs & H0 & Hl) [Hq0 Hq1].
  rewrite (cdf_unfold d c0 r mn mx _ E Hmn Hmx), (quantile_unfold d c0 r mn mx q E Hmn Hmx).
  pose proof (total_pos c0 r Hp) as Hs0. pose proof (total_cons c0 r) as Ht. set (s := tot (c0 :: r)) in *.
  inversion Hp as [|? ? Hc0 Hr]; subst. pose proof (total_nonneg r Hr) as Htr.
  pose proof (schain_of_ssorted c0 r mx Hs Hl) as Hc.
  assert (L0 : 0 <= s * q) by nra. assert (L1 : s * q <= s) by nra.
  assert (Q : s * q / s == q) by (field; lra).
  case_leb (s * q) (cnt c0 * (1#2)) B.
  - set (t := s * q / ((1#2) * cnt c0)).
    assert (T0 : 0 <= t) by (apply div_nonneg; lra).
    assert (T1 : t <= 1) by (apply div_le_1; lra).
    destruct (itp_range mn (mean c0) t) as [X0 X1]; try lra.
    case_ltb (itp mn (mean c0) t) mn E0; [lra|].
    rewrite cloop_cons.
    destruct (Qlt_le_dec (s * q) (cnt c0 * (1#2))) as [L|L].
    + assert (T1' : t < 1) by (apply div_lt_1; lra).
      pose proof (itp_lt mn (mean c0) t H0 T1') as X.
      case_ltb (itp mn (mean c0) t) (mean c0) E1; [|lra].
      rewrite (itp_inv mn (mean c0) t H0).
      rewrite (itp_knots 0 (0 + (1#2) * cnt c0) 0 ((1#2) * cnt c0) t (s * q)); [exact Q | reflexivity | lra |].
      unfold t. rewrite div_mul_cancel; lra.
    + assert (T1' : t == 1) by (apply div_same; lra).
      pose proof (itp_1 mn (mean c0) t T1') as X.
      case_ltb (itp mn (mean c0) t) (mean c0) E1; [lra|].
      rewrite (cloop_at_knot s mx r _ (0 + cnt c0) (mean c0) (0 + (1#2) * cnt c0) Hc X).
      transitivity (s * q / s); [apply Qdiv_comp; lra | exact Q].
  - assert (G : mean c0 <= qloop QNum (s * q) c0 (0 + cnt c0) r s mx)
      by (apply qloop_ge; [assumption | assumption | apply schain_chain; assumption | lra]).
    case_ltb (qloop QNum (s * q) c0 (0 + cnt c0) r s mx) mn E0; [lra|].
    rewrite cloop_cons.
    case_ltb (qloop QNum (s * q) c0 (0 + cnt c0) r s mx) (mean c0) E1; [lra|].
    rewrite (inv_loop s mx Hs0 s r c0 (0 + cnt c0) (0 + (1#2) * cnt c0) (s * q)); try assumption; try lra. Qed.

(* Without strictness (ties among the means, mn = mean c0, mean last = mx are all common: a first
   centroid of weight 1 IS the minimum) equality fails: on a flat stretch quantile is constant and
   cdf, whose test [x < mean c] is strict, returns the RIGHT end of the stretch.  What remains true for
   every well-formed digest is the Galois-style inequality  q <= cdf (quantile q). *)
Section InverseGe.
Variables (s mx : Q).
Hypothesis Hs0 : 0 < s.

Lemma ge_loop s' rest : forall prev cum lc limit,
  0 < cnt prev -> allpos rest -> chain (mean prev) rest mx ->
  lc == cum - (1#2) * cnt prev -> 0 <= lc -> lc <= limit -> limit <= cum + tot rest -> s == cum + tot rest ->
  limit / s <= cloop QNum (qloop QNum limit prev cum rest s' mx) s cum (mean prev) lc rest mx.
Proof. induction rest as [|c r IH]; intros prev cum lc limit Hp Hr Hc Hlc Hlc0 Hl Hlt Hs.
  - rewrite qloop_nil, cloop_nil. cbv zeta. rewrite total_nil in Hlt, Hs. cbn [chain] in Hc.
    set (t0 := (limit - (cum - (1#2) * cnt prev)) / ((1#2) * cnt prev)).
    assert (T0 : 0 <= t0) by (apply div_nonneg; lra).
    assert (T1 : t0 <= 1) by (apply div_le_1; lra).
    case_ltb 1 t0 E0; [lra|].
    destruct (itp_range (mean prev) mx t0) as [X0 X1]; try lra.
    case_ltb (itp (mean prev) mx t0) mx E.
    + assert (Hlt' : mean prev < mx) by lra.
      rewrite (itp_inv (mean prev) mx t0 Hlt').
      rewrite (itp_knots lc s (cum - (1#2) * cnt prev) ((1#2) * cnt prev) t0 limit); [lra | exact Hlc | lra |].
      apply div_mul_cancel. lra.
    + apply div_le_1; lra.
  - rewrite qloop_cons. inversion Hr as [|? ? Hcc Hrr]; subst. destruct Hc as [Hc1 Hc2].
    rewrite total_cons in Hlt, Hs. pose proof (total_nonneg r Hrr) as Htr.
    case_leb limit (cum + cnt c * (1#2)) B.
    + rewrite cloop_cons.
      set (t := (limit - (cum - (1#2) * cnt prev)) / ((1#2) * (cnt prev + cnt c))).
      assert (T0 : 0 <= t) by (apply div_nonneg; lra).
      assert (T1 : t <= 1) by (apply div_le_1; lra).
      destruct (itp_range (mean prev) (mean c) t) as [X0 X1]; try lra.
      case_ltb (itp (mean prev) (mean c) t) (mean c) E.
      * assert (Hlt' : mean prev < mean c) by lra.
        rewrite (itp_inv (mean prev) (mean c) t Hlt').
        rewrite (itp_knots lc (cum + (1#2) * cnt c) (cum - (1#2) * cnt prev) ((1#2) * (cnt prev + cnt c)) t limit);
          [lra | exact Hlc | lra |].
        apply div_mul_cancel. lra.
      * destruct (cloop_bounds s mx Hs0 r (itp (mean prev) (mean c) t) (cum + cnt c) (mean c) (cum + (1#2) * cnt c))
          as [A _]; try assumption; try lra.
        assert (limit / s <= (cum + (1#2) * cnt c) / s) by (apply div_le_compat; lra). lra.
    + rewrite cloop_cons.
      assert (G : mean c <= qloop QNum limit c (cum + cnt c) r s' mx) by (apply qloop_ge; try assumption; lra).
      case_ltb (qloop QNum limit c (cum + cnt c) r s' mx) (mean c) E; [lra|].
      apply IH; try assumption; lra. Qed.
End InverseGe.

Theorem cdf_quantile_ge d mn mx q : wfd d mn mx -> 0 <= q <= 1 -> q <= cdf d (quantile d q).
Proof. intros (c0 & r & E & Hmn & Hmx & Hp & Hs & H0 & Hl) [Hq0 Hq1].
  rewrite (cdf_unfold d c0 r mn mx _ E Hmn Hmx), (quantile_unfold d c0 r mn mx q E Hmn Hmx).
  pose proof (total_pos c0 r Hp) as Hs0. pose proof (total_cons c0 r) as Ht. set (s := tot (c0 :: r)) in *.
  inversion Hp as [|? ? Hc0 Hr]; subst. pose proof (total_nonneg r Hr) as Htr.
  pose proof (chain_of_sorted c0 r mx Hs Hl) as Hc.
  assert (L0 : 0 <= s * q) by nra. assert (L1 : s * q <= s) by nra.
  assert (Q : s * q / s == q) by (field; lra).
  case_leb (s * q) (cnt c0 * (1#2)) B.
  - set (t := s * q / ((1#2) * cnt c0)).
    assert (T0 : 0 <= t) by (apply div_nonneg; lra).
    assert (T1 : t <= 1) by (apply div_le_1; lra).
    destruct (itp_range mn (mean c0) t) as [X0 X1]; try lra.
    case_ltb (itp mn (mean c0) t) mn E0; [lra|].
    rewrite cloop_cons.
    case_ltb (itp mn (mean c0) t) (mean c0) E1.
    + assert (Hlt' : mn < mean c0) by lra.
      rewrite (itp_inv mn (mean c0) t Hlt').
      rewrite (itp_knots 0 (0 + (1#2) * cnt c0) 0 ((1#2) * cnt c0) t (s * q)); [lra | reflexivity | lra |].
      unfold t. rewrite div_mul_cancel; lra.
    + destruct (cloop_bounds s mx Hs0 r (itp mn (mean c0) t) (0 + cnt c0) (mean c0) (0 + (1#2) * cnt c0))
        as [A _]; try assumption; try lra.
      assert (s * q / s <= (0 + (1#2) * cnt c0) / s) by (apply div_le_compat; lra). lra.
  - assert (G : mean c0 <= qloop QNum (s * q) c0 (0 + cnt c0) r s mx) by (apply qloop_ge; try assumption; lra).
    case_ltb (qloop QNum (s * q) c0 (0 + cnt c0) r s mx) mn E0; [lra|].
    rewrite cloop_cons.
    case_ltb (qloop QNum (s * q) c0 (0 + cnt c0) r s mx) (mean c0) E1; [lra|].
    rewrite <- Q at 1.
    apply (ge_loop s mx Hs0 s r c0 (0 + cnt c0) (0 + (1#2) * cnt c0) (s * q)); try assumption; try lra. Qed.

(* ------------------------------------------------------------------------- *)
(** * empty digest                                                            *)
(* ------------------------------------------------------------------------- *)

(* In the Q instance [anan QNum] is the placeholder 0 (Q has no NaN); the PrimFloat instance puts a
   real NaN there.  The statement for quantile is a syntactic equality with that placeholder. *)
Theorem empty_reads (d : qtd) q x : tcent QNum d = [] -> quantile d q = anan QNum /\ cdf d x == 0.
Proof. intros E. unfold td_quantile_inner, td_cdf_inner. rewrite E. split; reflexivity. Qed.

(* ------------------------------------------------------------------------- *)
(** * Examples: the hypotheses are satisfiable, concrete evaluations           *)
(* ------------------------------------------------------------------------- *)

Definition mkd (l : list (centroid QNum)) (mn mx : Q) : qtd :=
  {| tcent := l; tn := 9; tmn := Some mn; tmx := Some mx; tback := []; tmaxb := 10 |}.
(* three centroids of weights 2, 3, 4 and means 1, 3, 5; min 1/2, max 6; s = 9;
   knots of quantile: (0,1/2) (1,1) (7/2,3) (7,5) (9,6) *)
Definition ex : qtd := mkd [(2, 2); (9, 3); (20, 4)] (1#2) 6.
(* ties: means 1, 1, 6 with mn = 1 = mean c0 and mean last = 6 = mx: well-formed but not strictly *)
Definition ex2 : qtd := mkd [(2, 2); (3, 3); (24, 4)] 1 6.

Example ex_swfd : swfd ex (1#2) 6.
Proof. exists (2, 2), [(9, 3); (20, 4)]. repeat split; try reflexivity.
  repeat constructor; reflexivity. Qed.
Example ex_wfd : wfd ex (1#2) 6.
Proof. apply swfd_wfd, ex_swfd. Qed.
Example ex2_wfd : wfd ex2 1 6.
Proof. exists (2, 2), [(3, 3); (24, 4)]. repeat split; try reflexivity; try (vm_compute; discriminate).
  repeat constructor; reflexivity. Qed.

Example ex_quantile_values :
  map (fun q => Qred (quantile ex q)) [0; 1#9; 1#2; 7#9; 8#9; 1; 2] = [1#2; 1; 25#7; 5; 11#2; 6; 6].
Proof. vm_compute. reflexivity. Qed.
Example ex_cdf_values :
  map (fun x => Qred (cdf ex x)) [0; 1#2; 1; 2; 3; 5; 11#2; 6; 7] = [0; 0; 1#9; 1#4; 7#18; 7#9; 8#9; 1; 1].
Proof. vm_compute. reflexivity. Qed.
(* cdf (quantile q) == q at interior points, at every knot (1/9, 7/18, 7/9), and at both ends *)
Example ex_cdf_quantile_values :
  map (fun q => Qred (cdf ex (quantile ex q))) [0; 1#18; 1#9; 7#18; 1#2; 7#9; 8#9; 1]
  = [0; 1#18; 1#9; 7#18; 1#2; 7#9; 8#9; 1].
Proof. vm_compute. reflexivity. Qed.
Example ex_instances :
  ((1#2) <= quantile ex (1#3) <= 6) /\ quantile ex (1#3) <= quantile ex (2#3) /\
  cdf ex 2 <= cdf ex 4 /\ cdf ex (quantile ex (1#3)) == 1#3.
Proof. split; [|split; [|split]].
  - apply (quantile_range ex _ _ _ ex_wfd). lra.
  - apply (quantile_mono ex _ _ _ _ ex_wfd). lra.
  - apply (cdf_mono ex _ _ _ _ ex_wfd). lra.
  - apply (cdf_quantile ex _ _ _ ex_swfd). lra. Qed.
(* with ties the model's cdf jumps: cdf 1 = 7/18 (not 0), and cdf (quantile (1/9)) = 7/18 > 1/9:
   strictness in cdf_quantile is necessary, cdf_quantile_ge is what survives *)
Example ex2_values :
  map (fun x => Qred (cdf ex2 x)) [1#2; 1; 3; 6] = [0; 7#18; 49#90; 1] /\
  map (fun q => Qred (quantile ex2 q)) [0; 1#9; 1#2; 8#9; 1] = [1; 1; 17#7; 6; 6] /\
  Qred (cdf ex2 (quantile ex2 (1#9))) = 7#18.
Proof. vm_compute. repeat split. Qed.
Example ex_empty : quantile (td_new QNum 10) (1#2) = 0 /\ cdf (td_new QNum 10) 3 == 0.
Proof. apply empty_reads. reflexivity. Qed.

Print Assumptions quantile_range.
Print Assumptions quantile_0.
Print Assumptions quantile_1.
Print Assumptions quantile_above_1.
Print Assumptions quantile_mono.
Print Assumptions cdf_range.
Print Assumptions cdf_below_min.
Print Assumptions cdf_from_max.
Print Assumptions cdf_mono.
Print Assumptions cdf_quantile.
Print Assumptions cdf_quantile_ge.
Print Assumptions empty_reads.
