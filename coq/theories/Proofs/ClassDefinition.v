(* Proofs/ClassDefinition.v — the structural classes of the exactness theorems ARE the property's
   observational classes.

   The property defines classes observationally: "call two elements indistinguishable if a filter
   holding only one of them reports the other present".  The exact-(multi)set theorems of
   CuckooMultiset.v and QuotientGeneral*.v speak about structural classes:
     cuckoo filter    class_of x = (fingerprint, unordered pair of candidate buckets)
     quotient filter  key_pair x = (quotient, remainder)
   This file proves, for EVERY hash function, every accepted configuration and every RNG stream:

   Cuckoo
     cuckoo_insert_empty          inserting y into the fresh filter succeeds, no RNG word is consumed
     cuckoo_indistinguishable     the filter holding only y reports x  <->  class_of x = class_of y
     indist_ck_iff / _ex_iff / indb_iff   three phrasings of "indistinguishable" (for all RNG streams,
                                  for some RNG stream, computed with the empty stream) all coincide with
                                  equality of classes; hence indist_ck is an equivalence relation
     cuckoo_query_observational   reach_query_iff restated with indist_ck (class-event ghost log)
     cuckoo_query_observational_keys   the same with a ghost log of KEYS (successful inserts / deletes),
                                  the counts being taken over all keys indistinguishable from the queried one
   Quotient filter (all widths)
     qf_insert_empty / qf_indistinguishable / qf_indistinguishable_hash
     indist_qf_iff, equivalence relation
     qf_query_observational       in every state built by new/insert/union/clear, query y = true iff
                                  some ACCEPTED key z (insert returned Ok(true), or it came through a
                                  successful union) is indistinguishable from y; len = number of
                                  distinct classes of accepted keys. *)
From PDS Require Import Model.Quotient Proofs.QuotientProofs Proofs.QuotientRename Proofs.QuotientLift.
From PDS Require Import Proofs.QuotientGeneralBase Proofs.QuotientGeneral Proofs.QuotientGeneralUnion.
From PDS Require Import Model.Cuckoo Proofs.CuckooBase Proofs.CuckooMultiset.
From Coq Require Import Permutation Lia ZifyN ZifyBool.

Local Open Scope N_scope.

Arguments N.add : simpl never.
Arguments N.sub : simpl never.
Arguments N.mul : simpl never.
Arguments N.div : simpl never.
Arguments N.modulo : simpl never.
Arguments N.pow : simpl never.
Arguments N.leb : simpl never.
Arguments N.ltb : simpl never.
Arguments N.eqb : simpl never.
Arguments N.land : simpl never.
Arguments N.lxor : simpl never.
Arguments N.min : simpl never.
Arguments N.max : simpl never.
Arguments N.shiftl : simpl never.
Arguments N.shiftr : simpl never.

(* ====================================================================== *)
(** * Part 1. Cuckoo filter                                                *)
(* ====================================================================== *)

(* an insertion that succeeds on the empty RNG stream never looks at the stream *)
Lemma insert_internal_nil_indep H bs nb t f i1 i2 lg t' lg' ws' :
  insert_internal H bs nb t f i1 i2 lg [] = KOk t' lg' ws' ->
  forall ws, insert_internal H bs nb t f i1 i2 lg ws = KOk t' lg' ws.
Proof.
  unfold insert_internal. intros E ws.
  destruct (write_bucket bs t i1 f lg) as [[t1 lg1]|].
  { injection E as <- <- _. reflexivity. }
  destruct (write_bucket bs t i2 f lg) as [[t2 lg2]|].
  { injection E as <- <- _. reflexivity. }
  cbn [gen_bool] in E. discriminate.
Qed.

Lemma cuckoo_insert_nil_indep H s y r s1 ws' :
  cuckoo_insert H s y [] = Some (IOk r, s1, ws') ->
  forall ws, cuckoo_insert H s y ws = Some (IOk r, s1, ws).
Proof.
  unfold cuckoo_insert. rewrite start_eq. intros E ws.
  destruct (insert_internal H (kbs s) (knb s) (ktbl s) (fpr H (kl s) y) (hb H (knb s) y)
              (N.lxor (hb H (knb s) y) (hb H (knb s) (fpr H (kl s) y))) [] []) as [t lg ws1|t lg ws1|] eqn:Ei;
    [|discriminate|discriminate].
  injection E as <- <- _.
  rewrite (insert_internal_nil_indep _ _ _ _ _ _ _ _ _ _ _ Ei ws). reflexivity.
Qed.

Section CuckooClass.
Variable H : hashfn.
Variables bs nb l : N.
Variable s0 : cuckoo.                       (* the freshly constructed filter *)
Hypothesis Hnew : cuckoo_new bs nb l = Some s0.

Lemma s0_fresh : fresh s0.
Proof. exists bs, nb, l. exact Hnew. Qed.

Lemma s0_Inv : CuckooMultiset.Inv H s0.
Proof. exact (Inv_new H _ _ _ _ Hnew). Qed.

Lemma s0_wfc : wfc s0.
Proof. apply s0_Inv. Qed.

Lemma s0_abs : abs H s0 = [].
Proof.
  destruct (cuckoo_new_wfc _ _ _ _ Hnew) as [_ [_ [_ [_ [_ [n Hr]]]]]].
  unfold abs. rewrite Hr. apply absl_repeat0.
Qed.

Lemma wsok_nil : wsok [].
Proof. constructor. Qed.

(* inserting into the empty filter: Ok(true), no eviction, no RNG word consumed *)
Theorem cuckoo_insert_empty y ws : exists s1, cuckoo_insert H s0 y ws = Some (IOk true, s1, ws).
Proof.
  apply cuckoo_small_succeeds; [exact s0_Inv|].
  destruct (cuckoo_new_wfc _ _ _ _ Hnew) as [Hw [Hn _]].
  destruct Hw as [[Hbs _] _]. lia.
Qed.

(* the filter holding only y does not depend on the RNG stream *)
Lemma cuckoo_insert_empty_det y ws ws2 r s1 ws' r2 s2 ws2' :
  cuckoo_insert H s0 y ws = Some (IOk r, s1, ws') ->
  cuckoo_insert H s0 y ws2 = Some (IOk r2, s2, ws2') -> s1 = s2 /\ r = true /\ r2 = true /\ ws' = ws /\ ws2' = ws2.
Proof.
  intros E1 E2. destruct (cuckoo_insert_empty y []) as [sn En].
  rewrite (cuckoo_insert_nil_indep _ _ _ _ _ _ En ws) in E1.
  rewrite (cuckoo_insert_nil_indep _ _ _ _ _ _ En ws2) in E2.
  injection E1 as <- <- <-. injection E2 as <- <- <-. auto.
Qed.

(* THE definition of a class: the filter holding only y reports x present
   iff x and y have the same fingerprint and the same unordered pair of candidate buckets *)
Theorem cuckoo_indistinguishable y ws r s1 ws' x :
  cuckoo_insert H s0 y ws = Some (IOk r, s1, ws') ->
  (cuckoo_query H s1 x = true <-> class_of H s0 x = class_of H s0 y).
Proof.
  intros E. destruct (cuckoo_insert_empty y []) as [sn En].
  destruct (cuckoo_insert_empty_det y ws [] r s1 ws' true sn [] E En) as [-> _]. clear E.
  apply cuckoo_insert_ok in En; [|exact s0_wfc|exact wsok_nil].
  destruct En as [_ [Hw1 [P [_ [Sh _]]]]].
  rewrite (cuckoo_query_iff H sn x Hw1), (class_of_shape H s0 sn x Sh).
  rewrite s0_abs in P. split.
  - intros Hin. eapply Permutation_in in Hin; [|exact P]. destruct Hin as [E|[]]. symmetry. exact E.
  - intros E. eapply Permutation_in; [symmetry; exact P|]. left. symmetry. exact E.
Qed.

(* the statement of the task, with the (unnecessary) hypothesis on the RNG words *)
Corollary cuckoo_indistinguishable_wsok y ws x : wsok ws ->
  exists s1, cuckoo_insert H s0 y ws = Some (IOk true, s1, ws) /\
             (cuckoo_query H s1 x = true <-> class_of H s0 x = class_of H s0 y).
Proof.
  intros _. destruct (cuckoo_insert_empty y ws) as [s1 E]. exists s1. split; [exact E|].
  exact (cuckoo_indistinguishable y ws true s1 ws x E).
Qed.

(** ** "indistinguishable", three phrasings *)

(* x is reported by every filter holding only y (whatever the RNG stream) *)
Definition indist_ck (x y : N) : Prop :=
  forall ws, wsok ws -> exists s1, cuckoo_insert H s0 y ws = Some (IOk true, s1, ws) /\ cuckoo_query H s1 x = true.
(* x is reported by some filter holding only y *)
Definition indist_ck_ex (x y : N) : Prop :=
  exists ws r s1 ws', cuckoo_insert H s0 y ws = Some (IOk r, s1, ws') /\ cuckoo_query H s1 x = true.
(* computed: insert y into the fresh filter (empty RNG stream), query x *)
Definition indb (x y : N) : bool :=
  match cuckoo_insert H s0 y [] with
  | Some (IOk _, s1, _) => cuckoo_query H s1 x
  | _ => false
  end.

Theorem indist_ck_iff x y : indist_ck x y <-> class_of H s0 x = class_of H s0 y.
Proof.
  split.
  - intros Hi. destruct (Hi [] wsok_nil) as [s1 [E Q]].
    apply (cuckoo_indistinguishable y [] true s1 [] x E). exact Q.
  - intros Ec ws _. destruct (cuckoo_insert_empty y ws) as [s1 E]. exists s1. split; [exact E|].
    apply (cuckoo_indistinguishable y ws true s1 ws x E). exact Ec.
Qed.

Theorem indist_ck_ex_iff x y : indist_ck_ex x y <-> class_of H s0 x = class_of H s0 y.
Proof.
  split.
  - intros [ws [r [s1 [ws' [E Q]]]]]. apply (cuckoo_indistinguishable y ws r s1 ws' x E). exact Q.
  - intros Ec. destruct (cuckoo_insert_empty y []) as [s1 E]. exists [], true, s1, []. split; [exact E|].
    apply (cuckoo_indistinguishable y [] true s1 [] x E). exact Ec.
Qed.

Theorem indb_iff x y : indb x y = true <-> class_of H s0 x = class_of H s0 y.
Proof.
  unfold indb. destruct (cuckoo_insert_empty y []) as [s1 E]. rewrite E.
  exact (cuckoo_indistinguishable y [] true s1 [] x E).
Qed.

Corollary indb_indist x y : indb x y = true <-> indist_ck x y.
Proof. rewrite indb_iff, indist_ck_iff. reflexivity. Qed.

(* hence: an equivalence relation (being equality of classes) *)
Corollary indist_ck_refl x : indist_ck x x.
Proof. apply indist_ck_iff. reflexivity. Qed.
Corollary indist_ck_sym x y : indist_ck x y -> indist_ck y x.
Proof. rewrite !indist_ck_iff. intros E. symmetry. exact E. Qed.
Corollary indist_ck_trans x y z : indist_ck x y -> indist_ck y z -> indist_ck x z.
Proof. rewrite !indist_ck_iff. intros E1 E2. congruence. Qed.

(* symmetry, on the filters themselves: the filter holding only y reports x iff the filter holding only x reports y *)
Corollary cuckoo_indistinguishable_sym x y wsx wsy rx ry sx sy wsx' wsy' :
  cuckoo_insert H s0 x wsx = Some (IOk rx, sx, wsx') ->
  cuckoo_insert H s0 y wsy = Some (IOk ry, sy, wsy') ->
  (cuckoo_query H sy x = true <-> cuckoo_query H sx y = true).
Proof.
  intros Ex Ey.
  rewrite (cuckoo_indistinguishable y wsy ry sy wsy' x Ey), (cuckoo_indistinguishable x wsx rx sx wsx' y Ex).
  split; intros E; symmetry; exact E.
Qed.

(** ** the exactness theorem in the property's vocabulary (class-event ghost log) *)

(* [nins (class_of z) e] counts the successful inserts of ALL elements indistinguishable from z *)
Lemma nins_cons_indist z x e :
  nins (class_of H s0 z) (EIns (class_of H s0 x) :: e) =
  ((if indb x z then 1 else 0) + nins (class_of H s0 z) e)%nat.
Proof.
  cbn [nins]. pose proof (indb_iff x z) as Hi.
  destruct (cls_dec (class_of H s0 x) (class_of H s0 z)) as [E|NE], (indb x z); try reflexivity.
  - apply Hi in E. discriminate.
  - exfalso. apply NE, Hi. reflexivity.
Qed.
Lemma ndel_cons_indist z x e :
  ndel (class_of H s0 z) (EDel (class_of H s0 x) :: e) =
  ((if indb x z then 1 else 0) + ndel (class_of H s0 z) e)%nat.
Proof.
  cbn [ndel]. pose proof (indb_iff x z) as Hi.
  destruct (cls_dec (class_of H s0 x) (class_of H s0 z)) as [E|NE], (indb x z); try reflexivity.
  - apply Hi in E. discriminate.
  - exfalso. apply NE, Hi. reflexivity.
Qed.

(* in every reachable state: y is reported present iff some element z indistinguishable from y has
   been inserted more often than deleted, counting all elements indistinguishable from z together *)
Theorem cuckoo_query_observational s e y : reach H s0 s e ->
  (cuckoo_query H s y = true <->
   exists z, indist_ck y z /\ (ndel (class_of H s0 z) e < nins (class_of H s0 z) e)%nat).
Proof.
  intros Hr. rewrite (reach_query_iff H s0 s e y s0_fresh Hr).
  destruct (reach_Inv H s0 s e s0_fresh Hr) as [_ Sh].
  rewrite (class_of_shape H s0 s y Sh). split.
  - intros Hlt. exists y. split; [apply indist_ck_refl|exact Hlt].
  - intros [z [Hi Hlt]]. apply indist_ck_iff in Hi. rewrite Hi. exact Hlt.
Qed.

(** ** the same with a ghost log of KEYS *)

(* key events, newest first, reset by clear: successful insert of x / successful delete of x *)
Inductive kev := KIns (x : N) | KDel (x : N).
Definition kstate : Type := cuckoo * list N * list kev.

Fixpoint kstep (o : op) (st : kstate) {struct o} : option kstate :=
  match o with
  | OIns x =>
      let '(s, ws, e) := st in
      match cuckoo_insert H s x ws with
      | Some (IOk _, s', ws') => Some (s', ws', KIns x :: e)
      | Some (IFull, s', ws') => Some (s', ws', e)
      | None => None
      end
  | ODel x =>
      let '(s, ws, e) := st in
      let '(r, s') := cuckoo_delete H s x in
      Some (s', ws, if r then KDel x :: e else e)
  | OClr => let '(s, ws, e) := st in Some (cuckoo_clear s, ws, [])
  | OUni h =>
      let '(s, ws, e) := st in
      match (fix runl (h : list op) (st : kstate) {struct h} : option kstate :=
               match h with
               | [] => Some st
               | o :: r => match kstep o st with Some st' => runl r st' | None => None end
               end) h (s0, ws, []) with
      | Some (b, ws1, eb) =>
          match cuckoo_union H s b ws1 with
          | Some (true, s', ws2) => Some (s', ws2, eb ++ e)
          | Some (false, s', ws2) => Some (s', ws2, e)
          | None => None
          end
      | None => None
      end
  end.

Fixpoint krun (h : list op) (st : kstate) : option kstate :=
  match h with
  | [] => Some st
  | o :: r => match kstep o st with Some st' => krun r st' | None => None end
  end.

Lemma kstep_uni h s ws e :
  kstep (OUni h) (s, ws, e) =
  match krun h (s0, ws, []) with
  | Some (b, ws1, eb) =>
      match cuckoo_union H s b ws1 with
      | Some (true, s', ws2) => Some (s', ws2, eb ++ e)
      | Some (false, s', ws2) => Some (s', ws2, e)
      | None => None
      end
  | None => None
  end.
Proof. reflexivity. Qed.

(* the class event of a key event *)
Definition cev (k : kev) : ev :=
  match k with KIns x => EIns (class_of H s0 x) | KDel x => EDel (class_of H s0 x) end.
Definition lift (st : kstate) : rstate := let '(s, ws, ke) := st in (s, ws, map cev ke).

(* the key-logging run is the run of CuckooMultiset.v, the class log being the image of the key log *)
Lemma kstep_sim : forall o st st', good H s0 (lift st) -> kstep o st = Some st' ->
  CuckooMultiset.step H s0 o (lift st) = Some (lift st').
Proof.
  induction o as [x|x| |h IHh] using op_ind'; intros [[s ws] ke] st' Hg E.
  - cbn [kstep] in E. cbn [lift CuckooMultiset.step].
    destruct Hg as [_ [Sh _]]. rewrite (class_of_shape H s0 s x Sh).
    destruct (cuckoo_insert H s x ws) as [[[[b|] s1] ws1]|]; [| |discriminate]; injection E as <-; reflexivity.
  - cbn [kstep] in E. cbn [lift CuckooMultiset.step].
    destruct Hg as [_ [Sh _]]. rewrite (class_of_shape H s0 s x Sh).
    destruct (cuckoo_delete H s x) as [r s1]. injection E as <-. destruct r; reflexivity.
  - cbn [kstep] in E. injection E as <-. reflexivity.
  - rewrite kstep_uni in E. cbn [lift]. rewrite step_uni.
    assert (Hrun : forall h', Forall (fun o => forall st st', good H s0 (lift st) -> kstep o st = Some st' ->
                                 CuckooMultiset.step H s0 o (lift st) = Some (lift st')) h' ->
                   forall st st', good H s0 (lift st) -> krun h' st = Some st' ->
                                  CuckooMultiset.run H s0 h' (lift st) = Some (lift st')).
    { induction h' as [|o r IHr]; intros HF st1 st2 Hg1 Er; cbn [krun] in Er; cbn [CuckooMultiset.run].
      - injection Er as <-. reflexivity.
      - inversion HF as [|? ? Ho Hr']; subst. destruct (kstep o st1) as [st3|] eqn:Es; [|discriminate].
        rewrite (Ho st1 st3 Hg1 Es). apply (IHr Hr' st3 st2); [|exact Er].
        eapply step_good; [exact s0_fresh|exact Hg1|]. exact (Ho st1 st3 Hg1 Es). }
    destruct (krun h (s0, ws, [])) as [[[b ws1] eb]|] eqn:Er; [|discriminate].
    assert (Hg0 : good H s0 (lift (s0, ws, []))).
    { cbn [lift map]. apply good_start; [exact s0_fresh|]. destruct Hg as [_ [_ [Hws _]]]. exact Hws. }
    rewrite (Hrun h IHh _ _ Hg0 Er : CuckooMultiset.run H s0 h (s0, ws, []) = Some (b, ws1, map cev eb)).
    destruct (cuckoo_union H s b ws1) as [[[r s1] ws2]|]; [|discriminate].
    destruct r; injection E as <-; cbn [lift]; rewrite ?map_app; reflexivity.
Qed.

Lemma krun_sim : forall h st st', good H s0 (lift st) -> krun h st = Some st' ->
  CuckooMultiset.run H s0 h (lift st) = Some (lift st').
Proof.
  induction h as [|o r IH]; intros st st' Hg E; cbn [krun] in E; cbn [CuckooMultiset.run].
  - injection E as <-. reflexivity.
  - destruct (kstep o st) as [st1|] eqn:Es; [|discriminate].
    rewrite (kstep_sim o st st1 Hg Es). apply IH; [|exact E].
    eapply step_good; [exact s0_fresh|exact Hg|]. exact (kstep_sim o st st1 Hg Es).
Qed.

(* conversely every run of CuckooMultiset.v is a key-logging run *)
Lemma kstep_complete : forall o st rst, good H s0 (lift st) -> CuckooMultiset.step H s0 o (lift st) = Some rst ->
  exists st', kstep o st = Some st' /\ rst = lift st'.
Proof.
  induction o as [x|x| |h IHh] using op_ind'; intros [[s ws] ke] rst Hg E.
  - cbn [lift CuckooMultiset.step] in E. cbn [kstep].
    destruct Hg as [_ [Sh _]]. rewrite (class_of_shape H s0 s x Sh) in E.
    destruct (cuckoo_insert H s x ws) as [[[[b|] s1] ws1]|]; [| |discriminate]; injection E as <-;
      eexists; (split; [reflexivity|reflexivity]).
  - cbn [lift CuckooMultiset.step] in E. cbn [kstep].
    destruct Hg as [_ [Sh _]]. rewrite (class_of_shape H s0 s x Sh) in E.
    destruct (cuckoo_delete H s x) as [r s1]. injection E as <-.
    eexists; split; [reflexivity|]. destruct r; reflexivity.
  - cbn [lift CuckooMultiset.step] in E. injection E as <-. eexists; split; reflexivity.
  - cbn [lift] in E. rewrite step_uni in E. rewrite kstep_uni.
    assert (Hrun : forall h', Forall (fun o => forall st rst, good H s0 (lift st) ->
                                 CuckooMultiset.step H s0 o (lift st) = Some rst ->
                                 exists st', kstep o st = Some st' /\ rst = lift st') h' ->
                   forall st rst, good H s0 (lift st) -> CuckooMultiset.run H s0 h' (lift st) = Some rst ->
                                  exists st', krun h' st = Some st' /\ rst = lift st').
    { induction h' as [|o r IHr]; intros HF st1 rst1 Hg1 Er; cbn [CuckooMultiset.run] in Er; cbn [krun].
      - injection Er as <-. eexists; split; reflexivity.
      - inversion HF as [|? ? Ho Hr']; subst.
        destruct (CuckooMultiset.step H s0 o (lift st1)) as [rst3|] eqn:Es; [|discriminate].
        destruct (Ho st1 rst3 Hg1 Es) as [st3 [Ek ->]]. rewrite Ek.
        apply (IHr Hr' st3 rst1); [|exact Er].
        eapply step_good; [exact s0_fresh|exact Hg1|exact Es]. }
    assert (Hg0 : good H s0 (lift (s0, ws, []))).
    { cbn [lift map]. apply good_start; [exact s0_fresh|]. destruct Hg as [_ [_ [Hws _]]]. exact Hws. }
    destruct (CuckooMultiset.run H s0 h (s0, ws, [])) as [rb|] eqn:Er; [|discriminate].
    destruct (Hrun h IHh (s0, ws, []) rb Hg0 Er) as [[[b ws1] eb] [Ek ->]]. rewrite Ek. cbn [lift] in E.
    destruct (cuckoo_union H s b ws1) as [[[r s1] ws2]|]; [|discriminate].
    destruct r; injection E as <-; eexists; (split; [reflexivity|]); cbn [lift]; rewrite ?map_app; reflexivity.
Qed.

Lemma krun_complete : forall h st rst, good H s0 (lift st) -> CuckooMultiset.run H s0 h (lift st) = Some rst ->
  exists st', krun h st = Some st' /\ rst = lift st'.
Proof.
  induction h as [|o r IH]; intros st rst Hg E; cbn [CuckooMultiset.run] in E; cbn [krun].
  - injection E as <-. eexists; split; reflexivity.
  - destruct (CuckooMultiset.step H s0 o (lift st)) as [rst1|] eqn:Es; [|discriminate].
    destruct (kstep_complete o st rst1 Hg Es) as [st1 [Ek ->]]. rewrite Ek.
    apply IH; [|exact E]. eapply step_good; [exact s0_fresh|exact Hg|exact Es].
Qed.

(* [kreach s ke]: s is the state after some history run on 64-bit RNG words, ke the key events since the last clear *)
Definition kreach (s : cuckoo) (ke : list kev) : Prop :=
  exists h ws ws', wsok ws /\ krun h (s0, ws, []) = Some (s, ws', ke).

Theorem kreach_reach s ke : kreach s ke -> reach H s0 s (map cev ke).
Proof.
  intros [h [ws [ws' [Hw E]]]]. exists h, ws, ws'. split; [exact Hw|].
  apply (krun_sim h (s0, ws, []) (s, ws', ke)); [|exact E].
  cbn [lift map]. apply good_start; [exact s0_fresh|exact Hw].
Qed.

Theorem reach_kreach s e : reach H s0 s e -> exists ke, kreach s ke /\ e = map cev ke.
Proof.
  intros [h [ws [ws' [Hw E]]]].
  destruct (krun_complete h (s0, ws, []) (s, ws', e)) as [[[s' ws2] ke] [Ek El]]; [|exact E|].
  { cbn [lift map]. apply good_start; [exact s0_fresh|exact Hw]. }
  cbn [lift] in El. injection El as <- <- ->. exists ke. split; [|reflexivity].
  exists h, ws, ws'. auto.
Qed.

(* number of successful inserts / deletes of elements indistinguishable from z ([indb]: computed observationally) *)
Fixpoint kins (z : N) (ke : list kev) : nat :=
  match ke with
  | [] => O
  | KIns x :: r => ((if indb x z then 1 else 0) + kins z r)%nat
  | KDel _ :: r => kins z r
  end.
Fixpoint kdel (z : N) (ke : list kev) : nat :=
  match ke with
  | [] => O
  | KDel x :: r => ((if indb x z then 1 else 0) + kdel z r)%nat
  | KIns _ :: r => kdel z r
  end.

Lemma kins_nins z ke : kins z ke = nins (class_of H s0 z) (map cev ke).
Proof.
  induction ke as [|[x|x] r IH]; [reflexivity| |exact IH].
  cbn [kins map cev]. rewrite nins_cons_indist, IH. reflexivity.
Qed.
Lemma kdel_ndel z ke : kdel z ke = ndel (class_of H s0 z) (map cev ke).
Proof.
  induction ke as [|[x|x] r IH]; [reflexivity|exact IH|].
  cbn [kdel map cev]. rewrite ndel_cons_indist, IH. reflexivity.
Qed.

(* the counts only depend on the class of z *)
Lemma kins_indist z z' ke : indist_ck z z' -> kins z ke = kins z' ke.
Proof. intros Hi. apply indist_ck_iff in Hi. rewrite !kins_nins, Hi. reflexivity. Qed.
Lemma kdel_indist z z' ke : indist_ck z z' -> kdel z ke = kdel z' ke.
Proof. intros Hi. apply indist_ck_iff in Hi. rewrite !kdel_ndel, Hi. reflexivity. Qed.

(* exact multiset, in the property's own words: y is reported present iff the elements
   indistinguishable from y have (together) been inserted more often than deleted *)
Theorem cuckoo_query_observational_keys s ke y : kreach s ke ->
  (cuckoo_query H s y = true <-> (kdel y ke < kins y ke)%nat).
Proof.
  intros Hk. apply kreach_reach in Hk. rewrite kins_nins, kdel_ndel.
  rewrite (reach_query_iff H s0 s _ y s0_fresh Hk).
  destruct (reach_Inv H s0 s _ s0_fresh Hk) as [_ Sh].
  rewrite (class_of_shape H s0 s y Sh). reflexivity.
Qed.

Corollary cuckoo_query_observational_keys_ex s ke y : kreach s ke ->
  (cuckoo_query H s y = true <-> exists z, indist_ck y z /\ (kdel z ke < kins z ke)%nat).
Proof.
  intros Hk. rewrite (cuckoo_query_observational_keys s ke y Hk). split.
  - intros Hlt. exists y. split; [apply indist_ck_refl|exact Hlt].
  - intros [z [Hi Hlt]]. rewrite (kins_indist y z ke Hi), (kdel_indist y z ke Hi). exact Hlt.
Qed.

(* the number of stored copies of y's class = inserts - deletes of elements indistinguishable from y *)
Corollary cuckoo_count_observational_keys s ke y : kreach s ke ->
  count_occ cls_dec (abs H s) (class_of H s0 y) = (kins y ke - kdel y ke)%nat /\ (kdel y ke <= kins y ke)%nat.
Proof.
  intros Hk. apply kreach_reach in Hk. rewrite kins_nins, kdel_ndel.
  apply (reach_count H s0 s _ _ s0_fresh Hk).
Qed.

End CuckooClass.

(* ====================================================================== *)
(** * Part 2. Quotient filter, all widths                                  *)
(* ====================================================================== *)

Section QfClass.
Variables bq br : N.
Variable H : hashfn.
Hypothesis Hw : widths_ok bq br.
Hypothesis Hh : hash64 H.
Notation n := (cn bq).
Notation kp := (key_pair bq br H).
Notation e0 := (qf_empty bq br).

Lemma qf_new_is_empty s0 : qf_new bq br = Some s0 -> s0 = e0.
Proof. rewrite (qf_new_empty_g bq br Hw). intros E. injection E as <-. reflexivity. Qed.

Lemma lstep_nil p : lstep bq [] p = (QOkT, [p]).
Proof.
  unfold lstep. cbn [lmem existsb length app].
  destruct (N.eqb_spec (N.of_nat 0) n) as [E|_]; [|reflexivity].
  exfalso. pose proof (n_pos bq). lia.
Qed.

(* inserting into the empty filter: Ok(true); the result holds exactly the pair of y *)
Theorem qf_insert_empty s0 y : qf_new bq br = Some s0 ->
  exists s1, qf_insert H s0 y = (QOkT, s1) /\ QuotientGeneral.Inv bq s1 [kp y] /\ qbq s1 = bq /\ qbr s1 = br.
Proof.
  intros E. pose proof (qf_new_is_empty s0 E) as ->.
  pose proof (QuotientGeneral.step bq e0 [] (kp y) (Inv_empty bq br) (kp_qok bq br H Hw Hh y)) as (_ & Hres & HI).
  rewrite lstep_nil in Hres, HI. cbn [fst snd] in Hres, HI.
  rewrite <- (qf_insert_shape_int bq br H e0 y eq_refl eq_refl) in Hres, HI.
  destruct (qf_reach_inv bq br H Hw Hh _ (reach_insert H bq br e0 y (reach_new H bq br e0 E))) as (_ & _ & Eq & Er).
  destruct (qf_insert H e0 y) as [r s1]. cbn [fst snd] in *. subst r. exists s1. auto.
Qed.

(* THE definition of a class: the filter holding only y reports x iff x and y have the same (quotient, remainder) *)
Theorem qf_indistinguishable s0 y : qf_new bq br = Some s0 ->
  exists s1, qf_insert H s0 y = (QOkT, s1) /\
             forall x, (qf_query H s1 x = true <-> kp x = kp y).
Proof.
  intros E. destruct (qf_insert_empty s0 y E) as (s1 & Ei & HI & Eq & Er). exists s1. split; [exact Ei|].
  intros x. rewrite (inv_query bq br H Hw Hh s1 [kp y] x HI Eq Er), lmem_In. cbn [In]. split.
  - intros [Ey|[]]. symmetry. exact Ey.
  - intros Ex. left. symmetry. exact Ex.
Qed.

(* in terms of the raw 64-bit hashes: same low bq+br bits *)
Lemma kp_eq_hash x y :
  kp x = kp y <-> H None (Some x) mod 2 ^ (bq + br) = H None (Some y) mod 2 ^ (bq + br).
Proof. destruct Hw as (Hr & Hq & Hs). unfold key_pair. apply qf_split_eq_iff; auto. Qed.

Corollary qf_indistinguishable_hash s0 y : qf_new bq br = Some s0 ->
  exists s1, qf_insert H s0 y = (QOkT, s1) /\
             forall x, (qf_query H s1 x = true <->
                        H None (Some x) mod 2 ^ (bq + br) = H None (Some y) mod 2 ^ (bq + br)).
Proof.
  intros E. destruct (qf_indistinguishable s0 y E) as (s1 & Ei & Hq). exists s1. split; [exact Ei|].
  intros x. rewrite (Hq x). apply kp_eq_hash.
Qed.

(* x is reported by the filter holding only y *)
Definition indist_qf (x y : N) : Prop :=
  exists s0 s1, qf_new bq br = Some s0 /\ qf_insert H s0 y = (QOkT, s1) /\ qf_query H s1 x = true.

Theorem indist_qf_iff x y : indist_qf x y <-> kp x = kp y.
Proof.
  split.
  - intros (s0 & s1 & E & Ei & Q). destruct (qf_indistinguishable s0 y E) as (s1' & Ei' & Hq).
    rewrite Ei in Ei'. injection Ei' as <-. apply Hq. exact Q.
  - intros Ek. destruct (qf_indistinguishable e0 y (qf_new_empty_g bq br Hw)) as (s1 & Ei & Hq).
    exists e0, s1. split; [apply (qf_new_empty_g bq br Hw)|]. split; [exact Ei|]. apply Hq. exact Ek.
Qed.

Corollary indist_qf_hash x y :
  indist_qf x y <-> H None (Some x) mod 2 ^ (bq + br) = H None (Some y) mod 2 ^ (bq + br).
Proof. rewrite indist_qf_iff. apply kp_eq_hash. Qed.

Corollary indist_qf_refl x : indist_qf x x.
Proof. apply indist_qf_iff. reflexivity. Qed.
Corollary indist_qf_sym x y : indist_qf x y -> indist_qf y x.
Proof. rewrite !indist_qf_iff. intros E. symmetry. exact E. Qed.
Corollary indist_qf_trans x y z : indist_qf x y -> indist_qf y z -> indist_qf x z.
Proof. rewrite !indist_qf_iff. intros E1 E2. congruence. Qed.

(** ** reachable states, with the ghost list of ACCEPTED keys *)

(* [qf_hist s ks]: s is built by new / insert / union / clear (= qf_reach) and ks lists the keys it
   accepted since the last clear: inserts that returned Ok(true), and the accepted keys of every
   filter merged by a successful union *)
Inductive qf_hist : qf -> list N -> Prop :=
| hist_new s0 : qf_new bq br = Some s0 -> qf_hist s0 []
| hist_insert s ks x : qf_hist s ks ->
    qf_hist (snd (qf_insert H s x)) (match fst (qf_insert H s x) with QOkT => x :: ks | _ => ks end)
| hist_union a ka b kb res a' : qf_hist a ka -> qf_hist b kb -> qf_union a b = Some (res, a') ->
    qf_hist a' (match res with QOkT => kb ++ ka | _ => ka end)
| hist_clear s ks : qf_hist s ks -> qf_hist (qf_clear s) [].

Lemma qf_hist_reach s ks : qf_hist s ks -> qf_reach H bq br s.
Proof.
  intros Hh0. induction Hh0 as [s0 E|s ks x _ IH|a ka b kb res a' _ IHa _ IHb Eu|s ks _ IH].
  - apply reach_new. exact E.
  - apply reach_insert. exact IH.
  - exact (reach_union H bq br a b res a' IHa IHb Eu).
  - apply reach_clear. exact IH.
Qed.

Lemma qf_reach_hist s : qf_reach H bq br s -> exists ks, qf_hist s ks.
Proof.
  intros Hr. induction Hr as [s1 E1|s x _ [ks IH]|a b res a' _ [ka IHa] _ [kb IHb] Eu|s _ [ks IH]].
  - exists []. apply hist_new. exact E1.
  - eexists. apply hist_insert. exact IH.
  - eexists. exact (hist_union a ka b kb res a' IHa IHb Eu).
  - exists []. eapply hist_clear. exact IH.
Qed.

(* the stored set of pairs is the set of pairs of the accepted keys *)
Lemma qf_hist_inv s ks : qf_hist s ks ->
  exists A, QuotientGeneral.Inv bq s A /\ qbq s = bq /\ qbr s = br /\ forall p, In p A <-> In p (map kp ks).
Proof.
  intros Hh0. induction Hh0 as [s0 E|s ks x Hs IH|a ka b kb res a' Ha IHa Hb IHb Eu|s ks Hs IH].
  - pose proof (qf_new_is_empty s0 E) as ->. exists []. split; [apply Inv_empty|]. split; [reflexivity|].
    split; [reflexivity|]. intros p. reflexivity.
  - destruct IH as (A & HI & Eq & Er & Hiff).
    destruct (qf_reach_inv bq br H Hw Hh _ (reach_insert H bq br s x (qf_hist_reach s ks Hs))) as (_ & _ & Eq' & Er').
    rewrite (qf_insert_shape_int bq br H s x Eq Er) in *.
    destruct (QuotientGeneral.step bq s A (kp x) HI (kp_qok bq br H Hw Hh x)) as (_ & Hres & HI').
    rewrite Hres. unfold lstep in *. destruct (lmem (kp x) A); cbn [fst snd] in *.
    { exists A. auto. }
    destruct (N.of_nat (length A) =? n); cbn [fst snd] in *.
    { exists A. auto. }
    exists (A ++ [kp x]). split; [exact HI'|]. split; [exact Eq'|]. split; [exact Er'|].
    intros p. rewrite in_app_iff, Hiff. cbn [map In]. tauto.
  - destruct IHa as (A & HIa & Eqa & Era & Hiffa). destruct IHb as (B & HIb & Eqb & Erb & Hiffb).
    pose proof (qf_union_shape a b res a' Eu) as (_&_&_&_&Hq1&Hr1).
    destruct (qf_union_general bq a b A B HIa HIb Eqa Eqb ltac:(congruence)) as [U1 U2].
    assert (Hdec : fits bq A B \/ ~ fits bq A B) by (unfold fits; lia).
    destruct Hdec as [Hf|Hf].
    + destruct (U1 Hf) as (s' & A' & E & HI' & Hset). rewrite E in Eu. injection Eu as <- <-. cbv iota. exists A'.
      split; [exact HI'|]. split; [congruence|]. split; [congruence|].
      intros p. rewrite Hset, map_app, in_app_iff, Hiffa, Hiffb. tauto.
    + rewrite (U2 Hf) in Eu. injection Eu as <- <-. cbv iota. exists A. auto.
  - exists []. rewrite (qf_clear_init H bq br _ s (qf_new_empty_g bq br Hw) (qf_hist_reach s ks Hs)).
    split; [apply Inv_empty|]. split; [reflexivity|]. split; [reflexivity|]. intros p. reflexivity.
Qed.

(* exact set, in the property's own words: y is reported present iff an accepted key is
   indistinguishable from y; len counts the classes of the accepted keys *)
Theorem qf_query_observational s ks y : qf_hist s ks ->
  (qf_query H s y = true <-> exists z, In z ks /\ indist_qf y z).
Proof.
  intros Hh0. destruct (qf_hist_inv s ks Hh0) as (A & HI & Eq & Er & Hiff).
  rewrite (inv_query bq br H Hw Hh s A y HI Eq Er), lmem_In, Hiff, in_map_iff. split.
  - intros (z & Ez & Hz). exists z. split; [exact Hz|]. apply indist_qf_iff. symmetry. exact Ez.
  - intros (z & Hz & Hi). exists z. split; [|exact Hz]. apply indist_qf_iff in Hi. symmetry. exact Hi.
Qed.

Theorem qf_len_observational s ks : qf_hist s ks ->
  qf_len s = N.of_nat (length (nodup pair_dec (map kp ks))) /\ qf_len s <= 2 ^ bq.
Proof.
  intros Hh0. destruct (qf_hist_inv s ks Hh0) as (A & HI & _ & _ & Hiff).
  destruct HI as (Hnd & _ & Hlen & Hcnt & _). unfold qf_len. rewrite Hcnt.
  split; [|unfold cn in *; lia]. f_equal.
  apply Nat.le_antisymm; apply NoDup_incl_length; try apply NoDup_nodup; try exact Hnd.
  - intros p Hp. apply nodup_In, Hiff, Hp.
  - intros p Hp. apply Hiff. apply nodup_In in Hp. exact Hp.
Qed.

(* the version over plain reachability, in terms of the stored pairs *)
Corollary qf_query_observational_reach s : qf_reach H bq br s ->
  exists ks, qf_hist s ks /\ forall y, (qf_query H s y = true <-> exists z, In z ks /\ indist_qf y z).
Proof.
  intros Hr. destruct (qf_reach_hist s Hr) as [ks Hk]. exists ks. split; [exact Hk|].
  intros y. apply qf_query_observational. exact Hk.
Qed.

End QfClass.

(* ====================================================================== *)
(** * Examples                                                             *)
(* ====================================================================== *)

Module ClassExamples.
Import CuckooMultiset.Examples.

(* cuckoo: bucketsize 2, 4 buckets, 8-bit fingerprints, Hex iv x = 7 x + iv.
   fingerprint = 1 + 7x mod 255, bucket = (7x + 1) land 3: keys 1 and 1021 = 1 + 4*255 agree on both *)
Example ck_classes : class_of Hex ex0 1 = (8, 0, 1) /\ class_of Hex ex0 1021 = (8, 0, 1) /\ class_of Hex ex0 2 = (15, 1, 3).
Proof. vm_compute. auto. Qed.

Example ck_indist_1021_1 : indist_ck Hex ex0 1021 1 /\ indist_ck Hex ex0 1 1021.
Proof. split; apply (indist_ck_iff Hex 2 4 8 ex0 ex0_new); vm_compute; reflexivity. Qed.
Example ck_dist_2_1 : ~ indist_ck Hex ex0 2 1.
Proof. intros Hi. apply (indist_ck_iff Hex 2 4 8 ex0 ex0_new) in Hi. vm_compute in Hi. discriminate. Qed.

(* the same, run on the model *)
Example ck_run :
  exists s1, cuckoo_insert Hex ex0 1 [] = Some (IOk true, s1, []) /\
             cuckoo_query Hex s1 1021 = true /\ cuckoo_query Hex s1 2 = false /\
             indb Hex ex0 1021 1 = true /\ indb Hex ex0 2 1 = false.
Proof. eexists. vm_compute. repeat split; reflexivity. Qed.

(* a key-logging history: insert 1, insert 1021, insert 2, delete 1 (removes one copy of the class of 1 and 1021) *)
Example ck_kreach :
  exists s, kreach Hex ex0 s [KDel 1; KIns 2; KIns 1021; KIns 1] /\
            kins Hex ex0 1021 [KDel 1; KIns 2; KIns 1021; KIns 1] = 2%nat /\
            kdel Hex ex0 1021 [KDel 1; KIns 2; KIns 1021; KIns 1] = 1%nat /\
            cuckoo_query Hex s 1021 = true /\ cuckoo_query Hex s 1 = true /\ cuckoo_query Hex s 3 = false.
Proof.
  eexists. split.
  - exists [OIns 1; OIns 1021; OIns 2; ODel 1], [], []. split; [constructor|]. vm_compute. reflexivity.
  - vm_compute. auto.
Qed.

(* quotient filter: bq = 2, br = 2, a 64-bit hash function: H None x = 7 x mod 2^64.
   keys 1 and 17 have hashes 7 and 119 = 7 + 7*16, equal modulo 2^(2+2) *)
Definition Hq : hashfn :=
  fun iv v => match v with
              | Some x => (x * 7 + (match iv with Some i => i | None => 0 end)) mod 2 ^ 64
              | None => 0
              end.
Lemma Hq_hash64 : hash64 Hq.
Proof. intros a [x|]; unfold Hq; [apply N.mod_lt, N.pow_nonzero; discriminate|reflexivity]. Qed.
Example w22 : widths_ok 2 2.
Proof. unfold widths_ok. lia. Qed.

Example qf_pairs : key_pair 2 2 Hq 1 = (1, 3) /\ key_pair 2 2 Hq 17 = (1, 3) /\ key_pair 2 2 Hq 2 = (3, 2).
Proof. vm_compute. auto. Qed.

Example qf_indist_17_1 : indist_qf 2 2 Hq 17 1 /\ indist_qf 2 2 Hq 1 17.
Proof. split; apply (indist_qf_iff 2 2 Hq w22 Hq_hash64); vm_compute; reflexivity. Qed.
Example qf_dist_2_1 : ~ indist_qf 2 2 Hq 2 1.
Proof. intros Hi. apply (indist_qf_iff 2 2 Hq w22 Hq_hash64) in Hi. vm_compute in Hi. discriminate. Qed.

Example qf_run :
  qf_new 2 2 = Some (qf_empty 2 2) /\ fst (qf_insert Hq (qf_empty 2 2) 1) = QOkT /\
  qf_query Hq (snd (qf_insert Hq (qf_empty 2 2) 1)) 17 = true /\
  qf_query Hq (snd (qf_insert Hq (qf_empty 2 2) 1)) 2 = false.
Proof. vm_compute. auto. Qed.

(* a history with its accepted keys: insert 1, insert 17 (Ok(false): same class, not accepted), insert 2 *)
Example qf_hist_ex :
  qf_hist 2 2 Hq (snd (qf_insert Hq (snd (qf_insert Hq (snd (qf_insert Hq (qf_empty 2 2) 1)) 17)) 2)) [2; 1].
Proof.
  pose proof (hist_new 2 2 Hq (qf_empty 2 2) eq_refl) as H0.
  pose proof (hist_insert 2 2 Hq _ _ 1 H0) as H1.
  pose proof (hist_insert 2 2 Hq _ _ 17 H1) as H2.
  pose proof (hist_insert 2 2 Hq _ _ 2 H2) as H3.
  exact H3.
Qed.
(* the observational theorem applied to it: 17 is reported because the accepted key 1 is indistinguishable from it *)
Example qf_obs_ex :
  qf_query Hq (snd (qf_insert Hq (snd (qf_insert Hq (snd (qf_insert Hq (qf_empty 2 2) 1)) 17)) 2)) 17 = true.
Proof.
  apply (qf_query_observational 2 2 Hq w22 Hq_hash64 _ _ 17 qf_hist_ex).
  exists 1. split; [right; left; reflexivity|apply qf_indist_17_1].
Qed.
End ClassExamples.

(* ====================================================================== *)
Print Assumptions cuckoo_insert_empty.
Print Assumptions cuckoo_indistinguishable.
Print Assumptions indist_ck_iff.
Print Assumptions indist_ck_ex_iff.
Print Assumptions indb_iff.
Print Assumptions indist_ck_sym.
Print Assumptions indist_ck_trans.
Print Assumptions cuckoo_indistinguishable_sym.
Print Assumptions cuckoo_query_observational.
Print Assumptions kreach_reach.
Print Assumptions reach_kreach.
Print Assumptions cuckoo_query_observational_keys.
Print Assumptions cuckoo_query_observational_keys_ex.
Print Assumptions cuckoo_count_observational_keys.
Print Assumptions qf_insert_empty.
Print Assumptions qf_indistinguishable.
Print Assumptions qf_indistinguishable_hash.
Print Assumptions indist_qf_iff.
Print Assumptions indist_qf_hash.
Print Assumptions indist_qf_sym.
Print Assumptions indist_qf_trans.
Print Assumptions qf_hist_reach.
Print Assumptions qf_reach_hist.
Print Assumptions qf_query_observational.
Print Assumptions qf_len_observational.
Print Assumptions qf_query_observational_reach.
Print Assumptions ClassExamples.ck_kreach.
Print Assumptions ClassExamples.qf_hist_ex.
