(* Proofs/QuotientGeneralDecode.v — C13 for ALL widths, part 6: [decode] (the walk of Filter::union over
   the other filter) on a state that represents a line returns exactly the stored pairs. *)
From PDS Require Import Model.Quotient Proofs.QuotientProofs Proofs.QuotientGeneralBase Proofs.QuotientGeneralScan.
From Coq Require Import Lia ZifyN ZifyBool.
Open Scope N_scope.

Arguments N.add : simpl never.
Arguments N.mul : simpl never.
Arguments N.sub : simpl never.
Arguments N.ltb : simpl never.
Arguments N.leb : simpl never.
Arguments N.eqb : simpl never.

Lemma Nseq_app a k1 : forall k2, Nseq a (k1 + k2) = Nseq a k1 ++ Nseq (a + N.of_nat k1) k2.
Proof.
  revert a. induction k1 as [|k1 IH]; intros a k2; cbn [Nseq plus app].
  - f_equal. lia.
  - f_equal. rewrite IH. f_equal. f_equal. lia.
Qed.

Section Decode.
Variable n : N.
Hypothesis n_pos : 0 < n.
Variable fuel0 : nat.
Hypothesis Hfuel : (N.to_nat n < fuel0)%nat.
Variables (s : qf) (o : N) (c : cellT) (oc : N -> bool).
Hypothesis o_lt : o < n.
Hypothesis HL : Line n c oc.
Hypothesis HR : Rep n s o c oc.

Local Lemma Rocc u : u < n -> getb (qocc s) (sl n o u) = oc u.
Proof. eapply rep_occ; eauto. Qed.
Local Lemma Rrem u : u < n -> getn (qrem s) (sl n o u) = remf c u.
Proof. eapply rep_rem; eauto. Qed.
Local Lemma Rcont u : u <= n -> getb (qcont s) (sl n o u) = contb c u.
Proof. eapply rep_cont; eauto. Qed.
Local Lemma Rshf u : u <= n -> getb (qshf s) (sl n o u) = shfb c u.
Proof. eapply rep_shf; eauto. Qed.

(* occupied offsets in [a, b), ascending *)
Definition occr (a b : N) : list N := filter oc (Nseq a (N.to_nat (b - a))).
(* the pair stored at offset w, with its quotient as a slot number *)
Definition elem (w : N) : N * N := match c w with Some (v, r) => (sl n o v, r) | None => (0, 0) end.

Lemma occr_nil a : occr a a = [].
Proof. unfold occr. replace (N.to_nat (a - a)) with O by lia. reflexivity. Qed.
Lemma occr_snoc a b : a <= b -> occr a (b + 1) = occr a b ++ (if oc b then [b] else []).
Proof.
  intros H. unfold occr. replace (N.to_nat (b + 1 - a)) with (N.to_nat (b - a) + 1)%nat by lia.
  rewrite Nseq_app, filter_app. f_equal. cbn [Nseq filter]. replace (a + N.of_nat (N.to_nat (b - a))) with b by lia.
  reflexivity.
Qed.
Lemma occr_head a v b : a <= v < b -> oc v = true -> (forall w, a <= w < v -> oc w = false) ->
  occr a b = v :: occr (v + 1) b.
Proof.
  intros H Hv Hno. unfold occr.
  replace (N.to_nat (b - a)) with (N.to_nat (v - a) + S (N.to_nat (b - (v + 1))))%nat by lia.
  rewrite Nseq_app, filter_app. replace (a + N.of_nat (N.to_nat (v - a))) with v by lia.
  cbn [Nseq filter]. rewrite Hv.
  replace (filter oc (Nseq a (N.to_nat (v - a)))) with (@nil N); [reflexivity|].
  symmetry.
  assert (Hall : forall l, (forall x, In x l -> oc x = false) -> filter oc l = []).
  { induction l as [|x t IH]; intros Hx; cbn [filter]; [reflexivity|].
    rewrite (Hx x (or_introl eq_refl)). apply IH. intros y Hy. apply Hx. right. exact Hy. }
  apply Hall. intros x Hx. apply Nseq_In in Hx. apply Hno. lia.
Qed.

(** ** one cluster *)
Lemma decode_cluster_spec c0 : c0 < n -> forall fuel j qv, c0 < j <= n -> quo c (j - 1) = Some qv ->
  (N.to_nat (n - j) < fuel)%nat ->
  exists E, j <= E <= n /\ (forall w, j <= w < E -> shfb c w = true) /\ shfb c E = false /\
    decode_cluster n s (sl n o c0) (sl n o j) (sl n o qv) (map (sl n o) (occr (qv + 1) j)) fuel =
    Some (map elem (Nseq j (N.to_nat (E - j)))).
Proof.
  intros Hc0. induction fuel as [|f IH]; intros j qv Hj Hq Hf; [lia|]. cbn [decode_cluster].
  rewrite Rshf by lia. destruct (shfb c j) eqn:Es.
  2:{ rewrite andb_false_r. exists j. split; [lia|]. split; [intros w Hw; lia|]. split; [exact Es|].
      replace (N.to_nat (j - j)) with O by lia. reflexivity. }
  assert (Hjn : j < n).
  { destruct (N.lt_ge_cases j n) as [H|H]; [exact H|]. rewrite (shfb_out n c oc HL) in Es by lia. discriminate. }
  rewrite sl_eqb by auto. destruct (N.eqb_spec j c0) as [E0|_]; [lia|]. cbn [negb andb]. cbv zeta.
  rewrite Rocc, Rcont, Rrem by lia.
  destruct (shfb_true c j Es) as (v & r & Ec & Hv).
  unfold quo in Hq. destruct (c (j - 1)) as [[v1 r1]|] eqn:Ep; [|discriminate]. inversion Hq; subst v1.
  pose proof (L_le _ _ _ HL _ _ _ Ep) as Hle1.
  assert (Hq1 : (if oc j then map (sl n o) (occr (qv + 1) j) ++ [sl n o j] else map (sl n o) (occr (qv + 1) j))
                = map (sl n o) (occr (qv + 1) (j + 1))).
  { rewrite occr_snoc by lia. rewrite map_app. destruct (oc j); [reflexivity|]. cbn [map]. rewrite app_nil_r. reflexivity. }
  rewrite Hq1. rewrite sl_incr by auto.
  assert (Helem : (remf c j) = snd (elem j)) by (unfold remf, elem; rewrite Ec; reflexivity).
  destruct (contb c j) eqn:Eco; cbn [negb].
  - (* continuation: same quotient *)
    assert (v = qv).
    { apply contb_true in Eco as (_ & v' & x & x' & E1 & E2). rewrite Ec in E1. rewrite Ep in E2.
      inversion E1; inversion E2; subst. reflexivity. }
    subst v.
    destruct (IH (j + 1) qv ltac:(lia)) as (E & HE & Hsh & HshE & Hd).
    { replace (j + 1 - 1) with j by lia. unfold quo. rewrite Ec. reflexivity. }
    { lia. }
    rewrite Hd. exists E. split; [lia|]. split; [|split; [exact HshE|]].
    + intros w Hw. destruct (N.eq_dec w j) as [->|Hne]; [exact Es|apply Hsh; lia].
    + replace (N.to_nat (E - j)) with (S (N.to_nat (E - (j + 1)))) by lia. cbn [Nseq map]. f_equal. f_equal.
      unfold elem. rewrite Ec. unfold remf. rewrite Ec. reflexivity.
  - (* start of the next run: its quotient is the head of the queue *)
    assert (Hqv : qv < v) by (apply (contb_false n c oc HL j v r qv r1); auto; lia).
    assert (Hov : oc v = true) by (apply (L_occ _ _ _ HL); eauto).
    assert (Hno : forall w, qv + 1 <= w < v -> oc w = false).
    { intros w Hw. destruct (oc w) eqn:Eo; [|reflexivity]. exfalso.
      apply (L_occ _ _ _ HL) in Eo as (u' & r' & Eu).
      destruct (N.lt_total u' j) as [H|[H|H]].
      - destruct (N.eq_dec u' (j - 1)) as [E1|E1].
        + subst u'. rewrite Ep in Eu. inversion Eu. lia.
        + assert (Hl : lexlt (w, r') (qv, r1)) by (apply (line_sorted n c oc HL (j - 1) u'); auto; lia).
          unfold lexlt in Hl; cbn [fst snd] in Hl. lia.
      - subst u'. rewrite Ec in Eu. inversion Eu. lia.
      - assert (Hl : lexlt (v, r) (w, r')) by (apply (line_sorted n c oc HL u' j); auto).
        unfold lexlt in Hl; cbn [fst snd] in Hl. lia. }
    rewrite (occr_head (qv + 1) v (j + 1)) by (auto; lia). cbn [map].
    destruct (IH (j + 1) v ltac:(lia)) as (E & HE & Hsh & HshE & Hd).
    { replace (j + 1 - 1) with j by lia. unfold quo. rewrite Ec. reflexivity. }
    { lia. }
    rewrite Hd. exists E. split; [lia|]. split; [|split; [exact HshE|]].
    + intros w Hw. destruct (N.eq_dec w j) as [->|Hne]; [exact Es|apply Hsh; lia].
    + replace (N.to_nat (E - j)) with (S (N.to_nat (E - (j + 1)))) by lia. cbn [Nseq map]. f_equal. f_equal.
      unfold elem. rewrite Ec. unfold remf. rewrite Ec. reflexivity.
Qed.

(* [u, E) is a cluster *)
Definition IsCluster (u E : N) : Prop :=
  oc u = true /\ shfb c u = false /\ u < E <= n /\ (forall w, u < w < E -> shfb c w = true) /\ shfb c E = false.

Lemma decode_from_spec : forall is, Forall (fun i => i < n) is ->
  exists l, decode_from n fuel0 s is = Some l /\
    forall x, In x l <-> exists i E, In i is /\ IsCluster (unw n o i) E /\
                                     In x (map elem (Nseq (unw n o i) (N.to_nat (E - unw n o i)))).
Proof.
  induction is as [|i t IH]; intros His; cbn [decode_from].
  - exists []. split; [reflexivity|]. intros x. split; [intros []|intros (i & E & [] & _)].
  - inversion His as [|? ? Hi Ht]; subst. destruct (IH Ht) as (rest & Er & Hrest). clear IH.
    pose proof (unw_lt n n_pos o o_lt i Hi) as Hu. pose proof (sl_unw n n_pos o o_lt i Hi) as Ei.
    set (u := unw n o i) in *. rewrite <- Ei. rewrite Rocc, Rshf, Rrem by lia.
    destruct (oc u) eqn:Eo; cbn [andb].
    2:{ exists rest. split; [exact Er|]. intros x. rewrite Hrest. split.
        - intros (i' & E & Hin & Hc & Hx). exists i', E. split; [right; exact Hin|auto].
        - intros (i' & E & [<-|Hin] & Hc & Hx); [|eauto]. rewrite Ei in Hc. fold u in Hc. destruct Hc as (Hc & _). congruence. }
    destruct (shfb c u) eqn:Es; cbn [negb].
    { exists rest. split; [exact Er|]. intros x. rewrite Hrest. split.
      - intros (i' & E & Hin & Hc & Hx). exists i', E. split; [right; exact Hin|auto].
      - intros (i' & E & [<-|Hin] & Hc & Hx); [|eauto]. rewrite Ei in Hc. fold u in Hc. destruct Hc as (_ & Hc & _). congruence. }
    (* a cluster starts here *)
    assert (Hcu : exists r0, c u = Some (u, r0)).
    { pose proof Eo as Eo'. apply (L_occ _ _ _ HL) in Eo' as (u' & r' & Eu').
      pose proof (L_le _ _ _ HL _ _ _ Eu').
      destruct (no_gap n c oc HL u' u r' u Eu') as (v' & x' & Ea & _); [lia|].
      pose proof (shfb_false n c oc HL u v' x' Ea Es). subst v'. eauto. }
    destruct Hcu as (r0 & Hcu).
    destruct (decode_cluster_spec u Hu fuel0 (u + 1) u ltac:(lia)) as (E & HE & Hsh & HshE & Hd).
    { replace (u + 1 - 1) with u by lia. unfold quo. rewrite Hcu. reflexivity. }
    { lia. }
    rewrite occr_nil in Hd. cbn [map] in Hd. rewrite sl_incr by auto. rewrite Hd, Er.
    eexists. split; [reflexivity|].
    assert (Hchunk : (sl n o u, remf c u) :: map elem (Nseq (u + 1) (N.to_nat (E - (u + 1)))) =
                     map elem (Nseq u (N.to_nat (E - u)))).
    { replace (N.to_nat (E - u)) with (S (N.to_nat (E - (u + 1)))) by lia. cbn [Nseq map]. f_equal.
      unfold elem, remf. rewrite Hcu. reflexivity. }
    assert (HC : IsCluster u E).
    { split; [exact Eo|]. split; [exact Es|]. split; [lia|]. split; [intros w Hw; apply Hsh; lia|exact HshE]. }
    intros x. change ((sl n o u, remf c u) :: map elem (Nseq (u + 1) (N.to_nat (E - (u + 1)))) ++ rest)
      with (((sl n o u, remf c u) :: map elem (Nseq (u + 1) (N.to_nat (E - (u + 1))))) ++ rest).
    rewrite Hchunk, in_app_iff, Hrest. split.
    + intros [Hx|(i' & E' & Hin & Hc & Hx)].
      * exists (sl n o u), E. rewrite Ei. fold u. split; [left; reflexivity|]. split; [exact HC|exact Hx].
      * exists i', E'. split; [right; exact Hin|auto].
    + intros (i' & E' & [<-|Hin] & Hc & Hx); [|right; eauto].
      left. rewrite Ei in *. fold u in Hc, Hx.
      assert (E' = E).
      { destruct HC as (_ & _ & H1 & H2 & H3), Hc as (_ & _ & H1' & H2' & H3').
        destruct (N.lt_total E E') as [H|[H|H]]; [|auto|].
        - rewrite H2' in H3 by lia. discriminate.
        - rewrite H2 in H3' by lia. discriminate. }
      subst E'. exact Hx.
Qed.

Theorem decode_spec : exists l, decode n fuel0 s = Some l /\
  forall q r, In (q, r) l <-> q < n /\ exists w, c w = Some (unw n o q, r).
Proof.
  unfold decode.
  destruct (decode_from_spec (Nseq 0 (N.to_nat n))) as (l & El & Hl).
  { apply Forall_forall. intros i Hi. apply Nseq_In in Hi. lia. }
  exists l. split; [exact El|]. intros q r. rewrite Hl. split.
  - intros (i & E & Hi & HC & Hx). apply in_map_iff in Hx as (w & Ew & Hw). apply Nseq_In in Hw.
    destruct HC as (Ho & Hs & HE & Hsh & _).
    assert (Hcw : exists v x, c w = Some (v, x)).
    { destruct (N.eq_dec w (unw n o i)) as [->|Hne].
      - apply (L_occ _ _ _ HL) in Ho as (u' & r' & Eu'). pose proof (L_le _ _ _ HL _ _ _ Eu').
        destruct (no_gap n c oc HL u' _ r' (unw n o i) Eu') as (v' & x' & Ea & _); [lia|]. eauto.
      - destruct (shfb_true c w) as (v & x & Ec & _); [apply Hsh; lia|]. eauto. }
    destruct Hcw as (v & x & Ec). unfold elem in Ew. rewrite Ec in Ew. inversion Ew; subst q r.
    pose proof (L_le _ _ _ HL _ _ _ Ec). pose proof (L_dom _ _ _ HL _ _ _ Ec).
    split; [apply sl_lt; auto; lia|]. exists w. rewrite unw_sl by (auto; lia). exact Ec.
  - intros (Hq & w & Ec). pose proof (L_dom _ _ _ HL _ _ _ Ec) as Hw.
    destruct (walk_back_spec n n_pos fuel0 Hfuel s o c oc o_lt HL HR w Hw (S (N.to_nat w)) ltac:(lia)) as (b & _ & HC).
    pose proof HC as (Hbw & Hsb & Hsh).
    assert (Hcb : exists r0, c b = Some (b, r0)).
    { destruct (N.eq_dec b w) as [->|Hne].
      - pose proof (shfb_false n c oc HL w _ r Ec Hsb) as Ev. rewrite Ev in Ec. eauto.
      - destruct (cstart_used n n_pos fuel0 Hfuel o c oc o_lt HL b w HC ltac:(lia) b ltac:(lia)) as ([v x] & Ea).
        pose proof (shfb_false n c oc HL b v x Ea Hsb). subst v. eauto. }
    destruct Hcb as (r0 & Hcb).
    assert (Hob : oc b = true) by (apply (L_occ _ _ _ HL); eauto).
    (* the end of the cluster of b *)
    assert (Hend : forall k j, N.to_nat (n - j) = k -> b < j <= n -> (forall w', b < w' < j -> shfb c w' = true) ->
              exists E, j <= E <= n /\ (forall w', b < w' < E -> shfb c w' = true) /\ shfb c E = false).
    { induction k as [|k IHk]; intros j Hk Hj Hpre.
      - exists j. assert (j = n) by lia. subst j. split; [lia|]. split; [exact Hpre|]. apply (shfb_out n c oc HL). lia.
      - destruct (shfb c j) eqn:Esj.
        + destruct (IHk (j + 1) ltac:(lia) ltac:(lia)) as (E & H1 & H2 & H3).
          { intros w' Hw'. destruct (N.eq_dec w' j) as [->|Hne]; [exact Esj|apply Hpre; lia]. }
          exists E. split; [lia|]. auto.
        + exists j. split; [lia|]. auto. }
    destruct (Hend _ (w + 1) eq_refl ltac:(lia)) as (E & HE & HshE & HshE').
    { intros w' Hw'. apply Hsh. lia. }
    exists (sl n o b), E. rewrite unw_sl by (auto; lia).
    split; [apply Nseq_In; pose proof (sl_lt n n_pos o o_lt b ltac:(lia)); lia|].
    split; [split; [exact Hob|]; split; [exact Hsb|]; split; [lia|]; split; auto|].
    apply in_map_iff. exists w. split; [|apply Nseq_In; lia].
    unfold elem. rewrite Ec. rewrite sl_unw by auto. reflexivity.
Qed.
End Decode.

Print Assumptions decode_spec.
