(* Proofs/LossyProofs.v — Manku–Motwani lossy counting guarantees for Model/Lossy.v
   (src/topk/lossycounter.rs).

   Main results (all for every width w >= 1 and EVERY stream xs, hence at every prefix):
     lossy_n, lossy_w, lossy_nodup            basic state facts
     lossy_add_returns_new                    add returns true iff element untracked
     lossy_tracked_bounds      (L1)           f <= cnt <= f + d, 1 <= f, d + 1 <= bucket
     lossy_untracked_bound     (L2)           untracked -> cnt <= n / w
     lossy_sound, lossy_complete              query guarantees (rational eps / th)
     lossy_error_eps                          0 <= cnt - f <= eps*n ; untracked -> cnt <= eps*n
     lossy_size                               |known| <= w * H(ceil(n/w))   (harmonic bound, FULL)
     lossy_clear_init, lossy_clear_run        clear = fresh counter
   All theorems are closed under the global context (see Print Assumptions at the end). *)
From PDS Require Import Model.Lossy.
From Coq Require Import Lia Lqa ZifyN ZifyBool QArith Qround.
Open Scope N_scope.

Arguments N.add : simpl never.
Arguments N.mul : simpl never.
Arguments N.sub : simpl never.
Arguments N.div : simpl never.
Arguments N.modulo : simpl never.
Arguments N.ltb : simpl never.
Arguments N.leb : simpl never.
Arguments N.eqb : simpl never.

(* ------------------------------------------------------------------------- *)
(** * Definitions                                                             *)
(* ------------------------------------------------------------------------- *)

Definition lrun (w : N) (xs : list N) : lossy :=
  fold_left (fun s x => snd (lossy_add s x)) xs {| lw := w; ln := 0; lknown := [] |}.
(* true frequency *)
Definition cnt (x : N) (xs : list N) : N := N.of_nat (length (filter (N.eqb x) xs)).
Definition tracked (s : lossy) (x : N) : bool :=
  match lfind (lknown s) x with Some _ => true | None => false end.

(* current bucket id  b = ceil(n / w) *)
Definition bucket (w n : N) : N := (n + w - 1) / w.

Notation NQ n := (inject_Z (Z.of_N n)).

Definition ent_f (e : N * (N * N)) : N := fst (snd e).
Definition ent_d (e : N * (N * N)) : N := snd (snd e).

(* harmonic numbers as rationals *)
Fixpoint Hq (j : nat) : Q := match j with O => 0%Q | S j' => (Hq j' + (1 # (Pos.of_nat (S j'))))%Q end.

(* ------------------------------------------------------------------------- *)
(** * Bucket arithmetic                                                       *)
(* ------------------------------------------------------------------------- *)

Lemma bucket_succ w n : 1 <= w -> bucket w (n + 1) = n / w + 1.
Proof. intros Hw. unfold bucket. replace (n + 1 + w - 1) with (n + 1 * w) by lia.
  rewrite N.div_add by lia. reflexivity. Qed.

Lemma bucket_end w m : 1 <= w -> m mod w = 0 -> bucket w m = m / w.
Proof. intros Hw Hm. unfold bucket. symmetry. apply N.div_unique with (r := w - 1); [lia|].
  pose proof (N.div_mod m w ltac:(lia)) as E. rewrite Hm in E. lia. Qed.

Lemma bucket_not_end w m : 1 <= w -> m mod w <> 0 -> bucket w m = m / w + 1.
Proof. intros Hw Hm. unfold bucket. symmetry. apply N.div_unique with (r := m mod w - 1).
  - pose proof (N.mod_lt m w ltac:(lia)). lia.
  - pose proof (N.div_mod m w ltac:(lia)) as E. lia. Qed.

Lemma bucket_le_succ w n : 1 <= w -> bucket w n <= n / w + 1.
Proof. intros Hw. unfold bucket. replace (n / w + 1) with ((n + 1 * w) / w) by (rewrite N.div_add by lia; reflexivity).
  apply N.div_le_mono; lia. Qed.

Lemma bucket_mul_ge w n : 1 <= w -> n <= bucket w n * w.
Proof. intros Hw. unfold bucket.
  pose proof (N.div_mod (n + w - 1) w ltac:(lia)) as E.
  pose proof (N.mod_lt (n + w - 1) w ltac:(lia)) as L. lia. Qed.

Lemma bucket_lt w n t : 1 <= w -> t + 1 <= bucket w n -> t * w < n.
Proof. intros Hw Ht. unfold bucket in Ht.
  pose proof (N.mul_div_le (n + w - 1) w ltac:(lia)) as E.
  pose proof (N.mul_le_mono_r _ _ w Ht) as M. lia. Qed.

Lemma div_mul_le' w n t : 1 <= w -> t <= n / w -> t * w <= n.
Proof. intros Hw Ht.
  pose proof (N.mul_div_le n w ltac:(lia)) as E.
  pose proof (N.mul_le_mono_r _ _ w Ht) as M. lia. Qed.

Lemma div_succ_end w n : 1 <= w -> (n + 1) mod w = 0 -> (n + 1) / w = n / w + 1.
Proof. intros Hw Hm. rewrite <- bucket_end by assumption. apply bucket_succ; assumption. Qed.

Lemma div_succ_not_end w n : 1 <= w -> (n + 1) mod w <> 0 -> (n + 1) / w = n / w.
Proof. intros Hw Hm. pose proof (bucket_not_end w (n + 1) Hw Hm) as E.
  rewrite bucket_succ in E by assumption. lia. Qed.

(* ------------------------------------------------------------------------- *)
(** * cnt                                                                     *)
(* ------------------------------------------------------------------------- *)

Lemma cnt_nil x : cnt x [] = 0.
Proof. reflexivity. Qed.

Lemma cnt_snoc x xs y : cnt x (xs ++ [y]) = cnt x xs + (if x =? y then 1 else 0).
Proof. unfold cnt. rewrite filter_app, app_length. cbn [filter].
  destruct (x =? y); cbn [length]; lia. Qed.

Lemma cnt_snoc_same x xs : cnt x (xs ++ [x]) = cnt x xs + 1.
Proof. rewrite cnt_snoc, N.eqb_refl. reflexivity. Qed.

Lemma cnt_snoc_other x xs y : x <> y -> cnt x (xs ++ [y]) = cnt x xs.
Proof. intros H. rewrite cnt_snoc. destruct (N.eqb_spec x y); [contradiction|lia]. Qed.

Lemma cnt_app x xs ys : cnt x (xs ++ ys) = cnt x xs + cnt x ys.
Proof. unfold cnt. rewrite filter_app, app_length. lia. Qed.

Lemma cnt_le_length x xs : cnt x xs <= N.of_nat (length xs).
Proof. unfold cnt. induction xs as [|y t IH]; cbn [filter length]; [lia|].
  destruct (x =? y); cbn [length]; lia. Qed.

(* ------------------------------------------------------------------------- *)
(** * lfind / lbump / filter on association lists                             *)
(* ------------------------------------------------------------------------- *)

Lemma lfind_Some_In k x e : lfind k x = Some e -> In (x, e) k.
Proof. induction k as [|[y e'] t IH]; cbn [lfind]; [discriminate|].
  destruct (N.eqb_spec x y) as [->|Hne]; intros H.
  - inversion H; subst. left; reflexivity.
  - right; auto. Qed.

Lemma lfind_None_iff k x : lfind k x = None <-> ~ In x (map fst k).
Proof. induction k as [|[y e'] t IH]; cbn [lfind map fst In].
  - tauto.
  - destruct (N.eqb_spec x y) as [->|Hne].
    + split; [discriminate|]. intros H; exfalso; apply H; left; reflexivity.
    + rewrite IH. split; [intros H [E|E]; [congruence|auto]|intros H E; apply H; right; exact E]. Qed.

Lemma In_lfind_not_None k x e : In (x, e) k -> lfind k x <> None.
Proof. intros HI HN. apply lfind_None_iff in HN. apply HN.
  apply in_map_iff. exists (x, e); split; [reflexivity|exact HI]. Qed.

Lemma lfind_NoDup_In k x e : NoDup (map fst k) -> In (x, e) k -> lfind k x = Some e.
Proof. induction k as [|[y e'] t IH]; cbn [lfind map fst In]; intros ND HI; [contradiction|].
  inversion ND as [|? ? Hnin ND']; subst.
  destruct HI as [E|HI].
  - inversion E; subst. rewrite N.eqb_refl. reflexivity.
  - destruct (N.eqb_spec x y) as [->|Hne].
    + exfalso. apply Hnin. apply in_map_iff. exists (y, e); split; [reflexivity|exact HI].
    + apply IH; assumption. Qed.

Lemma lbump_keys k x : map fst (lbump k x) = map fst k.
Proof. induction k as [|[y [f d]] t IH]; cbn [lbump map]; [reflexivity|].
  destruct (x =? y); cbn [map fst]; [reflexivity|]. rewrite IH. reflexivity. Qed.

Lemma lbump_Forall (P P' : N * (N * N) -> Prop) k x :
  NoDup (map fst k) -> Forall P k ->
  (forall f d, P (x, (f, d)) -> P' (x, (f + 1, d))) ->
  (forall y e, y <> x -> P (y, e) -> P' (y, e)) ->
  Forall P' (lbump k x).
Proof. intros ND HF H1 H2. induction k as [|[y [f d]] t IH]; cbn [lbump]; [constructor|].
  cbn [map fst] in ND. inversion ND as [|? ? Hnin ND']; subst.
  inversion HF as [|? ? HP HF']; subst.
  destruct (N.eqb_spec x y) as [->|Hne].
  - constructor; [apply H1; exact HP|].
    apply Forall_forall. intros [z e] Hz. apply H2.
    + intros ->. apply Hnin. apply in_map_iff. exists (y, e); split; [reflexivity|exact Hz].
    + rewrite Forall_forall in HF'. apply HF'; exact Hz.
  - constructor; [apply H2; [congruence|exact HP]|]. apply IH; assumption. Qed.

Lemma NoDup_snoc {A} (l : list A) a : NoDup l -> ~ In a l -> NoDup (l ++ [a]).
Proof. induction l as [|b t IH]; cbn [app]; intros ND Hn.
  - constructor; [intros []|constructor].
  - inversion ND as [|? ? Hb ND']; subst. constructor.
    + rewrite in_app_iff. intros [H|[H|[]]]; [auto|]. subst. apply Hn. left; reflexivity.
    + apply IH; [assumption|]. intros H; apply Hn; right; exact H. Qed.

Lemma NoDup_map_filter (P : N * (N * N) -> bool) k :
  NoDup (map fst k) -> NoDup (map fst (filter P k)).
Proof. induction k as [|e t IH]; cbn [filter map]; intros ND; [constructor|].
  inversion ND as [|? ? Hnin ND']; subst.
  destruct (P e); cbn [map]; [|auto].
  constructor; [|auto]. intros H. apply Hnin.
  apply in_map_iff in H. destruct H as [e' [E H]]. apply filter_In in H.
  apply in_map_iff. exists e'; tauto. Qed.

Lemma lfind_filter_None (P : N * (N * N) -> bool) k x :
  lfind (filter P k) x = None ->
  lfind k x = None \/ exists e, In (x, e) k /\ P (x, e) = false.
Proof. intros HN. destruct (lfind k x) as [e|] eqn:E; [right|left; reflexivity].
  exists e. apply lfind_Some_In in E. split; [exact E|].
  destruct (P (x, e)) eqn:HP; [|reflexivity]. exfalso.
  apply (In_lfind_not_None (filter P k) x e); [|exact HN]. apply filter_In; tauto. Qed.

(* ------------------------------------------------------------------------- *)
(** * Weighted sums over the table (used by the size bound)                   *)
(* ------------------------------------------------------------------------- *)

(* sum of f over the entries with delta >= t *)
Fixpoint sumf (t : N) (k : list (N * (N * N))) : N :=
  match k with [] => 0 | e :: r => (if t <=? ent_d e then ent_f e else 0) + sumf t r end.
(* number of entries with delta >= t / delta = t *)
Fixpoint cntge (t : N) (k : list (N * (N * N))) : N :=
  match k with [] => 0 | e :: r => (if t <=? ent_d e then 1 else 0) + cntge t r end.
Fixpoint cnteq (t : N) (k : list (N * (N * N))) : N :=
  match k with [] => 0 | e :: r => (if ent_d e =? t then 1 else 0) + cnteq t r end.

Lemma sumf_app t k1 k2 : sumf t (k1 ++ k2) = sumf t k1 + sumf t k2.
Proof. induction k1 as [|e r IH]; cbn [app sumf]; [lia|]. rewrite IH. lia. Qed.

Lemma sumf_filter t (P : N * (N * N) -> bool) k : sumf t (filter P k) <= sumf t k.
Proof. induction k as [|e r IH]; cbn [filter sumf]; [lia|].
  destruct (P e); cbn [sumf]; lia. Qed.

Lemma sumf_lbump t k x f d :
  lfind k x = Some (f, d) -> sumf t (lbump k x) = sumf t k + (if t <=? d then 1 else 0).
Proof. induction k as [|[y [f' d']] r IH]; cbn [lfind lbump]; [discriminate|].
  destruct (N.eqb_spec x y) as [->|Hne]; intros H.
  - inversion H; subst. cbn [sumf ent_f ent_d fst snd]. destruct (t <=? d); lia.
  - cbn [sumf ent_f ent_d fst snd]. rewrite (IH H). lia. Qed.

Lemma cntge_split t k : cntge t k = cntge (t + 1) k + cnteq t k.
Proof. induction k as [|e r IH]; cbn [cntge cnteq]; [lia|]. rewrite IH.
  destruct (N.leb_spec t (ent_d e)); destruct (N.leb_spec (t + 1) (ent_d e));
  destruct (N.eqb_spec (ent_d e) t); lia. Qed.

Lemma cntge_0 k : cntge 0 k = N.of_nat (length k).
Proof. induction k as [|e r IH]; cbn [cntge length]; [reflexivity|]. rewrite IH.
  destruct (N.leb_spec 0 (ent_d e)); lia. Qed.

Lemma cntge_top B k : Forall (fun e => ent_d e + 1 <= B) k -> cntge B k = 0.
Proof. induction 1 as [|e r He _ IH]; cbn [cntge]; [reflexivity|]. rewrite IH.
  destruct (N.leb_spec B (ent_d e)); lia. Qed.

Lemma sumf_split B t k : Forall (fun e => B <= ent_f e + ent_d e) k ->
  sumf (t + 1) k + (B - t) * cnteq t k <= sumf t k.
Proof. set (a := B - t). assert (Ha : forall e, B <= ent_f e + t -> a <= ent_f e) by (intros; subst a; lia).
  clearbody a. induction 1 as [|e r He _ IH]; cbn [sumf cnteq]; [lia|].
  destruct (N.leb_spec t (ent_d e)); destruct (N.leb_spec (t + 1) (ent_d e));
  destruct (N.eqb_spec (ent_d e) t) as [E|E]; try lia.
  rewrite E in He. specialize (Ha e He). lia. Qed.

Lemma length_le_sumf0 k : Forall (fun e => 1 <= ent_f e) k -> N.of_nat (length k) <= sumf 0 k.
Proof. induction 1 as [|e r He _ IH]; cbn [sumf length]; [lia|].
  destruct (N.leb_spec 0 (ent_d e)); lia. Qed.

(* ------------------------------------------------------------------------- *)
(** * The invariant                                                           *)
(* ------------------------------------------------------------------------- *)

(* entry (y,(f,d)) is fine w.r.t. current bucket b, last completed prune level L, stream xs *)
Definition ent_ok (b L : N) (xs : list N) (e : N * (N * N)) : Prop :=
  1 <= ent_f e /\ ent_f e <= cnt (fst e) xs /\ cnt (fst e) xs <= ent_f e + ent_d e /\
  ent_d e + 1 <= b /\ L < ent_f e + ent_d e.

Record Inv (w : N) (xs : list N) (s : lossy) : Prop := {
  inv_w : lw s = w;
  inv_n : ln s = N.of_nat (length xs);
  inv_nodup : NoDup (map fst (lknown s));
  inv_ent : Forall (ent_ok (bucket w (ln s)) (ln s / w) xs) (lknown s);
  inv_untr : forall y, lfind (lknown s) y = None -> cnt y xs <= ln s / w;
  inv_sum : forall t, sumf t (lknown s) <= ln s - t * w }.

Lemma Inv_init w : Inv w [] {| lw := w; ln := 0; lknown := [] |}.
Proof. constructor; cbn [lw ln lknown map length].
  - reflexivity.
  - reflexivity.
  - constructor.
  - constructor.
  - intros y _. rewrite cnt_nil. apply N.le_0_l.
  - intros t. cbn [sumf]. apply N.le_0_l. Qed.

(* table after the insert/bump phase, before pruning *)
Definition ins (s : lossy) (x : N) : list (N * (N * N)) :=
  match lfind (lknown s) x with
  | Some _ => lbump (lknown s) x
  | None => lknown s ++ [(x, (1, bucket (lw s) (ln s + 1) - 1))]
  end.

Lemma lossy_add_eq s x : 1 <= lw s ->
  snd (lossy_add s x) =
  {| lw := lw s; ln := ln s + 1;
     lknown := if (ln s + 1) mod lw s =? 0
               then filter (fun e => bucket (lw s) (ln s + 1) <? ent_f e + ent_d e) (ins s x)
               else ins s x |}.
Proof. intros Hw. unfold lossy_add, ins.
  destruct (N.eqb_spec ((ln s + 1) mod lw s) 0) as [E|E].
  - rewrite (bucket_end _ _ Hw E), N.add_0_r. destruct (lfind (lknown s) x); reflexivity.
  - rewrite (bucket_not_end _ _ Hw E). destruct (lfind (lknown s) x); reflexivity. Qed.

Lemma ins_ok w xs s x : 1 <= w -> Inv w xs s ->
  NoDup (map fst (ins s x)) /\
  Forall (ent_ok (bucket w (ln s + 1)) (ln s / w) (xs ++ [x])) (ins s x) /\
  (forall y, lfind (ins s x) y = None -> cnt y (xs ++ [x]) <= ln s / w) /\
  (forall t, sumf t (ins s x) <= ln s + 1 - t * w).
Proof. intros Hw [Iw In_ Ind Ient Iun Isum]. unfold ins. rewrite Iw.
  set (n := ln s) in *. set (k := lknown s) in *.
  pose proof (bucket_succ w n Hw) as Hb'. pose proof (bucket_le_succ w n Hw) as Hbb.
  destruct (lfind k x) as [[f0 d0]|] eqn:Hx.
  - (* bump *)
    assert (Hxin : In (x, (f0, d0)) k) by (apply lfind_Some_In; exact Hx).
    repeat split.
    + rewrite lbump_keys. exact Ind.
    + apply (lbump_Forall (ent_ok (bucket w n) (n / w) xs)); [exact Ind|exact Ient| |].
      * intros f d. unfold ent_ok, ent_f, ent_d. cbn [fst snd]. rewrite cnt_snoc_same. lia.
      * intros y e Hne. unfold ent_ok. cbn [fst]. rewrite (cnt_snoc_other y xs x Hne). lia.
    + intros y Hy. apply lfind_None_iff in Hy. rewrite lbump_keys in Hy. apply lfind_None_iff in Hy.
      assert (y <> x) as Hne by (intros ->; congruence).
      rewrite (cnt_snoc_other y xs x Hne). apply Iun; exact Hy.
    + intros t. rewrite (sumf_lbump t k x f0 d0 Hx). specialize (Isum t).
      destruct (N.leb_spec t d0) as [Ht|Ht]; [|lia].
      rewrite Forall_forall in Ient. specialize (Ient _ Hxin).
      unfold ent_ok, ent_f, ent_d in Ient. cbn [fst snd] in Ient.
      assert (t * w < n) by (apply bucket_lt; lia). lia.
  - (* fresh entry *)
    assert (Hnin : ~ In x (map fst k)) by (apply lfind_None_iff; exact Hx).
    replace (bucket w (n + 1) - 1) with (n / w) by lia.
    repeat split.
    + rewrite map_app. cbn [map fst]. apply NoDup_snoc; assumption.
    + apply Forall_app. split.
      * apply Forall_forall. intros [y e] Hy.
        rewrite Forall_forall in Ient. specialize (Ient _ Hy).
        assert (y <> x) as Hne.
        { intros ->. apply Hnin. apply in_map_iff. exists (x, e); split; [reflexivity|exact Hy]. }
        unfold ent_ok in *. cbn [fst] in *. rewrite (cnt_snoc_other y xs x Hne). lia.
      * constructor; [|constructor]. unfold ent_ok, ent_f, ent_d. cbn [fst snd].
        rewrite cnt_snoc_same. specialize (Iun x Hx). lia.
    + intros y Hy. apply lfind_None_iff in Hy. rewrite map_app, in_app_iff in Hy. cbn [map fst In] in Hy.
      assert (y <> x) as Hne by (intros ->; tauto).
      rewrite (cnt_snoc_other y xs x Hne). apply Iun. apply lfind_None_iff. tauto.
    + intros t. rewrite sumf_app. cbn [sumf ent_f ent_d fst snd]. specialize (Isum t).
      destruct (N.leb_spec t (n / w)) as [Ht|Ht]; [|lia].
      pose proof (div_mul_le' w n t Hw Ht). lia. Qed.

Lemma Inv_step w xs s x : 1 <= w -> Inv w xs s -> Inv w (xs ++ [x]) (snd (lossy_add s x)).
Proof. intros Hw I. destruct (ins_ok w xs s x Hw I) as [Hnd [Hent [Hun Hsum]]].
  pose proof (inv_w _ _ _ I) as Iw. pose proof (inv_n _ _ _ I) as In_.
  rewrite lossy_add_eq by lia. rewrite Iw.
  set (n := ln s) in *. set (k1 := ins s x) in *.
  destruct (N.eqb_spec ((n + 1) mod w) 0) as [E|E].
  - (* window end: prune *)
    pose proof (div_succ_end w n Hw E) as Hdiv. pose proof (bucket_end w (n + 1) Hw E) as Hbe.
    constructor; cbn [lw ln lknown].
    + reflexivity.
    + rewrite app_length. cbn [length]. lia.
    + apply NoDup_map_filter. exact Hnd.
    + apply Forall_forall. intros e He. apply filter_In in He. destruct He as [He HP].
      rewrite Forall_forall in Hent. specialize (Hent _ He). unfold ent_ok in *.
      apply N.ltb_lt in HP. lia.
    + intros y Hy. apply lfind_filter_None in Hy. destruct Hy as [Hy|[e [He HP]]].
      * specialize (Hun y Hy). lia.
      * rewrite Forall_forall in Hent. specialize (Hent _ He). unfold ent_ok in Hent. cbn [fst] in Hent.
        apply N.ltb_ge in HP. lia.
    + intros t. pose proof (sumf_filter t (fun e => bucket w (n + 1) <? ent_f e + ent_d e) k1).
      specialize (Hsum t). lia.
  - pose proof (div_succ_not_end w n Hw E) as Hdiv.
    constructor; cbn [lw ln lknown].
    + reflexivity.
    + rewrite app_length. cbn [length]. lia.
    + exact Hnd.
    + rewrite Hdiv. exact Hent.
    + rewrite Hdiv. exact Hun.
    + exact Hsum. Qed.

Lemma lrun_snoc w xs x : lrun w (xs ++ [x]) = snd (lossy_add (lrun w xs) x).
Proof. unfold lrun. rewrite fold_left_app. reflexivity. Qed.

Lemma lrun_inv w xs : 1 <= w -> Inv w xs (lrun w xs).
Proof. intros Hw. induction xs as [|x xs IH] using rev_ind.
  - apply Inv_init.
  - rewrite lrun_snoc. apply Inv_step; assumption. Qed.

(* ------------------------------------------------------------------------- *)
(** * 1. Basic state facts                                                    *)
(* ------------------------------------------------------------------------- *)

Theorem lossy_n w xs : 1 <= w -> ln (lrun w xs) = N.of_nat (length xs).
Proof. intros Hw. apply (inv_n _ _ _ (lrun_inv w xs Hw)). Qed.

Theorem lossy_w w xs : 1 <= w -> lw (lrun w xs) = w.
Proof. intros Hw. apply (inv_w _ _ _ (lrun_inv w xs Hw)). Qed.

Theorem lossy_nodup w xs : 1 <= w -> NoDup (map fst (lknown (lrun w xs))).
Proof. intros Hw. apply (inv_nodup _ _ _ (lrun_inv w xs Hw)). Qed.

(* [lrun] is exactly "construct with lossy_new, then add the stream" *)
Lemma lossy_new_lrun w s0 xs : lossy_new w = Some s0 ->
  1 <= w /\ fold_left (fun s x => snd (lossy_add s x)) xs s0 = lrun w xs.
Proof. unfold lossy_new. destruct (N.ltb_spec 0 w) as [H|H]; [|discriminate].
  intros E; inversion E; subst. split; [lia|reflexivity]. Qed.

(* ------------------------------------------------------------------------- *)
(** * 2. Return value of add                                                  *)
(* ------------------------------------------------------------------------- *)

Theorem lossy_add_returns_new s x : fst (lossy_add s x) = negb (tracked s x).
Proof. unfold lossy_add, tracked. destruct (lfind (lknown s) x); reflexivity. Qed.

(* ------------------------------------------------------------------------- *)
(** * 3. Frequency invariants L1 / L2                                         *)
(* ------------------------------------------------------------------------- *)

(* (L1), In-form: every table entry (x,(f,d)) *)
Theorem lossy_entry_bounds w xs x f d : 1 <= w ->
  In (x, (f, d)) (lknown (lrun w xs)) ->
  1 <= f /\ f <= cnt x xs /\ cnt x xs <= f + d /\
  d + 1 <= (ln (lrun w xs) + w - 1) / w /\ ln (lrun w xs) / w < f + d.
Proof. intros Hw HI. pose proof (inv_ent _ _ _ (lrun_inv w xs Hw)) as HF.
  rewrite Forall_forall in HF. apply (HF _ HI). Qed.

(* (L1) *)
Theorem lossy_tracked_bounds w xs x f d : 1 <= w ->
  lfind (lknown (lrun w xs)) x = Some (f, d) ->
  1 <= f /\ f <= cnt x xs /\ cnt x xs <= f + d /\
  d + 1 <= (ln (lrun w xs) + w - 1) / w.
Proof. intros Hw HI. apply lfind_Some_In in HI.
  pose proof (lossy_entry_bounds w xs x f d Hw HI). tauto. Qed.

Corollary lossy_tracked_delta w xs x f d : 1 <= w ->
  lfind (lknown (lrun w xs)) x = Some (f, d) ->
  d <= (ln (lrun w xs) + w - 1) / w - 1 /\ d * w < ln (lrun w xs).
Proof. intros Hw HI. destruct (lossy_tracked_bounds w xs x f d Hw HI) as [_ [_ [_ Hd]]].
  split; [lia|]. apply bucket_lt; assumption. Qed.

(* (L2) *)
Theorem lossy_untracked_bound w xs x : 1 <= w ->
  tracked (lrun w xs) x = false ->
  cnt x xs <= ln (lrun w xs) / w /\ cnt x xs * w <= ln (lrun w xs).
Proof. intros Hw HT. unfold tracked in HT.
  destruct (lfind (lknown (lrun w xs)) x) eqn:E; [discriminate|].
  pose proof (inv_untr _ _ _ (lrun_inv w xs Hw) x E) as H.
  split; [exact H|]. apply div_mul_le'; assumption. Qed.

(* an element whose frequency exceeds n/w is tracked *)
Corollary lossy_frequent_tracked w xs x : 1 <= w ->
  ln (lrun w xs) < cnt x xs * w -> tracked (lrun w xs) x = true.
Proof. intros Hw H. destruct (tracked (lrun w xs) x) eqn:E; [reflexivity|].
  destruct (lossy_untracked_bound w xs x Hw E). lia. Qed.

(* ------------------------------------------------------------------------- *)
(** * Rational helpers                                                        *)
(* ------------------------------------------------------------------------- *)

Lemma NQ_le a b : a <= b -> (NQ a <= NQ b)%Q.
Proof. intros H. rewrite <- Zle_Qle. lia. Qed.

Lemma NQ_le_inv a b : (NQ a <= NQ b)%Q -> a <= b.
Proof. rewrite <- Zle_Qle. lia. Qed.

Lemma NQ_nonneg a : (0 <= NQ a)%Q.
Proof. change 0%Q with (inject_Z 0). rewrite <- Zle_Qle. lia. Qed.

Lemma NQ_add a b : (NQ (a + b) == NQ a + NQ b)%Q.
Proof. rewrite N2Z.inj_add, inject_Z_plus. reflexivity. Qed.

Lemma NQ_mul a b : (NQ (a * b) == NQ a * NQ b)%Q.
Proof. rewrite N2Z.inj_mul, inject_Z_mult. reflexivity. Qed.

Lemma Qceil_N_le q f : (q <= NQ f)%Q -> Qceil_N q <= f.
Proof. intros H. unfold Qceil_N.
  assert (Hf : (Qfloor (- NQ f) <= Qfloor (- q))%Z) by (apply Qfloor_resp_le; lra).
  rewrite <- inject_Z_opp, Qfloor_Z in Hf. lia. Qed.

Lemma Qceil_N_ge q : (q <= NQ (Qceil_N q))%Q.
Proof. unfold Qceil_N. rewrite Z2N.id by lia.
  pose proof (Qfloor_le (- q)) as H.
  assert (H2 : (inject_Z (- Qfloor (- q)) <= inject_Z (Z.max 0 (- Qfloor (- q))))%Q)
    by (rewrite <- Zle_Qle; lia).
  rewrite inject_Z_opp in H2. lra. Qed.

(* the key scaling step:  a*w <= n  and  1 <= eps*w  give  a <= eps*n *)
Lemma scale_eps (eps : Q) w a n : 1 <= w -> (1 <= eps * NQ w)%Q -> a * w <= n -> (NQ a <= eps * NQ n)%Q.
Proof. intros Hw He Ha. apply NQ_le in Ha. rewrite NQ_mul in Ha.
  pose proof (NQ_nonneg a) as Ha0.
  assert (Hw1 : (1 <= NQ w)%Q) by (change 1%Q with (NQ 1); apply NQ_le; exact Hw).
  assert (He0 : (0 <= eps)%Q).
  { destruct (Qlt_le_dec eps 0) as [Hlt|]; [|assumption]. exfalso. nra. }
  set (A := NQ a) in *. set (W := NQ w) in *. set (M := NQ n) in *.
  assert (P1 : (0 <= A * (eps * W - 1))%Q) by (apply Qmult_le_0_compat; lra).
  assert (P2 : (0 <= eps * (M - A * W))%Q) by (apply Qmult_le_0_compat; lra).
  lra. Qed.

(* ------------------------------------------------------------------------- *)
(** * 5. / 4. Query soundness and completeness                                *)
(* ------------------------------------------------------------------------- *)

Lemma lossy_query_In s eps th x :
  In x (lossy_query s eps th) <->
  exists f d, In (x, (f, d)) (lknown s) /\ lossy_bound s eps th <= f.
Proof. unfold lossy_query, lossy_query_bound. rewrite in_map_iff. split.
  - intros [[y [f d]] [E H]]. cbn [fst] in E. subst y. apply filter_In in H.
    destruct H as [H HP]. cbn [fst snd] in HP. apply N.leb_le in HP. exists f, d. tauto.
  - intros [f [d [H HP]]]. exists (x, (f, d)). split; [reflexivity|].
    apply filter_In. split; [exact H|]. cbn [fst snd]. apply N.leb_le. exact HP. Qed.

(* Soundness: anything reported has true frequency >= (th - eps) * n.
   (Needs no relation between eps and w.) *)
Theorem lossy_sound w xs x (eps th : Q) : 1 <= w ->
  In x (lossy_query (lrun w xs) eps th) ->
  ((th - eps) * NQ (ln (lrun w xs)) <= NQ (cnt x xs))%Q.
Proof. intros Hw HI. apply lossy_query_In in HI. destruct HI as [f [d [HI Hb]]].
  destruct (lossy_entry_bounds w xs x f d Hw HI) as [_ [Hlo _]].
  unfold lossy_bound in Hb.
  pose proof (Qceil_N_ge ((th - eps) * NQ (ln (lrun w xs)))) as Hc.
  apply NQ_le in Hb. apply NQ_le in Hlo. lra. Qed.

(* the recorded frequency of a reported element also satisfies the bound *)
Theorem lossy_sound_f w xs x (eps th : Q) : 1 <= w ->
  In x (lossy_query (lrun w xs) eps th) ->
  exists f d, lfind (lknown (lrun w xs)) x = Some (f, d) /\
    ((th - eps) * NQ (ln (lrun w xs)) <= NQ f)%Q /\ f <= cnt x xs.
Proof. intros Hw HI. apply lossy_query_In in HI. destruct HI as [f [d [HI Hb]]].
  exists f, d. destruct (lossy_entry_bounds w xs x f d Hw HI) as [_ [Hlo _]].
  split; [apply lfind_NoDup_In; [apply lossy_nodup; exact Hw|exact HI]|]. split; [|exact Hlo].
  unfold lossy_bound in Hb.
  pose proof (Qceil_N_ge ((th - eps) * NQ (ln (lrun w xs)))) as Hc.
  apply NQ_le in Hb. lra. Qed.

(* Completeness: every element with true frequency >= th*n and > eps*n is reported. *)
Theorem lossy_complete w xs x (eps th : Q) : 1 <= w ->
  (1 <= eps * NQ w)%Q ->
  (th * NQ (ln (lrun w xs)) <= NQ (cnt x xs))%Q ->
  (eps * NQ (ln (lrun w xs)) < NQ (cnt x xs))%Q ->
  In x (lossy_query (lrun w xs) eps th).
Proof. intros Hw He Hth Hgt. set (s := lrun w xs) in *.
  destruct (lfind (lknown s) x) as [[f d]|] eqn:E.
  - apply lossy_query_In. exists f, d. split; [apply lfind_Some_In; exact E|].
    destruct (lossy_tracked_bounds w xs x f d Hw E) as [_ [_ [Hhi _]]].
    destruct (lossy_tracked_delta w xs x f d Hw E) as [_ Hd]. fold s in Hd.
    assert (Hd' : (NQ d <= eps * NQ (ln s))%Q) by (apply (scale_eps eps w); [assumption|assumption|lia]).
    unfold lossy_bound. apply Qceil_N_le.
    apply NQ_le in Hhi. rewrite NQ_add in Hhi. lra.
  - exfalso. assert (HT : tracked s x = false) by (unfold tracked; rewrite E; reflexivity).
    destruct (lossy_untracked_bound w xs x Hw HT) as [_ Hc]. fold s in Hc.
    assert (Hc' : (NQ (cnt x xs) <= eps * NQ (ln s))%Q) by (apply (scale_eps eps w); assumption).
    lra. Qed.

(* Classic Manku-Motwani error statement: recorded frequencies undercount by at most eps*n,
   and anything not in the table has true frequency at most eps*n. *)
Theorem lossy_error_eps w xs x (eps : Q) : 1 <= w -> (1 <= eps * NQ w)%Q ->
  match lfind (lknown (lrun w xs)) x with
  | Some (f, d) => (NQ f <= NQ (cnt x xs) <= NQ f + eps * NQ (ln (lrun w xs)))%Q
  | None => (NQ (cnt x xs) <= eps * NQ (ln (lrun w xs)))%Q
  end.
Proof. intros Hw He. set (s := lrun w xs).
  destruct (lfind (lknown s) x) as [[f d]|] eqn:E.
  - destruct (lossy_tracked_bounds w xs x f d Hw E) as [_ [Hlo [Hhi _]]].
    destruct (lossy_tracked_delta w xs x f d Hw E) as [_ Hd]. fold s in Hd.
    assert (Hd' : (NQ d <= eps * NQ (ln s))%Q) by (apply (scale_eps eps w); [assumption|assumption|lia]).
    apply NQ_le in Hlo. apply NQ_le in Hhi. rewrite NQ_add in Hhi. split; lra.
  - assert (HT : tracked s x = false) by (unfold tracked; rewrite E; reflexivity).
    destruct (lossy_untracked_bound w xs x Hw HT) as [_ Hc]. fold s in Hc.
    apply (scale_eps eps w); assumption. Qed.

(* the usual reading: threshold above epsilon, non-empty stream *)
Corollary lossy_complete_th w xs x (eps th : Q) : 1 <= w ->
  (1 <= eps * NQ w)%Q -> (eps < th)%Q -> xs <> [] ->
  (th * NQ (ln (lrun w xs)) <= NQ (cnt x xs))%Q ->
  In x (lossy_query (lrun w xs) eps th).
Proof. intros Hw He Hlt Hne Hth. apply lossy_complete; try assumption.
  assert (Hn : (0 < NQ (ln (lrun w xs)))%Q).
  { rewrite lossy_n by assumption. change 0%Q with (inject_Z 0). rewrite <- Zlt_Qlt.
    destruct xs; [congruence|cbn [length]; lia]. }
  nra. Qed.

(* ------------------------------------------------------------------------- *)
(** * 6. Size bound                                                           *)
(* ------------------------------------------------------------------------- *)

(** ** Abel-summation lemma (from proto/Lossy_harmonic.v.txt)                  *)
Section Harmonic.
Local Open Scope Q_scope.
Definition qn (n : nat) : Q := inject_Z (Z.of_nat n).
Fixpoint Dsum (d : nat -> nat) (j : nat) : Q := match j with O => 0 | S j' => Dsum d j' + qn (d (S j')) end.
Fixpoint Wsum (d : nat -> nat) (j : nat) : Q := match j with O => 0 | S j' => Wsum d j' + qn (S j') * qn (d (S j')) end.
Fixpoint SDsum (d : nat -> nat) (j : nat) : Q := match j with O => 0 | S j' => SDsum d j' + Dsum d j' end.
Fixpoint SHsum (j : nat) : Q := match j with O => 0 | S j' => SHsum j' + Hq j' end.

Lemma qn_S n : qn (S n) == qn n + 1.
Proof. unfold qn. rewrite Nat2Z.inj_succ. unfold Z.succ. rewrite inject_Z_plus. reflexivity. Qed.

Lemma abel d j : Wsum d j == qn j * Dsum d j - SDsum d j.
Proof. induction j as [|j IH]; cbn [Wsum Dsum SDsum]. - unfold qn; simpl; ring.
  - rewrite IH, qn_S. ring. Qed.

Lemma inv_S j : (1 # Pos.of_nat (S j)) * qn (S j) == 1.
Proof. unfold qn. rewrite <- Pos.of_nat_succ. rewrite Nat2Z.inj_succ, <- Zpos_P_of_succ_nat.
  unfold Qeq, Qmult, inject_Z. cbn [Qnum Qden]. rewrite Pos.mul_1_r. lia. Qed.

Lemma sum_H j : SHsum j == qn j * Hq j - qn j.
Proof. induction j as [|j IH]; cbn [SHsum Hq]. - unfold qn; simpl; ring.
  - rewrite IH. pose proof (inv_S j) as E. rewrite qn_S in *.
    set (x := 1 # Pos.of_nat (S j)) in *. lra. Qed.

Theorem harmonic_bound d (w : Q) B : 0 <= w ->
  (forall j, (j <= B)%nat -> Wsum d j <= qn j * w) -> forall j, (j <= B)%nat -> Dsum d j <= w * Hq j.
Proof. intros Hw HW.
  assert (forall j, (j <= B)%nat -> Dsum d j <= w * Hq j /\ SDsum d j <= w * SHsum j) as G.
  { induction j as [|j IH]; intros Hj. - cbn. split; lra.
    - destruct (IH ltac:(lia)) as [IH1 IH2].
      assert (S2 : SDsum d (S j) <= w * SHsum (S j)). { cbn [SDsum SHsum]. lra. }
      split; [|exact S2].
      pose proof (HW (S j) Hj) as Hb. rewrite abel in Hb. rewrite sum_H in S2.
      assert (Hpos : 0 < qn (S j)). { unfold qn. change 0 with (inject_Z 0). rewrite <- Zlt_Qlt. lia. }
      assert (Hm : qn (S j) * Dsum d (S j) <= qn (S j) * (w * Hq (S j))) by nra.
      apply Qmult_le_l in Hm; assumption. }
  intros j Hj. apply G. exact Hj. Qed.

Lemma Hq_nonneg j : 0 <= Hq j.
Proof. induction j as [|j IH]; cbn [Hq]; [lra|].
  assert (0 <= 1 # Pos.of_nat (S j)) by (unfold Qle; cbn [Qnum Qden]; lia). lra. Qed.
End Harmonic.

(** ** Age profile of the table                                               *)
(* age i = B - delta + ... : d_i = number of entries created in bucket B - i + 1, i.e. delta = B - i *)
Definition dfun (B : N) (k : list (N * (N * N))) (i : nat) : nat := N.to_nat (cnteq (B - N.of_nat i) k).
Fixpoint Wn (B : N) (k : list (N * (N * N))) (j : nat) : N :=
  match j with O => 0 | S j' => Wn B k j' + N.of_nat (S j') * cnteq (B - N.of_nat (S j')) k end.
Fixpoint Dn (B : N) (k : list (N * (N * N))) (j : nat) : N :=
  match j with O => 0 | S j' => Dn B k j' + cnteq (B - N.of_nat (S j')) k end.

Lemma qn_NQ n : (qn n == NQ (N.of_nat n))%Q.
Proof. unfold qn. rewrite nat_N_Z. reflexivity. Qed.

Lemma qn_dfun B k i : (qn (dfun B k i) == NQ (cnteq (B - N.of_nat i) k))%Q.
Proof. unfold qn, dfun. rewrite N_nat_Z. reflexivity. Qed.

Lemma Wsum_Wn B k j : (Wsum (dfun B k) j == NQ (Wn B k j))%Q.
Proof. induction j as [|j IH]; cbn [Wsum Wn]; [reflexivity|].
  rewrite IH, NQ_add, NQ_mul, qn_dfun, qn_NQ. reflexivity. Qed.

Lemma Dsum_Dn B k j : (Dsum (dfun B k) j == NQ (Dn B k j))%Q.
Proof. induction j as [|j IH]; cbn [Dsum Dn]; [reflexivity|].
  rewrite IH, NQ_add, qn_dfun. reflexivity. Qed.

(* entries of age <= j carry at least sum_{i<=j} i*d_i recorded occurrences *)
Lemma Wn_le_sumf B k j : Forall (fun e => B <= ent_f e + ent_d e) k ->
  N.of_nat j <= B -> Wn B k j <= sumf (B - N.of_nat j) k.
Proof. intros HF. induction j as [|j IH]; intros Hj; cbn [Wn]; [lia|].
  specialize (IH ltac:(lia)).
  pose proof (sumf_split B (B - N.of_nat (S j)) k HF) as Hs.
  replace (B - N.of_nat (S j) + 1) with (B - N.of_nat j) in Hs by lia.
  replace (B - (B - N.of_nat (S j))) with (N.of_nat (S j)) in Hs by lia.
  lia. Qed.

Lemma Dn_cntge B k j : N.of_nat j <= B -> Dn B k j + cntge B k = cntge (B - N.of_nat j) k.
Proof. induction j as [|j IH]; intros Hj; cbn [Dn].
  - cbn [N.of_nat]. rewrite N.sub_0_r. lia.
  - specialize (IH ltac:(lia)). rewrite (cntge_split (B - N.of_nat (S j)) k).
    replace (B - N.of_nat (S j) + 1) with (B - N.of_nat j) by lia. lia. Qed.

(* Size bound: the table never holds more than w * H(ceil(n/w)) entries. *)
Theorem lossy_size w xs : 1 <= w ->
  (inject_Z (Z.of_nat (length (lknown (lrun w xs))))
   <= NQ w * Hq (N.to_nat (bucket w (ln (lrun w xs)))))%Q.
Proof. intros Hw. pose proof (lrun_inv w xs Hw) as I.
  set (s := lrun w xs) in *. set (k := lknown s). set (n := ln s). set (B := bucket w n).
  pose proof (inv_ent _ _ _ I) as Hent. pose proof (inv_sum _ _ _ I) as Hsum. fold k n B in Hent, Hsum.
  pose proof (bucket_le_succ w n Hw) as HB1. pose proof (bucket_mul_ge w n Hw) as HB2. fold B in HB1, HB2.
  assert (Hsurv : Forall (fun e => B <= ent_f e + ent_d e) k).
  { eapply Forall_impl; [|exact Hent]. intros e He. unfold ent_ok in He. cbn beta in He. lia. }
  assert (Hd : Forall (fun e => ent_d e + 1 <= B) k).
  { eapply Forall_impl; [|exact Hent]. intros e He. unfold ent_ok in He. cbn beta in He. lia. }
  assert (HW : forall j, (j <= N.to_nat B)%nat -> (Wsum (dfun B k) j <= qn j * NQ w)%Q).
  { intros j Hj. rewrite Wsum_Wn, qn_NQ, <- NQ_mul. apply NQ_le.
    pose proof (Wn_le_sumf B k j Hsurv ltac:(lia)) as H1.
    specialize (Hsum (B - N.of_nat j)).
    assert (B * w = (B - N.of_nat j) * w + N.of_nat j * w) as E
      by (rewrite <- N.mul_add_distr_r; f_equal; lia).
    lia. }
  pose proof (harmonic_bound (dfun B k) (NQ w) (N.to_nat B) (NQ_nonneg w) HW (N.to_nat B) (le_n _)) as HH.
  rewrite Dsum_Dn in HH.
  pose proof (Dn_cntge B k (N.to_nat B) ltac:(lia)) as HD.
  rewrite (cntge_top B k Hd) in HD. replace (B - N.of_nat (N.to_nat B)) with 0 in HD by lia.
  rewrite cntge_0 in HD. rewrite N.add_0_r in HD. rewrite HD in HH.
  rewrite nat_N_Z in HH. exact HH. Qed.

(* the form requested in the design document (weaker: "+ 1" slack) *)
Corollary lossy_size_plus1 w xs : 1 <= w ->
  (inject_Z (Z.of_nat (length (lknown (lrun w xs))))
   <= NQ w * (Hq (N.to_nat ((ln (lrun w xs) + w - 1) / w)) + 1))%Q.
Proof. intros Hw. pose proof (lossy_size w xs Hw) as H. unfold bucket in H.
  pose proof (NQ_nonneg w). set (h := Hq _) in *. nra. Qed.

(* elementary bound: every tracked entry accounts for at least one stream element *)
Theorem lossy_size_le_n w xs : 1 <= w ->
  N.of_nat (length (lknown (lrun w xs))) <= ln (lrun w xs).
Proof. intros Hw. pose proof (lrun_inv w xs Hw) as I.
  pose proof (inv_sum _ _ _ I 0) as Hs.
  assert (Hf : Forall (fun e => 1 <= ent_f e) (lknown (lrun w xs))).
  { eapply Forall_impl; [|exact (inv_ent _ _ _ I)]. intros e He. unfold ent_ok in He. tauto. }
  pose proof (length_le_sumf0 _ Hf). lia. Qed.

(* ------------------------------------------------------------------------- *)
(** * 7. clear                                                                *)
(* ------------------------------------------------------------------------- *)

Theorem lossy_clear_init s : lossy_clear s = {| lw := lw s; ln := 0; lknown := [] |}.
Proof. reflexivity. Qed.

Theorem lossy_clear_run w xs ys : 1 <= w ->
  fold_left (fun s x => snd (lossy_add s x)) ys (lossy_clear (lrun w xs)) = lrun w ys.
Proof. intros Hw. rewrite lossy_clear_init, lossy_w by assumption. reflexivity. Qed.

(* "at every prefix": the theorems hold for every stream, in particular for firstn i xs *)
Corollary lossy_prefix_untracked w xs i x : 1 <= w ->
  tracked (lrun w (firstn i xs)) x = false ->
  cnt x (firstn i xs) * w <= N.of_nat (length (firstn i xs)).
Proof. intros Hw H. rewrite <- lossy_n with (w := w) by assumption.
  apply lossy_untracked_bound; assumption. Qed.

(* ------------------------------------------------------------------------- *)
(** * Non-vacuity examples                                                    *)
(* ------------------------------------------------------------------------- *)

(* w = 2: element 1 is tracked, pruned at n = 2, and re-enters with delta > 0 *)
Example ex_trace :
  map (fun i => lknown (lrun 2 (firstn i [1;2;1;3;1;4;1]))) (seq 0 8) =
  [ []; [(1,(1,0))]; []; [(1,(1,1))]; []; [(1,(1,2))]; []; [(1,(1,3))] ].
Proof. vm_compute. reflexivity. Qed.

Example ex_reenter : lknown (lrun 3 [1;2;3;1;5;6;7;1;1]) = [(1, (2, 2))]
  /\ cnt 1 [1;2;3;1;5;6;7;1;1] = 4.
Proof. vm_compute. split; reflexivity. Qed.

(* L1 instance: f = 2 <= cnt = 4 <= f + d = 4, d + 1 = 3 <= bucket = 3 *)
Example ex_L1 : lfind (lknown (lrun 3 [1;2;3;1;5;6;7;1;1])) 1 = Some (2, 2)
  /\ (ln (lrun 3 [1;2;3;1;5;6;7;1;1]) + 3 - 1) / 3 = 3.
Proof. vm_compute. split; reflexivity. Qed.

(* L2 instance: 2 is untracked, cnt = 1 <= 9 / 3 *)
Example ex_L2 : tracked (lrun 3 [1;2;3;1;5;6;7;1;1]) 2 = false /\ cnt 2 [1;2;3;1;5;6;7;1;1] = 1.
Proof. vm_compute. split; reflexivity. Qed.

(* add returns true for an untracked and false for a tracked element *)
Example ex_add_ret :
  fst (lossy_add (lrun 3 [1;2]) 1) = false /\ fst (lossy_add (lrun 3 [1;2]) 7) = true
  /\ fst (lossy_add (lrun 3 [1;2;3]) 1) = true (* 1 was pruned at n = 3 *).
Proof. vm_compute. repeat split; reflexivity. Qed.

(* completeness applies: w = 4, eps = 1/4, th = 1/2; element 1 has 6 of 10 occurrences *)
Definition ex_stream : list N := [1;2;1;3;1;4;1;5;1;1].
Example ex_complete_hyps :
  (1 <= (1#4) * NQ 4)%Q /\
  ((1#2) * NQ (ln (lrun 4 ex_stream)) <= NQ (cnt 1 ex_stream))%Q /\
  ((1#4) * NQ (ln (lrun 4 ex_stream)) < NQ (cnt 1 ex_stream))%Q.
Proof. vm_compute. repeat split; discriminate. Qed.

Example ex_complete : In 1 (lossy_query (lrun 4 ex_stream) (1#4) (1#2)).
Proof. destruct ex_complete_hyps as [H1 [H2 H3]].
  apply lossy_complete; [lia|exact H1|exact H2|exact H3]. Qed.

Example ex_query : lossy_query (lrun 4 ex_stream) (1#4) (1#2) = [1].
Proof. vm_compute. reflexivity. Qed.

(* soundness is not vacuous: the query above reports something, and 2 (freq 1 < (th-eps)*n = 2.5) is absent *)
Example ex_sound : ~ In 2 (lossy_query (lrun 4 ex_stream) (1#4) (1#2)).
Proof. rewrite ex_query. intros [H|[]]. discriminate. Qed.

(* size bound instance: w = 4, n = 7, b = 2: 5 entries <= 4 * H_2 = 6 (and 5 > w: the harmonic factor matters) *)
Example ex_size : length (lknown (lrun 4 [1;1;2;2;3;4;5])) = 5%nat
  /\ (NQ 4 * Hq (N.to_nat (bucket 4 7)) == 6)%Q.
Proof. vm_compute. split; reflexivity. Qed.

Print Assumptions lossy_n.
Print Assumptions lossy_w.
Print Assumptions lossy_nodup.
Print Assumptions lossy_add_returns_new.
Print Assumptions lossy_entry_bounds.
Print Assumptions lossy_tracked_bounds.
Print Assumptions lossy_untracked_bound.
Print Assumptions lossy_sound.
Print Assumptions lossy_sound_f.
Print Assumptions lossy_complete.
Print Assumptions lossy_complete_th.
Print Assumptions lossy_error_eps.
Print Assumptions lossy_size.
Print Assumptions lossy_size_plus1.
Print Assumptions lossy_size_le_n.
Print Assumptions lossy_clear_init.
Print Assumptions lossy_clear_run.
