(* Proofs/HllTables2.v - the threshold row of the regenerated tables: the hand-over point from linear counting to the
   bias-corrected estimate lies between m/2 and 3m/2 for every precision (a misplaced digit breaks it). *)
From PDS Require Import Gen.HllData.
From Coq Require Import NArith List Lia.
Import ListNotations.
Open Scope N_scope.

Definition threshold_ok (i thr : N) : bool := let m := 2 ^ (i + threshold_data_offset) in (m <? 2 * thr) && (2 * thr <? 3 * m).
Fixpoint all_ok (i : N) (l : list N) : bool := match l with [] => true | t :: r => threshold_ok i t && all_ok (i + 1) r end.
Lemma thresholds_check : all_ok 0 threshold_data = true.
Proof. vm_compute. reflexivity. Qed.

Lemma all_ok_nth l : forall i k thr, all_ok i l = true -> nth_error l (N.to_nat k) = Some thr -> threshold_ok (i + k) thr = true.
Proof.
  induction l as [|t r IH]; intros i k thr H E.
  - destruct (N.to_nat k); discriminate.
  - cbn [all_ok] in H. apply andb_prop in H. destruct H as [H1 H2].
    destruct (N.to_nat k) as [|n] eqn:Ek.
    + cbn in E. injection E as <-. replace (i + k) with i by lia. exact H1.
    + cbn in E. replace (i + k) with ((i + 1) + N.of_nat n) by lia. apply IH; [exact H2|].
      rewrite Nat2N.id. exact E.
Qed.

Theorem threshold_window b thr :
  4 <= b <= 18 -> nth_error threshold_data (N.to_nat (b - threshold_data_offset)) = Some thr ->
  2 ^ b < 2 * thr /\ 2 * thr < 3 * 2 ^ b.
Proof.
  intros Hb E. pose proof (all_ok_nth _ 0 (b - threshold_data_offset) thr thresholds_check E) as H.
  unfold threshold_ok in H. apply andb_prop in H. destruct H as [H1 H2].
  apply N.ltb_lt in H1, H2.
  assert (Ho : threshold_data_offset = 4) by reflexivity.
  replace (0 + (b - threshold_data_offset) + threshold_data_offset) with b in * by (rewrite Ho; lia).
  split; assumption.
Qed.
Print Assumptions threshold_window.
