(* Proofs/CmsHeapProofs.v — theorems about the CMSHeap (top-k) model (Model/CmsHeap.v).

   Property C10.  All theorems hold for EVERY hash function [H], every k >= 1, every sketch
   shape w, d >= 1 and every counter bound [mx]; [heap_run H k w d mx xs = Some s] means: the
   stream [xs] was fed, one add(x) at a time, into a freshly built CMSHeap and no add panicked.

   Route: (1) list lemmas about the two indexes ([tinsert]/[tremove] on the sorted tree,
   [oset]/[oremove]/[ofind] on the association list); (2) [heap_add] preserves the index
   consistency [wf]; (3) the sketch inside the heap is the sketch of the plain history
   [hist xs] of CmsProofs.v, so [cms_lower], [cms_upper], [cms_add_returns_query] apply;
   (4) a stream invariant [hinv]; (5) the overestimate of a count-min sketch is monotone along
   a stream, so a bound [E] on the FINAL overestimates bounds all earlier ones;
   (6) the C10 statements. *)
From PDS Require Import Model.Cms Model.CmsHeap Proofs.CmsProofs.
From Coq Require Import Permutation Sorted ZifyN ZifyBool.

Local Open Scope N_scope.

Arguments N.add : simpl never.
Arguments N.mul : simpl never.
Arguments N.min : simpl never.
Arguments N.max : simpl never.
Arguments N.sub : simpl never.
Arguments N.modulo : simpl never.
Arguments N.pow : simpl never.
Arguments N.leb : simpl never.
Arguments N.ltb : simpl never.
Arguments N.eqb : simpl never.

(* ====================================================================== *)
(** * The BTreeSet order on (count, key) *)

Definition elt (a b : N * N) : Prop := entry_lt a b = true.

Lemma entry_lt_spec a b :
  entry_lt a b = true <-> (fst a < fst b \/ (fst a = fst b /\ snd a < snd b)).
Proof.
  unfold entry_lt. rewrite orb_true_iff, andb_true_iff, !N.ltb_lt, N.eqb_eq. tauto.
Qed.

Lemma entry_lt_false a b :
  entry_lt a b = false <-> ~ (fst a < fst b \/ (fst a = fst b /\ snd a < snd b)).
Proof.
  rewrite <- entry_lt_spec. destruct (entry_lt a b); split; intros E; congruence.
Qed.

Lemma elt_trans a b c : elt a b -> elt b c -> elt a c.
Proof. unfold elt. rewrite !entry_lt_spec. lia. Qed.

Lemma elt_irrefl a : ~ elt a a.
Proof. unfold elt. rewrite entry_lt_spec. lia. Qed.

Lemma elt_fst_le a b : elt a b -> fst a <= fst b.
Proof. unfold elt. rewrite entry_lt_spec. lia. Qed.

Lemma entry_tri a b : entry_lt a b = false -> entry_lt b a = false -> a = b.
Proof.
  rewrite !entry_lt_false. destruct a as [a1 a2], b as [b1 b2]. cbn [fst snd].
  intros E1 E2. f_equal; lia.
Qed.

Lemma entry_eqb_spec (e y : N * N) :
  (fst e =? fst y) && (snd e =? snd y) = true <-> e = y.
Proof.
  rewrite andb_true_iff, !N.eqb_eq. destruct e, y; cbn [fst snd]. split.
  - intros [-> ->]. reflexivity.
  - intros E. inversion E. auto.
Qed.

Definition tsorted (t : list (N * N)) : Prop := StronglySorted elt t.

Lemma tsorted_NoDup t : tsorted t -> NoDup t.
Proof.
  intros Hs. induction Hs as [|a l Hs IH Hall]; constructor; [|exact IH].
  intros Hin. rewrite Forall_forall in Hall. exact (elt_irrefl a (Hall a Hin)).
Qed.

Lemma tsorted_head_min mn my r e : tsorted ((mn, my) :: r) -> In e ((mn, my) :: r) -> mn <= fst e.
Proof.
  intros Hs Hin. inversion Hs as [|a l Hs' Hall]; subst. destruct Hin as [<-|Hin].
  - cbn [fst]. lia.
  - rewrite Forall_forall in Hall. apply (elt_fst_le (mn, my) e). apply Hall. exact Hin.
Qed.

(* ---------- tinsert ---------- *)
Lemma In_tinsert e e' t : In e (tinsert e' t) <-> e = e' \/ In e t.
Proof.
  induction t as [|y r IH]; cbn [tinsert].
  - cbn [In]. intuition.
  - destruct (entry_lt e' y) eqn:E1.
    + cbn [In]. intuition.
    + destruct (entry_lt y e') eqn:E2.
      * cbn [In]. rewrite IH. tauto.
      * assert (e' = y) as -> by (apply entry_tri; assumption). cbn [In]. intuition.
Qed.

Lemma tinsert_sorted e t : tsorted t -> tsorted (tinsert e t).
Proof.
  intros Hs. induction Hs as [|y r Hs IH Hall]; cbn [tinsert].
  - constructor; constructor.
  - destruct (entry_lt e y) eqn:E1.
    + constructor.
      * constructor; assumption.
      * constructor; [exact E1|]. rewrite Forall_forall in *. intros z Hz.
        apply (elt_trans e y z E1). apply Hall. exact Hz.
    + destruct (entry_lt y e) eqn:E2.
      * constructor; [exact IH|]. rewrite Forall_forall in *. intros z Hz.
        apply In_tinsert in Hz. destruct Hz as [->|Hz]; [exact E2|apply Hall; exact Hz].
      * constructor; assumption.
Qed.

(* ---------- tremove ---------- *)
Lemma In_tremove_incl e e' t : In e (tremove e' t) -> In e t.
Proof.
  induction t as [|y r IH]; cbn [tremove]; [auto|].
  destruct ((fst e' =? fst y) && (snd e' =? snd y)); cbn [In]; tauto.
Qed.

Lemma In_tremove e e' t : NoDup t -> (In e (tremove e' t) <-> In e t /\ e <> e').
Proof.
  intros Hnd. induction Hnd as [|y r Hnin Hnd IH]; cbn [tremove].
  - cbn [In]. tauto.
  - destruct ((fst e' =? fst y) && (snd e' =? snd y)) eqn:E.
    + apply entry_eqb_spec in E. subst y. cbn [In]. split.
      * intros Hin. split; [right; exact Hin|]. intros ->. contradiction.
      * intros [[Heq|Hin] Hne]; [congruence|exact Hin].
    + assert (Hne : e' <> y).
      { intros ->. rewrite (proj2 (entry_eqb_spec y y) eq_refl) in E. discriminate. }
      cbn [In]. rewrite IH. split.
      * intros [<-|[Hin Hn]]; [split; [left; reflexivity|congruence]|split; [right; exact Hin|exact Hn]].
      * intros [[Heq|Hin] Hn]; [left; exact Heq|right; split; assumption].
Qed.

Lemma tremove_sorted e t : tsorted t -> tsorted (tremove e t).
Proof.
  intros Hs. induction Hs as [|y r Hs IH Hall]; cbn [tremove].
  - constructor.
  - destruct ((fst e =? fst y) && (snd e =? snd y)); [exact Hs|].
    constructor; [exact IH|]. rewrite Forall_forall in *. intros z Hz.
    apply Hall. apply (In_tremove_incl z e r Hz).
Qed.

(* the minimum of the tree does not decrease when an entry is replaced by one that is not
   below the old minimum *)
Lemma tree_min_mono t mn my r e0 e1 :
  tsorted t -> t = (mn, my) :: r -> mn <= fst e1 ->
  exists mn' my' r', tinsert e1 (tremove e0 t) = (mn', my') :: r' /\ mn <= mn'.
Proof.
  intros Hs Ht He1.
  assert (Hall : forall e, In e (tinsert e1 (tremove e0 t)) -> mn <= fst e).
  { intros e He. apply In_tinsert in He. destruct He as [->|He]; [exact He1|].
    apply In_tremove_incl in He. rewrite Ht in *. apply (tsorted_head_min mn my r e Hs He). }
  assert (Hin : In e1 (tinsert e1 (tremove e0 t))) by (apply In_tinsert; left; reflexivity).
  destruct (tinsert e1 (tremove e0 t)) as [|[mn' my'] r'] eqn:Et; [destruct Hin|].
  exists mn', my', r'. split; [reflexivity|].
  apply (Hall (mn', my')). left; reflexivity.
Qed.

(* ====================================================================== *)
(** * The association list obj2count *)

Definition okeys (m : list (N * N)) : list N := map fst m.

Lemma ofind_In_keys m y : In y (okeys m) <-> exists c, ofind m y = Some c.
Proof.
  induction m as [|[z d] t IH]; cbn [okeys map ofind In fst].
  - split; [tauto|]. intros [c E]; discriminate.
  - destruct (N.eqb_spec y z) as [->|Hne].
    + split; [intros _; exists d; reflexivity|auto].
    + fold (okeys t). rewrite <- IH. split; [intros [E|Hin]; [congruence|exact Hin]|auto].
Qed.

Lemma ofind_None_keys m y : ofind m y = None <-> ~ In y (okeys m).
Proof.
  rewrite ofind_In_keys. destruct (ofind m y) as [c|]; split; intros E.
  - discriminate.
  - exfalso. apply E. exists c. reflexivity.
  - intros [c Hc]; discriminate.
  - reflexivity.
Qed.

Lemma ofind_oset m x c y : ofind (oset m x c) y = if y =? x then Some c else ofind m y.
Proof.
  induction m as [|[z d] t IH]; cbn [oset ofind].
  - reflexivity.
  - destruct (N.eqb_spec x z) as [->|Hne]; cbn [ofind].
    + destruct (N.eqb_spec y z); reflexivity.
    + rewrite IH. destruct (N.eqb_spec y z) as [->|Hyz]; [|reflexivity].
      destruct (N.eqb_spec z x); [congruence|reflexivity].
Qed.

Lemma okeys_oset_In m x c z : In z (okeys (oset m x c)) <-> z = x \/ In z (okeys m).
Proof.
  rewrite !ofind_In_keys. split.
  - intros [v Hv]. rewrite ofind_oset in Hv. destruct (N.eqb_spec z x); [left; assumption|].
    right. exists v. exact Hv.
  - intros [->|[v Hv]].
    + exists c. rewrite ofind_oset, N.eqb_refl. reflexivity.
    + rewrite ofind_oset. destruct (z =? x); eauto.
Qed.

Lemma okeys_oset_NoDup m x c : NoDup (okeys m) -> NoDup (okeys (oset m x c)).
Proof.
  induction m as [|[z d] t IH]; intros Hnd; cbn [oset].
  - cbn. constructor; [tauto|constructor].
  - cbn [okeys map fst] in Hnd. fold (okeys t) in Hnd. inversion Hnd as [|a l Hnin Hnd']; subst.
    destruct (N.eqb_spec x z) as [->|Hne]; cbn [okeys map fst]; fold (okeys t).
    + constructor; assumption.
    + fold (okeys (oset t x c)). constructor; [|apply IH; exact Hnd'].
      rewrite okeys_oset_In. intros [E|Hin]; [congruence|contradiction].
Qed.

Lemma okeys_oremove_incl m x z : In z (okeys (oremove m x)) -> In z (okeys m).
Proof.
  induction m as [|[y d] t IH]; cbn [oremove]; [auto|].
  destruct (x =? y); cbn [okeys map fst In]; fold (okeys t); fold (okeys (oremove t x)); tauto.
Qed.

Lemma okeys_oremove_NoDup m x : NoDup (okeys m) -> NoDup (okeys (oremove m x)).
Proof.
  induction m as [|[y d] t IH]; intros Hnd; cbn [oremove]; [exact Hnd|].
  cbn [okeys map fst] in Hnd. fold (okeys t) in Hnd. inversion Hnd as [|a l Hnin Hnd']; subst.
  destruct (x =? y); [exact Hnd'|].
  cbn [okeys map fst]. fold (okeys (oremove t x)). constructor; [|apply IH; exact Hnd'].
  intros Hin. apply Hnin. apply (okeys_oremove_incl t x y Hin).
Qed.

Lemma ofind_oremove m x y :
  NoDup (okeys m) -> ofind (oremove m x) y = if y =? x then None else ofind m y.
Proof.
  induction m as [|[z d] t IH]; intros Hnd; cbn [oremove ofind].
  - destruct (y =? x); reflexivity.
  - cbn [okeys map fst] in Hnd. fold (okeys t) in Hnd. inversion Hnd as [|a l Hnin Hnd']; subst.
    destruct (N.eqb_spec x z) as [Hxz|Hne].
    + subst x. destruct (N.eqb_spec y z) as [Hyz|Hyz]; [|reflexivity].
      subst y. apply ofind_None_keys. exact Hnin.
    + cbn [ofind]. rewrite (IH Hnd'). destruct (N.eqb_spec y z) as [Hyz|Hyz]; [|reflexivity].
      subst y. destruct (N.eqb_spec z x); [congruence|reflexivity].
Qed.

Lemma length_oset_some m x c n : ofind m x = Some n -> length (oset m x c) = length m.
Proof.
  induction m as [|[z d] t IH]; cbn [ofind oset]; [discriminate|].
  destruct (x =? z); cbn [length]; [reflexivity|]. intros E. rewrite (IH E). reflexivity.
Qed.

Lemma length_oset_none m x c : ofind m x = None -> length (oset m x c) = S (length m).
Proof.
  induction m as [|[z d] t IH]; cbn [ofind oset]; [reflexivity|].
  destruct (x =? z); cbn [length]; [discriminate|]. intros E. rewrite (IH E). reflexivity.
Qed.

Lemma length_oremove_some m x n : ofind m x = Some n -> S (length (oremove m x)) = length m.
Proof.
  induction m as [|[z d] t IH]; cbn [ofind oremove]; [discriminate|].
  destruct (x =? z); cbn [length]; [reflexivity|]. intros E. rewrite (IH E). reflexivity.
Qed.

(* ====================================================================== *)
(** * Index consistency and the four kinds of add step *)

(* the invariant the Rust code maintains between obj2count and tree *)
Record wf (s : cmsheap) : Prop := {
  wf_keys : NoDup (okeys (ho2c s));
  wf_sorted : tsorted (htree s);
  wf_sync : forall c y, In (c, y) (htree s) <-> ofind (ho2c s) y = Some c
}.

Lemma wf_tree_keys_NoDup s : wf s -> NoDup (map snd (htree s)).
Proof.
  intros [_ Hs Hsync]. apply NoDup_map_inj_in; [|apply tsorted_NoDup; exact Hs].
  intros [c y] [c' y'] Ha Hb E. cbn [snd] in E. subst y'.
  apply Hsync in Ha. apply Hsync in Hb. congruence.
Qed.

Lemma wf_iter_keys s y : wf s -> (In y (map snd (htree s)) <-> In y (okeys (ho2c s))).
Proof.
  intros [_ _ Hsync]. rewrite ofind_In_keys, in_map_iff. split.
  - intros [[c z] [E Hin]]. cbn [snd] in E. subst z. exists c. apply Hsync. exact Hin.
  - intros [c Hc]. exists (c, y). split; [reflexivity|]. apply Hsync. exact Hc.
Qed.

Lemma wf_perm s : wf s -> Permutation (map snd (htree s)) (okeys (ho2c s)).
Proof.
  intros Hwf. apply NoDup_Permutation.
  - apply wf_tree_keys_NoDup. exact Hwf.
  - apply (wf_keys s Hwf).
  - intros y. apply wf_iter_keys. exact Hwf.
Qed.

Lemma wf_length s : wf s -> length (htree s) = length (ho2c s).
Proof.
  intros Hwf. pose proof (Permutation_length (wf_perm s Hwf)) as E.
  unfold okeys in E. rewrite !map_length in E. exact E.
Qed.

Lemma wf_tree_nonempty s : wf s -> ho2c s <> [] -> htree s <> [].
Proof.
  intros Hwf Hne Ht. pose proof (wf_length s Hwf) as E. rewrite Ht in E.
  destruct (ho2c s); [congruence|discriminate].
Qed.

Inductive stepk (s : cmsheap) (x count : N) (s' : cmsheap) : Prop :=
| SKinc n :
    ofind (ho2c s) x = Some n ->
    ho2c s' = oset (ho2c s) x (n + 1) ->
    htree s' = tinsert (n + 1, x) (tremove (n, x) (htree s)) -> stepk s x count s'
| SKnew :
    ofind (ho2c s) x = None -> lenN (ho2c s) < hk s ->
    ho2c s' = oset (ho2c s) x 1 ->
    htree s' = tinsert (1, x) (htree s) -> stepk s x count s'
| SKevict mn my r :
    ofind (ho2c s) x = None -> hk s <= lenN (ho2c s) ->
    htree s = (mn, my) :: r -> mn < count ->
    ho2c s' = oremove (oset (ho2c s) x count) my ->
    htree s' = tinsert (count, x) (tremove (mn, my) (htree s)) -> stepk s x count s'
| SKrej mn my r :
    ofind (ho2c s) x = None -> hk s <= lenN (ho2c s) ->
    htree s = (mn, my) :: r -> count <= mn ->
    ho2c s' = ho2c s -> htree s' = htree s -> stepk s x count s'.

Lemma heap_add_inv H s x s' :
  heap_add H s x = Some s' ->
  exists count c', cms_add_n H (hcms s) x 1 = Some (count, c') /\
                   hcms s' = c' /\ hk s' = hk s /\ stepk s x count s'.
Proof.
  unfold heap_add. destruct (cms_add_n H (hcms s) x 1) as [[count c']|]; [|discriminate].
  intros E. exists count, c'. split; [reflexivity|].
  destruct (ofind (ho2c s) x) as [n|] eqn:Ef.
  - inversion E; subst s'; clear E. cbn [hcms hk]. split; [reflexivity|]. split; [reflexivity|].
    apply (SKinc _ _ _ _ n); [exact Ef|reflexivity|reflexivity].
  - cbv zeta in E. destruct (N.ltb_spec (lenN (ho2c s)) (hk s)) as [Hlt|Hge].
    + inversion E; subst s'; clear E. cbn [hcms hk]. split; [reflexivity|]. split; [reflexivity|].
      apply SKnew; [exact Ef|exact Hlt|reflexivity|reflexivity].
    + destruct (htree s) as [|[mn my] r] eqn:Et; [discriminate|].
      destruct (N.ltb_spec mn count) as [Hlt|Hle].
      * inversion E; subst s'; clear E. cbn [hcms hk]. split; [reflexivity|]. split; [reflexivity|].
        apply (SKevict _ _ _ _ mn my r); try assumption; try reflexivity.
        cbn [htree]. rewrite Et. reflexivity.
      * inversion E; subst s'; clear E. cbn [hcms hk]. split; [reflexivity|]. split; [reflexivity|].
        apply (SKrej _ _ _ _ mn my r); try assumption; try reflexivity.
        cbn [htree]. rewrite Et. reflexivity.
Qed.

(* facts about the evicted minimum *)
Lemma evict_facts s x mn my r :
  wf s -> ofind (ho2c s) x = None -> htree s = (mn, my) :: r ->
  ofind (ho2c s) my = Some mn /\ x <> my.
Proof.
  intros Hwf Hx Ht.
  assert (Hm : ofind (ho2c s) my = Some mn).
  { apply (wf_sync s Hwf). rewrite Ht. left; reflexivity. }
  split; [exact Hm|]. intros ->. congruence.
Qed.

(* obj2count after each kind of step, read through [ofind] *)
Lemma step_ofind_inc s x n : forall y,
  ofind (oset (ho2c s) x (n + 1)) y = if y =? x then Some (n + 1) else ofind (ho2c s) y.
Proof. intros y. apply ofind_oset. Qed.

Lemma step_ofind_evict s x count my y :
  wf s ->
  ofind (oremove (oset (ho2c s) x count) my) y
  = if y =? my then None else if y =? x then Some count else ofind (ho2c s) y.
Proof.
  intros Hwf. rewrite ofind_oremove by (apply okeys_oset_NoDup; apply (wf_keys s Hwf)).
  rewrite ofind_oset. reflexivity.
Qed.

Lemma heap_add_wf H s x s' : wf s -> heap_add H s x = Some s' -> wf s'.
Proof.
  intros Hwf Ha. apply heap_add_inv in Ha. destruct Ha as (count & c' & _ & _ & _ & Hk).
  pose proof (wf_keys s Hwf) as Hkeys. pose proof (wf_sorted s Hwf) as Hsorted.
  pose proof (wf_sync s Hwf) as Hsync. pose proof (tsorted_NoDup _ Hsorted) as Hnd.
  destruct Hk as [n Hf Ho Ht | Hf Hlt Ho Ht | mn my r Hf Hge Htr Hlt Ho Ht | mn my r Hf Hge Htr Hle Ho Ht].
  - constructor.
    + rewrite Ho. apply okeys_oset_NoDup. exact Hkeys.
    + rewrite Ht. apply tinsert_sorted, tremove_sorted. exact Hsorted.
    + intros c y. rewrite Ht, Ho, In_tinsert, (In_tremove _ _ _ Hnd), ofind_oset, Hsync.
      destruct (N.eqb_spec y x) as [Hyx|Hyx].
      * subst y. split.
        -- intros [E|[E Hne]]; [congruence|]. rewrite Hf in E. exfalso. apply Hne. congruence.
        -- intros E. left. congruence.
      * split.
        -- intros [E|[E _]]; [congruence|exact E].
        -- intros E. right. split; [exact E|congruence].
  - constructor.
    + rewrite Ho. apply okeys_oset_NoDup. exact Hkeys.
    + rewrite Ht. apply tinsert_sorted. exact Hsorted.
    + intros c y. rewrite Ht, Ho, In_tinsert, ofind_oset, Hsync.
      destruct (N.eqb_spec y x) as [Hyx|Hyx].
      * subst y. split.
        -- intros [E|E]; [congruence|]. rewrite Hf in E. discriminate.
        -- intros E. left. congruence.
      * split.
        -- intros [E|E]; [congruence|exact E].
        -- intros E. right. exact E.
  - destruct (evict_facts s x mn my r Hwf Hf Htr) as [Hmy Hxmy].
    constructor.
    + rewrite Ho. apply okeys_oremove_NoDup, okeys_oset_NoDup. exact Hkeys.
    + rewrite Ht. apply tinsert_sorted, tremove_sorted. exact Hsorted.
    + intros c y. rewrite Ht, Ho, In_tinsert, (In_tremove _ _ _ Hnd), (step_ofind_evict _ _ _ _ _ Hwf), Hsync.
      destruct (N.eqb_spec y my) as [Hym|Hym].
      * subst y. split.
        -- intros [E|[E Hne]]; [congruence|]. rewrite Hmy in E. exfalso. apply Hne. congruence.
        -- discriminate.
      * destruct (N.eqb_spec y x) as [Hyx|Hyx].
        -- subst y. split.
           ++ intros [E|[E _]]; [congruence|]. rewrite Hf in E. discriminate.
           ++ intros E. left. congruence.
        -- split.
           ++ intros [E|[E _]]; [congruence|exact E].
           ++ intros E. right. split; [exact E|congruence].
  - constructor.
    + rewrite Ho. exact Hkeys.
    + rewrite Ht. exact Hsorted.
    + intros c y. rewrite Ht, Ho. apply Hsync.
Qed.

(* ====================================================================== *)
(** * Streams, true counts, and the sketch of a plain stream *)

(* true count of y in the stream (standard library [count_occ]) *)
Definition tcount (y : N) (xs : list N) : N := N.of_nat (count_occ N.eq_dec xs y).

Lemma tcount_nil y : tcount y [] = 0.
Proof. reflexivity. Qed.

Lemma tcount_snoc y xs x : tcount y (xs ++ [x]) = tcount y xs + (if y =? x then 1 else 0).
Proof.
  unfold tcount. rewrite count_occ_app. cbn [count_occ].
  destruct (N.eq_dec x y) as [->|Hne].
  - rewrite N.eqb_refl. lia.
  - destruct (N.eqb_spec y x); [congruence|lia].
Qed.

Lemma tcount_pos y xs : In y xs <-> 1 <= tcount y xs.
Proof. unfold tcount. rewrite (count_occ_In N.eq_dec). lia. Qed.

Lemma tcount_notin y xs : ~ In y xs -> tcount y xs = 0.
Proof. unfold tcount. intros Hn. apply (count_occ_not_In N.eq_dec) in Hn. lia. Qed.

(* the history (in the sense of CmsProofs.v) of the sketch inside the heap: one add_n(x, 1)
   per stream element *)
Definition hist (w d mx : N) (xs : list N) : chist :=
  fold_left (fun h x => CAdd h x 1) xs (CNew w d mx).

Lemma hist_snoc w d mx xs x : hist w d mx (xs ++ [x]) = CAdd (hist w d mx xs) x 1.
Proof. unfold hist. rewrite fold_left_app. reflexivity. Qed.

Lemma hist_cfgw w d mx xs : cfgw (hist w d mx xs) = (w, d).
Proof.
  induction xs as [|x xs IH] using rev_ind; [reflexivity|].
  rewrite hist_snoc. cbn [cfgw]. exact IH.
Qed.

Lemma hist_truew w d mx xs y : truew (hist w d mx xs) y = tcount y xs.
Proof.
  induction xs as [|x xs IH] using rev_ind; [reflexivity|].
  rewrite hist_snoc, tcount_snoc. cbn [truew]. rewrite IH. reflexivity.
Qed.

Lemma hist_totalw w d mx xs : totalw (hist w d mx xs) = N.of_nat (length xs).
Proof.
  induction xs as [|x xs IH] using rev_ind; [reflexivity|].
  rewrite hist_snoc, app_length. cbn [totalw length]. rewrite IH. lia.
Qed.

Lemma hist_cmax H w d mx xs t : crun H (hist w d mx xs) = Some t -> cmax t = mx.
Proof.
  revert t. induction xs as [|x xs IH] using rev_ind; intros t Hr.
  - cbn in Hr. inversion Hr. reflexivity.
  - rewrite hist_snoc in Hr. cbn [crun] in Hr.
    destruct (crun H (hist w d mx xs)) as [t0|]; [|discriminate].
    destruct (cms_add_n H t0 x 1) as [[r t1]|] eqn:Ea; [|discriminate].
    inversion Hr; subst t1. apply cms_add_n_inv in Ea.
    destruct Ea as (_ & res & tbl' & _ & _ & ->). cbn [cmax]. apply IH. reflexivity.
Qed.

(* a prefix of a successful run is a successful run *)
Lemma hist_prefix_runs H w d mx p r t :
  crun H (hist w d mx (p ++ r)) = Some t -> exists t0, crun H (hist w d mx p) = Some t0.
Proof.
  revert t. induction r as [|z r IH] using rev_ind; intros t Hr.
  - rewrite app_nil_r in Hr. eauto.
  - rewrite app_assoc, hist_snoc in Hr. cbn [crun] in Hr.
    destruct (crun H (hist w d mx (p ++ r))) as [t0|]; [|discriminate].
    apply (IH t0). reflexivity.
Qed.

(* ---------- add_n does not panic while the counters cannot overflow ---------- *)
Lemma add_rows_total H s x n rows : forall tbl res,
  NoDup (map (cell H s x) rows) ->
  (forall i, In i rows -> exists v, getN tbl (cell H s x i) = Some v /\ v + n <= cmax s) ->
  (res + n <= cmax s \/ exists r, rows = 0 :: r) ->
  exists res' tbl', add_rows H s x n rows tbl res = Some (res', tbl') /\ res' + n <= cmax s.
Proof.
  induction rows as [|i r IH]; intros tbl res Hnd Hcells Hres; cbn [add_rows].
  - exists res, tbl. split; [reflexivity|]. destruct Hres as [Hres|[r Hr]]; [exact Hres|discriminate].
  - destruct (Hcells i (or_introl eq_refl)) as (cur & Hg & Hcur). rewrite Hg.
    unfold checked_add. destruct (N.leb_spec (cur + n) (cmax s)) as [_|Hbad]; [|lia].
    cbn [map] in Hnd. inversion Hnd as [|a l Hnin Hnd']; subst.
    apply IH.
    + exact Hnd'.
    + intros j Hj. destruct (Hcells j (or_intror Hj)) as (v & Hv & Hvle).
      exists v. split; [|exact Hvle]. rewrite <- Hv. unfold getN.
      apply nth_error_upd_other. intros Heq. apply N2Nat.inj in Heq.
      apply Hnin. rewrite Heq. apply in_map. exact Hj.
    + left. destruct (N.eqb_spec i 0) as [Hi0|Hi0]; [exact Hcur|].
      destruct Hres as [Hres|[r' Hr']]; [lia|]. inversion Hr'. congruence.
Qed.

Lemma cms_add_n_total H h t x n w d :
  cfgw h = (w, d) -> crun H h = Some t -> 1 <= w -> 1 <= d ->
  totalw h + n <= cmax t ->
  exists r t', cms_add_n H t x n = Some (r, t').
Proof.
  intros Hc Hr Hw1 Hd1 Hmx. destruct (cms_table_spec H h t w d Hc Hr) as (Ht & Hw & Hd).
  unfold cms_add_n. destruct (N.eqb_spec (cw t) 0) as [|_]; [lia|].
  destruct (add_rows_total H t x n (Nseq 0 (N.to_nat (cd t))) (ctbl t) 0) as (res' & tbl' & Ea & Hres).
  - apply NoDup_map_inj_in.
    + intros a b _ _ E. apply (cell_row H t x a b); [lia|exact E].
    + apply Nseq_NoDup.
  - intros i Hi. rewrite Nseq_In in Hi.
    assert (Hk : (cellk H w x i < N.to_nat (w * d))%nat) by (apply cellk_lt; lia).
    exists (nth (cellk H w x i) (ctbl t) 0). split.
    + unfold cell. rewrite Hw. apply getN_in_range. rewrite Ht, tbl_of_length. exact Hk.
    + rewrite Ht, tbl_of_nth by exact Hk.
      pose proof (cellsum_upper H w d (cstream h) (cellk H w x i) Hw1) as Hup.
      rewrite <- totalw_stream in Hup. lia.
  - right. destruct (N.to_nat (cd t)) as [|m] eqn:Em; [lia|]. cbn [Nseq]. eauto.
  - rewrite Ea. unfold checked_add. destruct (N.leb_spec (res' + n) (cmax t)) as [_|Hbad]; [|lia].
    eauto.
Qed.

(* ---------- the overestimate of a key never shrinks along a stream ---------- *)
Lemma minfold_attained l : forall acc q,
  minfold l acc = Some q -> In q l \/ acc = Some q.
Proof.
  induction l as [|v l IH]; intros acc q E.
  - right. exact E.
  - rewrite minfold_cons in E. destruct (IH _ _ E) as [Hin|Hacc].
    + left. right. exact Hin.
    + inversion Hacc as [Hq]. destruct acc as [a|]; cbn [omin] in *.
      * destruct (N.min_spec a v) as [[_ Hm]|[_ Hm]]; rewrite Hm.
        -- right. reflexivity.
        -- left. left. reflexivity.
      * left. left. reflexivity.
Qed.

Lemma minfold_le l : forall acc q,
  minfold l acc = Some q ->
  (forall v, In v l -> q <= v) /\ (forall a, acc = Some a -> q <= a).
Proof.
  induction l as [|v l IH]; intros acc q E.
  - split; [intros v []|]. intros a Ha. rewrite Ha in E. inversion E. lia.
  - rewrite minfold_cons in E. destruct (IH _ _ E) as [Hl Hacc].
    specialize (Hacc _ eq_refl). split.
    + intros u [<-|Hu]; [|apply Hl; exact Hu].
      destruct acc as [a|]; cbn [omin] in Hacc; lia.
    + intros a ->. cbn [omin] in Hacc. lia.
Qed.

Lemma cms_excess_step H h t t' z n r y q q' w d :
  cfgw h = (w, d) -> crun H h = Some t -> 1 <= w -> 1 <= d ->
  cms_add_n H t z n = Some (r, t') ->
  cms_query H t y = Some q -> cms_query H t' y = Some q' ->
  q + truew (CAdd h z n) y <= q' + truew h y.
Proof.
  intros Hc Hr Hw1 Hd1 Ea Hq Hq'.
  assert (Hr' : crun H (CAdd h z n) = Some t') by (cbn [crun]; rewrite Hr, Ea; reflexivity).
  rewrite (cms_query_minfold H h t y w d Hc Hr Hw1 Hd1) in Hq.
  rewrite (cms_query_minfold H (CAdd h z n) t' y w d Hc Hr' Hw1 Hd1) in Hq'.
  destruct (minfold_attained _ _ _ Hq') as [Hin|Hbad]; [|discriminate].
  apply in_map_iff in Hin. destruct Hin as (k0 & Hk0 & Hin).
  assert (Hle : q <= cellsum H w d (cstream h) k0).
  { apply (proj1 (minfold_le _ _ _ Hq)). apply in_map. exact Hin. }
  apply in_cells_inv in Hin. destruct Hin as (i & Hi & ->).
  cbn [cstream] in Hk0. rewrite cellsum_app in Hk0. cbn [cellsum fst snd] in Hk0.
  cbn [truew]. destruct (N.eqb_spec y z) as [Hyz|Hyz].
  - subst z. rewrite hits_own in Hk0 by assumption. lia.
  - lia.
Qed.

Section Excess.
Variable H : hashfn.
Variables w d mx : N.
Hypothesis Hw1 : 1 <= w.
Hypothesis Hd1 : 1 <= d.

(* the sketch estimate of y after the stream p (None if the run panicked) *)
Definition est (p : list N) (y : N) : option N :=
  match crun H (hist w d mx p) with Some t => cms_query H t y | None => None end.

Lemma est_total p t y : crun H (hist w d mx p) = Some t -> exists q, est p y = Some q.
Proof.
  intros Hr. unfold est. rewrite Hr.
  apply (cms_query_total H _ t y w d (hist_cfgw w d mx p) Hr Hw1 Hd1).
Qed.

Lemma est_lower p y q : est p y = Some q -> tcount y p <= q.
Proof.
  unfold est. destruct (crun H (hist w d mx p)) as [t|] eqn:Hr; [|discriminate].
  intros Hq. rewrite <- (hist_truew w d mx).
  apply (cms_lower H _ t y q w d (hist_cfgw w d mx p) Hr Hw1 Hd1 Hq).
Qed.

Lemma est_upper p y q : est p y = Some q -> q <= N.of_nat (length p).
Proof.
  unfold est. destruct (crun H (hist w d mx p)) as [t|] eqn:Hr; [|discriminate].
  intros Hq. rewrite <- (hist_totalw w d mx).
  apply (cms_upper H _ t y q w d (hist_cfgw w d mx p) Hr Hw1 Hd1 Hq).
Qed.

(* overestimate(y) = est - tcount is monotone along the stream (stated without subtraction) *)
Lemma est_excess_mono r : forall p y q q',
  est p y = Some q -> est (p ++ r) y = Some q' ->
  q + tcount y (p ++ r) <= q' + tcount y p.
Proof.
  induction r as [|z r IH] using rev_ind; intros p y q q' Hq Hq'.
  - rewrite app_nil_r in *. rewrite Hq in Hq'. inversion Hq'. lia.
  - rewrite app_assoc in *. unfold est in Hq'. rewrite hist_snoc in Hq'. cbn [crun] in Hq'.
    destruct (crun H (hist w d mx (p ++ r))) as [t0|] eqn:Hr0; [|discriminate].
    destruct (cms_add_n H t0 z 1) as [[c t1]|] eqn:Ea; [|discriminate].
    destruct (est_total (p ++ r) t0 y Hr0) as (q0 & Hq0).
    specialize (IH p y q q0 Hq Hq0).
    unfold est in Hq0. rewrite Hr0 in Hq0.
    pose proof (cms_excess_step H _ t0 t1 z 1 c y q0 q' w d
                  (hist_cfgw w d mx (p ++ r)) Hr0 Hw1 Hd1 Ea Hq0 Hq') as Hstep.
    rewrite <- hist_snoc, !hist_truew in Hstep. lia.
Qed.
End Excess.

(* ====================================================================== *)
(** * Runs of the heap over a stream *)

Fixpoint heap_adds (H : hashfn) (s : cmsheap) (xs : list N) : option cmsheap :=
  match xs with
  | [] => Some s
  | x :: r => match heap_add H s x with Some s' => heap_adds H s' r | None => None end
  end.

(* CMSHeap::new(k, CountMinSketch::with_params(w, d)) followed by add(x) for each x of xs *)
Definition heap_run (H : hashfn) (k w d mx : N) (xs : list N) : option cmsheap :=
  match heap_new k (cms_new w d mx) with
  | Some s => heap_adds H s xs
  | None => None
  end.

Lemma heap_adds_snoc H xs : forall s x,
  heap_adds H s (xs ++ [x]) =
  match heap_adds H s xs with Some s' => heap_add H s' x | None => None end.
Proof.
  induction xs as [|a xs IH]; intros s x; cbn [app heap_adds].
  - destruct (heap_add H s x); reflexivity.
  - destruct (heap_add H s a) as [s1|]; [apply IH|reflexivity].
Qed.

Lemma heap_run_snoc H k w d mx xs x :
  heap_run H k w d mx (xs ++ [x]) =
  match heap_run H k w d mx xs with Some s' => heap_add H s' x | None => None end.
Proof.
  unfold heap_run. destruct (heap_new k (cms_new w d mx)); [apply heap_adds_snoc|reflexivity].
Qed.

Section Run.
Variable H : hashfn.
Variables k w d mx : N.
Hypothesis Hk1 : 1 <= k.
Hypothesis Hw1 : 1 <= w.
Hypothesis Hd1 : 1 <= d.

(* head of the tree = entry with the minimum stored count *)
Definition tree_min (s : cmsheap) (mn : N) : Prop := exists my r, htree s = (mn, my) :: r.

(* the stream invariant *)
Record hinv (xs : list N) (s : cmsheap) : Prop := {
  hi_k : hk s = k;
  hi_cms : crun H (hist w d mx xs) = Some (hcms s);
  hi_wf : wf s;
  hi_size : lenN (ho2c s) <= k;
  hi_all : lenN (ho2c s) < k -> forall y, In y xs -> ofind (ho2c s) y <> None;
  hi_seen : forall y c, ofind (ho2c s) y = Some c -> In y xs;
  hi_lo : forall y c, ofind (ho2c s) y = Some c -> tcount y xs <= c;
  hi_out : forall y, In y xs -> ofind (ho2c s) y = None ->
           exists mn, tree_min s mn /\ tcount y xs <= mn
}.

Lemma hinv_init s : heap_new k (cms_new w d mx) = Some s -> hinv [] s.
Proof.
  unfold heap_new. destruct (N.ltb_spec 0 k) as [_|Hbad]; [|lia]. intros E. inversion E; subst s.
  constructor; cbn [hk hcms ho2c htree ofind lenN length].
  - reflexivity.
  - reflexivity.
  - constructor; cbn [ho2c htree okeys map ofind].
    + constructor.
    + constructor.
    + intros c y. cbn [In]. split; [tauto|discriminate].
  - unfold lenN. cbn [length N.of_nat]. lia.
  - intros _ y [].
  - discriminate.
  - discriminate.
  - intros y [].
Qed.

(* facts about the sketch step *)
Lemma sketch_step xs t x count c' :
  crun H (hist w d mx xs) = Some t -> cms_add_n H t x 1 = Some (count, c') ->
  crun H (hist w d mx (xs ++ [x])) = Some c' /\
  est H w d mx (xs ++ [x]) x = Some count /\
  tcount x xs + 1 <= count.
Proof.
  intros Hr Ea.
  assert (Hr' : crun H (hist w d mx (xs ++ [x])) = Some c').
  { rewrite hist_snoc. cbn [crun]. rewrite Hr, Ea. reflexivity. }
  assert (Hq : cms_query H c' x = Some count).
  { apply (cms_add_returns_query H _ t c' x 1 count w d (hist_cfgw w d mx xs) Hr Hw1 Hd1 Ea). }
  assert (He : est H w d mx (xs ++ [x]) x = Some count) by (unfold est; rewrite Hr'; exact Hq).
  split; [exact Hr'|]. split; [exact He|].
  pose proof (est_lower H w d mx Hw1 Hd1 _ _ _ He) as Hlo.
  rewrite tcount_snoc, N.eqb_refl in Hlo. exact Hlo.
Qed.

Lemma hinv_step xs s x s' : hinv xs s -> heap_add H s x = Some s' -> hinv (xs ++ [x]) s'.
Proof.
  intros Hi Ha. pose proof (heap_add_wf H s x s' (hi_wf _ _ Hi) Ha) as Hwf'.
  apply heap_add_inv in Ha. destruct Ha as (count & c' & Ea & Hc' & Hk' & Hstep).
  destruct Hi as [Hik Hicms Hwf Hsize Hall Hseen Hlo Hout].
  destruct (sketch_step xs _ x count c' Hicms Ea) as (Hr' & _ & Hcount).
  assert (Htc : forall y, tcount y (xs ++ [x]) = tcount y xs + (if y =? x then 1 else 0))
    by (intros y; apply tcount_snoc).
  assert (Hinx : forall y, In y (xs ++ [x]) <-> In y xs \/ y = x).
  { intros y. rewrite in_app_iff. cbn [In]. intuition. }
  destruct Hstep as [n Hf Ho Ht | Hf Hlt Ho Ht | mn my r Hf Hge Htr Hlt Ho Ht | mn my r Hf Hge Htr Hle Ho Ht].
  - (* tracked: increment *)
    assert (Hfind : forall y, ofind (ho2c s') y = if y =? x then Some (n + 1) else ofind (ho2c s) y)
      by (intros y; rewrite Ho; apply ofind_oset).
    assert (Hlen : lenN (ho2c s') = lenN (ho2c s))
      by (unfold lenN; rewrite Ho, (length_oset_some _ _ _ _ Hf); reflexivity).
    constructor.
    + congruence.
    + rewrite Hc'. exact Hr'.
    + exact Hwf'.
    + rewrite Hlen. exact Hsize.
    + rewrite Hlen. intros Hl y Hy. rewrite Hfind. destruct (N.eqb_spec y x) as [|Hyx]; [discriminate|].
      apply (Hall Hl). apply Hinx in Hy. tauto.
    + intros y c. rewrite Hfind, Hinx. destruct (N.eqb_spec y x) as [|Hyx]; [auto|].
      intros E. left. apply (Hseen y c E).
    + intros y c. rewrite Hfind, Htc. destruct (N.eqb_spec y x) as [Hyx|Hyx].
      * subst y. intros E. inversion E. pose proof (Hlo x n Hf). lia.
      * intros E. pose proof (Hlo y c E). lia.
    + intros y Hy. rewrite Hfind, Htc. destruct (N.eqb_spec y x) as [Hyx|Hyx]; [discriminate|].
      intros E. apply Hinx in Hy. destruct Hy as [Hy|Hy]; [|contradiction].
      destruct (Hout y Hy E) as (mn & (my & r & Htr) & Hle).
      assert (Hn : mn <= n).
      { apply (tsorted_head_min mn my r (n, x)).
        - rewrite <- Htr. apply (wf_sorted s Hwf).
        - rewrite <- Htr. apply (wf_sync s Hwf). exact Hf. }
      destruct (tree_min_mono (htree s) mn my r (n, x) (n + 1, x) (wf_sorted s Hwf) Htr)
        as (mn' & my' & r' & Et & Hmn); [cbn [fst]; lia|].
      exists mn'. split; [exists my', r'; rewrite Ht; exact Et|lia].
  - (* untracked, room left: insert with count 1 *)
    assert (Hfind : forall y, ofind (ho2c s') y = if y =? x then Some 1 else ofind (ho2c s) y)
      by (intros y; rewrite Ho; apply ofind_oset).
    assert (Hlen : lenN (ho2c s') = lenN (ho2c s) + 1)
      by (unfold lenN; rewrite Ho, (length_oset_none _ _ _ Hf); lia).
    assert (Hallk : forall y, In y xs -> ofind (ho2c s) y <> None) by (apply Hall; lia).
    assert (Hxnew : tcount x xs = 0).
    { apply tcount_notin. intros Hin. exact (Hallk x Hin Hf). }
    constructor.
    + congruence.
    + rewrite Hc'. exact Hr'.
    + exact Hwf'.
    + rewrite Hlen. lia.
    + intros _ y Hy. rewrite Hfind. destruct (N.eqb_spec y x) as [|Hyx]; [discriminate|].
      apply Hallk. apply Hinx in Hy. tauto.
    + intros y c. rewrite Hfind, Hinx. destruct (N.eqb_spec y x) as [|Hyx]; [auto|].
      intros E. left. apply (Hseen y c E).
    + intros y c. rewrite Hfind, Htc. destruct (N.eqb_spec y x) as [Hyx|Hyx].
      * subst y. intros E. inversion E. lia.
      * intros E. pose proof (Hlo y c E). lia.
    + intros y Hy. rewrite Hfind. destruct (N.eqb_spec y x) as [Hyx|Hyx]; [discriminate|].
      intros E. exfalso. apply Hinx in Hy. destruct Hy as [Hy|Hy]; [|contradiction].
      exact (Hallk y Hy E).
  - (* untracked, full, estimate above the minimum: evict the minimum *)
    destruct (evict_facts s x mn my r Hwf Hf Htr) as [Hmy Hxmy].
    assert (Hfind : forall y, ofind (ho2c s') y =
              if y =? my then None else if y =? x then Some count else ofind (ho2c s) y)
      by (intros y; rewrite Ho; apply step_ofind_evict; exact Hwf).
    assert (Hlen : lenN (ho2c s') = lenN (ho2c s)).
    { unfold lenN. f_equal. rewrite Ho.
      assert (Hm2 : ofind (oset (ho2c s) x count) my = Some mn).
      { rewrite ofind_oset. destruct (N.eqb_spec my x); [congruence|exact Hmy]. }
      pose proof (length_oremove_some _ _ _ Hm2) as E1.
      rewrite (length_oset_none _ _ _ Hf) in E1. lia. }
    destruct (tree_min_mono (htree s) mn my r (mn, my) (count, x) (wf_sorted s Hwf) Htr)
      as (mn' & my' & r' & Et & Hmn); [cbn [fst]; lia|].
    assert (Hmin' : tree_min s' mn') by (exists my', r'; rewrite Ht; exact Et).
    constructor.
    + congruence.
    + rewrite Hc'. exact Hr'.
    + exact Hwf'.
    + rewrite Hlen. exact Hsize.
    + rewrite Hlen. intros Hl. lia.
    + intros y c. rewrite Hfind, Hinx. destruct (N.eqb_spec y my) as [|Hym]; [discriminate|].
      destruct (N.eqb_spec y x) as [|Hyx]; [auto|]. intros E. left. apply (Hseen y c E).
    + intros y c. rewrite Hfind, Htc. destruct (N.eqb_spec y my) as [|Hym]; [discriminate|].
      destruct (N.eqb_spec y x) as [Hyx|Hyx].
      * subst y. intros E. inversion E. lia.
      * intros E. pose proof (Hlo y c E). lia.
    + intros y Hy. rewrite Hfind, Htc. destruct (N.eqb_spec y my) as [Hym|Hym].
      * subst y. intros _. exists mn'. split; [exact Hmin'|].
        pose proof (Hlo my mn Hmy). destruct (N.eqb_spec my x); [congruence|lia].
      * destruct (N.eqb_spec y x) as [Hyx|Hyx]; [discriminate|]. intros E.
        apply Hinx in Hy. destruct Hy as [Hy|Hy]; [|contradiction].
        destruct (Hout y Hy E) as (mn0 & (my0 & r0 & Htr0) & Hle0).
        rewrite Htr in Htr0. inversion Htr0; subst mn0 my0 r0.
        exists mn'. split; [exact Hmin'|lia].
  - (* untracked, full, estimate not above the minimum: rejected *)
    constructor.
    + congruence.
    + rewrite Hc'. exact Hr'.
    + exact Hwf'.
    + rewrite Ho. exact Hsize.
    + rewrite Ho. intros Hl. lia.
    + intros y c. rewrite Ho, Hinx. intros E. left. apply (Hseen y c E).
    + intros y c. rewrite Ho, Htc. intros E. pose proof (Hlo y c E).
      destruct (N.eqb_spec y x) as [Hyx|Hyx]; [|lia]. subst y. congruence.
    + intros y Hy. rewrite Ho, Htc. intros E. destruct (N.eqb_spec y x) as [Hyx|Hyx].
      * subst y. exists mn. split; [exists my, r; rewrite Ht; exact Htr|lia].
      * apply Hinx in Hy. destruct Hy as [Hy|Hy]; [|contradiction].
        destruct (Hout y Hy E) as (mn0 & (my0 & r0 & Htr0) & Hle0).
        exists mn0. split; [exists my0, r0; rewrite Ht; exact Htr0|lia].
Qed.

Lemma run_inv xs : forall s, heap_run H k w d mx xs = Some s -> hinv xs s.
Proof.
  induction xs as [|x xs IH] using rev_ind; intros s Hr.
  - unfold heap_run in Hr. destruct (heap_new k (cms_new w d mx)) as [s0|] eqn:E0; [|discriminate].
    cbn [heap_adds] in Hr. inversion Hr; subst s0. apply hinv_init. exact E0.
  - rewrite heap_run_snoc in Hr. destruct (heap_run H k w d mx xs) as [s0|]; [|discriminate].
    apply (hinv_step xs s0 x s (IH s0 eq_refl) Hr).
Qed.

(* ---------- add never panics ---------- *)
Lemma hinv_add_total xs s x :
  hinv xs s -> N.of_nat (length (xs ++ [x])) <= mx -> exists s', heap_add H s x = Some s'.
Proof.
  intros Hi Hlen. rewrite app_length in Hlen. cbn [length] in Hlen.
  pose proof (hi_cms _ _ Hi) as Hr. pose proof (hi_wf _ _ Hi) as Hwf.
  destruct (cms_add_n_total H _ (hcms s) x 1 w d (hist_cfgw w d mx xs) Hr Hw1 Hd1) as (count & c' & Ea).
  { rewrite hist_totalw, (hist_cmax H w d mx xs _ Hr). lia. }
  unfold heap_add. rewrite Ea. destruct (ofind (ho2c s) x) as [n|]; [eauto|]. cbv zeta.
  destruct (N.ltb_spec (lenN (ho2c s)) (hk s)) as [Hlt|Hge]; [eauto|].
  destruct (htree s) as [|[mn my] r] eqn:Et.
  - exfalso. apply (wf_tree_nonempty s Hwf); [|exact Et].
    intros E. rewrite E in Hge. rewrite (hi_k _ _ Hi) in Hge. cbn in Hge. lia.
  - destruct (mn <? count); eauto.
Qed.
End Run.

(* ====================================================================== *)
(** * The largest overestimate E of the sketch on a stream *)

(* computable: max over the stream elements of (final estimate - true count) *)
Definition overest (H : hashfn) (c : cms) (xs : list N) : N :=
  fold_right N.max 0
    (map (fun y => match cms_query H c y with Some q => q - tcount y xs | None => 0 end) xs).

Lemma fold_max_ge (f : N -> N) l y : In y l -> f y <= fold_right N.max 0 (map f l).
Proof.
  induction l as [|z l IH]; intros Hin; [destruct Hin|]. cbn [map fold_right].
  destruct Hin as [->|Hin]; [lia|]. specialize (IH Hin). lia.
Qed.

Lemma overest_spec H c xs y q :
  In y xs -> cms_query H c y = Some q -> q <= tcount y xs + overest H c xs.
Proof.
  intros Hin Hq. unfold overest.
  pose proof (fold_max_ge
    (fun y => match cms_query H c y with Some q => q - tcount y xs | None => 0 end) xs y Hin) as Hm.
  cbv beta in Hm. rewrite Hq in Hm. lia.
Qed.

Section Main.
Variable H : hashfn.
Variables k w d mx : N.
Hypothesis Hk1 : 1 <= k.
Hypothesis Hw1 : 1 <= w.
Hypothesis Hd1 : 1 <= d.

Local Notation run := (heap_run H k w d mx).

(* [E] bounds the overestimate at every prefix of the stream *)
Definition EB (E : N) (xs : list N) : Prop :=
  forall p r y q, xs = p ++ r -> In y p -> est H w d mx p y = Some q -> q <= tcount y p + E.

(* [E] bounds the overestimate of the final sketch on the elements of the stream *)
Definition Efinal (E : N) (xs : list N) (s : cmsheap) : Prop :=
  forall y q, In y xs -> cms_query H (hcms s) y = Some q -> q <= tcount y xs + E.

Lemma EB_prefix E xs x : EB E (xs ++ [x]) -> EB E xs.
Proof.
  intros HE p r y q -> Hy Hq. apply (HE p (r ++ [x]) y q); [|exact Hy|exact Hq].
  rewrite app_assoc. reflexivity.
Qed.

(* monotonicity of the overestimate: the final bound implies the bound at every prefix *)
Lemma EB_final E xs s : run xs = Some s -> Efinal E xs s -> EB E xs.
Proof.
  intros Hr HE p r y q -> Hy Hq.
  pose proof (hi_cms H k w d mx _ _ (run_inv H k w d mx Hk1 Hw1 Hd1 _ _ Hr)) as Hc.
  destruct (est_total H w d mx Hw1 Hd1 (p ++ r) _ y Hc) as (q' & Hq').
  pose proof (est_excess_mono H w d mx Hw1 Hd1 r p y q q' Hq Hq') as Hm.
  assert (Hfin : q' <= tcount y (p ++ r) + E).
  { apply HE; [apply in_app_iff; left; exact Hy|]. unfold est in Hq'. rewrite Hc in Hq'. exact Hq'. }
  lia.
Qed.

Lemma overest_Efinal xs s : Efinal (overest H (hcms s) xs) xs s.
Proof. intros y q Hy Hq. apply overest_spec; assumption. Qed.

Lemma run_hi E xs : forall s,
  EB E xs -> run xs = Some s ->
  forall y c, ofind (ho2c s) y = Some c -> c <= tcount y xs + E.
Proof.
  induction xs as [|x xs IH] using rev_ind; intros s HE Hr y c Hf.
  - apply (run_inv H k w d mx Hk1 Hw1 Hd1) in Hr. apply (hi_seen _ _ _ _ _ _ _ Hr) in Hf. destruct Hf.
  - rewrite heap_run_snoc in Hr. destruct (run xs) as [s0|] eqn:Hr0; [|discriminate].
    pose proof (run_inv H k w d mx Hk1 Hw1 Hd1 _ _ Hr0) as Hi0.
    specialize (IH s0 (EB_prefix _ _ _ HE) eq_refl).
    apply heap_add_inv in Hr. destruct Hr as (count & c' & Ea & _ & _ & Hstep).
    destruct (sketch_step H w d mx Hw1 Hd1 xs _ x count c' (hi_cms _ _ _ _ _ _ _ Hi0) Ea) as (_ & Hest & _).
    rewrite tcount_snoc.
    destruct Hstep as [n Hfx Ho Ht | Hfx Hlt Ho Ht | mn my r Hfx Hge Htr Hlt Ho Ht | mn my r Hfx Hge Htr Hle Ho Ht].
    + rewrite Ho, ofind_oset in Hf. destruct (N.eqb_spec y x) as [Hyx|Hyx].
      * subst y. inversion Hf. pose proof (IH x n Hfx). lia.
      * pose proof (IH y c Hf). lia.
    + rewrite Ho, ofind_oset in Hf. destruct (N.eqb_spec y x) as [Hyx|Hyx].
      * inversion Hf. lia.
      * pose proof (IH y c Hf). lia.
    + rewrite Ho, (step_ofind_evict _ _ _ _ _ (hi_wf _ _ _ _ _ _ _ Hi0)) in Hf.
      destruct (N.eqb_spec y my) as [|Hym]; [discriminate|].
      destruct (N.eqb_spec y x) as [Hyx|Hyx].
      * subst y. inversion Hf; subst c.
        pose proof (HE (xs ++ [x]) [] x count (eq_sym (app_nil_r _))
                       ltac:(apply in_app_iff; right; left; reflexivity) Hest) as Hb.
        rewrite tcount_snoc, N.eqb_refl in Hb. exact Hb.
      * pose proof (IH y c Hf). lia.
    + rewrite Ho in Hf. pose proof (IH y c Hf). lia.
Qed.

(* ---------------------------------------------------------------------- *)
(** ** 1. add never panics (while the counters cannot overflow) *)

Theorem heap_run_total xs : N.of_nat (length xs) <= mx -> exists s, run xs = Some s.
Proof.
  induction xs as [|x xs IH] using rev_ind; intros Hlen.
  - unfold heap_run, heap_new. destruct (N.ltb_spec 0 k) as [_|Hbad]; [|lia]. cbn [heap_adds]. eauto.
  - destruct IH as (s & Hr). { rewrite app_length in Hlen. lia. }
    rewrite heap_run_snoc, Hr.
    apply (hinv_add_total H k w d mx Hk1 Hw1 Hd1 xs s x); [|exact Hlen].
    apply (run_inv H k w d mx Hk1 Hw1 Hd1). exact Hr.
Qed.

Theorem heap_add_total xs s x :
  run xs = Some s -> N.of_nat (length xs) + 1 <= mx -> exists s', heap_add H s x = Some s'.
Proof.
  intros Hr Hlen. apply (hinv_add_total H k w d mx Hk1 Hw1 Hd1 xs s x).
  - apply (run_inv H k w d mx Hk1 Hw1 Hd1). exact Hr.
  - rewrite app_length. cbn [length]. lia.
Qed.

(* ---------------------------------------------------------------------- *)
(** ** 2. the two indexes stay in sync *)

Theorem heap_index_consistent xs s :
  run xs = Some s ->
  NoDup (map fst (ho2c s)) /\
  StronglySorted (fun a b => entry_lt a b = true) (htree s) /\
  (forall c y, In (c, y) (htree s) <-> ofind (ho2c s) y = Some c) /\
  length (htree s) = length (ho2c s) /\
  hk s = k /\ lenN (ho2c s) <= k.
Proof.
  intros Hr. pose proof (run_inv H k w d mx Hk1 Hw1 Hd1 _ _ Hr) as Hi.
  pose proof (hi_wf _ _ _ _ _ _ _ Hi) as Hwf.
  split; [apply (wf_keys s Hwf)|]. split; [apply (wf_sorted s Hwf)|].
  split; [apply (wf_sync s Hwf)|]. split; [apply (wf_length s Hwf)|].
  split; [apply (hi_k _ _ _ _ _ _ _ Hi)|apply (hi_size _ _ _ _ _ _ _ Hi)].
Qed.

Lemma iter_tracked s y : wf s -> (In y (heap_iter s) <-> exists c, ofind (ho2c s) y = Some c).
Proof. intros Hwf. unfold heap_iter. rewrite (wf_iter_keys s y Hwf). apply ofind_In_keys. Qed.

Lemma iter_untracked s y : wf s -> (~ In y (heap_iter s) <-> ofind (ho2c s) y = None).
Proof.
  intros Hwf. rewrite (iter_tracked s y Hwf). destruct (ofind (ho2c s) y) as [c|]; split; intros E.
  - exfalso. apply E. eauto.
  - discriminate.
  - reflexivity.
  - intros [c Hc]. discriminate.
Qed.

(* ---------------------------------------------------------------------- *)
(** ** 3. iter() yields min(k, #distinct) distinct elements, all of them seen *)

Theorem heap_iter_NoDup xs s : run xs = Some s -> NoDup (heap_iter s).
Proof.
  intros Hr. apply wf_tree_keys_NoDup.
  apply (hi_wf _ _ _ _ _ _ _ (run_inv H k w d mx Hk1 Hw1 Hd1 _ _ Hr)).
Qed.

Theorem heap_iter_incl xs s : run xs = Some s -> incl (heap_iter s) xs.
Proof.
  intros Hr y Hy. pose proof (run_inv H k w d mx Hk1 Hw1 Hd1 _ _ Hr) as Hi.
  apply (iter_tracked s y (hi_wf _ _ _ _ _ _ _ Hi)) in Hy. destruct Hy as [c Hc].
  apply (hi_seen _ _ _ _ _ _ _ Hi y c Hc).
Qed.

Theorem heap_size xs s :
  run xs = Some s ->
  length (heap_iter s) = Nat.min (N.to_nat k) (length (nodup N.eq_dec xs)).
Proof.
  intros Hr. pose proof (run_inv H k w d mx Hk1 Hw1 Hd1 _ _ Hr) as Hi.
  pose proof (hi_wf _ _ _ _ _ _ _ Hi) as Hwf.
  pose proof (hi_size _ _ _ _ _ _ _ Hi) as Hsz. unfold lenN in Hsz.
  assert (Hlen : length (heap_iter s) = length (ho2c s)).
  { unfold heap_iter. rewrite map_length. apply (wf_length s Hwf). }
  assert (HleD : (length (heap_iter s) <= length (nodup N.eq_dec xs))%nat).
  { apply NoDup_incl_length; [apply (heap_iter_NoDup xs s Hr)|].
    intros y Hy. apply nodup_In. apply (heap_iter_incl xs s Hr y Hy). }
  destruct (N.ltb_spec (lenN (ho2c s)) k) as [Hlt|Hge].
  - assert (HgeD : (length (nodup N.eq_dec xs) <= length (heap_iter s))%nat).
    { apply NoDup_incl_length; [apply NoDup_nodup|].
      intros y Hy. apply nodup_In in Hy. apply (iter_tracked s y Hwf).
      pose proof (hi_all _ _ _ _ _ _ _ Hi Hlt y Hy) as Hne.
      destruct (ofind (ho2c s) y) as [c|]; [eauto|congruence]. }
    unfold lenN in Hlt. lia.
  - unfold lenN in Hge. lia.
Qed.

(* with at most k distinct elements, everything seen is in the result *)
Theorem heap_few_all_tracked xs s :
  run xs = Some s -> (length (nodup N.eq_dec xs) <= N.to_nat k)%nat ->
  forall y, In y xs -> In y (heap_iter s).
Proof.
  intros Hr Hfew y Hy. pose proof (heap_size xs s Hr) as Hsz.
  assert (Hincl : incl (nodup N.eq_dec xs) (heap_iter s)).
  { apply NoDup_length_incl.
    - apply (heap_iter_NoDup xs s Hr).
    - lia.
    - intros z Hz. apply nodup_In. apply (heap_iter_incl xs s Hr z Hz). }
  apply Hincl. apply nodup_In. exact Hy.
Qed.

(* ---------------------------------------------------------------------- *)
(** ** 4. stored counts are between the true count and true count + E *)

Theorem heap_stored_bounds xs s E c y :
  run xs = Some s -> Efinal E xs s -> In (c, y) (htree s) ->
  tcount y xs <= c <= tcount y xs + E.
Proof.
  intros Hr HE Hin. pose proof (run_inv H k w d mx Hk1 Hw1 Hd1 _ _ Hr) as Hi.
  apply (wf_sync s (hi_wf _ _ _ _ _ _ _ Hi)) in Hin. split.
  - apply (hi_lo _ _ _ _ _ _ _ Hi y c Hin).
  - apply (run_hi E xs s (EB_final E xs s Hr HE) Hr y c Hin).
Qed.

(* ---------------------------------------------------------------------- *)
(** ** 5. untracked elements are bounded by the minimum stored count *)

Theorem heap_untracked_bound xs s y :
  run xs = Some s -> In y xs -> ~ In y (heap_iter s) ->
  exists mn my r, htree s = (mn, my) :: r /\ tcount y xs <= mn /\
                  (forall c z, In (c, z) (htree s) -> mn <= c) /\
                  length (heap_iter s) = N.to_nat k.
Proof.
  intros Hr Hy Hn. pose proof (run_inv H k w d mx Hk1 Hw1 Hd1 _ _ Hr) as Hi.
  pose proof (hi_wf _ _ _ _ _ _ _ Hi) as Hwf.
  apply (iter_untracked s y Hwf) in Hn.
  destruct (hi_out _ _ _ _ _ _ _ Hi y Hy Hn) as (mn & (my & r & Ht) & Hle).
  exists mn, my, r. split; [exact Ht|]. split; [exact Hle|]. split.
  - intros c z Hin. rewrite Ht in Hin.
    apply (tsorted_head_min mn my r (c, z)); [|exact Hin]. rewrite <- Ht. apply (wf_sorted s Hwf).
  - assert (Hfull : ~ lenN (ho2c s) < k).
    { intros Hlt. exact (hi_all _ _ _ _ _ _ _ Hi Hlt y Hy Hn). }
    pose proof (hi_size _ _ _ _ _ _ _ Hi) as Hsz. unfold heap_iter. rewrite map_length, (wf_length s Hwf).
    unfold lenN in *. lia.
Qed.

(* once the heap is full the minimum stored count never decreases *)
Theorem heap_min_mono xs s x s' mn :
  run xs = Some s -> heap_add H s x = Some s' -> k <= lenN (ho2c s) ->
  tree_min s mn -> exists mn', tree_min s' mn' /\ mn <= mn'.
Proof.
  intros Hr Ha Hfull (my & r & Htr). pose proof (run_inv H k w d mx Hk1 Hw1 Hd1 _ _ Hr) as Hi.
  pose proof (hi_wf _ _ _ _ _ _ _ Hi) as Hwf. pose proof (hi_k _ _ _ _ _ _ _ Hi) as Hik.
  apply heap_add_inv in Ha. destruct Ha as (count & c' & _ & _ & _ & Hstep).
  destruct Hstep as [n Hf Ho Ht | Hf Hlt Ho Ht | mn0 my0 r0 Hf Hge Htr0 Hlt Ho Ht | mn0 my0 r0 Hf Hge Htr0 Hle Ho Ht].
  - assert (Hn : mn <= n).
    { apply (tsorted_head_min mn my r (n, x)).
      - rewrite <- Htr. apply (wf_sorted s Hwf).
      - rewrite <- Htr. apply (wf_sync s Hwf). exact Hf. }
    destruct (tree_min_mono (htree s) mn my r (n, x) (n + 1, x) (wf_sorted s Hwf) Htr)
      as (mn' & my' & r' & Et & Hmn); [cbn [fst]; lia|].
    exists mn'. split; [exists my', r'; rewrite Ht; exact Et|exact Hmn].
  - lia.
  - rewrite Htr in Htr0. inversion Htr0; subst mn0 my0 r0.
    destruct (tree_min_mono (htree s) mn my r (mn, my) (count, x) (wf_sorted s Hwf) Htr)
      as (mn' & my' & r' & Et & Hmn); [cbn [fst]; lia|].
    exists mn'. split; [exists my', r'; rewrite Ht; exact Et|exact Hmn].
  - exists mn. split; [exists my, r; rewrite Ht; exact Htr|lia].
Qed.

(* ---------------------------------------------------------------------- *)
(** ** 6. the top-k guarantee *)

Theorem heap_topk xs s E x :
  run xs = Some s -> Efinal E xs s ->
  In x xs -> ~ In x (heap_iter s) ->
  length (heap_iter s) = N.to_nat k /\ NoDup (heap_iter s) /\
  forall z, In z (heap_iter s) -> tcount x xs <= tcount z xs + E.
Proof.
  intros Hr HE Hx Hn.
  destruct (heap_untracked_bound xs s x Hr Hx Hn) as (mn & my & r & Ht & Hle & Hmin & Hlen).
  split; [exact Hlen|]. split; [apply (heap_iter_NoDup xs s Hr)|].
  intros z Hz. unfold heap_iter in Hz. apply in_map_iff in Hz. destruct Hz as ([c z'] & Ez & Hin).
  cbn [snd] in Ez. subst z'.
  pose proof (Hmin c z Hin) as Hc.
  pose proof (heap_stored_bounds xs s E c z Hr HE Hin) as [_ Hup]. lia.
Qed.

(* the same with E computed from the final sketch *)
Corollary heap_topk_overest xs s x :
  run xs = Some s -> In x xs -> ~ In x (heap_iter s) ->
  length (heap_iter s) = N.to_nat k /\ NoDup (heap_iter s) /\
  forall z, In z (heap_iter s) -> tcount x xs <= tcount z xs + overest H (hcms s) xs.
Proof. intros Hr. apply (heap_topk xs s _ x Hr (overest_Efinal xs s)). Qed.

(* ---------------------------------------------------------------------- *)
(** ** 7. collision-free sketch: exact top-k *)

Theorem heap_exact xs s :
  run xs = Some s -> Efinal 0 xs s ->
  (forall c y, In (c, y) (htree s) -> c = tcount y xs) /\
  (forall z x, In z (heap_iter s) -> ~ In x (heap_iter s) -> tcount x xs <= tcount z xs).
Proof.
  intros Hr HE. split.
  - intros c y Hin. pose proof (heap_stored_bounds xs s 0 c y Hr HE Hin). lia.
  - intros z x Hz Hn. destruct (in_dec N.eq_dec x xs) as [Hx|Hx].
    + destruct (heap_topk xs s 0 x Hr HE Hx Hn) as (_ & _ & Hall). specialize (Hall z Hz). lia.
    + rewrite (tcount_notin x xs Hx). lia.
Qed.

(* ---------------------------------------------------------------------- *)
(** ** 8. clear / is_empty *)

Theorem heap_clear_init xs s :
  run xs = Some s -> heap_new k (cms_new w d mx) = Some (heap_clear s).
Proof.
  intros Hr. pose proof (run_inv H k w d mx Hk1 Hw1 Hd1 _ _ Hr) as Hi.
  pose proof (hi_cms _ _ _ _ _ _ _ Hi) as Hc.
  unfold heap_new, heap_clear. destruct (N.ltb_spec 0 k) as [_|Hbad]; [|lia].
  rewrite (hi_k _ _ _ _ _ _ _ Hi).
  rewrite (cms_clear_init H _ _ w d (hist_cfgw w d mx xs) Hc), (hist_cmax H w d mx xs _ Hc).
  reflexivity.
Qed.

Theorem heap_is_empty_iff xs s : run xs = Some s -> (heap_is_empty s = true <-> xs = []).
Proof.
  intros Hr. pose proof (run_inv H k w d mx Hk1 Hw1 Hd1 _ _ Hr) as Hi. split.
  - unfold heap_is_empty. destruct (ho2c s) as [|e o] eqn:Eo; [|discriminate]. intros _.
    destruct xs as [|x xs]; [reflexivity|]. exfalso.
    apply (hi_all _ _ _ _ _ _ _ Hi) with (y := x).
    + rewrite Eo. unfold lenN. cbn [length N.of_nat]. lia.
    + left; reflexivity.
    + rewrite Eo. reflexivity.
  - intros ->. unfold heap_run, heap_new in Hr. destruct (0 <? k); [|discriminate].
    cbn [heap_adds] in Hr. inversion Hr. reflexivity.
Qed.
End Main.

(* ====================================================================== *)
(** * Property C10, in one statement without auxiliary predicates *)

(* For every hash function, every k, w, d >= 1 and every stream short enough that no sketch
   counter can overflow: the run does not panic; iter() yields min(k, #distinct) distinct
   elements, all of them seen; and if E bounds the overestimates of the final sketch on the
   stream elements, every seen element x missing from the result is dominated, up to E, by
   each of the k distinct elements of the result.  Since [xs] is arbitrary (and the length
   hypothesis is inherited by prefixes) this holds at every point of every stream. *)
Theorem cmsheap_C10 H k w d mx xs :
  1 <= k -> 1 <= w -> 1 <= d -> N.of_nat (length xs) <= mx ->
  exists s, heap_run H k w d mx xs = Some s /\
    length (heap_iter s) = Nat.min (N.to_nat k) (length (nodup N.eq_dec xs)) /\
    NoDup (heap_iter s) /\ incl (heap_iter s) xs /\
    forall E,
      (forall y q, In y xs -> cms_query H (hcms s) y = Some q -> q <= tcount y xs + E) ->
      forall x, In x xs -> ~ In x (heap_iter s) ->
        length (heap_iter s) = N.to_nat k /\
        forall z, In z (heap_iter s) -> tcount x xs <= tcount z xs + E.
Proof.
  intros Hk1 Hw1 Hd1 Hlen.
  destruct (heap_run_total H k w d mx Hk1 Hw1 Hd1 xs Hlen) as (s & Hr).
  exists s. split; [exact Hr|].
  split; [apply (heap_size H k w d mx Hk1 Hw1 Hd1 xs s Hr)|].
  split; [apply (heap_iter_NoDup H k w d mx Hk1 Hw1 Hd1 xs s Hr)|].
  split; [apply (heap_iter_incl H k w d mx Hk1 Hw1 Hd1 xs s Hr)|].
  intros E HE x Hx Hn.
  destruct (heap_topk H k w d mx Hk1 Hw1 Hd1 xs s E x Hr HE Hx Hn) as (Hl & _ & Hall).
  split; assumption.
Qed.

(* ====================================================================== *)
(** * Non-vacuity: concrete hash, k = 2, a 1x1 sketch (everything collides) and a wide one *)

Definition Hx : hashfn :=
  fun iv v => match v with
              | Some x => x * 2654435761 + (match iv with Some i => i * 40503 | None => 0 end)
              | None => 17
              end.
Definition xs10 : list N := [1; 2; 1; 3; 1; 2; 4; 4; 4; 4].
Definition M64 : N := 2 ^ 64 - 1.
Definition view (s : cmsheap) := (ho2c s, htree s, heap_iter s).

(* true counts: 1 -> 3, 2 -> 2, 3 -> 1, 4 -> 4 *)
Example ex_tcounts : map (fun y => tcount y xs10) [1; 2; 3; 4] = [3; 2; 1; 4].
Proof. vm_compute. reflexivity. Qed.

(* 1x1 sketch: every estimate is the stream length, so new keys keep displacing the minimum;
   the final result {2, 4} is NOT the true top-2 {1, 4}; E = 9 *)
Example ex_run_1x1 :
  option_map view (heap_run Hx 2 1 1 M64 xs10)
  = Some ([(2, 6); (4, 10)], [(6, 2); (10, 4)], [2; 4]).
Proof. vm_compute. reflexivity. Qed.

Example ex_trace_1x1 :
  map (fun n => option_map htree (heap_run Hx 2 1 1 M64 (firstn n xs10)))
      [3; 4; 5; 6; 7; 10]%nat
  = [Some [(1, 2); (2, 1)]; Some [(2, 1); (4, 3)]; Some [(3, 1); (4, 3)];
     Some [(4, 3); (6, 2)]; Some [(6, 2); (7, 4)]; Some [(6, 2); (10, 4)]].
Proof. vm_compute. reflexivity. Qed.

(* the hypotheses of [heap_topk] / [heap_stored_bounds] are satisfiable with displacement,
   E = 9 = overest, x = 1 missing *)
Example ex_topk_1x1_hyps :
  exists s, heap_run Hx 2 1 1 M64 xs10 = Some s /\ overest Hx (hcms s) xs10 = 9 /\
            Efinal Hx 9 xs10 s /\ In 1 xs10 /\ ~ In 1 (heap_iter s).
Proof.
  eexists. split; [vm_compute; reflexivity|]. split; [vm_compute; reflexivity|]. split.
  - intros y q Hy Hq. pose proof (overest_spec Hx _ xs10 y q Hy Hq) as Hb.
    replace (overest Hx _ xs10) with 9 in Hb by (vm_compute; reflexivity). exact Hb.
  - split; [left; reflexivity|]. vm_compute. intros [E|[E|[]]]; discriminate.
Qed.

Example ex_topk_1x1 : forall z, In z [2; 4] -> tcount 1 xs10 <= tcount z xs10 + 9.
Proof.
  destruct ex_topk_1x1_hyps as (s & Hr & _ & HE & Hx1 & Hn).
  destruct (heap_topk Hx 2 1 1 M64 ltac:(lia) ltac:(lia) ltac:(lia) xs10 s 9 1 Hr HE Hx1 Hn)
    as (_ & _ & Hall).
  pose proof ex_run_1x1 as Hv. rewrite Hr in Hv. cbn [option_map] in Hv. unfold view in Hv.
  assert (Hi : heap_iter s = [2; 4]) by congruence.
  intros z Hz. apply Hall. rewrite Hi. exact Hz.
Qed.

(* wide sketch (64 x 2): no collisions on this stream, E = 0, displacement still happens
   (4 evicts 2 at step 9) and the result is the exact top-2 with exact counts *)
Example ex_run_wide :
  option_map view (heap_run Hx 2 64 2 M64 xs10)
  = Some ([(1, 3); (4, 4)], [(3, 1); (4, 4)], [1; 4]).
Proof. vm_compute. reflexivity. Qed.

Example ex_trace_wide :
  map (fun n => option_map htree (heap_run Hx 2 64 2 M64 (firstn n xs10)))
      [3; 4; 6; 8; 9; 10]%nat
  = [Some [(1, 2); (2, 1)]; Some [(1, 2); (2, 1)]; Some [(2, 2); (3, 1)];
     Some [(2, 2); (3, 1)]; Some [(3, 1); (3, 4)]; Some [(3, 1); (4, 4)]].
Proof. vm_compute. reflexivity. Qed.

Example ex_exact_wide_hyps :
  exists s, heap_run Hx 2 64 2 M64 xs10 = Some s /\ overest Hx (hcms s) xs10 = 0 /\
            Efinal Hx 0 xs10 s.
Proof.
  eexists. split; [vm_compute; reflexivity|]. split; [vm_compute; reflexivity|].
  intros y q Hy Hq. pose proof (overest_spec Hx _ xs10 y q Hy Hq) as Hb.
  replace (overest Hx _ xs10) with 0 in Hb by (vm_compute; reflexivity). exact Hb.
Qed.

(* a 3 x 2 sketch with collisions (E = 4) that still returns the true top-2 *)
Example ex_run_3x2 :
  option_map (fun s => (htree s, overest Hx (hcms s) xs10)) (heap_run Hx 2 3 2 M64 xs10)
  = Some ([(3, 1); (7, 4)], 4).
Proof. vm_compute. reflexivity. Qed.

(* fewer than k distinct elements: everything is tracked *)
Example ex_few : option_map view (heap_run Hx 5 1 1 M64 xs10)
  = Some ([(1, 3); (2, 2); (3, 1); (4, 4)], [(1, 3); (2, 2); (3, 1); (4, 4)], [3; 2; 1; 4]).
Proof. vm_compute. reflexivity. Qed.

(* the no-overflow hypothesis [length xs <= mx] is needed and tight: with counter maximum 3
   the fourth add panics *)
Example ex_overflow :
  option_map htree (heap_run Hx 2 1 1 3 [1; 2; 3]) = Some [(1, 2); (3, 3)] /\
  heap_run Hx 2 1 1 3 [1; 2; 3; 4] = None.
Proof. vm_compute. auto. Qed.

(* k = 0 is rejected by the constructor *)
Example ex_k0 : heap_run Hx 0 1 1 M64 [] = None.
Proof. reflexivity. Qed.

(* COUNTEREXAMPLE to the unrestricted "the minimum stored count never decreases": while the
   heap is still filling (size < k) a new key enters with count 1.  k = 2, stream [1;1;2]:
   the minimum goes 2 -> 1.  [heap_min_mono] therefore assumes the heap is full. *)
Example ex_min_decreases_while_filling :
  option_map htree (heap_run Hx 2 64 2 M64 [1; 1]) = Some [(2, 1)] /\
  option_map htree (heap_run Hx 2 64 2 M64 [1; 1; 2]) = Some [(1, 2); (2, 1)].
Proof. vm_compute. auto. Qed.

(* clear / is_empty *)
Example ex_clear :
  option_map heap_clear (heap_run Hx 2 3 2 M64 xs10) = heap_new 2 (cms_new 3 2 M64) /\
  option_map heap_is_empty (heap_run Hx 2 3 2 M64 xs10) = Some false /\
  option_map heap_is_empty (heap_run Hx 2 3 2 M64 []) = Some true.
Proof. vm_compute. auto. Qed.

(* ====================================================================== *)
Print Assumptions heap_add_wf.
Print Assumptions cms_add_n_total.
Print Assumptions est_excess_mono.
Print Assumptions heap_run_total.
Print Assumptions heap_add_total.
Print Assumptions heap_index_consistent.
Print Assumptions heap_iter_NoDup.
Print Assumptions heap_iter_incl.
Print Assumptions heap_size.
Print Assumptions heap_few_all_tracked.
Print Assumptions heap_stored_bounds.
Print Assumptions heap_untracked_bound.
Print Assumptions heap_min_mono.
Print Assumptions heap_topk.
Print Assumptions heap_topk_overest.
Print Assumptions heap_exact.
Print Assumptions heap_clear_init.
Print Assumptions heap_is_empty_iff.
Print Assumptions cmsheap_C10.
