(* Proofs/HllRelErr.v - the constant of HyperLogLog::relative_error(), closed by Interval's `interval` tactic.
   Kept outside the closure of Props/C03.v: it pulls in the Interval, Flocq and Coquelicot libraries (coqchk needs
   more than 50 minutes on them) and the standard library's primitive float/integer specification axioms. Built by
   setup; the value of relative_error() is compared numerically by the harness oracle on every run. *)
From Coq Require Import Reals Lra.
Open Scope R_scope.
(* ------------------------------------------------------------------ *)
From Interval Require Import Tactic.

Lemma relative_error_constant : (1.0389 < sqrt (3 * ln 2 - 1) < 1.0390)%R.
Proof. split; interval. Qed.

Theorem relative_error_value (m : R) :
  (0 < m)%R ->
  (1.0389 / sqrt m < sqrt (3 * ln 2 - 1) / sqrt m < 1.0390 / sqrt m)%R.
Proof.
  intros Hm. destruct relative_error_constant as [C1 C2].
  assert (Hs : (0 < / sqrt m)%R) by (apply Rinv_0_lt_compat, sqrt_lt_R0; exact Hm).
  unfold Rdiv. split; apply Rmult_lt_compat_r; assumption.
Qed.

Print Assumptions relative_error_value.
