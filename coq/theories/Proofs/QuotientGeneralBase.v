(* Proofs/QuotientGeneralBase.v — C13 for ALL widths, part 1: ring/offset arithmetic, the abstract
   "line" (canonical layout of a quotient filter seen from an origin slot), the representation
   relation between a concrete state and a line, and the change of origin.

   A state with [n] slots is described, relative to an origin slot [o], by a function
   [c : N -> option (N * N)] on offsets [u = 0 .. n-1] (slot [sl o u = (o + u) mod n]):
   [c u = Some (v, r)] : the slot at offset [u] holds remainder [r] of the quotient at offset [v].
   [Line c oc] is the (local) canonical-layout condition:  v <= u;  a shifted element (v < u) has a
   lexicographically smaller left neighbour;  [oc v] <-> some element has quotient [v].
   All loops of the model stay inside one line, so nothing in the later files reasons modulo [n]. *)
From PDS Require Import Model.Quotient Proofs.QuotientProofs.
From Coq Require Import Lia ZifyN ZifyBool.
Open Scope N_scope.

Arguments N.add : simpl never.
Arguments N.mul : simpl never.
Arguments N.sub : simpl never.
Arguments N.div : simpl never.
Arguments N.modulo : simpl never.
Arguments N.pow : simpl never.
Arguments N.ltb : simpl never.
Arguments N.leb : simpl never.
Arguments N.eqb : simpl never.

(* ========================================================================= *)
(** * list access                                                            *)
(* ========================================================================= *)
Lemma getn_setl_same M : forall i v, (N.to_nat i < length M)%nat -> getn (setl M i v) i = v.
Proof.
  induction M as [|x t IH]; intros i v Hi; cbn [length] in Hi; [lia|]. cbn [setl].
  destruct (N.eqb_spec i 0) as [E|E]; cbn [getn].
  - subst. reflexivity.
  - destruct (N.eqb_spec i 0); [contradiction|]. apply IH. lia.
Qed.
Lemma getn_setl_other M : forall i j v, i <> j -> getn (setl M i v) j = getn M j.
Proof.
  induction M as [|x t IH]; intros i j v Hij; cbn [setl]; [reflexivity|].
  destruct (N.eqb_spec i 0) as [Ei|Ei]; cbn [getn]; destruct (N.eqb_spec j 0) as [Ej|Ej]; try reflexivity.
  - lia.
  - apply IH. lia.
Qed.
Lemma getn_repeat0 m : forall i, getn (repeat 0 m) i = 0.
Proof. induction m; intros i; cbn [repeat getn]; [reflexivity|]. destruct (i =? 0); auto. Qed.
Lemma getn_out M : forall i, (length M <= N.to_nat i)%nat -> getn M i = 0.
Proof.
  induction M as [|x t IH]; intros i Hi; cbn [getn length] in *; [reflexivity|].
  destruct (N.eqb_spec i 0); [lia|]. apply IH. lia.
Qed.
Lemma listN_ext A : forall B, length A = length B -> (forall i, getn A i = getn B i) -> A = B.
Proof.
  induction A as [|a A IH]; intros [|b B] HL Hg; cbn [length] in HL; try discriminate; [reflexivity|].
  f_equal.
  - specialize (Hg 0). cbn [getn] in Hg. rewrite N.eqb_refl in Hg. exact Hg.
  - apply IH; [lia|]. intros i. specialize (Hg (i + 1)). cbn [getn] in Hg.
    destruct (N.eqb_spec (i + 1) 0); [lia|]. replace (N.pred (i + 1)) with i in Hg by lia. exact Hg.
Qed.

Definition fupd {A} (f : N -> A) (u : N) (x : A) : N -> A := fun w => if w =? u then x else f w.
Lemma fupd_same {A} (f : N -> A) u x : fupd f u x u = x.
Proof. unfold fupd. rewrite N.eqb_refl. reflexivity. Qed.
Lemma fupd_other {A} (f : N -> A) u x w : w <> u -> fupd f u x w = f w.
Proof. unfold fupd. intros H. destruct (N.eqb_spec w u); [contradiction|reflexivity]. Qed.

(* ========================================================================= *)
(** * offsets on the ring                                                    *)
(* ========================================================================= *)
Definition sl (n o u : N) : N := if o + u <? n then o + u else o + u - n.
Definition unw (n o q : N) : N := if o <=? q then q - o else q + n - o.

Section Ring.
Variable n : N.
Hypothesis n_pos : 0 < n.
Variable o : N.
Hypothesis o_lt : o < n.

Lemma sl_lt u : u <= n -> sl n o u < n.
Proof. unfold sl. intros H. destruct (N.ltb_spec (o + u) n); lia. Qed.
Lemma sl_n : sl n o n = sl n o 0.
Proof. unfold sl. destruct (N.ltb_spec (o + n) n), (N.ltb_spec (o + 0) n); lia. Qed.
Lemma sl_0 : sl n o 0 = o.
Proof. unfold sl. destruct (N.ltb_spec (o + 0) n); lia. Qed.
Lemma sl_inj u1 u2 : u1 < n -> u2 < n -> sl n o u1 = sl n o u2 -> u1 = u2.
Proof. unfold sl. intros H1 H2. destruct (N.ltb_spec (o + u1) n), (N.ltb_spec (o + u2) n); lia. Qed.
Lemma sl_incr u : u < n -> qincr n (sl n o u) = sl n o (u + 1).
Proof.
  unfold sl, qincr. intros H.
  destruct (N.ltb_spec (o + u) n), (N.ltb_spec (o + (u + 1)) n);
    match goal with |- context [?a =? ?b] => destruct (N.eqb_spec a b) end; lia.
Qed.
Lemma sl_decr u : u < n -> qdecr n (sl n o (u + 1)) = sl n o u.
Proof.
  unfold sl, qdecr. intros H.
  destruct (N.ltb_spec (o + u) n), (N.ltb_spec (o + (u + 1)) n);
    match goal with |- context [?a =? ?b] => destruct (N.eqb_spec a b) end; lia.
Qed.
Lemma unw_lt q : q < n -> unw n o q < n.
Proof. unfold unw. intros H. destruct (N.leb_spec o q); lia. Qed.
Lemma sl_unw q : q < n -> sl n o (unw n o q) = q.
Proof.
  unfold sl, unw. intros H.
  destruct (N.leb_spec o q); match goal with |- context [?a <? ?b] => destruct (N.ltb_spec a b) end; lia.
Qed.
Lemma unw_sl u : u < n -> unw n o (sl n o u) = u.
Proof.
  unfold sl, unw. intros H.
  destruct (N.ltb_spec (o + u) n); match goal with |- context [?a <=? ?b] => destruct (N.leb_spec a b) end; lia.
Qed.
Lemma sl_eqb u1 u2 : u1 < n -> u2 < n -> (sl n o u1 =? sl n o u2) = (u1 =? u2).
Proof.
  intros H1 H2. destruct (N.eqb_spec u1 u2) as [E|E]; [subst; apply N.eqb_refl|].
  apply N.eqb_neq. intros E'. apply E, sl_inj; auto.
Qed.

(** ** images of functions on offsets in the concrete lists *)
Definition ImgB (l : list bool) (f : N -> bool) : Prop :=
  length l = N.to_nat n /\ forall u, u < n -> getb l (sl n o u) = f u.
Definition ImgN (l : list N) (f : N -> N) : Prop :=
  length l = N.to_nat n /\ forall u, u < n -> getn l (sl n o u) = f u.

Lemma ImgB_ext l f g : ImgB l f -> (forall u, u < n -> f u = g u) -> ImgB l g.
Proof. intros [HL H] E. split; [exact HL|]. intros u Hu. rewrite H, E by auto. reflexivity. Qed.
Lemma ImgN_ext l f g : ImgN l f -> (forall u, u < n -> f u = g u) -> ImgN l g.
Proof. intros [HL H] E. split; [exact HL|]. intros u Hu. rewrite H, E by auto. reflexivity. Qed.
Lemma ImgB_setl l f u x : ImgB l f -> u < n -> ImgB (setl l (sl n o u) x) (fupd f u x).
Proof.
  intros [HL H] Hu. split; [rewrite setl_length; exact HL|]. intros w Hw. unfold fupd.
  destruct (N.eqb_spec w u) as [E|E].
  - subst. apply getb_setl_same. pose proof (sl_lt u). lia.
  - rewrite getb_setl_other; [apply H; exact Hw|]. intros E'. apply E. symmetry. apply sl_inj; auto.
Qed.
Lemma ImgN_setl l f u x : ImgN l f -> u < n -> ImgN (setl l (sl n o u) x) (fupd f u x).
Proof.
  intros [HL H] Hu. split; [rewrite setl_length; exact HL|]. intros w Hw. unfold fupd.
  destruct (N.eqb_spec w u) as [E|E].
  - subst. apply getn_setl_same. pose proof (sl_lt u). lia.
  - rewrite getn_setl_other; [apply H; exact Hw|]. intros E'. apply E. symmetry. apply sl_inj; auto.
Qed.
Lemma ImgB_inj l l' f : ImgB l f -> ImgB l' f -> l = l'.
Proof.
  intros [HL H] [HL' H']. apply mask_ext; [congruence|]. intros i.
  destruct (N.ltb_spec i n) as [Hi|Hi].
  - rewrite <- (sl_unw i Hi). pose proof (unw_lt i Hi). rewrite H, H' by auto. reflexivity.
  - rewrite !getb_out by lia. reflexivity.
Qed.
Lemma ImgN_inj l l' f : ImgN l f -> ImgN l' f -> l = l'.
Proof.
  intros [HL H] [HL' H']. apply listN_ext; [congruence|]. intros i.
  destruct (N.ltb_spec i n) as [Hi|Hi].
  - rewrite <- (sl_unw i Hi). pose proof (unw_lt i Hi). rewrite H, H' by auto. reflexivity.
  - rewrite !getn_out by lia. reflexivity.
Qed.
End Ring.

(* ========================================================================= *)
(** * the abstract line                                                      *)
(* ========================================================================= *)
Definition cellT := N -> option (N * N).
Definition lexlt (a b : N * N) : Prop := fst a < fst b \/ (fst a = fst b /\ snd a < snd b).
Definition shfb (c : cellT) (u : N) : bool := match c u with Some (v, _) => v <? u | None => false end.
Definition contb (c : cellT) (u : N) : bool :=
  (0 <? u) && match c u, c (u - 1) with Some (v, _), Some (v', _) => v =? v' | _, _ => false end.
Definition remf (c : cellT) (u : N) : N := match c u with Some (_, r) => r | None => 0 end.
Definition usedb (c : cellT) (u : N) : bool := match c u with Some _ => true | None => false end.
Definition quo (c : cellT) (u : N) : option N := match c u with Some (v, _) => Some v | None => None end.

Lemma lexlt_trans a b c : lexlt a b -> lexlt b c -> lexlt a c.
Proof. unfold lexlt. lia. Qed.
Lemma lexlt_irrefl a : ~ lexlt a a.
Proof. unfold lexlt. lia. Qed.
Lemma lexlt_total a b : lexlt a b \/ a = b \/ lexlt b a.
Proof.
  destruct a as [a1 a2], b as [b1 b2]. unfold lexlt; cbn [fst snd].
  destruct (N.lt_total a1 b1) as [H|[H|H]]; [lia| |lia].
  destruct (N.lt_total a2 b2) as [H'|[H'|H']]; [lia| |lia]. subst. auto.
Qed.
Lemma lexlt_fst a b : lexlt a b -> fst a <= fst b.
Proof. unfold lexlt. lia. Qed.

Section LineDef.
Variable n : N.

Record Line (c : cellT) (oc : N -> bool) : Prop := {
  L_dom : forall u v r, c u = Some (v, r) -> u < n;
  L_le : forall u v r, c u = Some (v, r) -> v <= u;
  L_prev : forall u v r, c u = Some (v, r) -> v < u ->
           exists v' r', c (u - 1) = Some (v', r') /\ lexlt (v', r') (v, r);
  L_occ : forall v, oc v = true <-> exists u r, c u = Some (v, r)
}.

Variables (c : cellT) (oc : N -> bool).
Hypothesis HL : Line c oc.

Lemma line_out u : n <= u -> c u = None.
Proof. intros H. destruct (c u) as [[v r]|] eqn:E; [|reflexivity]. apply (L_dom _ _ HL) in E. lia. Qed.

Lemma line_sorted : forall u2 u1 a b, u1 < u2 -> c u1 = Some a -> c u2 = Some b -> lexlt a b.
Proof.
  induction u2 as [|u2 IH] using N.peano_ind; intros u1 a b Hlt Ha Hb; [lia|].
  destruct a as [v1 r1], b as [v2 r2].
  pose proof (L_le _ _ HL _ _ _ Ha) as Hle1. pose proof (L_le _ _ HL _ _ _ Hb) as Hle2.
  destruct (N.eq_dec v2 (N.succ u2)) as [E|E]; [left; cbn [fst]; lia|].
  destruct (L_prev _ _ HL _ _ _ Hb) as (v' & r' & Hp & Hlex); [lia|].
  replace (N.succ u2 - 1) with u2 in Hp by lia.
  destruct (N.eq_dec u1 u2) as [E1|E1].
  - subst u1. rewrite Ha in Hp. inversion Hp; subst. exact Hlex.
  - eapply lexlt_trans; [|exact Hlex]. apply (IH u1); auto. lia.
Qed.

Lemma line_inj u1 u2 a : c u1 = Some a -> c u2 = Some a -> u1 = u2.
Proof.
  intros H1 H2. destruct (N.lt_total u1 u2) as [H|[H|H]]; [|exact H|].
  - exfalso. apply (lexlt_irrefl a). eapply line_sorted; eauto.
  - exfalso. apply (lexlt_irrefl a). eapply line_sorted; eauto.
Qed.

Lemma no_gap : forall u v r w, c u = Some (v, r) -> v <= w <= u ->
  exists v' r', c w = Some (v', r') /\ v' <= v.
Proof.
  induction u as [|u IH] using N.peano_ind; intros v r w Hc Hw.
  - assert (w = 0) by lia. subst. exists v, r. split; [exact Hc|lia].
  - destruct (N.eq_dec w (N.succ u)) as [E|E]; [subst; exists v, r; split; [exact Hc|lia]|].
    destruct (L_prev _ _ HL _ _ _ Hc) as (v' & r' & Hp & Hlex); [lia|].
    replace (N.succ u - 1) with u in Hp by lia. apply lexlt_fst in Hlex. cbn [fst] in Hlex.
    destruct (IH v' r' w Hp) as (v'' & r'' & H1 & H2); [lia|]. exists v'', r''. split; [exact H1|lia].
Qed.

Lemma oc_empty u : c u = None -> oc u = false.
Proof.
  intros Hc. destruct (oc u) eqn:E; [|reflexivity].
  apply (L_occ _ _ HL) in E as (u' & r & Hu').
  pose proof (L_le _ _ HL _ _ _ Hu') as Hle.
  destruct (no_gap u' u r u Hu') as (v' & r' & H1 & _); [lia|]. congruence.
Qed.

Lemma used_spec u : oc u || shfb c u = usedb c u.
Proof.
  unfold shfb, usedb. destruct (c u) as [[v r]|] eqn:E.
  - pose proof (L_le _ _ HL _ _ _ E) as Hle. destruct (N.ltb_spec v u); [apply orb_true_r|].
    assert (v = u) by lia. subst. rewrite orb_false_r. apply (L_occ _ _ HL). eauto.
  - rewrite oc_empty by auto. reflexivity.
Qed.

Lemma shfb_0 : shfb c 0 = false.
Proof.
  unfold shfb. destruct (c 0) as [[v r]|] eqn:E; [|reflexivity].
  apply (L_le _ _ HL) in E. destruct (N.ltb_spec v 0); [lia|reflexivity].
Qed.
Lemma shfb_out u : n <= u -> shfb c u = false.
Proof. intros H. unfold shfb. rewrite line_out by auto. reflexivity. Qed.
Lemma contb_0 : contb c 0 = false.
Proof. reflexivity. Qed.
Lemma contb_out u : n <= u -> contb c u = false.
Proof. intros H. unfold contb. rewrite (line_out u) by auto. apply andb_false_r. Qed.
Lemma shfb_true u : shfb c u = true -> exists v r, c u = Some (v, r) /\ v < u.
Proof.
  unfold shfb. destruct (c u) as [[v r]|]; [|discriminate]. intros H. exists v, r.
  split; [reflexivity|]. apply N.ltb_lt. exact H.
Qed.
Lemma shfb_false u v r : c u = Some (v, r) -> shfb c u = false -> v = u.
Proof.
  intros E. unfold shfb. rewrite E. intros H. apply (L_le _ _ HL) in E.
  destruct (N.ltb_spec v u); [discriminate|lia].
Qed.
Lemma contb_true u : contb c u = true ->
  0 < u /\ exists v r r', c u = Some (v, r) /\ c (u - 1) = Some (v, r').
Proof.
  unfold contb. intros H. apply andb_true_iff in H as [H0 H]. apply N.ltb_lt in H0. split; [exact H0|].
  destruct (c u) as [[v r]|]; [|discriminate]. destruct (c (u - 1)) as [[v' r']|]; [|discriminate].
  apply N.eqb_eq in H. subst. eauto.
Qed.
Lemma contb_false u v r v' r' : 0 < u -> c u = Some (v, r) -> c (u - 1) = Some (v', r') ->
  contb c u = false -> v' < v.
Proof.
  intros H0 E E'. unfold contb. rewrite E, E'. destruct (N.ltb_spec 0 u) as [Hx|Hx]; [|lia]. cbn [andb].
  intros H. apply N.eqb_neq in H.
  assert (Hl : lexlt (v', r') (v, r)) by (apply (line_sorted u (u - 1)); auto; lia).
  apply lexlt_fst in Hl. cbn [fst] in Hl. lia.
Qed.
Lemma contb_imp_shfb u : contb c u = true -> shfb c u = true.
Proof.
  intros H. apply contb_true in H as (H0 & v & r & r' & E1 & E2). unfold shfb. rewrite E1.
  apply (L_le _ _ HL) in E2. apply N.ltb_lt. lia.
Qed.
Lemma shfb_after_empty u : 0 < u -> c (u - 1) = None -> shfb c u = false.
Proof.
  intros H0 He. destruct (shfb c u) eqn:E; [|reflexivity]. exfalso.
  apply shfb_true in E as (v & r & Ec & Hv). destruct (L_prev _ _ HL _ _ _ Ec Hv) as (v' & r' & Ep & _). congruence.
Qed.
End LineDef.

(* ========================================================================= *)
(** * representation of a line by a concrete state                           *)
(* ========================================================================= *)
Section RepDef.
Variable n : N.
Hypothesis n_pos : 0 < n.

Definition Rep (s : qf) (o : N) (c : cellT) (oc : N -> bool) : Prop :=
  ImgB n o (qocc s) oc /\ ImgB n o (qcont s) (contb c) /\ ImgB n o (qshf s) (shfb c) /\ ImgN n o (qrem s) (remf c).

Section RepFacts.
Variables (s : qf) (o : N) (c : cellT) (oc : N -> bool).
Hypothesis o_lt : o < n.
Hypothesis HL : Line n c oc.
Hypothesis HR : Rep s o c oc.

Lemma rep_occ u : u < n -> getb (qocc s) (sl n o u) = oc u.
Proof. destruct HR as ((_ & H) & _). apply H. Qed.
Lemma rep_rem u : u < n -> getn (qrem s) (sl n o u) = remf c u.
Proof. destruct HR as (_ & _ & _ & (_ & H)). apply H. Qed.
Lemma rep_cont u : u <= n -> getb (qcont s) (sl n o u) = contb c u.
Proof.
  destruct HR as (_ & (_ & H) & _). intros Hu. destruct (N.eq_dec u n) as [E|E].
  - subst u. rewrite sl_n by auto. rewrite H by lia. rewrite (contb_out n c oc HL n) by lia. reflexivity.
  - apply H. lia.
Qed.
Lemma rep_shf u : u <= n -> getb (qshf s) (sl n o u) = shfb c u.
Proof.
  destruct HR as (_ & _ & (_ & H) & _). intros Hu. destruct (N.eq_dec u n) as [E|E].
  - subst u. rewrite sl_n by auto. rewrite H by lia. rewrite (shfb_out n c oc HL n) by lia.
    apply (shfb_0 n c oc HL).
  - apply H. lia.
Qed.
Lemma rep_used u : u < n -> getb (qocc s) (sl n o u) || getb (qshf s) (sl n o u) = usedb c u.
Proof. intros Hu. rewrite rep_occ, rep_shf by lia. apply (used_spec n c oc HL). Qed.
End RepFacts.
End RepDef.

Print Assumptions line_sorted.
Print Assumptions no_gap.
Print Assumptions used_spec.
