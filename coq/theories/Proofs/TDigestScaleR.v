(* Proofs/TDigestScaleR.v — bridge between the generic scale functions of Model/Scale.v (the definitions the
   correspondence check replays against the crate) at the real instance and the functions [k1_lim], [k0R_lim]
   of Proofs/TDigestSizeR.v; property C04 (size part) restated with the model's own limit function.

   Real instance: A := RNum, ofN := RofN (= fun n => IZR (Z.of_N n)), Coq's asin, sin, ln, exp, PI, and ANY
   [isinf] (K0 and K1 do not use it).  No functional extensionality is used by this file itself: the
   abstract theorems of TDigestSizeR.v are instantiated at [lim := scale_lim ...] directly, their hypothesis
   [Hlim] being obtained by pointwise rewriting.  Depends on the classical-reals assumptions of [Reals]
   (EXCEPTION to AGENT_GUIDE granted for these files). *)
From PDS Require Import Model.TDigest Model.Scale Proofs.HllCountReal Proofs.TDigestSizeR.
From Coq Require Import Reals Lra Lia List.
Import ListNotations.
Local Open Scope R_scope.

(* ------------------------------------------------------------------------------------------ *)
(** * 1. fmin / fmax / clamp01 over RNum *)

Lemma fmin_R (a b : R) : fmin RNum a b = Rmin a b.
Proof. unfold fmin. change (altb RNum b a) with (if Rlt_dec b a then true else false).
  destruct (Rlt_dec b a) as [L|L].
  - rewrite Rmin_right by lra. reflexivity.
  - rewrite Rmin_left by lra. reflexivity. Qed.

Lemma fmax_R (a b : R) : fmax RNum a b = Rmax a b.
Proof. unfold fmax. change (altb RNum a b) with (if Rlt_dec a b then true else false).
  destruct (Rlt_dec a b) as [L|L].
  - rewrite Rmax_right by lra. reflexivity.
  - rewrite Rmax_left by lra. reflexivity. Qed.

Lemma clamp01_R (q : R) : clamp01 RNum q = Rmax 0 (Rmin q 1).
Proof. unfold clamp01. change (aone RNum) with 1. change (azero RNum) with 0.
  rewrite fmin_R, fmax_R. apply Rmax_comm. Qed.

Lemma RofN_2 : RofN 2 = 2.      Proof. reflexivity. Qed.
Lemma RofN_25 : RofN 25 = 25.   Proof. reflexivity. Qed.
Lemma RofN_100 : RofN 100 = 100. Proof. reflexivity. Qed.

(* ------------------------------------------------------------------------------------------ *)
(** * 2. The model's K1 / K0 at the real instance *)

Section Bridge.
Variable isinf : R -> bool.
Notation mlim := (scale_lim RNum RofN asin sin ln exp PI isinf).

Lemma k1f_R delta q : k1f RNum RofN asin PI delta q = k1_f delta q.
Proof. unfold k1f, k1_f. rewrite clamp01_R.
  change (aone RNum) with 1. rewrite RofN_2. reflexivity. Qed.

Lemma k1finv_R delta k : k1finv RNum RofN sin PI delta k = k1_finv delta k.
Proof. unfold k1finv, k1_finv. cbv zeta. rewrite fmin_R, fmax_R.
  change (aone RNum) with 1. change (azero RNum) with 0. rewrite RofN_2, RofN_25, RofN_100.
  change (adiv RNum) with Rdiv. change (amul RNum) with Rmult. change (aadd RNum) with Rplus. change (asub RNum) with Rminus.
  replace (25 / 100 * delta) with (delta / 4) by lra.
  replace (0 - delta / 4) with (- (delta / 4)) by lra.
  rewrite (Rmax_comm (Rmin k (delta / 4))). reflexivity. Qed.

Lemma k0f_R delta q : k0f RNum RofN delta q = k0R_f delta q.
Proof. unfold k0f, k0R_f. rewrite clamp01_R. rewrite RofN_2. reflexivity. Qed.

Lemma k0finv_R delta k : k0finv RNum RofN delta k = k0R_finv delta k.
Proof. unfold k0finv, k0R_finv. rewrite fmin_R, fmax_R. change (azero RNum) with 0. rewrite RofN_2.
  change (adiv RNum) with Rdiv. change (amul RNum) with Rmult.
  rewrite (Rmax_comm (Rmin k (delta / 2))). reflexivity. Qed.

(** the model's limit functions are [k1_lim] / [k0R_lim] (for every delta, n, q0) *)
Lemma scale_lim_k1_eq delta n q0 : mlim 1%N delta n q0 = k1_lim delta n q0.
Proof. unfold scale_lim, scale_finv, scale_f, k1_lim. rewrite k1finv_R, k1f_R. reflexivity. Qed.

Lemma scale_lim_k0_eq delta n q0 : mlim 0%N delta n q0 = k0R_lim delta n q0.
Proof. unfold scale_lim, scale_finv, scale_f, k0R_lim. rewrite k0finv_R, k0f_R. reflexivity. Qed.

(* in the form requested (the hypothesis on delta is not needed) *)
Theorem scale_lim_k1 delta n q0 : 0 < delta -> mlim 1%N delta n q0 = k1_lim delta n q0.
Proof. intros _. apply scale_lim_k1_eq. Qed.

Theorem scale_lim_k0 delta n q0 : 0 < delta -> mlim 0%N delta n q0 = k0R_lim delta n q0.
Proof. intros _. apply scale_lim_k0_eq. Qed.

Lemma scale_f_k1 delta q n : scale_f RNum RofN asin ln PI 1%N delta q n = k1_f delta q.
Proof. unfold scale_f. apply k1f_R. Qed.
Lemma scale_f_k0 delta q n : scale_f RNum RofN asin ln PI 0%N delta q n = k0R_f delta q.
Proof. unfold scale_f. apply k0f_R. Qed.

(* ------------------------------------------------------------------------------------------ *)
(** * 3. [Hlim] for the model's limit, and C04 with the model's limit *)

Lemma mlim_k1_exceed delta : 0 < delta -> forall n q0 q,
  0 <= q0 -> q0 <= q -> q <= 1 -> mlim 1%N delta n q0 < q -> k1_f delta q0 + 1 < k1_f delta q.
Proof. intros Hd n q0 q H0 H01 H1 Hex. rewrite scale_lim_k1_eq in Hex.
  exact (k1_lim_exceed delta Hd n q0 q H0 H01 H1 Hex). Qed.

Lemma mlim_k0_exceed delta : 0 < delta -> forall n q0 q,
  0 <= q0 -> q0 <= q -> q <= 1 -> mlim 0%N delta n q0 < q -> k0R_f delta q0 + 1 < k0R_f delta q.
Proof. intros Hd n q0 q H0 H01 H1 Hex. rewrite scale_lim_k0_eq in Hex.
  exact (k0R_lim_exceed delta Hd n q0 q H0 H01 H1 Hex). Qed.

(** K1, the crate's default scale function, with the model's own limit: at every moment of every
    history (weights >= 0, any max_backlog_size) at most delta + 1 centroids, before and after a merge *)
Theorem C04_k1_model delta maxb (h : list rop) : 0 < delta -> Forall op_ok h ->
  INR (length (tcent (td_steps (mlim 1%N delta) maxb h))) <= delta + 1 /\
  INR (length (tcent (td_merge RNum (mlim 1%N delta) (td_steps (mlim 1%N delta) maxb h)))) <= delta + 1.
Proof. intros Hd Hh. rewrite <- (k1_Bnd delta). split.
  - apply (td_steps_size (k1_f delta) (mlim 1%N delta) (k1_mono delta Hd) (mlim_k1_exceed delta Hd)); assumption.
  - apply (td_steps_merge_size (k1_f delta) (mlim 1%N delta) (k1_mono delta Hd) (mlim_k1_exceed delta Hd)); assumption. Qed.

Theorem C04_k1_model_ncentroids delta maxb (h : list rop) : 0 < delta -> Forall op_ok h ->
  IZR (Z.of_N (snd (td_ncentroids RNum (mlim 1%N delta) (td_steps (mlim 1%N delta) maxb h)))) <= delta + 1.
Proof. intros Hd Hh. rewrite <- (k1_Bnd delta).
  apply (td_steps_ncentroids (k1_f delta) (mlim 1%N delta) (k1_mono delta Hd) (mlim_k1_exceed delta Hd)); assumption. Qed.

Theorem C04_k0_model delta maxb (h : list rop) : 0 < delta -> Forall op_ok h ->
  INR (length (tcent (td_steps (mlim 0%N delta) maxb h))) <= delta + 1 /\
  INR (length (tcent (td_merge RNum (mlim 0%N delta) (td_steps (mlim 0%N delta) maxb h)))) <= delta + 1.
Proof. intros Hd Hh. rewrite <- (k0R_Bnd delta). split.
  - apply (td_steps_size (k0R_f delta) (mlim 0%N delta) (k0R_mono delta Hd) (mlim_k0_exceed delta Hd)); assumption.
  - apply (td_steps_merge_size (k0R_f delta) (mlim 0%N delta) (k0R_mono delta Hd) (mlim_k0_exceed delta Hd)); assumption. Qed.

Theorem C04_k0_model_ncentroids delta maxb (h : list rop) : 0 < delta -> Forall op_ok h ->
  IZR (Z.of_N (snd (td_ncentroids RNum (mlim 0%N delta) (td_steps (mlim 0%N delta) maxb h)))) <= delta + 1.
Proof. intros Hd Hh. rewrite <- (k0R_Bnd delta).
  apply (td_steps_ncentroids (k0R_f delta) (mlim 0%N delta) (k0R_mono delta Hd) (mlim_k0_exceed delta Hd)); assumption. Qed.

(** one merge of an arbitrary state with positive counts *)
Theorem k1_model_merge_size delta (d : rtd) : 0 < delta ->
  Forall posc (tcent d) -> Forall posc (tback d) -> tback d <> [] ->
  INR (length (tcent (td_merge RNum (mlim 1%N delta) d))) <= delta + 1.
Proof. intros Hd Hc Hb Hne. rewrite <- (k1_Bnd delta).
  apply (td_merge_size (k1_f delta) (mlim 1%N delta) (k1_mono delta Hd) (mlim_k1_exceed delta Hd)); assumption. Qed.

End Bridge.

(* non-vacuity: delta = 10, isinf := fun _ => false, the three-step history of TDigestSizeR.v *)
Example ex_C04_k1_model maxb :
  INR (length (tcent (td_steps (scale_lim RNum RofN asin sin ln exp PI (fun _ => false) 1%N 10) maxb hist3))) <= 11.
Proof. eapply Rle_trans; [apply (C04_k1_model (fun _ => false) 10 maxb hist3); [lra|exact ex_hist3_ok] | lra]. Qed.

Print Assumptions scale_lim_k1.
Print Assumptions scale_lim_k0.
Print Assumptions C04_k1_model.
Print Assumptions C04_k1_model_ncentroids.
Print Assumptions C04_k0_model.
Print Assumptions C04_k0_model_ncentroids.
Print Assumptions k1_model_merge_size.
