(* Proofs/QuotientGeneralInsert.v — C13 for ALL widths, part 3: [chain] and [qf_insert_internal]
   on a state that represents a line whose last offset is empty (no wrap-around inside the line).
   Inserting an absent pair (uq, r) yields the state representing the line [ins_cell c p e (uq, r)]:
   the new element sits at the scan position [p] and the cells [p .. e-1] move one step to the right
   into the first empty offset [e] after [p]. *)
From PDS Require Import Model.Quotient Proofs.QuotientProofs Proofs.QuotientGeneralBase Proofs.QuotientGeneralScan.
From Coq Require Import Lia ZifyN ZifyBool.
Open Scope N_scope.

Arguments N.add : simpl never.
Arguments N.mul : simpl never.
Arguments N.sub : simpl never.
Arguments N.ltb : simpl never.
Arguments N.leb : simpl never.
Arguments N.eqb : simpl never.

Definition ins_cell (c : cellT) (p e : N) (x : N * N) : cellT :=
  fun u => if u <? p then c u else if u =? p then Some x else if u <=? e then c (u - 1) else c u.
Lemma ins_lt c p e x w : w < p -> ins_cell c p e x w = c w.
Proof. intros H. unfold ins_cell. destruct (N.ltb_spec w p); [reflexivity|lia]. Qed.
Lemma ins_eq c p e x : ins_cell c p e x p = Some x.
Proof. unfold ins_cell. destruct (N.ltb_spec p p); [lia|]. rewrite N.eqb_refl. reflexivity. Qed.
Lemma ins_mid c p e x w : p < w <= e -> ins_cell c p e x w = c (w - 1).
Proof.
  intros H. unfold ins_cell. destruct (N.ltb_spec w p); [lia|]. destruct (N.eqb_spec w p); [lia|].
  destruct (N.leb_spec w e); [reflexivity|lia].
Qed.
Lemma ins_gt c p e x w : p <= e -> e < w -> ins_cell c p e x w = c w.
Proof.
  intros H0 H. unfold ins_cell. destruct (N.ltb_spec w p); [lia|]. destruct (N.eqb_spec w p); [lia|].
  destruct (N.leb_spec w e); [lia|reflexivity].
Qed.

Lemma contb_shfb n c oc u : Line n c oc -> contb c u = true -> shfb c u = true.
Proof.
  intros HL H. apply contb_true in H as (H0 & v & r & r' & E1 & E2). unfold shfb. rewrite E1.
  apply (L_le _ _ _ HL) in E2. apply N.ltb_lt. lia.
Qed.

Section InsLine.
Variable n : N.
Hypothesis n_pos : 0 < n.
Variables (c : cellT) (oc : N -> bool).
Hypothesis HL : Line n c oc.
Variables (uq r c0 p e : N).
Hypothesis uq_lt : uq < n.
Hypothesis HC : CStart c c0 uq.
Hypothesis HF : Fpos c c0 (uq, r) p.
Hypothesis Habs : ~ exists u, c u = Some (uq, r).
Hypothesis Hpe : p <= e < n.
Hypothesis He : c e = None.
Hypothesis Hfull : forall w, p <= w < e -> exists a, c w = Some a.

Notation c' := (ins_cell c p e (uq, r)).
Notation oc' := (fupd oc uq true).

Lemma F_ge : uq <= p.
Proof. eapply fpos_ge; eauto. Qed.
Lemma F_pre w : c0 <= w < p -> exists a, c w = Some a /\ lexlt a (uq, r).
Proof. destruct HF as (_ & H & _). apply H. Qed.
Lemma F_at a : c p = Some a -> lexlt (uq, r) a.
Proof.
  intros Ha. destruct HF as (_ & _ & H). specialize (H a Ha).
  destruct (lexlt_total a (uq, r)) as [Hl|[Hl|Hl]]; [contradiction| |exact Hl].
  subst a. exfalso. apply Habs. eauto.
Qed.
Lemma F_c0 : c0 <= p.
Proof. destruct HF as (H & _). exact H. Qed.

Lemma ins_cell_mem a : (exists u, c' u = Some a) <-> a = (uq, r) \/ exists u, c u = Some a.
Proof.
  split.
  - intros (u & Hu). destruct (N.lt_total u p) as [H|[H|H]].
    + rewrite ins_lt in Hu by auto. eauto.
    + subst u. rewrite ins_eq in Hu. inversion Hu. auto.
    + destruct (N.le_gt_cases u e) as [H'|H'].
      * rewrite ins_mid in Hu by lia. eauto.
      * rewrite ins_gt in Hu by lia. eauto.
  - intros [->|(u & Hu)]; [exists p; apply ins_eq|].
    destruct (N.lt_ge_cases u p) as [H|H]; [exists u; rewrite ins_lt by auto; exact Hu|].
    destruct (N.lt_total u e) as [H'|[H'|H']].
    + exists (u + 1). rewrite ins_mid by lia. replace (u + 1 - 1) with u by lia. exact Hu.
    + subst u. congruence.
    + exists u. rewrite ins_gt by lia. exact Hu.
Qed.

Lemma ins_line : Line n c' oc'.
Proof.
  pose proof F_ge as Hge. pose proof F_c0 as Hc0. split.
  - intros u v x Hu. destruct (N.lt_total u p) as [H|[H|H]].
    + rewrite ins_lt in Hu by auto. apply (L_dom _ _ _ HL) in Hu. exact Hu.
    + lia.
    + destruct (N.le_gt_cases u e) as [H'|H']; [lia|].
      rewrite ins_gt in Hu by lia. apply (L_dom _ _ _ HL) in Hu. exact Hu.
  - intros u v x Hu. destruct (N.lt_total u p) as [H|[H|H]].
    + rewrite ins_lt in Hu by auto. apply (L_le _ _ _ HL) in Hu. exact Hu.
    + subst u. rewrite ins_eq in Hu. inversion Hu; subst. exact Hge.
    + destruct (N.le_gt_cases u e) as [H'|H'].
      * rewrite ins_mid in Hu by lia. apply (L_le _ _ _ HL) in Hu. lia.
      * rewrite ins_gt in Hu by lia. apply (L_le _ _ _ HL) in Hu. exact Hu.
  - intros u v x Hu Hv. destruct (N.lt_total u p) as [H|[H|H]].
    + rewrite ins_lt in Hu by auto. rewrite ins_lt by lia. apply (L_prev _ _ _ HL _ _ _ Hu Hv).
    + subst u. rewrite ins_eq in Hu. inversion Hu; subst v x. rewrite ins_lt by lia.
      destruct (F_pre (p - 1)) as ([v' x'] & Ha & Hl); [destruct HC; lia|]. eauto.
    + destruct (N.le_gt_cases u e) as [H'|H'].
      * rewrite ins_mid in Hu by lia. destruct (N.eq_dec (u - 1) p) as [E|E].
        { rewrite E in *. rewrite ins_eq. exists uq, r. split; [reflexivity|]. apply F_at. exact Hu. }
        { rewrite ins_mid by lia. destruct (Hfull (u - 1 - 1)) as ([v' x'] & Ha); [lia|].
          exists v', x'. split; [exact Ha|]. apply (line_sorted n c oc HL (u - 1) (u - 1 - 1)); auto. lia. }
      * rewrite ins_gt in Hu by lia. destruct (L_prev _ _ _ HL _ _ _ Hu Hv) as (v' & x' & Ha & Hl).
        destruct (N.eq_dec (u - 1) e) as [E|E]; [rewrite E in Ha; congruence|].
        rewrite ins_gt by lia. eauto.
  - intros v. unfold fupd. destruct (N.eqb_spec v uq) as [E|E].
    + subst v. split; [intros _; exists p, r; apply ins_eq|auto].
    + rewrite (L_occ _ _ _ HL). split.
      * intros (u & x & Hu). destruct (proj2 (ins_cell_mem (v, x))) as (u' & Hu'); eauto.
      * intros (u & x & Hu). destruct (proj1 (ins_cell_mem (v, x))) as [Ha|(u' & Hu')]; eauto.
        inversion Ha. contradiction.
Qed.

(** ** the bits of the new line in terms of the bits of the old one *)
Lemma ins_shfb u : shfb c' u =
  if u <? p then shfb c u else if u =? p then uq <? p else if u <=? e then true else shfb c u.
Proof.
  unfold shfb. destruct (N.ltb_spec u p) as [H|H]; [rewrite ins_lt by auto; reflexivity|].
  destruct (N.eqb_spec u p) as [E|E]; [subst; rewrite ins_eq; reflexivity|].
  destruct (N.leb_spec u e) as [H'|H']; [|rewrite ins_gt by lia; reflexivity].
  rewrite ins_mid by lia. destruct (Hfull (u - 1)) as ([v x] & Ha); [lia|]. rewrite Ha.
  apply (L_le _ _ _ HL) in Ha. apply N.ltb_lt. lia.
Qed.
Lemma ins_remf u : remf c' u =
  if u <? p then remf c u else if u =? p then r else if u <=? e then remf c (u - 1) else remf c u.
Proof.
  unfold remf. destruct (N.ltb_spec u p) as [H|H]; [rewrite ins_lt by auto; reflexivity|].
  destruct (N.eqb_spec u p) as [E|E]; [subst; rewrite ins_eq; reflexivity|].
  destruct (N.leb_spec u e) as [H'|H']; [rewrite ins_mid by lia|rewrite ins_gt by lia]; reflexivity.
Qed.
(* the continuation bit of the inserted element, and of the element it displaces *)
Definition newcont : bool := (0 <? p) && match c (p - 1) with Some (v', _) => uq =? v' | None => false end.
Definition carrycont : bool := match c p with Some (v, _) => v =? uq | None => false end.
Lemma ins_contb u : contb c' u =
  if u <? p then contb c u else if u =? p then newcont else if u <=? e then (if u =? p + 1 then carrycont else contb c (u - 1))
  else contb c u.
Proof.
  unfold contb. destruct (N.ltb_spec u p) as [H|H].
  { rewrite ins_lt by auto. destruct (N.ltb_spec 0 u); [|reflexivity]. rewrite ins_lt by lia. reflexivity. }
  destruct (N.eqb_spec u p) as [E|E].
  { subst u. unfold newcont. rewrite ins_eq. destruct (N.ltb_spec 0 p); [|reflexivity]. rewrite ins_lt by lia. reflexivity. }
  destruct (N.ltb_spec 0 u); [|lia]. cbn [andb].
  destruct (N.leb_spec u e) as [H'|H'].
  - rewrite ins_mid by lia. destruct (N.eqb_spec u (p + 1)) as [E1|E1].
    + subst u. replace (p + 1 - 1) with p by lia. rewrite ins_eq. unfold carrycont. reflexivity.
    + rewrite ins_mid by lia. destruct (N.ltb_spec 0 (u - 1)); [|lia]. reflexivity.
  - rewrite ins_gt by lia. destruct (N.eq_dec (u - 1) e) as [E1|E1].
    + rewrite E1, He. destruct (c u) as [[v x]|] eqn:Ha; [|reflexivity].
      destruct (N.eq_dec v u) as [Ev|Ev].
      * subst v. destruct (c' e) as [[v' x']|] eqn:Ha'; [|reflexivity].
        apply N.eqb_neq. pose proof (L_le _ _ _ ins_line _ _ _ Ha'). lia.
      * exfalso. destruct (L_prev _ _ _ HL _ _ _ Ha) as (v' & x' & Hb & _).
        { pose proof (L_le _ _ _ HL _ _ _ Ha). lia. }
        rewrite E1 in Hb. congruence.
    + rewrite (ins_gt c p e (uq, r) (u - 1)) by lia. reflexivity.
Qed.

(* the old continuation bit at [p] *)
Lemma old_contb_p_unocc : oc uq = false -> contb c p = false /\ newcont = false /\ carrycont = false.
Proof.
  intros Ho.
  assert (Hne : forall u a, c u = Some a -> fst a <> uq).
  { intros u [v x] Ha E. cbn [fst] in E. subst v.
    assert (oc uq = true) by (apply (L_occ _ _ _ HL); eauto). congruence. }
  split; [|split].
  - destruct (contb c p) eqn:E; [|reflexivity]. exfalso.
    pose proof (contb_shfb n c oc p HL E) as Hs.
    apply contb_true in E as (H0 & v & x & x' & E1 & E2).
    destruct (N.eq_dec p c0) as [Ep|Ep]; [destruct HC as (_ & HC2 & _); congruence|].
    pose proof F_c0.
    destruct (F_pre (p - 1)) as (a & Ha & Hl); [lia|]. rewrite E2 in Ha. inversion Ha; subst a.
    pose proof (F_at _ E1) as Hl'. pose proof (Hne _ _ E1). unfold lexlt in *. cbn [fst snd] in *. lia.
  - unfold newcont. destruct (N.ltb_spec 0 p); [|reflexivity]. cbn [andb].
    destruct (c (p - 1)) as [[v' x']|] eqn:Ea; [|reflexivity]. apply N.eqb_neq.
    pose proof (Hne _ _ Ea). cbn [fst] in *. lia.
  - unfold carrycont. destruct (c p) as [[v x]|] eqn:Ea; [|reflexivity]. apply N.eqb_neq.
    pose proof (Hne _ _ Ea). cbn [fst] in *. lia.
Qed.
Lemma old_contb_p_occ sp r0 : Fpos c c0 (uq, 0) sp -> c sp = Some (uq, r0) -> sp <= p ->
  (sp = p -> contb c p = newcont /\ carrycont = true) /\
  (sp < p -> newcont = true /\ (p < e -> carrycont = contb c p)).
Proof.
  intros HFs Hsp Hle. split.
  - intros ->. unfold contb, newcont, carrycont. rewrite Hsp. rewrite N.eqb_refl. split; reflexivity.
  - intros Hlt. assert (Hprev : exists x, c (p - 1) = Some (uq, x)).
    { destruct (F_pre (p - 1)) as ([v x] & Ha & Hl); [destruct HFs; lia|].
      destruct (N.eq_dec sp (p - 1)) as [Es|Es]; [subst sp; eauto|].
      assert (Hl' : lexlt (uq, r0) (v, x)) by (apply (line_sorted n c oc HL (p - 1) sp); auto; lia).
      assert (v = uq) by (unfold lexlt in *; cbn [fst snd] in *; lia). subst v. eauto. }
    destruct Hprev as (x & Hprev). split.
    + unfold newcont. rewrite Hprev. rewrite N.eqb_refl. destruct (N.ltb_spec 0 p); [reflexivity|lia].
    + intros Hpe'. unfold carrycont, contb. rewrite Hprev. destruct (N.ltb_spec 0 p); [|lia].
      destruct (c p) as [[v y]|]; reflexivity.
Qed.
Lemma old_shfb_p : p = uq -> shfb c p = false.
Proof.
  intros Ep. unfold shfb. destruct (c p) as [[v x]|] eqn:Ea; [|reflexivity].
  pose proof (F_at _ Ea) as Hl. pose proof (L_le _ _ _ HL _ _ _ Ea).
  apply N.ltb_ge. unfold lexlt in Hl. cbn [fst snd] in Hl. lia.
Qed.
End InsLine.

(* ========================================================================= *)
(** * the swap chain                                                         *)
(* ========================================================================= *)
Section Chain.
Variable n : N.
Hypothesis n_pos : 0 < n.
Variable o : N.
Hypothesis o_lt : o < n.
Variable fo : N -> bool.

Definition chainB (pz e : N) (cc : bool) (f : N -> bool) : N -> bool :=
  fun u => if (pz <? u) && (u <=? e) then (if u =? pz + 1 then cc else f (u - 1)) else f u.
Definition chainS (pz e : N) (f : N -> bool) : N -> bool :=
  fun u => if (pz <? u) && (u <=? e) then true else f u.
Definition chainN (pz e : N) (cr : N) (f : N -> N) : N -> N :=
  fun u => if (pz <? u) && (u <=? e) then (if u =? pz + 1 then cr else f (u - 1)) else f u.

Lemma chain_spec start e : e < n -> forall fuel s fc fs fr pz cc cr cu,
  ImgB n o (qocc s) fo -> ImgB n o (qcont s) fc -> ImgB n o (qshf s) fs -> ImgN n o (qrem s) fr ->
  pz <= e -> cu = negb (pz =? e) ->
  (forall w, pz < w < e -> fo w || fs w = true) -> (pz < e -> fo e || fs e = false) ->
  (forall w, pz < w <= e -> sl n o w <> start) ->
  (N.to_nat (e - pz) < fuel)%nat ->
  exists s', chain n s start (sl n o pz) cc cr cu fuel = Some s' /\
    qocc s' = qocc s /\ qcnt s' = qcnt s /\ qbq s' = qbq s /\ qbr s' = qbr s /\
    ImgB n o (qcont s') (chainB pz e cc fc) /\ ImgB n o (qshf s') (chainS pz e fs) /\
    ImgN n o (qrem s') (chainN pz e cr fr).
Proof.
  intros He. induction fuel as [|f IH]; intros s fc fs fr pz cc cr cu Io Ic Is Ir Hpz Hcu Hmid Hend Hst Hf; [lia|].
  cbn [chain]. destruct (N.eqb_spec pz e) as [E|E]; cbn [negb] in Hcu; subst cu; cbn [negb].
  - subst pz. exists s. split; [reflexivity|]. repeat (split; [reflexivity|]).
    split; [|split].
    + eapply ImgB_ext; [exact Ic|]. intros u Hu. unfold chainB.
      destruct (N.ltb_spec e u), (N.leb_spec u e); cbn [andb]; try reflexivity; lia.
    + eapply ImgB_ext; [exact Is|]. intros u Hu. unfold chainS.
      destruct (N.ltb_spec e u), (N.leb_spec u e); cbn [andb]; try reflexivity; lia.
    + eapply ImgN_ext; [exact Ir|]. intros u Hu. unfold chainN.
      destruct (N.ltb_spec e u), (N.leb_spec u e); cbn [andb]; try reflexivity; lia.
  - cbv zeta. assert (Hlt : pz < e) by lia. rewrite sl_incr by lia.
    destruct (N.eqb_spec (sl n o (pz + 1)) start) as [Es|Es]; [exfalso; apply (Hst (pz + 1)); [lia|exact Es]|].
    set (s1 := upd_qf s (qocc s) (setl (qcont s) (sl n o (pz + 1)) cc) (setl (qshf s) (sl n o (pz + 1)) true)
                 (setl (qrem s) (sl n o (pz + 1)) cr) (qcnt s)).
    assert (Hp1 : pz + 1 < n) by lia.
    destruct Io as [Lo Ho], Ic as [Lc Hc], Is as [Ls Hs], Ir as [Lr Hr].
    rewrite (Hc (pz + 1) Hp1), (Hr (pz + 1) Hp1), (Ho (pz + 1) Hp1), (Hs (pz + 1) Hp1).
    destruct (IH s1 (fupd fc (pz + 1) cc) (fupd fs (pz + 1) true) (fupd fr (pz + 1) cr) (pz + 1)
                (fc (pz + 1)) (fr (pz + 1)) (fo (pz + 1) || fs (pz + 1)))
      as (s' & Ec & H1 & H2 & H3 & H4 & H5 & H6 & H7).
    + split; assumption.
    + apply ImgB_setl; auto; split; assumption.
    + apply ImgB_setl; auto; split; assumption.
    + apply ImgN_setl; auto; split; assumption.
    + lia.
    + destruct (N.eqb_spec (pz + 1) e) as [E1|E1]; cbn [negb].
      * rewrite E1. apply Hend. lia.
      * apply Hmid. lia.
    + intros w Hw. rewrite fupd_other by lia. apply Hmid. lia.
    + intros Hw. rewrite fupd_other by lia. apply Hend. lia.
    + intros w Hw. apply Hst. lia.
    + lia.
    + exists s'. split; [exact Ec|]. split; [exact H1|]. split; [exact H2|]. split; [exact H3|]. split; [exact H4|].
      split; [|split].
      * eapply ImgB_ext; [exact H5|]. intros u Hu. unfold chainB, fupd.
        destruct (N.ltb_spec (pz + 1) u), (N.leb_spec u e), (N.ltb_spec pz u); cbn [andb]; try lia;
          repeat match goal with |- context [?a =? ?b] => destruct (N.eqb_spec a b) end; try lia; try reflexivity;
          f_equal; lia.
      * eapply ImgB_ext; [exact H6|]. intros u Hu. unfold chainS, fupd.
        destruct (N.ltb_spec (pz + 1) u), (N.leb_spec u e), (N.ltb_spec pz u); cbn [andb]; try lia;
          repeat match goal with |- context [?a =? ?b] => destruct (N.eqb_spec a b) end; try lia; try reflexivity.
      * eapply ImgN_ext; [exact H7|]. intros u Hu. unfold chainN, fupd.
        destruct (N.ltb_spec (pz + 1) u), (N.leb_spec u e), (N.ltb_spec pz u); cbn [andb]; try lia;
          repeat match goal with |- context [?a =? ?b] => destruct (N.eqb_spec a b) end; try lia; try reflexivity;
          f_equal; lia.
Qed.
End Chain.

(* ========================================================================= *)
(** * insert_internal on a line with an empty last offset                    *)
(* ========================================================================= *)
Section InsertThm.
Variable n : N.
Hypothesis n_pos : 0 < n.
Variable fuel0 : nat.
Hypothesis Hfuel : (N.to_nat n < fuel0)%nat.
Variables (s : qf) (o : N) (c : cellT) (oc : N -> bool).
Hypothesis o_lt : o < n.
Hypothesis HL : Line n c oc.
Hypothesis HR : Rep n s o c oc.
Variables (uq r : N).
Hypothesis uq_lt : uq < n.
Hypothesis Habs : ~ exists u, c u = Some (uq, r).

Lemma first_empty : c (n - 1) = None -> forall k p, N.to_nat (n - 1 - p) = k -> p <= n - 1 ->
  exists e, p <= e <= n - 1 /\ c e = None /\ forall w, p <= w < e -> exists a, c w = Some a.
Proof.
  intros Hlast. induction k as [|k IH]; intros p Hk Hp.
  - exists p. assert (p = n - 1) by lia. subst p. split; [lia|]. split; [exact Hlast|]. intros w Hw. lia.
  - destruct (c p) as [a|] eqn:Ea.
    + destruct (IH (p + 1) ltac:(lia) ltac:(lia)) as (e & H1 & H2 & H3).
      exists e. split; [lia|]. split; [exact H2|]. intros w Hw.
      destruct (N.eq_dec w p) as [->|Hne]; [eauto|apply H3; lia].
    + exists p. split; [lia|]. split; [exact Ea|]. intros w Hw. lia.
Qed.

Section Core.
Variables (c0 p e : N).
Hypothesis HC : CStart c c0 uq.
Hypothesis HF : Fpos c c0 (uq, r) p.
Hypothesis Hpe : p <= e < n.
Hypothesis He : c e = None.
Hypothesis Hfull : forall w, p <= w < e -> exists a, c w = Some a.

Notation c' := (ins_cell c p e (uq, r)).
Notation oc' := (fupd oc uq true).

Local Lemma Xcontb u : contb c' u =
  if u <? p then contb c u else if u =? p then newcont c uq p else
  if u <=? e then (if u =? p + 1 then carrycont c uq p else contb c (u - 1)) else contb c u.
Proof. eapply ins_contb; eauto. Qed.
Local Lemma Xshfb u : shfb c' u =
  if u <? p then shfb c u else if u =? p then uq <? p else if u <=? e then true else shfb c u.
Proof. eapply ins_shfb; eauto. Qed.
Local Lemma Xremf u : remf c' u =
  if u <? p then remf c u else if u =? p then r else if u <=? e then remf c (u - 1) else remf c u.
Proof. eapply ins_remf; eauto. Qed.
Local Lemma Xge : uq <= p.
Proof. eapply F_ge; eauto. Qed.

Lemma insert_core (hr ast : bool) :
  (if hr && negb ast then true else contb c p) = newcont c uq p ->
  (p < e -> contb c p || ast = carrycont c uq p) ->
  exists s2,
    chain n (upd_qf s (qocc s)
               (if hr && negb ast then setl (qcont s) (sl n o p) true else qcont s)
               (if negb (sl n o p =? sl n o uq) then setl (qshf s) (sl n o p) true else qshf s)
               (setl (qrem s) (sl n o p) r) (qcnt s))
          (sl n o p) (sl n o p) (getb (qcont s) (sl n o p) || ast) (getn (qrem s) (sl n o p))
          (getb (qocc s) (sl n o p) || getb (qshf s) (sl n o p)) fuel0 = Some s2 /\
    qcnt s2 = qcnt s /\ qbq s2 = qbq s /\ qbr s2 = qbr s /\
    Rep n (upd_qf s2 (setl (qocc s2) (sl n o uq) true) (qcont s2) (qshf s2) (qrem s2) (qcnt s2 + 1)) o c' oc'.
Proof.
  intros R1 R2. pose proof Xge as Hge. assert (Hpn : p < n) by lia.
  destruct HR as (Io & Ic & Is & Ir).
  set (fc1 := if hr && negb ast then fupd (contb c) p true else contb c).
  set (fs1 := if negb (p =? uq) then fupd (shfb c) p true else shfb c).
  set (s1 := upd_qf s (qocc s) _ _ _ (qcnt s)).
  assert (Ic1 : ImgB n o (qcont s1) fc1).
  { subst s1 fc1. cbn [qcont upd_qf]. destruct (hr && negb ast); [apply ImgB_setl; auto|exact Ic]. }
  assert (Is1 : ImgB n o (qshf s1) fs1).
  { subst s1 fs1. cbn [qshf upd_qf]. rewrite sl_eqb by auto.
    destruct (negb (p =? uq)); [apply ImgB_setl; auto|exact Is]. }
  assert (Ir1 : ImgN n o (qrem s1) (fupd (remf c) p r)).
  { subst s1. cbn [qrem upd_qf]. apply ImgN_setl; auto. }
  assert (Hfs1 : forall w, w <> p -> fs1 w = shfb c w).
  { intros w Hw. subst fs1. destruct (negb (p =? uq)); [apply fupd_other; exact Hw|reflexivity]. }
  assert (Hfc1 : forall w, w <> p -> fc1 w = contb c w).
  { intros w Hw. subst fc1. destruct (hr && negb ast); [apply fupd_other; exact Hw|reflexivity]. }
  destruct (chain_spec n n_pos o o_lt oc (sl n o p) e ltac:(lia) fuel0 s1 fc1 fs1 (fupd (remf c) p r) p
              (getb (qcont s) (sl n o p) || ast) (getn (qrem s) (sl n o p))
              (getb (qocc s) (sl n o p) || getb (qshf s) (sl n o p)))
    as (s2 & Ec & H1 & H2 & H3 & H4 & H5 & H6 & H7); auto.
  - lia.
  - rewrite (rep_used n n_pos s o c oc o_lt HL (conj Io (conj Ic (conj Is Ir))) p Hpn). unfold usedb.
    destruct (N.eqb_spec p e) as [E|E]; cbn [negb].
    + subst p. rewrite He. reflexivity.
    + destruct (Hfull p) as (a & Ha); [lia|]. rewrite Ha. reflexivity.
  - intros w Hw. rewrite Hfs1 by lia. rewrite (used_spec n c oc HL). unfold usedb.
    destruct (Hfull w) as (a & Ha); [lia|]. rewrite Ha. reflexivity.
  - intros Hw. rewrite Hfs1 by lia. rewrite (used_spec n c oc HL). unfold usedb. rewrite He. reflexivity.
  - intros w Hw E. apply (sl_inj n n_pos o o_lt) in E; lia.
  - lia.
  - exists s2. split; [exact Ec|]. split; [exact H2|]. split; [exact H3|]. split; [exact H4|].
    unfold Rep. cbn [qocc qcont qshf qrem upd_qf]. split; [|split; [|split]].
    + rewrite H1. subst s1. cbn [qocc upd_qf]. apply ImgB_setl; auto.
    + eapply ImgB_ext; [exact H5|]. intros u Hu. rewrite Xcontb. unfold chainB.
      rewrite (rep_cont n n_pos s o c oc o_lt HL (conj Io (conj Ic (conj Is Ir))) p) by lia.
      destruct (N.ltb_spec p u) as [L1|L1], (N.leb_spec u e) as [L2|L2], (N.ltb_spec u p) as [L3|L3];
        cbn [andb]; try lia;
        repeat match goal with |- context [?a =? ?b] => destruct (N.eqb_spec a b) end; try lia;
        first [apply R2; lia | apply Hfc1; lia
              | subst u; subst fc1; destruct (hr && negb ast); [rewrite fupd_same|]; exact R1].
    + eapply ImgB_ext; [exact H6|]. intros u Hu. rewrite Xshfb. unfold chainS.
      destruct (N.ltb_spec p u) as [L1|L1], (N.leb_spec u e) as [L2|L2], (N.ltb_spec u p) as [L3|L3];
        cbn [andb]; try lia;
        repeat match goal with |- context [?a =? ?b] => destruct (N.eqb_spec a b) end; try lia;
        first [reflexivity | apply Hfs1; lia | idtac].
      subst u. subst fs1. destruct (N.eqb_spec p uq) as [E2|E2]; cbn [negb].
      * rewrite (old_shfb_p n n_pos c oc HL uq r c0 p e) by auto. symmetry. apply N.ltb_ge. lia.
      * rewrite fupd_same. symmetry. apply N.ltb_lt. lia.
    + eapply ImgN_ext; [exact H7|]. intros u Hu. rewrite Xremf. unfold chainN.
      rewrite (rep_rem n s o c oc (conj Io (conj Ic (conj Is Ir))) p) by lia.
      destruct (N.ltb_spec p u) as [L1|L1], (N.leb_spec u e) as [L2|L2], (N.ltb_spec u p) as [L3|L3];
        cbn [andb]; try lia;
        repeat match goal with |- context [?a =? ?b] => destruct (N.eqb_spec a b) end; try lia;
        first [apply fupd_other; lia | subst u; apply fupd_same
              | subst u; replace (p + 1 - 1) with p by lia; reflexivity].
Qed.
End Core.

Theorem insert_spec : c (n - 1) = None -> qcnt s <> n ->
  exists s' c', qf_insert_internal n fuel0 s (sl n o uq) r = (QOkT, s') /\
    Line n c' (fupd oc uq true) /\ Rep n s' o c' (fupd oc uq true) /\
    qcnt s' = qcnt s + 1 /\ qbq s' = qbq s /\ qbr s' = qbr s /\
    (forall a, (exists u, c' u = Some a) <-> a = (uq, r) \/ exists u, c u = Some a).
Proof.
  intros Hlast Hcnt.
  destruct (scan_spec n n_pos fuel0 Hfuel s o c oc o_lt HL HR uq r true uq_lt)
    as (pr & posr & sor & Escan & Hpr & Hpos).
  destruct (Hpos eq_refl) as (c0 & p & HC & HF & -> & Hsor). clear Hpos.
  assert (pr = false) by (destruct pr; [exfalso; apply Habs, Hpr; reflexivity|reflexivity]). subst pr.
  assert (Hp : p <= n - 1).
  { destruct (N.le_gt_cases p (n - 1)) as [H|H]; [exact H|exfalso].
    destruct HF as (_ & H2 & _). destruct (H2 (n - 1)) as (a & Ha & _); [destruct HC; lia|]. congruence. }
  destruct (first_empty Hlast _ p eq_refl Hp) as (e & Hpe & He & Hfull).
  assert (Hpe' : p <= e < n) by lia.
  unfold qf_insert_internal. rewrite Escan. destruct (N.eqb_spec (qcnt s) n) as [E|_]; [contradiction|].
  cbv zeta.
  assert (Hend : forall s2,
    qcnt s2 = qcnt s /\ qbq s2 = qbq s /\ qbr s2 = qbr s /\
    Rep n (upd_qf s2 (setl (qocc s2) (sl n o uq) true) (qcont s2) (qshf s2) (qrem s2) (qcnt s2 + 1)) o
        (ins_cell c p e (uq, r)) (fupd oc uq true) ->
    exists s' c', (QOkT, upd_qf s2 (setl (qocc s2) (sl n o uq) true) (qcont s2) (qshf s2) (qrem s2) (qcnt s2 + 1)) = (QOkT, s') /\
      Line n c' (fupd oc uq true) /\ Rep n s' o c' (fupd oc uq true) /\
      qcnt s' = qcnt s + 1 /\ qbq s' = qbq s /\ qbr s' = qbr s /\
      (forall a, (exists u, c' u = Some a) <-> a = (uq, r) \/ exists u, c u = Some a)).
  { intros s2 (K1 & K2 & K3 & K4). eexists. exists (ins_cell c p e (uq, r)). split; [reflexivity|].
    split; [eapply ins_line; eauto|]. split; [exact K4|]. cbn [qcnt qbq qbr upd_qf].
    split; [lia|]. split; [exact K2|]. split; [exact K3|]. eapply ins_cell_mem; eauto. }
  destruct (oc uq) eqn:Eo.
  - destruct Hsor as (sp & r0 & -> & HFs & Hsp & Hle).
    pose proof (L_dom _ _ _ HL _ _ _ Hsp) as Hspn.
    destruct (old_contb_p_occ n n_pos c oc HL uq r c0 p e uq_lt HF Hpe' Hfull sp r0 HFs Hsp Hle) as [Q1 Q2].
    destruct (insert_core c0 p e HC HF Hpe' He Hfull true (sl n o sp =? sl n o p)) as (s2 & Ec & K).
    + rewrite sl_eqb by (auto; lia). destruct (N.eqb_spec sp p) as [E|E]; cbn [andb negb].
      * apply Q1. exact E.
      * symmetry. apply Q2. lia.
    + intros Hlt. rewrite sl_eqb by (auto; lia). destruct (N.eqb_spec sp p) as [E|E].
      * rewrite orb_true_r. symmetry. apply Q1. exact E.
      * rewrite orb_false_r. symmetry. apply Q2; lia.
    + cbv beta iota. rewrite Ec. apply Hend. exact K.
  - subst sor.
    destruct (old_contb_p_unocc n n_pos c oc HL uq r c0 p e uq_lt HC HF Habs Hpe' Hfull Eo) as (Q1 & Q2 & Q3).
    destruct (insert_core c0 p e HC HF Hpe' He Hfull false false) as (s2 & Ec & K).
    + cbn [andb]. rewrite Q1, Q2. reflexivity.
    + intros _. rewrite Q1, Q3. reflexivity.
    + cbv beta iota. rewrite Ec. apply Hend. exact K.
Qed.
End InsertThm.

Print Assumptions chain_spec.
Print Assumptions insert_spec.
