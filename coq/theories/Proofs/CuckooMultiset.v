(* Proofs/CuckooMultiset.v — property C14: the cuckoo filter model (Model/Cuckoo.v) is an EXACT
   MULTISET over fingerprint classes, for every hash function [H], every list of 64-bit RNG words
   and every reachable state.

   The class of a key x is [class_of s x = (fingerprint, min i1 i2, max i1 i2)]: its fingerprint
   together with the unordered pair of its two candidate buckets.  [abs s] lists the classes of
   all occupied slots (slot idx lives in bucket idx / bucketsize).  Up to [Permutation]:

     insert x  (Ok)    : abs s' = class_of x :: abs s            (cuckoo_insert_ok)
     insert x  (Full)  : s' = s                                  (cuckoo_insert_full)
     query x           : true  <->  In (class_of x) (abs s)      (cuckoo_query_iff)
     delete x          : removes exactly one class_of x iff present (cuckoo_delete_spec)
     clear             : abs = []                                (cuckoo_clear_abs)
     union a b (Ok)    : abs a' = abs a ++ abs b                 (cuckoo_union_ok)
     union a b (Full)  : a' = a                                  (cuckoo_union_full)
     len               : = |abs s| in every reachable state      (cuckoo_len_reach)

   and for whole histories (insert / delete / clear / union with the filter of a sub-history)
   the multiset accounting statement [reach_accounting]:
     count c (abs s) + #successful deletes of class c = #successful inserts of class c
   (events since the last clear, union contributing the other filter's events), hence no false
   negatives [reach_no_false_negative].

   The RNG words are assumed to be 64-bit values ([wsok]); this is necessary, see the remark
   before [cuckoo_insert_ok]. *)
From PDS Require Import Model.Cuckoo Proofs.CuckooBase.
From Coq Require Import Permutation ZifyN ZifyBool.

Local Open Scope N_scope.
Ltac Zify.zify_post_hook ::= Z.div_mod_to_equations.

Arguments N.add : simpl never.
Arguments N.sub : simpl never.
Arguments N.mul : simpl never.
Arguments N.div : simpl never.
Arguments N.modulo : simpl never.
Arguments N.pow : simpl never.
Arguments N.leb : simpl never.
Arguments N.ltb : simpl never.
Arguments N.eqb : simpl never.
Arguments N.land : simpl never.
Arguments N.lxor : simpl never.
Arguments N.min : simpl never.
Arguments N.max : simpl never.

(* ====================================================================== *)
(** * Well-formed states, the abstraction *)

Definition wfc (s : cuckoo) : Prop :=
  wfp (kbs s) (knb s) /\ 1 < kl s <= 64 /\ wft (kbs s) (knb s) (ktbl s).

(* the same, spelled out *)
Lemma wfc_unfold s :
  wfc s <->
  (2 <= kbs s /\ is_pow2 (knb s) = true /\ 2 <= knb s /\ kbs s * knb s < 2 ^ 64) /\
  1 < kl s <= 64 /\
  (kbs s * knb s <= N.of_nat (length (ktbl s)) /\
   forall k, kbs s * knb s <= k -> getD 0 (ktbl s) k = 0).
Proof. reflexivity. Qed.

(* configuration + allocated table length: constant over the life of a filter *)
Definition shape (s : cuckoo) : N * N * N * nat := (kbs s, knb s, kl s, length (ktbl s)).

Lemma mk_id s : mk s (ktbl s) (kn s) = s.
Proof. destruct s; reflexivity. Qed.

Lemma alloc_enough l n : 0 < l -> n <= 64 * alloc_blocks l n / l.
Proof.
  intros Hl. unfold alloc_blocks. cbv zeta.
  apply N.div_le_lower_bound; [lia|].
  destruct (N.eqb_spec ((l * n) mod 64) 0); lia.
Qed.

Lemma getD_repeat0 n k : getD 0 (repeat 0 n) k = 0.
Proof. unfold getD. apply nth_repeat. Qed.

Theorem cuckoo_new_wfc bs nb l s : cuckoo_new bs nb l = Some s ->
  wfc s /\ kn s = 0 /\ kbs s = bs /\ knb s = nb /\ kl s = l /\ exists n, ktbl s = repeat 0 n.
Proof.
  unfold cuckoo_new.
  destruct (N.leb_spec 2 bs) as [H1|]; [|discriminate].
  destruct (is_pow2 nb) eqn:H2; [|discriminate].
  destruct (N.leb_spec 2 nb) as [H3|]; [|discriminate].
  destruct (N.ltb_spec 1 l) as [H4|]; [|discriminate].
  destruct (N.leb_spec l 64) as [H5|]; [|discriminate].
  destruct (N.ltb_spec (nb * bs) (2 ^ 64)) as [H6|]; [|discriminate].
  destruct (N.ltb_spec (l * (nb * bs)) (2 ^ 64)) as [H7|]; [|discriminate].
  cbn [andb]. intros E. injection E as <-. cbn [kbs knb kl ktbl kn].
  split; [|repeat split; eauto].
  unfold wfc, wfp, wft. cbn [kbs knb kl ktbl kn].
  split; [repeat split; try assumption; lia|]. split; [lia|]. split.
  - rewrite repeat_length. pose proof (alloc_enough l (nb * bs)). lia.
  - intros k _. apply getD_repeat0.
Qed.

Section Ops.
Variable H : hashfn.

Definition abs (s : cuckoo) : list (N * N * N) := absl H (kbs s) (knb s) (ktbl s) 0.

(* class of a key: fingerprint + unordered pair of candidate buckets *)
Definition class_of (s : cuckoo) (x : N) : N * N * N :=
  cls H (knb s) (fpr H (kl s) x) (hb H (knb s) x).

(* [abs] only looks at the slots below bs*nb; the tail of a well-formed table is empty *)
Lemma abs_spec s c : In c (abs s) <->
  exists idx, getD 0 (ktbl s) idx <> 0 /\ c = cls H (knb s) (getD 0 (ktbl s) idx) (idx / kbs s).
Proof. apply In_absl. Qed.

Lemma abs_idx_lt s idx : wfc s -> getD 0 (ktbl s) idx <> 0 -> idx < kbs s * knb s.
Proof. intros [_ [_ [_ Hz]]] Hn. destruct (N.lt_ge_cases idx (kbs s * knb s)) as [L|G]; [exact L|]. exfalso. apply Hn, Hz, G. Qed.

(* equivalently: only the first bs*nb slots are inspected *)
Lemma abs_firstn s : wfc s ->
  abs s = absl H (kbs s) (knb s) (firstn (N.to_nat (kbs s * knb s)) (ktbl s)) 0.
Proof.
  intros [_ [_ [Hlen Hz]]]. unfold abs.
  rewrite <- (firstn_skipn (N.to_nat (kbs s * knb s)) (ktbl s)) at 1.
  rewrite absl_app. rewrite (absl_zeros H (kbs s) (knb s) (skipn (N.to_nat (kbs s * knb s)) (ktbl s))); [rewrite app_nil_r; reflexivity|].
  intros k. rewrite nth_skipn. specialize (Hz (kbs s * knb s + N.of_nat k)). unfold getD in Hz.
  replace (N.to_nat (kbs s * knb s + N.of_nat k)) with (N.to_nat (kbs s * knb s) + k)%nat in Hz by lia.
  apply Hz. lia.
Qed.

Lemma fpr_nz l x : fpr H l x <> 0.
Proof. unfold fpr. lia. Qed.

Lemma start_eq nb l x :
  start H nb l x = (fpr H l x, hb H nb x, N.lxor (hb H nb x) (hb H nb (fpr H l x))).
Proof. reflexivity. Qed.

(* the two candidate buckets of x give the same class *)
Lemma class_of_alt s x :
  class_of s x = cls H (knb s) (fpr H (kl s) x) (N.lxor (hb H (knb s) x) (hb H (knb s) (fpr H (kl s) x))).
Proof. unfold class_of. rewrite cls_alt. reflexivity. Qed.

(* ====================================================================== *)
(** * 1. insert *)

(* Remark (RNG words).  [gen_range 0 bs] returns [(w * bs) / 2^64]; this is below [bs] only for
   words w < 2^64.  With a larger "word" the victim slot [i*bs + e] leaves bucket i and the
   statement below is false of the model — so the hypothesis [wsok ws] (every word is a 64-bit
   value, which is what rand's next_u64 returns) cannot be dropped. *)
Theorem cuckoo_insert_ok s x ws r s' ws' :
  wfc s -> wsok ws -> cuckoo_insert H s x ws = Some (IOk r, s', ws') ->
  r = true /\ wfc s' /\ Permutation (abs s') (class_of s x :: abs s) /\ kn s' = kn s + 1 /\
  shape s' = shape s /\ suffix ws' ws.
Proof.
  intros [Hp [Hl Ht]] Hw. unfold cuckoo_insert. rewrite start_eq.
  destruct (insert_internal H (kbs s) (knb s) (ktbl s) (fpr H (kl s) x) (hb H (knb s) x)
              (N.lxor (hb H (knb s) x) (hb H (knb s) (fpr H (kl s) x))) [] ws) as [t lg ws1|t lg ws1|] eqn:E;
    intros E'; [|discriminate|discriminate].
  injection E' as <- <- <-.
  apply insert_internal_ok in E; try assumption; [|apply fpr_nz|apply hb_lt; apply Hp].
  destruct E as [A [B [C [_ F]]]].
  split; [reflexivity|]. split; [|split; [|split; [|split]]].
  - unfold wfc. cbn [mk kbs knb kl ktbl]. auto.
  - unfold abs, class_of. cbn [mk kbs knb kl ktbl]. exact C.
  - reflexivity.
  - unfold shape. cbn [mk kbs knb kl ktbl]. rewrite B. reflexivity.
  - exact F.
Qed.

(* a failed insert (Err(CuckooFilterFull)) leaves the filter untouched *)
Theorem cuckoo_insert_full s x ws s' ws' :
  wfc s -> wsok ws -> cuckoo_insert H s x ws = Some (IFull, s', ws') -> s' = s /\ suffix ws' ws.
Proof.
  intros [Hp [Hl Ht]] Hw. unfold cuckoo_insert. rewrite start_eq.
  destruct (insert_internal H (kbs s) (knb s) (ktbl s) (fpr H (kl s) x) (hb H (knb s) x)
              (N.lxor (hb H (knb s) x) (hb H (knb s) (fpr H (kl s) x))) [] ws) as [t lg ws1|t lg ws1|] eqn:E;
    intros E'; [discriminate| |discriminate].
  injection E' as <- <-.
  apply insert_internal_full in E; try assumption; [|apply hb_lt; apply Hp].
  destruct E as [A B]. split; [|exact B]. rewrite A. cbn [restore fold_left]. apply mk_id.
Qed.

(* 6. a free slot in a candidate bucket: insert succeeds without touching the RNG *)
Theorem cuckoo_insert_free_slot s x ws idx :
  wfc s ->
  (let '(_, i1, i2) := start H (knb s) (kl s) x in idx / kbs s = i1 \/ idx / kbs s = i2) ->
  getD 0 (ktbl s) idx = 0 ->
  exists s', cuckoo_insert H s x ws = Some (IOk true, s', ws).
Proof.
  intros [Hp [Hl Ht]]. rewrite start_eq. intros Hidx Hz. unfold cuckoo_insert. rewrite start_eq.
  pose proof Hp as [Hbs [Hpow [Hnb Hlt]]].
  assert (Hi1 : hb H (knb s) x < knb s) by (apply hb_lt; exact Hpow).
  assert (Hi2 : N.lxor (hb H (knb s) x) (hb H (knb s) (fpr H (kl s) x)) < knb s) by (apply alt_lt; assumption).
  assert (Hin : inb (kbs s) (hb H (knb s) x) idx \/
                inb (kbs s) (N.lxor (hb H (knb s) x) (hb H (knb s) (fpr H (kl s) x))) idx).
  { destruct Hidx as [<-|<-]; [left|right]; apply div_inb; lia. }
  destruct (insert_internal_free H (kbs s) (knb s) (ktbl s) (fpr H (kl s) x) _ _ [] ws idx Ht Hi1 Hi2 Hin Hz)
    as [t' [lg' ->]]. eauto.
Qed.

(* ====================================================================== *)
(** * 2. query *)

Theorem cuckoo_query_iff s x : wfc s -> (cuckoo_query H s x = true <-> In (class_of s x) (abs s)).
Proof.
  intros [Hp _]. unfold cuckoo_query. rewrite start_eq. rewrite orb_true_iff.
  unfold abs, class_of. rewrite In_cls_iff; [reflexivity| |apply fpr_nz]. destruct Hp. lia.
Qed.

(* ====================================================================== *)
(** * 3. delete *)

Theorem cuckoo_delete_spec s x r s' :
  wfc s -> cuckoo_delete H s x = (r, s') ->
  wfc s' /\ shape s' = shape s /\
  (r = true <-> In (class_of s x) (abs s)) /\
  (r = true -> Permutation (abs s) (class_of s x :: abs s') /\ kn s' = kn s - 1) /\
  (r = false -> s' = s).
Proof.
  intros Hwf. pose proof Hwf as [Hp [Hl Ht]]. pose proof Hp as [Hbs [Hpow [Hnb Hlt]]].
  rewrite <- (cuckoo_query_iff s x Hwf).
  unfold cuckoo_delete, cuckoo_query. rewrite !start_eq.
  set (f := fpr H (kl s) x). set (i1 := hb H (knb s) x). set (i2 := N.lxor i1 (hb H (knb s) f)).
  assert (Hf : f <> 0) by apply fpr_nz.
  assert (Hi1 : i1 < knb s) by (apply hb_lt; exact Hpow).
  assert (Hi2 : i2 < knb s) by (apply alt_lt; assumption).
  assert (Hrm : forall i t, i < knb s -> cls H (knb s) f i = class_of s x ->
            remove_from_bucket (kbs s) (ktbl s) i f = Some t ->
            has_in_bucket (kbs s) (ktbl s) i f = true /\
            wfc (mk s t (kn s - 1)) /\ shape (mk s t (kn s - 1)) = shape s /\
            Permutation (abs s) (class_of s x :: abs (mk s t (kn s - 1)))).
  { intros i t Hi Hc Er. apply (remove_Some _ _ _ _ _ Hf) in Er. destruct Er as [sl [Hs [Hg ->]]].
    split; [apply has_in_bucket_iff; eauto|]. split; [|split].
    - unfold wfc. cbn [mk kbs knb kl ktbl]. split; [exact Hp|split; [exact Hl|]].
      apply (wft_upd _ _ _ i); assumption.
    - unfold shape. cbn [mk kbs knb kl ktbl]. rewrite upd_length. reflexivity.
    - unfold abs. cbn [mk kbs knb kl ktbl]. rewrite <- Hc. apply absl_take; assumption. }
  destruct (remove_from_bucket (kbs s) (ktbl s) i1 f) as [t|] eqn:E1.
  { intros E. injection E as <- <-. destruct (Hrm i1 t Hi1 eq_refl E1) as [A [B [C D]]].
    rewrite A. cbn [orb]. split; [exact B|]. split; [exact C|]. split; [tauto|]. split; [intros _; split; [exact D|reflexivity]|discriminate]. }
  destruct (remove_from_bucket (kbs s) (ktbl s) i2 f) as [t|] eqn:E2.
  { intros E. injection E as <- <-.
    destruct (Hrm i2 t Hi2 (eq_sym (class_of_alt s x)) E2) as [A [B [C D]]].
    rewrite A, orb_true_r. split; [exact B|]. split; [exact C|]. split; [tauto|]. split; [intros _; split; [exact D|reflexivity]|discriminate]. }
  intros E. injection E as <- <-.
  rewrite (remove_None _ _ _ _ Hf E1), (remove_None _ _ _ _ Hf E2). cbn [orb].
  split; [exact Hwf|]. split; [reflexivity|]. split; [tauto|]. split; [discriminate|reflexivity].
Qed.

(* ====================================================================== *)
(** * 7. clear *)

Theorem cuckoo_clear_abs s : abs (cuckoo_clear s) = [] /\ kn (cuckoo_clear s) = 0.
Proof. split; [|reflexivity]. unfold abs, cuckoo_clear. cbn [mk kbs knb kl ktbl]. apply absl_repeat0. Qed.

Lemma cuckoo_clear_wfc s : wfc s -> wfc (cuckoo_clear s) /\ shape (cuckoo_clear s) = shape s.
Proof.
  intros [Hp [Hl [Ht _]]]. unfold cuckoo_clear, wfc, shape. cbn [mk kbs knb kl ktbl]. rewrite repeat_length.
  split; [|reflexivity]. split; [exact Hp|split; [exact Hl|]]. split.
  - rewrite repeat_length. exact Ht.
  - intros k _. apply getD_repeat0.
Qed.

(* clearing gives back the freshly constructed filter of the same shape *)
Lemma cuckoo_clear_fresh s s0 :
  shape s = shape s0 -> kn s0 = 0 -> (exists n, ktbl s0 = repeat 0 n) -> cuckoo_clear s = s0.
Proof.
  unfold shape. intros Es Hn [n Hr]. injection Es as E1 E2 E3 E4.
  unfold cuckoo_clear, mk. destruct s0 as [a b c t m]. cbn [kbs knb kl ktbl kn] in *. subst.
  rewrite E4, repeat_length. reflexivity.
Qed.

(* ====================================================================== *)
(** * 8. union *)

Section UnionLoop.
Variables bs nb : N.

Lemma union_loop_spec slots : forall t n lg ws idx r t' n' lg' ws',
  wfp bs nb -> wft bs nb t -> wsok ws ->
  (forall k, bs * nb <= idx + N.of_nat k -> nth k slots 0 = 0) ->
  union_loop H bs nb t n lg ws slots idx = Some (r, t', n', lg', ws') ->
  suffix ws' ws /\ restore t' lg' = restore t lg /\
  (r = true -> wft bs nb t' /\ length t' = length t /\
               Permutation (absl H bs nb t' 0) (absl H bs nb t 0 ++ absl H bs nb slots idx) /\
               n' = n + N.of_nat (length (absl H bs nb slots idx))).
Proof.
  induction slots as [|f rest IH]; intros t n lg ws idx r t' n' lg' ws' Hp Ht Hw Htail E; cbn [union_loop] in E.
  { injection E as <- <- <- <- <-. split; [apply suffix_refl|]. split; [reflexivity|]. intros _.
    cbn [absl length]. rewrite app_nil_r. repeat split; try apply Ht; auto. lia. }
  assert (Htail' : forall k, bs * nb <= idx + 1 + N.of_nat k -> nth k rest 0 = 0).
  { intros k Hk. apply (Htail (S k)). lia. }
  destruct (N.eqb_spec f 0) as [->|Hf].
  { apply IH in E; try assumption. }
  pose proof Hp as [Hbs [Hpow [Hnb Hlt]]].
  assert (Hidx : idx < bs * nb).
  { destruct (N.lt_ge_cases idx (bs * nb)) as [L|G]; [exact L|]. exfalso. apply Hf. apply (Htail O). lia. }
  assert (Hi1 : idx / bs < nb) by (apply N.div_lt_upper_bound; lia).
  destruct (insert_internal H bs nb t f (idx / bs) (N.lxor (idx / bs) (hb H nb f)) lg ws) as [t1 lg1 ws1|t1 lg1 ws1|] eqn:Ei;
    [| |discriminate].
  - apply insert_internal_ok in Ei; try assumption. destruct Ei as [A [B [C [D F]]]].
    apply IH in E; try assumption; [|eapply suffix_wsok; eassumption].
    destruct E as [S1 [R1 K]]. split; [eapply suffix_trans; eassumption|]. split; [congruence|].
    intros Hr. destruct (K Hr) as [K1 [K2 [K3 K4]]]. split; [exact K1|]. split; [congruence|].
    cbn [absl]. rewrite (cl1_nz H bs nb f idx Hf). cbn [app length]. split; [|lia].
    eapply perm_trans; [exact K3|]. eapply perm_trans; [apply Permutation_app_tail; exact C|].
    cbn [app]. apply Permutation_middle.
  - injection E as <- <- <- <- <-. apply insert_internal_full in Ei; try assumption.
    destruct Ei as [A B]. split; [exact B|]. split; [exact A|]. discriminate.
Qed.
End UnionLoop.

Lemma union_cfg a b :
  (kbs a =? kbs b) && (knb a =? knb b) && (kl a =? kl b) = true -> kbs a = kbs b /\ knb a = knb b /\ kl a = kl b.
Proof.
  intros E. apply andb_true_iff in E. destruct E as [E E3]. apply andb_true_iff in E. destruct E as [E1 E2].
  apply N.eqb_eq in E1, E2, E3. auto.
Qed.

Lemma wfc_tail b k : wfc b -> kbs b * knb b <= 0 + N.of_nat k -> nth k (ktbl b) 0 = 0.
Proof.
  intros [_ [_ [_ Hz]]] Hk. specialize (Hz (N.of_nat k)). unfold getD in Hz. rewrite Nat2N.id in Hz. apply Hz. lia.
Qed.

Theorem cuckoo_union_ok a b ws a' ws' :
  wfc a -> wfc b -> wsok ws -> cuckoo_union H a b ws = Some (true, a', ws') ->
  wfc a' /\ shape a' = shape a /\ Permutation (abs a') (abs a ++ abs b) /\
  kn a' = kn a + N.of_nat (length (abs b)) /\ suffix ws' ws.
Proof.
  intros Ha Hb Hw. pose proof Ha as [Hp [Hl Ht]]. unfold cuckoo_union.
  destruct ((kbs a =? kbs b) && (knb a =? knb b) && (kl a =? kl b)) eqn:Ec; [|discriminate].
  apply union_cfg in Ec. destruct Ec as [E1 [E2 E3]].
  destruct (union_loop H (kbs a) (knb a) (ktbl a) (kn a) [] ws (ktbl b) 0) as [[[[[r t] n] lg] ws1]|] eqn:E; [|discriminate].
  destruct r; intros E'; [|discriminate]. injection E' as <- <-.
  apply union_loop_spec in E; try assumption.
  2:{ intros k Hk. apply wfc_tail; [exact Hb|]. rewrite <- E1, <- E2. exact Hk. }
  destruct E as [S1 [_ K]]. destruct (K eq_refl) as [K1 [K2 [K3 K4]]].
  split; [|split; [|split; [|split]]].
  - unfold wfc. cbn [mk kbs knb kl ktbl]. auto.
  - unfold shape. cbn [mk kbs knb kl ktbl]. rewrite K2. reflexivity.
  - unfold abs. cbn [mk kbs knb kl ktbl]. rewrite <- E1, <- E2. exact K3.
  - unfold abs. cbn [mk kn]. rewrite <- E1, <- E2. exact K4.
  - exact S1.
Qed.

(* a failed union (Err(CuckooFilterFull)) leaves the receiver untouched *)
Theorem cuckoo_union_full a b ws a' ws' :
  wfc a -> wfc b -> wsok ws -> cuckoo_union H a b ws = Some (false, a', ws') -> a' = a /\ suffix ws' ws.
Proof.
  intros Ha Hb Hw. pose proof Ha as [Hp [Hl Ht]]. unfold cuckoo_union.
  destruct ((kbs a =? kbs b) && (knb a =? knb b) && (kl a =? kl b)) eqn:Ec; [|discriminate].
  apply union_cfg in Ec. destruct Ec as [E1 [E2 E3]].
  destruct (union_loop H (kbs a) (knb a) (ktbl a) (kn a) [] ws (ktbl b) 0) as [[[[[r t] n] lg] ws1]|] eqn:E; [|discriminate].
  destruct r; intros E'; [discriminate|]. injection E' as <- <-.
  apply union_loop_spec in E; try assumption.
  2:{ intros k Hk. apply wfc_tail; [exact Hb|]. rewrite <- E1, <- E2. exact Hk. }
  destruct E as [S1 [R _]]. split; [|exact S1]. rewrite R. cbn [restore fold_left]. apply mk_id.
Qed.

(* ====================================================================== *)
(** * 4. the length invariant *)

Definition Inv (s : cuckoo) : Prop := wfc s /\ kn s = N.of_nat (length (abs s)).

Theorem Inv_new bs nb l s : cuckoo_new bs nb l = Some s -> Inv s.
Proof.
  intros E. apply cuckoo_new_wfc in E. destruct E as [Hw [Hn [_ [_ [_ [n Hr]]]]]].
  split; [exact Hw|]. unfold abs. rewrite Hr, absl_repeat0, Hn. reflexivity.
Qed.

Theorem Inv_insert s x ws r s' ws' :
  Inv s -> wsok ws -> cuckoo_insert H s x ws = Some (r, s', ws') -> Inv s'.
Proof.
  intros [Hw Hn] Hws E. destruct r as [b|].
  - apply cuckoo_insert_ok in E; try assumption. destruct E as [_ [A [B [C _]]]].
    split; [exact A|]. rewrite C, (Permutation_length B), Hn. cbn [length]. lia.
  - apply cuckoo_insert_full in E; try assumption. destruct E as [-> _]. split; assumption.
Qed.

Theorem Inv_delete s x r s' : Inv s -> cuckoo_delete H s x = (r, s') -> Inv s'.
Proof.
  intros [Hw Hn] E. apply cuckoo_delete_spec in E; [|exact Hw]. destruct E as [A [_ [_ [B C]]]].
  split; [exact A|]. destruct r.
  - destruct (B eq_refl) as [P K]. rewrite K, Hn, (Permutation_length P). cbn [length]. lia.
  - rewrite (C eq_refl). exact Hn.
Qed.

Theorem Inv_clear s : Inv s -> Inv (cuckoo_clear s).
Proof.
  intros [Hw _]. split; [apply cuckoo_clear_wfc; exact Hw|].
  destruct (cuckoo_clear_abs s) as [-> ->]. reflexivity.
Qed.

Theorem Inv_union a b ws r a' ws' :
  Inv a -> Inv b -> wsok ws -> cuckoo_union H a b ws = Some (r, a', ws') -> Inv a'.
Proof.
  intros [Hwa Hna] [Hwb Hnb] Hws E. destruct r.
  - apply cuckoo_union_ok in E; try assumption. destruct E as [A [_ [P [K _]]]].
    split; [exact A|]. rewrite K, Hna, (Permutation_length P), app_length. lia.
  - apply cuckoo_union_full in E; try assumption. destruct E as [-> _]. split; assumption.
Qed.

(* ====================================================================== *)
(** * 5. fewer than bucketsize stored elements: insert always succeeds, no RNG word consumed *)

Theorem cuckoo_small_succeeds s x ws :
  Inv s -> kn s < kbs s -> exists s', cuckoo_insert H s x ws = Some (IOk true, s', ws).
Proof.
  intros [Hw Hn] Hsmall. pose proof Hw as [Hp [Hl Ht]]. pose proof Hp as [Hbs [Hpow [Hnb Hlt]]].
  set (i1 := hb H (knb s) x).
  assert (Hi1 : i1 < knb s) by (apply hb_lt; exact Hpow).
  (* bucket i1 cannot be full *)
  assert (Hex : exists idx, inb (kbs s) i1 idx /\ getD 0 (ktbl s) idx = 0).
  { destruct (find_slot (ktbl s) (i1 * kbs s) (N.to_nat (kbs s)) 0) as [idx|] eqn:Ef.
    - apply find_slot_Some in Ef. exists idx. unfold inb. split; [lia|tauto].
    - exfalso. pose proof (find_slot_None _ _ _ _ Ef) as Hfull.
      assert (Hocc : kbs s <= N.of_nat (occ (ktbl s))).
      { apply (full_bucket_occ (kbs s) (ktbl s) i1). intros sl Hs. apply Hfull. unfold inb in Hs. lia. }
      unfold abs in Hn. rewrite absl_length in Hn. lia. }
  destruct Hex as [idx [Hin Hz]].
  apply (cuckoo_insert_free_slot s x ws idx Hw); [|exact Hz].
  rewrite start_eq. left. apply inb_div. exact Hin.
Qed.

End Ops.

(* ====================================================================== *)
(** * 9. Histories: multiset accounting, no false negatives *)

(* operations on one filter; [OUni h] = union with the filter built by the sub-history [h]
   (starting from a fresh filter of the same configuration) *)
Inductive op := OIns (x : N) | ODel (x : N) | OClr | OUni (h : list op).

Lemma op_ind' (P : op -> Prop) :
  (forall x, P (OIns x)) -> (forall x, P (ODel x)) -> P OClr -> (forall h, Forall P h -> P (OUni h)) ->
  forall o, P o.
Proof.
  intros HI HD HC HU. fix IH 1. intros [x|x| |h]; [apply HI|apply HD|apply HC|].
  apply HU. revert h. fix IHl 1. intros [|o r]; [constructor|]. constructor; [apply IH|apply IHl].
Qed.

(* ghost events: successful insert / successful delete of a class; newest first; reset by clear *)
Inductive ev := EIns (c : N * N * N) | EDel (c : N * N * N).

Definition cls_dec : forall a b : N * N * N, {a = b} + {a <> b}.
Proof. decide equality; [apply N.eq_dec|decide equality; apply N.eq_dec]. Defined.

Fixpoint nins (c : N * N * N) (e : list ev) : nat :=
  match e with
  | [] => O
  | EIns c' :: r => ((if cls_dec c' c then 1 else 0) + nins c r)%nat
  | EDel _ :: r => nins c r
  end.
Fixpoint ndel (c : N * N * N) (e : list ev) : nat :=
  match e with
  | [] => O
  | EDel c' :: r => ((if cls_dec c' c then 1 else 0) + ndel c r)%nat
  | EIns _ :: r => ndel c r
  end.

Lemma nins_app c e1 e2 : nins c (e1 ++ e2) = (nins c e1 + nins c e2)%nat.
Proof. induction e1 as [|[c'|c'] r IH]; cbn [app nins]; lia. Qed.
Lemma ndel_app c e1 e2 : ndel c (e1 ++ e2) = (ndel c e1 + ndel c e2)%nat.
Proof. induction e1 as [|[c'|c'] r IH]; cbn [app ndel]; lia. Qed.

(* run state: filter, remaining RNG words, events since the last clear *)
Definition rstate : Type := cuckoo * list N * list ev.

Section Hist.
Variable H : hashfn.
Variable s0 : cuckoo.      (* the freshly constructed filter *)

Fixpoint step (o : op) (st : rstate) {struct o} : option rstate :=
  match o with
  | OIns x =>
      let '(s, ws, e) := st in
      match cuckoo_insert H s x ws with
      | Some (IOk _, s', ws') => Some (s', ws', EIns (class_of H s x) :: e)
      | Some (IFull, s', ws') => Some (s', ws', e)
      | None => None
      end
  | ODel x =>
      let '(s, ws, e) := st in
      let '(r, s') := cuckoo_delete H s x in
      Some (s', ws, if r then EDel (class_of H s x) :: e else e)
  | OClr => let '(s, ws, e) := st in Some (cuckoo_clear s, ws, [])
  | OUni h =>
      let '(s, ws, e) := st in
      match (fix runl (h : list op) (st : rstate) {struct h} : option rstate :=
               match h with
               | [] => Some st
               | o :: r => match step o st with Some st' => runl r st' | None => None end
               end) h (s0, ws, []) with
      | Some (b, ws1, eb) =>
          match cuckoo_union H s b ws1 with
          | Some (true, s', ws2) => Some (s', ws2, eb ++ e)
          | Some (false, s', ws2) => Some (s', ws2, e)
          | None => None
          end
      | None => None
      end
  end.

Fixpoint run (h : list op) (st : rstate) : option rstate :=
  match h with
  | [] => Some st
  | o :: r => match step o st with Some st' => run r st' | None => None end
  end.

Lemma step_uni h s ws e :
  step (OUni h) (s, ws, e) =
  match run h (s0, ws, []) with
  | Some (b, ws1, eb) =>
      match cuckoo_union H s b ws1 with
      | Some (true, s', ws2) => Some (s', ws2, eb ++ e)
      | Some (false, s', ws2) => Some (s', ws2, e)
      | None => None
      end
  | None => None
  end.
Proof. reflexivity. Qed.

(* s0 is a freshly constructed filter *)
Definition fresh : Prop := exists bs nb l, cuckoo_new bs nb l = Some s0.

Lemma class_of_shape s x : shape s = shape s0 -> class_of H s x = class_of H s0 x.
Proof. unfold shape, class_of. intros E. injection E as _ -> -> _. reflexivity. Qed.

Definition good (st : rstate) : Prop :=
  let '(s, ws, e) := st in
  Inv H s /\ shape s = shape s0 /\ wsok ws /\
  forall c, (count_occ cls_dec (abs H s) c + ndel c e = nins c e)%nat.

Lemma good_start ws : fresh -> wsok ws -> good (s0, ws, []).
Proof.
  intros Hnew Hw. destruct Hnew as [bs [nb [l E]]]. pose proof (Inv_new H _ _ _ _ E) as Hi.
  apply cuckoo_new_wfc in E. destruct E as [_ [_ [_ [_ [_ [n Hr]]]]]].
  unfold good. repeat split; try apply Hi; auto.
  intros c. unfold abs. rewrite Hr, absl_repeat0. reflexivity.
Qed.

Lemma step_good : fresh -> forall o st st', good st -> step o st = Some st' -> good st'.
Proof.
  intros Hnew. induction o as [x|x| |h IHh] using op_ind'; intros [[s ws] e] st' [Hi [Hsh [Hw Hacc]]] E.
  - (* insert *)
    cbn [step] in E. destruct (cuckoo_insert H s x ws) as [[[[b|] s1] ws1]|] eqn:Ei; [| |discriminate];
      injection E as <-.
    + pose proof (Inv_insert H _ _ _ _ _ _ Hi Hw Ei) as Hi1.
      apply cuckoo_insert_ok in Ei; [|apply Hi|exact Hw]. destruct Ei as [_ [_ [P [_ [Sh Sf]]]]].
      unfold good. split; [exact Hi1|]. split; [congruence|]. split; [eapply suffix_wsok; eassumption|].
      intros c. rewrite (proj1 (Permutation_count_occ cls_dec _ _) P c). specialize (Hacc c).
      cbn [count_occ nins ndel]. destruct (cls_dec (class_of H s x) c); lia.
    + apply cuckoo_insert_full in Ei; [|apply Hi|exact Hw]. destruct Ei as [-> Sf].
      unfold good. split; [exact Hi|]. split; [exact Hsh|]. split; [eapply suffix_wsok; eassumption|exact Hacc].
  - (* delete *)
    cbn [step] in E. destruct (cuckoo_delete H s x) as [r s1] eqn:Ed. injection E as <-.
    pose proof (Inv_delete H _ _ _ _ Hi Ed) as Hi1.
    apply cuckoo_delete_spec in Ed; [|apply Hi]. destruct Ed as [_ [Sh [_ [B C]]]].
    unfold good. split; [exact Hi1|]. split; [congruence|]. split; [exact Hw|].
    intros c. specialize (Hacc c). destruct r.
    + destruct (B eq_refl) as [P _]. rewrite (proj1 (Permutation_count_occ cls_dec _ _) P c) in Hacc.
      cbn [count_occ nins ndel] in *. destruct (cls_dec (class_of H s x) c); lia.
    + rewrite (C eq_refl). exact Hacc.
  - (* clear *)
    cbn [step] in E. injection E as <-. unfold good.
    split; [apply Inv_clear; exact Hi|]. split; [rewrite <- Hsh; apply cuckoo_clear_wfc; apply Hi|].
    split; [exact Hw|]. intros c. destruct (cuckoo_clear_abs H s) as [-> _]. reflexivity.
  - (* union *)
    rewrite step_uni in E.
    assert (Hrun : forall h', Forall (fun o => forall st st', good st -> step o st = Some st' -> good st') h' ->
                     forall st st', good st -> run h' st = Some st' -> good st').
    { induction h' as [|o r IHr]; intros HF st1 st2 Hg Er; cbn [run] in Er.
      - injection Er as <-. exact Hg.
      - inversion HF as [|? ? Ho Hr']; subst. destruct (step o st1) as [st3|] eqn:Es; [|discriminate].
        apply (IHr Hr' st3 st2); [|exact Er]. apply (Ho st1 st3 Hg Es). }
    destruct (run h (s0, ws, [])) as [[[b ws1] eb]|] eqn:Er; [|discriminate].
    apply (Hrun h IHh) in Er; [|apply good_start; assumption]. destruct Er as [Hib [Hshb [Hwb Haccb]]].
    destruct (cuckoo_union H s b ws1) as [[[r s1] ws2]|] eqn:Eu; [|discriminate].
    pose proof (Inv_union H _ _ _ _ _ _ Hi Hib Hwb Eu) as Hi1.
    destruct r; injection E as <-.
    + apply cuckoo_union_ok in Eu; [|apply Hi|apply Hib|exact Hwb]. destruct Eu as [_ [Sh [P [_ Sf]]]].
      unfold good. split; [exact Hi1|]. split; [congruence|]. split; [eapply suffix_wsok; eassumption|].
      intros c. rewrite (proj1 (Permutation_count_occ cls_dec _ _) P c), count_occ_app, nins_app, ndel_app.
      specialize (Hacc c). specialize (Haccb c). lia.
    + apply cuckoo_union_full in Eu; [|apply Hi|apply Hib|exact Hwb]. destruct Eu as [-> Sf].
      unfold good. split; [exact Hi|]. split; [exact Hsh|]. split; [eapply suffix_wsok; eassumption|exact Hacc].
Qed.

Lemma run_good : fresh -> forall h st st', good st -> run h st = Some st' -> good st'.
Proof.
  intros Hnew. induction h as [|o r IH]; intros st st' Hg E; cbn [run] in E.
  - injection E as <-. exact Hg.
  - destruct (step o st) as [st1|] eqn:Es; [|discriminate]. apply (IH st1 st'); [|exact E]. eapply step_good; eassumption.
Qed.

(* [reach s e]: s is the state after some history, run on some stream of 64-bit RNG words,
   and e are the ghost events since the last clear *)
Definition reach (s : cuckoo) (e : list ev) : Prop :=
  exists h ws ws', wsok ws /\ run h (s0, ws, []) = Some (s, ws', e).

Lemma reach_good s e : fresh -> reach s e -> exists ws', good (s, ws', e).
Proof. intros Hnew [h [ws [ws' [Hw E]]]]. exists ws'. eapply run_good; [exact Hnew| |exact E]. apply good_start; assumption. Qed.

Theorem reach_Inv s e : fresh -> reach s e -> Inv H s /\ shape s = shape s0.
Proof. intros Hnew Hr. apply reach_good in Hr; [|exact Hnew]. destruct Hr as [ws' [A [B _]]]. auto. Qed.

(* 4. len() is exactly the number of stored classes *)
Theorem cuckoo_len_reach s e : fresh -> reach s e -> cuckoo_len s = N.of_nat (length (abs H s)).
Proof. intros Hnew Hr. apply reach_Inv in Hr; [|exact Hnew]. destruct Hr as [[_ Hn] _]. exact Hn. Qed.

(* 7. clear gives back the fresh filter *)
Theorem cuckoo_clear_reach s e : fresh -> reach s e -> cuckoo_clear s = s0.
Proof.
  intros Hnew Hr. apply reach_Inv in Hr; [|exact Hnew]. destruct Hr as [_ Hsh]. destruct Hnew as [bs [nb [l E]]].
  apply cuckoo_new_wfc in E. destruct E as [_ [Hn [_ [_ [_ Hrep]]]]]. apply cuckoo_clear_fresh; assumption.
Qed.

(* the multiset accounting statement *)
Theorem reach_accounting s e c : fresh -> reach s e ->
  (count_occ cls_dec (abs H s) c + ndel c e = nins c e)%nat.
Proof. intros Hnew Hr. apply reach_good in Hr; [|exact Hnew]. destruct Hr as [ws' [_ [_ [_ A]]]]. apply A. Qed.

Corollary reach_count s e c : fresh -> reach s e ->
  count_occ cls_dec (abs H s) c = (nins c e - ndel c e)%nat /\ (ndel c e <= nins c e)%nat.
Proof. intros Hnew Hr. pose proof (reach_accounting s e c Hnew Hr). lia. Qed.

(* query x answers exactly "more successful inserts than successful deletes of x's class" *)
Theorem reach_query_iff s e x : fresh -> reach s e ->
  (cuckoo_query H s x = true <-> (ndel (class_of H s x) e < nins (class_of H s x) e)%nat).
Proof.
  intros Hnew Hr. pose proof (reach_accounting s e (class_of H s x) Hnew Hr) as A.
  apply reach_Inv in Hr; [|exact Hnew]. destruct Hr as [[Hw _] _].
  rewrite (cuckoo_query_iff H s x Hw), (count_occ_In cls_dec). lia.
Qed.

(* C01: no false negatives *)
Corollary reach_no_false_negative s e x : fresh -> reach s e ->
  (ndel (class_of H s x) e < nins (class_of H s x) e)%nat -> cuckoo_query H s x = true.
Proof. intros Hnew Hr. apply reach_query_iff; assumption. Qed.

Corollary reach_present s e x : fresh -> reach s e -> In (class_of H s x) (abs H s) -> cuckoo_query H s x = true.
Proof. intros Hnew Hr. apply reach_Inv in Hr; [|exact Hnew]. destruct Hr as [[Hw _] _]. apply cuckoo_query_iff. exact Hw. Qed.

End Hist.

(* right after a successful insert, x is reported present *)
Corollary cuckoo_insert_then_query H s x ws r s' ws' :
  wfc s -> wsok ws -> cuckoo_insert H s x ws = Some (IOk r, s', ws') -> cuckoo_query H s' x = true.
Proof.
  intros Hw Hws E. apply cuckoo_insert_ok in E; try assumption. destruct E as [_ [Hw' [P [_ [Sh _]]]]].
  apply cuckoo_query_iff; [exact Hw'|]. rewrite (class_of_shape H s s' x Sh).
  eapply Permutation_in; [symmetry; exact P|]. left. reflexivity.
Qed.

(* ====================================================================== *)
(** * Examples: the hypotheses are satisfiable, the statements are tight *)

Module Examples.
Definition Hex : hashfn :=
  fun iv v => match v with
              | Some x => x * 7 + (match iv with Some i => i | None => 0 end)
              | None => 0
              end.
Definition tb (t : list N) (n : N) : cuckoo := {| kbs := 2; knb := 4; kl := 8; ktbl := t; kn := n |}.
Definition ex0 : cuckoo := tb [0; 0; 0; 0; 0; 0; 0; 0] 0.

Example ex0_new : cuckoo_new 2 4 8 = Some ex0.
Proof. vm_compute. reflexivity. Qed.
Lemma ex0_Hnew : fresh ex0.
Proof. exists 2, 4, 8. exact ex0_new. Qed.
Example ex0_Inv : Inv Hex ex0.
Proof. exact (Inv_new Hex _ _ _ _ ex0_new). Qed.

Lemma wsok_repeat0 n : wsok (repeat 0 n).
Proof. apply Forall_forall. intros w Hw. apply repeat_spec in Hw. subst w. reflexivity. Qed.
Example wsok_two : wsok [2 ^ 31; 2 ^ 63].
Proof. repeat constructor. Qed.

(* keys: 0 -> (fp 1, buckets 1,1)   1 -> (fp 8, buckets 0,1)   2 -> (fp 15, buckets 3,1)
         3 -> (fp 22, buckets 2,1)  5 -> (fp 36, buckets 0,1)  7 -> (fp 50, buckets 2,1) *)
Example ex_starts : map (start Hex 4 8) [0; 1; 2; 3; 5; 7] =
  [(1, 1, 1); (8, 0, 1); (15, 3, 1); (22, 2, 1); (36, 0, 1); (50, 2, 1)].
Proof. vm_compute. reflexivity. Qed.

(* a reachable state: four inserts of key 1 fill buckets 0 and 1, one delete frees slot 0 *)
Definition exA : cuckoo := tb [0; 8; 8; 8; 0; 0; 0; 0] 3.
Definition evA : list ev := [EDel (8, 0, 1); EIns (8, 0, 1); EIns (8, 0, 1); EIns (8, 0, 1); EIns (8, 0, 1)].
Example exA_reach : reach Hex ex0 exA evA.
Proof. exists [OIns 1; OIns 1; OIns 1; OIns 1; ODel 1], [], []. split; [constructor|]. vm_compute. reflexivity. Qed.
Example exA_wfc : wfc exA.
Proof. apply (reach_Inv Hex ex0 exA evA ex0_Hnew exA_reach). Qed.

(* cuckoo_insert_ok through the eviction loop: key 0 has both candidates = bucket 1 (full);
   the victim 8 is kicked to its alternate bucket 0.  Two RNG words are consumed. *)
Definition exB : cuckoo := tb [8; 8; 8; 1; 0; 0; 0; 0] 4.
Example ex_insert_kick : cuckoo_insert Hex exA 0 [2 ^ 31; 2 ^ 63] = Some (IOk true, exB, []).
Proof. vm_compute. reflexivity. Qed.
Example ex_insert_kick_abs :
  abs Hex exA = [(8, 0, 1); (8, 0, 1); (8, 0, 1)] /\ class_of Hex exA 0 = (1, 1, 1) /\
  abs Hex exB = [(8, 0, 1); (8, 0, 1); (8, 0, 1); (1, 1, 1)].
Proof. vm_compute. auto. Qed.
Example exB_wfc : wfc exB.
Proof. apply (cuckoo_insert_ok Hex exA 0 _ _ _ _ exA_wfc wsok_two ex_insert_kick). Qed.

(* [wsok] cannot be dropped: with the "word" 2^64 the sampler returns e = 2 >= bucketsize, the
   fingerprint of key 0 lands in bucket 2, and the successful insert is followed by a false negative *)
Example wsok_needed :
  exists s', cuckoo_insert Hex exA 0 [2 ^ 31; 2 ^ 64] = Some (IOk true, s', []) /\
             cuckoo_query Hex s' 0 = false /\ ~ Permutation (abs Hex s') (class_of Hex exA 0 :: abs Hex exA).
Proof.
  eexists. split; [vm_compute; reflexivity|]. split; [vm_compute; reflexivity|].
  intros P. assert (Hin : In (1, 1, 1) (abs Hex (tb [0; 8; 8; 8; 1; 0; 0; 0] 4))).
  { eapply Permutation_in; [symmetry; exact P|]. vm_compute. auto. }
  vm_compute in Hin. repeat (destruct Hin as [Hin|Hin]; [discriminate|]). exact Hin.
Qed.

(* cuckoo_insert_full: buckets 0 and 1 full of fingerprint 8, whose candidates are 0 and 1:
   500 kicks, 501 words, then Err(CuckooFilterFull) and the filter is unchanged *)
Definition exF : cuckoo := tb [8; 8; 8; 8; 0; 0; 0; 0] 4.
Example exF_reach : reach Hex ex0 exF (repeat (EIns (8, 0, 1)) 4).
Proof. exists [OIns 1; OIns 1; OIns 1; OIns 1], [], []. split; [constructor|]. vm_compute. reflexivity. Qed.
Example ex_insert_full : cuckoo_insert Hex exF 0 (repeat 0 501) = Some (IFull, exF, []).
Proof. vm_compute. reflexivity. Qed.

(* query / delete *)
Example ex_query : cuckoo_query Hex exB 0 = true /\ cuckoo_query Hex exB 1 = true /\
                   cuckoo_query Hex exB 5 = false /\ cuckoo_query Hex exA 0 = false.
Proof. vm_compute. auto. Qed.
Example ex_delete : cuckoo_delete Hex exB 1 = (true, tb [0; 8; 8; 1; 0; 0; 0; 0] 3) /\
                    cuckoo_delete Hex exB 7 = (false, exB).
Proof. vm_compute. auto. Qed.

(* small filters / free slot *)
Example ex_small : Inv Hex ex0 /\ kn ex0 < kbs ex0 /\
                   cuckoo_insert Hex ex0 3 [] = Some (IOk true, tb [0; 0; 0; 0; 22; 0; 0; 0] 1, []).
Proof. split; [exact ex0_Inv|]. vm_compute. auto. Qed.
Example ex_free_slot : (let '(_, i1, i2) := start Hex (knb exA) (kl exA) 5 in 0 / kbs exA = i1 \/ 0 / kbs exA = i2) /\
                       getD 0 (ktbl exA) 0 = 0.
Proof. vm_compute. auto. Qed.

(* union: Ok (with a sub-history containing a delete) and Full *)
Definition exU : cuckoo := tb [0; 8; 0; 0; 22; 0; 15; 0] 3.
Example ex_union_reach : reach Hex ex0 exU
  [EDel (8, 0, 1); EDel (36, 0, 1); EIns (36, 0, 1); EIns (8, 0, 1); EIns (22, 1, 2); EIns (15, 1, 3); EIns (8, 0, 1)].
Proof.
  exists [OIns 1; OIns 2; OUni [OIns 3; OIns 1; OIns 5; ODel 5]; ODel 1; ODel 7], [], [].
  split; [constructor|]. vm_compute. reflexivity.
Qed.
Example ex_union_ok :
  cuckoo_union Hex (tb [8; 0; 0; 0; 0; 0; 15; 0] 2) (tb [8; 0; 0; 0; 22; 0; 0; 0] 2) [] =
  Some (true, tb [8; 8; 0; 0; 22; 0; 15; 0] 4, []).
Proof. vm_compute. reflexivity. Qed.
Example ex_union_full :
  cuckoo_union Hex (tb [8; 8; 8; 0; 0; 0; 0; 0] 3) (tb [8; 8; 0; 0; 0; 0; 0; 0] 2) (repeat 0 501) =
  Some (false, tb [8; 8; 8; 0; 0; 0; 0; 0] 3, []).
Proof. vm_compute. reflexivity. Qed.

(* accounting on the reachable state exU, class of key 1: 2 inserts, 1 delete, 1 copy stored *)
Example ex_accounting :
  count_occ cls_dec (abs Hex exU) (8, 0, 1) = 1%nat /\
  nins (8, 0, 1) [EDel (8, 0, 1); EDel (36, 0, 1); EIns (36, 0, 1); EIns (8, 0, 1); EIns (22, 1, 2); EIns (15, 1, 3); EIns (8, 0, 1)] = 2%nat /\
  ndel (8, 0, 1) [EDel (8, 0, 1); EDel (36, 0, 1); EIns (36, 0, 1); EIns (8, 0, 1); EIns (22, 1, 2); EIns (15, 1, 3); EIns (8, 0, 1)] = 1%nat.
Proof. vm_compute. auto. Qed.

(* a packed table longer than bs*nb (l = 5: 12 slots for 8 buckets slots); the tail stays 0 *)
Example ex_long_table :
  exists s0 s1, cuckoo_new 2 4 5 = Some s0 /\ length (ktbl s0) = 12%nat /\
                cuckoo_insert Hex s0 2 [] = Some (IOk true, s1, []) /\
                ktbl s1 = [0; 0; 0; 0; 0; 0; 15; 0; 0; 0; 0; 0] /\ abs Hex s1 = [(15, 1, 3)].
Proof. eexists. eexists. vm_compute. repeat split; reflexivity. Qed.
End Examples.

(* ====================================================================== *)
Print Assumptions cuckoo_new_wfc.
Print Assumptions cuckoo_insert_ok.
Print Assumptions cuckoo_insert_full.
Print Assumptions cuckoo_insert_free_slot.
Print Assumptions cuckoo_query_iff.
Print Assumptions cuckoo_delete_spec.
Print Assumptions cuckoo_clear_abs.
Print Assumptions cuckoo_union_ok.
Print Assumptions cuckoo_union_full.
Print Assumptions Inv_new.
Print Assumptions Inv_insert.
Print Assumptions Inv_delete.
Print Assumptions Inv_clear.
Print Assumptions Inv_union.
Print Assumptions cuckoo_small_succeeds.
Print Assumptions reach_Inv.
Print Assumptions cuckoo_len_reach.
Print Assumptions cuckoo_clear_reach.
Print Assumptions reach_accounting.
Print Assumptions reach_count.
Print Assumptions reach_query_iff.
Print Assumptions reach_no_false_negative.
Print Assumptions cuckoo_insert_then_query.
Print Assumptions Examples.wsok_needed.
