(* Proofs/TDigestLink.v — links the three t-digest proof files (exact-rational instance QNum):

     TDigestAgg    histories [top], [trun], [live], [valid]; merged digests are well formed ([wfcent])
     TDigestShape  shape of quantile / cdf on a digest satisfying [wfd d mn mx]
     TDigestSize   histories [qop], [td_steps]; size bound delta + 1 for K0

   Contents
     1. bridge: [wfcent l -> allpos l /\ means_sorted l]
     2. [history_wfd] (and [history_wfd_spec], which also characterises mn / mx as the extreme live values)
     3. property C15 stated on the PUBLIC read functions [td_quantile] / [td_cdf] (which merge first) after an
        arbitrary valid history with at least one live insert, for an arbitrary scale-function limit [lim]
        and an arbitrary max_backlog_size:
          C15_quantile_range, C15_quantile_endpoints, C15_quantile_mono,
          C15_cdf_range, C15_cdf_tails, C15_cdf_mono, C15_cdf_quantile_ge,
          C15_repeated_reads (any digest), C15_empty (no live insert)
     4. the two history types coincide ([td_steps_trun], [op_ok_valid]); the K0 size theorem on Agg's
        history type: [C04_k0_size]
     5. a concrete history satisfying the hypotheses, with evaluated read-outs
   Everything is closed under the global context (Print Assumptions after each main theorem). *)
From PDS Require Import Model.TDigestQ.
From PDS Require Import Proofs.TDigestShape Proofs.TDigestSize Proofs.TDigestAgg.
From Coq Require Import QArith Lqa Lia List Sorted.
Import ListNotations.
Open Scope Q_scope.

(* ------------------------------------------------------------------------- *)
(** * 1. Bridge between the two well-formedness predicates                    *)
(* ------------------------------------------------------------------------- *)

Lemma sorted_means_sorted (l : list (centroid QNum)) :
  Sorted (fun a b => cmean QNum a <= cmean QNum b) l -> means_sorted l.
Proof.
  induction 1 as [|a l Hl IH Hd]; [exact I|].
  destruct l as [|b t]; [exact I|].
  cbn [means_sorted]. split; [|exact IH].
  inversion Hd as [|? ? Hab]; subst. exact Hab.
Qed.

Lemma wfcent_shape (l : list (centroid QNum)) : wfcent l -> allpos l /\ means_sorted l.
Proof.
  intros [Hp Hs]. split; [exact Hp|]. apply sorted_means_sorted, Hs.
Qed.

(* the extreme values are determined up to == *)
Lemma is_min_unique lv a b : is_min lv a -> is_min lv b -> a == b.
Proof.
  intros [[xa [wa [Ia Ea]]] Ha] [[xb [wb [Ib Eb]]] Hb].
  pose proof (Ha _ _ Ib). pose proof (Hb _ _ Ia). lra.
Qed.
Lemma is_max_unique lv a b : is_max lv a -> is_max lv b -> a == b.
Proof.
  intros [[xa [wa [Ia Ea]]] Ha] [[xb [wb [Ib Eb]]] Hb].
  pose proof (Ha _ _ Ib). pose proof (Hb _ _ Ia). lra.
Qed.

(* ------------------------------------------------------------------------- *)
(** * 2. Every history with a live insert leads to a well-formed digest       *)
(* ------------------------------------------------------------------------- *)
Section Link.
Variable lim : N -> Q -> Q.
Variable maxb : N.

Notation merge := (td_merge QNum lim).
Notation run ops := (trun lim (td_new QNum maxb) ops).

(* full form: mn / mx are the fields of the digest AND the extreme live values *)
Theorem history_wfd_spec ops : valid ops -> live ops <> [] ->
  exists mn mx,
    wfd (merge (run ops)) mn mx /\
    tmn (run ops) = Some mn /\ tmx (run ops) = Some mx /\
    is_min (live ops) mn /\ is_max (live ops) mx.
Proof.
  intros Hv Hl.
  pose proof (td_merge_wf lim maxb ops Hv) as Hwf.
  pose proof (td_merge_wf_ends lim maxb ops) as Hends.
  pose proof (Pmin_run lim maxb ops Hv) as Hmin.
  pose proof (Pmax_run lim maxb ops Hv) as Hmax.
  pose proof (td_merge_tmn lim (run ops)) as Etmn.
  pose proof (td_merge_tmx lim (run ops)) as Etmx.
  cbv zeta in Hwf, Hends. unfold Pmin, Pmax in Hmin, Hmax.
  set (d := run ops) in *. set (d' := merge d) in *.
  destruct Hwf as [Hw [_ Hm]].
  destruct (tcent d') as [|c0 r] eqn:Ec; [contradiction|].
  destruct (Hends c0 r Hv eq_refl) as (mn & mx & Emn & Emx & H0 & Hlast & _).
  rewrite Etmn in Emn. rewrite Etmx in Emx. rewrite Emn in Hmin. rewrite Emx in Hmax.
  destruct (wfcent_shape _ Hw) as [Hp Hs].
  exists mn, mx. split; [|split; [exact Emn|split; [exact Emx|split; [exact Hmin|exact Hmax]]]].
  exists c0, r. rewrite Etmn, Etmx.
  split; [exact Ec|]. split; [exact Emn|]. split; [exact Emx|]. split; [exact Hp|]. split; [exact Hs|].
  split; [exact H0|exact Hlast].
Qed.

Theorem history_wfd ops : valid ops -> live ops <> [] ->
  exists mn mx,
    wfd (merge (run ops)) mn mx /\
    tmn (merge (run ops)) = Some mn /\ tmx (merge (run ops)) = Some mx.
Proof.
  intros Hv Hl. destruct (history_wfd_spec ops Hv Hl) as (mn & mx & W & Emn & Emx & _).
  exists mn, mx. rewrite td_merge_tmn, td_merge_tmx. repeat split; assumption.
Qed.

(* the form used below: whatever minimum / maximum of the live values one names, the merged digest is
   well formed for bounds ==-equal to them *)
Lemma history_wfd_for ops mn mx : valid ops -> live ops <> [] ->
  is_min (live ops) mn -> is_max (live ops) mx ->
  exists mn' mx', wfd (merge (run ops)) mn' mx' /\ mn' == mn /\ mx' == mx.
Proof.
  intros Hv Hl Hmn Hmx. destruct (history_wfd_spec ops Hv Hl) as (mn' & mx' & W & _ & _ & Imn & Imx).
  exists mn', mx'. split; [exact W|]. split; [eapply is_min_unique|eapply is_max_unique]; eassumption.
Qed.

(* the public reads, unfolded *)
Lemma td_quantile_snd (d : qtd) q : snd (td_quantile QNum lim d q) = quantile (merge d) q.
Proof. reflexivity. Qed.
Lemma td_quantile_fst (d : qtd) q : fst (td_quantile QNum lim d q) = merge d.
Proof. reflexivity. Qed.
Lemma td_cdf_snd (d : qtd) x : snd (td_cdf QNum lim d x) = cdf (merge d) x.
Proof. reflexivity. Qed.
Lemma td_cdf_fst (d : qtd) x : fst (td_cdf QNum lim d x) = merge d.
Proof. reflexivity. Qed.

(* ------------------------------------------------------------------------- *)
(** * 3. Property C15 on histories, public read API                            *)
(* ------------------------------------------------------------------------- *)

(** quantile stays between the smallest and the largest live value *)
Theorem C15_quantile_range ops mn mx q : valid ops -> live ops <> [] ->
  is_min (live ops) mn -> is_max (live ops) mx -> 0 <= q <= 1 ->
  mn <= snd (td_quantile QNum lim (run ops) q) <= mx.
Proof.
  intros Hv Hl Hmn Hmx Hq. destruct (history_wfd_for ops mn mx Hv Hl Hmn Hmx) as (mn' & mx' & W & E1 & E2).
  rewrite td_quantile_snd. pose proof (quantile_range _ _ _ q W Hq). lra.
Qed.

(** quantile 0 is the minimum, quantile 1 the maximum *)
Theorem C15_quantile_endpoints ops mn mx : valid ops -> live ops <> [] ->
  is_min (live ops) mn -> is_max (live ops) mx ->
  snd (td_quantile QNum lim (run ops) 0) == mn /\ snd (td_quantile QNum lim (run ops) 1) == mx.
Proof.
  intros Hv Hl Hmn Hmx. destruct (history_wfd_for ops mn mx Hv Hl Hmn Hmx) as (mn' & mx' & W & E1 & E2).
  rewrite !td_quantile_snd. rewrite (quantile_0 _ _ _ W), (quantile_1 _ _ _ W). split; assumption.
Qed.

(** quantile is monotone (q2 <= 1 is not needed) *)
Theorem C15_quantile_mono ops q1 q2 : valid ops -> live ops <> [] -> 0 <= q1 <= q2 ->
  snd (td_quantile QNum lim (run ops) q1) <= snd (td_quantile QNum lim (run ops) q2).
Proof.
  intros Hv Hl Hq. destruct (history_wfd ops Hv Hl) as (mn & mx & W & _).
  rewrite !td_quantile_snd. exact (quantile_mono _ _ _ q1 q2 W Hq).
Qed.

(** cdf is a probability *)
Theorem C15_cdf_range ops x : valid ops -> live ops <> [] ->
  0 <= snd (td_cdf QNum lim (run ops) x) <= 1.
Proof.
  intros Hv Hl. destruct (history_wfd ops Hv Hl) as (mn & mx & W & _).
  rewrite td_cdf_snd. exact (cdf_range _ _ _ x W).
Qed.

(** cdf is 0 below the minimum and 1 from the maximum upward *)
Theorem C15_cdf_tails ops mn mx x : valid ops -> live ops <> [] ->
  is_min (live ops) mn -> is_max (live ops) mx ->
  (x < mn -> snd (td_cdf QNum lim (run ops) x) == 0) /\
  (mx <= x -> snd (td_cdf QNum lim (run ops) x) == 1).
Proof.
  intros Hv Hl Hmn Hmx. destruct (history_wfd_for ops mn mx Hv Hl Hmn Hmx) as (mn' & mx' & W & E1 & E2).
  rewrite td_cdf_snd. split; intros Hx.
  - apply (cdf_below_min _ _ _ x W). lra.
  - apply (cdf_from_max _ _ _ x W). lra.
Qed.

(** cdf is monotone *)
Theorem C15_cdf_mono ops x1 x2 : valid ops -> live ops <> [] -> x1 <= x2 ->
  snd (td_cdf QNum lim (run ops) x1) <= snd (td_cdf QNum lim (run ops) x2).
Proof.
  intros Hv Hl Hx. destruct (history_wfd ops Hv Hl) as (mn & mx & W & _).
  rewrite !td_cdf_snd. exact (cdf_mono _ _ _ x1 x2 W Hx).
Qed.

(** reads are idempotent: a second read (quantile or cdf) on the digest returned by a first read
    returns the identical digest and the identical value.  Holds for EVERY digest. *)
Theorem C15_repeated_reads (d : qtd) q x :
  td_quantile QNum lim (fst (td_quantile QNum lim d q)) q = td_quantile QNum lim d q /\
  td_cdf QNum lim (fst (td_cdf QNum lim d x)) x = td_cdf QNum lim d x /\
  td_quantile QNum lim (fst (td_cdf QNum lim d x)) q = td_quantile QNum lim d q /\
  td_cdf QNum lim (fst (td_quantile QNum lim d q)) x = td_cdf QNum lim d x.
Proof.
  rewrite td_quantile_fst, td_cdf_fst. unfold td_quantile, td_cdf.
  rewrite (td_read_idempotent lim d). repeat split; reflexivity.
Qed.

(** q <= cdf (quantile q): both on the same digest, and with the cdf read performed on the digest
    returned by the quantile read *)
Theorem C15_cdf_quantile_ge ops q : valid ops -> live ops <> [] -> 0 <= q <= 1 ->
  q <= snd (td_cdf QNum lim (run ops) (snd (td_quantile QNum lim (run ops) q))) /\
  q <= snd (td_cdf QNum lim (fst (td_quantile QNum lim (run ops) q)) (snd (td_quantile QNum lim (run ops) q))).
Proof.
  intros Hv Hl Hq. destruct (history_wfd ops Hv Hl) as (mn & mx & W & _).
  assert (G : q <= snd (td_cdf QNum lim (run ops) (snd (td_quantile QNum lim (run ops) q)))).
  { rewrite td_cdf_snd, td_quantile_snd. exact (cdf_quantile_ge _ _ _ q W Hq). }
  split; [exact G|].
  destruct (C15_repeated_reads (run ops) q (snd (td_quantile QNum lim (run ops) q))) as (_ & _ & _ & E).
  rewrite E. exact G.
Qed.

(** no live insert: quantile returns the NaN of the instance, cdf returns 0 *)
Theorem C15_empty ops q x : valid ops -> live ops = [] ->
  snd (td_quantile QNum lim (run ops) q) = anan QNum /\ snd (td_cdf QNum lim (run ops) x) = 0.
Proof.
  intros Hv Hl.
  assert (E : tcent (merge (run ops)) = []).
  { pose proof (td_merge_wf lim maxb ops Hv) as Hwf. cbv zeta in Hwf. destruct Hwf as [_ [_ Hm]].
    destruct (tcent (merge (run ops))) as [|c0 r]; [reflexivity|].
    destruct Hm as (mn & mx & Emn & _). rewrite td_merge_tmn in Emn.
    apply (td_min_none_iff lim maxb ops Hv) in Hl. rewrite Hl in Emn. discriminate. }
  rewrite td_quantile_snd, td_cdf_snd. unfold td_quantile_inner, td_cdf_inner. rewrite E.
  split; reflexivity.
Qed.

End Link.

Print Assumptions history_wfd_spec.
Print Assumptions history_wfd.
Print Assumptions C15_quantile_range.
Print Assumptions C15_quantile_endpoints.
Print Assumptions C15_quantile_mono.
Print Assumptions C15_cdf_range.
Print Assumptions C15_cdf_tails.
Print Assumptions C15_cdf_mono.
Print Assumptions C15_cdf_quantile_ge.
Print Assumptions C15_repeated_reads.
Print Assumptions C15_empty.

(* ------------------------------------------------------------------------- *)
(** * 4. The two history types; the K0 size theorem on [top] histories         *)
(* ------------------------------------------------------------------------- *)

Definition conv (o : qop) : top :=
  match o with OpInsert x w => TIns x w | OpMerge => TRead | OpClear => TClear end.
Definition conv_inv (o : top) : qop :=
  match o with TIns x w => OpInsert x w | TRead => OpMerge | TClear => OpClear end.

Lemma conv_conv_inv o : conv (conv_inv o) = o.
Proof. destruct o; reflexivity. Qed.
Lemma conv_inv_conv o : conv_inv (conv o) = o.
Proof. destruct o; reflexivity. Qed.
Lemma map_conv_conv_inv ops : map conv (map conv_inv ops) = ops.
Proof. rewrite map_map. rewrite <- (map_id ops) at 2. apply map_ext, conv_conv_inv. Qed.
Lemma map_conv_inv_conv h : map conv_inv (map conv h) = h.
Proof. rewrite map_map. rewrite <- (map_id h) at 2. apply map_ext, conv_inv_conv. Qed.

Lemma apply_op_tstep lim (d : qtd) o : apply_op lim d o = tstep lim d (conv o).
Proof. destruct o; reflexivity. Qed.

Lemma fold_apply_op_tstep lim h : forall d : qtd,
  fold_left (apply_op lim) h d = trun lim d (map conv h).
Proof.
  induction h as [|o h IH]; intros d; [reflexivity|].
  cbn [map fold_left]. unfold trun. cbn [fold_left]. rewrite apply_op_tstep. apply IH.
Qed.

Theorem td_steps_trun lim maxb h : td_steps lim maxb h = trun lim (td_new QNum maxb) (map conv h).
Proof. apply fold_apply_op_tstep. Qed.
Corollary trun_td_steps lim maxb ops : trun lim (td_new QNum maxb) ops = td_steps lim maxb (map conv_inv ops).
Proof. rewrite td_steps_trun, map_conv_conv_inv. reflexivity. Qed.

Lemma op_ok_valid_op o : op_ok o <-> valid_op (conv o).
Proof. destruct o; reflexivity. Qed.
Theorem op_ok_valid h : Forall op_ok h <-> valid (map conv h).
Proof.
  unfold valid. rewrite Forall_map. split; intros H; (eapply Forall_impl; [|exact H]); intros o; apply op_ok_valid_op.
Qed.
Corollary valid_op_ok ops : valid ops <-> Forall op_ok (map conv_inv ops).
Proof. rewrite op_ok_valid, map_conv_conv_inv. reflexivity. Qed.

(** property C04 (size part), K0 scale function, on Agg's history type: at every point of every valid
    history the digest holds at most delta + 1 centroids, both before and after a read; the last
    conjunct is the public [td_ncentroids] read. *)
Theorem C04_k0_size delta maxb ops : 1 < delta -> valid ops ->
  let d := trun (k0_lim delta) (td_new QNum maxb) ops in
  inject_Z (Z.of_nat (length (tcent d))) <= delta + 1 /\
  inject_Z (Z.of_nat (length (tcent (td_merge QNum (k0_lim delta) d)))) <= delta + 1 /\
  inject_Z (Z.of_N (snd (td_ncentroids QNum (k0_lim delta) d))) <= delta + 1.
Proof.
  intros Hd Hv d. assert (Hd' : 0 < delta) by lra.
  apply valid_op_ok in Hv. unfold d. rewrite trun_td_steps.
  split; [|split].
  - apply k0_history_size; assumption.
  - apply k0_history_merge_size; assumption.
  - apply k0_history_ncentroids; assumption.
Qed.

Print Assumptions td_steps_trun.
Print Assumptions op_ok_valid.
Print Assumptions C04_k0_size.

(* ------------------------------------------------------------------------- *)
(** * 5. A concrete history: K0 with delta = 5, max_backlog_size = 2           *)
(* ------------------------------------------------------------------------- *)
Definition lk_lim := k0_lim (5 # 1).
Definition lk_ops : list top :=
  [TIns 3 1; TIns 1 2; TIns 5 (1 # 2); TRead; TIns 8 0; TIns 2 1; TIns 7 3; TIns 4 (3 # 2); TIns 6 1].
Definition lk_d := trun lk_lim (td_new QNum 2) lk_ops.

Example lk_valid : valid lk_ops.
Proof. unfold valid, lk_ops. repeat (constructor; [cbn; try exact I; try (cbv; discriminate)|]). constructor. Qed.
Example lk_live : live lk_ops = [(3, 1); (1, 2); (5, 1 # 2); (2, 1); (7, 3); (4, 3 # 2); (6, 1)].
Proof. vm_compute. reflexivity. Qed.
Example lk_live_ne : live lk_ops <> [].
Proof. vm_compute. discriminate. Qed.

(* the hypotheses of [history_wfd] hold, so its conclusion does *)
Example lk_wfd : exists mn mx,
  wfd (td_merge QNum lk_lim lk_d) mn mx /\
  tmn (td_merge QNum lk_lim lk_d) = Some mn /\ tmx (td_merge QNum lk_lim lk_d) = Some mx.
Proof. exact (history_wfd lk_lim 2 lk_ops lk_valid lk_live_ne). Qed.

(* the state really is non-trivial: a non-empty backlog before the read, several centroids after *)
Example lk_state :
  length (tback lk_d) = 1%nat /\ length (tcent (td_merge QNum lk_lim lk_d)) = 3%nat /\
  tmn lk_d = Some 1 /\ tmx lk_d = Some 7.
Proof. repeat split; vm_compute; reflexivity. Qed.

Example lk_is_min : is_min (live lk_ops) 1.
Proof.
  rewrite lk_live. split.
  - exists 1, 2. split; [right; left; reflexivity|reflexivity].
  - intros x w H. cbn [In] in H.
    repeat (destruct H as [H|H]; [inversion H; subst; cbv; discriminate|]). destruct H.
Qed.
Example lk_is_max : is_max (live lk_ops) 7.
Proof.
  rewrite lk_live. split.
  - exists 7, 3. split; [do 4 right; left; reflexivity|reflexivity].
  - intros x w H. cbn [In] in H.
    repeat (destruct H as [H|H]; [inversion H; subst; cbv; discriminate|]). destruct H.
Qed.

(* read-outs by evaluation, consistent with the theorems *)
Example lk_values :
  snd (td_quantile QNum lk_lim lk_d 0) == 1 /\
  snd (td_quantile QNum lk_lim lk_d 1) == 7 /\
  snd (td_quantile QNum lk_lim lk_d (1 # 2)) == 35 # 8 /\
  snd (td_cdf QNum lk_lim lk_d (1 # 2)) == 0 /\
  snd (td_cdf QNum lk_lim lk_d 7) == 1 /\
  (1 # 2) <= snd (td_cdf QNum lk_lim lk_d (snd (td_quantile QNum lk_lim lk_d (1 # 2)))).
Proof. repeat split; vm_compute; try reflexivity; discriminate. Qed.

(* instances of the theorems at this history *)
Example lk_instances :
  (forall q, 0 <= q <= 1 -> 1 <= snd (td_quantile QNum lk_lim lk_d q) <= 7) /\
  (snd (td_quantile QNum lk_lim lk_d 0) == 1 /\ snd (td_quantile QNum lk_lim lk_d 1) == 7) /\
  (forall x, 0 <= snd (td_cdf QNum lk_lim lk_d x) <= 1) /\
  (forall q, 0 <= q <= 1 -> q <= snd (td_cdf QNum lk_lim lk_d (snd (td_quantile QNum lk_lim lk_d q)))) /\
  inject_Z (Z.of_nat (length (tcent (td_merge QNum lk_lim lk_d)))) <= 5 + 1.
Proof.
  split; [|split; [|split; [|split]]].
  - intros q Hq. exact (C15_quantile_range lk_lim 2 lk_ops 1 7 q lk_valid lk_live_ne lk_is_min lk_is_max Hq).
  - exact (C15_quantile_endpoints lk_lim 2 lk_ops 1 7 lk_valid lk_live_ne lk_is_min lk_is_max).
  - intros x. exact (C15_cdf_range lk_lim 2 lk_ops x lk_valid lk_live_ne).
  - intros q Hq. exact (proj1 (C15_cdf_quantile_ge lk_lim 2 lk_ops q lk_valid lk_live_ne Hq)).
  - assert (H5 : 1 < 5 # 1) by reflexivity.
    exact (proj1 (proj2 (C04_k0_size (5 # 1) 2 lk_ops H5 lk_valid))).
Qed.

(* an empty history (everything cleared or zero weight) *)
Example lk_empty :
  let ops := [TIns 3 1; TClear; TIns 4 0; TRead] in
  valid ops /\ live ops = [] /\
  snd (td_quantile QNum lk_lim (trun lk_lim (td_new QNum 2) ops) (1 # 2)) = anan QNum /\
  snd (td_cdf QNum lk_lim (trun lk_lim (td_new QNum 2) ops) 3) = 0.
Proof.
  intros ops.
  assert (Hv : valid ops).
  { unfold valid, ops. repeat (constructor; [cbn; try exact I; try (cbv; discriminate)|]). constructor. }
  assert (Hl : live ops = []) by (vm_compute; reflexivity).
  split; [exact Hv|]. split; [exact Hl|]. exact (C15_empty lk_lim 2 ops (1 # 2) 3 Hv Hl).
Qed.

(* the conversion between the history types on a concrete history *)
Example lk_conv :
  td_steps lk_lim 2 (map conv_inv lk_ops) = lk_d /\ Forall op_ok (map conv_inv lk_ops).
Proof. split; [symmetry; apply trun_td_steps|apply valid_op_ok, lk_valid]. Qed.

Print Assumptions lk_wfd.
Print Assumptions lk_instances.
