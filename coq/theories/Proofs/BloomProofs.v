(* Proofs/BloomProofs.v — functional correctness of the Bloom filter model (Model/Bloom.v):
   state characterisation for arbitrary histories of new/insert/union/clear, no false
   negatives, totality, insert result, union algebra, clear/is_empty.
   Everything is quantified over ALL hash functions [H] (adversarial ones included). *)
From PDS Require Import Model.Bloom.
From Coq Require Import Permutation.
Import ListNotations.
Open Scope N_scope.

(* ------------------------------------------------------------------------- *)
(* Histories                                                                  *)
(* ------------------------------------------------------------------------- *)

Inductive bhist :=
| BNew (m k : N)
| BIns (h : bhist) (x : N)
| BUnion (h1 h2 : bhist)
| BClear (h : bhist).

Fixpoint brun (H : hashfn) (h : bhist) : option bloom :=
  match h with
  | BNew m k => Some (bloom_new m k)
  | BIns h x =>
      match brun H h with
      | Some s => match bloom_insert H s x with Some (_, s') => Some s' | None => None end
      | None => None
      end
  | BUnion h1 h2 =>
      match brun H h1, brun H h2 with Some a, Some b => bloom_union a b | _, _ => None end
  | BClear h => match brun H h with Some s => Some (bloom_clear s) | None => None end
  end.

(* keys inserted since the last clear, directly or through a union operand *)
Fixpoint live (h : bhist) : list N :=
  match h with
  | BNew _ _ => []
  | BIns h x => live h ++ [x]
  | BUnion h1 h2 => live h1 ++ live h2
  | BClear _ => []
  end.

Fixpoint bcfg (h : bhist) : N * N :=
  match h with
  | BNew m k => (m, k)
  | BIns h _ => bcfg h
  | BUnion h1 _ => bcfg h1
  | BClear h => bcfg h
  end.

(* reference bit vector: all positions of all keys set *)
Definition bits_of (H : hashfn) (m k : N) (l : list N) : list bool :=
  fold_left (fun b x => fold_left (fun b p => upd b (N.to_nat p) true) (positions H m k x) b)
            l (repeat false (N.to_nat m)).

(* ------------------------------------------------------------------------- *)
(* Generic list lemmas                                                        *)
(* ------------------------------------------------------------------------- *)

Lemma list_ext_nth {A} (d : A) (l l' : list A) :
  length l = length l' ->
  (forall i, (i < length l)%nat -> nth i l d = nth i l' d) ->
  l = l'.
Proof.
  revert l'; induction l as [|x t IH]; intros [|y t'] Hlen Hn; cbn [length] in *;
    try discriminate; auto.
  f_equal.
  - apply (Hn 0%nat); lia.
  - apply IH; [lia|]. intros i Hi. apply (Hn (S i)); lia.
Qed.

Lemma forallb_ext' {A} (f g : A -> bool) l : (forall x, f x = g x) -> forallb f l = forallb g l.
Proof. intros E; induction l as [|a t IH]; cbn [forallb]; [auto|]. rewrite E, IH; auto. Qed.

Lemma existsb_set_ext {A} (f : A -> bool) l l' :
  (forall x, In x l -> In x l') -> existsb f l = true -> existsb f l' = true.
Proof.
  intros Hin E. apply existsb_exists in E as (x & Hx & Hf).
  apply existsb_exists. exists x; auto.
Qed.

Lemma existsb_set_eq {A} (f : A -> bool) l l' :
  (forall x, In x l <-> In x l') -> existsb f l = existsb f l'.
Proof.
  intros Hin.
  destruct (existsb f l) eqn:E1; destruct (existsb f l') eqn:E2; auto.
  - rewrite (existsb_set_ext f l l') in E2; [discriminate| |auto]. intros x; apply Hin.
  - rewrite (existsb_set_ext f l' l) in E1; [discriminate| |auto]. intros x; apply Hin.
Qed.

(* ------------------------------------------------------------------------- *)
(* orl                                                                        *)
(* ------------------------------------------------------------------------- *)

Lemma orl_length a b : length (orl a b) = Nat.min (length a) (length b).
Proof. revert b; induction a as [|x a IH]; intros [|y b]; cbn [orl length Nat.min]; auto. Qed.

Lemma orl_nth a b i :
  (i < length a)%nat -> (i < length b)%nat ->
  nth i (orl a b) false = nth i a false || nth i b false.
Proof.
  revert b i; induction a as [|x a IH]; intros [|y b] [|i] Ha Hb; cbn [orl nth length] in *;
    try lia; auto.
  apply IH; lia.
Qed.

Lemma orl_comm a b : orl a b = orl b a.
Proof.
  revert b; induction a as [|x a IH]; intros [|y b]; cbn [orl]; auto.
  rewrite orb_comm, IH; auto.
Qed.

Lemma orl_assoc a b c : orl (orl a b) c = orl a (orl b c).
Proof.
  revert b c; induction a as [|x a IH]; intros [|y b] [|z c]; cbn [orl]; auto.
  rewrite orb_assoc, IH; auto.
Qed.

Lemma orl_idem a : orl a a = a.
Proof. induction a as [|x a IH]; cbn [orl]; auto. rewrite orb_diag, IH; auto. Qed.

(* ------------------------------------------------------------------------- *)
(* Bit access and "set all positions"                                         *)
(* ------------------------------------------------------------------------- *)

Definition getb (bits : list bool) (p : N) : bool := nth (N.to_nat p) bits false.

Lemma getN_getb bits p :
  match getN bits p with Some b => b | None => false end = getb bits p.
Proof.
  unfold getN, getb. destruct (nth_error bits (N.to_nat p)) as [b|] eqn:E.
  - symmetry. apply nth_error_nth; auto.
  - symmetry. apply nth_overflow. apply nth_error_None; auto.
Qed.

Definition setall (b : list bool) (ps : list N) : list bool :=
  fold_left (fun b p => upd b (N.to_nat p) true) ps b.

Lemma setall_cons b p r : setall b (p :: r) = setall (upd b (N.to_nat p) true) r.
Proof. reflexivity. Qed.

Lemma setall_length b ps : length (setall b ps) = length b.
Proof.
  revert b; induction ps as [|p r IH]; intros b; [reflexivity|].
  rewrite setall_cons, IH, upd_length; auto.
Qed.

Definition at_pos (i : nat) (p : N) : bool := (N.to_nat p =? i)%nat.

Lemma setall_nth b ps i :
  (i < length b)%nat ->
  nth i (setall b ps) false = nth i b false || existsb (at_pos i) ps.
Proof.
  revert b; induction ps as [|p r IH]; intros b Hi.
  - cbn [setall fold_left existsb]. rewrite orb_false_r; auto.
  - rewrite setall_cons, IH by (rewrite upd_length; auto).
    cbn [existsb]. unfold at_pos at 2.
    destruct (Nat.eqb_spec (N.to_nat p) i) as [E|E].
    + subst i. rewrite nth_upd_same by auto. cbn [orb]. rewrite orb_true_r; auto.
    + rewrite nth_upd_other by auto. cbn [orb]. auto.
Qed.

(* ------------------------------------------------------------------------- *)
(* bits_of                                                                    *)
(* ------------------------------------------------------------------------- *)

Section BitsOf.
Variable H : hashfn.
Variables m k : N.

(* does key [x] hit bit [i] ? *)
Definition hit (i : nat) (x : N) : bool := existsb (at_pos i) (positions H m k x).

Definition bits_from (b : list bool) (l : list N) : list bool :=
  fold_left (fun b x => setall b (positions H m k x)) l b.

Lemma bits_of_from l : bits_of H m k l = bits_from (repeat false (N.to_nat m)) l.
Proof. reflexivity. Qed.

Lemma bits_from_length b l : length (bits_from b l) = length b.
Proof.
  revert b; induction l as [|x l IH]; intros b; [reflexivity|].
  unfold bits_from in *. cbn [fold_left]. rewrite IH, setall_length; auto.
Qed.

Lemma bits_from_nth b l i :
  (i < length b)%nat ->
  nth i (bits_from b l) false = nth i b false || existsb (hit i) l.
Proof.
  revert b; induction l as [|x l IH]; intros b Hi.
  - cbn [bits_from fold_left existsb]. rewrite orb_false_r; auto.
  - unfold bits_from in *. cbn [fold_left existsb].
    rewrite IH by (rewrite setall_length; auto).
    rewrite setall_nth by auto. unfold hit at 2. rewrite orb_assoc; auto.
Qed.

Lemma bits_of_length l : length (bits_of H m k l) = N.to_nat m.
Proof. rewrite bits_of_from, bits_from_length, repeat_length; auto. Qed.

Lemma bits_of_nth l i :
  (i < N.to_nat m)%nat -> nth i (bits_of H m k l) false = existsb (hit i) l.
Proof.
  intros Hi. rewrite bits_of_from, bits_from_nth by (rewrite repeat_length; auto).
  rewrite nth_repeat. reflexivity.
Qed.

Lemma bits_of_nil : bits_of H m k [] = repeat false (N.to_nat m).
Proof. reflexivity. Qed.

Lemma bits_of_snoc l x :
  bits_of H m k (l ++ [x]) = setall (bits_of H m k l) (positions H m k x).
Proof. unfold bits_of. rewrite fold_left_app. reflexivity. Qed.

Lemma bits_of_app l1 l2 :
  bits_of H m k (l1 ++ l2) = orl (bits_of H m k l1) (bits_of H m k l2).
Proof.
  apply (list_ext_nth false).
  - rewrite orl_length, !bits_of_length. lia.
  - intros i Hi. rewrite bits_of_length in Hi.
    rewrite orl_nth by (rewrite bits_of_length; auto).
    rewrite !bits_of_nth by auto. apply existsb_app.
Qed.

(* Theorem 6a: [bits_of] depends only on the SET of keys *)
Theorem bits_of_set_ext l l' :
  (forall x, In x l <-> In x l') -> bits_of H m k l = bits_of H m k l'.
Proof.
  intros Hin. apply (list_ext_nth false).
  - rewrite !bits_of_length; auto.
  - intros i Hi. rewrite bits_of_length in Hi.
    rewrite !bits_of_nth by auto. apply existsb_set_eq; auto.
Qed.

Corollary bits_of_perm l l' : Permutation l l' -> bits_of H m k l = bits_of H m k l'.
Proof.
  intros P. apply bits_of_set_ext. intros x; split; intros Hx.
  - eapply Permutation_in; eauto.
  - eapply Permutation_in; [apply Permutation_sym|]; eauto.
Qed.

Corollary bits_of_dup l : bits_of H m k (l ++ l) = bits_of H m k l.
Proof. apply bits_of_set_ext. intros x. rewrite in_app_iff. tauto. Qed.

Corollary bits_of_app_comm l1 l2 : bits_of H m k (l1 ++ l2) = bits_of H m k (l2 ++ l1).
Proof. apply bits_of_perm, Permutation_app_comm. Qed.

End BitsOf.

(* ------------------------------------------------------------------------- *)
(* Theorem 1: positions are in range                                          *)
(* ------------------------------------------------------------------------- *)

Theorem pos_lt (H : hashfn) (m x i : N) : 1 <= m -> pos H m x i < m.
Proof. intros Hm. unfold pos. apply N.mod_lt. lia. Qed.

Lemma positions_lt H m k x : 1 <= m -> Forall (fun p => p < m) (positions H m k x).
Proof.
  intros Hm. unfold positions. apply Forall_map. apply Forall_forall.
  intros i _. apply pos_lt; auto.
Qed.

Lemma positions_length H m k x : length (positions H m k x) = N.to_nat k.
Proof. unfold positions. rewrite map_length, Nseq_length; auto. Qed.

(* ------------------------------------------------------------------------- *)
(* put_all / insert / query in closed form                                    *)
(* ------------------------------------------------------------------------- *)

Lemma put_all_spec bits ps was :
  Forall (fun p => (N.to_nat p < length bits)%nat) ps ->
  put_all bits ps was = Some (was && forallb (getb bits) ps, setall bits ps).
Proof.
  revert bits was; induction ps as [|p r IH]; intros bits was HF.
  - cbn [put_all forallb]. rewrite andb_true_r. reflexivity.
  - inversion HF as [|p' r' Hp Hr]; subst p' r'.
    cbn [put_all forallb]. rewrite setall_cons.
    unfold put, getN.
    destruct (nth_error bits (N.to_nat p)) as [old|] eqn:E.
    2:{ apply nth_error_None in E. lia. }
    assert (Hold : old = getb bits p).
    { unfold getb. symmetry. apply nth_error_nth; auto. }
    rewrite IH.
    2:{ eapply Forall_impl; [|exact Hr]. cbv beta. intros q Hq. rewrite upd_length; auto. }
    subst old. destruct (getb bits p) eqn:G.
    + assert (Hid : upd bits (N.to_nat p) true = bits).
      { unfold getb in G. rewrite <- G. apply upd_nth_id; auto. }
      rewrite Hid. rewrite andb_true_r. cbn [andb]. reflexivity.
    + rewrite andb_false_r. cbn [andb]. rewrite andb_false_r. reflexivity.
Qed.

Lemma put_all_bits_only bits ps was r bits' :
  put_all bits ps was = Some (r, bits') -> bits' = setall bits ps.
Proof.
  revert bits was; induction ps as [|p ps IH]; intros bits was E.
  - cbn [put_all] in E. inversion E; reflexivity.
  - cbn [put_all] in E. unfold put in E.
    destruct (getN bits p) as [old|]; [|discriminate].
    rewrite setall_cons. eapply IH; eauto.
Qed.

Section Ops.
Variable H : hashfn.

(* well-formed state: the bit vector has exactly [bm s] bits *)
Definition bwf (s : bloom) : Prop := length (bbits s) = N.to_nat (bm s).

Lemma positions_in_range s x :
  bwf s -> 1 <= bm s ->
  Forall (fun p => (N.to_nat p < length (bbits s))%nat) (positions H (bm s) (bk s) x).
Proof.
  intros Hwf Hm. eapply Forall_impl; [|apply positions_lt; exact Hm].
  cbv beta. intros p Hp. rewrite Hwf. lia.
Qed.

Lemma bloom_query_eq s x :
  bloom_query H s x =
  if bm s =? 0 then None
  else Some (forallb (getb (bbits s)) (positions H (bm s) (bk s) x)).
Proof.
  unfold bloom_query. destruct (bm s =? 0); auto.
  f_equal. apply forallb_ext'. intros p. apply getN_getb.
Qed.

Lemma bloom_insert_eq s x :
  bwf s -> 1 <= bm s ->
  bloom_insert H s x =
  Some (negb (forallb (getb (bbits s)) (positions H (bm s) (bk s) x)),
        {| bm := bm s; bk := bk s;
           bbits := setall (bbits s) (positions H (bm s) (bk s) x) |}).
Proof.
  intros Hwf Hm. unfold bloom_insert.
  destruct (N.eqb_spec (bm s) 0) as [E|E]; [lia|].
  rewrite put_all_spec by (apply positions_in_range; auto).
  cbn [andb]. reflexivity.
Qed.

Lemma bloom_insert_Some s x r s' :
  bloom_insert H s x = Some (r, s') ->
  1 <= bm s /\ bm s' = bm s /\ bk s' = bk s /\
  bbits s' = setall (bbits s) (positions H (bm s) (bk s) x).
Proof.
  unfold bloom_insert. destruct (N.eqb_spec (bm s) 0) as [E|E]; [discriminate|].
  destruct (put_all (bbits s) (positions H (bm s) (bk s) x) true) as [[was bits']|] eqn:P;
    [|discriminate].
  intros I; inversion I; subst r s'; clear I. cbn [bm bk bbits].
  apply put_all_bits_only in P. repeat split; auto. lia.
Qed.

(* ------------------------------------------------------------------------- *)
(* Theorem 2: state characterisation                                          *)
(* ------------------------------------------------------------------------- *)

(* no side condition on m at all: with m = 0 inserts fail and the vector is [] *)
Lemma brun_spec h s :
  brun H h = Some s ->
  bm s = fst (bcfg h) /\ bk s = snd (bcfg h) /\
  bbits s = bits_of H (fst (bcfg h)) (snd (bcfg h)) (live h).
Proof.
  revert s; induction h as [m k|h IH x|h1 IH1 h2 IH2|h IH]; intros s R; cbn [brun] in R.
  - inversion R; subst s. cbn. auto.
  - destruct (brun H h) as [s0|]; [|discriminate].
    destruct (bloom_insert H s0 x) as [[r s1]|] eqn:EI; [|discriminate].
    inversion R; subst s1; clear R.
    destruct (IH s0 eq_refl) as (Hm & Hk & Hb).
    apply bloom_insert_Some in EI as (_ & Em & Ek & Eb).
    cbn [bcfg live]. rewrite bits_of_snoc, <- Hb, <- Hm, <- Hk.
    rewrite Em, Ek, Eb. auto.
  - destruct (brun H h1) as [a|]; [|discriminate].
    destruct (brun H h2) as [b|]; [|discriminate].
    destruct (IH1 a eq_refl) as (Hm1 & Hk1 & Hb1).
    destruct (IH2 b eq_refl) as (Hm2 & Hk2 & Hb2).
    unfold bloom_union in R.
    destruct (N.eqb_spec (bk a) (bk b)) as [Ek|Ek]; [|discriminate].
    destruct (N.eqb_spec (bm a) (bm b)) as [Em|Em]; [|discriminate].
    cbn [andb] in R. inversion R; subst s; clear R. cbn [bm bk bbits bcfg live].
    repeat split; auto.
    rewrite bits_of_app, Hb1, Hb2. rewrite <- Hm1, <- Hk1, <- Hm2, <- Hk2, Ek, Em. reflexivity.
  - destruct (brun H h) as [s0|]; [|discriminate].
    inversion R; subst s; clear R.
    destruct (IH s0 eq_refl) as (Hm & Hk & Hb).
    cbn [bloom_clear bm bk bbits bcfg live]. repeat split; auto.
    rewrite Hb, bits_of_length, bits_of_nil. reflexivity.
Qed.

Theorem bloom_state_spec h s m k :
  bcfg h = (m, k) ->
  brun H h = Some s -> 1 <= fst (bcfg h) ->
  bbits s = bits_of H m k (live h) /\ bm s = m /\ bk s = k.
Proof.
  intros C R _. destruct (brun_spec h s R) as (Hm & Hk & Hb).
  rewrite C in *. cbn [fst snd] in *. auto.
Qed.

Lemma brun_wf h s : brun H h = Some s -> bwf s.
Proof.
  intros R. destruct (brun_spec h s R) as (Hm & Hk & Hb).
  unfold bwf. rewrite Hb, bits_of_length, Hm. reflexivity.
Qed.

(* ------------------------------------------------------------------------- *)
(* Theorem 4: totality of query and insert on reachable states with m >= 1    *)
(* ------------------------------------------------------------------------- *)

Theorem bloom_query_total h s x :
  brun H h = Some s -> 1 <= fst (bcfg h) -> exists b, bloom_query H s x = Some b.
Proof.
  intros R Hm. destruct (brun_spec h s R) as (Em & _ & _).
  rewrite bloom_query_eq. destruct (N.eqb_spec (bm s) 0) as [E|E]; [lia|]. eauto.
Qed.

Theorem bloom_insert_total h s x :
  brun H h = Some s -> 1 <= fst (bcfg h) -> exists r s', bloom_insert H s x = Some (r, s').
Proof.
  intros R Hm. destruct (brun_spec h s R) as (Em & _ & _).
  rewrite bloom_insert_eq; [eauto|eapply brun_wf; eauto|lia].
Qed.

Corollary brun_ins_total h s x :
  brun H h = Some s -> 1 <= fst (bcfg h) -> exists s', brun H (BIns h x) = Some s'.
Proof.
  intros R Hm. destruct (bloom_insert_total h s x R Hm) as (r & s' & E).
  cbn [brun]. rewrite R, E. eauto.
Qed.

(* the converse: with m = 0 insert and query always panic (remainder by zero) *)
Lemma bloom_m0_panics s x : bm s = 0 -> bloom_insert H s x = None /\ bloom_query H s x = None.
Proof. intros E. unfold bloom_insert, bloom_query. rewrite E. auto. Qed.

(* ------------------------------------------------------------------------- *)
(* Theorem 5: insert reports "new" iff query said "absent"                    *)
(* ------------------------------------------------------------------------- *)

Theorem bloom_insert_result h s x r s' :
  brun H h = Some s -> 1 <= fst (bcfg h) ->
  bloom_insert H s x = Some (r, s') -> bloom_query H s x = Some (negb r).
Proof.
  intros R Hm I. destruct (brun_spec h s R) as (Em & _ & _).
  rewrite bloom_insert_eq in I; [|eapply brun_wf; eauto|lia].
  inversion I; subst r s'; clear I.
  rewrite bloom_query_eq. destruct (N.eqb_spec (bm s) 0) as [E|E]; [lia|].
  rewrite negb_involutive. reflexivity.
Qed.

(* ------------------------------------------------------------------------- *)
(* Theorem 3: no false negatives                                              *)
(* ------------------------------------------------------------------------- *)

Lemma hit_self m k x p :
  In p (positions H m k x) -> hit H m k (N.to_nat p) x = true.
Proof.
  intros Hp. unfold hit. apply existsb_exists. exists p; split; auto.
  unfold at_pos. apply Nat.eqb_refl.
Qed.

Lemma bits_of_member m k l x p :
  1 <= m -> In x l -> In p (positions H m k x) -> getb (bits_of H m k l) p = true.
Proof.
  intros Hm Hx Hp. unfold getb.
  assert (Hlt : p < m).
  { pose proof (positions_lt H m k x Hm) as F. rewrite Forall_forall in F. apply F; auto. }
  rewrite bits_of_nth by lia.
  apply existsb_exists. exists x; split; auto. apply hit_self; auto.
Qed.

Theorem bloom_no_false_negative h s x :
  brun H h = Some s -> 1 <= fst (bcfg h) -> In x (live h) -> bloom_query H s x = Some true.
Proof.
  intros R Hm Hx. destruct (brun_spec h s R) as (Em & Ek & Eb).
  rewrite bloom_query_eq. destruct (N.eqb_spec (bm s) 0) as [E|E]; [lia|].
  f_equal. apply forallb_forall. intros p Hp.
  rewrite Eb, Em, Ek in *. apply bits_of_member with (x := x); auto.
Qed.

End Ops.

(* ------------------------------------------------------------------------- *)
(* Theorem 6: union algebra                                                   *)
(* ------------------------------------------------------------------------- *)

(* These hold for ALL pairs of states, reachable or not. *)
Theorem bloom_union_comm a b : bloom_union a b = bloom_union b a.
Proof.
  unfold bloom_union.
  destruct (N.eqb_spec (bk a) (bk b)) as [Ek|Ek]; destruct (N.eqb_spec (bk b) (bk a)) as [Ek'|Ek'];
    try congruence; cbn [andb]; auto.
  destruct (N.eqb_spec (bm a) (bm b)) as [Em|Em]; destruct (N.eqb_spec (bm b) (bm a)) as [Em'|Em'];
    try congruence; auto.
  rewrite Ek, Em, orl_comm. reflexivity.
Qed.

Theorem bloom_union_assoc a b c :
  (do ab <- bloom_union a b; bloom_union ab c) = (do bc <- bloom_union b c; bloom_union a bc).
Proof.
  unfold bloom_union, obind.
  destruct (N.eqb_spec (bk a) (bk b)) as [Ek|Ek]; destruct (N.eqb_spec (bm a) (bm b)) as [Em|Em];
    destruct (N.eqb_spec (bk b) (bk c)) as [Ek2|Ek2]; destruct (N.eqb_spec (bm b) (bm c)) as [Em2|Em2];
    cbn [andb bm bk bbits]; auto;
    destruct (N.eqb_spec (bk a) (bk c)) as [Ek3|Ek3]; destruct (N.eqb_spec (bm a) (bm c)) as [Em3|Em3];
    cbn [andb]; try congruence;
    try (destruct (N.eqb_spec (bk a) (bk b)); destruct (N.eqb_spec (bm a) (bm b)); cbn [andb]; congruence).
  destruct (N.eqb_spec (bk a) (bk b)); destruct (N.eqb_spec (bm a) (bm b)); cbn [andb]; try congruence.
  rewrite orl_assoc. reflexivity.
Qed.

Theorem bloom_union_idem s : bloom_union s s = Some s.
Proof.
  unfold bloom_union. rewrite !N.eqb_refl. cbn [andb]. rewrite orl_idem. destruct s; reflexivity.
Qed.

Section Ops2.
Variable H : hashfn.

(* union of two reachable filters succeeds iff their configurations agree *)
Lemma brun_union_total h1 h2 a b :
  brun H h1 = Some a -> brun H h2 = Some b -> bcfg h1 = bcfg h2 ->
  exists s, brun H (BUnion h1 h2) = Some s.
Proof.
  intros R1 R2 C. cbn [brun]. rewrite R1, R2.
  destruct (brun_spec H h1 a R1) as (Em1 & Ek1 & _).
  destruct (brun_spec H h2 b R2) as (Em2 & Ek2 & _).
  unfold bloom_union. rewrite Ek1, Ek2, Em1, Em2, C, !N.eqb_refl. cbn [andb]. eauto.
Qed.

Theorem bloom_union_equals_both_streams h1 h2 s :
  brun H (BUnion h1 h2) = Some s ->
  bbits s = bits_of H (fst (bcfg h1)) (snd (bcfg h1)) (live h1 ++ live h2).
Proof. intros R. apply (brun_spec H (BUnion h1 h2) s R). Qed.

(* the union state is the state obtained by inserting both streams, in order, into one filter *)
Fixpoint ins_all (h : bhist) (l : list N) : bhist :=
  match l with [] => h | x :: r => ins_all (BIns h x) r end.

Lemma live_ins_all h l : live (ins_all h l) = live h ++ l.
Proof.
  revert h; induction l as [|x r IH]; intros h; cbn [ins_all].
  - rewrite app_nil_r; auto.
  - rewrite IH. cbn [live]. rewrite <- app_assoc. reflexivity.
Qed.

Lemma bcfg_ins_all h l : bcfg (ins_all h l) = bcfg h.
Proof. revert h; induction l as [|x r IH]; intros h; cbn [ins_all]; auto. rewrite IH; auto. Qed.

Lemma bloom_eq_intro (s t : bloom) : bm s = bm t -> bk s = bk t -> bbits s = bbits t -> s = t.
Proof. destruct s, t; cbn; intros; subst; reflexivity. Qed.

Theorem bloom_union_equals_single_filter h1 h2 s t :
  brun H (BUnion h1 h2) = Some s ->
  brun H (ins_all (BNew (fst (bcfg h1)) (snd (bcfg h1))) (live h1 ++ live h2)) = Some t ->
  s = t.
Proof.
  intros R T.
  destruct (brun_spec H _ s R) as (Em & Ek & Eb).
  destruct (brun_spec H _ t T) as (Em' & Ek' & Eb').
  rewrite bcfg_ins_all, live_ins_all in *. cbn [bcfg live fst snd app] in *.
  apply bloom_eq_intro; congruence.
Qed.

(* history-level commutativity, associativity, idempotence *)
Theorem brun_union_comm h1 h2 : brun H (BUnion h1 h2) = brun H (BUnion h2 h1).
Proof.
  cbn [brun]. destruct (brun H h1) as [a|]; destruct (brun H h2) as [b|]; auto.
  apply bloom_union_comm.
Qed.

Theorem brun_union_assoc h1 h2 h3 :
  brun H (BUnion (BUnion h1 h2) h3) = brun H (BUnion h1 (BUnion h2 h3)).
Proof.
  cbn [brun].
  destruct (brun H h1) as [a|]; destruct (brun H h2) as [b|]; destruct (brun H h3) as [c|]; auto.
  - pose proof (bloom_union_assoc a b c) as A. unfold obind in A.
    destruct (bloom_union a b) as [ab|]; destruct (bloom_union b c) as [bc|]; auto.
  - destruct (bloom_union a b); auto.
Qed.

Theorem brun_union_idem h s : brun H h = Some s -> brun H (BUnion h h) = Some s.
Proof. intros R. cbn [brun]. rewrite R. apply bloom_union_idem. Qed.

(* the bit vector of a union depends only on the set of live keys of both operands *)
Theorem bloom_union_set h1 h2 h1' h2' s s' :
  brun H (BUnion h1 h2) = Some s -> brun H (BUnion h1' h2') = Some s' ->
  bcfg h1 = bcfg h1' ->
  (forall x, In x (live h1 ++ live h2) <-> In x (live h1' ++ live h2')) ->
  s = s'.
Proof.
  intros R R' C Hin.
  destruct (brun_spec H _ s R) as (Em & Ek & Eb).
  destruct (brun_spec H _ s' R') as (Em' & Ek' & Eb').
  cbn [bcfg live] in *. rewrite <- C in *.
  apply bloom_eq_intro; try congruence.
  rewrite Eb, Eb'. apply bits_of_set_ext; auto.
Qed.

(* ------------------------------------------------------------------------- *)
(* Theorem 7: clear and is_empty                                              *)
(* ------------------------------------------------------------------------- *)

Theorem bloom_clear_init h s :
  brun H h = Some s -> bloom_clear s = bloom_new (fst (bcfg h)) (snd (bcfg h)).
Proof.
  intros R. destruct (brun_spec H h s R) as (Em & Ek & Eb).
  unfold bloom_clear, bloom_new. rewrite Em, Ek, Eb, bits_of_length. reflexivity.
Qed.

Lemma forallb_negb_repeat n : forallb negb (repeat false n) = true.
Proof. induction n as [|n IH]; cbn [repeat forallb negb andb]; auto. Qed.

Theorem bloom_is_empty_iff h s :
  brun H h = Some s -> 1 <= fst (bcfg h) -> 1 <= snd (bcfg h) ->
  (bloom_is_empty s = true <-> live h = []).
Proof.
  intros R Hm Hk. destruct (brun_spec H h s R) as (Em & Ek & Eb).
  set (m := fst (bcfg h)) in *. set (k := snd (bcfg h)) in *.
  unfold bloom_is_empty. rewrite Eb. split.
  - intros E. destruct (live h) as [|x l] eqn:L; auto. exfalso.
    rewrite forallb_forall in E.
    (* position 0 of key x is set *)
    assert (Hp : In (pos H m x 0) (positions H m k x)).
    { unfold positions. apply in_map. apply Nseq_In. lia. }
    pose proof (bits_of_member H m k (x :: l) x _ Hm (or_introl eq_refl) Hp) as G.
    unfold getb in G.
    assert (Hin : In true (bits_of H m k (x :: l))).
    { rewrite <- G. apply nth_In. rewrite bits_of_length.
      pose proof (pos_lt H m x 0 Hm). lia. }
    apply E in Hin. discriminate.
  - intros L. rewrite L, bits_of_nil. apply forallb_negb_repeat.
Qed.

(* with k = 0 no bit is ever set: is_empty stays true whatever was inserted *)
Lemma bits_of_k0 m l : bits_of H m 0 l = repeat false (N.to_nat m).
Proof.
  apply (list_ext_nth false).
  - rewrite bits_of_length, repeat_length; auto.
  - intros i Hi. rewrite bits_of_length in Hi. rewrite bits_of_nth by auto.
    rewrite nth_repeat. induction l as [|x l IH]; cbn [existsb]; auto.
Qed.

Theorem bloom_k0_always_empty h s :
  brun H h = Some s -> snd (bcfg h) = 0 -> bloom_is_empty s = true.
Proof.
  intros R K. destruct (brun_spec H h s R) as (_ & _ & Eb).
  unfold bloom_is_empty. rewrite Eb, K, bits_of_k0. apply forallb_negb_repeat.
Qed.

(* ... and with k = 0 every query answers "present" *)
Lemma bloom_k0_query_true h s x :
  brun H h = Some s -> 1 <= fst (bcfg h) -> snd (bcfg h) = 0 -> bloom_query H s x = Some true.
Proof.
  intros R Hm K. destruct (brun_spec H h s R) as (Em & Ek & _).
  rewrite bloom_query_eq. destruct (N.eqb_spec (bm s) 0) as [E|E]; [lia|].
  rewrite Ek, K. reflexivity.
Qed.

End Ops2.

(* ------------------------------------------------------------------------- *)
(* Non-vacuity: concrete histories                                            *)
(* ------------------------------------------------------------------------- *)

Definition exH : hashfn := fun iv v =>
  match iv, v with
  | Some i, Some x => 7 * x + 3 * i + 1
  | Some i, None => 5 * i + 2
  | None, Some x => x
  | None, None => 0
  end.

Definition exh1 : bhist := BIns (BIns (BNew 16 3) 10) 11.
Definition exh2 : bhist := BIns (BClear (BIns (BNew 16 3) 99)) 12.
Definition exhU : bhist := BUnion exh1 exh2.

Example ex_positions : positions exH 16 3 10 = [3; 2; 1].
Proof. vm_compute. reflexivity. Qed.

Example ex_run_union :
  exists s, brun exH exhU = Some s /\ bloom_ones s = 8 /\ bcfg exhU = (16, 3) /\
            live exhU = [10; 11; 12] /\ bloom_is_empty s = false.
Proof. eexists. vm_compute. repeat split; reflexivity. Qed.

Example ex_state_spec :
  exists s, brun exH exhU = Some s /\ bbits s = bits_of exH 16 3 [10; 11; 12].
Proof. eexists. split; vm_compute; reflexivity. Qed.

Example ex_no_false_negative :
  exists s, brun exH exhU = Some s /\
            bloom_query exH s 10 = Some true /\ bloom_query exH s 12 = Some true /\
            bloom_query exH s 13 = Some false /\
            (* 99 was cleared away in exh2, yet is reported: a genuine false positive *)
            bloom_query exH s 99 = Some true.
Proof. eexists. vm_compute. repeat split; reflexivity. Qed.

Example ex_insert_result :
  exists s s1 s2, brun exH exh1 = Some s /\
               bloom_insert exH s 10 = Some (false, s1) /\ bloom_query exH s 10 = Some true /\
               bloom_insert exH s 12 = Some (true, s2) /\ bloom_query exH s 12 = Some false.
Proof. do 3 eexists. vm_compute. repeat split; reflexivity. Qed.

Example ex_union_comm_idem :
  brun exH (BUnion exh1 exh2) = brun exH (BUnion exh2 exh1) /\
  brun exH (BUnion exh1 exh1) = brun exH exh1 /\ brun exH exh1 <> None.
Proof. vm_compute. repeat split; try reflexivity. discriminate. Qed.

Example ex_clear :
  exists s, brun exH (BClear exhU) = Some s /\ s = bloom_new 16 3 /\ bloom_is_empty s = true.
Proof. eexists. vm_compute. repeat split; reflexivity. Qed.

Example ex_k0 :
  exists s, brun exH (BIns (BIns (BNew 16 0) 1) 2) = Some s /\ bloom_is_empty s = true /\
            bloom_query exH s 77 = Some true.
Proof. eexists. vm_compute. repeat split; reflexivity. Qed.

Example ex_m0_panics : brun exH (BIns (BNew 0 3) 1) = None.
Proof. reflexivity. Qed.

(* an adversarial (constant) hasher: all keys collide, theorems still apply *)
Example ex_adversarial :
  exists s, brun (fun _ _ => 0) (BIns (BNew 8 4) 5) = Some s /\ bloom_ones s = 1 /\
            bloom_query (fun _ _ => 0) s 6 = Some true.
Proof. eexists. vm_compute. repeat split; reflexivity. Qed.

Print Assumptions pos_lt.
Print Assumptions bloom_state_spec.
Print Assumptions bloom_no_false_negative.
Print Assumptions bloom_query_total.
Print Assumptions bloom_insert_total.
Print Assumptions bloom_insert_result.
Print Assumptions bits_of_set_ext.
Print Assumptions bloom_union_comm.
Print Assumptions bloom_union_assoc.
Print Assumptions bloom_union_idem.
Print Assumptions bloom_union_equals_both_streams.
Print Assumptions bloom_union_equals_single_filter.
Print Assumptions bloom_union_set.
Print Assumptions brun_union_comm.
Print Assumptions brun_union_assoc.
Print Assumptions brun_union_idem.
Print Assumptions bloom_clear_init.
Print Assumptions bloom_is_empty_iff.
Print Assumptions bloom_k0_always_empty.
